/-
  PyEcc.Lemmas.TransferRefBase — vocabulary for the homomorphism principle of the REFERENCE curve modules
  (`Gen.RefBls`, `Gen.RefBn`): points are `Option (F × F)` (`none` = ∞), `add`/`multiply` return
  `Except PyErr (Option (F × F))`.  `mapO`/`mapE` apply a coordinate map, `GoodO`/`GoodE` say that the
  coordinates (if any) satisfy a predicate.
-/
import PyEcc.Lemmas.TransferBase
import PyEcc.Model.Basic

namespace PyEcc.Transfer

/-- apply a coordinate map to a reference-module point (`none` = ∞) -/
def mapO {A B : Type} (ψ : A → B) (p : Option (A × A)) : Option (B × B) := p.map (mapP ψ)

/-- apply a coordinate map to the result of a reference-module function that may raise -/
def mapE {A B : Type} (ψ : A → B) (r : Except PyErr (Option (A × A))) : Except PyErr (Option (B × B)) :=
  match r with
  | .error e => .error e
  | .ok p => .ok (mapO ψ p)

/-- a reference-module point with good coordinates (∞ is good) -/
def GoodO {A : Type} (Good : A → Prop) (p : Option (A × A)) : Prop :=
  match p with
  | none => True
  | some q => GoodP Good q

/-- a result (or exception) whose point, if any, is good -/
def GoodE {A : Type} (Good : A → Prop) (r : Except PyErr (Option (A × A))) : Prop :=
  match r with
  | .error _ => True
  | .ok p => GoodO Good p

@[simp] theorem mapO_none {A B : Type} (ψ : A → B) : mapO ψ none = none := rfl
@[simp] theorem mapO_some {A B : Type} (ψ : A → B) (x y : A) : mapO ψ (some (x, y)) = some (ψ x, ψ y) := rfl
@[simp] theorem mapE_ok {A B : Type} (ψ : A → B) (p : Option (A × A)) : mapE ψ (.ok p) = .ok (mapO ψ p) := rfl
@[simp] theorem mapE_error {A B : Type} (ψ : A → B) (e : PyErr) :
    mapE ψ (.error e : Except PyErr (Option (A × A))) = .error e := rfl

theorem mapO_eq_none {A B : Type} (ψ : A → B) (p : Option (A × A)) : mapO ψ p = none ↔ p = none := by
  cases p <;> simp [mapO]

theorem mapO_comp {A B C : Type} (ψ : A → B) (χ : B → C) (p : Option (A × A)) :
    mapO χ (mapO ψ p) = mapO (fun a => χ (ψ a)) p := by
  rcases p with _ | ⟨x, y⟩ <;> rfl

theorem mapE_comp {A B C : Type} (ψ : A → B) (χ : B → C) (r : Except PyErr (Option (A × A))) :
    mapE χ (mapE ψ r) = mapE (fun a => χ (ψ a)) r := by
  rcases r with e | p
  · rfl
  · simp [mapO_comp]

theorem mapO_inj {A B : Type} {ψ : A → B} (hψ : Function.Injective ψ) {p q : Option (A × A)}
    (e : mapO ψ p = mapO ψ q) : p = q := by
  rcases p with _ | ⟨x, y⟩ <;> rcases q with _ | ⟨x', y'⟩
  · rfl
  · simp [mapO] at e
  · simp [mapO] at e
  · simp only [mapO_some, Option.some.injEq, Prod.mk.injEq] at e
    rw [hψ e.1, hψ e.2]

theorem mapE_inj {A B : Type} {ψ : A → B} (hψ : Function.Injective ψ)
    {r s : Except PyErr (Option (A × A))} (e : mapE ψ r = mapE ψ s) : r = s := by
  rcases r with e₁ | p <;> rcases s with e₂ | q
  · simpa using e
  · simp at e
  · simp at e
  · simp only [mapE_ok, Except.ok.injEq] at e
    rw [mapO_inj hψ e]

end PyEcc.Transfer
