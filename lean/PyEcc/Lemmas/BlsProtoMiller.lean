/-
  PyEcc.Lemmas.BlsProtoMiller — a SMALLER hypothesis bundle for C01–C03.

  `PairingFacts` (`Lemmas/BlsProto.lean`) contains the field `miller`, which speaks about the final
  exponentiation of a PRODUCT of Miller values.  Since C12 (`final_exponentiate(x) = x ** ((p¹²−1)/r)` in
  the executable model, `Props/C12_Final.lean`) and the ring laws of the `FQ12` model
  (`Lemmas/PairingSem.lean`) are proved, multiplicativity of the final exponentiation is a THEOREM.
  What remains to be assumed about the model is a statement on ONE pairing call at a time:

    `value` — for a pairing call on canonical, on-curve, `r`-torsion arguments representing `(q, p)`, the
              final exponentiation of the Miller value is (the value in `F_{p¹²} = F_p[X]/(X¹²−2X⁶+2)` of)
              `e q p` — whatever the projective representatives.

  `PairingValueFacts e → PairingFacts e` (`PairingValueFacts.toPairingFacts`), so every theorem of
  `Props/C0{1,2,3}_Proto.lean` holds under `PairingValueFacts e`, whose fields are exactly
  HB1 (bilinearity), ND (non-degeneracy against `G1`), HB1′ (the value identification above), HT6.
-/
import PyEcc.Lemmas.BlsProto
import PyEcc.Props.C12_Final

set_option linter.unusedSectionVars false
set_option maxRecDepth 100000

namespace PyEcc.BlsProto
open PyEcc PyEcc.Gen PyEcc.Gen.Consts PyEcc.Fqp PyEcc.FqpSem PyEcc.Transfer PyEcc.BlsSem

/-- the ring `F_p[X]/(X¹² − 2X⁶ + 2)` in which the values of the model's `FQ12` objects live (a field:
    `C08F12.irreducible_bls12`; only its commutative-ring structure is used here) -/
abbrev K12 : Type := AdjoinRoot (modulus blsP blsMc12)

/-- **`PairingValueFacts e`** for a map `e : E2 → E1 → K12ˣ` ("the reduced pairing, with values in the
    units of `F_{p¹²}`").  In plain words:
    * `add_left`, `add_right` — HB1: `e` is additive in each argument on `r`-torsion points;
    * `nondeg` — ND: an `r`-torsion point `q` of the twist curve with `e q g1 = 1` is `0`;
    * `value` — HB1′: for every pairing call the verification code can make (canonical on-curve triples
      representing `r`-torsion points `q`, `p`; `pairing(Q, P, final_exponentiate=False) = m`), the value
      of `final_exponentiate(m)` in `F_{p¹²}` is `e q p` — independent of the representatives;
    * `hash_good` — HT6: `hash_to_G2` returns canonical triples on the twist curve passing
      `subgroup_check`. -/
structure PairingValueFacts [DecidableEq K2] (e : E2 → E1 → K12ˣ) : Prop where
  add_left : ∀ {q q' : E2} {p : E1}, blsR • q = 0 → blsR • q' = 0 → blsR • p = 0 →
    e (q + q') p = e q p * e q' p
  add_right : ∀ {q : E2} {p p' : E1}, blsR • q = 0 → blsR • p = 0 → blsR • p' = 0 →
    e q (p + p') = e q p * e q p'
  nondeg : ∀ {g : E1}, Represents blsG1 g → ∀ {q : E2}, blsR • q = 0 → e q g = 1 → q = 0
  value : ∀ a : Arg, a.Good → (toQ (finalExponentiateOptBls a.m) : K12) = ((e a.q a.p : K12ˣ) : K12)
  hash_good : ∀ (H : HashFn) (msg dst : Bytes) (mp : G2Pt), hashToG2 H msg dst = .ok mp →
    CanonT mp ∧ OptBls.is_on_curve mp blsB2 = true ∧ subgroupCheck mp = true

theorem hd12 : 1 ≤ blsMc12.length := by decide
theorem hp12 : 0 < blsP := by decide

/-- the exponent of the final exponentiation -/
abbrev finalExp : ℕ := (Spec.BLS12381.p ^ 12 - 1) / Spec.BLS12381.r

/-- value of `final_exponentiate(x)` for any 12-coefficient `x`: the `finalExp`-th power of the value -/
theorem toQ_finalExponentiate (x : OBls12) (hx : WF x) :
    (toQ (finalExponentiateOptBls x) : K12) = (toQ x) ^ finalExp := by
  rw [C12.finalExponentiateOptBls_eq_pow x hx]
  exact toQ_pow hd12 hx _

theorem canon_finalExponentiate (x : OBls12) (hx : WF x) : Canon (finalExponentiateOptBls x) := by
  rw [C12.finalExponentiateOptBls_eq_pow x hx]
  exact canon_pow hp12 hd12 hx _

/-- the left-nested product of well-formed Miller values is well-formed, and its value is the product -/
theorem mprod_spec : ∀ (ms : List OBls12), ms ≠ [] → (∀ m ∈ ms, WF m) →
    WF (mprod ms) ∧ (toQ (mprod ms) : K12) = (ms.map toQ).prod := by
  intro ms hne hwf
  cases ms with
  | nil => exact (hne rfl).elim
  | cons m rest =>
    obtain ⟨w, q⟩ := PairingSem.foldl_mul_spec rest (fun f hf => hwf f (List.mem_cons_of_mem _ hf)) m
      (hwf m (List.mem_cons_self ..))
    exact ⟨w, by rw [List.map_cons, List.prod_cons]; exact q⟩

section
variable [DecidableEq K2] {e : E2 → E1 → K12ˣ}

/-- **Multiplicativity of the final exponentiation is proved, not assumed**: the per-call hypothesis
    `value` implies the product form `miller` of `PairingFacts`. -/
theorem PairingValueFacts.miller (pv : PairingValueFacts e) (l : List Arg) (hne : l ≠ [])
    (hgood : ∀ a ∈ l, a.Good) :
    finalExponentiateOptBls (mprod (l.map Arg.m)) = (1 : OBls12) ↔
      (l.map fun a => e a.q a.p).prod = 1 := by
  have hwf : ∀ m ∈ l.map Arg.m, WF m := by
    intro m hm
    obtain ⟨a, ha, rfl⟩ := List.mem_map.mp hm
    exact C12.pairingOptBls_wf a.Q a.P false a.m (hgood a ha).2.2.2.2
  obtain ⟨w, q⟩ := mprod_spec (l.map Arg.m) (by simpa using hne) hwf
  have hval : (toQ (finalExponentiateOptBls (mprod (l.map Arg.m))) : K12)
      = (((l.map fun a => e a.q a.p).prod : K12ˣ) : K12) := by
    rw [toQ_finalExponentiate _ w, q, C12.two_step_final_exp, List.map_map, List.map_map]
    have : ((l.map fun a => e a.q a.p).prod : K12ˣ).val
        = (l.map fun a => ((e a.q a.p : K12ˣ) : K12)).prod := by
      rw [← Units.coeHom_apply, map_list_prod, List.map_map]
      rfl
    rw [this]
    apply congrArg List.prod
    apply List.map_congr_left
    intro a ha
    show (toQ a.m : K12) ^ finalExp = _
    rw [← toQ_finalExponentiate a.m (hwf _ (List.mem_map_of_mem ha)), pv.value a (hgood a ha)]
  constructor
  · intro h
    rw [h, show (toQ (1 : OBls12) : K12) = 1 from toQ_one] at hval
    exact Units.ext hval.symm
  · intro h
    rw [h, Units.val_one, ← show (toQ (1 : OBls12) : K12) = 1 from toQ_one] at hval
    exact toQ_inj (canon_finalExponentiate _ w) (canon_one hp12 hd12) hval

/-- **The smaller bundle implies the one used by the headline theorems.** -/
theorem PairingValueFacts.toPairingFacts (pv : PairingValueFacts e) : PairingFacts e where
  add_left := pv.add_left
  add_right := pv.add_right
  nondeg := pv.nondeg
  miller := pv.miller
  hash_good := pv.hash_good

end

end PyEcc.BlsProto
