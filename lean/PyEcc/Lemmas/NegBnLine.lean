/-
  PyEcc.Lemmas.NegBnLine — (bn128 counterpart of `Lemmas/NegLine.lean`, same proofs) the reference line
  function, `double`, `add` over the bn128 field `K12bn`
  against the grading `K12bn = Fp⁶ ⊕ w·Fp⁶` (`Lemmas/NegBnField.lean`).

  A "twisted-type" point (`TwT`) has `x ∈ Fp⁶`, `y ∈ w·Fp⁶` — e.g. `twist(Q) = (ψ(x)·w², ψ(y)·w³)`;
  `double`, `add` preserve the type.  For twisted-type `A`, `B` and `T = (x_T, y_T)` with
  `x_T, y_T ∈ Fp⁶`:
   * `linefunc(A, B, (x_T, −y_T)) = ∓ σ(linefunc(A, B, (x_T, y_T)))`   (`line_negT`);
   * `linefunc(A, B, T) ≠ 0` when `y_T ≠ 0` and the line is not vertical (`line_ne_zero`).
-/
import PyEcc.Lemmas.NegBnField
import PyEcc.Lemmas.NegLoop

set_option linter.unusedSectionVars false
set_option linter.unusedVariables false
set_option maxRecDepth 100000

namespace PyEcc.NegBnSem
open Polynomial PyEcc PyEcc.Gen PyEcc.Gen.Consts PyEcc.Fqp PyEcc.FqpSem PyEcc.TwistSem PyEcc.PairingSem
  PyEcc.MillerSem PyEcc.NegSem
open PyEcc.Transfer (OpHom GoodHom)

variable [DecidableEq K12bn]

/-- `σ` preserves every operation of the generated code -/
theorem opHom_sigma : OpHom (sigma : K12bn → K12bn) where
  map_zero := map_zero sigma
  map_one := map_one sigma
  map_add := map_add sigma
  map_sub := map_sub sigma
  map_mul := map_mul sigma
  map_neg := map_neg sigma
  map_div := map_div₀ sigma
  map_natCast := map_natCast sigma
  map_pow := map_pow sigma
  inj := sigma_injective

/-- twisted-type point: `x ∈ Fp⁶`, `y ∈ w·Fp⁶` (`∞` counts) -/
def TwT (R : Option (K12bn × K12bn)) : Prop := ∀ x y, R = some (x, y) → InFp6 x ∧ InWFp6 y

/-- base-type point: both coordinates in `Fp⁶` -/
def BaseT (R : Option (K12bn × K12bn)) : Prop := ∀ x y, R = some (x, y) → InFp6 x ∧ InFp6 y

theorem twT_none : TwT none := by intro x y h; cases h
theorem twT_some {x y : K12bn} (hx : InFp6 x) (hy : InWFp6 y) : TwT (some (x, y)) := by
  intro x' y' h; cases h; exact ⟨hx, hy⟩

/-- for a twisted-type point, `σ` is the negation -/
theorem mapO_sigma_of_twT {R : Option (K12bn × K12bn)} (h : TwT R) : mapO sigma R = RefBls.neg R := by
  rcases R with _ | ⟨x, y⟩
  · rfl
  · obtain ⟨hx, hy⟩ := h x y rfl
    simp only [mapO_some, RefBls.neg, reduceCtorEq, if_false]
    rw [hx, hy]

theorem twT_double {R : Option (K12bn × K12bn)} (h : TwT R) : TwT (RefBls.double R) := by
  rcases R with _ | ⟨x, y⟩
  · exact h
  · obtain ⟨hx, hy⟩ := h x y rfl
    simp only [RefBls.double, RefBls.is_inf, reduceCtorEq, decide_false, Bool.false_eq_true, or_self,
      if_false]
    split_ifs
    · exact twT_none
    · have hm : InWFp6 ((((3 : ℕ) : K12bn) * x ^ 2) / (((2 : ℕ) : K12bn) * y)) :=
        ((even_natCast 3).mul (hx.pow 2)).div_odd ((even_natCast 2).mul_odd hy)
      have hnx := (hm.sq).sub ((even_natCast 2).mul hx)
      exact twT_some hnx (((hm.neg.mul_even hnx).add (hm.mul_even hx)).sub hy)

theorem twT_add {A B R : Option (K12bn × K12bn)} (hA : TwT A) (hB : TwT B)
    (h : RefBls.add A B = .ok R) : TwT R := by
  rcases A with _ | ⟨x1, y1⟩ <;> rcases B with _ | ⟨x2, y2⟩
  · simp [RefBls.add] at h; subst h; exact twT_none
  · simp [RefBls.add] at h; subst h; exact hB
  · simp [RefBls.add] at h; subst h; exact hA
  · obtain ⟨hx1, hy1⟩ := hA x1 y1 rfl
    obtain ⟨hx2, hy2⟩ := hB x2 y2 rfl
    simp only [RefBls.add, reduceCtorEq, or_self, if_false] at h
    by_cases c1 : x2 = x1 ∧ y2 = y1
    · rw [if_pos c1] at h; cases h; exact twT_double hA
    rw [if_neg c1] at h
    by_cases c2 : x2 = x1
    · rw [if_pos c2] at h; cases h; exact twT_none
    rw [if_neg c2] at h
    split_ifs at h
    all_goals first
      | cases h; done
      | (cases h
         have hm : InWFp6 ((y2 - y1) / (x2 - x1)) := (hy2.sub hy1).div_even (hx2.sub hx1)
         have hnx := ((hm.sq).sub hx1).sub hx2
         exact twT_some hnx (((hm.neg.mul_even hnx).add (hm.mul_even hx1)).sub hy1))

/-! ### the line function -/

/-- `b = ± σ a` -/
def SgnRel (a b : K12bn) : Prop := b = sigma a ∨ b = -sigma a

theorem SgnRel.mul {a b c d : K12bn} (h1 : SgnRel a b) (h2 : SgnRel c d) : SgnRel (a * c) (b * d) := by
  unfold SgnRel at *
  rw [map_mul]
  rcases h1 with h1 | h1 <;> rcases h2 with h2 | h2 <;> rw [h1, h2]
  · left; rfl
  · right; ring
  · right; ring
  · left; ring

theorem sgnRel_one : SgnRel 1 1 := Or.inl (map_one sigma).symm

/-- the three branches of the reference `linefunc` on finite points -/
theorem linefunc_some (x1 y1 x2 y2 xt yt : K12bn) :
    RefBls.linefunc (some (x1, y1)) (some (x2, y2)) (some (xt, yt)) =
      if x1 ≠ x2 then .ok ((y2 - y1) / (x2 - x1) * (xt - x1) - (yt - y1))
      else if y1 = y2 then
        .ok ((((3 : ℕ) : K12bn) * x1 ^ 2) / (((2 : ℕ) : K12bn) * y1) * (xt - x1) - (yt - y1))
      else .ok (xt - x1) := by
  simp only [RefBls.linefunc, reduceCtorEq, or_self, if_false]

/-- **negating the evaluation point conjugates the line value up to sign** -/
theorem line_negT {A B : Option (K12bn × K12bn)} {xt yt l : K12bn} (hA : TwT A) (hB : TwT B)
    (hxt : InFp6 xt) (hyt : InFp6 yt) (h : RefBls.linefunc A B (some (xt, yt)) = .ok l) :
    ∃ l', RefBls.linefunc A B (some (xt, -yt)) = .ok l' ∧ SgnRel l l' := by
  rcases A with _ | ⟨x1, y1⟩
  · simp [RefBls.linefunc] at h
  rcases B with _ | ⟨x2, y2⟩
  · simp [RefBls.linefunc] at h
  obtain ⟨hx1, hy1⟩ := hA x1 y1 rfl
  obtain ⟨hx2, hy2⟩ := hB x2 y2 rfl
  unfold InFp6 at hx1 hx2 hxt hyt
  unfold InWFp6 at hy1 hy2
  rw [linefunc_some] at h ⊢
  by_cases c1 : x1 ≠ x2
  · rw [if_pos c1] at h ⊢
    cases h
    refine ⟨_, rfl, Or.inr ?_⟩
    simp only [map_sub, map_mul, map_div₀, hx1, hx2, hy1, hy2, hxt, hyt]
    ring
  rw [if_neg c1] at h ⊢
  by_cases c2 : y1 = y2
  · rw [if_pos c2] at h ⊢
    cases h
    refine ⟨_, rfl, Or.inr ?_⟩
    have hm : sigma ((((3 : ℕ) : K12bn) * x1 ^ 2) / (((2 : ℕ) : K12bn) * y1))
        = -((((3 : ℕ) : K12bn) * x1 ^ 2) / (((2 : ℕ) : K12bn) * y1)) :=
      ((even_natCast 3).mul (InFp6.pow hx1 2)).div_odd ((even_natCast 2).mul_odd hy1)
    generalize (((3 : ℕ) : K12bn) * x1 ^ 2) / (((2 : ℕ) : K12bn) * y1) = m at hm ⊢
    simp only [map_sub, map_mul, hm, hx1, hy1, hxt, hyt]
    ring
  · rw [if_neg c2] at h ⊢
    cases h
    refine ⟨_, rfl, Or.inl ?_⟩
    simp only [map_sub, hx1, hxt]

/-- **a non-vertical line does not vanish at a point with coordinates in `Fp⁶`, `y ≠ 0`** -/
theorem line_ne_zero {x1 y1 x2 y2 xt yt l : K12bn} (hx1 : InFp6 x1) (hy1 : InWFp6 y1) (hx2 : InFp6 x2)
    (hy2 : InWFp6 y2) (hxt : InFp6 xt) (hyt : InFp6 yt) (hy0 : yt ≠ 0)
    (h : RefBls.linefunc (some (x1, y1)) (some (x2, y2)) (some (xt, yt)) = .ok l)
    (hnv : x1 ≠ x2 ∨ y1 = y2) : l ≠ 0 := by
  rw [linefunc_some] at h
  intro hl
  by_cases c1 : x1 ≠ x2
  · rw [if_pos c1] at h
    cases h
    have hm : InWFp6 ((y2 - y1) / (x2 - x1)) := (hy2.sub hy1).div_even (hx2.sub hx1)
    have ho : InWFp6 ((y2 - y1) / (x2 - x1) * (xt - x1) + y1) := (hm.mul_even (hxt.sub hx1)).add hy1
    have := even_add_odd_eq_zero hyt.neg ho (by linear_combination hl)
    exact hy0 (neg_eq_zero.mp this.1)
  rw [if_neg c1] at h
  have c2 : y1 = y2 := hnv.resolve_left c1
  rw [if_pos c2] at h
  cases h
  have hm : InWFp6 ((((3 : ℕ) : K12bn) * x1 ^ 2) / (((2 : ℕ) : K12bn) * y1)) :=
    ((even_natCast 3).mul (hx1.pow 2)).div_odd ((even_natCast 2).mul_odd hy1)
  have ho : InWFp6 ((((3 : ℕ) : K12bn) * x1 ^ 2) / (((2 : ℕ) : K12bn) * y1) * (xt - x1) + y1) :=
    (hm.mul_even (hxt.sub hx1)).add hy1
  have := even_add_odd_eq_zero hyt.neg ho (by linear_combination hl)
  exact hy0 (neg_eq_zero.mp this.1)

end PyEcc.NegBnSem
