/-
  PyEcc.Lemmas.HashBytes — helper lemmas for C15/C16 (core Lean only): the specification's
  `ceilDiv`, `I2OSP`, `OS2IP` agree with the model's `ceilDiv`, `toBytesBE`/`i2osp`, `os2ip`;
  the well-formedness predicate `HashFn.WF`; `sha256Fn` is well-formed.
-/
import PyEcc.Spec.Rfc5869

namespace PyEcc

/-- What is assumed of a hash function where an assumption is needed: every digest has
    `digestSize` bytes, `digestSize` is positive and not larger than the block size. -/
structure HashFn.WF (H : HashFn) : Prop where
  run_length : ∀ x, (H.run x).length = H.digestSize
  digest_pos : 0 < H.digestSize
  digest_le_block : H.digestSize ≤ H.blockSize

namespace C15

theorem ceilDiv_eq_spec (a : Nat) {b : Nat} (hb : 0 < b) : PyEcc.ceilDiv a b = Spec.ceilDiv a b := by
  unfold PyEcc.ceilDiv Spec.ceilDiv
  have h := Nat.div_add_mod a b
  have hr := Nat.mod_lt a hb
  generalize a / b = q at *
  generalize a % b = r at *
  subst h
  split
  · rename_i h0
    subst h0
    rw [show b * q + 0 + b - 1 = b * q + (b - 1) by omega, Nat.mul_add_div hb,
      Nat.div_eq_of_lt (by omega)]
  · rw [show b * q + r + b - 1 = b * (q + 1) + (r - 1) by rw [Nat.mul_add]; omega, Nat.mul_add_div hb,
      Nat.div_eq_of_lt (by omega)]

/-- `n = ceil(a/b)` is characterised by `(n-1)·b < a ≤ n·b` (sanity check of `Spec.ceilDiv`). -/
theorem spec_ceilDiv_le_iff (a n : Nat) {b : Nat} (hb : 0 < b) : Spec.ceilDiv a b ≤ n ↔ a ≤ n * b := by
  unfold Spec.ceilDiv
  have h := Nat.div_add_mod a b
  have hr := Nat.mod_lt a hb
  generalize a / b = q at *
  generalize a % b = r at *
  subst h
  constructor
  · intro h
    split at h
    · rename_i h0; subst h0
      calc b * q + 0 = q * b := by rw [Nat.mul_comm]; rfl
        _ ≤ n * b := Nat.mul_le_mul_right b h
    · have : q + 1 ≤ n := h
      calc b * q + r ≤ b * q + b := by omega
        _ = (q + 1) * b := by rw [Nat.add_mul, Nat.mul_comm]; omega
        _ ≤ n * b := Nat.mul_le_mul_right b this
  · intro h
    split
    · rename_i h0; subst h0
      have : q * b ≤ n * b := by rw [Nat.mul_comm q b]; exact h
      exact Nat.le_of_mul_le_mul_right this hb
    · rename_i h0
      have : q * b < n * b := by rw [Nat.mul_comm q b]; omega
      have := Nat.lt_of_mul_lt_mul_right this
      omega

theorem I2OSP_eq_toBytesBE (n x : Nat) : Spec.I2OSP x n = toBytesBE n x := by
  induction n generalizing x with
  | zero => rfl
  | succ n ih =>
    unfold toBytesBE
    rw [← ih]
    unfold Spec.I2OSP
    rw [List.range_succ, List.map_append]
    congr 1
    · apply List.map_congr_left
      intro i hi
      have hi : i < n := List.mem_range.mp hi
      rw [Nat.div_div_eq_div_mul, ← Nat.pow_succ']
      congr 4
      omega
    · simp

theorem os2ip_foldl (x : Bytes) (acc : Nat) :
    x.foldl (fun acc b => acc * 256 + b.toNat) acc = acc * 256 ^ x.length + Spec.OS2IP x := by
  induction x generalizing acc with
  | nil => simp [Spec.OS2IP]
  | cons b rest ih =>
    rw [List.foldl_cons, ih, Spec.OS2IP, List.length_cons, Nat.pow_succ', Nat.add_mul]
    rw [Nat.mul_assoc, Nat.add_assoc]

theorem OS2IP_eq_os2ip (x : Bytes) : Spec.OS2IP x = os2ip x := by
  unfold os2ip
  rw [os2ip_foldl]
  simp

theorem i2osp_eq_ok {x n : Nat} (h : x < 256 ^ n) : i2osp x n = .ok (Spec.I2OSP x n) := by
  unfold i2osp
  rw [if_pos h, I2OSP_eq_toBytesBE]

theorem i2osp_eq_overflow {x n : Nat} (h : 256 ^ n ≤ x) : i2osp x n = .error .overflow := by
  unfold i2osp
  rw [if_neg (by omega)]

theorem I2OSP_zero (n : Nat) : Spec.I2OSP 0 n = List.replicate n 0 := by
  unfold Spec.I2OSP
  rw [List.eq_replicate_iff]
  simp

theorem I2OSP_length (x n : Nat) : (Spec.I2OSP x n).length = n := by
  simp [Spec.I2OSP]

theorem I2OSP_one (x : Nat) : Spec.I2OSP x 1 = [UInt8.ofNat x] := by
  simp only [Spec.I2OSP, List.range_succ, List.range_zero, List.nil_append, List.map_cons,
    List.map_nil, Nat.sub_self, Nat.pow_zero, Nat.div_one]
  congr 1
  apply UInt8.toNat_inj.mp
  simp

/-! ### `sha256Fn` is well-formed (non-vacuity of `HashFn.WF`) -/

theorem sha256_compress_size (h b : Array UInt32) : (Sha256.compress h b).size = 8 := by
  unfold Sha256.compress
  simp only [Id.run, bind, pure]
  rfl

theorem sha256_foldl_compress_size (l : List (Array UInt32)) (h : Array UInt32) (hh : h.size = 8) :
    (l.foldl Sha256.compress h).size = 8 := by
  induction l generalizing h with
  | nil => exact hh
  | cons b l ih => exact ih _ (sha256_compress_size h b)

theorem sha256_length (x : Bytes) : (Sha256.hash x).length = 32 := by
  unfold Sha256.hash
  have := sha256_foldl_compress_size (Sha256.blocks (Sha256.wordsOf (Sha256.pad x))) Sha256.H0 rfl
  generalize List.foldl Sha256.compress Sha256.H0 _ = a at *
  obtain ⟨l⟩ := a
  simp at this
  match l, this with
  | [a,b,c,d,e,f,g,h], _ => rfl

theorem sha256Fn_WF : sha256Fn.WF :=
  ⟨sha256_length, by decide, by decide⟩

end C15
end PyEcc
