/-
  PyEcc.Lemmas.MillerRefTransfer — the functions of the REFERENCE module `Gen.RefBls` used by the
  Miller loop (`double`, `add`, `linefunc`, `is_on_curve`; affine points `Option (F × F)`,
  `none` = ∞, `add`/`linefunc` in the exception monad) commute with operation-preserving injective
  coordinate maps (`OpHom`), and, on a closed predicate, with `GoodHom`s (`Lemmas/TransferBase.lean`).
  Used for `toQ : Fqp .ref p mc → AdjoinRoot (modulus p mc)` on canonical elements.
-/
import PyEcc.Lemmas.TransferBase
import PyEcc.Gen.RefBls
import Mathlib.Tactic.SplitIfs

set_option linter.unusedSectionVars false
set_option linter.unusedVariables false

namespace PyEcc.MillerSem
open PyEcc PyEcc.Gen PyEcc.Transfer

/-- apply a coordinate map to a reference-module point (`none` = ∞) -/
def mapO {A B : Type} (ψ : A → B) (p : Option (A × A)) : Option (B × B) := p.map (mapP ψ)

/-- a reference-module point with good coordinates (∞ is good) -/
def GoodO {A : Type} (Good : A → Prop) (p : Option (A × A)) : Prop :=
  ∀ q, p = some q → GoodP Good q

@[simp] theorem mapO_none {A B : Type} (ψ : A → B) : mapO ψ none = none := rfl
@[simp] theorem mapO_some {A B : Type} (ψ : A → B) (x y : A) :
    mapO ψ (some (x, y)) = some (ψ x, ψ y) := rfl

theorem mapO_eq_none {A B : Type} (ψ : A → B) (p : Option (A × A)) : mapO ψ p = none ↔ p = none := by
  cases p <;> simp [mapO]

theorem goodO_none {A : Type} (Good : A → Prop) : GoodO Good (none : Option (A × A)) := by
  intro q h; cases h

theorem goodO_some {A : Type} {Good : A → Prop} {x y : A} (hx : Good x) (hy : Good y) :
    GoodO Good (some (x, y)) := by
  intro q h; cases h; exact ⟨hx, hy⟩

theorem mapO_comp {A B C : Type} (ψ : A → B) (χ : B → C) (p : Option (A × A)) :
    mapO χ (mapO ψ p) = mapO (fun a => χ (ψ a)) p := by
  rcases p with _ | ⟨x, y⟩ <;> rfl

variable {A B : Type}
  [Zero A] [One A] [Add A] [Sub A] [Mul A] [Neg A] [Div A] [NatCast A] [Pow A Nat] [DecidableEq A]
  [Zero B] [One B] [Add B] [Sub B] [Mul B] [Neg B] [Div B] [NatCast B] [Pow B Nat] [DecidableEq B]

/-! ### Part 1: unconditional homomorphisms -/

section ophom
variable {ψ : A → B} (h : OpHom ψ)
include h

theorem ref_is_on_curve_map (p : Option (A × A)) (b : A) :
    RefBls.is_on_curve (mapO ψ p) (ψ b) = RefBls.is_on_curve p b := by
  rcases p with _ | ⟨x, y⟩
  · rfl
  · simp only [RefBls.is_on_curve, RefBls.is_inf, mapO_some, ← h.map_pow, ← h.map_sub, h.eq_iff,
      reduceCtorEq, decide_false, Bool.false_eq_true, or_self, if_false]

theorem ref_double_map (p : Option (A × A)) :
    mapO ψ (RefBls.double p) = RefBls.double (mapO ψ p) := by
  rcases p with _ | ⟨x, y⟩
  · rfl
  · simp only [RefBls.double, RefBls.is_inf, mapO_some, reduceCtorEq, decide_false,
      Bool.false_eq_true, or_self, if_false, h.eq_zero_iff]
    split_ifs
    · rfl
    · simp only [mapO_some, h.map_sub, h.map_add, h.map_mul, h.map_neg, h.map_pow, h.map_div,
        h.map_natCast]

theorem ref_add_map (p q : Option (A × A)) :
    (RefBls.add p q).map (mapO ψ) = RefBls.add (mapO ψ p) (mapO ψ q) := by
  rcases p with _ | ⟨x1, y1⟩ <;> rcases q with _ | ⟨x2, y2⟩
  · rfl
  · simp [RefBls.add, Except.map]
  · simp [RefBls.add, Except.map]
  · have hd := ref_double_map h (some (x1, y1))
    simp only [mapO_some] at hd
    simp only [RefBls.add, mapO_some, reduceCtorEq, or_self, if_false, ← hd,
      ← h.map_sub, ← h.map_div, ← h.map_pow, ← h.map_neg, ← h.map_mul, ← h.map_add, h.eq_iff]
    split_ifs <;> simp [Except.map, h.map_sub, h.map_div, h.map_pow, h.map_neg, h.map_mul, h.map_add]

theorem ref_linefunc_map (P1 P2 T : Option (A × A)) :
    (RefBls.linefunc P1 P2 T).map ψ = RefBls.linefunc (mapO ψ P1) (mapO ψ P2) (mapO ψ T) := by
  rcases P1 with _ | ⟨x1, y1⟩
  · simp [RefBls.linefunc, Except.map]
  rcases P2 with _ | ⟨x2, y2⟩
  · simp [RefBls.linefunc, Except.map]
  rcases T with _ | ⟨xt, yt⟩
  · simp [RefBls.linefunc, Except.map]
  simp only [RefBls.linefunc, mapO_some, reduceCtorEq, or_self, if_false, ne_eq, h.eq_iff]
  split_ifs <;>
    simp only [Except.map, h.map_sub, h.map_div, h.map_pow, h.map_mul, h.map_natCast]

end ophom

/-! ### Part 2: homomorphisms on a closed predicate -/

section goodhom
variable {Good : A → Prop} {φ : A → B} (h : GoodHom Good φ)
include h

open GoodSub

/-- a good reference point, as a point over the subtype of good elements -/
def liftO (p : Option (A × A)) (g : GoodO Good p) : Option (GoodSub h × GoodSub h) :=
  match p, g with
  | none, _ => none
  | some (x, y), g => some (mk h x (g _ rfl).1, mk h y (g _ rfl).2)

theorem val_liftO (p : Option (A × A)) (g : GoodO Good p) : mapO (val h) (liftO h p g) = p := by
  rcases p with _ | ⟨x, y⟩ <;> rfl

theorem img_liftO (p : Option (A × A)) (g : GoodO Good p) :
    mapO (img h) (liftO h p g) = mapO φ p := by
  rcases p with _ | ⟨x, y⟩ <;> rfl

theorem imgO_eq (X : Option (GoodSub h × GoodSub h)) : mapO (img h) X = mapO φ (mapO (val h) X) := by
  rcases X with _ | ⟨x, y⟩ <;> rfl

theorem goodO_val (X : Option (GoodSub h × GoodSub h)) : GoodO Good (mapO (val h) X) := by
  rcases X with _ | ⟨x, y⟩
  · exact goodO_none _
  · exact goodO_some x.2 y.2

/-- `is_on_curve(p, b)` gives the same answer on a good point, good `b`, and on their images -/
theorem ref_good_is_on_curve {p : Option (A × A)} {b : A} (g : GoodO Good p) (gb : Good b) :
    RefBls.is_on_curve (mapO φ p) (φ b) = RefBls.is_on_curve p b := by
  have e1 := ref_is_on_curve_map (opHom_img h) (liftO h p g) (mk h b gb)
  have e2 := ref_is_on_curve_map (opHom_val h) (liftO h p g) (mk h b gb)
  rw [img_liftO] at e1
  rw [val_liftO] at e2
  exact e1.trans e2.symm

/-- reference `double` of a good point is good, and commutes with `φ` -/
theorem ref_good_double {p : Option (A × A)} (g : GoodO Good p) :
    GoodO Good (RefBls.double p) ∧ mapO φ (RefBls.double p) = RefBls.double (mapO φ p) := by
  have e1 := ref_double_map (opHom_img h) (liftO h p g)
  have e2 := ref_double_map (opHom_val h) (liftO h p g)
  rw [img_liftO, imgO_eq] at e1
  rw [val_liftO] at e2
  rw [← e2]
  exact ⟨goodO_val h _, e1⟩

/-- reference `add` of good points: same outcome (exception or point) as on the images, the point
    being good and mapped by `φ` -/
theorem ref_good_add {p q : Option (A × A)} (gp : GoodO Good p) (gq : GoodO Good q) :
    (∀ r, RefBls.add p q = .ok r → GoodO Good r)
      ∧ (RefBls.add p q).map (mapO φ) = RefBls.add (mapO φ p) (mapO φ q) := by
  have e1 := ref_add_map (opHom_img h) (liftO h p gp) (liftO h q gq)
  have e2 := ref_add_map (opHom_val h) (liftO h p gp) (liftO h q gq)
  rw [img_liftO, img_liftO] at e1
  rw [val_liftO, val_liftO] at e2
  rw [← e2, ← e1]
  constructor
  · intro r hr
    rcases hX : RefBls.add (liftO h p gp) (liftO h q gq) with e | X
    · rw [hX] at hr; cases hr
    · rw [hX] at hr
      cases hr
      exact goodO_val h X
  · rcases RefBls.add (liftO h p gp) (liftO h q gq) with e | X
    · rfl
    · simp only [Except.map, imgO_eq]

/-- reference `linefunc` of good points: same outcome as on the images, the value being good and
    mapped by `φ` -/
theorem ref_good_linefunc {P1 P2 T : Option (A × A)} (g₁ : GoodO Good P1) (g₂ : GoodO Good P2)
    (g : GoodO Good T) :
    (∀ l, RefBls.linefunc P1 P2 T = .ok l → Good l)
      ∧ (RefBls.linefunc P1 P2 T).map φ
          = RefBls.linefunc (mapO φ P1) (mapO φ P2) (mapO φ T) := by
  have e1 := ref_linefunc_map (opHom_img h) (liftO h P1 g₁) (liftO h P2 g₂) (liftO h T g)
  have e2 := ref_linefunc_map (opHom_val h) (liftO h P1 g₁) (liftO h P2 g₂) (liftO h T g)
  rw [img_liftO, img_liftO, img_liftO] at e1
  rw [val_liftO, val_liftO, val_liftO] at e2
  rw [← e2, ← e1]
  constructor
  · intro l hl
    rcases hX : RefBls.linefunc (liftO h P1 g₁) (liftO h P2 g₂) (liftO h T g) with e | X
    · rw [hX] at hl; cases hl
    · rw [hX] at hl
      cases hl
      exact X.2
  · rcases RefBls.linefunc (liftO h P1 g₁) (liftO h P2 g₂) (liftO h T g) with e | X <;> rfl

end goodhom

end PyEcc.MillerSem
