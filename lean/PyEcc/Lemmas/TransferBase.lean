/-
  PyEcc.Lemmas.TransferBase — the homomorphism ("parametricity") principle for the generated,
  coordinate-type-generic curve code: base definitions.

  The generated modules `Gen.OptBls`, `Gen.OptBn` only use the operations
  `0 1 + - * neg / natCast ^` and `DecidableEq` of the coordinate type.  Hence a map between two
  coordinate types that preserves these operations and is injective commutes with every generated
  function.  Two notions:

  * `OpHom ψ` — `ψ : A → B` preserves all operations UNCONDITIONALLY and is injective;
  * `GoodHom Good φ` — `φ : A → K` preserves the operations only on a predicate `Good : A → Prop`
    that is closed under the operations, and is injective on `Good` (the situation of
    `toQ : Fqp v p mc → AdjoinRoot (modulus p mc)`, `Good = Canon`: the type `Fqp` contains junk
    non-canonical coefficient lists).

  A `GoodHom` is reduced to two `OpHom`s through the subtype `GoodSub h = {a // Good a}`
  (`Subtype.val : GoodSub h → A` and `φ ∘ Subtype.val : GoodSub h → K`), so the per-function
  commutation lemmas (`Lemmas/TransferOptBls.lean`, `Lemmas/TransferOptBn.lean`) are proved once, for
  `OpHom`, and lifted.

  No field structure is assumed anywhere in this file: `A`, `B`, `K` are arbitrary types carrying
  the ten operation classes of the generated code.
-/
import Mathlib.Logic.Function.Basic

namespace PyEcc.Transfer

/-- apply a coordinate map to a projective triple -/
def mapT {A B : Type} (ψ : A → B) (T : A × A × A) : B × B × B := (ψ T.1, ψ T.2.1, ψ T.2.2)

/-- apply a coordinate map to an affine pair -/
def mapP {A B : Type} (ψ : A → B) (T : A × A) : B × B := (ψ T.1, ψ T.2)

@[simp] theorem mapT_fst {A B : Type} (ψ : A → B) (T : A × A × A) : (mapT ψ T).1 = ψ T.1 := rfl
@[simp] theorem mapT_snd_fst {A B : Type} (ψ : A → B) (T : A × A × A) : (mapT ψ T).2.1 = ψ T.2.1 := rfl
@[simp] theorem mapT_snd_snd {A B : Type} (ψ : A → B) (T : A × A × A) : (mapT ψ T).2.2 = ψ T.2.2 := rfl
@[simp] theorem mapT_mk {A B : Type} (ψ : A → B) (x y z : A) : mapT ψ (x, y, z) = (ψ x, ψ y, ψ z) := rfl
@[simp] theorem mapP_mk {A B : Type} (ψ : A → B) (x y : A) : mapP ψ (x, y) = (ψ x, ψ y) := rfl
theorem mapT_comp {A B C : Type} (ψ : A → B) (χ : B → C) (T : A × A × A) :
    mapT χ (mapT ψ T) = mapT (fun a => χ (ψ a)) T := rfl

/-- all three coordinates of a triple satisfy `Good` -/
def GoodT {A : Type} (Good : A → Prop) (T : A × A × A) : Prop := Good T.1 ∧ Good T.2.1 ∧ Good T.2.2

/-- both coordinates of a pair satisfy `Good` -/
def GoodP {A : Type} (Good : A → Prop) (T : A × A) : Prop := Good T.1 ∧ Good T.2

section
variable {A B : Type}
  [Zero A] [One A] [Add A] [Sub A] [Mul A] [Neg A] [Div A] [NatCast A] [Pow A Nat]
  [Zero B] [One B] [Add B] [Sub B] [Mul B] [Neg B] [Div B] [NatCast B] [Pow B Nat]

/-- `ψ` preserves every operation used by the generated curve code, and is injective -/
structure OpHom (ψ : A → B) : Prop where
  map_zero : ψ 0 = 0
  map_one : ψ 1 = 1
  map_add : ∀ a b, ψ (a + b) = ψ a + ψ b
  map_sub : ∀ a b, ψ (a - b) = ψ a - ψ b
  map_mul : ∀ a b, ψ (a * b) = ψ a * ψ b
  map_neg : ∀ a, ψ (-a) = -ψ a
  map_div : ∀ a b, ψ (a / b) = ψ a / ψ b
  map_natCast : ∀ n : Nat, ψ (n : A) = (n : B)
  map_pow : ∀ a (n : Nat), ψ (a ^ n) = ψ a ^ n
  inj : Function.Injective ψ

theorem OpHom.eq_iff {ψ : A → B} (h : OpHom ψ) {a b : A} : ψ a = ψ b ↔ a = b := h.inj.eq_iff

theorem OpHom.eq_zero_iff {ψ : A → B} (h : OpHom ψ) {a : A} : ψ a = 0 ↔ a = 0 := by
  rw [← h.map_zero]; exact h.inj.eq_iff

theorem OpHom.mapT_inj {ψ : A → B} (h : OpHom ψ) {S T : A × A × A} (e : mapT ψ S = mapT ψ T) :
    S = T := by
  obtain ⟨a, b, c⟩ := S
  obtain ⟨a', b', c'⟩ := T
  simp only [mapT_mk, Prod.mk.injEq] at e
  rw [h.inj e.1, h.inj e.2.1, h.inj e.2.2]

/-- `φ` preserves every operation used by the generated curve code on the elements satisfying `Good`,
    `Good` is closed under the operations, and `φ` is injective on `Good` -/
structure GoodHom (Good : A → Prop) (φ : A → B) : Prop where
  good_zero : Good 0
  good_one : Good 1
  good_add : ∀ {a b}, Good a → Good b → Good (a + b)
  good_sub : ∀ {a b}, Good a → Good b → Good (a - b)
  good_mul : ∀ {a b}, Good a → Good b → Good (a * b)
  good_neg : ∀ {a}, Good a → Good (-a)
  good_div : ∀ {a b}, Good a → Good b → Good (a / b)
  good_natCast : ∀ n : Nat, Good (n : A)
  good_pow : ∀ {a} (n : Nat), Good a → Good (a ^ n)
  map_zero : φ 0 = 0
  map_one : φ 1 = 1
  map_add : ∀ {a b}, Good a → Good b → φ (a + b) = φ a + φ b
  map_sub : ∀ {a b}, Good a → Good b → φ (a - b) = φ a - φ b
  map_mul : ∀ {a b}, Good a → Good b → φ (a * b) = φ a * φ b
  map_neg : ∀ {a}, Good a → φ (-a) = -φ a
  map_div : ∀ {a b}, Good a → Good b → φ (a / b) = φ a / φ b
  map_natCast : ∀ n : Nat, φ (n : A) = (n : B)
  map_pow : ∀ {a} (n : Nat), Good a → φ (a ^ n) = φ a ^ n
  inj : ∀ {a b}, Good a → Good b → φ a = φ b → a = b

theorem GoodHom.eq_iff {Good : A → Prop} {φ : A → B} (h : GoodHom Good φ) {a b : A}
    (ha : Good a) (hb : Good b) : φ a = φ b ↔ a = b := ⟨h.inj ha hb, fun e => e ▸ rfl⟩

theorem GoodHom.eq_zero_iff {Good : A → Prop} {φ : A → B} (h : GoodHom Good φ) {a : A}
    (ha : Good a) : φ a = 0 ↔ a = 0 := by
  rw [← h.map_zero]; exact h.eq_iff ha h.good_zero

/-- an `OpHom` is a `GoodHom` for the trivial predicate -/
theorem OpHom.toGoodHom {ψ : A → B} (h : OpHom ψ) : GoodHom (fun _ => True) ψ where
  good_zero := trivial
  good_one := trivial
  good_add := fun _ _ => trivial
  good_sub := fun _ _ => trivial
  good_mul := fun _ _ => trivial
  good_neg := fun _ => trivial
  good_div := fun _ _ => trivial
  good_natCast := fun _ => trivial
  good_pow := fun _ _ => trivial
  map_zero := h.map_zero
  map_one := h.map_one
  map_add := fun _ _ => h.map_add _ _
  map_sub := fun _ _ => h.map_sub _ _
  map_mul := fun _ _ => h.map_mul _ _
  map_neg := fun _ => h.map_neg _
  map_div := fun _ _ => h.map_div _ _
  map_natCast := h.map_natCast
  map_pow := fun n _ => h.map_pow _ n
  inj := fun _ _ e => h.inj e

/-! ### the subtype of good elements -/

/-- the good elements, as a coordinate type of its own (the generated code can be run on it) -/
def GoodSub {Good : A → Prop} {φ : A → B} (_h : GoodHom Good φ) : Type := {a : A // Good a}

namespace GoodSub
variable {Good : A → Prop} {φ : A → B} (h : GoodHom Good φ)

/-- forget goodness -/
def val (s : GoodSub h) : A := Subtype.val s
/-- the value in the target -/
def img (s : GoodSub h) : B := φ (Subtype.val s)
/-- package a good element -/
def mk (a : A) (ha : Good a) : GoodSub h := ⟨a, ha⟩

theorem good (s : GoodSub h) : Good (val h s) := Subtype.property s

instance : Zero (GoodSub h) := ⟨⟨0, h.good_zero⟩⟩
instance : One (GoodSub h) := ⟨⟨1, h.good_one⟩⟩
instance : Add (GoodSub h) := ⟨fun a b => ⟨a.1 + b.1, h.good_add a.2 b.2⟩⟩
instance : Sub (GoodSub h) := ⟨fun a b => ⟨a.1 - b.1, h.good_sub a.2 b.2⟩⟩
instance : Mul (GoodSub h) := ⟨fun a b => ⟨a.1 * b.1, h.good_mul a.2 b.2⟩⟩
instance : Neg (GoodSub h) := ⟨fun a => ⟨-a.1, h.good_neg a.2⟩⟩
instance : Div (GoodSub h) := ⟨fun a b => ⟨a.1 / b.1, h.good_div a.2 b.2⟩⟩
instance : NatCast (GoodSub h) := ⟨fun n => ⟨(n : A), h.good_natCast n⟩⟩
instance : Pow (GoodSub h) Nat := ⟨fun a n => ⟨a.1 ^ n, h.good_pow n a.2⟩⟩
instance [DecidableEq A] : DecidableEq (GoodSub h) := inferInstanceAs (DecidableEq {a : A // Good a})

theorem opHom_val : OpHom (val h) where
  map_zero := rfl
  map_one := rfl
  map_add := fun _ _ => rfl
  map_sub := fun _ _ => rfl
  map_mul := fun _ _ => rfl
  map_neg := fun _ => rfl
  map_div := fun _ _ => rfl
  map_natCast := fun _ => rfl
  map_pow := fun _ _ => rfl
  inj := fun _ _ e => Subtype.ext e

theorem opHom_img : OpHom (img h) where
  map_zero := h.map_zero
  map_one := h.map_one
  map_add := fun a b => h.map_add a.2 b.2
  map_sub := fun a b => h.map_sub a.2 b.2
  map_mul := fun a b => h.map_mul a.2 b.2
  map_neg := fun a => h.map_neg a.2
  map_div := fun a b => h.map_div a.2 b.2
  map_natCast := h.map_natCast
  map_pow := fun a n => h.map_pow n a.2
  inj := fun a b e => Subtype.ext (h.inj a.2 b.2 e)

/-- a good triple, as a triple over the subtype -/
def liftT (T : A × A × A) (g : GoodT Good T) : GoodSub h × GoodSub h × GoodSub h :=
  (mk h T.1 g.1, mk h T.2.1 g.2.1, mk h T.2.2 g.2.2)

theorem val_liftT (T : A × A × A) (g : GoodT Good T) : mapT (val h) (liftT h T g) = T := rfl
theorem img_liftT (T : A × A × A) (g : GoodT Good T) : mapT (img h) (liftT h T g) = mapT φ T := rfl
theorem img_eq (X : GoodSub h × GoodSub h × GoodSub h) : mapT (img h) X = mapT φ (mapT (val h) X) := rfl
theorem imgP_eq (X : GoodSub h × GoodSub h) : mapP (img h) X = mapP φ (mapP (val h) X) := rfl
theorem goodT_val (X : GoodSub h × GoodSub h × GoodSub h) : GoodT Good (mapT (val h) X) :=
  ⟨X.1.2, X.2.1.2, X.2.2.2⟩
theorem goodP_val (X : GoodSub h × GoodSub h) : GoodP Good (mapP (val h) X) := ⟨X.1.2, X.2.2⟩

end GoodSub

end

end PyEcc.Transfer
