/-
  PyEcc.Lemmas.MillerBnLoop — the two bn128 Miller loops against the abstract Miller values of
  `Lemmas/MillerBnIdeal.lean`.

  `T` is a point of prime order `r` of `E : y² = x³ + 3` over `K12bn` (the twist of `Q`), `P = (xP, yP)`
  the point of `E` the lines are evaluated at (`Ctx`); every vertical value `v_{jT}(P)` is killed by the
  final exponent (`Ctx.vert` — discharged in `Lemmas/MillerBnPairing.lean`: verticals lie in `Fp⁶`).

  * reference loop (`refMillerStep refBnOps`, binary digits): state `(f, R)`; invariant `RInv k`:
    `R` is the representation of `k·T` and `f` is a Miller value for `k` (`MV … k (toQ f)`);
  * optimized loop (`optBnStep`, signed digits `1, 0, −1`): state `((f_num, f_den), R)`; invariant
    `OInv k`: `R` represents `k·T`, `f_den ≠ 0`, and `f_num / f_den` is a Miller value for `k`.

  Both are preserved as long as the running scalar `k` satisfies `0 < k`, `2k + 1 < r` (`RefBound`,
  `OptBound`: decidable conditions on the digit tables, checked on the module constants).
-/
import PyEcc.Lemmas.MillerBnLine
import PyEcc.Lemmas.MillerBnSub
import PyEcc.Lemmas.TransferRefLawsBn
import PyEcc.Sem.TransferRefineBn
import PyEcc.Props.C13_Bn
import Mathlib.GroupTheory.OrderOfElement

set_option linter.unusedSectionVars false
set_option linter.unusedVariables false
set_option maxRecDepth 100000

namespace PyEcc.MillerBnSem
open Polynomial PyEcc PyEcc.Gen PyEcc.Gen.Consts PyEcc.Fqp PyEcc.FqpSem PyEcc.Transfer PyEcc.TwistSem
  PyEcc.C13 PyEcc.C13.Bn WeierstrassCurve WeierstrassCurve.Affine

/-- the constant `b12 = 3` of `E(Fp¹²)` as the value of the optimized module's `b12` -/
noncomputable abbrev B12 : K12bn := toQ (bnB12 .opt)
/-- Mathlib's point group of `E : y² = x³ + 3` over `K12bn` -/
abbrev E12 : Type := CurvePt B12
abbrev OT12 : Type := OBn12 × OBn12 × OBn12
abbrev RA12 : Type := Option (RBn12 × RBn12)

/-- the group order `r` -/
def bnR : ℕ := bn128_curve_order

theorem prime_bnR' : Nat.Prime bnR := prime_bnR

theorem k12bn_two : (2 : K12bn) ≠ 0 := (k12bn_field_ok .opt).1

variable [DecidableEq K12bn]

/-! ### the context -/

/-- `T` has prime order `r` on `E(K12bn)`, `P = (xP, yP)` is on `E`, vertical values are killed -/
structure Ctx (T : E12) (xP yP : K12bn) : Prop where
  hP : (W B12).Equation xP yP
  T0 : T ≠ 0
  ord : bnR • T = 0
  vert : ∀ j : ℕ, j • T ≠ 0 → vertVal hP (j • T) ^ bnFinalExp = 1

section ctx
variable {T : E12} {xP yP : K12bn} (c : Ctx T xP yP)
include c

theorem Ctx.ne_zero {j : ℕ} (h0 : 0 < j) (hj : j < bnR) : j • T ≠ 0 := by
  have : Fact (Nat.Prime bnR) := ⟨prime_bnR'⟩
  intro e
  have ho : addOrderOf T = bnR := addOrderOf_eq_prime c.ord c.T0
  have hd : bnR ∣ j := ho ▸ addOrderOf_dvd_of_nsmul_eq_zero e
  exact absurd (Nat.le_of_dvd h0 hd) (by omega)

/-- no multiple of `T` other than ∞ is 2-torsion (`r` is odd) -/
theorem Ctx.no2 {j : ℕ} (h : j • T ≠ 0) : j • T + j • T ≠ 0 := by
  intro e
  apply h
  have e2 : 2 • (j • T) = 0 := by rw [two_nsmul]; exact e
  have er : bnR • (j • T) = 0 := by rw [smul_comm, c.ord, smul_zero]
  have hodd : bnR = 2 * (bnR / 2) + 1 := by decide +kernel
  rw [hodd, add_nsmul, mul_nsmul, e2, smul_zero, zero_add, one_nsmul] at er
  exact er

theorem Ctx.vertT : vertVal c.hP T ^ bnFinalExp = 1 := by
  have := c.vert 1 (by rw [one_nsmul]; exact c.T0)
  rwa [one_nsmul] at this

end ctx

/-! ### the reference loop -/

theorem ok_bind' {ε α β : Type} (a : α) (f : α → Except ε β) : (Except.ok a >>= f) = f a := rfl

/-- body of the reference loop in explicit form -/
theorem refMillerStep_eq' {p : Nat} {mc12 : List Int} (ops : RefOps p mc12) (ate : Nat)
    (Q P : Option (Fqp .ref p mc12 × Fqp .ref p mc12)) (f : Fqp .ref p mc12)
    (R : Option (Fqp .ref p mc12 × Fqp .ref p mc12)) (i : Nat) :
    refMillerStep ops ate Q P (f, R) i =
      (ops.linefunc R R P >>= fun l =>
        if bitSet ate i then
          ops.linefunc (ops.double R) Q P >>= fun l2 =>
            ops.add (ops.double R) Q >>= fun R2 => pure (f * f * l * l2, R2)
        else pure (f * f * l, ops.double R)) := rfl

/-- reference-side data: `Qr` is the representation of `T`, `Pr` that of `P`, stored reduced -/
structure RefData (T : E12) (xP yP : K12bn) (Qr Pr : RA12) : Prop where
  cQ : GoodO Canon Qr
  rQ : reprRef T = mapO toQ Qr
  cP : GoodO Canon Pr
  rP : mapO (toQ : RBn12 → K12bn) Pr = some (xP, yP)

/-- invariant of the reference loop -/
structure RInv {T : E12} {xP yP : K12bn} (c : Ctx T xP yP) (k : ℕ) (s : RBn12 × RA12) : Prop where
  cf : Canon s.1
  cR : GoodO Canon s.2
  rR : reprRef (k • T) = mapO toQ s.2
  mv : MV c.hP bnFinalExp T k (toQ s.1)

section ref
variable {T : E12} {xP yP : K12bn} (c : Ctx T xP yP) {Qr Pr : RA12} (d : RefData T xP yP Qr Pr)
include c d

/-- the reference `linefunc` on stored representations of two finite points with finite sum returns,
    reduced, the line value -/
theorem ref_line {R1 R2 : RA12} {A B : E12} (g1 : GoodO Canon R1) (g2 : GoodO Canon R2)
    (r1 : reprRef A = mapO toQ R1) (r2 : reprRef B = mapO toQ R2) (hA : A ≠ 0) (hB : B ≠ 0)
    (hAB : A + B ≠ 0) :
    ∃ l, RefBn.linefunc R1 R2 Pr = .ok l ∧ Canon l ∧ (toQ l : K12bn) = lineVal c.hP A B := by
  obtain ⟨gl, e⟩ := ref_good_linefunc (goodHom_F12bn (v := .ref)) g1 g2 d.cP
  rw [← r1, ← r2, d.rP, ref_linefunc_lineVal c.hP hA hB hAB] at e
  rcases hl : RefBn.linefunc R1 R2 Pr with err | l
  · rw [hl] at e; cases e
  · rw [hl] at e
    exact ⟨l, rfl, gl l hl, Except.ok.inj e⟩

/-- scalar after one reference iteration -/
def refNext (ate k i : ℕ) : ℕ := 2 * k + (if bitSet ate i then 1 else 0)

/-- **one reference iteration** -/
theorem ref_step (ate i : ℕ) {k : ℕ} {s : RBn12 × RA12} (inv : RInv c k s) (k0 : 0 < k)
    (kb : 2 * k + 1 < bnR) :
    ∃ s', refMillerStep refBnOps ate Qr Pr s i = .ok s' ∧ RInv c (refNext ate k i) s' := by
  obtain ⟨f, R⟩ := s
  obtain ⟨cf, cR, rR, mv⟩ := inv
  simp only at cf cR rR mv
  have hR := goodHom_F12bn (v := .ref)
  have hk : k • T ≠ 0 := c.ne_zero k0 (by omega)
  have h2k : (2 * k) • T ≠ 0 := c.ne_zero (by omega) (by omega)
  have e2k : (2 * k) • T = k • T + k • T := by rw [two_mul, add_nsmul]
  obtain ⟨l, hl, cl, vl⟩ := ref_line c d cR cR rR rR hk hk (e2k ▸ h2k)
  obtain ⟨cD, rD⟩ := BnRef.via_double_refines hR k12bn_two cR rR
  rw [← e2k] at rD
  have mv2 := mv.double c.hP bnFinalExp hk h2k (c.vert _ h2k)
  have cfl : Canon (f * f * l) := hR.good_mul (hR.good_mul cf cf) cl
  have vfl : (toQ (f * f * l) : K12bn) = toQ f * toQ f * lineVal c.hP (k • T) (k • T) := by
    rw [hR.map_mul (hR.good_mul cf cf) cl, hR.map_mul cf cf, vl]
  rw [refMillerStep_eq']
  show ∃ s', (RefBn.linefunc R R Pr >>= _) = Except.ok s' ∧ _
  rw [hl, ok_bind']
  by_cases hb : bitSet ate i = true
  · have h2k1 : (2 * k + 1) • T ≠ 0 := c.ne_zero (by omega) kb
    have e2k1 : (2 * k + 1) • T = (2 * k) • T + T := succ_nsmul T (2 * k)
    obtain ⟨l2, hl2, cl2, vl2⟩ := ref_line c d cD d.cQ rD d.rQ h2k c.T0 (e2k1 ▸ h2k1)
    obtain ⟨R2, hA, cA, rA⟩ := BnRef.via_add_refines hR k12bn_two cD d.cQ rD d.rQ
    rw [← e2k1] at rA
    have mv3 := mv2.add c.hP bnFinalExp c.T0 h2k h2k1 (c.vert _ h2k1)
    refine ⟨(f * f * l * l2, R2), ?_, ?_⟩
    · simp only [hb, if_true]
      show (RefBn.linefunc (RefBn.double R) Qr Pr >>= _) = _
      rw [hl2, ok_bind']
      show (RefBn.add (RefBn.double R) Qr >>= _) = _
      rw [hA, ok_bind']
      rfl
    · have : refNext ate k i = 2 * k + 1 := by simp [refNext, hb]
      rw [this]
      refine ⟨hR.good_mul cfl cl2, cA, rA, ?_⟩
      show MV c.hP bnFinalExp T (2 * k + 1) (toQ (f * f * l * l2))
      rw [hR.map_mul cfl cl2, vfl, vl2]
      exact mv3
  · refine ⟨(f * f * l, RefBn.double R), ?_, ?_⟩
    · simp only [hb]; rfl
    · have : refNext ate k i = 2 * k := by simp [refNext, hb]
      rw [this]
      refine ⟨cfl, cD, rD, ?_⟩
      show MV c.hP bnFinalExp T (2 * k) (toQ (f * f * l))
      rw [vfl]; exact mv2

/-- scalar reached by the reference loop from `k` along an index list -/
def refScalar (ate : ℕ) : ℕ → List ℕ → ℕ
  | k, [] => k
  | k, i :: is => refScalar ate (refNext ate k i) is

/-- the running scalar of the reference loop stays in `(0, (r−1)/2)` before every iteration -/
def RefBound (ate r : ℕ) : ℕ → List ℕ → Prop
  | _, [] => True
  | k, i :: is => 0 < k ∧ 2 * k + 1 < r ∧ RefBound ate r (refNext ate k i) is

instance (ate r : ℕ) : ∀ (k : ℕ) (is : List ℕ), Decidable (RefBound ate r k is)
  | _, [] => by unfold RefBound; infer_instance
  | k, i :: is => by
    unfold RefBound
    have := instDecidableRefBound ate r (refNext ate k i) is
    infer_instance

/-- **the reference loop** -/
theorem ref_loop (ate : ℕ) : ∀ (is : List ℕ) (k : ℕ) (s : RBn12 × RA12), RInv c k s →
    RefBound ate bnR k is →
    ∃ s', is.foldlM (refMillerStep refBnOps ate Qr Pr) s = .ok s' ∧ RInv c (refScalar ate k is) s'
  | [], k, s, inv, _ => ⟨s, rfl, inv⟩
  | i :: is, k, s, inv, hb => by
    obtain ⟨k0, kb, hb'⟩ := hb
    obtain ⟨s1, e1, inv1⟩ := ref_step c d ate i inv k0 kb
    obtain ⟨s', e2, inv2⟩ := ref_loop ate is _ s1 inv1 hb'
    refine ⟨s', ?_, inv2⟩
    rw [List.foldlM_cons, e1]; exact e2

end ref

end PyEcc.MillerBnSem
