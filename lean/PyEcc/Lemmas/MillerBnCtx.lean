/-
  PyEcc.Lemmas.MillerBnCtx — the context `Ctx` of `Lemmas/MillerBnLoop.lean` for actual bn128 inputs:
  `Q` a reduced FQ2 triple on the twist curve, finite, killed by the group order `r`; `P` an FQ triple
  on `y² = x³ + 3`, finite.  Then `T = twist(Q)` has order `r` on `E(K12bn)`, the cast of `P` is a point
  of `E`, and every vertical value `x_P − x_{jT}` (`jT ≠ ∞`) is a NON-ZERO element of `Fp⁶`, hence killed
  by the final exponent:
  * it lies in `Fp⁶` because `x_P ∈ Fp` and `x_{jT} = ψ(x')·w²` with `ψ(Fp²) ⊂ Fp⁶`, `w² ∈ Fp⁶`;
  * it is non-zero because `x_P = ψ(x')·w²` forces `x' = 0` (apply the `p²`-Frobenius: `(w²)^(p²−1)` is a
    non-trivial cube root of unity), and a point with `x' = 0` is 3-torsion, impossible in a group of
    prime order `r ≠ 3`.
-/
import PyEcc.Lemmas.MillerBnTail
import PyEcc.Lemmas.Irred12Calc
import PyEcc.Sem.TransferFq

set_option linter.unusedSectionVars false
set_option linter.unusedVariables false
set_option maxRecDepth 100000

namespace PyEcc.MillerBnSem
open Polynomial PyEcc PyEcc.Gen PyEcc.Gen.Consts PyEcc.Fqp PyEcc.FqpSem PyEcc.Transfer PyEcc.TwistSem
  PyEcc.C13 PyEcc.C13.Bn WeierstrassCurve WeierstrassCurve.Affine

/-! ### the base field inside `K12bn` -/

/-- the embedding `Fp → K12bn` on the model type `Fq bnP` -/
noncomputable def emb : Fq bnP →+* K12bn :=
  (AdjoinRoot.of (modulus bnP bnMc12)).comp (Fq.ringEquiv : Fq bnP ≃+* ZMod bnP).toRingHom

theorem emb_apply (x : Fq bnP) : emb x = AdjoinRoot.of (modulus bnP bnMc12) (Fq.toZMod x) := rfl

theorem emb_injective : Function.Injective emb := RingHom.injective emb

theorem inFp6_emb (x : Fq bnP) : InFp6 (emb x) := inFp6_of _

/-- `cast_point_to_fq12` coordinate: the value is the base-field element -/
theorem toQ_castFq12_bn {v : Variant} (x : Fq bnP) :
    (toQ (castFq12 x : Fqp v bnP bnMc12) : K12bn) = emb x := by
  rw [emb_apply, Fq.toZMod_def]
  simp [castFq12, toQ_ofInts, evQ]

theorem canon_castFq12_bn {v : Variant} (x : Fq bnP) : Canon (castFq12 x : Fqp v bnP bnMc12) :=
  canon_ofInts (by decide) (by rfl)

/-! ### `(w²)^(p²−1)` is a non-trivial cube root of unity -/

theorem w2_pow : (wQ bnP bnMc12 ^ 2) ^ (bnP ^ 2 - 1) = ((Irred12.bnOmega : ℕ) : K12bn) := by
  have : NeZero bnP := ⟨by decide⟩
  obtain ⟨_, hf, ⟨m, hm⟩, _⟩ := Irred12.bn_side
  have h := Irred12.pow_eq_phi_pow2 (R := K12bn) (p := bnP) (wQ bnP bnMc12 ^ 6 - 9) bn_w6_sq 9
    ((bnP ^ 2 - 1) / 3) 800 (lt_of_le_of_lt (Nat.div_le_self _ _) hf)
  rw [Irred12.bn_cu] at h
  simp only [Irred12.phi, Nat.cast_ofNat, Nat.cast_zero, zero_mul, add_zero, add_sub_cancel] at h
  rw [← h, ← pow_mul, ← pow_mul]
  congr 1

theorem omega_ne_one : ((Irred12.bnOmega : ℕ) : K12bn) ≠ 1 := by
  intro h
  have h' : ((Irred12.bnOmega : ℕ) : K12bn) = ((1 : ℕ) : K12bn) := by rw [h, Nat.cast_one]
  rw [CharP.natCast_eq_natCast K12bn bnP] at h'
  exact Irred12.bn_side.2.2.2 h'

/-- an element of `Fp` equals `ψ(a)·w²` only if `a = 0` -/
theorem eq_zero_of_of_eq_psi_mul {c : ZMod bnP} {a : K2bn}
    (h : AdjoinRoot.of (modulus bnP bnMc12) c = psiBn a * wQ bnP bnMc12 ^ 2) : a = 0 := by
  have h1 : (AdjoinRoot.of (modulus bnP bnMc12) c) ^ (bnP ^ 2) = AdjoinRoot.of (modulus bnP bnMc12) c := by
    rw [← map_pow, ZMod.pow_card_pow]
  have hp : bnP ^ 2 = (bnP ^ 2 - 1) + 1 := by decide +kernel
  have h2 : (psiBn a * wQ bnP bnMc12 ^ 2) ^ (bnP ^ 2)
      = psiBn a * wQ bnP bnMc12 ^ 2 * ((Irred12.bnOmega : ℕ) : K12bn) := by
    rw [mul_pow, ← map_pow, pow_card_K2bn]
    conv_lhs => rw [hp, pow_succ, w2_pow]
    ring
  rw [h, h2] at h1
  have h3 : psiBn a * wQ bnP bnMc12 ^ 2 * (((Irred12.bnOmega : ℕ) : K12bn) - 1) = 0 := by
    linear_combination h1
  rcases mul_eq_zero.mp h3 with h4 | h4
  · rcases mul_eq_zero.mp h4 with h5 | h5
    · exact (map_eq_zero psiBn).mp h5
    · exact absurd h5 (pow_ne_zero 2 wQ_bn_ne_zero)
  · exact absurd (sub_eq_zero.mp h4) omega_ne_one

/-! ### points with `x = 0` are 3-torsion -/

theorem three_nsmul_of_x_zero {F : Type} [Field F] [DecidableEq F] {b y : F}
    (h : (W b).Nonsingular 0 y) : 3 • (Point.some 0 y h) = 0 := by
  have hn : ∀ x y : F, (W b).negY x y = -y := GroupOrder.negY_W b
  have hy : y ≠ (W b).negY 0 y := by
    have := ((W b).nonsingular_iff 0 y).mp h
    rcases this.2 with h1 | h1
    · simp [W] at h1
    · rw [hn]; simpa [W] using h1
  have e : Point.some 0 y h + Point.some 0 y h = -Point.some 0 y h := by
    rw [Point.add_self_of_Y_ne hy, Point.neg_some]
    have hs : (W b).slope 0 0 y y = 0 := by
      rw [slope_of_Y_ne rfl hy]; simp [W]
    have hx : (W b).addX 0 0 ((W b).slope 0 0 y y) = 0 := by rw [hs]; simp [addX, W]
    have hyy : (W b).addY 0 0 y ((W b).slope 0 0 y y) = (W b).negY 0 y := by
      rw [addY, negAddY, hx, hs, hn, hn]; ring
    simp only [hx, hyy]
  rw [show (3 : ℕ) = 2 + 1 from rfl, add_nsmul, two_nsmul, one_nsmul, e, neg_add_cancel]

theorem coprime_three_bnR : Nat.Coprime 3 bnR := by decide +kernel

/-- in a group, an element killed by `3` and by `r` is zero -/
theorem eq_zero_of_three_of_r {G : Type} [AddGroup G] {A : G} (h3 : 3 • A = 0) (hr : bnR • A = 0) :
    A = 0 := by
  have d3 := addOrderOf_dvd_of_nsmul_eq_zero h3
  have dr := addOrderOf_dvd_of_nsmul_eq_zero hr
  have : addOrderOf A ∣ 1 := by
    have := Nat.dvd_gcd d3 dr
    rwa [coprime_three_bnR] at this
  exact AddMonoid.addOrderOf_eq_one_iff.mp (Nat.dvd_one.mp this)

/-! ### building the context -/

section build
variable [DecidableEq K2bn] [DecidableEq K12bn]

/-- the vertical value at a finite multiple of the twisted point is killed by the final exponent -/
theorem vert_killed {Pt : CurvePt (toQ bnB2 : K2bn)} (hr : bnR • Pt = 0) {x y : Fq bnP}
    (hP : (W B12).Equation (emb x) (emb y)) (j : ℕ) (hj : j • bnTwistOpt Pt ≠ 0) :
    vertVal hP (j • bnTwistOpt Pt) ^ bnFinalExp = 1 := by
  rw [← map_nsmul] at hj ⊢
  have hj' : j • Pt ≠ 0 := fun h => hj (by rw [h, map_zero])
  have hrj : bnR • (j • Pt) = 0 := by rw [smul_comm, hr, smul_zero]
  have hrep := reprRef_bnTwistOpt (j • Pt)
  rcases hA : j • Pt with _ | ⟨x', y', h'⟩
  · exact absurd hA hj'
  rw [hA] at hrep hrj
  rcases hB : bnTwistOpt (Point.some x' y' h') with _ | ⟨X, Y, H⟩
  · rw [hB] at hrep; cases hrep
  rw [hB] at hrep
  simp only [reprRef_some, twO_some, Option.some.injEq, Prod.mk.injEq] at hrep
  rw [vertVal_some]
  apply pow_finalExp_of_inFp6
  · intro h0
    have hx : emb x = psiBn x' * wQ bnP bnMc12 ^ 2 := by rw [← hrep.1]; exact sub_eq_zero.mp h0
    have hx0 : x' = 0 := eq_zero_of_of_eq_psi_mul (by rw [← emb_apply]; exact hx)
    subst hx0
    have := eq_zero_of_three_of_r (three_nsmul_of_x_zero h') hrj
    cases this
  · rw [hrep.1]
    exact inFp6_sub (inFp6_emb x) (inFp6_mul (inFp6_psi x') inFp6_w2)

end build

end PyEcc.MillerBnSem
