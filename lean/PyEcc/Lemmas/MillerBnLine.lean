/-
  PyEcc.Lemmas.MillerBnLine — the reference bn128 `linefunc` (`Gen.RefBn.linefunc`):
  * it commutes with operation-preserving coordinate maps (`OpHom`, `GoodHom` — as the other generated
    functions do in `Lemmas/TransferRefBn.lean`);
  * over a field, on the representations of two finite Mathlib points `A`, `B` with `A + B ≠ ∞` it
    returns the value `ℓ_{A,B}(P)` of `Lemmas/MillerBnIdeal.lean` (`lineVal`): chord for `A ≠ B`,
    tangent for `A = B`.
-/
import PyEcc.Lemmas.MillerBnIdeal
import PyEcc.Lemmas.TransferRefBn

set_option linter.unusedSectionVars false
set_option linter.unusedVariables false

namespace PyEcc.MillerBnSem
open PyEcc PyEcc.Gen PyEcc.Transfer PyEcc.Transfer.BnRef WeierstrassCurve WeierstrassCurve.Affine

section transfer
variable {A B : Type}
  [Zero A] [One A] [Add A] [Sub A] [Mul A] [Neg A] [Div A] [NatCast A] [Pow A Nat] [DecidableEq A]
  [Zero B] [One B] [Add B] [Sub B] [Mul B] [Neg B] [Div B] [NatCast B] [Pow B Nat] [DecidableEq B]

theorem ref_linefunc_map {ψ : A → B} (h : OpHom ψ) (P1 P2 T : Option (A × A)) :
    (RefBn.linefunc P1 P2 T).map ψ = RefBn.linefunc (mapO ψ P1) (mapO ψ P2) (mapO ψ T) := by
  rcases P1 with _ | ⟨x1, y1⟩
  · simp [RefBn.linefunc, Except.map]
  rcases P2 with _ | ⟨x2, y2⟩
  · simp [RefBn.linefunc, Except.map]
  rcases T with _ | ⟨xt, yt⟩
  · simp [RefBn.linefunc, Except.map]
  simp only [RefBn.linefunc, mapO_some, reduceCtorEq, or_self, if_false, ne_eq, h.eq_iff]
  split_ifs <;>
    simp only [Except.map, h.map_sub, h.map_div, h.map_pow, h.map_mul, h.map_natCast]

open GoodSub in
/-- reference `linefunc` of good points: same outcome as on the images, the value being good and
    mapped by `φ` -/
theorem ref_good_linefunc {Good : A → Prop} {φ : A → B} (h : GoodHom Good φ)
    {P1 P2 T : Option (A × A)} (g₁ : GoodO Good P1) (g₂ : GoodO Good P2) (g : GoodO Good T) :
    (∀ l, RefBn.linefunc P1 P2 T = .ok l → Good l)
      ∧ (RefBn.linefunc P1 P2 T).map φ
          = RefBn.linefunc (mapO φ P1) (mapO φ P2) (mapO φ T) := by
  have e1 := ref_linefunc_map (opHom_img h) (liftO h P1 g₁) (liftO h P2 g₂) (liftO h T g)
  have e2 := ref_linefunc_map (opHom_val h) (liftO h P1 g₁) (liftO h P2 g₂) (liftO h T g)
  rw [img_liftO, img_liftO, img_liftO] at e1
  rw [val_liftO, val_liftO, val_liftO] at e2
  rw [← e2, ← e1]
  constructor
  · intro l hl
    rcases hX : RefBn.linefunc (liftO h P1 g₁) (liftO h P2 g₂) (liftO h T g) with e | X
    · rw [hX] at hl; cases hl
    · rw [hX] at hl
      cases hl
      exact X.2
  · rcases RefBn.linefunc (liftO h P1 g₁) (liftO h P2 g₂) (liftO h T g) with e | X <;> rfl

end transfer

section field
variable {F : Type} [Field F] [DecidableEq F] {b : F} {xP yP : F} (hP : (W b).Equation xP yP)

/-- on two finite points with finite sum, the reference `linefunc` evaluated at `P` returns the value
    `ℓ_{A,B}(P)` of the line element -/
theorem ref_linefunc_lineVal {A B : (W b).Point} (hA : A ≠ 0) (hB : B ≠ 0) (hAB : A + B ≠ 0) :
    RefBn.linefunc (reprRef A) (reprRef B) (some (xP, yP)) = .ok (lineVal hP A B) := by
  rcases A with _ | ⟨x₁, y₁, h₁⟩
  · exact absurd rfl hA
  rcases B with _ | ⟨x₂, y₂, h₂⟩
  · exact absurd rfl hB
  have hxy : ¬(x₁ = x₂ ∧ y₁ = (W b).negY x₂ y₂) := fun h => hAB (Point.add_of_Y_eq h.1 h.2)
  rw [lineVal_some]
  simp only [reprRef_some, RefBn.linefunc, reduceCtorEq, or_self, if_false]
  by_cases hx : x₁ = x₂
  · have hy : y₁ ≠ (W b).negY x₂ y₂ := fun h => hxy ⟨hx, h⟩
    have hyy : y₁ = y₂ := Y_eq_of_Y_ne h₁.1 h₂.1 hx hy
    rw [slope_of_Y_ne hx hy]
    simp only [hx, hyy, ne_eq, not_true_eq_false, if_false, if_true]
    congr 2
    have hn : ∀ x y : F, (W b).negY x y = -y := GroupOrder.negY_W b
    rw [hn]
    simp only [W, Nat.cast_ofNat]
    congr 1
    ring
  · rw [slope_of_X_ne hx]
    simp only [ne_eq, hx, not_false_eq_true, if_true]
    congr 2
    rw [← neg_sub y₂ y₁, ← neg_sub x₂ x₁, neg_div_neg_eq]

end field

end PyEcc.MillerBnSem
