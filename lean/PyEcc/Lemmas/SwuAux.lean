/-
  PyEcc.Lemmas.SwuAux — helper lemmas for C10 (Mathlib).
   * generic field algebra behind the simplified SWU map: the SSWU identity
     `g(Z·t²·x1) = Z³·t⁶·g(x1)`, projective numerator/denominator = the RFC's `x1`, `u/v = g(N/D)`;
   * the straight-line RFC function satisfies the relational spec, and the relation is functional;
   * `F1 = Fq blsP` facts: Euler's criterion transported from `ZMod blsP`, `sgn0` of a negation,
     `sqrt_division_FQ` decides squareness of `u/v`.
-/
import PyEcc.Spec.Rfc9380Sswu
import PyEcc.Sem.FqZMod
import PyEcc.Sem.Primes
import PyEcc.Model.Swu
import Mathlib.Tactic.Ring
import Mathlib.Tactic.FieldSimp
import Mathlib.Tactic.LinearCombination
import Mathlib.NumberTheory.LegendreSymbol.Basic

set_option maxRecDepth 100000

namespace PyEcc.SwuSem
open PyEcc.Spec

/-! ### generic algebra -/
section generic
variable {F : Type*} [Field F]

theorem ne_zero_factors (Z t : F) (hT : Z ^ 2 * t ^ 4 + Z * t ^ 2 ≠ 0) :
    Z ≠ 0 ∧ t ≠ 0 ∧ Z * t ^ 2 + 1 ≠ 0 := by
  refine ⟨?_, ?_, ?_⟩ <;> intro h <;> apply hT
  · rw [h]; ring
  · rw [h]; ring
  · linear_combination (Z * t ^ 2) * h

/-- **SSWU identity**: for `x1 = (−B/A)(1 + 1/(Z²t⁴ + Zt²))` one has `g(Z t² x1) = Z³ t⁶ g(x1)`. -/
theorem sswu_identity (A B Z t : F) (hA : A ≠ 0) (hT : Z ^ 2 * t ^ 4 + Z * t ^ 2 ≠ 0) :
    sswuG A B (Z * t ^ 2 * ((-B / A) * (1 + 1 / (Z ^ 2 * t ^ 4 + Z * t ^ 2))))
      = Z ^ 3 * t ^ 6 * sswuG A B ((-B / A) * (1 + 1 / (Z ^ 2 * t ^ 4 + Z * t ^ 2))) := by
  unfold sswuG
  obtain ⟨hZ, ht, h1⟩ := ne_zero_factors Z t hT
  have h2 : 1 + Z * t ^ 2 ≠ 0 := by rwa [add_comm] at h1
  field_simp
  ring

/-- the RFC's `x1` in the non-exceptional case -/
theorem sswuX1_of_ne (A B Z u : F) (hT : Z ^ 2 * u ^ 4 + Z * u ^ 2 ≠ 0) :
    sswuX1 A B Z u = (-B / A) * (1 + 1 / (Z ^ 2 * u ^ 4 + Z * u ^ 2)) := by
  unfold sswuX1 inv0
  simp only [inv_eq_zero, hT, if_false, one_div]

/-- the RFC's `x1` in the exceptional case -/
theorem sswuX1_of_eq (A B Z u : F) (hT : Z ^ 2 * u ^ 4 + Z * u ^ 2 = 0) :
    sswuX1 A B Z u = B / (Z * A) := by
  unfold sswuX1 inv0
  simp only [hT, inv_zero, if_true]

/-- the SSWU identity about the specification's `x1`, `x2` (non-exceptional `u`) -/
theorem sswuG_X2 (A B Z u : F) (hA : A ≠ 0) (hT : Z ^ 2 * u ^ 4 + Z * u ^ 2 ≠ 0) :
    sswuG A B (sswuX2 A B Z u) = Z ^ 3 * u ^ 6 * sswuG A B (sswuX1 A B Z u) := by
  unfold sswuX2
  rw [sswuX1_of_ne A B Z u hT]
  exact sswu_identity A B Z u hA hT

/-- projective `x1`, generic case: the code's `N = B(T+1)`, `D = −A·T` with `T = Zt² + (Zt²)² ≠ 0`
    satisfy `N / D = x1`. -/
theorem proj_x1_generic (A B Z t : F) (hA : A ≠ 0) (hT : Z * t ^ 2 + (Z * t ^ 2) ^ 2 ≠ 0) :
    (B * (Z * t ^ 2 + (Z * t ^ 2) ^ 2 + 1)) / (-(A * (Z * t ^ 2 + (Z * t ^ 2) ^ 2)))
      = sswuX1 A B Z t := by
  have hT' : Z ^ 2 * t ^ 4 + Z * t ^ 2 ≠ 0 := by
    intro h; apply hT; rw [← h]; ring
  rw [sswuX1_of_ne A B Z t hT']
  obtain ⟨hZ, ht, h1⟩ := ne_zero_factors Z t hT'
  have h2 : 1 + Z * t ^ 2 ≠ 0 := by rwa [add_comm] at h1
  field_simp
  ring

/-- projective `x1`, exceptional case: `T = Zt² + (Zt²)² = 0` makes the code's denominator `−A·T`
    zero; it is replaced by `Z·A`, the numerator is `B·(0+1)`: `N / D = B/(Z·A) = x1`. -/
theorem proj_x1_exceptional (A B Z t : F) (hT : Z * t ^ 2 + (Z * t ^ 2) ^ 2 = 0) :
    (B * (Z * t ^ 2 + (Z * t ^ 2) ^ 2 + 1)) / (Z * A) = sswuX1 A B Z t := by
  have hT' : Z ^ 2 * t ^ 4 + Z * t ^ 2 = 0 := by rw [← hT]; ring
  rw [sswuX1_of_eq A B Z t hT', hT, zero_add, mul_one]

/-- `u / v = g(N / D)` for `v = D³`, `u = N³ + A·N·D² + B·D³`, `D ≠ 0`. -/
theorem proj_g (A B N D : F) (hD : D ≠ 0) :
    (N ^ 3 + A * N * D ^ 2 + B * D ^ 3) / D ^ 3 = sswuG A B (N / D) := by
  unfold sswuG
  field_simp

/-- The straight-line RFC function satisfies the relational specification, for every `sqrt` that
    returns a root of each square that is passed to it, every `sgn0` with `sgn0(−y) ≠ sgn0(y)` for
    `y ≠ 0` and values in `{0, 1}`, provided `g(x2)` is a square whenever `g(x1)` is not (which
    RFC 9380 guarantees by the choice of `Z`). -/
theorem mapToCurveSimpleSwu_isSswu (sgn0 : F → ℕ) (sqrt : F → F) (A B Z u : F)
    (hsqrt : ∀ a, IsSquare a → sqrt a ^ 2 = a)
    (hsgn : ∀ y, y ≠ 0 → sgn0 (-y) ≠ sgn0 y) (hsgn01 : ∀ y, sgn0 y < 2)
    (hx2 : ¬ IsSquare (sswuG A B (sswuX1 A B Z u)) → IsSquare (sswuG A B (sswuX2 A B Z u))) :
    IsSswu sgn0 A B Z u (mapToCurveSimpleSwu sgn0 sqrt A B Z u).1
      (mapToCurveSimpleSwu sgn0 sqrt A B Z u).2 := by
  unfold mapToCurveSimpleSwu IsSswu
  simp only
  have hsign : ∀ y : F, (if sgn0 u ≠ sgn0 y then -y else y) = 0 ∨
      sgn0 (if sgn0 u ≠ sgn0 y then -y else y) = sgn0 u := by
    intro y
    by_cases hy : y = 0
    · left; simp [hy]
    · right
      by_cases h : sgn0 u = sgn0 y
      · simp [h]
      · simp only [ne_eq, h, not_false_eq_true, if_true]
        have h1 := hsgn y hy
        have h2 := hsgn01 y; have h3 := hsgn01 (-y); have h4 := hsgn01 u
        omega
  have hsq : ∀ y : F, (if sgn0 u ≠ sgn0 y then -y else y) ^ 2 = y ^ 2 := by
    intro y; split <;> ring
  refine ⟨?_, ?_⟩
  · by_cases h : IsSquare (sswuG A B (sswuX1 A B Z u))
    · left
      have h' : IsSquare (sswuX1 A B Z u ^ 3 + A * sswuX1 A B Z u + B) := h
      simp only [h', if_true]
      exact ⟨h, trivial, by rw [hsq, hsqrt _ h']; rfl⟩
    · right
      have h' : ¬ IsSquare (sswuX1 A B Z u ^ 3 + A * sswuX1 A B Z u + B) := h
      simp only [h', if_false]
      refine ⟨h, rfl, ?_⟩
      rw [hsq]; exact hsqrt _ (hx2 h)
  · exact hsign _

/-- The relational specification determines the point: two pairs related to the same `u` are equal
    (for a `sgn0` that separates `y` from `−y`, in a field of characteristic ≠ 2 this is RFC 9380's
    `sgn0`). -/
theorem IsSswu.unique (sgn0 : F → ℕ) (A B Z u x y x' y' : F)
    (hsgn : ∀ y, y ≠ 0 → sgn0 (-y) ≠ sgn0 y)
    (h : IsSswu sgn0 A B Z u x y) (h' : IsSswu sgn0 A B Z u x' y') : x = x' ∧ y = y' := by
  obtain ⟨hxy, hs⟩ := h
  obtain ⟨hxy', hs'⟩ := h'
  have hx : x = x' ∧ y ^ 2 = y' ^ 2 := by
    rcases hxy with ⟨h1, h2, h3⟩ | ⟨h1, h2, h3⟩ <;> rcases hxy' with ⟨h1', h2', h3'⟩ | ⟨h1', h2', h3'⟩
    · exact ⟨h2.trans h2'.symm, by rw [h3, h3', h2, h2']⟩
    · exact absurd h1 h1'
    · exact absurd h1' h1
    · exact ⟨h2.trans h2'.symm, by rw [h3, h3', h2, h2']⟩
  refine ⟨hx.1, ?_⟩
  rcases sq_eq_sq_iff_eq_or_eq_neg.mp hx.2 with h | h
  · exact h
  · by_cases hy' : y' = 0
    · rw [h, hy', neg_zero]
    · have hy : y ≠ 0 := by rw [h]; exact neg_ne_zero.mpr hy'
      rcases hs with hs | hs
      · exact absurd hs hy
      rcases hs' with hs' | hs'
      · exact absurd hs' hy'
      exfalso
      apply hsgn y' hy'
      rw [← h, hs, hs']

/-! #### transport along a field isomorphism -/
variable {K : Type*} [Field K]

theorem isSquare_map_iff (e : F ≃+* K) (a : F) : IsSquare (e a) ↔ IsSquare a := by
  constructor
  · intro h
    have := h.map e.symm
    rwa [RingEquiv.symm_apply_apply] at this
  · intro h; exact h.map e

theorem map_sswuG (e : F ≃+* K) (A B x : F) : e (sswuG A B x) = sswuG (e A) (e B) (e x) := by
  unfold sswuG; simp only [map_add, map_mul, map_pow]

theorem map_sswuX1 (e : F ≃+* K) (A B Z u : F) :
    e (sswuX1 A B Z u) = sswuX1 (e A) (e B) (e Z) (e u) := by
  by_cases hT : Z ^ 2 * u ^ 4 + Z * u ^ 2 = 0
  · have hT' : e Z ^ 2 * e u ^ 4 + e Z * e u ^ 2 = 0 := by
      have := congrArg e hT
      simpa only [map_add, map_mul, map_pow, map_zero] using this
    rw [sswuX1_of_eq _ _ _ _ hT, sswuX1_of_eq _ _ _ _ hT', map_div₀, map_mul]
  · have hT' : e Z ^ 2 * e u ^ 4 + e Z * e u ^ 2 ≠ 0 := by
      intro h
      apply hT
      apply e.injective
      simpa only [map_add, map_mul, map_pow, map_zero] using h
    rw [sswuX1_of_ne _ _ _ _ hT, sswuX1_of_ne _ _ _ _ hT']
    simp only [map_add, map_mul, map_pow, map_div₀, map_neg, map_one]

theorem map_sswuX2 (e : F ≃+* K) (A B Z u : F) :
    e (sswuX2 A B Z u) = sswuX2 (e A) (e B) (e Z) (e u) := by
  unfold sswuX2; rw [map_mul, map_mul, map_pow, map_sswuX1]

/-- the relational specification is invariant under field isomorphisms that respect `sgn0` -/
theorem IsSswu.map_equiv (e : F ≃+* K) (sgn0 : F → ℕ) (sgn0' : K → ℕ)
    (hs : ∀ y, sgn0' (e y) = sgn0 y) {A B Z u x y : F} (h : IsSswu sgn0 A B Z u x y) :
    IsSswu sgn0' (e A) (e B) (e Z) (e u) (e x) (e y) := by
  obtain ⟨hxy, hsg⟩ := h
  refine ⟨?_, ?_⟩
  · rw [← map_sswuX1, ← map_sswuX2, ← map_sswuG, ← map_sswuG, isSquare_map_iff, ← map_pow]
    rcases hxy with ⟨h1, h2, h3⟩ | ⟨h1, h2, h3⟩
    · exact Or.inl ⟨h1, congrArg e h2, congrArg e h3⟩
    · exact Or.inr ⟨h1, congrArg e h2, congrArg e h3⟩
  · rcases hsg with h | h
    · left; rw [h, map_zero]
    · right; rw [hs, hs, h]

end generic

/-! ### the base field `F1 = Fq blsP` of BLS12-381 -/
section F1
open Gen.Consts

theorem toZMod_eq_zero {a : F1} : Fq.toZMod a = 0 ↔ a = 0 := by
  rw [← Fq.toZMod_zero, Fq.toZMod_inj]

/-- squares correspond under `Fq.toZMod` -/
theorem isSquare_toZMod (a : F1) : IsSquare (Fq.toZMod a) ↔ IsSquare a := by
  constructor
  · rintro ⟨z, hz⟩
    refine ⟨Fq.ofZMod z, Fq.toZMod_injective ?_⟩
    rw [hz, Fq.toZMod_mul, Fq.toZMod_ofZMod]
  · rintro ⟨r, hr⟩
    exact ⟨Fq.toZMod r, by rw [hr, Fq.toZMod_mul]⟩

theorem two_ne_zero_F1 : (2 : F1) ≠ 0 := by
  intro h
  have h2 := congrArg Fq.toZMod h
  rw [Fq.toZMod_zero] at h2
  have h3 : ((2 : ℕ) : ZMod blsP) = 0 := by
    rw [← h2]; exact (Fq.toZMod_natCast 2).symm
  rw [ZMod.natCast_eq_zero_iff] at h3
  exact absurd (Nat.le_of_dvd (by decide) h3) (by decide)

theorem neg_one_ne_one_F1 : (-1 : F1) ≠ 1 := by
  intro h
  apply two_ne_zero_F1
  linear_combination (-1 : F1) * h

/-- Fermat/Euler in `F1`: `w^((p−1)/2) = ±1` for `w ≠ 0` -/
theorem pow_half (w : F1) (hw : w ≠ 0) : w ^ (blsP / 2) = 1 ∨ w ^ (blsP / 2) = -1 := by
  have h := ZMod.pow_div_two_eq_neg_one_or_one blsP (a := Fq.toZMod w) (mt toZMod_eq_zero.mp hw)
  rcases h with h | h
  · left; apply Fq.toZMod_injective; rw [Fq.toZMod_pow, h, Fq.toZMod_one]
  · right; apply Fq.toZMod_injective; rw [Fq.toZMod_pow, h, Fq.toZMod_neg, Fq.toZMod_one]

/-- Euler's criterion in `F1` -/
theorem euler (w : F1) (hw : w ≠ 0) : IsSquare w ↔ w ^ (blsP / 2) = 1 := by
  rw [← isSquare_toZMod, ZMod.euler_criterion blsP (mt toZMod_eq_zero.mp hw), ← Fq.toZMod_pow,
    ← Fq.toZMod_one, Fq.toZMod_inj]

/-- `P_MINUS_3_DIV_4` is `(p − 3)/4`, and `p ≡ 3 (mod 4)`; hence `2·((p−3)/4) + 1 = (p−1)/2` -/
theorem P_MINUS_3_DIV_4_eq :
    h2c_P_MINUS_3_DIV_4 = (blsP - 3) / 4 ∧ blsP % 4 = 3 ∧ blsP / 2 = 2 * h2c_P_MINUS_3_DIV_4 + 1 := by
  decide +kernel

theorem sqrtDiv_snd (u v : F1) :
    (sqrtDivisionFq u v).2 = u * v * (u * v * v ^ 2) ^ h2c_P_MINUS_3_DIV_4 := rfl

theorem sqrtDiv_fst (u v : F1) :
    (sqrtDivisionFq u v).1 = decide ((sqrtDivisionFq u v).2 ^ 2 * v - u = 0) := rfl

theorem pow_aux (u v : F1) (k : ℕ) :
    (u * v * (u * v * v ^ 2) ^ k) ^ 2 * v = u * (u * v * v ^ 2) ^ (2 * k + 1) := by ring

/-- the candidate `r = uv·(uv³)^((p−3)/4)` of `sqrt_division_FQ` satisfies
    `r²·v = u·(uv³)^((p−1)/2)` -/
theorem sqrtDiv_sq (u v : F1) :
    (sqrtDivisionFq u v).2 ^ 2 * v = u * (u * v * v ^ 2) ^ (blsP / 2) := by
  rw [sqrtDiv_snd, P_MINUS_3_DIV_4_eq.2.2]
  exact pow_aux u v _

theorem isSquare_uv3 (u v : F1) (hv : v ≠ 0) : IsSquare (u * v * v ^ 2) ↔ IsSquare (u / v) := by
  constructor
  · intro h
    have : u / v = (u * v * v ^ 2) / (v ^ 2 * v ^ 2) := by field_simp
    rw [this]
    exact h.div (IsSquare.mul_self _)
  · intro h
    have : u * v * v ^ 2 = (u / v) * (v ^ 2 * v ^ 2) := by field_simp
    rw [this]
    exact h.mul (IsSquare.mul_self _)

/-- **`sqrt_division_FQ` is correct** (`p ≡ 3 mod 4`): for `v ≠ 0` it returns `(True, r)` with
    `r²·v = u` when `u/v` is a square, and `(False, r)` with `r²·v = −u` when it is not. -/
theorem sqrtDiv_spec (u v : F1) (hv : v ≠ 0) :
    ((sqrtDivisionFq u v).1 = true ∧ (sqrtDivisionFq u v).2 ^ 2 * v = u ∧ IsSquare (u / v)) ∨
    ((sqrtDivisionFq u v).1 = false ∧ (sqrtDivisionFq u v).2 ^ 2 * v = -u ∧ ¬ IsSquare (u / v)) := by
  have hsq := sqrtDiv_sq u v
  rw [sqrtDiv_fst]
  by_cases hu : u = 0
  · left
    subst hu
    have hu : (0 : F1) = 0 := rfl
    rw [zero_mul] at hsq
    refine ⟨?_, by rw [hsq, hu], by rw [hu, zero_div]; exact IsSquare.zero⟩
    rw [hsq, hu, sub_zero]; exact decide_eq_true rfl
  · have hw : u * v * v ^ 2 ≠ 0 := mul_ne_zero (mul_ne_zero hu hv) (pow_ne_zero 2 hv)
    rcases pow_half _ hw with h | h
    · left
      rw [h, mul_one] at hsq
      refine ⟨?_, hsq, (isSquare_uv3 u v hv).mp ((euler _ hw).mpr h)⟩
      rw [hsq, sub_self]; exact decide_eq_true rfl
    · right
      rw [h, mul_neg, mul_one] at hsq
      refine ⟨?_, hsq, ?_⟩
      · rw [hsq]
        apply decide_eq_false
        intro h0
        have : (2 : F1) * u = 0 := by linear_combination (-1 : F1) * h0
        rcases mul_eq_zero.mp this with h2 | h2
        · exact two_ne_zero_F1 h2
        · exact hu h2
      · intro hs
        have := (euler _ hw).mp ((isSquare_uv3 u v hv).mpr hs)
        rw [h] at this
        exact neg_one_ne_one_F1 this

/-- `sqrt_division_FQ(u, v)` returns `True` exactly when `u/v` is a square (`v ≠ 0`) -/
theorem sqrtDiv_true_iff (u v : F1) (hv : v ≠ 0) :
    (sqrtDivisionFq u v).1 = true ↔ IsSquare (u / v) := by
  rcases sqrtDiv_spec u v hv with ⟨h1, _, h3⟩ | ⟨h1, _, h3⟩
  · exact ⟨fun _ => h3, fun _ => h1⟩
  · exact ⟨fun h => by rw [h1] at h; exact absurd h (by decide), fun h => absurd h h3⟩

/-! #### `sgn0` -/

theorem neg_n (p : ℕ) [NeZero p] (y : Fq p) (hy : y.n ≠ 0) : (-y).n = p - y.n := by
  show (Fq.ofInt (-(y.n : ℤ))).n = _
  have h := Fq.n_ofInt (p := p) (-(y.n : ℤ))
  have hlt := y.lt
  have : (-(y.n : ℤ)) % (p : ℤ) = (p : ℤ) - y.n := by
    rw [← Int.add_emod_right, Int.emod_eq_of_lt (by omega) (by omega)]; ring
  rw [this] at h
  omega

theorem sgn0_lt_two (y : F1) : y.sgn0 < 2 := Nat.mod_lt _ (by decide)

/-- `sgn0(−y) ≠ sgn0(y)` for `y ≠ 0`, because `p` is odd -/
theorem sgn0_neg_ne (y : F1) (hy : y ≠ 0) : (-y).sgn0 ≠ y.sgn0 := by
  have hn : y.n ≠ 0 := by
    intro h; apply hy; apply Fq.ext; rw [h]; rfl
  unfold Fq.sgn0
  rw [neg_n blsP y hn]
  have hlt := y.lt
  have hp : blsP % 2 = 1 := by decide +kernel
  omega

/-- the model's `FQ.sgn0` is RFC 9380's `sgn0` (m = 1) of the residue class -/
theorem sgn0_eq_spec (y : F1) : y.sgn0 = Spec.sgn0Fp (Fq.toZMod y) := by
  unfold Spec.sgn0Fp Spec.Sgn0.sgn0_m_eq_1 Fq.sgn0 Fq.toZMod
  rw [ZMod.val_natCast_of_lt y.lt]

end F1

end PyEcc.SwuSem
