/-
  PyEcc.Lemmas.MillerStep — one iteration of the optimized BLS12-381 Miller loop against one iteration
  of the reference loop, and the induction over the digit list.

  Invariant (`Inv`): the optimized state `((f_num, f_den), R, twist_R)` and the reference state
  `(f, R_ref)` satisfy `f_den ≠ 0`, `f_num / f_den = f` (values in `K12`), `twist_R = twist(R)`, and
  `twist_R` represents `R_ref` (affine reading in `K12`); all coordinates stored reduced.
-/
import PyEcc.Lemmas.MillerTwist

set_option linter.unusedSectionVars false
set_option linter.unusedVariables false
set_option maxRecDepth 100000

namespace PyEcc.MillerSem
open Polynomial PyEcc PyEcc.Gen PyEcc.Gen.Consts PyEcc.Fqp PyEcc.FqpSem PyEcc.Transfer PyEcc.C13
  PyEcc.C13.Bls

/-- model triple types -/
abbrev T2 : Type := OBls2 × OBls2 × OBls2
abbrev T12 : Type := OBls12 × OBls12 × OBls12
abbrev A12 : Type := Option (RBls12 × RBls12)

/-! ### the two loop bodies, as top-level functions -/

section optstep
variable {p : Nat} {mc2 mc12 : List Int}
local notation "F2" => Fqp Variant.opt p mc2
local notation "F12" => Fqp Variant.opt p mc12

/-- body of `for v in pseudo_binary_encoding[62::-1]` of the optimized `miller_loop`
    (the local function `step` of `optBlsMillerLoop`, verbatim) -/
def optBlsStep (castP twistQ : F12 × F12 × F12) (Q : F2 × F2 × F2)
    (st : (F12 × F12) × (F2 × F2 × F2) × (F12 × F12 × F12)) (v : Int) :
    (F12 × F12) × (F2 × F2 × F2) × (F12 × F12 × F12) :=
  let ((fNum, fDen), R, twistR) := st
  let (n, d) := Gen.OptBls.linefunc twistR twistR castP
  let fNum := fNum * fNum * n
  let fDen := fDen * fDen * d
  let R := Gen.OptBls.double R
  let twistR : F12 × F12 × F12 := twistOptBls R
  if v = 1 then
    let (n, d) := Gen.OptBls.linefunc twistR twistQ castP
    let R := Gen.OptBls.add R Q
    ((fNum * n, fDen * d), R, twistOptBls R)
  else ((fNum, fDen), R, twistR)

/-- the optimized `miller_loop` is the fold of `optBlsStep`, one division, and the optional power -/
theorem optBlsMillerLoop_eq [NeZero p] (digits : List Int) (fe : Option Nat) (Q : F2 × F2 × F2)
    (P : Fq p × Fq p × Fq p) :
    (optBlsMillerLoop digits fe Q P : F12) =
      (let r := digits.foldl
          (optBlsStep (castFq12 P.1, castFq12 P.2.1, castFq12 P.2.2) (twistOptBls Q) Q)
          (((1 : F12), (1 : F12)), Q, twistOptBls Q)
       match fe with
       | some e => (r.1.1 / r.1.2) ^ e
       | none => r.1.1 / r.1.2) := rfl

/-- `miller_loop(Q, P, final_exponentiate=False)` is `f_num / f_den` of the fold -/
theorem optBlsMillerLoop_none_eq [NeZero p] (digits : List Int) (Q : F2 × F2 × F2)
    (P : Fq p × Fq p × Fq p) :
    (optBlsMillerLoop digits none Q P : F12) =
      (digits.foldl (optBlsStep (castFq12 P.1, castFq12 P.2.1, castFq12 P.2.2) (twistOptBls Q) Q)
          (((1 : F12), (1 : F12)), Q, twistOptBls Q)).1.1 /
      (digits.foldl (optBlsStep (castFq12 P.1, castFq12 P.2.1, castFq12 P.2.2) (twistOptBls Q) Q)
          (((1 : F12), (1 : F12)), Q, twistOptBls Q)).1.2 := rfl

end optstep

/-- the running point after one optimized iteration -/
theorem optBlsStep_R (castP twistQ : T12) (Q : T2) (st : (OBls12 × OBls12) × T2 × T12) (v : Int) :
    (optBlsStep castP twistQ Q st v).2.1 =
      if v = 1 then Gen.OptBls.add (Gen.OptBls.double st.2.1) Q else Gen.OptBls.double st.2.1 := by
  obtain ⟨⟨a, b⟩, R, tR⟩ := st
  unfold optBlsStep
  by_cases hv : v = 1 <;> simp [hv]

theorem ok_bind {ε α β : Type} (a : α) (f : α → Except ε β) : (Except.ok a >>= f) = f a := rfl

/-- body of the reference loop in explicit form -/
theorem refMillerStep_eq {p : Nat} {mc12 : List Int} (ops : RefOps p mc12) (ate : Nat)
    (Q P : Option (Fqp .ref p mc12 × Fqp .ref p mc12)) (f : Fqp .ref p mc12)
    (R : Option (Fqp .ref p mc12 × Fqp .ref p mc12)) (i : Nat) :
    refMillerStep ops ate Q P (f, R) i =
      (ops.linefunc R R P >>= fun l =>
        if bitSet ate i then
          ops.linefunc (ops.double R) Q P >>= fun l2 =>
            ops.add (ops.double R) Q >>= fun R2 => pure (f * f * l * l2, R2)
        else pure (f * f * l, ops.double R)) := rfl

/-! ### the line-function lemma: `num / den` is the reference line value -/

section line
theorem mapP_fst' {A B : Type} (ψ : A → B) (X : A × A) : (mapP ψ X).1 = ψ X.1 := rfl
theorem mapP_snd' {A B : Type} (ψ : A → B) (X : A × A) : (mapP ψ X).2 = ψ X.2 := rfl
variable [DecidableEq K12]

/-- For reduced operands whose values are finite (`z ≠ 0`) and whose first operand has `y ≠ 0`: the
    optimized `linefunc` returns a reduced pair `(n, d)` with `d ≠ 0`, the reference `linefunc` run on
    reference points represented by the operands returns normally, a reduced value `l`, and
    `n / d = l` in `K12`. -/
theorem line_lemma {T1 T2' cP : T12} {R1 R2 Pr : A12}
    (c1 : CanonT T1) (c2 : CanonT T2') (cP' : CanonT cP)
    (g1 : GoodO Canon R1) (g2 : GoodO Canon R2) (gP : GoodO Canon Pr)
    (a1 : toAff (mapT toQ T1) = mapO toQ R1) (a2 : toAff (mapT toQ T2') = mapO toQ R2)
    (aP : toAff (mapT toQ cP) = mapO toQ Pr)
    (hz1 : (toQ T1.2.2 : K12) ≠ 0) (hz2 : (toQ T2'.2.2 : K12) ≠ 0) (hzt : (toQ cP.2.2 : K12) ≠ 0)
    (hy1 : (toQ T1.2.1 : K12) ≠ 0) :
    ∃ l, RefBls.linefunc R1 R2 Pr = .ok l ∧ Canon l
      ∧ Canon (OptBls.linefunc T1 T2' cP).1 ∧ Canon (OptBls.linefunc T1 T2' cP).2
      ∧ (toQ (OptBls.linefunc T1 T2' cP).2 : K12) ≠ 0
      ∧ (toQ l : K12) = toQ (OptBls.linefunc T1 T2' cP).1 / toQ (OptBls.linefunc T1 T2' cP).2 := by
  obtain ⟨⟨cn, cd⟩, e⟩ := Transfer.Bls.good_linefunc (B := K12) (goodHom_F12 (v := .opt)) c1 c2 cP'
  have e1 : (OptBls.linefunc (mapT toQ T1) (mapT toQ T2') (mapT toQ cP)).1
      = (toQ (OptBls.linefunc T1 T2' cP).1 : K12) := by rw [← e, mapP_fst']
  have e2 : (OptBls.linefunc (mapT toQ T1) (mapT toQ T2') (mapT toQ cP)).2
      = (toQ (OptBls.linefunc T1 T2' cP).2 : K12) := by rw [← e, mapP_snd']
  have hden : (OptBls.linefunc (mapT toQ T1) (mapT toQ T2') (mapT toQ cP)).2 ≠ 0 := by
    rw [ne_eq, opt_linefunc_den_eq_zero_iff k12_two_ne_zero _ _ _ hz1 hz2 hzt]
    exact fun h => hy1 h.2
  have hl := opt_linefunc_toAff (mapT toQ T1) (mapT toQ T2') (mapT toQ cP) hz1 hz2 hzt hden
  rw [a1, a2, aP, e1, e2] at hl
  obtain ⟨gl, el⟩ := ref_good_linefunc (goodHom_F12 (v := .ref)) g1 g2 gP
  rw [hl] at el
  rcases hr : RefBls.linefunc R1 R2 Pr with err | l
  · rw [hr] at el; cases el
  · rw [hr] at el
    refine ⟨l, rfl, gl l hr, cn, cd, ?_, ?_⟩
    · rw [← e2]; exact hden
    · exact Except.ok.inj el

end line

/-! ### the invariant and the step lemma -/

/-- digit read by the reference loop at index `i` -/
def digitAt (ate i : Nat) : Int := if bitSet ate i then 1 else 0

section step
variable [DecidableEq K2] [DecidableEq K12]

/-- finite with `y ≠ 0` (model-level) -/
def Fin2 (R : T2) : Prop := R.2.2 ≠ 0 ∧ R.2.1 ≠ 0

instance (R : T2) : Decidable (Fin2 R) := by unfold Fin2; infer_instance

/-- the loop invariant relating the optimized and the reference state -/
structure Inv (so : (OBls12 × OBls12) × T2 × T12) (sr : RBls12 × A12) : Prop where
  cNum : Canon so.1.1
  cDen : Canon so.1.2
  cR : CanonT so.2.1
  tw : so.2.2 = twistOptBls so.2.1
  cf : Canon sr.1
  cRr : GoodO Canon sr.2
  den : (toQ so.1.2 : K12) ≠ 0
  val : (toQ so.1.1 : K12) / toQ so.1.2 = toQ sr.1
  pt : toAff (twK (mapT toQ so.2.1)) = mapO toQ sr.2

/-- the loop-independent data: `Q`, its reference twist `Qr`, the cast of `P` in both forms -/
structure Ctx (Q : T2) (Qr : A12) (castP : T12) (Pr : A12) : Prop where
  cQ : CanonT Q
  Qz : Q.2.2 ≠ 0
  cQr : GoodO Canon Qr
  hQ : toAff (twK (mapT toQ Q)) = mapO toQ Qr
  cP : CanonT castP
  Pz : (toQ castP.2.2 : K12) ≠ 0
  cPr : GoodO Canon Pr
  hP : toAff (mapT toQ castP) = mapO toQ Pr

theorem toQ2_ne_zero {a : OBls2} (ca : Canon a) (h : a ≠ 0) : (toQ a : K2) ≠ 0 :=
  fun e => h (((goodHom_F2 (v := .opt)).eq_zero_iff ca).mp e)

theorem twist_fin {R : T2} (cR : CanonT R) (hR : Fin2 R) :
    (toQ (twistOptBls R : T12).2.2 : K12) ≠ 0 ∧ (toQ (twistOptBls R : T12).2.1 : K12) ≠ 0 := by
  have e := toQ_twistOptBls cR
  have ez : (toQ (twistOptBls R : T12).2.2 : K12) = (twK (mapT toQ R)).2.2 := by rw [← e]; rfl
  have ey : (toQ (twistOptBls R : T12).2.1 : K12) = (twK (mapT toQ R)).2.1 := by rw [← e]; rfl
  rw [ez, ey, ne_eq, ne_eq, twK_z_eq_zero, twK_y_eq_zero]
  exact ⟨toQ2_ne_zero cR.2.2 hR.1, toQ2_ne_zero cR.2.1 hR.2⟩

theorem twist_z {R : T2} (cR : CanonT R) (hR : R.2.2 ≠ 0) :
    (toQ (twistOptBls R : T12).2.2 : K12) ≠ 0 := by
  have e := toQ_twistOptBls cR
  have ez : (toQ (twistOptBls R : T12).2.2 : K12) = (twK (mapT toQ R)).2.2 := by rw [← e]; rfl
  rw [ez, ne_eq, twK_z_eq_zero]
  exact toQ2_ne_zero cR.2.2 hR

/-- **One iteration.**  If the invariant holds, `R` is finite with `y ≠ 0` and — when the digit is 1 —
    so is `double(R)`, then the reference iteration returns normally and the invariant holds again. -/
theorem step_inv {Q : T2} {Qr : A12} {castP : T12} {Pr : A12} (ctx : Ctx Q Qr castP Pr)
    (ate i : Nat) {so : (OBls12 × OBls12) × T2 × T12} {sr : RBls12 × A12} (inv : Inv so sr)
    (h1 : Fin2 so.2.1) (h2 : bitSet ate i = true → Fin2 (OptBls.double so.2.1)) :
    ∃ sr', refMillerStep refBlsOps ate Qr Pr sr i = .ok sr' ∧
      Inv (optBlsStep castP (twistOptBls Q) Q so (digitAt ate i)) sr' := by
  obtain ⟨⟨fNum, fDen⟩, R, tR⟩ := so
  obtain ⟨f, Rr⟩ := sr
  obtain ⟨cNum, cDen, cR, tw, cf, cRr, den, val, pt⟩ := inv
  simp only at cNum cDen cR tw cf cRr den val pt h1 h2
  subst tw
  have hO := goodHom_F12 (v := .opt)
  have hRf := goodHom_F12 (v := .ref)
  -- tangent line at R
  have ctR : CanonT (twistOptBls R : T12) := canonT_twistOptBls R
  have atR : toAff (mapT toQ (twistOptBls R : T12)) = mapO toQ Rr := by
    rw [toQ_twistOptBls cR]; exact pt
  obtain ⟨zR, yR⟩ := twist_fin cR h1
  obtain ⟨l, hl, cl, cn, cd, dne, lv⟩ :=
    line_lemma ctR ctR ctx.cP cRr cRr ctx.cPr atR atR ctx.hP zR zR ctx.Pz yR
  -- doubling
  obtain ⟨cR', eR'⟩ := Transfer.Bls.good_double (B := K2) (goodHom_F2 (v := .opt)) cR
  obtain ⟨cRr', eRr'⟩ := ref_good_double hRf cRr
  have pt' : toAff (twK (mapT toQ (OptBls.double R))) = mapO toQ (RefBls.double Rr) := by
    rw [eR', toAff_twK_double, pt, eRr']
  -- new accumulators
  have cNum' : Canon (fNum * fNum * (OptBls.linefunc (twistOptBls R) (twistOptBls R) castP).1) :=
    hO.good_mul (hO.good_mul cNum cNum) cn
  have cDen' : Canon (fDen * fDen * (OptBls.linefunc (twistOptBls R) (twistOptBls R) castP).2) :=
    hO.good_mul (hO.good_mul cDen cDen) cd
  have cf' : Canon (f * f * l) := hRf.good_mul (hRf.good_mul cf cf) cl
  have vNum' : (toQ (fNum * fNum * (OptBls.linefunc (twistOptBls R) (twistOptBls R) castP).1) : K12)
      = toQ fNum * toQ fNum * toQ (OptBls.linefunc (twistOptBls R) (twistOptBls R) castP).1 := by
    rw [hO.map_mul (hO.good_mul cNum cNum) cn, hO.map_mul cNum cNum]
  have vDen' : (toQ (fDen * fDen * (OptBls.linefunc (twistOptBls R) (twistOptBls R) castP).2) : K12)
      = toQ fDen * toQ fDen * toQ (OptBls.linefunc (twistOptBls R) (twistOptBls R) castP).2 := by
    rw [hO.map_mul (hO.good_mul cDen cDen) cd, hO.map_mul cDen cDen]
  have vf' : (toQ (f * f * l) : K12) = toQ f * toQ f * toQ l := by
    rw [hRf.map_mul (hRf.good_mul cf cf) cl, hRf.map_mul cf cf]
  have den' : (toQ (fDen * fDen * (OptBls.linefunc (twistOptBls R) (twistOptBls R) castP).2) : K12)
      ≠ 0 := by
    rw [vDen']; exact mul_ne_zero (mul_ne_zero den den) dne
  have val' : (toQ (fNum * fNum * (OptBls.linefunc (twistOptBls R) (twistOptBls R) castP).1) : K12)
      / toQ (fDen * fDen * (OptBls.linefunc (twistOptBls R) (twistOptBls R) castP).2)
      = toQ (f * f * l) := by
    rw [vNum', vDen', vf', lv, ← val]
    field_simp
  rw [refMillerStep_eq]
  show ∃ sr', (RefBls.linefunc Rr Rr Pr >>= _) = Except.ok sr' ∧ _
  rw [hl, ok_bind]
  by_cases hb : bitSet ate i = true
  · -- digit 1: chord through double(R) and Q, then add
    obtain ⟨zR', yR'⟩ := twist_fin cR' (h2 hb)
    have ctR' : CanonT (twistOptBls (OptBls.double R) : T12) := canonT_twistOptBls _
    have ctQ : CanonT (twistOptBls Q : T12) := canonT_twistOptBls _
    have atR' : toAff (mapT toQ (twistOptBls (OptBls.double R) : T12))
        = mapO toQ (RefBls.double Rr) := by
      rw [toQ_twistOptBls cR']; exact pt'
    have atQ : toAff (mapT toQ (twistOptBls Q : T12)) = mapO toQ Qr := by
      rw [toQ_twistOptBls ctx.cQ]; exact ctx.hQ
    obtain ⟨l2, hl2, cl2, cn2, cd2, dne2, lv2⟩ :=
      line_lemma ctR' ctQ ctx.cP cRr' ctx.cQr ctx.cPr atR' atQ ctx.hP zR' (twist_z ctx.cQ ctx.Qz)
        ctx.Pz yR'
    obtain ⟨cR'', eR''⟩ := Transfer.Bls.good_add (B := K2) (goodHom_F2 (v := .opt)) cR' ctx.cQ
    obtain ⟨gA, eA⟩ := ref_good_add hRf cRr' ctx.cQr
    rw [← pt', ← ctx.hQ, ref_add_toAff_twK, ← eR''] at eA
    rcases hA : RefBls.add (RefBls.double Rr) Qr with err | R2
    · rw [hA] at eA; cases eA
    rw [hA] at eA
    have eA' : mapO toQ R2 = toAff (twK (mapT toQ (OptBls.add (OptBls.double R) Q))) :=
      Except.ok.inj eA
    refine ⟨(f * f * l * l2, R2), ?_, ?_⟩
    · simp only [hb, if_true]
      show (RefBls.linefunc (RefBls.double Rr) Qr Pr >>= _) = _
      rw [hl2, ok_bind]
      show (RefBls.add (RefBls.double Rr) Qr >>= _) = _
      rw [hA, ok_bind]
      rfl
    · simp only [digitAt, hb, if_true, optBlsStep]
      refine ⟨hO.good_mul cNum' cn2, hO.good_mul cDen' cd2, cR'', rfl, hRf.good_mul cf' cl2,
        gA R2 hA, ?_, ?_, eA'.symm⟩
      · show (toQ (_ * _) : K12) ≠ 0
        rw [hO.map_mul cDen' cd2]; exact mul_ne_zero den' dne2
      · show (toQ (_ * _) : K12) / toQ (_ * _) = toQ (_ * _)
        rw [hO.map_mul cNum' cn2, hO.map_mul cDen' cd2, hRf.map_mul cf' cl2, ← val', lv2]
        field_simp
  · -- digit 0
    refine ⟨(f * f * l, RefBls.double Rr), ?_, ?_⟩
    · simp only [hb]; rfl
    · simp only [digitAt, hb, optBlsStep]
      exact ⟨cNum', cDen', cR', rfl, cf', cRr', den', val', pt'⟩

end step

end PyEcc.MillerSem
