/-
  PyEcc.Lemmas.SwuNoRoot — the cubic `g(x) = x³ + A'x + B'` of the 11-isogenous curve of BLS12-381 G1
  has no root in `F1 = Fq blsP` (equivalently: the curve has no point of order 2, so the `y` of the
  SSWU map is never `0` and `sgn0(y) = sgn0(t)` holds without exception).

  Proof: a root `r` satisfies `r^p = r` (Fermat).  `x^p mod g` is computed by the kernel in the cubic
  algebra `F1[x]/(g)` (`xPowP = (c0, c1, c2)`); evaluation at `r` is multiplicative, so
  `c0 + c1·r + c2·r² = r`.  Eliminating `r²`, `r³` between this and `g(r) = 0` leaves a linear equation
  `α·r + β = 0` with concrete `α ≠ 0`, and `g(−β/α) ≠ 0` by evaluation.
-/
import PyEcc.Lemmas.SwuG1

set_option maxRecDepth 100000

namespace PyEcc.SwuSem
open PyEcc.Spec Gen.Consts

local notation "A'" => ISO_11_A
local notation "B'" => ISO_11_B

/-- evaluation of a coefficient triple at `r` -/
def evK (r : F1) (a : F1 × F1 × F1) : F1 := a.1 + a.2.1 * r + a.2.2 * r ^ 2

theorem evK_mulK (r : F1) (hr : r ^ 3 + A' * r + B' = 0) (a b : F1 × F1 × F1) :
    evK r (mulK a b) = evK r a * evK r b := by
  obtain ⟨a0, a1, a2⟩ := a
  obtain ⟨b0, b1, b2⟩ := b
  show (a0 * b0 - B' * (a1 * b2 + a2 * b1)) + (a0 * b1 + a1 * b0 - A' * (a1 * b2 + a2 * b1) - B' * (a2 * b2)) * r
      + (a0 * b2 + a1 * b1 + a2 * b0 - A' * (a2 * b2)) * r ^ 2
      = (a0 + a1 * r + a2 * r ^ 2) * (b0 + b1 * r + b2 * r ^ 2)
  linear_combination (-(a1 * b2 + a2 * b1) - (a2 * b2) * r) * hr

theorem evK_powAuxK (r : F1) (hr : r ^ 3 + A' * r + B' = 0) :
    ∀ (f : ℕ) (o t : F1 × F1 × F1) (e : ℕ), e ≤ f →
      evK r (powAuxK f o t e) = evK r o * evK r t ^ e := by
  intro f
  induction f with
  | zero =>
    intro o t e h
    have : e = 0 := by omega
    subst this
    simp [powAuxK]
  | succ f ih =>
    intro o t e h
    unfold powAuxK
    by_cases he : e = 0
    · subst he; simp
    · rw [if_neg he, ih _ _ _ (by omega)]
      have hsplit : e = 2 * (e / 2) + e % 2 := by omega
      by_cases hodd : e % 2 = 1
      · rw [if_pos hodd]
        conv_rhs => rw [hsplit, hodd, pow_add, pow_mul, pow_one]
        rw [evK_mulK r hr, evK_mulK r hr]
        ring
      · rw [if_neg hodd]
        have hev : e % 2 = 0 := by omega
        conv_rhs => rw [hsplit, hev, add_zero, pow_mul]
        rw [evK_mulK r hr]
        ring

/-- Fermat's little theorem in `F1` -/
theorem pow_blsP (r : F1) : r ^ blsP = r := by
  apply Fq.toZMod_injective
  rw [Fq.toZMod_pow, ZMod.pow_card]

/-- a root `r` of `g` satisfies `c0 + c1·r + c2·r² = r` where `(c0, c1, c2) = x^p mod g` -/
theorem evK_xPowP (r : F1) (hr : r ^ 3 + A' * r + B' = 0) : evK r xPowP = r := by
  unfold xPowP
  rw [evK_powAuxK r hr _ _ _ _ (le_refl _)]
  show ((1 : F1) + (0 : F1) * r + (0 : F1) * r ^ 2) * ((0 : F1) + (1 : F1) * r + (0 : F1) * r ^ 2) ^ blsP = r
  rw [zero_mul, zero_mul, add_zero, add_zero, one_mul, zero_add, one_mul, add_zero, pow_blsP]

/-- the coefficients of the linear relation `α·r + β = 0` -/
def nrAlpha : F1 :=
  (xPowP.2.1 - 1) ^ 2 - xPowP.2.2 * xPowP.1 + A' * xPowP.2.2 ^ 2
def nrBeta : F1 := (xPowP.2.1 - 1) * xPowP.1 + B' * xPowP.2.2 ^ 2

theorem nrAlpha_ne : nrAlpha ≠ 0 := by decide +kernel

theorem nr_candidate_not_root :
    (-nrBeta / nrAlpha) ^ 3 + A' * (-nrBeta / nrAlpha) + B' ≠ 0 := by decide +kernel

/-- **`x³ + A'x + B'` has no root in `F1`** -/
theorem sswuG_ne_zero (x : F1) : sswuG A' B' x ≠ 0 := by
  intro hr
  unfold sswuG at hr
  have hh := evK_xPowP x hr
  unfold evK at hh
  have hlin : nrAlpha * x + nrBeta = 0 := by
    unfold nrAlpha nrBeta
    generalize xPowP.1 = c0 at hh ⊢
    generalize xPowP.2.1 = c1 at hh ⊢
    generalize xPowP.2.2 = c2 at hh ⊢
    linear_combination (c2 ^ 2) * hr - (c2 * x - (c1 - 1)) * hh
  have hx : x = -nrBeta / nrAlpha := by
    rw [eq_div_iff nrAlpha_ne]
    linear_combination hlin
  rw [hx] at hr
  exact nr_candidate_not_root hr

local notation "Z'" => ISO_11_Z

/-- the `y` computed by `optimized_swu_G1` is never zero -/
theorem swuY_ne (t : F1) : swuY t ≠ 0 := by
  intro h
  have h2 := swuY_sq t
  rw [swuY0_sq, h] at h2
  exact sswuG_ne_zero _ (by rw [← h2]; ring)

/-- hence the sign fix always works: `sgn0(y) = sgn0(t)` -/
theorem swuY_sgn0_eq (t : F1) : (swuY t).sgn0 = t.sgn0 :=
  (swuY_sgn0 t).resolve_left (swuY_ne t)

theorem optimizedSwuG1_y (t : F1) :
    (optimizedSwuG1 t).2.1 / (optimizedSwuG1 t).2.2 = swuY t := by
  rw [optimizedSwuG1_eq]
  dsimp only
  rw [mul_div_cancel_right₀ _ (swuD_ne t)]

end PyEcc.SwuSem
