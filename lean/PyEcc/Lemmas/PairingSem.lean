/-
  PyEcc.Lemmas.PairingSem — helper lemmas for C05 / C12 about the executable `Fqp` model read in the
  quotient ring `(ZMod p)[X]/(X^d + Σ mcᵢ Xⁱ)` (`PyEcc.Sem.FqpQuot`):

  * `wf_mul'`, `wf_pow'`, `wf_div'`      : products, powers and quotients ALWAYS have `d` coefficients
                                            (whatever the operands look like)
  * `one_pow_model`                       : `FQP.one() ** e = FQP.one()` in the model
  * `toQ_foldl_mul`, `canon_foldl_mul`    : a left-to-right product of a list
  * `toQ_expByP`, `canon_expByP`          : `exp_by_p` is `Σ tableᵢ · coeffᵢ`
  * `charP_quot`, `evQ_pow_char`          : the quotient has characteristic `p` (`p` prime, `d ≥ 1`), so
                                            `(Σ cᵢ wⁱ)^p = Σ cᵢ (w^p)ⁱ`
  * `toQ_basisElem`                       : `FQP([0]*i + [1] + [0]*(d-1-i))` is `wⁱ`
  * `optBlsMillerLoop_none_wf`, …         : Miller values have `d` coefficients
  * `pairingOptBls_eq`, `pairingOptBn_eq` : the optimized `pairing` functions as guarded expressions
-/
import Mathlib.Algebra.CharP.Lemmas
import Mathlib.Algebra.CharP.Algebra
import Mathlib.FieldTheory.Finite.Basic
import PyEcc.Sem.FqpQuot
import PyEcc.Model.Pairing

namespace PyEcc.PairingSem
open Polynomial PyEcc PyEcc.Fqp PyEcc.FqpSem

section generic
variable {v : Variant} {p : ℕ} {mc : List Int}

/-! ### lengths: products / powers / quotients always have `d` coefficients -/

theorem foldl_length_inv {α : Type} (g : List Int → α → List Int)
    (hg : ∀ acc x, (g acc x).length = acc.length) (l : List α) (acc : List Int) :
    (l.foldl g acc).length = acc.length := by
  induction l generalizing acc with
  | nil => rfl
  | cons x xs ih => rw [List.foldl_cons, ih, hg]

theorem length_convLoop (red : Int → Int) (a b : List Int) (d : Nat) :
    (convLoop red a b d).length = d * 2 - 1 := by
  unfold convLoop
  rw [foldl_length_inv, List.length_replicate]
  intro acc i
  exact foldl_length_inv _ (fun acc j => length_updAt _ _ _) _ _

/-- `a * b` has exactly `d` coefficients, for ANY operands -/
theorem wf_mul' (hd : 1 ≤ mc.length) (a b : Fqp v p mc) : WF (mul a b) := by
  cases v
  · have c1 := length_convLoop (fun x => x % (p : Int)) a.coeffs b.coeffs mc.length
    obtain ⟨r1, _⟩ := refReduce_spec (p := p) mc mc.length
      (convLoop (fun x => x % (p : Int)) a.coeffs b.coeffs mc.length)
      (by rw [c1]; omega) (by rw [c1]; omega)
    exact wf_ofInts r1
  · have c1 := length_convLoop id a.coeffs b.coeffs mc.length
    obtain ⟨r1, _⟩ := optReduce_spec (p := p) mc (convLoop id a.coeffs b.coeffs mc.length) c1
    exact wf_ofInts r1

theorem canon_mul' (hp : 0 < p) (hd : 1 ≤ mc.length) (a b : Fqp v p mc) : Canon (mul a b) := by
  have h := wf_mul' hd a b
  cases v <;> exact canon_ofInts hp (by simpa [WF, mul, ofInts] using h)

theorem canon_powAux' (hp : 0 < p) (hd : 1 ≤ mc.length) :
    ∀ (f : Nat) (o t : Fqp v p mc) (e : Nat), Canon o → Canon (powAux f o t e)
  | 0, _, _, _, ho => ho
  | f+1, o, t, e, ho => by
    unfold powAux
    split
    · exact ho
    · apply canon_powAux' hp hd f
      split
      · exact canon_mul' hp hd _ _
      · exact ho

/-- `a ** e` is stored reduced with `d` coefficients, for ANY `a` -/
theorem canon_pow' (hp : 0 < p) (hd : 1 ≤ mc.length) (a : Fqp v p mc) (e : Nat) : Canon (pow a e) :=
  canon_powAux' hp hd e one a e (canon_one hp hd)

theorem wf_pow' (hp : 0 < p) (hd : 1 ≤ mc.length) (a : Fqp v p mc) (e : Nat) : WF (pow a e) :=
  (canon_pow' hp hd a e).wf

/-- `a / b = a * inv(b)` has `d` coefficients, for ANY operands -/
theorem wf_div' (hd : 1 ≤ mc.length) (a b : Fqp v p mc) : WF (Fqp.div a b) := wf_mul' hd _ _

/-! ### `1 ** e = 1` -/

/-- `FQP.one() ** e == FQP.one()` in the executable model (the square-and-multiply loop on the
    coefficient lists), for every exponent. -/
theorem one_pow_model (hp : 0 < p) (hd : 1 ≤ mc.length) (e : ℕ) : (1 : Fqp v p mc) ^ e = 1 := by
  apply toQ_inj (canon_pow hp hd (wf_one hd) e) (canon_one hp hd)
  show toQ (Fqp.pow one e) = toQ one
  rw [toQ_pow hd (wf_one hd), toQ_one, one_pow]

/-! ### left-to-right products -/

theorem foldl_mul_spec (fs : List (Fqp v p mc)) (hfs : ∀ f ∈ fs, WF f) (acc : Fqp v p mc)
    (hacc : WF acc) :
    WF (fs.foldl (· * ·) acc) ∧ toQ (fs.foldl (· * ·) acc) = toQ acc * (fs.map toQ).prod := by
  induction fs generalizing acc with
  | nil => simpa using hacc
  | cons f fs ih =>
    have hf : WF f := hfs f (by simp)
    obtain ⟨w, q⟩ := ih (fun g hg => hfs g (by simp [hg])) (acc * f) (wf_mul hacc hf)
    refine ⟨w, ?_⟩
    rw [List.foldl_cons, q, List.map_cons, List.prod_cons]
    show toQ (mul acc f) * _ = _
    rw [toQ_mul hacc hf, mul_assoc]

theorem canon_foldl_mul (hp : 0 < p) (hd : 1 ≤ mc.length) (fs : List (Fqp v p mc))
    (acc : Fqp v p mc) (hacc : Canon acc) : Canon (fs.foldl (· * ·) acc) := by
  induction fs generalizing acc with
  | nil => exact hacc
  | cons f fs ih => exact ih (acc * f) (canon_mul' hp hd acc f)

end generic

/-! ### `exp_by_p` as a sum -/

section expByP
variable {p : ℕ} {mc : List Int}

theorem intCast_eq_of (k : ℤ) :
    ((k : ℤ) : AdjoinRoot (modulus p mc)) = AdjoinRoot.of (modulus p mc) (k : ZMod p) :=
  (map_intCast _ k).symm

/-- an int operand only matters modulo `p` -/
theorem intCast_mod_quot (k : ℤ) :
    (((k % (p : ℤ) : ℤ)) : AdjoinRoot (modulus p mc)) = ((k : ℤ) : AdjoinRoot (modulus p mc)) := by
  rw [intCast_eq_of, intCast_eq_of, ZMod.intCast_mod]

theorem expByP_foldl_spec (l : List (Fqp .opt p mc × Int)) (hl : ∀ tc ∈ l, WF tc.1)
    (acc : Fqp .opt p mc) (hacc : WF acc) :
    WF (l.foldl (fun acc tc => acc + Fqp.mulInt tc.1 tc.2) acc) ∧
    toQ (l.foldl (fun acc tc => acc + Fqp.mulInt tc.1 tc.2) acc) =
      toQ acc + (l.map fun tc => toQ tc.1 * ((tc.2 : ℤ) : AdjoinRoot (modulus p mc))).sum := by
  induction l generalizing acc with
  | nil => simpa using hacc
  | cons tc l ih =>
    have ht : WF tc.1 := hl tc (by simp)
    have hm : WF (mulInt tc.1 tc.2) := wf_mulInt ht _
    obtain ⟨w, q⟩ := ih (fun g hg => hl g (by simp [hg])) (acc + mulInt tc.1 tc.2) (wf_add hacc hm)
    refine ⟨w, ?_⟩
    rw [List.foldl_cons, q, List.map_cons, List.sum_cons]
    show toQ (add acc (mulInt tc.1 tc.2)) + _ = _
    rw [toQ_add hacc hm, toQ_mulInt, add_assoc]

theorem expByP_foldl_canon (hp : 0 < p) (l : List (Fqp .opt p mc × Int)) (hl : ∀ tc ∈ l, WF tc.1)
    (acc : Fqp .opt p mc) (hacc : Canon acc) :
    Canon (l.foldl (fun acc tc => acc + Fqp.mulInt tc.1 tc.2) acc) := by
  induction l generalizing acc with
  | nil => exact hacc
  | cons tc l ih =>
    exact ih (fun g hg => hl g (by simp [hg])) _
      (canon_add hp hacc.wf (wf_mulInt (hl tc (by simp)) _))

theorem wf_of_mem_zip {table : List (Fqp .opt p mc)} (ht : ∀ t ∈ table, WF t) (cs : List Int) :
    ∀ tc ∈ List.zip table cs, WF tc.1 := fun _ h => ht _ (List.of_mem_zip h).1

/-- `exp_by_p(x)` is `Σᵢ tableᵢ · int(x.coeffs[i])` in the quotient ring -/
theorem toQ_expByP (table : List (Fqp .opt p mc)) (ht : ∀ t ∈ table, WF t) (x : Fqp .opt p mc) :
    toQ (expByP table x) =
      ((List.zip table x.coeffs).map fun tc =>
        toQ tc.1 * ((tc.2 : ℤ) : AdjoinRoot (modulus p mc))).sum := by
  unfold expByP
  rw [(expByP_foldl_spec _ (wf_of_mem_zip ht _) 0 wf_zero).2]
  show toQ zero + _ = _
  rw [toQ_zero, zero_add]

/-- the result of `exp_by_p` is stored reduced -/
theorem canon_expByP (hp : 0 < p) (table : List (Fqp .opt p mc)) (ht : ∀ t ∈ table, WF t)
    (x : Fqp .opt p mc) : Canon (expByP table x) :=
  expByP_foldl_canon hp _ (wf_of_mem_zip ht _) 0 (canon_zero hp)

/-! ### linearity of the table sum in the coefficient list -/

/-- `Σᵢ tableᵢ · csᵢ` over the `zip` -/
noncomputable def tsum (table : List (Fqp .opt p mc)) (cs : List Int) : AdjoinRoot (modulus p mc) :=
  ((List.zip table cs).map fun tc => toQ tc.1 * ((tc.2 : ℤ) : AdjoinRoot (modulus p mc))).sum

theorem tsum_add_mod (table : List (Fqp .opt p mc)) (xs ys : List Int) (h : xs.length = ys.length) :
    tsum table ((List.zipWith (· + ·) xs ys).map (fun c => c % (p : Int))) =
      tsum table xs + tsum table ys := by
  unfold tsum
  induction table generalizing xs ys with
  | nil => simp
  | cons t ts ih =>
    cases xs with
    | nil => cases ys with
      | nil => simp
      | cons y ys => simp at h
    | cons x xs =>
      cases ys with
      | nil => simp at h
      | cons y ys =>
        have h' : xs.length = ys.length := by simpa using h
        simp only [List.zipWith_cons_cons, List.map_cons, List.zip_cons_cons, List.sum_cons,
          ih xs ys h', intCast_mod_quot]
        push_cast
        ring

theorem tsum_mul_mod (table : List (Fqp .opt p mc)) (xs : List Int) (k : Int) :
    tsum table ((xs.map (fun c => c * k)).map (fun c => c % (p : Int))) =
      tsum table xs * ((k : ℤ) : AdjoinRoot (modulus p mc)) := by
  unfold tsum
  induction table generalizing xs with
  | nil => simp
  | cons t ts ih =>
    cases xs with
    | nil => simp
    | cons x xs =>
      simp only [List.map_cons, List.zip_cons_cons, List.sum_cons, ih xs, intCast_mod_quot]
      push_cast
      ring

end expByP

/-! ### the quotient has characteristic `p`; Frobenius on a coefficient list -/

section frob
variable {p : ℕ} {mc : List Int} [hp : Fact p.Prime]

theorem degree_modulus (mc : List Int) : (modulus p mc).degree = mc.length := by
  unfold modulus
  rw [degree_add_eq_left_of_degree_lt (by rw [degree_X_pow]; exact degree_ev_lt mc), degree_X_pow]

theorem nontrivial_quot (hd : 1 ≤ mc.length) : Nontrivial (AdjoinRoot (modulus p mc)) := by
  apply AdjoinRoot.nontrivial
  rw [degree_modulus]
  exact_mod_cast (by omega : mc.length ≠ 0)

/-- `(ZMod p)[X]/(X^d + …)` has characteristic `p` (for prime `p`, `d ≥ 1`) -/
theorem charP_quot (hd : 1 ≤ mc.length) : CharP (AdjoinRoot (modulus p mc)) p := by
  have := nontrivial_quot (p := p) hd
  exact charP_of_injective_ringHom (f := AdjoinRoot.of (modulus p mc)) (RingHom.injective _) p

/-- an int coefficient is fixed by the `p`-power map (`c^p = c` in `ZMod p`) -/
theorem intCast_pow_char (k : ℤ) :
    ((k : ℤ) : AdjoinRoot (modulus p mc)) ^ p = ((k : ℤ) : AdjoinRoot (modulus p mc)) := by
  rw [intCast_eq_of, ← map_pow, ZMod.pow_card]

/-- `(Σ lᵢ wⁱ)^p = Σ lᵢ (w^p)ⁱ`, in the list form matching `exp_by_p`'s `zip` -/
theorem evQ_pow_char (hd : 1 ≤ mc.length) (l : List Int) (k : ℕ) :
    (AdjoinRoot.root (modulus p mc) ^ p) ^ k * evQ p mc l ^ p =
      ((List.zip (List.range' k l.length) l).map fun ic =>
        (AdjoinRoot.root (modulus p mc) ^ p) ^ ic.1 *
          ((ic.2 : ℤ) : AdjoinRoot (modulus p mc))).sum := by
  have := charP_quot (p := p) hd
  induction l generalizing k with
  | nil => simp [evQ, zero_pow hp.out.ne_zero]
  | cons c cs ih =>
    rw [List.length_cons, List.range'_succ, List.zip_cons_cons, List.map_cons, List.sum_cons,
      ← ih (k + 1)]
    have : evQ p mc (c :: cs) = ((c : ℤ) : AdjoinRoot (modulus p mc)) +
        AdjoinRoot.root (modulus p mc) * evQ p mc cs := by
      rw [intCast_eq_of]
      simp [evQ, ev_cons, AdjoinRoot.mk_X]
    rw [this, add_pow_char, mul_pow, intCast_pow_char]
    ring

/-- `FQP([0]*i + [1] + [0]*(d-1-i))`, the basis element `wⁱ` -/
def basisElem {v : Variant} {p : ℕ} {mc : List Int} (i : ℕ) : Fqp v p mc :=
  Fqp.ofInts (List.replicate i 0 ++ 1 :: List.replicate (mc.length - 1 - i) 0)

omit hp in
theorem wf_basisElem {v : Variant} {i : ℕ} (hi : i < mc.length) : WF (basisElem i : Fqp v p mc) :=
  wf_ofInts (by simp; omega)

omit hp in
theorem toQ_basisElem {v : Variant} (i : ℕ) :
    toQ (basisElem i : Fqp v p mc) = AdjoinRoot.root (modulus p mc) ^ i := by
  rw [basisElem, toQ_ofInts]
  simp [evQ, ev_append, ev_replicate_zero, AdjoinRoot.mk_X]

/-- **Frobenius through a table.**  If the table is `[F 0, …, F (d-1)]` with `F i` denoting `(w^p)ⁱ`,
    then `exp_by_p(x) = x ** p` in the executable model, for every `x` with `d` coefficients. -/
theorem expByP_eq_pow_of_table (hd : 1 ≤ mc.length) (F : ℕ → Fqp .opt p mc)
    (hF : ∀ i < mc.length, WF (F i) ∧ toQ (F i) = (AdjoinRoot.root (modulus p mc) ^ p) ^ i)
    (x : Fqp .opt p mc) (hx : WF x) :
    expByP ((List.range mc.length).map F) x = x ^ p := by
  have hp0 : 0 < p := hp.out.pos
  have ht : ∀ t ∈ (List.range mc.length).map F, WF t := by
    intro t h
    obtain ⟨i, hi, rfl⟩ := List.mem_map.mp h
    exact (hF i (List.mem_range.mp hi)).1
  apply toQ_inj (canon_expByP hp0 _ ht x) (canon_pow hp0 hd hx p)
  show _ = toQ (Fqp.pow x p)
  rw [toQ_expByP _ ht, toQ_pow hd hx, toQ]
  have h0 := evQ_pow_char (p := p) hd x.coeffs 0
  rw [pow_zero, one_mul] at h0
  rw [h0, List.range_eq_range', List.zip_map_left, List.map_map, hx]
  apply congrArg List.sum
  apply List.map_congr_left
  intro ic hic
  have hlt : ic.1 < mc.length := by
    have := (List.of_mem_zip hic).1
    simpa using this
  simp [(hF _ hlt).2]

end frob

/-! ### the Miller-loop values always have `d` coefficients -/

section miller

/-- optimized bls12_381 `miller_loop(Q, P, False)` returns `f_num / f_den`: 12 coefficients -/
theorem optBlsMillerLoop_none_wf {p : ℕ} {mc2 mc12 : List Int} [NeZero p] (hd : 1 ≤ mc12.length)
    (digits : List Int)
    (Q : Fqp .opt p mc2 × Fqp .opt p mc2 × Fqp .opt p mc2) (P : Fq p × Fq p × Fq p) :
    WF (optBlsMillerLoop digits none Q P : Fqp .opt p mc12) := by
  unfold optBlsMillerLoop
  extract_lets castP twistQ step
  generalize List.foldl step ((1, 1), Q, twistQ) digits = r
  obtain ⟨⟨a, b⟩, c, d⟩ := r
  exact wf_mul' hd _ _

/-- optimized bn128 `miller_loop(Q, P, False)` returns a quotient: 12 coefficients -/
theorem optBnMillerLoop_none_wf {p : ℕ} {mc12 : List Int} (hd : 1 ≤ mc12.length)
    (digits : List Int)
    (Q P : Fqp .opt p mc12 × Fqp .opt p mc12 × Fqp .opt p mc12) :
    WF (optBnMillerLoop digits none Q P) := by
  unfold optBnMillerLoop
  extract_lets nQ step
  generalize List.foldl step ((1, 1), Q) digits = r
  obtain ⟨⟨a, b⟩, c⟩ := r
  obtain ⟨qx, qy, qz⟩ := Q
  dsimp only
  exact wf_mul' hd _ _

end miller

/-! ### the optimized `pairing` functions as guarded expressions -/

section guarded
open PyEcc.Gen.Consts

/-- the optimized bls12_381 `pairing` as a guarded expression -/
theorem pairingOptBls_eq (Q : OBls2 × OBls2 × OBls2) (P : Fq blsP × Fq blsP × Fq blsP) (fe : Bool) :
    pairingOptBls Q P fe =
      if Gen.OptBls.is_on_curve Q (⟨optimized_bls12_381_b2⟩ : OBls2) = false then .error .value
      else if Gen.OptBls.is_on_curve P (Fq.ofInt optimized_bls12_381_b : Fq blsP) = false then
        .error .value
      else if P.2.2 = 0 ∨ Q.2.2 = 0 then .ok 1
      else .ok (optBlsMillerLoop (digitsFrom optimized_bls12_381_pseudo_binary_encoding 62)
        (if fe then some ((blsP ^ 12 - 1) / optimized_bls12_381_curve_order) else none) Q P) := by
  unfold pairingOptBls
  cases hQ : Gen.OptBls.is_on_curve Q (⟨optimized_bls12_381_b2⟩ : OBls2)
  · rfl
  cases hP : Gen.OptBls.is_on_curve P (Fq.ofInt optimized_bls12_381_b : Fq blsP)
  · rfl
  by_cases hz : P.2.2 = 0 ∨ Q.2.2 = 0
  · simp only [hz, if_true]; rfl
  · simp only [hz, if_false]; rfl

/-- the optimized bn128 `pairing` as a guarded expression -/
theorem pairingOptBn_eq (Q : OBn2 × OBn2 × OBn2) (P : Fq bnP × Fq bnP × Fq bnP) (fe : Bool) :
    pairingOptBn Q P fe =
      if Gen.OptBn.is_on_curve Q (⟨optimized_bn128_b2⟩ : OBn2) = false then .error .value
      else if Gen.OptBn.is_on_curve P (Fq.ofInt optimized_bn128_b : Fq bnP) = false then
        .error .value
      else if P.2.2 = 0 ∨ Q.2.2 = 0 then .ok 1
      else .ok (optBnMillerLoop (digitsFrom optimized_bn128_pseudo_binary_encoding 63)
        (if fe then some ((bnP ^ 12 - 1) / optimized_bn128_curve_order) else none) (twistOptBn Q)
        (castFq12 P.1, castFq12 P.2.1, castFq12 P.2.2)) := by
  unfold pairingOptBn
  cases hQ : Gen.OptBn.is_on_curve Q (⟨optimized_bn128_b2⟩ : OBn2)
  · rfl
  cases hP : Gen.OptBn.is_on_curve P (Fq.ofInt optimized_bn128_b : Fq bnP)
  · rfl
  by_cases hz : P.2.2 = 0 ∨ Q.2.2 = 0
  · simp only [hz, if_true]; rfl
  · simp only [hz, if_false]; rfl

/-- optimized bls12_381 `miller_loop(Q, P, True) = miller_loop(Q, P, False) ** e` (definitional) -/
theorem optBlsMillerLoop_some {p : ℕ} {mc2 mc12 : List Int} [NeZero p] (digits : List Int) (e : ℕ)
    (Q : Fqp .opt p mc2 × Fqp .opt p mc2 × Fqp .opt p mc2) (P : Fq p × Fq p × Fq p) :
    (optBlsMillerLoop digits (some e) Q P : Fqp .opt p mc12) =
      (optBlsMillerLoop digits none Q P : Fqp .opt p mc12) ^ e := rfl

/-- optimized bn128 `miller_loop(Q, P, True) = miller_loop(Q, P, False) ** e` (definitional) -/
theorem optBnMillerLoop_some {p : ℕ} {mc12 : List Int} (digits : List Int) (e : ℕ)
    (Q P : Fqp .opt p mc12 × Fqp .opt p mc12 × Fqp .opt p mc12) :
    optBnMillerLoop digits (some e) Q P = optBnMillerLoop digits none Q P ^ e := rfl

end guarded

end PyEcc.PairingSem
