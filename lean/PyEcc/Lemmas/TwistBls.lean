/-
  PyEcc.Lemmas.TwistBls — the BLS12-381 `twist` functions of the model (`twistOptBls`, `twistRefBls`,
  `Model/Curve.lean`) read in the fields `K2`, `K12`:

      value of `twist(pt)`  =  `twO ψ w⁻¹` (value of `pt`),      `(x, y) ↦ (ψ(x)/w², ψ(y)/w³)`

  (`ψ = psiBls`, `Lemmas/TwistField.lean`; `twO`, `twistHom`: `Lemmas/TwistPoint.lean`), for the optimized
  module through the affine reading `toAff` of a projective triple — the optimized `twist` is
  `(x : y : z) ↦ (ψ(x)·w : ψ(y) : ψ(z)·w³)` — and for the reference module literally.
  `ψ(b2)·w⁻⁶ = b12` (`4(1+i) ↦ 4w⁶`), so the target curve is `y² = x³ + b12`.
-/
import PyEcc.Lemmas.TwistField
import PyEcc.Lemmas.TwistPoint

set_option linter.unusedSectionVars false
set_option maxRecDepth 100000

namespace PyEcc.TwistSem
open PyEcc PyEcc.Gen PyEcc.Gen.Consts PyEcc.Fqp PyEcc.FqpSem PyEcc.Transfer PyEcc.CurveSem
  WeierstrassCurve

/-- `bls12_381.b2` / `optimized_bls12_381.b2` (`FQ2([4, 4])`) as an element of the model type -/
def blsB2v (v : Variant) : Fqp v blsP blsMc2 :=
  match v with
  | .ref => ⟨bls12_381_b2⟩
  | .opt => ⟨optimized_bls12_381_b2⟩

theorem blsB2v_opt : blsB2v .opt = blsB2 := rfl

/-- side conditions in `K2` for either class: `b2` canonical with non-zero value -/
theorem k2_b_ok (v : Variant) : Canon (blsB2v v) ∧ (toQ (blsB2v v) : K2) ≠ 0 :=
  ⟨by cases v <;> decide, toQ_ne_zero_of (by cases v <;> decide) (by cases v <;> decide)⟩

/-- a well-formed BLS12-381 `FQ2` element is `a₀ + a₁·i` -/
theorem toQ_fq2_bls {v : Variant} {x : Fqp v blsP blsMc2} (hx : WF x) :
    (toQ x : K2) = AdjoinRoot.of _ ((getI x.coeffs 0 : ℤ) : ZMod blsP)
      + AdjoinRoot.of _ ((getI x.coeffs 1 : ℤ) : ZMod blsP) * AdjoinRoot.root _ := toQ_fq2 hx

/-- the scaling constant of the BLS12-381 twist: `c = w⁻¹` -/
noncomputable abbrev cBls : K12 := (wQ blsP blsMc12)⁻¹

theorem cBls_ne_zero : cBls ≠ 0 := inv_ne_zero wQ_bls_ne_zero

/-- `ψ(b2)·c⁶ = b12`: `4(1+i) ↦ 4w⁶`, divided by `w⁶` -/
theorem bls_b_twist (v : Variant) : psiBls (toQ (blsB2v v)) * cBls ^ 6 = toQ (blsB12 v) := by
  have e : (toQ (blsB2v v) : K2) = AdjoinRoot.of _ 4 + AdjoinRoot.of _ 4 * AdjoinRoot.root _ := by
    rw [toQ_fq2_bls (k2_b_ok v).1.wf]
    cases v <;> simp [blsB2v, bls12_381_b2, optimized_bls12_381_b2]
  rw [e, psiBls_apply, toQ_blsB12, sub_self, map_zero, zero_add, inv_pow, mul_assoc,
    mul_inv_cancel₀ (pow_ne_zero _ wQ_bls_ne_zero), mul_one, map_ofNat]

section pts
variable [DecidableEq K2] [DecidableEq K12]

/-- **the BLS12-381 twist as a homomorphism of Mathlib point groups**
    `E'(Fp²) : y² = x³ + 4(1+i)  →  E(Fp¹²) : y² = x³ + 4`, `(x, y) ↦ (ψ(x)/w², ψ(y)/w³)` -/
noncomputable def blsTwist (v : Variant) :
    CurvePt (toQ (blsB2v v) : K2) →+ CurvePt (toQ (blsB12 v) : K12) :=
  twistHom psiBls cBls_ne_zero (k12_field_ok v).1 (k12_field_ok v).2.1 (k12_field_ok v).2.2.2
    (bls_b_twist v)

theorem blsTwist_injective (v : Variant) : Function.Injective (blsTwist v) :=
  twistHom_injective _ _ _ _ _ _

theorem reprRef_blsTwist (v : Variant) (P : CurvePt (toQ (blsB2v v) : K2)) :
    reprRef (blsTwist v P) = twO psiBls cBls (reprRef P) := reprRef_twistHom _ _ _ _ _ _ P

/-- `blsTwist` for the optimized module (`b2 = blsB2`, the constant of `Model/Curve.lean`) -/
noncomputable def blsTwistOpt : CurvePt (toQ blsB2 : K2) →+ CurvePt (toQ (blsB12 .opt) : K12) :=
  blsTwist .opt

theorem blsTwistOpt_injective : Function.Injective blsTwistOpt := blsTwist_injective .opt

theorem reprRef_blsTwistOpt (P : CurvePt (toQ blsB2 : K2)) :
    reprRef (blsTwistOpt P) = twO psiBls cBls (reprRef P) := reprRef_blsTwist .opt P

/-! ### optimized `twist` -/

theorem canonT_twistOptBls (T : G2Pt) : CanonT (twistOptBls (mc12 := blsMc12) T) :=
  ⟨canon_embed_bls _ _ _ _, canon_embed_bls _ _ _ _, canon_embed_bls _ _ _ _⟩

/-- the value of the optimized `twist` is `(ψ(x)·w, ψ(y), ψ(z)·w³)` -/
theorem mapT_twistOptBls {T : G2Pt} (c : CanonT T) :
    mapT (toQ : F12 .opt → K12) (twistOptBls T)
      = (psiBls (toQ T.1) * wQ blsP blsMc12, psiBls (toQ T.2.1),
          psiBls (toQ T.2.2) * wQ blsP blsMc12 ^ 3) := by
  obtain ⟨x, y, z⟩ := T
  obtain ⟨cx, cy, cz⟩ := c
  simp only [twistOptBls, mapT_mk]
  rw [toQ_embed_bls_w cx.wf, toQ_embed_bls cy.wf, toQ_embed_bls_w3 cz.wf]

/-- **affine reading of the optimized `twist`**: `(x/z, y/z) ↦ (ψ(x/z)/w², ψ(y/z)/w³)`, `∞ ↦ ∞` -/
theorem toAff_twistOptBls {T : G2Pt} (c : CanonT T) :
    toAff (mapT (toQ : F12 .opt → K12) (twistOptBls T)) = twO psiBls cBls (toAff (mapT (toQ : F2 → K2) T)) := by
  rw [mapT_twistOptBls c]
  have hw := wQ_bls_ne_zero
  by_cases hz : (toQ T.2.2 : K2) = 0
  · rw [C13.toAff_of_z_eq_zero (T := mapT toQ T) hz, C13.toAff_of_z_eq_zero (by simp [hz])]
    rfl
  · have hz' : psiBls (toQ T.2.2) ≠ 0 := (map_ne_zero psiBls).mpr hz
    rw [C13.toAff_of_z_ne_zero (T := mapT toQ T) hz,
      C13.toAff_of_z_ne_zero (mul_ne_zero hz' (pow_ne_zero _ hw))]
    simp only [twO_some, map_div₀, mapT_fst, mapT_snd_fst, mapT_snd_snd]
    congr 1
    ext
    · simp only; field_simp
    · simp only; field_simp

/-- if the value of `T` represents `P` then the value of `twist(T)` represents `blsTwist P` -/
theorem represents_twistOptBls {T : G2Pt} {P : CurvePt (toQ blsB2 : K2)} (c : CanonT T)
    (r : Represents (mapT toQ T) P) :
    Represents (mapT (toQ : F12 .opt → K12) (twistOptBls T)) (blsTwistOpt P) := by
  show toAff _ = reprRef _
  rw [toAff_twistOptBls c, reprRef_blsTwistOpt, show toAff (mapT toQ T) = reprRef P from r]

/-! ### reference `twist` -/

theorem canonO_twistRefBls {p : Option (Fqp .ref blsP blsMc2 × Fqp .ref blsP blsMc2)} :
    CanonO (twistRefBls (mc12 := blsMc12) p) := by
  rcases p with _ | ⟨x, y⟩
  · trivial
  · have gh := goodHom_F12 (v := .ref)
    exact ⟨gh.good_div (canon_embed_bls _ _ _ _) (gh.good_pow 2 wElem_bls.1),
      gh.good_div (canon_embed_bls _ _ _ _) (gh.good_pow 3 wElem_bls.1)⟩

/-- **value of the reference `twist`**: `(x, y) ↦ (ψ(x)/w², ψ(y)/w³)`, `None ↦ None` -/
theorem mapO_twistRefBls {p : Option (Fqp .ref blsP blsMc2 × Fqp .ref blsP blsMc2)} (c : CanonO p) :
    mapO (toQ : F12 .ref → K12) (twistRefBls p) = twO psiBls cBls (mapO (toQ : _ → K2) p) := by
  rcases p with _ | ⟨x, y⟩
  · rfl
  · have gh := goodHom_F12 (v := .ref)
    obtain ⟨cx, cy⟩ := c
    simp only [twistRefBls, mapO_some, twO_some]
    rw [gh.map_div (canon_embed_bls _ _ _ _) (gh.good_pow 2 wElem_bls.1),
      gh.map_div (canon_embed_bls _ _ _ _) (gh.good_pow 3 wElem_bls.1),
      gh.map_pow 2 wElem_bls.1, gh.map_pow 3 wElem_bls.1, wElem_bls.2, toQ_embed_bls cx.wf,
      toQ_embed_bls cy.wf, div_eq_mul_inv, div_eq_mul_inv, inv_pow, inv_pow]

/-- if the value of `p` is the representation of `P` then the value of `twist(p)` is that of `blsTwist P` -/
theorem repr_twistRefBls {p : Option (Fqp .ref blsP blsMc2 × Fqp .ref blsP blsMc2)}
    {P : CurvePt (toQ (blsB2v .ref) : K2)} (c : CanonO p) (r : reprRef P = mapO toQ p) :
    reprRef (blsTwist .ref P) = mapO (toQ : F12 .ref → K12) (twistRefBls p) := by
  rw [mapO_twistRefBls c, reprRef_blsTwist, r]

end pts

end PyEcc.TwistSem
