/-
  PyEcc.Lemmas.ModelPairing — the hypothesis HB1′ ("the model computes the pairing `e`") REMOVED: take `e`
  to BE what the model computes.

  `NdSem.PairingValueFacts'' e` assumed a map `e` on Mathlib points that is bilinear (HB1) and such that for
  every pairing call on canonical, on-curve, `r`-torsion triples `(Q, P)` representing `(q, p)` the value of
  `final_exponentiate(pairing(Q, P, False))` is `e q p` (HB1′).  HB1′ contains a fact about the CODE:

      the value returned by the model does not depend on the projective representatives `Q`, `P`
      of the points `q`, `p`.

  This is PROVED here (`pairing_value_rep_indep`), from `C12M.pairingOptBls_eq_pairingRefBls_subgroup`
  (optimized pairing = reference pairing of the affine points, for any representatives).  Hence the function

      `valM q p : K12`  :=  value in `F_{p¹²}` of `final_exponentiate(pairing(Q, P, False))`
                            for ANY canonical on-curve representatives `Q`, `P` of `r`-torsion `q`, `p`

  is well defined (`valM_spec`), and HB1′ holds for it BY DEFINITION.  What remains is one statement,
  `ModelBilinear`: `valM` is additive in each argument on `r`-torsion points — bilinearity of the function the
  code computes.  From it: `valM q p` is a unit (`valM 0 p = 1` is computed by the code), so `eM q p : K12ˣ`
  is defined, and `ModelBilinear → PairingValueFacts'' eM`.

  `ModelBilinearCode` is the same hypothesis stated on the Python functions only (no Mathlib points):
  `pairing(add(Q, Q'), P) == pairing(Q, P) * pairing(Q', P)` and `pairing(Q, add(P, P')) == pairing(Q, P) *
  pairing(Q, P')` for all triples that pass `is_on_curve` and `subgroup_check`; `ModelBilinearCode → ModelBilinear`.
-/
import PyEcc.Lemmas.NdFromModel

set_option linter.unusedSectionVars false
set_option maxRecDepth 100000

namespace PyEcc.NdSem
open PyEcc PyEcc.Gen PyEcc.Gen.Consts PyEcc.Fqp PyEcc.FqpSem PyEcc.Transfer PyEcc.BlsSem PyEcc.BlsProto

section
variable [DecidableEq K2]

/-! ## representatives of `r`-torsion points exist -/

/-- every `r`-torsion point of the twist curve has a canonical representative (`multiply(G2, k)`) -/
theorem exists_rep2 (q : E2) (hq : blsR • q = 0) : ∃ Q : G2Pt, RepG2 Q q := by
  obtain ⟨k, rfl⟩ := g2_generates q hq
  exact ⟨OptBls.multiply blsG2 k, (canonT_ops g2_rep.1 g2_rep.1 k).2.2.2.1,
    opt_multiply_refines_F2 g2_rep.1 g2_rep.2 k⟩

/-- every `r`-torsion point of `E(Fp)` has a representative (`multiply(G1, k)`) -/
theorem exists_rep1 (p : E1) (hp : blsR • p = 0) : ∃ P : G1Pt, Represents P p := by
  obtain ⟨k, _, rfl⟩ := C17O.torsion_E1_cyclic g1 p g1_rep hp
  exact ⟨OptBls.multiply blsG1 k, opt_multiply_refines_F1 g1_rep k⟩

/-- every pair of `r`-torsion points is the pair of represented points of some admissible pairing call -/
theorem exists_good (q : E2) (p : E1) (hq : blsR • q = 0) (hp : blsR • p = 0) :
    ∃ a : Arg, a.Good ∧ a.q = q ∧ a.p = p := by
  obtain ⟨Q, rq⟩ := exists_rep2 q hq
  obtain ⟨P, rp⟩ := exists_rep1 p hp
  obtain ⟨m, hm⟩ := pairing_ok rq rp
  exact ⟨⟨Q, P, q, p, m⟩, ⟨rq, rp, hq, hp, hm⟩, rfl, rfl⟩

/-! ## representative independence of the model pairing -/

/-- **The model pairing depends only on the represented points.**  Two pairing calls
    `pairing(Q, P, False)`, `pairing(Q', P', False)` on canonical, on-curve, `r`-torsion triples with
    `Q`, `Q'` representing the same point of the twist curve and `P`, `P'` the same point of `E(Fp)` give, after
    `final_exponentiate`, the SAME twelve FQ12 coefficients — whatever the projective scalings.
    (The raw Miller values differ; their `(p¹²−1)/r`-th powers do not.) -/
theorem pairing_value_rep_indep {a a' : Arg} (ha : a.Good) (ha' : a'.Good) (hq : a'.q = a.q)
    (hp : a'.p = a.p) : finalExponentiateOptBls a'.m = finalExponentiateOptBls a.m := by
  obtain ⟨rq, rp, tq, _, hm⟩ := ha
  obtain ⟨rq', rp', tq', _, hm'⟩ := ha'
  rw [hq] at rq'
  rw [hp] at rp'
  obtain ⟨g, h⟩ := C12M.refOfOptG2_repr rq.1
  have hQ' : toAff (mapT toQ a'.Q) = MillerSem.mapO toQ (C12M.refOfOptG2 a.Q) :=
    (show toAff (mapT toQ a'.Q) = reprRef a.q from rq'.2).trans
      ((show toAff (mapT toQ a.Q) = reprRef a.q from rq.2).symm.trans h)
  have hP' : toAff a'.P = C12M.refOfOptG1 a.P :=
    (show toAff a'.P = reprRef a.p from rp').trans
      ((show toAff a.P = reprRef a.p from rp).symm.trans (C12M.refOfOptG1_repr a.P))
  have e1 := C12M.pairingOptBls_eq_pairingRefBls_subgroup a.Q a.P _ _ rq.1 g h
    (C12M.refOfOptG1_repr a.P) ((C17M.subgroupCheck_G2_iff rq.1 rq.2).mpr tq)
  have e2 := C12M.pairingOptBls_eq_pairingRefBls_subgroup a'.Q a'.P _ _ rq'.1 g hQ' hP'
    ((C17M.subgroupCheck_G2_iff rq'.1 rq'.2).mpr tq)
  rw [C12.pairingOptBls_false_then_final _ _ _ hm, MillerSem.map_ok] at e1
  rw [C12.pairingOptBls_false_then_final _ _ _ hm', MillerSem.map_ok, ← e1] at e2
  have e3 : (finalExponentiateOptBls a'.m).coeffs = (finalExponentiateOptBls a.m).coeffs :=
    Except.ok.inj e2
  revert e3
  generalize finalExponentiateOptBls a'.m = x
  generalize finalExponentiateOptBls a.m = y
  intro e3
  cases x; cases y
  simp only [Fqp.mk.injEq]
  exact e3

/-! ## the model pairing as a function on Mathlib points -/

theorem exists_val (q : E2) (p : E1) (h : blsR • q = 0 ∧ blsR • p = 0) :
    ∃ x : K12, ∀ a : Arg, a.Good → a.q = q → a.p = p → (toQ (finalExponentiateOptBls a.m) : K12) = x := by
  obtain ⟨a0, g0, hq0, hp0⟩ := exists_good q p h.1 h.2
  refine ⟨toQ (finalExponentiateOptBls a0.m), fun a ga hq hp => ?_⟩
  rw [pairing_value_rep_indep g0 ga (hq.trans hq0.symm) (hp.trans hp0.symm)]

open Classical in
/-- **`valM q p`: the value the model computes for the points `q`, `p`** — for `r`-torsion points, the value in
    `F_{p¹²} = F_p[X]/(X¹²−2X⁶+2)` of `final_exponentiate(pairing(Q, P, final_exponentiate=False))` for any
    (equivalently: all, `valM_spec`) canonical on-curve representatives `Q` of `q`, `P` of `p`; `1` outside the
    `r`-torsion (never used). -/
noncomputable def valM (q : E2) (p : E1) : K12 :=
  if h : blsR • q = 0 ∧ blsR • p = 0 then Classical.choose (exists_val q p h) else 1

/-- **HB1′ holds by definition for `valM`**: for EVERY pairing call on canonical, on-curve, `r`-torsion
    arguments `(Q, P)` representing `(q, p)`, the value of `final_exponentiate(pairing(Q, P, False))` is
    `valM q p`. -/
theorem valM_spec (a : Arg) (ha : a.Good) :
    (toQ (finalExponentiateOptBls a.m) : K12) = valM a.q a.p := by
  have h : blsR • a.q = 0 ∧ blsR • a.p = 0 := ⟨ha.2.2.1, ha.2.2.2.1⟩
  unfold valM
  rw [dif_pos h]
  exact Classical.choose_spec (exists_val a.q a.p h) a ha rfl rfl

/-- the same for `pairing(Q, P)` with the default `final_exponentiate=True` -/
theorem valM_spec_true {Q : G2Pt} {P : G1Pt} {q : E2} {p : E1} (rq : RepG2 Q q) (rp : Represents P p)
    (hq : blsR • q = 0) (hp : blsR • p = 0) {v : OBls12} (hv : pairingOptBls Q P true = .ok v) :
    (toQ v : K12) = valM q p := by
  obtain ⟨m, hm⟩ := pairing_ok rq rp
  have := C12.pairingOptBls_false_then_final _ _ m hm
  rw [hv] at this
  rw [Except.ok.inj this]
  exact valM_spec ⟨Q, P, q, p, m⟩ ⟨rq, rp, hq, hp, hm⟩

/-- the code returns `FQ12.one()` when the first argument is the point at infinity: `valM 0 p = 1` -/
theorem valM_zero_left (p : E1) (hp : blsR • p = 0) : valM 0 p = 1 := by
  obtain ⟨P, rp⟩ := exists_rep1 p hp
  have cz : CanonT Z2 := (canonT_ops g2_rep.1 g2_rep.1 0).2.2.2.2
  have rz : RepG2 Z2 (0 : E2) := ⟨cz, represents_zero_F2 (T := Z2) rfl⟩
  have hm : pairingOptBls Z2 P false = .ok 1 := by
    rw [PairingSem.pairingOptBls_eq, show OptBls.is_on_curve Z2 (⟨optimized_bls12_381_b2⟩ : OBls2) = true
      from rz.on_curve, show OptBls.is_on_curve P (Fq.ofInt optimized_bls12_381_b : Fq blsP) = true
      from C07Opt.Bls.opt_on_curve_of_represents rp, if_neg (by decide), if_neg (by decide),
      if_pos (show P.2.2 = 0 ∨ Z2.2.2 = 0 from Or.inr rfl)]
  have := valM_spec ⟨Z2, P, 0, p, 1⟩ ⟨rz, rp, smul_zero _, hp, hm⟩
  rw [← this]
  show (toQ (finalExponentiateOptBls 1) : K12) = 1
  rw [toQ_finalExponentiate 1 (wf_one hd12), show (toQ (1 : OBls12) : K12) = 1 from toQ_one, one_pow]

/-- the code returns `FQ12.one()` when the second argument is the point at infinity: `valM q 0 = 1` -/
theorem valM_zero_right (q : E2) (hq : blsR • q = 0) : valM q 0 = 1 := by
  obtain ⟨Q, rq⟩ := exists_rep2 q hq
  have rz : Represents ((1, 1, 0) : G1Pt) (0 : E1) := C07Opt.Bls.represents_zero rfl
  have hm : pairingOptBls Q (1, 1, 0) false = .ok 1 := by
    rw [PairingSem.pairingOptBls_eq, show OptBls.is_on_curve Q (⟨optimized_bls12_381_b2⟩ : OBls2) = true
      from rq.on_curve, show OptBls.is_on_curve ((1, 1, 0) : G1Pt)
        (Fq.ofInt optimized_bls12_381_b : Fq blsP) = true
      from C07Opt.Bls.opt_on_curve_of_represents rz, if_neg (by decide), if_neg (by decide),
      if_pos (show ((1, 1, 0) : G1Pt).2.2 = 0 ∨ Q.2.2 = 0 from Or.inl rfl)]
  have := valM_spec ⟨Q, (1, 1, 0), q, 0, 1⟩ ⟨rq, rz, hq, smul_zero _, hm⟩
  rw [← this]
  show (toQ (finalExponentiateOptBls 1) : K12) = 1
  rw [toQ_finalExponentiate 1 (wf_one hd12), show (toQ (1 : OBls12) : K12) = 1 from toQ_one, one_pow]

/-! ## the single remaining hypothesis -/

/-- **`ModelBilinear`: the ONLY remaining hypothesis of the BLS protocol theorems.**  The function `valM` that
    the CODE computes (value of `final_exponentiate(pairing(Q, P, False))` at any representatives — it is
    well defined, `valM_spec`) is additive in each argument on points killed by `r = curve_order`:
    * `add_left`  — `valM (q + q') p = valM q p * valM q' p`,
    * `add_right` — `valM q (p + p') = valM q p * valM q p'`.
    This is the bilinearity of the (optimal ate) pairing as implemented; it needs the theory of divisors /
    Weil reciprocity, which Mathlib does not have.  It is a closed statement, a hypothesis, never an axiom. -/
structure ModelBilinear : Prop where
  add_left : ∀ {q q' : E2} {p : E1}, blsR • q = 0 → blsR • q' = 0 → blsR • p = 0 →
    valM (q + q') p = valM q p * valM q' p
  add_right : ∀ {q : E2} {p p' : E1}, blsR • q = 0 → blsR • p = 0 → blsR • p' = 0 →
    valM q (p + p') = valM q p * valM q p'

/-- under `ModelBilinear` the model value at `r`-torsion points is invertible (so: not `FQ12.zero()`) -/
theorem ModelBilinear.isUnit (mb : ModelBilinear) {q : E2} {p : E1} (hq : blsR • q = 0)
    (hp : blsR • p = 0) : IsUnit (valM q p) := by
  have h := mb.add_left hq (show blsR • (-q) = 0 by rw [smul_neg, hq, neg_zero]) hp
  rw [add_neg_cancel, valM_zero_left p hp] at h
  exact IsUnit.of_mul_eq_one _ h.symm

open Classical in
/-- **`eM`: the model pairing with values in the unit group of `F_{p¹²}`** (`valM` where it is invertible) -/
noncomputable def eM (q : E2) (p : E1) : K12ˣ :=
  if h : IsUnit (valM q p) then h.unit else 1

theorem ModelBilinear.eM_val (mb : ModelBilinear) {q : E2} {p : E1} (hq : blsR • q = 0)
    (hp : blsR • p = 0) : ((eM q p : K12ˣ) : K12) = valM q p := by
  unfold eM
  rw [dif_pos (mb.isUnit hq hp)]
  exact IsUnit.unit_spec _

/-- **`ModelBilinear` implies the bundle HB1 + HB1′ for `e := eM`**: the link field holds by definition of
    `valM`, the bilinearity fields are `ModelBilinear`. -/
theorem ModelBilinear.toPairingValueFacts'' (mb : ModelBilinear) : PairingValueFacts'' eM where
  add_left := by
    intro q q' p hq hq' hp
    apply Units.ext
    rw [Units.val_mul, mb.eM_val hq hp, mb.eM_val hq' hp,
      mb.eM_val (show blsR • (q + q') = 0 by rw [smul_add, hq, hq', add_zero]) hp]
    exact mb.add_left hq hq' hp
  add_right := by
    intro q p p' hq hp hp'
    apply Units.ext
    rw [Units.val_mul, mb.eM_val hq hp, mb.eM_val hq hp',
      mb.eM_val hq (show blsR • (p + p') = 0 by rw [smul_add, hp, hp', add_zero])]
    exact mb.add_right hq hp hp'
  value := by
    intro a ha
    rw [mb.eM_val ha.2.2.1 ha.2.2.2.1]
    exact valM_spec a ha

/-- `ModelBilinear` implies the full bundle of the original headline theorems (for `e := eM`) -/
theorem ModelBilinear.toPairingFacts (mb : ModelBilinear) : PairingFacts eM :=
  mb.toPairingValueFacts''.toPairingFacts

/-- conversely: if SOME map `e` satisfies HB1 and the per-call link HB1′, then the model is bilinear — so
    `ModelBilinear` is not stronger than what was assumed before -/
theorem ModelBilinear.of_pairingValueFacts'' {e : E2 → E1 → K12ˣ} (pv : PairingValueFacts'' e) :
    ModelBilinear := by
  have key : ∀ {q : E2} {p : E1}, blsR • q = 0 → blsR • p = 0 → valM q p = ((e q p : K12ˣ) : K12) := by
    intro q p hq hp
    obtain ⟨a, ga, rfl, rfl⟩ := exists_good q p hq hp
    rw [← valM_spec a ga]
    exact pv.value a ga
  constructor
  · intro q q' p hq hq' hp
    rw [key hq hp, key hq' hp, key (show blsR • (q + q') = 0 by rw [smul_add, hq, hq', add_zero]) hp,
      pv.add_left hq hq' hp, Units.val_mul]
  · intro q p p' hq hp hp'
    rw [key hq hp, key hq hp', key hq (show blsR • (p + p') = 0 by rw [smul_add, hp, hp', add_zero]),
      pv.add_right hq hp hp', Units.val_mul]

/-- **`ModelBilinear` is EQUIVALENT to the existence of a bilinear map that the model computes.** -/
theorem modelBilinear_iff : ModelBilinear ↔ ∃ e : E2 → E1 → K12ˣ, PairingValueFacts'' e :=
  ⟨fun mb => ⟨eM, mb.toPairingValueFacts''⟩, fun ⟨_, pv⟩ => ModelBilinear.of_pairingValueFacts'' pv⟩

/-! ## the same hypothesis, stated on the Python functions only -/

/-- **`ModelBilinearCode`: bilinearity of `pairing` as a statement about the code alone.**  For all `FQ2`
    triples `Q`, `Q'` with reduced coefficients and all `FQ` triples `P`, `P'` that pass `is_on_curve` and
    `subgroup_check`:
    * `pairing(add(Q, Q'), P) == pairing(Q, P) * pairing(Q', P)`,
    * `pairing(Q, add(P, P')) == pairing(Q, P) * pairing(Q, P')`
    (equalities of FQ12 coefficient lists; the calls return, they do not raise). -/
structure ModelBilinearCode : Prop where
  add_left : ∀ (Q Q' : G2Pt) (P : G1Pt), CanonT Q → CanonT Q' →
    OptBls.is_on_curve Q blsB2 = true → OptBls.is_on_curve Q' blsB2 = true →
    OptBls.is_on_curve P blsB = true →
    subgroupCheck Q = true → subgroupCheck Q' = true → subgroupCheck P = true →
    ∀ v v' w : OBls12, pairingOptBls Q P true = .ok v → pairingOptBls Q' P true = .ok v' →
      pairingOptBls (OptBls.add Q Q') P true = .ok w → w = v * v'
  add_right : ∀ (Q : G2Pt) (P P' : G1Pt), CanonT Q →
    OptBls.is_on_curve Q blsB2 = true → OptBls.is_on_curve P blsB = true →
    OptBls.is_on_curve P' blsB = true →
    subgroupCheck Q = true → subgroupCheck P = true → subgroupCheck P' = true →
    ∀ v v' w : OBls12, pairingOptBls Q P true = .ok v → pairingOptBls Q P' true = .ok v' →
      pairingOptBls Q (OptBls.add P P') true = .ok w → w = v * v'

theorem pairing_true_ok {Q : G2Pt} {P : G1Pt} {q : E2} {p : E1} (rq : RepG2 Q q)
    (rp : Represents P p) : ∃ v, pairingOptBls Q P true = .ok v :=
  pairingOptBls_ok_of_on_curve rq.on_curve (C07Opt.Bls.opt_on_curve_of_represents rp)

/-- **the code-level statement implies `ModelBilinear`** (through the proved refinement of Mathlib's group law
    by `add`, C07/C13, and the ring laws of the FQ12 model) -/
theorem ModelBilinearCode.toModelBilinear (mc : ModelBilinearCode) : ModelBilinear := by
  constructor
  · intro q q' p hq hq' hp
    obtain ⟨Q, rq⟩ := exists_rep2 q hq
    obtain ⟨Q', rq'⟩ := exists_rep2 q' hq'
    obtain ⟨P, rp⟩ := exists_rep1 p hp
    have ra : RepG2 (OptBls.add Q Q') (q + q') :=
      ⟨(canonT_ops rq.1 rq'.1 0).1, opt_add_refines_F2 rq.1 rq'.1 rq.2 rq'.2⟩
    have hqq : blsR • (q + q') = 0 := by rw [smul_add, hq, hq', add_zero]
    obtain ⟨v, hv⟩ := pairing_true_ok rq rp
    obtain ⟨v', hv'⟩ := pairing_true_ok rq' rp
    obtain ⟨w, hw⟩ := pairing_true_ok ra rp
    have e := mc.add_left Q Q' P rq.1 rq'.1 rq.on_curve rq'.on_curve
      (C07Opt.Bls.opt_on_curve_of_represents rp)
      ((C17M.subgroupCheck_G2_iff rq.1 rq.2).mpr hq) ((C17M.subgroupCheck_G2_iff rq'.1 rq'.2).mpr hq')
      ((C17M.subgroupCheck_G1_iff rp).mpr hp) v v' w hv hv' hw
    rw [← valM_spec_true rq rp hq hp hv, ← valM_spec_true rq' rp hq' hp hv',
      ← valM_spec_true ra rp hqq hp hw, e]
    exact toQ_mul (C12.pairingOptBls_wf _ _ _ _ hv) (C12.pairingOptBls_wf _ _ _ _ hv')
  · intro q p p' hq hp hp'
    obtain ⟨Q, rq⟩ := exists_rep2 q hq
    obtain ⟨P, rp⟩ := exists_rep1 p hp
    obtain ⟨P', rp'⟩ := exists_rep1 p' hp'
    have ra : Represents (OptBls.add P P') (p + p') := opt_add_refines_F1 rp rp'
    have hpp : blsR • (p + p') = 0 := by rw [smul_add, hp, hp', add_zero]
    obtain ⟨v, hv⟩ := pairing_true_ok rq rp
    obtain ⟨v', hv'⟩ := pairing_true_ok rq rp'
    obtain ⟨w, hw⟩ := pairing_true_ok rq ra
    have e := mc.add_right Q P P' rq.1 rq.on_curve
      (C07Opt.Bls.opt_on_curve_of_represents rp) (C07Opt.Bls.opt_on_curve_of_represents rp')
      ((C17M.subgroupCheck_G2_iff rq.1 rq.2).mpr hq)
      ((C17M.subgroupCheck_G1_iff rp).mpr hp) ((C17M.subgroupCheck_G1_iff rp').mpr hp') v v' w hv hv' hw
    rw [← valM_spec_true rq rp hq hp hv, ← valM_spec_true rq rp' hq hp' hv',
      ← valM_spec_true rq ra hq hpp hw, e]
    exact toQ_mul (C12.pairingOptBls_wf _ _ _ _ hv) (C12.pairingOptBls_wf _ _ _ _ hv')

/-- non-vacuity of the side conditions of `ModelBilinearCode`: the generators satisfy them, and
    `pairing(G2, G1)` returns -/
example : CanonT blsG2 ∧ OptBls.is_on_curve blsG2 blsB2 = true ∧ OptBls.is_on_curve blsG1 blsB = true ∧
    subgroupCheck blsG2 = true ∧ subgroupCheck blsG1 = true ∧
    ∃ v, pairingOptBls blsG2 blsG1 true = .ok v :=
  ⟨C17M.blsG2_passes.1, C17M.blsG2_passes.2.1, C17M.blsG1_passes.1, C17M.blsG2_passes.2.2,
    C17M.blsG1_passes.2, pairing_true_ok g2_rep g1_rep⟩

end

end PyEcc.NdSem
