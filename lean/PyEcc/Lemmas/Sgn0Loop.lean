/-
  PyEcc.Lemmas.Sgn0Loop — helper for C14: the state of the model's `FQP.sgn0` loop (`ℕ × Bool`)
  tracks the state of the RFC 9380 §4.1 loop (`Bool × Bool`) on non-negative coefficients.
-/
import PyEcc.Model.Fqp
import PyEcc.Spec.Rfc9380Sgn0
import Mathlib.Data.Int.Basic
import Mathlib.Tactic.Common

namespace PyEcc.FqSem

/-- state correspondence for the loop of `FQP.sgn0` -/
theorem sgn0_foldl (xs : List ℤ) (hxs : ∀ x ∈ xs, 0 ≤ x) (sb z : Bool) :
    (xs.foldl (fun (st : ℕ × Bool) (x : ℤ) =>
        (if st.1 ≠ 0 then st.1 else if st.2 then (x % 2).toNat else 0, st.2 && x == 0))
      (if sb then 1 else 0, z)).1
    = if ((xs.map Int.toNat).foldl Spec.Sgn0.step (sb, z)).1 then 1 else 0 := by
  induction xs generalizing sb z with
  | nil => simp
  | cons x xs ih =>
    have hx : 0 ≤ x := hxs x (List.mem_cons_self)
    have hxs' : ∀ y ∈ xs, 0 ≤ y := fun y hy => hxs y (List.mem_cons_of_mem _ hy)
    obtain ⟨k, rfl⟩ := Int.eq_ofNat_of_zero_le hx
    simp only [List.map_cons, List.foldl_cons, Spec.Sgn0.step, Int.toNat_natCast]
    rw [← ih hxs']
    congr 2
    have hk : ((k : ℤ) % 2).toNat = k % 2 := by omega
    rcases Nat.mod_two_eq_zero_or_one k with h | h <;> cases sb <;> cases z <;>
      simp [hk, h, beq_eq_decide, Int.natCast_eq_zero]

end PyEcc.FqSem
