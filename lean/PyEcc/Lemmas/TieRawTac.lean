/-
  PyEcc.Lemmas.TieRawTac — closing tactics for the generated ties `@PyEcc.GenRaw.X.f = @PyEcc.Gen.X.f`
  (tools/translate/canon.py): the translation of the CURRENT source of a first-translator function against the canonical
  text the property theorems are proved about.  Core Lean only.

  The generated script unfolds both definitions (`simp only [GenRaw.f, Gen.f, earlier ties]`, which also inlines the `let`s and
  rewrites callees through the ties already proved) and then calls `raw_close`, which closes what is left after a reshaping of
  the control flow: same leaves reached under equivalent conditions.  Nothing here can prove a false equality — the kernel
  checks the result — so a semantic change of the source leaves the tie unproved.
-/
import PyEcc.Model.Basic

namespace PyEcc.TieRaw

/-- introduce every argument of a function equality (instances included) -/
macro "raw_funext" : tactic => `(tactic| repeat (apply funext; intro _))

/-- boolean locals of the source become `decide` terms: `if decide c = true` is `if c` -/
theorem ite_decide_true {α : Type} (c : Prop) [Decidable c] (a b : α) :
    (if decide c = true then a else b) = (if c then a else b) := by
  by_cases h : c <;> simp [h]

/-- close a goal `lhs = rhs` whose two sides are the same computation with reshaped control flow -/
macro "raw_close" : tactic =>
  `(tactic| first
    | done
    | rfl
    | (simp only [ite_decide_true, decide_eq_true_eq, Bool.not_eq_true', decide_not, ne_eq, not_not]; done)
    | (repeat' split) <;> (first | rfl | simp_all | grind)
    | grind)

end PyEcc.TieRaw
