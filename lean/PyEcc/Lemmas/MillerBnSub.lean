/-
  PyEcc.Lemmas.MillerBnSub — the subfield `Fp⁶` of the bn128 field `K12bn = Fp[w]/(w¹² − 18w⁶ + 82)`
  and the final exponent `(p¹² − 1)/r`.

  `InFp6 x` : `x` is fixed by the 6-fold Frobenius, `x ^ (p⁶) = x` — the subfield with `p⁶` elements.
  It is closed under the field operations, contains the base field `Fp`, the image `ψ(Fp²)` of the
  twist embedding (`i ↦ w⁶ − 9`) and `w²` (hence every polynomial in `w²`: "even powers of `w`"),
  and every NON-ZERO element of it is killed by the final exponent:
      `x ≠ 0 → InFp6 x → x ^ ((p¹² − 1)/r) = 1`      (`(p⁶ − 1) ∣ (p¹² − 1)/r`, since `r ∤ p⁶ − 1`).
-/
import PyEcc.Lemmas.TwistBn
import PyEcc.Lemmas.PairingSem
import Mathlib.FieldTheory.Finite.Basic
import Mathlib.Algebra.CharP.Frobenius

set_option linter.unusedSectionVars false
set_option maxRecDepth 100000

namespace PyEcc.MillerBnSem
open Polynomial PyEcc PyEcc.Gen PyEcc.Gen.Consts PyEcc.Fqp PyEcc.FqpSem PyEcc.Transfer PyEcc.TwistSem
  PyEcc.PairingSem

/-! ### the finite fields `K2bn`, `K12bn` -/

instance charP_K12bn : CharP K12bn bnP := charP_quot (p := bnP) (mc := bnMc12) (by decide)
instance charP_K2bn : CharP K2bn bnP := charP_quot (p := bnP) (mc := bnMc2) (by decide)

theorem modulus2_ne_zero : modulus bnP bnMc2 ≠ 0 := (modulus_monic _).ne_zero
theorem modulus12_ne_zero : modulus bnP bnMc12 ≠ 0 := (modulus_monic _).ne_zero

instance : Module.Finite (ZMod bnP) K2bn := (AdjoinRoot.powerBasis modulus2_ne_zero).finite
instance : Finite K2bn := Module.finite_of_finite (ZMod bnP)
noncomputable instance : Fintype K2bn := Fintype.ofFinite K2bn

instance : Module.Finite (ZMod bnP) K12bn := (AdjoinRoot.powerBasis modulus12_ne_zero).finite
instance : Finite K12bn := Module.finite_of_finite (ZMod bnP)
noncomputable instance : Fintype K12bn := Fintype.ofFinite K12bn

/-- `K2bn` has `p²` elements -/
theorem card_K2bn : Fintype.card K2bn = bnP ^ 2 := by
  rw [Module.card_eq_pow_finrank (K := ZMod bnP) (V := K2bn), ZMod.card,
    (AdjoinRoot.powerBasis modulus2_ne_zero).finrank, AdjoinRoot.powerBasis_dim, natDegree_modulus]
  rfl

/-- `K12bn` has `p¹²` elements -/
theorem card_K12bn : Fintype.card K12bn = bnP ^ 12 := by
  rw [Module.card_eq_pow_finrank (K := ZMod bnP) (V := K12bn), ZMod.card,
    (AdjoinRoot.powerBasis modulus12_ne_zero).finrank, AdjoinRoot.powerBasis_dim, natDegree_modulus]
  rfl

theorem pow_card_K2bn (a : K2bn) : a ^ (bnP ^ 2) = a := by
  rw [← card_K2bn]; exact FiniteField.pow_card a

theorem pow_card_K12bn (a : K12bn) : a ^ (bnP ^ 12) = a := by
  rw [← card_K12bn]; exact FiniteField.pow_card a

/-! ### the subfield `Fp⁶` -/

/-- `x` lies in the subfield with `p⁶` elements: it is fixed by the 6-fold Frobenius -/
def InFp6 (x : K12bn) : Prop := x ^ (bnP ^ 6) = x

theorem inFp6_iff (x : K12bn) : InFp6 x ↔ iterateFrobenius K12bn bnP 6 x = x := by
  rw [iterateFrobenius_def]; rfl

theorem inFp6_zero : InFp6 0 := by rw [inFp6_iff, map_zero]
theorem inFp6_one : InFp6 1 := by rw [inFp6_iff, map_one]
theorem inFp6_add {x y : K12bn} (hx : InFp6 x) (hy : InFp6 y) : InFp6 (x + y) := by
  rw [inFp6_iff] at *; rw [map_add, hx, hy]
theorem inFp6_mul {x y : K12bn} (hx : InFp6 x) (hy : InFp6 y) : InFp6 (x * y) := by
  rw [inFp6_iff] at *; rw [map_mul, hx, hy]
theorem inFp6_neg {x : K12bn} (hx : InFp6 x) : InFp6 (-x) := by
  rw [inFp6_iff] at *; rw [map_neg, hx]
theorem inFp6_sub {x y : K12bn} (hx : InFp6 x) (hy : InFp6 y) : InFp6 (x - y) := by
  rw [inFp6_iff] at *; rw [map_sub, hx, hy]
theorem inFp6_inv {x : K12bn} (hx : InFp6 x) : InFp6 x⁻¹ := by
  rw [inFp6_iff] at *; rw [map_inv₀, hx]
theorem inFp6_div {x y : K12bn} (hx : InFp6 x) (hy : InFp6 y) : InFp6 (x / y) := by
  rw [inFp6_iff] at *; rw [map_div₀, hx, hy]
theorem inFp6_pow {x : K12bn} (hx : InFp6 x) (n : ℕ) : InFp6 (x ^ n) := by
  rw [inFp6_iff] at *; rw [map_pow, hx]

/-- the base field `Fp` lies in `Fp⁶` -/
theorem inFp6_of (c : ZMod bnP) : InFp6 (AdjoinRoot.of (modulus bnP bnMc12) c) := by
  unfold InFp6
  rw [← map_pow, ZMod.pow_card_pow]

theorem inFp6_natCast (n : ℕ) : InFp6 (n : K12bn) := by
  rw [inFp6_iff, map_natCast]
theorem inFp6_intCast (n : ℤ) : InFp6 (n : K12bn) := by
  rw [inFp6_iff, map_intCast]

/-- the image of the twist embedding `ψ : Fp² → Fp¹²` (`i ↦ w⁶ − 9`) lies in `Fp⁶` -/
theorem inFp6_psi (a : K2bn) : InFp6 (psiBn a) := by
  unfold InFp6
  have e : bnP ^ 6 = bnP ^ 2 * bnP ^ 2 * bnP ^ 2 := by ring
  rw [← map_pow, e, pow_mul, pow_mul, pow_card_K2bn, pow_card_K2bn, pow_card_K2bn]

/-- `ξ = 9 + i`, the non-residue with `ψ(ξ) = w⁶` -/
noncomputable def xiBn : K2bn :=
  AdjoinRoot.of _ (9 : ZMod bnP) + AdjoinRoot.of _ (1 : ZMod bnP) * AdjoinRoot.root (modulus bnP bnMc2)

theorem psi_xi : psiBn xiBn = wQ bnP bnMc12 ^ 6 := by
  unfold xiBn
  rw [psiBn_apply]
  simp

theorem xiBn_ne_zero : xiBn ≠ 0 := by
  intro h
  have := psi_xi
  rw [h, map_zero] at this
  exact pow_ne_zero 6 wQ_bn_ne_zero this.symm

theorem exp6_split : 2 * (bnP ^ 6 - 1) = 6 * ((bnP ^ 2 - 1) * ((bnP ^ 4 + bnP ^ 2 + 1) / 3)) := by
  decide +kernel

/-- `w²` lies in `Fp⁶` -/
theorem inFp6_w2 : InFp6 (wQ bnP bnMc12 ^ 2) := by
  have hw : wQ bnP bnMc12 ^ 2 ≠ 0 := pow_ne_zero 2 wQ_bn_ne_zero
  have h1 : (wQ bnP bnMc12 ^ 2) ^ (bnP ^ 6 - 1) = 1 := by
    rw [← pow_mul, exp6_split, pow_mul, ← psi_xi, ← map_pow, pow_mul]
    have : xiBn ^ (bnP ^ 2 - 1) = 1 := by
      rw [← card_K2bn]; exact FiniteField.pow_card_sub_one_eq_one xiBn xiBn_ne_zero
    rw [this, one_pow, map_one]
  unfold InFp6
  have hp : bnP ^ 6 = (bnP ^ 6 - 1) + 1 := by decide +kernel
  rw [hp, pow_succ, h1, one_mul]

/-! ### the final exponent kills `Fp⁶ \ {0}` -/

/-- `(p⁶ − 1) ∣ (p¹² − 1)/r` — because `r ∤ p⁶ − 1` (`C12.Exp.embedding_degree_exact`) -/
theorem bnFinalExp_split : bnFinalExp = (bnP ^ 6 - 1) * ((bnP ^ 6 + 1) / bn128_curve_order) := by
  decide +kernel

theorem four_dvd_bnFinalExp : 4 ∣ bnFinalExp := by decide +kernel

/-- **every non-zero element of `Fp⁶` is killed by the final exponent** -/
theorem pow_finalExp_of_inFp6 {x : K12bn} (h0 : x ≠ 0) (hx : InFp6 x) : x ^ bnFinalExp = 1 := by
  have h1 : x ^ (bnP ^ 6 - 1) = 1 := by
    have hp : bnP ^ 6 = (bnP ^ 6 - 1) + 1 := by decide +kernel
    unfold InFp6 at hx
    rw [hp, pow_succ] at hx
    exact mul_right_cancel₀ h0 (by rw [hx, one_mul])
  rw [bnFinalExp_split, pow_mul, h1, one_pow]

end PyEcc.MillerBnSem
