/-
  PyEcc.Lemmas.Irred12Calc — the kernel-checked power-residue computations in `Fp(i)` behind the
  irreducibility of the two degree-12 moduli (`decide +kernel`, no axioms):
  `ξ^((p²−1)/2) = −1` and `ξ^((p²−1)/3) = u ∈ Fp`, `u ≠ 1`, for `ξ = 1 + i` (BLS12-381), `ξ = 9 + i` (BN128).
-/
import PyEcc.Lemmas.Irred12
import PyEcc.Model.Curve
import PyEcc.Sem.FqpFq2

namespace PyEcc.Irred12
open Polynomial PyEcc PyEcc.Fqp PyEcc.FqpSem

set_option maxRecDepth 100000

/-- the cube-root of unity `(1+i)^((p²−1)/3)` of BLS12-381 (it lies in `Fp`) -/
def blsOmega : ℕ :=
  793479390729215512621379701633421447060886740281060493010456487427281649075476305620758731620350

/-- the cube-root of unity `(9+i)^((p²−1)/3)` of BN128 (it lies in `Fp`) -/
def bnOmega : ℕ :=
  21888242871839275220042445260109153167277707414472061641714758635765020556616

theorem bls_side : blsP % 4 = 3 ∧ blsP ^ 2 - 1 < 2 ^ 800 ∧ 3 ∣ blsP ^ 2 - 1 ∧ blsOmega % blsP ≠ 1 % blsP := by
  decide +kernel

theorem bn_side : bnP % 4 = 3 ∧ bnP ^ 2 - 1 < 2 ^ 800 ∧ 3 ∣ bnP ^ 2 - 1 ∧ bnOmega % bnP ≠ 1 % bnP := by
  decide +kernel

/-- `1 + i` is not a square in `Fp²` (BLS12-381): Euler's criterion gives `−1`. -/
theorem bls_sq : pow2 blsP 800 (1, 0) (1, 1) ((blsP ^ 2 - 1) / 2) = (blsP - 1, 0) := by decide +kernel

/-- `1 + i` is not a cube in `Fp²` (BLS12-381): `(1+i)^((p²−1)/3)` is a non-trivial cube root of unity. -/
theorem bls_cu : pow2 blsP 800 (1, 0) (1, 1) ((blsP ^ 2 - 1) / 3) = (blsOmega, 0) := by decide +kernel

/-- `9 + i` is not a square in `Fp²` (BN128). -/
theorem bn_sq : pow2 bnP 800 (1, 0) (9, 1) ((bnP ^ 2 - 1) / 2) = (bnP - 1, 0) := by decide +kernel

/-- `9 + i` is not a cube in `Fp²` (BN128). -/
theorem bn_cu : pow2 bnP 800 (1, 0) (9, 1) ((bnP ^ 2 - 1) / 3) = (bnOmega, 0) := by decide +kernel

/-! ### the generated moduli in the form `((X − a)² + 1) ∘ X⁶` -/

theorem modulus_bls12 : modulus blsP blsMc12 = (quad blsP 1).comp (X ^ 6) := by
  rw [quad_comp]
  have : blsMc12 = [2, 0, 0, 0, 0, 0, -2, 0, 0, 0, 0, 0] := rfl
  rw [this]
  simp only [modulus, ev_cons, ev_nil, List.length_cons, List.length_nil]
  simp only [Int.cast_zero, Int.cast_neg, Int.cast_ofNat, C_0, C_neg, Nat.cast_one, mul_one, map_add,
    map_pow, map_one]
  rw [show (C (2 : ZMod blsP)) = 2 from rfl]
  ring

theorem modulus_bn12 : modulus bnP bnMc12 = (quad bnP 9).comp (X ^ 6) := by
  rw [quad_comp]
  have : bnMc12 = [82, 0, 0, 0, 0, 0, -18, 0, 0, 0, 0, 0] := rfl
  rw [this]
  simp only [modulus, ev_cons, ev_nil, List.length_cons, List.length_nil]
  simp only [Int.cast_zero, Int.cast_neg, Int.cast_ofNat, C_0, C_neg, Nat.cast_ofNat, map_add,
    map_pow, map_one, map_mul]
  rw [show (C (2 : ZMod bnP)) = 2 from rfl, show (C (9 : ZMod bnP)) = 9 from rfl,
    show (C (82 : ZMod bnP)) = 82 from rfl, show (C (18 : ZMod bnP)) = 18 from rfl]
  ring

theorem sane_bls12 : Sane blsP blsMc12 := sane_of_natAbs_lt (by decide)
theorem sane_bn12 : Sane bnP bnMc12 := sane_of_natAbs_lt (by decide)

end PyEcc.Irred12
