/-
  PyEcc.Lemmas.IsoG2 — the 3-isogeny `iso_map_G2` of `optimized_swu.py` maps the curve
  `E2' : y² = x³ + 240i·x + 1012(1+i)` into `E2 : y² = x³ + 4(1+i)` over `Fp²` (projectively, every
  reduced input with `z ≠ 0`), and its output is a reduced triple.

  Same reflection proof as `Lemmas/IsoG1.lean`, with coefficients in the Gaussian integers
  `ℤ[i] = ℤ√(-1)` (kernel-computable), read in `K2 = Fp[X]/(X²+1)` through `Zsqrtd.lift` at the
  imaginary unit `i2`; the model's optimized `FQ2` objects are read in `K2` through
  `q = toQ` (`Lemmas/Swu2Field.lean`), a `GoodHom` on reduced elements.
-/
import PyEcc.Lemmas.IsoG1
import PyEcc.Lemmas.Swu2Field
import PyEcc.Sem.TransferFqp
import Mathlib.NumberTheory.Zsqrtd.Basic

set_option maxRecDepth 100000

namespace PyEcc.IsoSem
open PyEcc PyEcc.Fqp PyEcc.FqpSem PyEcc.Swu2 Gen.Consts

/-! ### the coefficient lists over `ℤ[i]` -/

/-- Gaussian integers -/
abbrev ZI : Type := ℤ√(-1)

/-- a coefficient pair `[a, b]` of the Python tables as the Gaussian integer `a + b·i` -/
def toZI (c : List ℤ) : ZI := ⟨getI c 0, getI c 1⟩

/-- the `i`-th coefficient list of `ISO_3_MAP_COEFFICIENTS`, as pairs -/
def c3 (i : ℕ) : List (List ℤ) := h2c_ISO_3_MAP_COEFFICIENTS.getD i []

/-- the same as Gaussian integers (`0`: x-numerator, `1`: x-denominator, `2`: y-numerator,
    `3`: y-denominator), constant term first -/
def iso3 (i : ℕ) : List ZI := (c3 i).map toZI

theorem coeffs3_eq : h2c_ISO_3_MAP_COEFFICIENTS = [c3 0, c3 1, c3 2, c3 3] := by decide +kernel

/-- all four lists have 4 entries (the x-denominator is padded with a zero leading coefficient) -/
theorem iso3_length : (iso3 0).length = 4 ∧ (iso3 1).length = 4 ∧ (iso3 2).length = 4 ∧
    (iso3 3).length = 4 := by decide +kernel

/-- every coefficient is a pair of reduced residues -/
theorem c3_canon : ∀ i < 4, ∀ c ∈ c3 i, Canon (f2c c) ∧ c.length = 2 := by decide +kernel

/-- the coefficients of the curve polynomial `x³ + A'x + B'` of `E2'` -/
def g3 : List ZI := [toZI h2c_ISO_3_B, toZI h2c_ISO_3_A, 0, 1]

def zeroModP (c : ZI) : Bool := c.re % (blsP : ℤ) == 0 && c.im % (blsP : ℤ) == 0

/-- the kernel-checked polynomial identity: every coefficient of
    `g·yn²·xd³ − (xn³ + b·xd³)·yd²` (computed over `ℤ[i]`) is divisible by `p` -/
def check3 : Bool :=
  (pSub (pMul g3 (pMul (pPow (iso3 2) 2) (pPow (iso3 1) 3)))
        (pMul (pAdd (pPow (iso3 0) 3) (pSmul (toZI optimized_bls12_381_b2) (pPow (iso3 1) 3)))
          (pPow (iso3 3) 2))).all zeroModP

theorem check3_true : check3 = true := by decide +kernel

/-! ### transport to `K2` -/

/-- `ℤ[i] → K2`, `a + b·i ↦ a + b·i2` -/
noncomputable def fG : ZI →+* K2 :=
  Zsqrtd.lift ⟨i2, by rw [← pow_two, i2_sq]; simp⟩

theorem fG_apply (c : ZI) : fG c = (c.re : K2) + (c.im : K2) * i2 := rfl

theorem intCast_eq_zero {x : ℤ} (h : x % (blsP : ℤ) = 0) : (x : K2) = 0 := by
  rw [← cast_emod, h, Int.cast_zero]

theorem fG_eq_zero {c : ZI} (h : zeroModP c = true) : fG c = 0 := by
  unfold zeroModP at h
  simp only [Bool.and_eq_true, beq_iff_eq] at h
  rw [fG_apply, intCast_eq_zero h.1, intCast_eq_zero h.2]; ring

/-- the value in `K2` of a coefficient pair of the tables -/
theorem q_f2c_pair {c : List ℤ} (h : c.length = 2) : q (f2c c) = fG (toZI c) := by
  match c, h with
  | [a, b], _ => rw [q_pair, fG_apply]; rfl

theorem ev_g3 (w : K2) : ev fG g3 w = w ^ 3 + kA * w + kB := by
  have hA : fG (toZI h2c_ISO_3_A) = kA := by
    rw [fG_apply]
    show (((0 : ℤ) : K2)) + ((240 : ℤ) : K2) * i2 = _
    unfold kA; push_cast; ring
  have hB : fG (toZI h2c_ISO_3_B) = kB := by
    rw [fG_apply]
    show (((1012 : ℤ) : K2)) + ((1012 : ℤ) : K2) * i2 = _
    unfold kB; push_cast; ring
  simp only [g3, ev_cons, ev_nil, hA, hB, map_zero, map_one]
  ring

theorem q_blsB2 : q blsB2 = fG (toZI optimized_bls12_381_b2) :=
  q_f2c_pair (c := optimized_bls12_381_b2) rfl

/-- **the isogeny identity in `K2`**, for every `w` -/
theorem iso3_identity (w : K2) :
    (w ^ 3 + kA * w + kB) * ev fG (iso3 2) w ^ 2 * ev fG (iso3 1) w ^ 3 =
      (ev fG (iso3 0) w ^ 3 + q blsB2 * ev fG (iso3 1) w ^ 3) * ev fG (iso3 3) w ^ 2 := by
  have h := check3_true
  unfold check3 at h
  rw [List.all_eq_true] at h
  have h' := ev_eq_of_sub fG _ _ (fun c hc => fG_eq_zero (h c hc)) w
  simp only [ev_pMul, ev_pAdd, ev_pPow, ev_pSmul, ev_g3, ← q_blsB2] at h'
  linear_combination h'

/-! ### `iso_map_G2` unfolded -/

/-- the four Horner values of `iso_map_G2(x, y, z)` -/
def h3 (i : ℕ) (x z : F2) : F2 := isoHorner ((c3 i).map f2c) x (zPowersOf z 3)

theorem isoMapG2_eq (x y z : F2) :
    isoMapG2 x y z =
      (h3 0 x z * (h3 3 x z * z), h3 1 x z * (h3 2 x z * y), h3 1 x z * (h3 3 x z * z)) := by
  unfold isoMapG2 h3
  rw [coeffs3_eq]
  simp only [List.map_cons, List.map_nil, List.getD_cons_zero, List.getD_cons_succ]

/-- "`a` is reduced and its value in `K2` is `A`" -/
def Rq (a : F2) (A : K2) : Prop := Canon a ∧ q a = A

theorem Rq.mul {a b : F2} {A B : K2} (ha : Rq a A) (hb : Rq b B) : Rq (a * b) (A * B) :=
  ⟨cn_mul ha.1 hb.1, by rw [q_mul ha.1 hb.1, ha.2, hb.2]⟩
theorem Rq.sub {a b : F2} {A B : K2} (ha : Rq a A) (hb : Rq b B) : Rq (a - b) (A - B) :=
  ⟨cn_sub ha.1 hb.1, by rw [q_sub ha.1 hb.1, ha.2, hb.2]⟩
theorem Rq.pow {a : F2} {A : K2} (ha : Rq a A) (n : ℕ) : Rq (a ^ n) (A ^ n) :=
  ⟨cn_pow ha.1 n, by rw [q_pow ha.1 n, ha.2]⟩

/-- the transfer principle for the BLS12-381 optimized `FQ2` model, for the instances in scope here -/
theorem goodHom_q : Transfer.GoodHom (Canon (v := .opt) (p := blsP) (mc := blsMc2)) (q : F2 → K2) :=
  Transfer.goodHom_F2

theorem h3_rq (i : ℕ) (hi : i < 4) (x z : F2) (hx : Canon x) (hz : Canon z) (w : K2)
    (hw : q x = w * q z) : Rq (h3 i x z) (q z ^ 3 * ev fG (iso3 i) w) := by
  have hlen : (iso3 i).length = 4 := by
    obtain ⟨l0, l1, l2, l3⟩ := iso3_length
    match i, hi with
    | 0, _ => exact l0
    | 1, _ => exact l1
    | 2, _ => exact l2
    | 3, _ => exact l3
  have hlen' : (c3 i).length = 4 := by rw [← hlen, iso3, List.length_map]
  have hne : (c3 i).map f2c ≠ [] := by
    intro e
    have := congrArg List.length e
    rw [List.length_map, hlen'] at this
    cases this
  have hcn : ∀ c ∈ (c3 i).map f2c, Canon c := by
    intro c hc
    obtain ⟨d, hd, rfl⟩ := List.mem_map.mp hc
    exact (c3_canon i hi d hd).1
  have hzp := zPowersOf_good goodHom_q z hz 3
  obtain ⟨g, e⟩ := isoHorner_good goodHom_q ((c3 i).map f2c) hne hcn x hx (zPowersOf z 3) hzp.1
  refine ⟨g, ?_⟩
  show q (isoHorner ((c3 i).map f2c) x (zPowersOf z 3)) = _
  have hmap : ((c3 i).map f2c).map q = (iso3 i).map fG := by
    rw [iso3, List.map_map, List.map_map]
    apply List.map_congr_left
    intro c hc
    exact q_f2c_pair (c3_canon i hi c hc).2
  rw [e, hzp.2, hw, hmap]
  have := isoHorner_eq ((iso3 i).map fG) (by rw [← hmap]; simpa using hne) w (q z) 3
    (by rw [List.length_map, hlen])
  rw [List.length_map, hlen, ev_map] at this
  exact this

/-- `iso_map_G2(x, y, z)` in closed form, for reduced `x, y, z` and any `w` with `x = w·z` in `K2`:
    the three outputs are reduced and their values are
    `X₃ = (z³·xn(w))·(z³·yd(w)·z)`, `Y₃ = (z³·xd(w))·(z³·yn(w)·y)`, `Z₃ = (z³·xd(w))·(z³·yd(w)·z)`. -/
theorem isoMapG2_rq (x y z : F2) (hx : Canon x) (hy : Canon y) (hz : Canon z) (w : K2)
    (hw : q x = w * q z) :
    Rq (isoMapG2 x y z).1
      ((q z ^ 3 * ev fG (iso3 0) w) * (q z ^ 3 * ev fG (iso3 3) w * q z)) ∧
    Rq (isoMapG2 x y z).2.1
      ((q z ^ 3 * ev fG (iso3 1) w) * (q z ^ 3 * ev fG (iso3 2) w * q y)) ∧
    Rq (isoMapG2 x y z).2.2
      ((q z ^ 3 * ev fG (iso3 1) w) * (q z ^ 3 * ev fG (iso3 3) w * q z)) := by
  have r0 := h3_rq 0 (by decide) x z hx hz _ hw
  have r1 := h3_rq 1 (by decide) x z hx hz _ hw
  have r2 := h3_rq 2 (by decide) x z hx hz _ hw
  have r3 := h3_rq 3 (by decide) x z hx hz _ hw
  have ry : Rq y (q y) := ⟨hy, rfl⟩
  have rz : Rq z (q z) := ⟨hz, rfl⟩
  rw [isoMapG2_eq]
  exact ⟨r0.mul (r3.mul rz), r1.mul (r2.mul ry), r1.mul (r3.mul rz)⟩

/-- **`iso_map_G2` lands on `E2`.**  For reduced `x, y, z` with `z ≠ 0` and `(x : y : z)` on `E2'`
    (values in `K2`), the output of `iso_map_G2` is a reduced triple and passes
    `is_on_curve(·, b2)`. -/
theorem isoMapG2_on_curve (x y z : F2) (hx : Canon x) (hy : Canon y) (hz : Canon z)
    (hz0 : q z ≠ 0) (h : (q y / q z) ^ 2 = (q x / q z) ^ 3 + kA * (q x / q z) + kB) :
    Transfer.CanonT (isoMapG2 x y z) ∧ Gen.OptBls.is_on_curve (isoMapG2 x y z) blsB2 = true := by
  have hw : q x = (q x / q z) * q z := (div_mul_cancel₀ (q x) hz0).symm
  obtain ⟨rX, rY, rZ⟩ := isoMapG2_rq x y z hx hy hz _ hw
  refine ⟨⟨rX.1, rY.1, rZ.1⟩, ?_⟩
  unfold Gen.OptBls.is_on_curve
  split
  · rfl
  · rw [decide_eq_true_eq]
    have rb : Rq blsB2 (q blsB2) := ⟨Transfer.k2_field_ok.2.2.1, rfl⟩
    have rL := ((rY.pow 2).mul rZ).sub (rX.pow 3)
    have rR := rb.mul (rZ.pow 3)
    apply q_inj rL.1 rR.1
    rw [rL.2, rR.2]
    have hy2 : q y ^ 2 = q z ^ 2 * ((q x / q z) ^ 3 + kA * (q x / q z) + kB) := by
      rw [← h]; field_simp
    have := iso_alg (ev fG (iso3 0) (q x / q z)) (ev fG (iso3 1) (q x / q z))
      (ev fG (iso3 2) (q x / q z)) (ev fG (iso3 3) (q x / q z)) _ (q blsB2) (q z ^ 3) (q z ^ 3)
      (q y) (q z) (iso3_identity (q x / q z)) hy2
    linear_combination this

end PyEcc.IsoSem
