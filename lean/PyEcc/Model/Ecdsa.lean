/-
  PyEcc.Model.Ecdsa — the parts of `py_ecc/secp256k1/secp256k1.py` outside the translator subset:
  `bytes_to_int`, `deterministic_generate_k` (RFC 6979 via HMAC), and the two ECDSA entry points,
  written around the GENERATED Jacobian arithmetic (`Gen.Secp.*`).
-/
import PyEcc.Model.Hash
import PyEcc.Gen.Secp

namespace PyEcc
namespace Ecdsa
open Gen.Secp

/-- `bytes_to_int(x)` -/
def bytesToInt (x : Bytes) : Int := (os2ip x : Nat)

/-- `privtopub(privkey)` -/
def privtopub (priv : Bytes) : Except PyErr (Int × Int) := multiply G (bytesToInt priv)

/-- `deterministic_generate_k(msghash, priv)` -/
def deterministicGenerateK (H : HashFn) (msghash priv : Bytes) : Int :=
  let v := List.replicate 32 (1 : UInt8)
  let k := List.replicate 32 (0 : UInt8)
  let k := hmac H k (v ++ [0] ++ priv ++ msghash)
  let v := hmac H k v
  let k := hmac H k (v ++ [1] ++ priv ++ msghash)
  let v := hmac H k v
  bytesToInt (hmac H k v)

/-- `ecdsa_raw_sign(msghash, priv)` with the nonce made explicit -/
def rawSignWithK (msghash priv : Bytes) (k : Int) : Except PyErr (Int × Int × Int) := do
  let z := bytesToInt msghash
  let (r, y) ← multiply G k
  let s := inv k N * (z + r * bytesToInt priv) % N
  let v := 27 + (pyXor (y % 2) (if s * 2 < N then 0 else 1))
  pure (v, r, if s * 2 < N then s else N - s)

def ecdsaRawSign (H : HashFn) (msghash priv : Bytes) : Except PyErr (Int × Int × Int) :=
  rawSignWithK msghash priv (deterministicGenerateK H msghash priv)

/-- `ecdsa_raw_recover(msghash, (v, r, s))` -/
def ecdsaRawRecover (msghash : Bytes) (v r s : Int) : Except PyErr (Int × Int) := do
  if ¬ (v = 27 ∨ v = 28) then throw .value
  let x := r
  let xcubedaxb := (x * x * x + A * x + B) % P
  let beta := powModI xcubedaxb ((P + 1) / 4) P
  let y := if pyXor (v % 2) (beta % 2) ≠ 0 then beta else P - beta
  if (xcubedaxb - y * y) % P ≠ 0 ∨ r % N = 0 ∨ s % N = 0 then throw .value
  let z := bytesToInt msghash
  let Gz ← jacobian_multiply (Gx, Gy, 1) ((N - z) % N)
  let XY ← jacobian_multiply (x, y, 1) s
  let Qr := jacobian_add Gz XY
  let Q ← jacobian_multiply Qr (inv r N)
  pure (from_jacobian Q)

end Ecdsa
end PyEcc
