/-
  PyEcc.Model.Swu — model of `py_ecc/optimized_bls12_381/optimized_swu.py`,
  `optimized_clear_cofactor.py` and the curve half of `py_ecc/bls/hash_to_curve.py`.
  All constants come from `Gen.Consts` (the working tree's own tables).
-/
import PyEcc.Model.Curve
import PyEcc.Model.Hash

namespace PyEcc
open Gen.Consts

abbrev F1 := Fq blsP
abbrev F2 := Fqp Variant.opt blsP blsMc2

def f1c (n : Int) : F1 := Fq.ofInt n
def f2c (l : List Int) : F2 := ⟨l⟩

def ISO_11_Z : F1 := f1c h2c_ISO_11_Z
def ISO_11_A : F1 := f1c h2c_ISO_11_A
def ISO_11_B : F1 := f1c h2c_ISO_11_B
def SQRT_MINUS_11_CUBED : F1 := f1c h2c_SQRT_MINUS_11_CUBED
def ISO_3_Z : F2 := f2c h2c_ISO_3_Z
def ISO_3_A : F2 := f2c h2c_ISO_3_A
def ISO_3_B : F2 := f2c h2c_ISO_3_B
def ETAS : List F2 := h2c_ETAS.map f2c
def POSITIVE_EIGHTH_ROOTS_OF_UNITY : List F2 := h2c_POSITIVE_EIGHTH_ROOTS_OF_UNITY.map f2c

/-- `sqrt_division_FQ(u, v)` -/
def sqrtDivisionFq (u v : F1) : Bool × F1 :=
  let temp := u * v
  let result := temp * ((temp * v ^ 2) ^ h2c_P_MINUS_3_DIV_4)
  let isValidRoot := decide ((result ^ 2 * v - u) = (0 : F1))
  (isValidRoot, result)

/-- `optimized_swu_G1(t)` -/
def optimizedSwuG1 (t : F1) : F1 × F1 × F1 :=
  let t2 := t ^ 2
  let isoZt2 := ISO_11_Z * t2
  let temp := isoZt2 + isoZt2 ^ 2
  let denominator := -(ISO_11_A * temp)
  let temp := temp + (1 : F1)
  let numerator := ISO_11_B * temp
  let denominator := if denominator = (0 : F1) then ISO_11_Z * ISO_11_A else denominator
  let v := denominator ^ 3
  let u := (numerator ^ 3) + (ISO_11_A * numerator * (denominator ^ 2)) + (ISO_11_B * v)
  let (isRoot, y) := sqrtDivisionFq u v
  let (y, numerator) :=
    if !isRoot then (y * t ^ 3 * SQRT_MINUS_11_CUBED, numerator * isoZt2) else (y, numerator)
  let y := if t.sgn0 ≠ y.sgn0 then -y else y
  let y := y * denominator
  (numerator, y, denominator)

/-- `sqrt_division_FQ2(u, v)` -/
def sqrtDivisionFq2 (u v : F2) : Bool × F2 :=
  let temp1 := u * v ^ 7
  let temp2 := temp1 * v ^ 8
  let gamma := temp2 ^ h2c_P_MINUS_9_DIV_16
  let gamma := gamma * temp1
  POSITIVE_EIGHTH_ROOTS_OF_UNITY.foldl (fun (st : Bool × F2) root =>
    let (isValidRoot, result) := st
    let sqrtCandidate := root * gamma
    let temp2 := sqrtCandidate ^ 2 * v - u
    if temp2 = (0 : F2) ∧ !isValidRoot then (true, sqrtCandidate) else (isValidRoot, result)) (false, gamma)

/-- `optimized_swu_G2(t)`; the "unreachable" `raise Exception` is modelled as `PyErr.other` -/
def optimizedSwuG2 (t : F2) : Except PyErr (F2 × F2 × F2) :=
  let t2 := t ^ 2
  let isoZt2 := ISO_3_Z * t2
  let temp := isoZt2 + isoZt2 ^ 2
  let denominator := -(ISO_3_A * temp)
  let temp := temp + (1 : F2)
  let numerator := ISO_3_B * temp
  let denominator := if denominator = (0 : F2) then ISO_3_Z * ISO_3_A else denominator
  let v := denominator ^ 3
  let u := (numerator ^ 3) + (ISO_3_A * numerator * (denominator ^ 2)) + (ISO_3_B * v)
  let (success, sqrtCandidate) := sqrtDivisionFq2 u v
  let y := sqrtCandidate
  let sqrtCandidate := sqrtCandidate * t ^ 3
  let u := (isoZt2) ^ 3 * u
  let (success2, y) := ETAS.foldl (fun (st : Bool × F2) eta =>
    let (success2, y) := st
    let etaSqrtCandidate := eta * sqrtCandidate
    let temp1 := etaSqrtCandidate ^ 2 * v - u
    if temp1 = (0 : F2) ∧ !success ∧ !success2 then (true, etaSqrtCandidate) else (success2, y)) (false, y)
  if !success ∧ !success2 then .error .other
  else
    let numerator := if !success then numerator * isoZt2 else numerator
    let y := if Fqp.sgn0_fq2 t ≠ Fqp.sgn0_fq2 y then -y else y
    let y := y * denominator
    .ok (numerator, y, denominator)

/-- Horner evaluation shared by `iso_map_G1` / `iso_map_G2`:
    `mapped = k[-1]; for j, k_j in enumerate(reversed(k[:-1])): mapped = mapped * x + z_powers[j] * k_j` -/
def isoHorner {F : Type} [Mul F] [Add F] [Inhabited F] (k : List F) (x : F) (zPowers : List F) : F :=
  let last := k.getLast?.getD default
  let rest := k.dropLast.reverse
  (List.zip rest zPowers).foldl (fun acc kz => acc * x + kz.2 * kz.1) last

def zPowersOf {F : Type} [Pow F Nat] (z : F) (n : Nat) : List F := (List.range n).map fun i => z ^ (i + 1)

/-- `iso_map_G2(x, y, z)` -/
def isoMapG2 (x y z : F2) : F2 × F2 × F2 :=
  let zp := zPowersOf z 3
  let coeffs : List (List F2) := h2c_ISO_3_MAP_COEFFICIENTS.map fun ks => ks.map f2c
  let m := coeffs.map fun k => isoHorner k x zp
  let m0 := m.getD 0 default; let m1 := m.getD 1 default
  let m2 := m.getD 2 default * y
  let m3 := m.getD 3 default * z
  (m0 * m3, m1 * m2, m1 * m3)

/-- `iso_map_G1(x, y, z)` -/
def isoMapG1 (x y z : F1) : F1 × F1 × F1 :=
  let zp := zPowersOf z 15
  let coeffs : List (List F1) := h2c_ISO_11_MAP_COEFFICIENTS.map fun ks => ks.map fun c => f1c (getI c 0)
  let m := coeffs.map fun k => isoHorner k x zp
  let m0 := m.getD 0 default
  let m1 := m.getD 1 default * z
  let m2 := m.getD 2 default * y
  let m3 := m.getD 3 default * z
  (m0 * m3, m1 * m2, m1 * m3)

def mapToCurveG1 (u : F1) : F1 × F1 × F1 :=
  let (x, y, z) := optimizedSwuG1 u
  isoMapG1 x y z

def mapToCurveG2 (u : F2) : Except PyErr (F2 × F2 × F2) := do
  let (x, y, z) ← optimizedSwuG2 u
  pure (isoMapG2 x y z)

def clearCofactorG1 (pt : F1 × F1 × F1) : F1 × F1 × F1 := Gen.OptBls.multiply pt h2c_H_EFF_G1
def clearCofactorG2 (pt : F2 × F2 × F2) : F2 × F2 × F2 := Gen.OptBls.multiply pt h2c_H_EFF_G2

/-- `hash_to_G2(message, DST, hash_function)` -/
def hashToG2 (H : HashFn) (msg dst : Bytes) : Except PyErr (F2 × F2 × F2) := do
  let us ← hashToFieldFq2 H blsP msg 2 dst
  match us with
  | [u0, u1] =>
    let q0 ← mapToCurveG2 (f2c [u0.1, u0.2])
    let q1 ← mapToCurveG2 (f2c [u1.1, u1.2])
    pure (clearCofactorG2 (Gen.OptBls.add q0 q1))
  | _ => throw .value

/-- `hash_to_G1(message, DST, hash_function)` -/
def hashToG1 (H : HashFn) (msg dst : Bytes) : Except PyErr (F1 × F1 × F1) := do
  let us ← hashToFieldFq H blsP msg 2 dst
  match us with
  | [u0, u1] =>
    pure (clearCofactorG1 (Gen.OptBls.add (mapToCurveG1 (f1c u0)) (mapToCurveG1 (f1c u1))))
  | _ => throw .value

end PyEcc
