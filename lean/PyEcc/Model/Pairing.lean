/-
  PyEcc.Model.Pairing — the four `miller_loop` / `pairing` / `final_exponentiate` functions and
  `exp_by_p`.  The loops are hand-modelled (a fold over the same digit table, same order of
  operations) around the GENERATED `linefunc`, `double`, `add`, `neg`, `is_on_curve`.
-/
import PyEcc.Model.Curve

namespace PyEcc
open Gen.Consts

/-- `range(hi, -1, -1)` digits test `ate_loop_count & (2**i)` -/
def bitSet (n i : Nat) : Bool := (n / 2 ^ i) % 2 == 1

/-! ### reference modules (affine, `None` = infinity, everything over FQ12) -/
section ref
variable {p : Nat} {mc12 : List Int}
local notation "F12" => Fqp Variant.ref p mc12

structure RefOps (p : Nat) (mc12 : List Int) where
  linefunc : Option (Fqp .ref p mc12 × Fqp .ref p mc12) → Option (Fqp .ref p mc12 × Fqp .ref p mc12) →
    Option (Fqp .ref p mc12 × Fqp .ref p mc12) → Except PyErr (Fqp .ref p mc12)
  double : Option (Fqp .ref p mc12 × Fqp .ref p mc12) → Option (Fqp .ref p mc12 × Fqp .ref p mc12)
  add : Option (Fqp .ref p mc12 × Fqp .ref p mc12) → Option (Fqp .ref p mc12 × Fqp .ref p mc12) →
    Except PyErr (Option (Fqp .ref p mc12 × Fqp .ref p mc12))

/-- body of `for i in range(log_ate_loop_count, -1, -1)` -/
def refMillerStep (ops : RefOps p mc12) (ate : Nat) (Q P : Option (F12 × F12))
    (st : F12 × Option (F12 × F12)) (i : Nat) : Except PyErr (F12 × Option (F12 × F12)) := do
  let (f, R) := st
  let l ← ops.linefunc R R P
  let f := f * f * l
  let R := ops.double R
  if bitSet ate i then
    let l ← ops.linefunc R Q P
    let f := f * l
    let R ← ops.add R Q
    pure (f, R)
  else pure (f, R)

/-- reference `miller_loop(Q, P)`; `frob = true` adds the two Frobenius steps of bn128 -/
def refMillerLoop (ops : RefOps p mc12) (ate logAte : Nat) (frob : Bool) (finalExp : Nat)
    (Q P : Option (F12 × F12)) : Except PyErr F12 := do
  if Q.isNone || P.isNone then return (1 : F12)
  let (f, R) ← (downTo logAte).foldlM (refMillerStep ops ate Q P) ((1 : F12), Q)
  if frob then
    match Q with
    | none => throw .type
    | some (qx, qy) =>
      let Q1 : Option (F12 × F12) := some (qx ^ p, qy ^ p)
      let nQ2 : Option (F12 × F12) := some ((qx ^ p) ^ p, -((qy ^ p) ^ p))
      let l1 ← ops.linefunc R Q1 P
      let f := f * l1
      let R ← ops.add R Q1
      let l2 ← ops.linefunc R nQ2 P
      let f := f * l2
      return f ^ finalExp
  else
    return f ^ finalExp

end ref

/-! ### optimized modules (projective triples) -/
section opt
variable {p : Nat} {mc12 : List Int}
local notation "F12" => Fqp Variant.opt p mc12

/-- optimized bn128 `miller_loop(Q, P, final_exponentiate)`: everything over FQ12, signed digits -/
def optBnMillerLoop (digits : List Int) (finalExp : Option Nat) (Q P : F12 × F12 × F12) : F12 :=
  let step := fun (st : (F12 × F12) × (F12 × F12 × F12)) (v : Int) =>
    let ((fNum, fDen), R) := st
    let (n, d) := Gen.OptBn.linefunc R R P
    let fNum := fNum * fNum * n
    let fDen := fDen * fDen * d
    let R := Gen.OptBn.double R
    if v = 1 then
      let (n, d) := Gen.OptBn.linefunc R Q P
      ((fNum * n, fDen * d), Gen.OptBn.add R Q)
    else if v = -1 then
      let nQ := Gen.OptBn.neg Q
      let (n, d) := Gen.OptBn.linefunc R nQ P
      ((fNum * n, fDen * d), Gen.OptBn.add R nQ)
    else ((fNum, fDen), R)
  let ((fNum, fDen), R) := digits.foldl step (((1 : F12), (1 : F12)), Q)
  let (qx, qy, qz) := Q
  let Q1 : F12 × F12 × F12 := (qx ^ p, qy ^ p, qz ^ p)
  let nQ2 : F12 × F12 × F12 := (Q1.1 ^ p, -(Q1.2.1 ^ p), Q1.2.2 ^ p)
  let (n1, d1) := Gen.OptBn.linefunc R Q1 P
  let R := Gen.OptBn.add R Q1
  let (n2, d2) := Gen.OptBn.linefunc R nQ2 P
  let f := fNum * n1 * n2 / (fDen * d1 * d2)
  match finalExp with
  | some e => f ^ e
  | none => f

end opt

section optBls
variable {p : Nat} {mc2 mc12 : List Int}
local notation "F2" => Fqp Variant.opt p mc2
local notation "F12" => Fqp Variant.opt p mc12

/-- optimized bls12_381 `miller_loop(Q, P, final_exponentiate)`: `R` stays over FQ2 and is twisted
    after every update -/
def optBlsMillerLoop [NeZero p] (digits : List Int) (finalExp : Option Nat)
    (Q : F2 × F2 × F2) (P : Fq p × Fq p × Fq p) : F12 :=
  let castP : F12 × F12 × F12 := (castFq12 P.1, castFq12 P.2.1, castFq12 P.2.2)
  let twistQ : F12 × F12 × F12 := twistOptBls Q
  let step := fun (st : (F12 × F12) × (F2 × F2 × F2) × (F12 × F12 × F12)) (v : Int) =>
    let ((fNum, fDen), R, twistR) := st
    let (n, d) := Gen.OptBls.linefunc twistR twistR castP
    let fNum := fNum * fNum * n
    let fDen := fDen * fDen * d
    let R := Gen.OptBls.double R
    let twistR : F12 × F12 × F12 := twistOptBls R
    if v = 1 then
      let (n, d) := Gen.OptBls.linefunc twistR twistQ castP
      let R := Gen.OptBls.add R Q
      ((fNum * n, fDen * d), R, twistOptBls R)
    else ((fNum, fDen), R, twistR)
  let ((fNum, fDen), _, _) := digits.foldl step (((1 : F12), (1 : F12)), Q, twistQ)
  let f := fNum / fDen
  match finalExp with
  | some e => f ^ e
  | none => f

/-- `exp_by_p(x)`: `sum((table_entry * int(coeff) for ...), FQ12.zero())` -/
def expByP (table : List F12) (x : F12) : F12 :=
  (List.zip table x.coeffs).foldl (fun acc tc => acc + Fqp.mulInt tc.1 tc.2) (0 : F12)

/-- optimized bls12_381 `final_exponentiate` (split form) -/
def optBlsFinalExponentiate (table : List F12) (cofactor : Nat) (x : F12) : F12 :=
  let e := expByP table
  let p2 := e (e x) * x
  let p3 := e (e (e (e (e (e p2))))) / p2
  p3 ^ cofactor

end optBls

/-! ### the four `pairing` entry points at the concrete constants -/

def blsFinalExp : Nat := (blsP ^ 12 - 1) / bls12_381_curve_order
def bnFinalExp : Nat := (bnP ^ 12 - 1) / bn128_curve_order

abbrev RBls2 := Fqp Variant.ref blsP blsMc2
abbrev RBls12 := Fqp Variant.ref blsP blsMc12
abbrev RBn2 := Fqp Variant.ref bnP bnMc2
abbrev RBn12 := Fqp Variant.ref bnP bnMc12
abbrev OBls2 := Fqp Variant.opt blsP blsMc2
abbrev OBls12 := Fqp Variant.opt blsP blsMc12
abbrev OBn2 := Fqp Variant.opt bnP bnMc2
abbrev OBn12 := Fqp Variant.opt bnP bnMc12

def refBlsOps : RefOps blsP blsMc12 :=
  { linefunc := Gen.RefBls.linefunc, double := Gen.RefBls.double, add := Gen.RefBls.add }
def refBnOps : RefOps bnP bnMc12 :=
  { linefunc := Gen.RefBn.linefunc, double := Gen.RefBn.double, add := Gen.RefBn.add }

/-- reference bls12_381 `pairing(Q, P)` -/
def pairingRefBls (Q : Option (RBls2 × RBls2)) (P : Option (Fq blsP × Fq blsP)) : Except PyErr RBls12 := do
  if !(Gen.RefBls.is_on_curve Q ⟨bls12_381_b2⟩) then throw .value
  if !(Gen.RefBls.is_on_curve P (Fq.ofInt bls12_381_b)) then throw .value
  let P12 : Option (RBls12 × RBls12) := P.map fun (x, y) => (castFq12 x, castFq12 y)
  refMillerLoop refBlsOps bls12_381_ate_loop_count bls12_381_log_ate_loop_count false blsFinalExp (twistRefBls Q) P12

/-- reference bn128 `pairing(Q, P)` -/
def pairingRefBn (Q : Option (RBn2 × RBn2)) (P : Option (Fq bnP × Fq bnP)) : Except PyErr RBn12 := do
  if !(Gen.RefBn.is_on_curve Q ⟨bn128_b2⟩) then throw .value
  if !(Gen.RefBn.is_on_curve P (Fq.ofInt bn128_b)) then throw .value
  let P12 : Option (RBn12 × RBn12) := P.map fun (x, y) => (castFq12 x, castFq12 y)
  refMillerLoop refBnOps bn128_ate_loop_count bn128_log_ate_loop_count true bnFinalExp (twistRefBn Q) P12

/-- `pseudo_binary_encoding[k::-1]` -/
def digitsFrom (enc : List Int) (k : Nat) : List Int := (enc.take (k + 1)).reverse

/-- optimized bls12_381 `pairing(Q, P, final_exponentiate)` -/
def pairingOptBls (Q : OBls2 × OBls2 × OBls2) (P : Fq blsP × Fq blsP × Fq blsP) (finalExp : Bool) :
    Except PyErr OBls12 := do
  if !(Gen.OptBls.is_on_curve Q ⟨optimized_bls12_381_b2⟩) then throw .value
  if !(Gen.OptBls.is_on_curve P (Fq.ofInt optimized_bls12_381_b)) then throw .value
  if P.2.2 = 0 ∨ Q.2.2 = 0 then return (1 : OBls12)
  return optBlsMillerLoop (digitsFrom optimized_bls12_381_pseudo_binary_encoding 62)
    (if finalExp then some ((blsP ^ 12 - 1) / optimized_bls12_381_curve_order) else none) Q P

/-- optimized bn128 `pairing(Q, P, final_exponentiate)` -/
def pairingOptBn (Q : OBn2 × OBn2 × OBn2) (P : Fq bnP × Fq bnP × Fq bnP) (finalExp : Bool) :
    Except PyErr OBn12 := do
  if !(Gen.OptBn.is_on_curve Q ⟨optimized_bn128_b2⟩) then throw .value
  if !(Gen.OptBn.is_on_curve P (Fq.ofInt optimized_bn128_b)) then throw .value
  if P.2.2 = 0 ∨ Q.2.2 = 0 then return (1 : OBn12)
  let P12 : OBn12 × OBn12 × OBn12 := (castFq12 P.1, castFq12 P.2.1, castFq12 P.2.2)
  return optBnMillerLoop (digitsFrom optimized_bn128_pseudo_binary_encoding 63)
    (if finalExp then some ((bnP ^ 12 - 1) / optimized_bn128_curve_order) else none) (twistOptBn Q) P12

def blsExptable : List OBls12 := optimized_bls12_381_exptable.map fun l => ⟨l⟩

/-- optimized bls12_381 `final_exponentiate(p)` at the module constants -/
def finalExponentiateOptBls (x : OBls12) : OBls12 :=
  optBlsFinalExponentiate blsExptable ((blsP ^ 4 - blsP ^ 2 + 1) / optimized_bls12_381_curve_order) x

end PyEcc
