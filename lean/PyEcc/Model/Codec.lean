/-
  PyEcc.Model.Codec — model of `py_ecc/bls/point_compression.py` and `py_ecc/bls/g2_primitives.py`
  (ZCash compressed encoding of G1/G2 points, subgroup check).
-/
import PyEcc.Model.Swu

namespace PyEcc
open Gen.Consts

def POW_2_381 : Nat := blsconst_POW_2_381
def POW_2_382 : Nat := blsconst_POW_2_382
def POW_2_383 : Nat := blsconst_POW_2_383

abbrev G1Pt := F1 × F1 × F1
abbrev G2Pt := F2 × F2 × F2

def Z1 : G1Pt := ((1 : F1), (1 : F1), (0 : F1))
def Z2 : G2Pt := ((1 : F2), (1 : F2), (0 : F2))

/-- `get_flags(z)` -/
def getFlags (z : Nat) : Bool × Bool × Bool :=
  ((z / 2 ^ 383) % 2 == 1, (z / 2 ^ 382) % 2 == 1, (z / 2 ^ 381) % 2 == 1)

/-- `is_point_at_infinity(z1, z2)` -/
def isPointAtInfinity (z1 : Nat) (z2 : Option Nat) : Bool :=
  (z1 % POW_2_381 == 0) && (match z2 with | none => true | some z => z == 0)

/-- `compress_G1(pt)` -/
def compressG1 (pt : G1Pt) : Nat :=
  if Gen.OptBls.is_inf pt then POW_2_383 + POW_2_382
  else
    let (x, y) := Gen.OptBls.normalize pt
    let aFlag := (y.n * 2) / blsP
    x.n + aFlag * POW_2_381 + POW_2_383

/-- `decompress_G1(z)` -/
def decompressG1 (z : Nat) : Except PyErr G1Pt := do
  let (cFlag, bFlag, aFlag) := getFlags z
  if !cFlag then throw .value
  let isInfPt := isPointAtInfinity z none
  if bFlag != isInfPt then throw .value
  if isInfPt then
    if aFlag then throw .value
    return Z1
  let x := z % POW_2_381
  if x ≥ blsP then throw .value
  let rhs := (x ^ 3 + (blsB).n) % blsP
  let y := powMod rhs ((blsP + 1) / 4) blsP
  if powMod y 2 blsP ≠ rhs then throw .value
  let y := if (y * 2) / blsP ≠ (if aFlag then 1 else 0) then blsP - y else y
  return (Fq.ofInt x, Fq.ofInt y, Fq.ofInt 1)

def EIGHTH_ROOTS_OF_UNITY : List F2 := blsconst_EIGHTH_ROOTS_OF_UNITY.map f2c

def everyOther {α : Type} : List α → List α
  | [] => []
  | [a] => [a]
  | a :: _ :: rest => a :: everyOther rest

/-- `modular_squareroot_in_FQ2(value)` -/
def modularSquarerootInFq2 (value : F2) : Option F2 :=
  let candidate := value ^ ((blsconst_FQ2_ORDER + 8) / 16)
  let check := candidate ^ 2 / value
  let evens := everyOther EIGHTH_ROOTS_OF_UNITY
  if evens.contains check then
    -- EIGHTH_ROOTS_OF_UNITY.index(check) // 2
    let idx := (EIGHTH_ROOTS_OF_UNITY.findIdx (· == check)) / 2
    let x1 := candidate / (EIGHTH_ROOTS_OF_UNITY.getD idx default)
    let x2 := -x1
    let x1re := getI x1.coeffs 0; let x1im := getI x1.coeffs 1
    let x2re := getI x2.coeffs 0; let x2im := getI x2.coeffs 1
    some (if x1im > x2im ∨ (x1im = x2im ∧ x1re > x2re) then x1 else x2)
  else none

/-- `compress_G2(pt)` -/
def compressG2 (pt : G2Pt) : Except PyErr (Nat × Nat) := do
  if !(Gen.OptBls.is_on_curve pt blsB2) then throw .value
  if Gen.OptBls.is_inf pt then return (POW_2_383 + POW_2_382, 0)
  let (x, y) := Gen.OptBls.normalize pt
  let xre := getI x.coeffs 0; let xim := getI x.coeffs 1
  let yre := getI y.coeffs 0; let yim := getI y.coeffs 1
  let aFlag1 := if yim > 0 then (yim * 2) / (blsP : Int) else (yre * 2) / (blsP : Int)
  let z1 := xim + aFlag1 * POW_2_381 + POW_2_383
  return (z1.toNat, xre.toNat)

/-- `decompress_G2((z1, z2))` -/
def decompressG2 (z1 z2 : Nat) : Except PyErr G2Pt := do
  let (cFlag1, bFlag1, aFlag1) := getFlags z1
  if !cFlag1 then throw .value
  let isInfPt := isPointAtInfinity z1 (some z2)
  if bFlag1 != isInfPt then throw .value
  if isInfPt then
    if aFlag1 then throw .value
    return Z2
  let x1 := z1 % POW_2_381
  if x1 ≥ blsP then throw .value
  if z2 ≥ blsP then throw .value
  let x : F2 := Fqp.ofInts [(z2 : Int), (x1 : Int)]
  match modularSquarerootInFq2 (x ^ 3 + blsB2) with
  | none => throw .value
  | some y =>
    let yre := getI y.coeffs 0; let yim := getI y.coeffs 1
    let a : Int := if aFlag1 then 1 else 0
    let y : F2 :=
      if (yim > 0 ∧ (yim * 2) / (blsP : Int) ≠ a) ∨ (yim = 0 ∧ (yre * 2) / (blsP : Int) ≠ a)
      then Fqp.ofInts (Fqp.mulInt y (-1)).coeffs else y
    let one : F2 := Fqp.ofInts [1, 0]
    if !(Gen.OptBls.is_on_curve (x, y, one) blsB2) then throw .value
    return (x, y, one)

/-- `subgroup_check(P)` -/
def subgroupCheck {F : Type} [Zero F] [One F] [Add F] [Sub F] [Mul F] [Neg F] [Div F] [NatCast F] [Pow F Nat]
    [DecidableEq F] (pt : F × F × F) : Bool :=
  Gen.OptBls.is_inf (Gen.OptBls.multiply pt blsR)

/-- `G1_to_pubkey(pt)` -/
def g1ToPubkey (pt : G1Pt) : Except PyErr Bytes := i2osp (compressG1 pt) 48

/-- `pubkey_to_G1(pubkey)` -/
def pubkeyToG1 (pk : Bytes) : Except PyErr G1Pt := decompressG1 (os2ip pk)

/-- `G2_to_signature(pt)` -/
def g2ToSignature (pt : G2Pt) : Except PyErr Bytes := do
  let (z1, z2) ← compressG2 pt
  let a ← i2osp z1 48
  let b ← i2osp z2 48
  pure (a ++ b)

/-- `signature_to_G2(signature)` -/
def signatureToG2 (sig : Bytes) : Except PyErr G2Pt :=
  decompressG2 (os2ip (sig.take 48)) (os2ip (sig.drop 48))

end PyEcc
