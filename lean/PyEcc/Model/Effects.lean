/-
  PyEcc.Model.Effects — vocabulary of the write-effect summaries that tools/translate/effects.py
  extracts from EVERY function and method of py_ecc (property C20).  Core Lean only.
-/
namespace PyEcc.Effects

/-- where a function may write -/
inductive Target where
  | fresh                  -- a list/bytearray/dict/object created in this activation
  | selfInit               -- `self.x = …` inside `__init__`
  | memo                   -- sanctioned memoisation: `cached_property` getters, the lazy-import cache
  | param (n : String)     -- reachable from a parameter (incl. `self` outside `__init__`)
  | global (n : String)    -- a module-level name / class attribute / `global` declaration / mutable default
  | unknown (d : String)   -- an alias the analysis cannot resolve (conservative)
  deriving DecidableEq, Repr

/-- one record per Python function: qualified name, line, write targets, "every return is fresh/immutable" -/
structure FnEffect where
  name : String
  line : Nat
  writes : List Target
  returnsFresh : Bool
  deriving DecidableEq, Repr

def Target.clean : Target → Bool
  | .fresh | .selfInit | .memo => true
  | _ => false

/-- a function is clean when it writes only to objects it created itself, to the object under
    construction, or to a sanctioned memo slot -/
def FnEffect.clean (f : FnEffect) : Bool := f.writes.all Target.clean

def allClean (fs : List FnEffect) : Bool := fs.all FnEffect.clean

/-- the functions of a program that are NOT clean (what the check reports when the theorem fails) -/
def dirty (fs : List FnEffect) : List String := (fs.filter fun f => !f.clean).map (·.name)

end PyEcc.Effects
