/-
  PyEcc.Model.Curve — the concrete field instantiations of the four curve modules, and the parts of
  the curve modules that are outside the translator subset: `twist` (4 variants),
  `cast_point_to_fq12`, and the typed module constants (built from `Gen.Consts`, i.e. from the
  working tree's own values).
-/
import PyEcc.Model.Fqp
import PyEcc.Gen.Consts
import PyEcc.Gen.OptBls
import PyEcc.Gen.OptBn
import PyEcc.Gen.RefBls
import PyEcc.Gen.RefBn

namespace PyEcc
open Gen.Consts

abbrev blsP : Nat := fields_bls12_381_field_modulus
abbrev bnP : Nat := fields_bn128_field_modulus
abbrev blsMc2 : List Int := fields_bls12_381_fq2_modulus_coeffs
abbrev blsMc12 : List Int := fields_bls12_381_fq12_modulus_coeffs
abbrev bnMc2 : List Int := fields_bn128_fq2_modulus_coeffs
abbrev bnMc12 : List Int := fields_bn128_fq12_modulus_coeffs

instance : NeZero blsP := ⟨by decide⟩
instance : NeZero bnP := ⟨by decide⟩

/-- embed `a + b·i ∈ FQ2` into FQ12 as `(a - k·b)` at position `pos0` and `b` at position `pos1`
    (the "field isomorphism" lines of `twist`; `k = 1` for BLS12-381, `9` for bn128) -/
def embed12 {v : Variant} {p : Nat} {mc2 mc12 : List Int} (k : Int) (pos0 pos1 : Nat)
    (x : Fqp v p mc2) : Fqp v p mc12 :=
  let c0 := getI x.coeffs 0 - getI x.coeffs 1 * k
  let c1 := getI x.coeffs 1
  Fqp.ofInts ((List.range 12).map fun i => if i = pos0 then c0 else if i = pos1 then c1 else 0)

/-- `w = FQ12([0, 1] + [0] * 10)` -/
def wElem {v : Variant} {p : Nat} {mc12 : List Int} : Fqp v p mc12 :=
  Fqp.ofInts (0 :: 1 :: List.replicate 10 0)

/-- `cast_point_to_fq12` coordinate: `FQ12([x.n] + [0] * 11)` -/
def castFq12 {v : Variant} {p : Nat} {mc12 : List Int} (x : Fq p) : Fqp v p mc12 :=
  Fqp.ofInts ((x.n : Int) :: List.replicate 11 0)

section twists
variable {p : Nat} {mc2 mc12 : List Int}

/-- reference bls12_381 `twist`: `(nx / w**2, ny / w**3)` -/
def twistRefBls (pt : Option (Fqp .ref p mc2 × Fqp .ref p mc2)) : Option (Fqp .ref p mc12 × Fqp .ref p mc12) :=
  match pt with
  | none => none
  | some (x, y) =>
    let nx : Fqp .ref p mc12 := embed12 1 0 6 x
    let ny : Fqp .ref p mc12 := embed12 1 0 6 y
    some (nx / (wElem ^ 2), ny / (wElem ^ 3))

/-- reference bn128 `twist`: `(nx * w**2, ny * w**3)` -/
def twistRefBn (pt : Option (Fqp .ref p mc2 × Fqp .ref p mc2)) : Option (Fqp .ref p mc12 × Fqp .ref p mc12) :=
  match pt with
  | none => none
  | some (x, y) =>
    let nx : Fqp .ref p mc12 := embed12 9 0 6 x
    let ny : Fqp .ref p mc12 := embed12 9 0 6 y
    some (nx * (wElem ^ 2), ny * (wElem ^ 3))

/-- optimized bls12_381 `twist`: coefficients placed at shifted positions, no multiplication -/
def twistOptBls (pt : Fqp .opt p mc2 × Fqp .opt p mc2 × Fqp .opt p mc2) :
    Fqp .opt p mc12 × Fqp .opt p mc12 × Fqp .opt p mc12 :=
  let (x, y, z) := pt
  (embed12 1 1 7 x, embed12 1 0 6 y, embed12 1 3 9 z)

/-- optimized bn128 `twist`: `(nx * w**2, ny * w**3, nz)` -/
def twistOptBn (pt : Fqp .opt p mc2 × Fqp .opt p mc2 × Fqp .opt p mc2) :
    Fqp .opt p mc12 × Fqp .opt p mc12 × Fqp .opt p mc12 :=
  let (x, y, z) := pt
  let nx : Fqp .opt p mc12 := embed12 9 0 6 x
  let ny : Fqp .opt p mc12 := embed12 9 0 6 y
  let nz : Fqp .opt p mc12 := embed12 9 0 6 z
  (nx * (wElem ^ 2), ny * (wElem ^ 3), nz)

end twists

/-! ### typed constants -/

def fqOfList {p : Nat} [NeZero p] (l : List Int) : Fq p := Fq.ofInt (getI l 0)

def blsG1 : Fq blsP × Fq blsP × Fq blsP :=
  (Fq.ofInt (getI (optimized_bls12_381_G1.getD 0 []) 0), Fq.ofInt (getI (optimized_bls12_381_G1.getD 1 []) 0),
   Fq.ofInt (getI (optimized_bls12_381_G1.getD 2 []) 0))

def blsG2 : Fqp .opt blsP blsMc2 × Fqp .opt blsP blsMc2 × Fqp .opt blsP blsMc2 :=
  (⟨optimized_bls12_381_G2.getD 0 []⟩, ⟨optimized_bls12_381_G2.getD 1 []⟩, ⟨optimized_bls12_381_G2.getD 2 []⟩)

def blsB : Fq blsP := Fq.ofInt optimized_bls12_381_b
def blsB2 : Fqp .opt blsP blsMc2 := ⟨optimized_bls12_381_b2⟩
def blsR : Nat := optimized_bls12_381_curve_order

end PyEcc
