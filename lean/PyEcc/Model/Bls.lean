/-
  PyEcc.Model.Bls — model of `py_ecc/bls/ciphersuites.py`: the three IETF ciphersuites.

  Same order of checks, same exception kind at the same point, `try/except (ValidationError,
  ValueError, AssertionError)` catches exactly those kinds.  Python-level argument typing is part of
  the model: a secret key is a `PyArg` (an `int`, or something else).
-/
import PyEcc.Model.Codec
import PyEcc.Model.Pairing

namespace PyEcc
open Gen.Consts

/-- a Python value passed where an `int` secret key is expected -/
inductive PyArg where
  | int (z : Int)
  | other
  deriving Repr

inductive Suite where
  | basic | aug | pop
  deriving DecidableEq, Repr

def hexBytes (s : String) : Bytes := (Bytes.ofHex s).getD []

def Suite.dst : Suite → Bytes
  | .basic => hexBytes suites_DST_basic
  | .aug => hexBytes suites_DST_aug
  | .pop => hexBytes suites_DST_pop

def popTag : Bytes := hexBytes suites_POP_TAG

def curveOrder : Nat := suites_curve_order

/-- `_is_valid_privkey` -/
def isValidPrivkey : PyArg → Option Nat
  | .int z => if z > 0 ∧ z < (curveOrder : Int) then some z.toNat else none
  | .other => none

/-- which exception kinds a `try/except (ValidationError, ValueError, AssertionError)` catches -/
def caught3 : PyErr → Bool
  | .validation | .value | .assertion => true
  | _ => false

/-- `except (ValidationError, AssertionError)` (FastAggregateVerify) -/
def caught2 : PyErr → Bool
  | .validation | .assertion => true
  | _ => false

variable (H : HashFn)

/-- `SkToPk(privkey)` -/
def skToPk (sk : PyArg) : Except PyErr Bytes :=
  match isValidPrivkey sk with
  | none => .error .validation
  | some k => g1ToPubkey (Gen.OptBls.multiply blsG1 k)

/-- `KeyGen(IKM, key_info)`; the `while SK == 0` loop is unrolled on a fuel argument -/
def keyGenLoop (ikm keyInfo : Bytes) : Nat → Bytes → Except PyErr Nat
  | 0, _ => .error .other
  | f+1, salt => do
    let salt := H.run salt
    let prk := hkdfExtract H salt (ikm ++ [0])
    let l := suites_keygen_L
    let lb ← i2osp l 2
    let okm ← hkdfExpand H prk (keyInfo ++ lb) l
    let sk := os2ip okm % curveOrder
    if sk = 0 then keyGenLoop ikm keyInfo f salt else pure sk

def keyGen (ikm keyInfo : Bytes) : Except PyErr Nat :=
  keyGenLoop H ikm keyInfo 64 "BLS-SIG-KEYGEN-SALT-".toUTF8.toList

/-- `KeyValidate(PK)` (after the F2 repair: length gate first) -/
def keyValidate (pk : Bytes) : Bool :=
  if pk.length ≠ 48 then false
  else match pubkeyToG1 pk with
    | .error _ => false   -- the model's decompress_G1 raises only ValueError, which the `except` catches
    | .ok pt =>
      if Gen.OptBls.is_inf pt then false
      else if !(subgroupCheck pt) then false
      else true

/-- `_is_valid_pubkey` (the POP suite additionally calls KeyValidate) -/
def isValidPubkey (s : Suite) (pk : Bytes) : Bool :=
  if pk.length ≠ 48 then false
  else match s with
    | .pop => keyValidate pk
    | _ => true

/-- `_CoreSign(SK, message, DST)` -/
def coreSign (sk : PyArg) (msg dst : Bytes) : Except PyErr Bytes :=
  match isValidPrivkey sk with
  | none => .error .validation
  | some k => do
    let mp ← hashToG2 H msg dst
    g2ToSignature (Gen.OptBls.multiply mp k)

/-- the body of the `try` in `_CoreVerify`; also returns the pairing arguments actually used -/
def coreVerifyBody (s : Suite) (pk msg sig dst : Bytes) :
    Except PyErr (Bool × List (G2Pt × G1Pt)) := do
  if !(isValidPubkey s pk) then throw .validation
  if sig.length ≠ 96 then throw .validation
  if !(keyValidate pk) then throw .validation
  let sigPt ← signatureToG2 sig
  if !(subgroupCheck sigPt) then return (false, [])
  let e1 ← pairingOptBls sigPt blsG1 false
  let mp ← hashToG2 H msg dst
  let pkPt ← pubkeyToG1 pk
  let npk := Gen.OptBls.neg pkPt
  let e2 ← pairingOptBls mp npk false
  let fe := finalExponentiateOptBls (e1 * e2)
  return (decide (fe = (1 : OBls12)), [(sigPt, blsG1), (mp, npk)])

/-- outcome of a verification API call: a returned bool, or an exception that escaped -/
inductive Outcome where
  | returned (b : Bool)
  | raised (e : PyErr)
  deriving DecidableEq, Repr

def catching (c : PyErr → Bool) (r : Except PyErr Bool) : Outcome :=
  match r with
  | .ok b => .returned b
  | .error e => if c e then .returned false else .raised e

/-- `_CoreVerify(PK, message, signature, DST)` -/
def coreVerify (s : Suite) (pk msg sig dst : Bytes) : Outcome :=
  catching caught3 ((coreVerifyBody H s pk msg sig dst).map (·.1))

/-- the `for pk, message in zip(PKs, messages)` loop of `_CoreAggregateVerify` -/
def aggLoop (dst : Bytes) : List (Bytes × Bytes) → OBls12 → List (G2Pt × G1Pt) →
    Except PyErr (OBls12 × List (G2Pt × G1Pt))
  | [], acc, tr => .ok (acc, tr)
  | (pk, msg) :: rest, acc, tr => do
    if !(keyValidate pk) then throw .validation
    let pkPt ← pubkeyToG1 pk
    let mp ← hashToG2 H msg dst
    let e ← pairingOptBls mp pkPt false
    aggLoop dst rest (acc * e) (tr ++ [(mp, pkPt)])

def coreAggregateVerifyBody (s : Suite) (pks msgs : List Bytes) (sig dst : Bytes) :
    Except PyErr (Bool × List (G2Pt × G1Pt)) := do
  if !(pks.all (isValidPubkey s)) then throw .validation
  if pks.length ≠ msgs.length then throw .validation
  if sig.length ≠ 96 then throw .validation
  if pks.length < 1 then throw .validation
  let sigPt ← signatureToG2 sig
  if !(subgroupCheck sigPt) then return (false, [])
  let (agg, tr) ← aggLoop H dst (List.zip pks msgs) (1 : OBls12) []
  let nG1 := Gen.OptBls.neg blsG1
  let e ← pairingOptBls sigPt nG1 false
  let fe := finalExponentiateOptBls (agg * e)
  return (decide (fe = (1 : OBls12)), tr ++ [(sigPt, nG1)])

/-- `_CoreAggregateVerify` -/
def coreAggregateVerify (s : Suite) (pks msgs : List Bytes) (sig dst : Bytes) : Outcome :=
  catching caught3 ((coreAggregateVerifyBody H s pks msgs sig dst).map (·.1))

/-- `Sign(SK, message)` per suite -/
def sign (s : Suite) (sk : PyArg) (msg : Bytes) : Except PyErr Bytes :=
  match s with
  | .aug => do
    let pk ← skToPk sk
    coreSign H sk (pk ++ msg) s.dst
  | _ => coreSign H sk msg s.dst

/-- `Verify(PK, message, signature)` per suite -/
def verify (s : Suite) (pk msg sig : Bytes) : Outcome :=
  match s with
  | .aug => coreVerify H s pk (pk ++ msg) sig s.dst
  | _ => coreVerify H s pk msg sig s.dst

/-- `Aggregate(signatures)` -/
def aggregate (sigs : List Bytes) : Except PyErr Bytes := do
  if sigs.length < 1 then throw .validation
  if !(sigs.all (·.length = 96)) then throw .validation
  let agg ← sigs.foldlM (fun acc sg => do
    let pt ← signatureToG2 sg
    pure (Gen.OptBls.add acc pt)) Z2
  g2ToSignature agg

def hasDup : List Bytes → Bool
  | [] => false
  | x :: xs => xs.contains x || hasDup xs

/-- `AggregateVerify(PKs, messages, signature)` per suite -/
def aggregateVerify (s : Suite) (pks msgs : List Bytes) (sig : Bytes) : Outcome :=
  match s with
  | .basic =>
    if hasDup msgs then .returned false
    else coreAggregateVerify H s pks msgs sig s.dst
  | .aug =>
    if pks.length ≠ msgs.length then .returned false
    else coreAggregateVerify H s pks (List.zipWith (· ++ ·) pks msgs) sig s.dst
  | .pop => coreAggregateVerify H s pks msgs sig s.dst

/-- `PopProve(SK)` -/
def popProve (sk : PyArg) : Except PyErr Bytes := do
  let pk ← skToPk sk
  coreSign H sk pk popTag

/-- `PopVerify(PK, proof)` -/
def popVerify (pk proof : Bytes) : Outcome :=
  coreVerify H .pop pk pk proof popTag

/-- `_AggregatePKs(PKs)` -/
def aggregatePKs (pks : List Bytes) : Except PyErr Bytes := do
  if pks.length < 1 then throw .validation
  let agg ← pks.foldlM (fun acc pk => do
    let pt ← pubkeyToG1 pk
    pure (Gen.OptBls.add acc pt)) Z1
  g1ToPubkey agg

/-- `FastAggregateVerify(PKs, message, signature)` (POP suite) -/
def fastAggregateVerify (pks : List Bytes) (msg sig : Bytes) : Outcome :=
  let pre : Except PyErr Bytes := do
    if !(pks.all (isValidPubkey .pop)) then throw .validation
    if sig.length ≠ 96 then throw .validation
    if pks.length < 1 then throw .validation
    aggregatePKs pks
  match pre with
  | .error e => if caught2 e then .returned false else .raised e
  | .ok apk => verify H .pop apk msg sig

end PyEcc
