/-
  PyEcc.Model.Fq — model of `py_ecc.fields.field_elements.FQ` and
  `py_ecc.fields.optimized_field_elements.FQ` (the two classes are line-for-line the same apart from
  `sgn0`) and of `py_ecc.utils.prime_field_inv`.
-/
import PyEcc.Model.Basic

namespace PyEcc

/-- The `while low > 1` loop of `prime_field_inv` (and of `secp256k1.inv`): state `(lm, low, hm, high)`.
    `low` strictly decreases, so `low.toNat` is enough fuel. -/
def invLoop : Nat → Int → Int → Int → Int → Int
  | 0, lm, _, _, _ => lm
  | f+1, lm, low, hm, high =>
    if low > 1 then
      let r := high / low
      invLoop f (hm - lm * r) (high - low * r) lm low
    else lm

/-- `py_ecc.utils.prime_field_inv(a, n)` for `n > 0` -/
def primeFieldInv (a : Int) (n : Int) : Int :=
  let a := a % n
  if a = 0 then 0
  else (invLoop a.toNat 1 (a % n) 0 n) % n

/-- An `FQ` object: the attribute `n`, which the constructor always reduces into `[0, p)`. -/
structure Fq (p : Nat) where
  n : Nat
  lt : n < p
  deriving DecidableEq, Repr

namespace Fq
variable {p : Nat}

theorem pos (a : Fq p) : 0 < p := Nat.lt_of_le_of_lt (Nat.zero_le _) a.lt

/-- `FQ(val)` for an `int` -/
def ofInt [NeZero p] (z : Int) : Fq p := ⟨pmod z p, pmod_lt z (Nat.pos_of_ne_zero (NeZero.ne p))⟩

@[ext] theorem ext {a b : Fq p} (h : a.n = b.n) : a = b := by
  cases a; cases b; simp_all

variable [NeZero p]

def add (a b : Fq p) : Fq p := ofInt ((a.n : Int) + b.n)
def mul (a b : Fq p) : Fq p := ofInt ((a.n : Int) * b.n)
def sub (a b : Fq p) : Fq p := ofInt ((a.n : Int) - b.n)
def neg (a : Fq p) : Fq p := ofInt (-(a.n : Int))
/-- `__truediv__`: `self.n * prime_field_inv(on, p) % p` (so `x / 0 = 0`) -/
def div (a b : Fq p) : Fq p := ofInt ((a.n : Int) * primeFieldInv b.n p)
def inv (a : Fq p) : Fq p := ofInt (primeFieldInv a.n p)

-- integer operands (`FQ op int`, `int op FQ`): the raw int enters the expression unreduced
def addInt (a : Fq p) (k : Int) : Fq p := ofInt ((a.n : Int) + k)
def mulInt (a : Fq p) (k : Int) : Fq p := ofInt ((a.n : Int) * k)
def subInt (a : Fq p) (k : Int) : Fq p := ofInt ((a.n : Int) - k)
def rsubInt (a : Fq p) (k : Int) : Fq p := ofInt (k - (a.n : Int))
def divInt (a : Fq p) (k : Int) : Fq p := ofInt ((a.n : Int) * primeFieldInv k p)
def rdivInt (a : Fq p) (k : Int) : Fq p := ofInt (primeFieldInv a.n p * k)
/-- `FQ == int` compares the stored residue with the raw int -/
def eqInt (a : Fq p) (k : Int) : Bool := (a.n : Int) == k
def ltInt (a : Fq p) (k : Int) : Bool := decide ((a.n : Int) < k)

/-- `__pow__` after the F1 repair: `o = 1; t = self; while other > 0: if other & 1: o = o*t; other >>= 1; t = t*t`.
    Fuel `e` is more than enough (`e` halves each round). Non-positive exponents give `1`. -/
def powAux : Nat → Fq p → Fq p → Nat → Fq p
  | 0, o, _, _ => o
  | f+1, o, t, e =>
    if e = 0 then o
    else powAux f (if e % 2 = 1 then mul o t else o) (mul t t) (e / 2)

def pow (a : Fq p) (e : Nat) : Fq p := powAux e (ofInt 1) a e

/-- optimized `FQ.sgn0` -/
def sgn0 (a : Fq p) : Nat := a.n % 2

instance : Zero (Fq p) := ⟨ofInt 0⟩
instance : One (Fq p) := ⟨ofInt 1⟩
instance : Add (Fq p) := ⟨add⟩
instance : Mul (Fq p) := ⟨mul⟩
instance : Sub (Fq p) := ⟨sub⟩
instance : Neg (Fq p) := ⟨neg⟩
instance : Div (Fq p) := ⟨div⟩
instance : NatCast (Fq p) := ⟨fun k => ofInt k⟩
instance : IntCast (Fq p) := ⟨ofInt⟩
instance : Pow (Fq p) Nat := ⟨pow⟩
instance : Inhabited (Fq p) := ⟨ofInt 0⟩

end Fq
end PyEcc
