/-
  PyEcc.Model.Basic — shared vocabulary of the executable model.
  No imports outside core Lean (the driver is a compiled executable).
-/
namespace PyEcc

/-- The kinds of Python exception the modelled code can raise.  `try/except (A, B, C)` in the
    implementation catches exactly the kinds it lists; everything else propagates. -/
inductive PyErr where
  | value        -- ValueError
  | validation   -- eth_utils.ValidationError
  | type         -- TypeError
  | overflow     -- OverflowError (int.to_bytes)
  | assertion    -- AssertionError
  | other        -- bare Exception(...)
  deriving DecidableEq, Repr, Inhabited

def PyErr.name : PyErr → String
  | .value => "ValueError" | .validation => "ValidationError" | .type => "TypeError"
  | .overflow => "OverflowError" | .assertion => "AssertionError" | .other => "Exception"

abbrev PyM := Except PyErr

abbrev Bytes := List UInt8

/-- Python `%` for a positive modulus (Lean's `Int.emod` agrees with Python's floor-mod whenever the
    modulus is positive, which holds at every use in py_ecc). -/
@[inline] def pmod (a : Int) (m : Nat) : Nat := (a % (m : Int)).toNat

theorem pmod_lt (a : Int) {m : Nat} (h : 0 < m) : pmod a m < m := by
  unfold pmod
  have hm : (0 : Int) < (m : Int) := Int.ofNat_lt.mpr h
  have h1 : a % (m : Int) < (m : Int) := Int.emod_lt_of_pos a hm
  exact (Int.toNat_lt' h).mpr h1

/-- `pow(b, e, m)` for natural `b`, `e`; square-and-multiply on a fuel argument (`e` itself is
    enough fuel), so the kernel can evaluate it on 381-bit numbers. -/
def powModAux (m : Nat) : Nat → Nat → Nat → Nat → Nat
  | 0, _, _, acc => acc
  | f+1, b, e, acc =>
    if e = 0 then acc
    else powModAux m f (b * b % m) (e / 2) (if e % 2 = 1 then acc * b % m else acc)

def powMod (b e m : Nat) : Nat := powModAux m e (b % m) e (1 % m)

/-- Python `a ^ b` for non-negative ints (the only use is on parities) -/
def pyXor (a b : Int) : Int := ((a.toNat ^^^ b.toNat : Nat) : Int)

/-- `int.from_bytes(x, "big")` -/
def os2ip (x : Bytes) : Nat := x.foldl (fun acc b => acc * 256 + b.toNat) 0

/-- big-endian digits of `x`, exactly `len` of them (most significant first), ignoring overflow -/
def toBytesBE : Nat → Nat → Bytes
  | 0, _ => []
  | len+1, x => toBytesBE len (x / 256) ++ [UInt8.ofNat (x % 256)]

/-- `x.to_bytes(xlen, "big")`: OverflowError when `x` does not fit -/
def i2osp (x : Nat) (xlen : Nat) : PyM Bytes :=
  if x < 256 ^ xlen then .ok (toBytesBE xlen x) else .error .overflow

def hexDigit (n : Nat) : Char :=
  if n < 10 then Char.ofNat (48 + n) else Char.ofNat (87 + n)

def Bytes.toHex (b : Bytes) : String :=
  String.ofList (b.foldr (fun x acc => hexDigit (x.toNat / 16) :: hexDigit (x.toNat % 16) :: acc) [])

def hexVal (c : Char) : Option Nat :=
  if '0' ≤ c ∧ c ≤ '9' then some (c.toNat - 48)
  else if 'a' ≤ c ∧ c ≤ 'f' then some (c.toNat - 87)
  else if 'A' ≤ c ∧ c ≤ 'F' then some (c.toNat - 55)
  else none

def Bytes.ofHexChars : List Char → Option Bytes
  | [] => some []
  | [_] => none
  | a :: b :: rest => do
    let x ← hexVal a
    let y ← hexVal b
    let r ← Bytes.ofHexChars rest
    pure (UInt8.ofNat (x * 16 + y) :: r)

def Bytes.ofHex (s : String) : Option Bytes := Bytes.ofHexChars s.toList

end PyEcc
