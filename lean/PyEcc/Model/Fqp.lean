/-
  PyEcc.Model.Fqp — model of the polynomial extension classes `FQP` / `FQ2` / `FQ12`:
  `py_ecc.fields.field_elements` (variant `ref`, coefficients are `FQ` objects) and
  `py_ecc.fields.optimized_field_elements` (variant `opt`, coefficients are plain ints), and of
  `py_ecc.utils.deg` / `poly_rounded_div`.

  An element is the list of its integer coefficients.  Loops are modelled literally (index updates
  on a list, the same iteration order, reductions `% p` at the places the code has them), because
  the correspondence check compares this model with the classes on every run, including
  instantiations with small primes and arbitrary moduli.
-/
import PyEcc.Model.Fq

namespace PyEcc

inductive Variant where
  | ref | opt
  deriving DecidableEq, Repr

/-- `l[i] = f(l[i])` -/
def updAt : List Int → Nat → (Int → Int) → List Int
  | [], _, _ => []
  | x :: xs, 0, f => f x :: xs
  | x :: xs, i+1, f => x :: updAt xs i f

@[simp] theorem length_updAt (l : List Int) (i : Nat) (f : Int → Int) : (updAt l i f).length = l.length := by
  induction l generalizing i with
  | nil => rfl
  | cons x xs ih => cases i <;> simp [updAt, ih]

def getI (l : List Int) (i : Nat) : Int := l.getD i 0

/-- `py_ecc.utils.deg`: `d = len(p) - 1; while p[d] == 0 and d: d -= 1` -/
def degAux (p : List Int) : Nat → Nat
  | 0 => 0
  | d+1 => if getI p (d+1) = 0 then degAux p d else d+1

def deg (p : List Int) : Nat := degAux p (p.length - 1)

/-- `range(hi, -1, -1)` as a list: `hi, hi-1, …, 0` -/
def downTo (hi : Nat) : List Nat := (List.range (hi + 1)).reverse

/-- An element of `FQP`: coefficient list (lowest degree first).  `p` is `field_modulus`, `mc` the
    modulus coefficients without the leading 1 (raw Python ints, possibly negative). -/
structure Fqp (v : Variant) (p : Nat) (mc : List Int) where
  coeffs : List Int
  deriving DecidableEq, Repr

namespace Fqp
variable {v : Variant} {p : Nat} {mc : List Int}

def degree (_ : Fqp v p mc) : Nat := mc.length

/-- constructor from a list of ints: every coefficient is reduced (`FQ(c)` resp. `coeff % p`) -/
def ofInts (cs : List Int) : Fqp v p mc := ⟨cs.map (fun c => c % (p : Int))⟩

def zero : Fqp v p mc := ofInts (List.replicate mc.length 0)
def one : Fqp v p mc := ofInts (1 :: List.replicate (mc.length - 1) 0)
def ofIntScalar (k : Int) : Fqp v p mc := ofInts (k :: List.replicate (mc.length - 1) 0)

def add (a b : Fqp v p mc) : Fqp v p mc := ofInts (List.zipWith (· + ·) a.coeffs b.coeffs)
def sub (a b : Fqp v p mc) : Fqp v p mc := ofInts (List.zipWith (· - ·) a.coeffs b.coeffs)
def neg (a : Fqp v p mc) : Fqp v p mc := ofInts (a.coeffs.map (fun c => -c))
def mulInt (a : Fqp v p mc) (k : Int) : Fqp v p mc := ofInts (a.coeffs.map (fun c => c * k))
def divInt (a : Fqp v p mc) (k : Int) : Fqp v p mc :=
  ofInts (a.coeffs.map (fun c => c * primeFieldInv k p))

/-- the double loop `b[i + j] += a[i] * b[j]`; `red` is applied after every update
    (`% p` in the reference class where the entries are FQ objects, identity in the optimized one) -/
def convLoop (red : Int → Int) (a b : List Int) (d : Nat) : List Int :=
  (List.range d).foldl (fun acc i =>
    (List.range d).foldl (fun acc j =>
      updAt acc (i + j) (fun x => red (x + red (getI a i * getI b j)))) acc)
    (List.replicate (d * 2 - 1) 0)

/-- reference reduction: `while len(b) > d: exp, top = len(b) - d - 1, b.pop();
    for i in range(d): b[exp + i] -= top * FQ(mc[i])` — fuel = number of pops -/
def refReduce (p : Nat) (mc : List Int) (d : Nat) : Nat → List Int → List Int
  | 0, b => b
  | f+1, b =>
    if b.length > d then
      let exp := b.length - d - 1
      let top := b.getLast?.getD 0
      let b := b.dropLast
      let b := (List.range d).foldl (fun acc i =>
        updAt acc (exp + i) (fun x => (x - (top * (getI mc i % (p : Int))) % (p : Int)) % (p : Int))) b
      refReduce p mc d f b
    else b

/-- optimized reduction: `for exp in range(d - 2, -1, -1): top = b.pop();
    for i, c in mc_tuples: b[exp + i] -= top * c` with `mc_tuples = [(i, c) for i, c in enumerate(mc) if c]` -/
def optReduce (mc : List Int) (d : Nat) (b : List Int) : List Int :=
  let mcTuples := (List.zip (List.range mc.length) mc).filter (fun ic => ic.2 ≠ 0)
  (if d < 2 then [] else downTo (d - 2)).foldl (fun b exp =>
    let top := b.getLast?.getD 0
    let b := b.dropLast
    mcTuples.foldl (fun acc ic => updAt acc (exp + ic.1) (fun x => x - top * ic.2)) b) b

def mul (a b : Fqp v p mc) : Fqp v p mc :=
  let d := mc.length
  match v with
  | .ref =>
    let c := convLoop (fun x => x % (p : Int)) a.coeffs b.coeffs d
    ofInts (refReduce p mc d d c)
  | .opt =>
    let c := convLoop id a.coeffs b.coeffs d
    ofInts (optReduce mc d c)

/-- iterative `__pow__` (both variants after the F1 repair) -/
def powAux : Nat → Fqp v p mc → Fqp v p mc → Nat → Fqp v p mc
  | 0, o, _, _ => o
  | f+1, o, t, e =>
    if e = 0 then o
    else powAux f (if e % 2 = 1 then mul o t else o) (mul t t) (e / 2)

def pow (a : Fqp v p mc) (e : Nat) : Fqp v p mc := powAux e one a e

/-- `poly_rounded_div(a, b)` (reference) and `optimized_poly_rounded_div` (optimized).  Note that the
    inner update is `temp[c + i] -= o[c]` as in the source: this is *not* polynomial long division;
    only the leading quotient coefficient is meaningful. The model mirrors the source. -/
def polyRoundedDiv (v : Variant) (p : Nat) (a b : List Int) : List Int :=
  let dega := deg a
  let degb := deg b
  let n := a.length
  let step := fun (st : List Int × List Int) (i : Nat) =>
    let (temp, o) := st
    let q := match v with
      | .ref => (getI temp (degb + i) * primeFieldInv (getI b degb) p) % (p : Int)
      | .opt => getI temp (degb + i) * primeFieldInv (getI b degb) p
    let o := updAt o i (fun x => x + q)
    let temp := (List.range (degb + 1)).foldl (fun t c => updAt t (c + i) (fun x => x - getI o c)) temp
    (temp, o)
  let (_, o) := (if dega < degb then [] else downTo (dega - degb)).foldl step (a, List.replicate n 0)
  match v with
  | .ref => o.take (deg o + 1)
  | .opt => (o.take (deg o + 1)).map (fun x => x % (p : Int))

/-- the `while deg(low)` loop of `FQP.inv`; state `(lm, low, hm, high)`; fuel bounds the number of
    rounds (each round lowers `deg low + deg high` at least every second time) -/
def invLoopP (v : Variant) (p : Nat) (d : Nat) : Nat → List Int → List Int → List Int → List Int →
    List Int × List Int
  | 0, lm, low, _, _ => (lm, low)
  | f+1, lm, low, hm, high =>
    if deg low ≠ 0 then
      let r := polyRoundedDiv v p high low
      let r := r ++ List.replicate (d + 1 - r.length) 0
      let body := fun (st : List Int × List Int) (i : Nat) =>
        (List.range (d + 1 - i)).foldl (fun (st : List Int × List Int) j =>
          let (nm, new) := st
          match v with
          | .ref =>
            (updAt nm (i + j) (fun x => x - getI lm i * getI r j),
             updAt new (i + j) (fun x => (x - (getI low i * getI r j) % (p : Int)) % (p : Int)))
          | .opt =>
            (updAt nm (i + j) (fun x => x - getI lm i * getI r j),
             updAt new (i + j) (fun x => x - getI low i * getI r j))) st
      let (nm, new) := (List.range (d + 1)).foldl body (hm, high)
      let (nm, new) := match v with
        | .ref => (nm, new)
        | .opt => (nm.map (fun x => x % (p : Int)), new.map (fun x => x % (p : Int)))
      invLoopP v p d f nm new lm low
    else (lm, low)

def inv (a : Fqp v p mc) : Fqp v p mc :=
  let d := mc.length
  let lm := 1 :: List.replicate d 0
  let hm := List.replicate (d + 1) 0
  let low := a.coeffs ++ [0]
  let high := mc ++ [1]
  let (lm, low) := invLoopP v p d (4 * d + 4) lm low hm high
  divInt (ofInts (lm.take d)) (getI low 0)

def div (a b : Fqp v p mc) : Fqp v p mc := mul a (inv b)

/-- `__eq__`: `zip` comparison (stops at the shorter list) -/
def beq (a b : Fqp v p mc) : Bool := (List.zip a.coeffs b.coeffs).all (fun xy => xy.1 == xy.2)

/-- optimized generic `FQP.sgn0` (the loop) -/
def sgn0 (a : Fqp v p mc) : Nat :=
  let (sign, _) := a.coeffs.foldl (fun (st : Nat × Bool) (x : Int) =>
    let (sign, zero) := st
    let sign_i := (x % 2).toNat
    let zero_i := x == 0
    (if sign ≠ 0 then sign else if zero then sign_i else 0, zero && zero_i)) (0, true)
  sign

/-- optimized `FQ2.sgn0` (the m = 2 special case) -/
def sgn0_fq2 (a : Fqp v p mc) : Nat :=
  let x0 := getI a.coeffs 0
  let x1 := getI a.coeffs 1
  let sign0 := (x0 % 2).toNat
  if sign0 ≠ 0 then sign0 else if x0 == 0 then (x1 % 2).toNat else 0

instance : Zero (Fqp v p mc) := ⟨zero⟩
instance : One (Fqp v p mc) := ⟨one⟩
instance : Add (Fqp v p mc) := ⟨add⟩
instance : Mul (Fqp v p mc) := ⟨mul⟩
instance : Sub (Fqp v p mc) := ⟨sub⟩
instance : Neg (Fqp v p mc) := ⟨neg⟩
instance : Div (Fqp v p mc) := ⟨div⟩
instance : NatCast (Fqp v p mc) := ⟨fun k => ofIntScalar k⟩
instance : IntCast (Fqp v p mc) := ⟨ofIntScalar⟩
instance : Pow (Fqp v p mc) Nat := ⟨pow⟩
instance : Inhabited (Fqp v p mc) := ⟨zero⟩

end Fqp
end PyEcc
