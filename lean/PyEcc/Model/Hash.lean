/-
  PyEcc.Model.Hash — model of `py_ecc/bls/hash.py` and of the hashing half of
  `py_ecc/bls/hash_to_curve.py`.

  Hash functions are a parameter `H : HashFn` (what `hashlib` does is not modelled; see DESIGN §3.8).
  For the driver there are two instances: a native SHA-256 (FIPS 180-4, validated against `hashlib`
  on every correspondence run) and a finite transcript recorded from the implementation's own calls.
  HMAC is *defined* from `H` following RFC 2104, as `hmac.new(key, msg, H).digest()` is.
-/
import PyEcc.Model.Basic

namespace PyEcc

structure HashFn where
  digestSize : Nat
  blockSize : Nat
  run : Bytes → Bytes

/-! ### SHA-256 (FIPS 180-4) -/
namespace Sha256

def K : Array UInt32 := #[
  0x428a2f98, 0x71374491, 0xb5c0fbcf, 0xe9b5dba5, 0x3956c25b, 0x59f111f1, 0x923f82a4, 0xab1c5ed5,
  0xd807aa98, 0x12835b01, 0x243185be, 0x550c7dc3, 0x72be5d74, 0x80deb1fe, 0x9bdc06a7, 0xc19bf174,
  0xe49b69c1, 0xefbe4786, 0x0fc19dc6, 0x240ca1cc, 0x2de92c6f, 0x4a7484aa, 0x5cb0a9dc, 0x76f988da,
  0x983e5152, 0xa831c66d, 0xb00327c8, 0xbf597fc7, 0xc6e00bf3, 0xd5a79147, 0x06ca6351, 0x14292967,
  0x27b70a85, 0x2e1b2138, 0x4d2c6dfc, 0x53380d13, 0x650a7354, 0x766a0abb, 0x81c2c92e, 0x92722c85,
  0xa2bfe8a1, 0xa81a664b, 0xc24b8b70, 0xc76c51a3, 0xd192e819, 0xd6990624, 0xf40e3585, 0x106aa070,
  0x19a4c116, 0x1e376c08, 0x2748774c, 0x34b0bcb5, 0x391c0cb3, 0x4ed8aa4a, 0x5b9cca4f, 0x682e6ff3,
  0x748f82ee, 0x78a5636f, 0x84c87814, 0x8cc70208, 0x90befffa, 0xa4506ceb, 0xbef9a3f7, 0xc67178f2]

def H0 : Array UInt32 := #[0x6a09e667, 0xbb67ae85, 0x3c6ef372, 0xa54ff53a, 0x510e527f, 0x9b05688c, 0x1f83d9ab, 0x5be0cd19]

@[inline] def rotr (x : UInt32) (n : UInt32) : UInt32 := (x >>> n) ||| (x <<< (32 - n))

def pad (msg : Bytes) : Bytes :=
  let l := msg.length
  let k := (119 - l % 64) % 64   -- number of zero bytes so that total ≡ 0 (mod 64)
  msg ++ [0x80] ++ List.replicate k 0 ++ toBytesBE 8 (l * 8)

def wordsOf : Bytes → List UInt32
  | a :: b :: c :: d :: rest =>
    ((a.toUInt32 <<< 24) ||| (b.toUInt32 <<< 16) ||| (c.toUInt32 <<< 8) ||| d.toUInt32) :: wordsOf rest
  | _ => []

def schedule (block : Array UInt32) : Array UInt32 := Id.run do
  let mut w := block
  for i in [16:64] do
    let w15 := w[i - 15]!
    let w2 := w[i - 2]!
    let s0 := rotr w15 7 ^^^ rotr w15 18 ^^^ (w15 >>> 3)
    let s1 := rotr w2 17 ^^^ rotr w2 19 ^^^ (w2 >>> 10)
    w := w.push (w[i - 16]! + s0 + w[i - 7]! + s1)
  return w

def compress (h : Array UInt32) (block : Array UInt32) : Array UInt32 := Id.run do
  let w := schedule block
  let mut a := h[0]!; let mut b := h[1]!; let mut c := h[2]!; let mut d := h[3]!
  let mut e := h[4]!; let mut f := h[5]!; let mut g := h[6]!; let mut hh := h[7]!
  for i in [0:64] do
    let S1 := rotr e 6 ^^^ rotr e 11 ^^^ rotr e 25
    let ch := (e &&& f) ^^^ ((~~~ e) &&& g)
    let t1 := hh + S1 + ch + K[i]! + w[i]!
    let S0 := rotr a 2 ^^^ rotr a 13 ^^^ rotr a 22
    let maj := (a &&& b) ^^^ (a &&& c) ^^^ (b &&& c)
    let t2 := S0 + maj
    hh := g; g := f; f := e; e := d + t1; d := c; c := b; b := a; a := t1 + t2
  return #[h[0]! + a, h[1]! + b, h[2]! + c, h[3]! + d, h[4]! + e, h[5]! + f, h[6]! + g, h[7]! + hh]

partial def blocks (ws : List UInt32) : List (Array UInt32) :=
  if ws.isEmpty then [] else (ws.take 16).toArray :: blocks (ws.drop 16)

def word2bytes (w : UInt32) : Bytes :=
  [(w >>> 24).toUInt8, (w >>> 16).toUInt8, (w >>> 8).toUInt8, w.toUInt8]

def hash (msg : Bytes) : Bytes :=
  let h := (blocks (wordsOf (pad msg))).foldl compress H0
  h.toList.flatMap word2bytes

end Sha256

def sha256Fn : HashFn := { digestSize := 32, blockSize := 64, run := Sha256.hash }

/-- A hash function given by a finite transcript of (input, digest) pairs, as recorded from the
    implementation's own calls.  A query outside the transcript yields the empty digest, which can
    never agree with the implementation (digest sizes are positive): "the code hashed other bytes". -/
def transcriptFn (ds bs : Nat) (tr : List (Bytes × Bytes)) : HashFn :=
  { digestSize := ds, blockSize := bs,
    run := fun x => match tr.find? (fun io => io.1 == x) with
      | some io => io.2
      | none => [] }

def xorBytes (a b : Bytes) : Bytes := List.zipWith (· ^^^ ·) a b

/-- RFC 2104 HMAC, which is what `hmac.new(key, msg, H).digest()` computes -/
def hmac (H : HashFn) (key msg : Bytes) : Bytes :=
  let key := if key.length > H.blockSize then H.run key else key
  let key := key ++ List.replicate (H.blockSize - key.length) 0
  let ipad := key.map (· ^^^ 0x36)
  let opad := key.map (· ^^^ 0x5c)
  H.run (opad ++ H.run (ipad ++ msg))

/-- `hkdf_extract(salt, ikm)` -/
def hkdfExtract (H : HashFn) (salt ikm : Bytes) : Bytes := hmac H salt ikm

/-- exact `math.ceil(a / b)` for the non-negative ints that reach it (validated exhaustively against
    the float expression over the whole accepted range by the C15/C16 correspondence checks) -/
def ceilDiv (a b : Nat) : Nat := (a + b - 1) / b

/-- the loop of `hkdf_expand`: `for i in range(0, n): text = previous + info + bytes([i + 1]); ...`.
    `bytes([256])` raises ValueError. -/
def hkdfExpandLoop (H : HashFn) (prk info : Bytes) : Nat → Nat → Bytes → Bytes → PyM Bytes
  | 0, _, _, okm => .ok okm
  | k+1, i, previous, okm =>
    if i + 1 > 255 then .error .value
    else
      let text := previous ++ info ++ [UInt8.ofNat (i + 1)]
      let previous := hmac H prk text
      hkdfExpandLoop H prk info k (i + 1) previous (okm ++ previous)

/-- `hkdf_expand(prk, info, length)` (HMAC-SHA256 in the implementation: digest size 32 is hard-coded
    in `n = ceil(length / 32)`) -/
def hkdfExpand (H : HashFn) (prk info : Bytes) (length : Nat) : PyM Bytes := do
  let n := ceilDiv length 32
  let okm ← hkdfExpandLoop H prk info n 0 [] []
  pure (okm.take length)

/-- the `for i in range(2, ell + 1)` loop of `expand_message_xmd`; `bs` is the list `b` (in order) -/
def xmdLoop (H : HashFn) (b0 dstPrime : Bytes) : Nat → Nat → List Bytes → PyM (List Bytes)
  | 0, _, bs => .ok bs
  | k+1, i, bs => do
    let prev := (bs[i - 2]?).getD []
    let ib ← i2osp i 1
    let bi := H.run (xorBytes b0 prev ++ ib ++ dstPrime)
    xmdLoop H b0 dstPrime k (i + 1) (bs ++ [bi])

/-- `expand_message_xmd(msg, DST, len_in_bytes, hash_function)` -/
def expandMessageXmd (H : HashFn) (msg dst : Bytes) (lenInBytes : Nat) : PyM Bytes := do
  let bInBytes := H.digestSize
  let rInBytes := H.blockSize
  if dst.length > 255 then throw .value
  let ell := ceilDiv lenInBytes bInBytes
  if ell > 255 then throw .value
  let dstLen ← i2osp dst.length 1
  let dstPrime := dst ++ dstLen
  let zPad := List.replicate rInBytes (0 : UInt8)
  let lib ← i2osp lenInBytes 2
  let b0 := H.run (zPad ++ msg ++ lib ++ [0] ++ dstPrime)
  let b1 := H.run (b0 ++ [1] ++ dstPrime)
  let bs ← xmdLoop H b0 dstPrime (ell + 1 - 2) 2 [b1]
  pure (bs.flatten.take lenInBytes)

/-- `hash_to_field_FQ2(message, count, DST, hash_function)`: list of (c0, c1) pairs, reduced mod p -/
def hashToFieldFq2 (H : HashFn) (p : Nat) (msg : Bytes) (count : Nat) (dst : Bytes) : PyM (List (Nat × Nat)) := do
  let L := 64
  let prb ← expandMessageXmd H msg dst (count * 2 * L)
  pure ((List.range count).map fun i =>
    let e := fun j => os2ip ((prb.drop (L * (j + i * 2))).take L) % p
    (e 0, e 1))

/-- `hash_to_field_FQ(message, count, DST, hash_function)` -/
def hashToFieldFq (H : HashFn) (p : Nat) (msg : Bytes) (count : Nat) (dst : Bytes) : PyM (List Nat) := do
  let L := 64
  let prb ← expandMessageXmd H msg dst (count * 1 * L)
  pure ((List.range count).map fun i => os2ip ((prb.drop (L * (i * 1))).take L) % p)

end PyEcc
