/-
  PyEcc.Sem.SecpSem — helpers for reasoning about the generated secp256k1 code (`PyEcc.Gen.Secp`) in the
  prime field `ZMod P`: the `Int → ZMod P` cast discharges the `% P` reductions, reduced residues compare
  equal as ints iff they are equal in the field, and the hypothesis `InvSpec` on the modular inverse.
-/
import Mathlib.Data.ZMod.Basic
import Mathlib.Algebra.Field.ZMod
import Mathlib.Tactic.Ring
import Mathlib.Tactic.FieldSimp
import Mathlib.Tactic.LinearCombination
import Mathlib.Tactic.NormNum
import PyEcc.Sem.Primes

namespace PyEcc.SecpSem
open PyEcc.Gen.Consts

/-- the base field of secp256k1 -/
abbrev Fp : Type := ZMod secp256k1_P

/-- the generated modulus (a Python int) is the proved-prime natural number -/
theorem P_eq : Gen.Secp.P = ((secp256k1_P : ℕ) : ℤ) := by decide

theorem N_eq : Gen.Secp.N = ((secp256k1_N : ℕ) : ℤ) := by decide

theorem P_pos : 0 < Gen.Secp.P := by decide

/-- `% P` disappears under the cast to the field -/
@[simp, push_cast] theorem cast_mod_P (a : ℤ) : ((a % Gen.Secp.P : ℤ) : Fp) = (a : Fp) := by
  rw [P_eq]; exact ZMod.intCast_mod a _

theorem cast_P : ((Gen.Secp.P : ℤ) : Fp) = 0 := by
  rw [P_eq]; simp

/-- two ints are equal in the field iff they have the same residue -/
theorem cast_eq_iff (a b : ℤ) : (a : Fp) = (b : Fp) ↔ a % Gen.Secp.P = b % Gen.Secp.P := by
  rw [P_eq]; exact ZMod.intCast_eq_intCast_iff' a b _

theorem cast_eq_zero_iff (a : ℤ) : (a : Fp) = 0 ↔ a % Gen.Secp.P = 0 := by
  have := cast_eq_iff a 0
  simpa using this

/-- a reduced int is zero in the field only if it is the int `0` -/
theorem eq_zero_of_cast_eq_zero {a : ℤ} (h0 : 0 ≤ a) (hP : a < Gen.Secp.P) (h : (a : Fp) = 0) : a = 0 := by
  have := (cast_eq_zero_iff a).mp h
  rwa [Int.emod_eq_of_lt h0 hP] at this

theorem mod_nonneg (a : ℤ) : 0 ≤ a % Gen.Secp.P := Int.emod_nonneg _ (by decide)
theorem mod_lt (a : ℤ) : a % Gen.Secp.P < Gen.Secp.P := Int.emod_lt_of_pos _ P_pos

/-- `((a : Fp).val : ℤ) = a % P` -/
theorem val_cast (a : ℤ) : (((a : Fp).val : ℕ) : ℤ) = a % Gen.Secp.P := by
  rw [P_eq]; exact ZMod.val_intCast a

theorem fp_two_ne_zero : (2 : Fp) ≠ 0 := by
  have h : ((2 : ℕ) : Fp) ≠ 0 := by
    rw [Ne, ZMod.natCast_eq_zero_iff]; decide
  exact_mod_cast h

theorem fp_three_ne_zero : (3 : Fp) ≠ 0 := by
  have h : ((3 : ℕ) : Fp) ≠ 0 := by
    rw [Ne, ZMod.natCast_eq_zero_iff]; decide
  exact_mod_cast h

/-- Correctness of the extended-Euclid inverse `inv(a, P)` on reduced arguments (to be discharged by
`PyEcc/Sem/InvLoop.lean`). NOTE: for `a` a NON-ZERO multiple of `P` the Python function returns `1`, not `0`,
so the statement is restricted to `0 ≤ a < P`. -/
def InvSpec : Prop :=
  ∀ a : ℤ, 0 ≤ a → a < Gen.Secp.P → ((Gen.Secp.inv a Gen.Secp.P : ℤ) : Fp) = ((a : ℤ) : Fp)⁻¹

theorem inv_zero : Gen.Secp.inv 0 Gen.Secp.P = 0 := rfl

/-- `inv(a, P)` depends on a non-multiple `a` of `P` only through `a % P` -/
theorem inv_mod {a : ℤ} (h : (a : Fp) ≠ 0) :
    Gen.Secp.inv a Gen.Secp.P = Gen.Secp.inv (a % Gen.Secp.P) Gen.Secp.P := by
  have ha : a ≠ 0 := by rintro rfl; exact h (by simp)
  have ha' : a % Gen.Secp.P ≠ 0 := fun h' => h ((cast_eq_zero_iff a).mpr h')
  unfold Gen.Secp.inv
  rw [if_neg ha, if_neg ha', Int.emod_emod_of_dvd _ (dvd_refl _)]

/-- `InvSpec` extended to every int that is `0` or a unit mod `P` -/
theorem InvSpec.general (hinv : InvSpec) (a : ℤ) (h : a = 0 ∨ (a : Fp) ≠ 0) :
    ((Gen.Secp.inv a Gen.Secp.P : ℤ) : Fp) = (a : Fp)⁻¹ := by
  rcases h with rfl | h
  · simp [inv_zero]
  · rw [inv_mod h, hinv _ (mod_nonneg a) (mod_lt a), cast_mod_P]

/-! ### Jacobian triples of Python ints read in the field -/
open PyEcc.Gen.Secp (P)

/-- affine `x` read off a Jacobian triple of Python ints: `x / z²` in `ZMod P` -/
def affX (T : ℤ × ℤ × ℤ) : Fp := (T.1 : Fp) / (T.2.2 : Fp) ^ 2
/-- affine `y` read off a Jacobian triple of Python ints: `y / z³` in `ZMod P` -/
def affY (T : ℤ × ℤ × ℤ) : Fp := (T.2.1 : Fp) / (T.2.2 : Fp) ^ 3

/-- all three coordinates are reduced residues in `[0, P)` -/
def Reduced (T : ℤ × ℤ × ℤ) : Prop :=
  (0 ≤ T.1 ∧ T.1 < P) ∧ (0 ≤ T.2.1 ∧ T.2.1 < P) ∧ (0 ≤ T.2.2 ∧ T.2.2 < P)

/-- the branch tests `U1 == U2`, `S1 != S2` of `jacobian_add` compare reduced residues, hence are equalities
in `ZMod P` -/
theorem mod_eq_iff (a b : ℤ) : a % P = b % P ↔ (a : Fp) = (b : Fp) := (cast_eq_iff a b).symm

/-- with `z₁, z₂ ≢ 0`: `U1 = U2 ↔ X₁ = X₂` -/
theorem U_eq_iff (x1 y1 z1 x2 y2 z2 : ℤ) (hz1 : (z1 : Fp) ≠ 0) (hz2 : (z2 : Fp) ≠ 0) :
    (x1 : Fp) * (z2 : Fp) ^ 2 = (x2 : Fp) * (z1 : Fp) ^ 2 ↔ affX (x1, y1, z1) = affX (x2, y2, z2) := by
  simp only [affX]
  rw [div_eq_div_iff (pow_ne_zero 2 hz1) (pow_ne_zero 2 hz2)]

/-- with `z₁, z₂ ≢ 0`: `S1 = S2 ↔ Y₁ = Y₂` -/
theorem S_eq_iff (x1 y1 z1 x2 y2 z2 : ℤ) (hz1 : (z1 : Fp) ≠ 0) (hz2 : (z2 : Fp) ≠ 0) :
    (y1 : Fp) * (z2 : Fp) ^ 3 = (y2 : Fp) * (z1 : Fp) ^ 3 ↔ affY (x1, y1, z1) = affY (x2, y2, z2) := by
  simp only [affY]
  rw [div_eq_div_iff (pow_ne_zero 3 hz1) (pow_ne_zero 3 hz2)]

/-- `p'` is the rescaling `(l²x, l³y, l·z)` (mod `P`) of `p`, with the same int identity marker -/
structure Scaled (l : Fp) (p p' : ℤ × ℤ × ℤ) : Prop where
  x : (p'.1 : Fp) = l ^ 2 * (p.1 : Fp)
  y : (p'.2.1 : Fp) = l ^ 3 * (p.2.1 : Fp)
  z : (p'.2.2 : Fp) = l * (p.2.2 : Fp)
  marker : p'.2.1 = 0 ↔ p.2.1 = 0

/-- `z` is the int `0` or a unit mod `P` (true of every reduced triple) -/
def ZOk (T : ℤ × ℤ × ℤ) : Prop := T.2.2 = 0 ∨ (T.2.2 : Fp) ≠ 0

theorem Reduced.zok {T : ℤ × ℤ × ℤ} (h : Reduced T) : ZOk T := by
  by_cases hz : (T.2.2 : Fp) = 0
  · exact Or.inl (eq_zero_of_cast_eq_zero h.2.2.1 h.2.2.2 hz)
  · exact Or.inr hz

theorem Scaled.refl (p : ℤ × ℤ × ℤ) : Scaled 1 p p := ⟨by simp, by simp, by simp, Iff.rfl⟩

/-- for reduced results, agreement of `y` mod `P` up to a unit gives agreement of the int markers -/
theorem marker_of_reduced {T T' : ℤ × ℤ × ℤ} (h : Reduced T) (h' : Reduced T') {k : Fp} (hk : k ≠ 0)
    (hy : (T'.2.1 : Fp) = k * (T.2.1 : Fp)) : T'.2.1 = 0 ↔ T.2.1 = 0 := by
  constructor
  · intro e
    apply eq_zero_of_cast_eq_zero h.2.1.1 h.2.1.2
    rw [e] at hy
    have : k * (T.2.1 : Fp) = 0 := by rw [← hy]; simp
    exact (mul_eq_zero.mp this).resolve_left hk
  · intro e
    apply eq_zero_of_cast_eq_zero h'.2.1.1 h'.2.1.2
    rw [hy, e]; simp

end PyEcc.SecpSem
