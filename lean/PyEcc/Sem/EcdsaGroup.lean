/-
  PyEcc.Sem.EcdsaGroup — group-theoretic helpers for C06/C19 (built on C18: the generated secp256k1 code is
  Mathlib's group `E(F_P)` of prime order `N`):
   * `E(F_P)` as a vector space over the scalar field `Fn = ZMod N`, so that `s⁻¹`, `r⁻¹` make sense on points;
   * `c • G = 0 ↔ c = 0`;
   * the arithmetic tail of `ecdsa_raw_recover` (`recoverCore`) computes `r⁻¹ • (s • R − z • G)`;
   * `recover_of_point`: `ecdsa_raw_recover` on `(v, r, s)` when a curve point with `x = r` and the parity of `v`
     is known;
   * textbook ECDSA verification `Verifies` (SEC 1 §4.1.4) over the Mathlib group.
-/
import PyEcc.Props.C18
import PyEcc.Sem.EcdsaSem
import Mathlib.Algebra.Module.ZMod

namespace PyEcc.EcdsaSem
open WeierstrassCurve PyEcc PyEcc.Gen.Secp PyEcc.SecpSem PyEcc.Gen.Consts PyEcc.Ecdsa

/-- the scalar field of secp256k1 -/
abbrev Fn : Type := ZMod secp256k1_N

/-- `E(F_P)` is killed by the prime `N` (C18), hence a vector space over `ZMod N` -/
noncomputable instance instModuleFn : Module Fn E.Point := AddCommGroup.zmodModule C18.N_smul_eq_zero

theorem cast_smul (n : ℤ) (Q : E.Point) : ((n : ℤ) : Fn) • Q = n • Q := Int.cast_smul_eq_zsmul Fn n Q

theorem cast_N : ((N : ℤ) : Fn) = 0 := by
  rw [N_eq]; simp

theorem cast_mod_N (a : ℤ) : ((a % N : ℤ) : Fn) = (a : Fn) := by
  rw [N_eq]; exact ZMod.intCast_mod a _

theorem castN_eq_zero_iff (a : ℤ) : (a : Fn) = 0 ↔ a % N = 0 := by
  rw [N_eq, ZMod.intCast_zmod_eq_zero_iff_dvd]
  exact ⟨Int.emod_eq_zero_of_dvd, Int.dvd_of_emod_eq_zero⟩

theorem castN_eq_iff (a b : ℤ) : (a : Fn) = (b : Fn) ↔ a % N = b % N := by
  rw [N_eq]; exact ZMod.intCast_eq_intCast_iff' a b _

/-- the `ℕ`-multiples produced by the double-and-add refinement, as `Fn`-multiples -/
theorem toNat_mod_nsmul (n : ℤ) (Q : E.Point) : (n % N).toNat • Q = (n : Fn) • Q := by
  have h0 : 0 ≤ n % N := Int.emod_nonneg _ (by decide)
  rw [← cast_mod_N, cast_smul, ← natCast_zsmul, Int.toNat_of_nonneg h0]

/-- `inv(a, N)` is the inverse in the scalar field for every int `a ≢ 0 (mod N)` -/
theorem inv_N_cast (a : ℤ) (ha : a % N ≠ 0) : ((inv a N : ℤ) : Fn) = (a : Fn)⁻¹ := by
  rw [N_eq] at ha ⊢
  exact Gen.Secp.inv_spec prime_secpN a (Or.inr ha)

theorem fn_two_ne_zero : (2 : Fn) ≠ 0 := by
  have h : ((2 : ℕ) : Fn) ≠ 0 := by
    rw [Ne, ZMod.natCast_eq_zero_iff]; decide
  exact_mod_cast h

/-- `G` has order `N`: a scalar kills `G` only if it is `0` in `ZMod N` -/
theorem smul_Gpt_eq_zero_iff (c : Fn) : c • Gpt = 0 ↔ c = 0 := by
  constructor
  · intro h
    have hc : ((c.val : ℕ) : Fn) = c := ZMod.natCast_zmod_val c
    rw [← hc, Nat.cast_smul_eq_nsmul] at h
    have hdvd := addOrderOf_dvd_of_nsmul_eq_zero h
    rw [C18.addOrderOf_eq_N Gpt C18.G_ne_zero] at hdvd
    have hlt : c.val < secp256k1_N := ZMod.val_lt c
    have : c.val = 0 := Nat.eq_zero_of_dvd_of_lt hdvd hlt
    exact (ZMod.val_eq_zero c).mp this
  · rintro rfl; exact zero_smul Fn Gpt

theorem smul_Gpt_inj {c c' : Fn} (h : c • Gpt = c' • Gpt) : c = c' := by
  have : (c - c') • Gpt = 0 := by rw [sub_smul, h, sub_self]
  exact sub_eq_zero.mp ((smul_Gpt_eq_zero_iff _).mp this)

/-! ### the arithmetic tail of `ecdsa_raw_recover` -/

theorem jrep_G : JRep (Gx, Gy, 1) Gpt := by
  have h := jrep_to_jacobian Gpt
  rw [reprSecp_Gpt] at h
  exact h

/-- a reduced affine pair `(x, y, 1)` on the curve represents its point -/
theorem jrep_affine {x y : ℤ} {X Y : Fp} (hns : E.Nonsingular X Y) (hx : (x : Fp) = X) (hy : (y : Fp) = Y) :
    JRep (x, y, 1) (.some X Y hns) := by
  refine ⟨by simp, ?_, ?_⟩
  · simp [affX, hx]
  · simp [affY, hy]

/-- **the tail of `ecdsa_raw_recover` computes `r⁻¹ • (s • R − z • G)`** for every point `R` represented by the
lifted pair `(x, y, 1)`, every `s`, every hash, and every `r ≢ 0 (mod N)` -/
theorem recoverCore_refines (h : Bytes) (x y r s : ℤ) (R : E.Point) (hR : JRep (x, y, 1) R) (hr : r % N ≠ 0) :
    recoverCore h x y r s =
      .ok (reprSecp ((r : Fn)⁻¹ • ((s : Fn) • R - ((bytesToInt h : ℤ) : Fn) • Gpt))) := by
  obtain ⟨Gz, h1, r1⟩ := jrep_multiply (Gx, Gy, 1) Gpt ((N - bytesToInt h) % N) jrep_G
  obtain ⟨XY, h2, r2⟩ := jrep_multiply (x, y, 1) R s hR
  have r3 := jrep_add r1 r2
  obtain ⟨Q, h3, r4⟩ := jrep_multiply (jacobian_add Gz XY) _ (inv r N) r3
  rw [recoverCore_of_ok h1 h2 h3, jrep_from_jacobian r4]
  congr 2
  rw [toNat_mod_nsmul, toNat_mod_nsmul, toNat_mod_nsmul, inv_N_cast r hr, cast_mod_N]
  push_cast
  rw [cast_N, zero_sub, neg_smul]
  congr 1
  abel

/-! ### `ecdsa_raw_recover` when a point above `r` is known -/

theorem val_range (Y : Fp) : 0 ≤ ((Y.val : ℕ) : ℤ) ∧ ((Y.val : ℕ) : ℤ) < P := by
  refine ⟨Int.natCast_nonneg _, ?_⟩
  rw [P_eq]; exact_mod_cast ZMod.val_lt Y

/-- If `R = (X, Y)` is a curve point with `X ≡ r (mod P)` and `Y` (as a residue in `[0, P)`) has the parity encoded
by `v ∈ {27, 28}`, and `r, s ≢ 0 (mod N)`, then `ecdsa_raw_recover(h, (v, r, s))` returns (the representation of)
`r⁻¹ • (s • R − z • G)`. -/
theorem recover_of_point (h : Bytes) (v r s : ℤ) (hv : v = 27 ∨ v = 28) (hr : r % N ≠ 0) (hs : s % N ≠ 0)
    {X Y : Fp} (hns : E.Nonsingular X Y) (hX : (r : Fp) = X) (hpar : ((Y.val : ℕ) : ℤ) % 2 = (v - 27) % 2) :
    ecdsaRawRecover h v r s =
      .ok (reprSecp ((r : Fn)⁻¹ • ((s : Fn) • (Affine.Point.some X Y hns) - ((bytesToInt h : ℤ) : Fn) • Gpt))) := by
  have heq := (equation_E X Y).mp hns.1
  have hY0 : Y ≠ 0 := y_ne_zero hns
  have hyr := val_range Y
  have hypos : 0 < ((Y.val : ℕ) : ℤ) := by
    rcases hyr.1.lt_or_eq with h' | h'
    · exact h'
    · exact absurd (val_int_eq_zero h'.symm) hY0
  have hsq : ((((Y.val : ℕ) : ℤ)) : Fp) ^ 2 = (r : Fp) ^ 3 + ((B : ℤ) : Fp) := by
    rw [val_cast_cast, hX]; exact heq
  have hl : ((Y.val : ℕ) : ℤ) = liftY v r := liftY_unique hv ⟨hypos, hyr.2⟩ hsq hpar
  have hgood : ¬ RecoverBad v r s := by
    rintro (hc | hr' | hs')
    · refine (check_iff_field v r).mp hc ?_
      rw [← hl]; exact hsq
    · exact hr hr'
    · exact hs hs'
  rw [ecdsaRawRecover_eq, if_neg (not_not.mpr hv), if_neg hgood]
  exact recoverCore_refines h r (liftY v r) r s _
    (jrep_affine hns hX (by rw [← hl]; exact val_cast_cast Y)) hr

/-- the mirror image `−R = (X, −Y)` has the other parity -/
theorem neg_val_parity {Y : Fp} (hY : Y ≠ 0) : (((-Y).val : ℕ) : ℤ) % 2 = 1 - ((Y.val : ℕ) : ℤ) % 2 := by
  have : Fact (secp256k1_P).Prime := ⟨prime_secpP⟩
  have hne : NeZero Y := ⟨hY⟩
  rw [ZMod.val_neg_of_ne_zero]
  have hlt : Y.val < secp256k1_P := ZMod.val_lt Y
  have hodd : secp256k1_P % 2 = 1 := by decide
  rw [Nat.cast_sub hlt.le]
  omega

/-! ### textbook verification -/

/-- **ECDSA verification** (SEC 1 v2 §4.1.4, with `e = z` the integer of the message hash), read over the Mathlib
group: `r, s ≢ 0 (mod N)`, and for an inverse `w` of `s` modulo `N`, `u₁ = z·w`, `u₂ = r·w`, the point
`u₁ • G + u₂ • Q` is not the identity and its `x`-coordinate (as an int in `[0, P)`) is `≡ r (mod N)`. -/
def Verifies (z r s : ℤ) (Q : E.Point) : Prop :=
  r % N ≠ 0 ∧ s % N ≠ 0 ∧ ∃ w : ℤ, (w * s) % N = 1 ∧
    ∃ (X Y : Fp) (hns : E.Nonsingular X Y), (z * w) • Gpt + (r * w) • Q = Affine.Point.some X Y hns ∧
      ((X.val : ℕ) : ℤ) % N = r % N

/-- if `s • R = z • G + r • Q` for a point `R = (X, Y)` with `X.val ≡ r (mod N)`, the signature `(r, s)` verifies
for `Q` -/
theorem verifies_of_eq {z r s : ℤ} {Q : E.Point} (hr : r % N ≠ 0) (hs : s % N ≠ 0) {X Y : Fp}
    (hns : E.Nonsingular X Y) (hx : ((X.val : ℕ) : ℤ) % N = r % N)
    (he : (s : Fn) • (Affine.Point.some X Y hns) = (z : Fn) • Gpt + (r : Fn) • Q) : Verifies z r s Q := by
  have hs' : (s : Fn) ≠ 0 := fun h => hs ((castN_eq_zero_iff s).mp h)
  have hw : ((inv s N : ℤ) : Fn) = (s : Fn)⁻¹ := inv_N_cast s hs
  refine ⟨hr, hs, inv s N, ?_, X, Y, hns, ?_, hx⟩
  · have h1 : (((inv s N * s : ℤ)) : Fn) = ((1 : ℤ) : Fn) := by
      push_cast; rw [hw, inv_mul_cancel₀ hs']
    have := (castN_eq_iff _ _).mp h1
    rw [this]; decide
  · rw [← cast_smul, ← cast_smul]
    push_cast
    have key : (s : Fn)⁻¹ • ((z : Fn) • Gpt + (r : Fn) • Q) = Affine.Point.some X Y hns := by
      rw [← he, smul_smul, inv_mul_cancel₀ hs', one_smul]
    rw [smul_add] at key
    rw [hw, mul_comm (z : Fn), mul_comm (r : Fn), mul_smul, mul_smul]
    exact key

end PyEcc.EcdsaSem
