/-
  PyEcc.Sem.FqpFq2 — the FQ2 modulus `X² + 1` (`modulus_coeffs = (1, 0)`) is irreducible over `ZMod p`
  for every prime `p ≡ 3 (mod 4)`; so `FQ2.inv` is covered by `toQ_inv_mul`.
-/
import PyEcc.Sem.FqpInv
import Mathlib.NumberTheory.LegendreSymbol.Basic
import Mathlib.Algebra.Polynomial.SpecificDegree

namespace PyEcc.FqpSem
open Polynomial PyEcc.Fqp

variable {p : ℕ}

theorem modulus_fq2 : modulus p [1, 0] = X ^ 2 + 1 := by simp [modulus]

theorem irreducible_modulus_fq2 [Fact p.Prime] (h : p % 4 = 3) : Irreducible (modulus p [1, 0]) := by
  rw [modulus_fq2]
  apply irreducible_of_degree_le_three_of_not_isRoot
  · have : (X ^ 2 + 1 : (ZMod p)[X]).natDegree = 2 := by
      rw [← C_1]; exact natDegree_X_pow_add_C
    rw [this]; decide
  · intro x hx
    simp only [IsRoot, eval_add, eval_pow, eval_X, eval_one] at hx
    have : IsSquare (-1 : ZMod p) := ⟨x, by linear_combination (-1 : ZMod p) * hx⟩
    exact (ZMod.exists_sq_eq_neg_one_iff.mp this) h

theorem sane_fq2 [Fact p.Prime] : Sane p [1, 0] := by
  intro i hi
  match i with
  | 0 => simp at hi
  | 1 => rfl
  | (n + 2) => rfl

end PyEcc.FqpSem
