/-
  PyEcc.Sem.FqpInvAux — list-level lemmas for the `FQP.inv` loop: `deg`, `poly_rounded_div`
  (only its leading coefficient is meaningful), the truncated double loop
  `for i in range(d+1): for j in range(d+1-i): nm[i+j] -= lm[i]*r[j]`.
-/
import PyEcc.Sem.FqpQuot
import PyEcc.Sem.InvLoop

namespace PyEcc.FqpSem
open Polynomial PyEcc.Fqp

variable {p : ℕ}

/-! ### `getI`, `updAt` -/

theorem getI_updAt (l : List Int) (i : Nat) (f : Int → Int) (j : Nat) :
    getI (updAt l i f) j = if j = i ∧ i < l.length then f (getI l i) else getI l j := by
  induction l generalizing i j with
  | nil => simp [updAt]
  | cons x xs ih =>
    cases i with
    | zero =>
      cases j with
      | zero => simp [updAt]
      | succ j => simp [updAt]
    | succ i =>
      cases j with
      | zero => simp [updAt]
      | succ j => simp [updAt, ih]

theorem getI_updAt_ne (l : List Int) (i : Nat) (f : Int → Int) (j : Nat) (h : j ≠ i) :
    getI (updAt l i f) j = getI l j := by
  rw [getI_updAt, if_neg (by tauto)]

theorem getI_updAt_self (l : List Int) (i : Nat) (f : Int → Int) (h : i < l.length) :
    getI (updAt l i f) i = f (getI l i) := by
  rw [getI_updAt, if_pos ⟨rfl, h⟩]

theorem getI_replicate_zero (n i : Nat) : getI (List.replicate n 0) i = 0 := by
  unfold getI
  rw [List.getD_eq_getElem?_getD]
  by_cases h : i < n
  · simp [h]
  · simp [h]

theorem getI_map_mod (l : List Int) (i : Nat) :
    getI (l.map (fun c => c % (p : Int))) i = getI l i % (p : Int) := by
  unfold getI
  rw [List.getD_eq_getElem?_getD, List.getD_eq_getElem?_getD, List.getElem?_map]
  cases l[i]? <;> simp

theorem getI_take (l : List Int) (n i : Nat) : getI (l.take n) i = if i < n then getI l i else 0 := by
  unfold getI
  rw [List.getD_eq_getElem?_getD, List.getD_eq_getElem?_getD, List.getElem?_take]
  split <;> simp

theorem getI_append_replicate_zero (l : List Int) (n i : Nat) :
    getI (l ++ List.replicate n 0) i = getI l i := by
  unfold getI
  rw [List.getD_eq_getElem?_getD, List.getD_eq_getElem?_getD, List.getElem?_append]
  split
  · rfl
  · rename_i h
    rw [List.getElem?_eq_none (Nat.le_of_not_lt h)]
    simp [List.getElem?_replicate]
    split <;> simp

/-! ### sane lists: every entry is `0` or not divisible by `p`, so `== 0` on raw ints is `= 0` in
`ZMod p` -/

/-- every entry is `0` or not divisible by `p` -/
def Sane (p : ℕ) (l : List Int) : Prop := ∀ i, ((getI l i : ℤ) : ZMod p) = 0 → getI l i = 0

theorem sane_of_range {x : Int} (h0 : 0 ≤ x) (h1 : x < (p : Int)) (h : ((x : ℤ) : ZMod p) = 0) :
    x = 0 := by
  rw [ZMod.intCast_zmod_eq_zero_iff_dvd] at h
  exact Int.eq_zero_of_dvd_of_nonneg_of_lt h0 h1 h

theorem sane_mod (hp : 0 < p) (x : Int) (h : (((x % (p : Int)) : ℤ) : ZMod p) = 0) :
    x % (p : Int) = 0 := by
  have : (0 : Int) < p := by exact_mod_cast hp
  exact sane_of_range (Int.emod_nonneg _ this.ne') (Int.emod_lt_of_pos _ this) h

theorem sane_map_mod (hp : 0 < p) (l : List Int) : Sane p (l.map (fun c => c % (p : Int))) := by
  intro i h
  rw [getI_map_mod] at h ⊢
  exact sane_mod hp _ h

theorem sane_of_canonL {d : ℕ} {l : List Int} (h : CanonL p d l) : Sane p l := by
  intro i hi
  by_cases hlt : i < l.length
  · have hm : getI l i ∈ l := by
      unfold getI
      rw [List.getD_eq_getElem?_getD, List.getElem?_eq_getElem hlt]
      exact List.getElem_mem hlt
    exact sane_of_range (h.2 _ hm).1 (h.2 _ hm).2 hi
  · exact getI_of_le l i (Nat.le_of_not_lt hlt)

/-- decidable sufficient condition: all entries are smaller than `p` in absolute value -/
theorem sane_of_natAbs_lt {l : List Int} (h : ∀ c ∈ l, c.natAbs < p) : Sane p l := by
  intro i hi
  by_cases hlt : i < l.length
  · have hm : getI l i ∈ l := by
      unfold getI
      rw [List.getD_eq_getElem?_getD, List.getElem?_eq_getElem hlt]
      exact List.getElem_mem hlt
    rw [ZMod.intCast_zmod_eq_zero_iff_dvd] at hi
    apply Int.eq_zero_of_abs_lt_dvd hi
    have := h _ hm
    rw [Int.abs_eq_natAbs]
    exact_mod_cast this
  · exact getI_of_le l i (Nat.le_of_not_lt hlt)

theorem sane_updAt {l : List Int} (hl : Sane p l) (i : Nat) (f : Int → Int)
    (hf : ∀ x, ((f x : ℤ) : ZMod p) = 0 → f x = 0) : Sane p (updAt l i f) := by
  intro j hj
  rw [getI_updAt] at hj ⊢
  split
  · rename_i h; rw [if_pos h] at hj; exact hf _ hj
  · rename_i h; rw [if_neg h] at hj; exact hl j hj

theorem sane_append_replicate_zero {l : List Int} (hl : Sane p l) (n : Nat) :
    Sane p (l ++ List.replicate n 0) := by
  intro i hi
  rw [getI_append_replicate_zero] at hi ⊢
  exact hl i hi

/-! ### `deg` -/

theorem degAux_spec (l : List Int) : ∀ n, degAux l n ≤ n ∧
    (∀ j, degAux l n < j → j ≤ n → getI l j = 0) ∧ (degAux l n ≠ 0 → getI l (degAux l n) ≠ 0) := by
  intro n
  induction n with
  | zero => simp [degAux]; omega
  | succ n ih =>
    unfold degAux
    by_cases h : getI l (n + 1) = 0
    · rw [if_pos h]
      refine ⟨by omega, ?_, ih.2.2⟩
      intro j h1 h2
      by_cases hj : j = n + 1
      · rw [hj]; exact h
      · exact ih.2.1 j h1 (by omega)
    · rw [if_neg h]
      exact ⟨le_rfl, fun j h1 h2 => by omega, fun _ => h⟩

theorem deg_le (l : List Int) : deg l ≤ l.length - 1 := (degAux_spec l _).1

theorem getI_of_deg_lt (l : List Int) (j : Nat) (h : deg l < j) : getI l j = 0 := by
  by_cases hj : j ≤ l.length - 1
  · exact (degAux_spec l _).2.1 j h hj
  · exact getI_of_le l j (by omega)

theorem getI_deg_ne_zero (l : List Int) (h : deg l ≠ 0) : getI l (deg l) ≠ 0 :=
  (degAux_spec l _).2.2 h

theorem deg_unique (l : List Int) (k : Nat) (h2 : ∀ j, k < j → getI l j = 0)
    (h3 : k ≠ 0 → getI l k ≠ 0) : deg l = k := by
  rcases Nat.lt_trichotomy (deg l) k with h | h | h
  · exact absurd (getI_of_deg_lt l k h) (h3 (by omega))
  · exact h
  · exact absurd (h2 _ h) (getI_deg_ne_zero l (by omega))

theorem natDegree_ev_eq_deg {l : List Int} (hl : Sane p l) : (ev p l).natDegree = deg l := by
  apply le_antisymm
  · rw [natDegree_le_iff_coeff_eq_zero]
    intro N hN
    rw [coeff_ev, getI_of_deg_lt l N hN]; simp
  · by_cases h : deg l = 0
    · omega
    · apply le_natDegree_of_ne_zero
      rw [coeff_ev]
      exact fun h0 => getI_deg_ne_zero l h (hl _ h0)

theorem leadingCoeff_ev {l : List Int} (hl : Sane p l) :
    (ev p l).leadingCoeff = ((getI l (deg l) : ℤ) : ZMod p) := by
  rw [leadingCoeff, natDegree_ev_eq_deg hl, coeff_ev]

theorem mem_downTo (n j : Nat) : j ∈ downTo n ↔ j ≤ n := by
  simp [downTo, List.mem_range]

theorem downTo_eq_cons (n : Nat) : ∃ t, downTo n = n :: t ∧ ∀ j ∈ t, j < n := by
  cases n with
  | zero => exact ⟨[], rfl, by simp⟩
  | succ n =>
    refine ⟨downTo n, downTo_succ n, ?_⟩
    intro j hj
    rw [mem_downTo] at hj; omega


/-! ### `poly_rounded_div`: only the top coefficient of the result is meaningful -/

/-- the "quotient digit" computed in round `i` -/
def prdQ (v : Variant) (p : Nat) (b temp : List Int) (i : Nat) : Int :=
  match v with
  | .ref => (getI temp (deg b + i) * primeFieldInv (getI b (deg b)) p) % (p : Int)
  | .opt => getI temp (deg b + i) * primeFieldInv (getI b (deg b)) p

/-- one round of the loop of `poly_rounded_div` on the state `(temp, o)` -/
def prdStep (v : Variant) (p : Nat) (b : List Int) (st : List Int × List Int) (i : Nat) :
    List Int × List Int :=
  ((List.range (deg b + 1)).foldl (fun t c => updAt t (c + i)
      (fun x => x - getI (updAt st.2 i (fun x => x + prdQ v p b st.1 i)) c)) st.1,
   updAt st.2 i (fun x => x + prdQ v p b st.1 i))

theorem polyRoundedDiv_eq (v : Variant) (a b : List Int) :
    polyRoundedDiv v p a b =
      match v with
      | .ref => (((if deg a < deg b then [] else downTo (deg a - deg b)).foldl (prdStep v p b)
          (a, List.replicate a.length 0)).2).take
            (deg ((if deg a < deg b then [] else downTo (deg a - deg b)).foldl (prdStep v p b)
              (a, List.replicate a.length 0)).2 + 1)
      | .opt => ((((if deg a < deg b then [] else downTo (deg a - deg b)).foldl (prdStep v p b)
          (a, List.replicate a.length 0)).2).take
            (deg ((if deg a < deg b then [] else downTo (deg a - deg b)).foldl (prdStep v p b)
              (a, List.replicate a.length 0)).2 + 1)).map (fun x => x % (p : Int)) := by
  cases v <;> rfl


theorem prd_foldl_snd (v : Variant) (b : List Int) (is : List Nat) (st : List Int × List Int) :
    (is.foldl (prdStep v p b) st).2.length = st.2.length ∧
    ∀ k, k ∉ is → getI (is.foldl (prdStep v p b) st).2 k = getI st.2 k := by
  induction is generalizing st with
  | nil => simp
  | cons i is ih =>
    obtain ⟨h1, h2⟩ := ih (prdStep v p b st i)
    rw [List.foldl_cons]
    refine ⟨by rw [h1]; simp [prdStep], ?_⟩
    intro k hk
    rw [List.mem_cons, not_or] at hk
    rw [h2 k hk.2]
    simp only [prdStep]
    exact getI_updAt_ne _ _ _ _ hk.1

theorem deg_replicate_zero (n : Nat) : deg (List.replicate n 0) = 0 :=
  deg_unique _ 0 (fun j _ => getI_replicate_zero n j) (fun h => absurd rfl h)

/-- `deg a < deg b`: the loop body never runs and the result is `[0]` -/
theorem polyRoundedDiv_lt (v : Variant) (a b : List Int) (ha : a ≠ []) (h : deg a < deg b) :
    polyRoundedDiv v p a b = [0] := by
  rw [polyRoundedDiv_eq]
  obtain ⟨x, xs, rfl⟩ := List.exists_cons_of_ne_nil ha
  have hd : deg (0 :: List.replicate xs.length 0) = 0 := deg_replicate_zero (xs.length + 1)
  cases v <;> simp [h, hd, List.replicate_succ]

/-- `deg a ≥ deg b`: the result has exactly `deg a - deg b + 1` entries and its top entry is
    `lc(a) / lc(b)` modulo `p` -/
theorem polyRoundedDiv_ge (hp : p.Prime) (v : Variant) (a b : List Int) (hab : deg b ≤ deg a)
    (ha : ((getI a (deg a) : ℤ) : ZMod p) ≠ 0) (hb : ((getI b (deg b) : ℤ) : ZMod p) ≠ 0) :
    (polyRoundedDiv v p a b).length = deg a - deg b + 1 ∧
    ((getI (polyRoundedDiv v p a b) (deg a - deg b) : ℤ) : ZMod p) =
      ((getI a (deg a) : ℤ) : ZMod p) * (((getI b (deg b) : ℤ) : ZMod p))⁻¹ := by
  have : Fact p.Prime := ⟨hp⟩
  have hane : a ≠ [] := by rintro rfl; simp [getI_nil] at ha
  have hlen : deg a - deg b + 1 ≤ a.length := by
    have := deg_le a
    have : 0 < a.length := List.length_pos_iff.mpr hane
    omega
  obtain ⟨t, ht, hlt⟩ := downTo_eq_cons (deg a - deg b)
  set o := ((if deg a < deg b then [] else downTo (deg a - deg b)).foldl (prdStep v p b)
          (a, List.replicate a.length 0)).2 with ho
  have hfold : o = (t.foldl (prdStep v p b)
      (prdStep v p b (a, List.replicate a.length 0) (deg a - deg b))).2 := by
    rw [ho, if_neg (by omega), ht, List.foldl_cons]
  obtain ⟨h1, h2⟩ := prd_foldl_snd (p := p) v b t
    (prdStep v p b (a, List.replicate a.length 0) (deg a - deg b))
  have holen : o.length = a.length := by rw [hfold, h1]; simp [prdStep]
  have hq : (prdQ v p b a (deg a - deg b) : ZMod p) =
      ((getI a (deg a) : ℤ) : ZMod p) * (((getI b (deg b) : ℤ) : ZMod p))⁻¹ := by
    have hidx : deg b + (deg a - deg b) = deg a := by omega
    cases v <;> simp [prdQ, hidx, ZMod.intCast_mod, FqSem.primeFieldInv_spec hp]
  have hqne : (prdQ v p b a (deg a - deg b) : ZMod p) ≠ 0 := by
    rw [hq]; exact mul_ne_zero ha (inv_ne_zero hb)
  have hotop : getI o (deg a - deg b) = prdQ v p b a (deg a - deg b) := by
    rw [hfold, h2 _ (fun hm => absurd (hlt _ hm) (lt_irrefl _))]
    simp only [prdStep]
    rw [getI_updAt_self _ _ _ (by simp; omega), getI_replicate_zero, zero_add]
  have hoabove : ∀ k, deg a - deg b < k → getI o k = 0 := by
    intro k hk
    rw [hfold, h2 _ (fun hm => by have := hlt _ hm; omega)]
    simp only [prdStep]
    rw [getI_updAt_ne _ _ _ _ (by omega), getI_replicate_zero]
  have hdego : deg o = deg a - deg b := by
    apply deg_unique _ _ hoabove
    intro _ h0
    rw [hotop] at h0
    rw [h0] at hqne
    exact hqne (by simp)
  rw [polyRoundedDiv_eq]
  cases v
  · simp only
    rw [← ho, hdego]
    refine ⟨by rw [List.length_take, holen]; omega, ?_⟩
    rw [getI_take, if_pos (by omega), hotop, hq]
  · simp only
    rw [← ho, hdego]
    refine ⟨by rw [List.length_map, List.length_take, holen]; omega, ?_⟩
    rw [getI_map_mod, ZMod.intCast_mod, getI_take, if_pos (by omega), hotop, hq]

/-! ### one round of the `FQP.inv` loop, restated as two independent truncated product loops -/

def truncLoop (n : Nat) (f : Nat → Nat → Int → Int) (acc : List Int) : List Int :=
  (List.range n).foldl (fun acc i =>
    (List.range (n - i)).foldl (fun acc j => updAt acc (i + j) (f i j)) acc) acc

abbrev padR (v : Variant) (p d : Nat) (high low : List Int) : List Int :=
  polyRoundedDiv v p high low ++ List.replicate (d + 1 - (polyRoundedDiv v p high low).length) 0

abbrev nmF (lm r : List Int) : Nat → Nat → Int → Int := fun i j x => x - getI lm i * getI r j
abbrev newFref (p : Nat) (low r : List Int) : Nat → Nat → Int → Int :=
  fun i j x => (x - (getI low i * getI r j) % (p : Int)) % (p : Int)

def invRound (v : Variant) (p d : Nat) (lm low hm high : List Int) : List Int × List Int :=
  match v with
  | .ref =>
    (truncLoop (d + 1) (nmF lm (padR .ref p d high low)) hm,
     truncLoop (d + 1) (newFref p low (padR .ref p d high low)) high)
  | .opt =>
    ((truncLoop (d + 1) (nmF lm (padR .opt p d high low)) hm).map (fun x => x % (p : Int)),
     (truncLoop (d + 1) (nmF low (padR .opt p d high low)) high).map (fun x => x % (p : Int)))

theorem foldl_pair {α β γ : Type} (U : α → γ → α) (W : β → γ → β) (js : List γ) (s : α × β) :
    js.foldl (fun (st : α × β) j => (U st.1 j, W st.2 j)) s = (js.foldl U s.1, js.foldl W s.2) := by
  induction js generalizing s with
  | nil => rfl
  | cons j js ih => simp [ih]

theorem foldl_pair2 {α β : Type} (U : Nat → Nat → α → α) (W : Nat → Nat → β → β) (n : Nat)
    (k : Nat → Nat) (s : α × β) :
    (List.range n).foldl (fun (st : α × β) i =>
      (List.range (k i)).foldl (fun (st : α × β) j => (U i j st.1, W i j st.2)) st) s =
    ((List.range n).foldl (fun a i => (List.range (k i)).foldl (fun a j => U i j a) a) s.1,
     (List.range n).foldl (fun a i => (List.range (k i)).foldl (fun a j => W i j a) a) s.2) := by
  have inner : ∀ i (st : α × β),
      (List.range (k i)).foldl (fun (st : α × β) j => (U i j st.1, W i j st.2)) st =
      ((List.range (k i)).foldl (fun a j => U i j a) st.1,
       (List.range (k i)).foldl (fun a j => W i j a) st.2) :=
    fun i st => foldl_pair (fun a j => U i j a) (fun a j => W i j a) _ st
  simp only [inner]
  exact foldl_pair (fun a i => (List.range (k i)).foldl (fun a j => U i j a) a)
    (fun a i => (List.range (k i)).foldl (fun a j => W i j a) a) _ s

theorem invLoopP_succ (v : Variant) (d f : Nat) (lm low hm high : List Int) :
    invLoopP v p d (f + 1) lm low hm high =
      if deg low ≠ 0 then
        invLoopP v p d f (invRound v p d lm low hm high).1 (invRound v p d lm low hm high).2 lm low
      else (lm, low) := by
  rw [invLoopP]
  split
  · cases v
    · have h := foldl_pair2 (fun i j a => updAt a (i + j) (nmF lm (padR .ref p d high low) i j))
        (fun i j a => updAt a (i + j) (newFref p low (padR .ref p d high low) i j)) (d + 1)
        (fun i => d + 1 - i) (hm, high)
      simp only [invRound, truncLoop]
      rw [h]
    · have h := foldl_pair2 (fun i j a => updAt a (i + j) (nmF lm (padR .opt p d high low) i j))
        (fun i j a => updAt a (i + j) (nmF low (padR .opt p d high low) i j)) (d + 1)
        (fun i => d + 1 - i) (hm, high)
      simp only [invRound, truncLoop]
      rw [h]
  · rfl

/-! ### the truncated product loop -/

theorem truncLoop_spec (f : Nat → Nat → Int → Int) (l r : List Int)
    (hf : ∀ i j x, ((f i j x : ℤ) : ZMod p) =
      (x : ZMod p) - ((getI l i : ℤ) : ZMod p) * ((getI r j : ℤ) : ZMod p))
    (n : Nat) (acc : List Int) (hacc : acc.length = n) :
    (truncLoop n f acc).length = n ∧
    ev p (truncLoop n f acc) = ev p acc - ∑ i ∈ Finset.range n, ∑ j ∈ Finset.range (n - i),
      C (((getI l i : ℤ) : ZMod p) * ((getI r j : ℤ) : ZMod p)) * X ^ (i + j) := by
  unfold truncLoop
  have inner : ∀ (i : Nat) (acc : List Int), acc.length = n →
      ((List.range (n - i)).foldl (fun acc j => updAt acc (i + j) (f i j)) acc).length = n ∧
      ev p ((List.range (n - i)).foldl (fun acc j => updAt acc (i + j) (f i j)) acc) =
        ev p acc - ∑ j ∈ Finset.range (n - i),
          C (((getI l i : ℤ) : ZMod p) * ((getI r j : ℤ) : ZMod p)) * X ^ (i + j) := by
    intro i acc hacc
    have := foldl_updAt (p := p) (fun j => i + j) (fun j x => f i j x)
      (fun j => -(((getI l i : ℤ) : ZMod p) * ((getI r j : ℤ) : ZMod p)))
      (by intro j x; rw [hf]; ring)
      (List.range (n - i)) acc
      (by intro j hj; rw [List.mem_range] at hj; omega)
    rw [sum_map_range] at this
    refine ⟨this.1.trans hacc, ?_⟩
    rw [this.2, sub_eq_add_neg, ← Finset.sum_neg_distrib]
    congr 1
    apply Finset.sum_congr rfl; intro j _
    rw [C_neg]; ring
  have outer : ∀ m, m ≤ n →
      ((List.range m).foldl (fun acc i =>
        (List.range (n - i)).foldl (fun acc j => updAt acc (i + j) (f i j)) acc) acc).length = n ∧
      ev p ((List.range m).foldl (fun acc i =>
        (List.range (n - i)).foldl (fun acc j => updAt acc (i + j) (f i j)) acc) acc) =
        ev p acc - ∑ i ∈ Finset.range m, ∑ j ∈ Finset.range (n - i),
          C (((getI l i : ℤ) : ZMod p) * ((getI r j : ℤ) : ZMod p)) * X ^ (i + j) := by
    intro m
    induction m with
    | zero => intro _; simp [hacc]
    | succ m ih =>
      intro hm
      obtain ⟨h1, h2⟩ := ih (by omega)
      rw [List.range_succ, List.foldl_append, List.foldl_cons, List.foldl_nil]
      obtain ⟨h3, h4⟩ := inner m _ h1
      refine ⟨h3, ?_⟩
      rw [h4, h2, Finset.sum_range_succ]; ring
  exact outer n le_rfl

theorem trunc_sum_eq_mul (l r : List Int) (n : Nat) (hl : l.length ≤ n) (hr : r.length ≤ n)
    (hdeg : (ev p l).natDegree + (ev p r).natDegree < n) :
    ∑ i ∈ Finset.range n, ∑ j ∈ Finset.range (n - i),
      C (((getI l i : ℤ) : ZMod p) * ((getI r j : ℤ) : ZMod p)) * X ^ (i + j) = ev p l * ev p r := by
  rw [ev_eq_sum_of_le l n hl, ev_eq_sum_of_le r n hr, Finset.sum_mul_sum]
  apply Finset.sum_congr rfl; intro i _
  have : ∀ j, C (((getI l i : ℤ) : ZMod p) * ((getI r j : ℤ) : ZMod p)) * X ^ (i + j) =
      C ((getI l i : ℤ) : ZMod p) * X ^ i * (C ((getI r j : ℤ) : ZMod p) * X ^ j) := by
    intro j; rw [C_mul, pow_add]; ring
  simp only [this]
  apply Finset.sum_subset (by intro j; simp only [Finset.mem_range]; omega)
  intro j hj hj'
  simp only [Finset.mem_range, not_lt] at hj hj'
  by_cases hi : (ev p l).natDegree < i
  · have := coeff_eq_zero_of_natDegree_lt hi
    rw [coeff_ev] at this
    rw [this]; simp
  · have hjd : (ev p r).natDegree < j := by omega
    have := coeff_eq_zero_of_natDegree_lt hjd
    rw [coeff_ev] at this
    rw [this]; simp

theorem sane_truncLoop (f : Nat → Nat → Int → Int)
    (hf : ∀ i j x, ((f i j x : ℤ) : ZMod p) = 0 → f i j x = 0) (n : Nat) (acc : List Int)
    (hacc : Sane p acc) : Sane p (truncLoop n f acc) := by
  unfold truncLoop
  have inner : ∀ (i : Nat) (js : List Nat) (acc : List Int), Sane p acc →
      Sane p (js.foldl (fun acc j => updAt acc (i + j) (f i j)) acc) := by
    intro i js
    induction js with
    | nil => intro acc h; exact h
    | cons j js ih => intro acc h; exact ih _ (sane_updAt h _ _ (hf i j))
  have outer : ∀ (is : List Nat) (acc : List Int), Sane p acc →
      Sane p (is.foldl (fun acc i =>
        (List.range (n - i)).foldl (fun acc j => updAt acc (i + j) (f i j)) acc) acc) := by
    intro is
    induction is with
    | nil => intro acc h; exact h
    | cons i is ih => intro acc h; exact ih _ (inner i _ acc h)
  exact outer _ acc hacc

end PyEcc.FqpSem
