/-
  PyEcc.Sem.Curve — the Mathlib object the curve code is proved to refine:
  `W b : WeierstrassCurve.Affine F` is `y² = x³ + b`; `reprRef` maps a Mathlib point to the reference
  modules' representation (`None` = ∞, else `(x, y)`).
-/
import Mathlib.AlgebraicGeometry.EllipticCurve.Affine.Point
import PyEcc.Sem.Affine

namespace PyEcc
variable {F : Type} [Field F] [DecidableEq F]

/-- the short Weierstrass curve `y² = x³ + b` -/
def W (b : F) : WeierstrassCurve.Affine F := { a₁ := 0, a₂ := 0, a₃ := 0, a₄ := 0, a₆ := b }

/-- reference representation of a Mathlib point -/
def reprRef {b : F} : (W b).Point → Option (F × F)
  | .zero => none
  | .some x y _ => some (x, y)

@[simp] theorem reprRef_zero {b : F} : reprRef (0 : (W b).Point) = none := rfl
@[simp] theorem reprRef_some {b : F} {x y : F} (h : (W b).Nonsingular x y) :
    reprRef (WeierstrassCurve.Affine.Point.some x y h) = some (x, y) := rfl

/-- a projective triple represents a Mathlib point (any scaling; any `z = 0` triple represents ∞) -/
def Represents {b : F} (T : F × F × F) (P : (W b).Point) : Prop := toAff T = reprRef P

end PyEcc
