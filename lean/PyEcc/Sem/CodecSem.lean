/-
  PyEcc.Sem.CodecSem — helper lemmas for property C11 (ZCash point compression):
  the model's `powMod` (`pow(b, e, m)`) is the power in `ZMod m`; square roots by the `(p+1)/4`
  power for the BLS12-381 base-field modulus; `x³ + 4` never vanishes mod `p`; the two square roots of 4.
-/
import PyEcc.Sem.FqZMod
import PyEcc.Sem.Primes
import PyEcc.Model.Codec
import Mathlib.FieldTheory.Finite.Basic
import Mathlib.Tactic.Ring
import Mathlib.Tactic.LinearCombination

set_option exponentiation.threshold 400

namespace PyEcc.CodecSem
open PyEcc Gen.Consts

/-! ### `pow(b, e, m)` -/

theorem powModAux_cast (m : ℕ) : ∀ (f b e acc : ℕ), e ≤ f →
    ((powModAux m f b e acc : ℕ) : ZMod m) = (acc : ZMod m) * (b : ZMod m) ^ e := by
  intro f
  induction f with
  | zero =>
    intro b e acc h
    have : e = 0 := by omega
    subst this
    simp [powModAux]
  | succ f ih =>
    intro b e acc h
    unfold powModAux
    by_cases he : e = 0
    · subst he; simp
    · rw [if_neg he, ih _ _ _ (by omega)]
      have hsplit : e = 2 * (e / 2) + e % 2 := by omega
      by_cases hodd : e % 2 = 1
      · rw [if_pos hodd]
        conv_rhs => rw [hsplit, hodd, pow_add, pow_mul, pow_one]
        simp only [ZMod.natCast_mod, Nat.cast_mul]
        ring
      · rw [if_neg hodd]
        have hev : e % 2 = 0 := by omega
        conv_rhs => rw [hsplit, hev, add_zero, pow_mul]
        simp only [ZMod.natCast_mod, Nat.cast_mul]
        ring

/-- the model's `pow(b, e, m)` is `b ^ e` in `ZMod m` -/
theorem powMod_cast (b e m : ℕ) : ((powMod b e m : ℕ) : ZMod m) = (b : ZMod m) ^ e := by
  unfold powMod
  rw [powModAux_cast m _ _ _ _ (le_refl e)]
  simp [ZMod.natCast_mod]

theorem powModAux_lt (m : ℕ) (hm : 0 < m) : ∀ (f b e acc : ℕ), acc < m → powModAux m f b e acc < m := by
  intro f
  induction f with
  | zero => intro b e acc h; simpa [powModAux] using h
  | succ f ih =>
    intro b e acc h
    unfold powModAux
    by_cases he : e = 0
    · rw [if_pos he]; exact h
    · rw [if_neg he]
      apply ih
      split
      · exact Nat.mod_lt _ hm
      · exact h

/-- `pow(b, e, m)` lies in `[0, m)` (for `m > 1`; here any `m > 0` in the model) -/
theorem powMod_lt (b e m : ℕ) (hm : 0 < m) : powMod b e m < m := by
  unfold powMod
  apply powModAux_lt m hm
  rcases Nat.lt_or_ge 1 m with h | h
  · rw [Nat.mod_eq_of_lt h]; exact h
  · have : m = 1 := by omega
    subst this; simp

/-- residues below `m` are determined by their class -/
theorem natCast_inj_of_lt {m a b : ℕ} (ha : a < m) (hb : b < m) (h : (a : ZMod m) = (b : ZMod m)) : a = b := by
  have := (ZMod.natCast_eq_natCast_iff' a b m).mp h
  rwa [Nat.mod_eq_of_lt ha, Nat.mod_eq_of_lt hb] at this

/-- `pow(b, e, m)` is THE representative in `[0, m)` of `b ^ e` -/
theorem powMod_eq_iff {b e m r : ℕ} (hm : 0 < m) (hr : r < m) :
    powMod b e m = r ↔ (b : ZMod m) ^ e = (r : ZMod m) := by
  rw [← powMod_cast]
  constructor
  · intro h; rw [h]
  · intro h; exact natCast_inj_of_lt (powMod_lt b e m hm) hr h

/-! ### the BLS12-381 base field -/

/-- the base field, as a Mathlib object -/
abbrev K := ZMod blsP

theorem blsP_val : blsP = 4002409555221667393417789825735904156556882819939007885332058136124031650490837864442687629129015664037894272559787 := rfl

theorem blsP_pos : 0 < blsP := by decide
theorem blsP_mod4 : blsP % 4 = 3 := by decide
theorem blsP_mod3 : blsP % 3 = 1 := by decide
theorem blsP_lt : blsP < 2 ^ 381 := by decide
theorem blsB_n : (blsB).n = 4 := by decide
theorem pow2_381 : POW_2_381 = 2 ^ 381 := by decide
theorem pow2_382 : POW_2_382 = 2 ^ 382 := by decide
theorem pow2_383 : POW_2_383 = 2 ^ 383 := by decide

theorem fermat {t : K} (ht : t ≠ 0) : t ^ (blsP - 1) = 1 := ZMod.pow_card_sub_one_eq_one ht

/-- **square root by the `(p+1)/4` power** (`p ≡ 3 mod 4`): for a square `r`, `r^((p+1)/4)` is a root -/
theorem sqrt_pow_of_isSquare {r : K} (h : IsSquare r) : (r ^ ((blsP + 1) / 4)) ^ 2 = r := by
  obtain ⟨t, rfl⟩ := h
  by_cases ht : t = 0
  · subst ht
    have : (blsP + 1) / 4 ≠ 0 := by decide
    simp [this]
  · have he : 2 * ((blsP + 1) / 4) * 2 = (blsP - 1) + 2 := by decide
    calc ((t * t) ^ ((blsP + 1) / 4)) ^ 2 = t ^ (2 * ((blsP + 1) / 4) * 2) := by
          rw [← pow_two, ← pow_mul, ← pow_mul, mul_assoc]
      _ = t ^ (blsP - 1) * t ^ 2 := by rw [he, pow_add]
      _ = t * t := by rw [fermat ht, one_mul, pow_two]

/-- the decoder's acceptance test `pow(y, 2, q) == rhs` succeeds exactly on squares -/
theorem sqrt_check_iff (r : K) : (r ^ ((blsP + 1) / 4)) ^ 2 = r ↔ IsSquare r := by
  constructor
  · intro h; exact ⟨r ^ ((blsP + 1) / 4), by rw [← pow_two, h]⟩
  · exact sqrt_pow_of_isSquare

set_option maxRecDepth 100000 in
/-- kernel computation: `(-4)^((p-1)/3) ≠ 1 mod p`, i.e. `-4` is not a cube -/
theorem minus4_not_cube_kernel : powMod (blsP - 4) ((blsP - 1) / 3) blsP ≠ 1 := by decide +kernel

theorem four_ne_zero : (4 : K) ≠ 0 := by
  have h : ((4 : ℕ) : K) ≠ 0 := by
    rw [Ne, ZMod.natCast_eq_zero_iff]
    intro hd
    have := Nat.le_of_dvd (by decide) hd
    exact absurd this (by decide)
  simpa using h

theorem two_ne_zero : (2 : K) ≠ 0 := by
  intro h
  apply four_ne_zero
  have : (4 : K) = 2 * 2 := by norm_num
  rw [this, h, zero_mul]

/-- **no point with `y = 0`**: `x³ + 4` has no root mod `p` (`-4` is not a cube) -/
theorem cube_add_four_ne_zero (x : K) : x ^ 3 + 4 ≠ 0 := by
  intro h
  by_cases hx : x = 0
  · subst hx
    apply four_ne_zero
    simpa using h
  · have h3 : x ^ 3 = ((blsP - 4 : ℕ) : K) := by
      have hc : ((blsP - 4 : ℕ) : K) = -4 := by
        rw [Nat.cast_sub (by decide)]
        simp
      rw [hc]; linear_combination h
    have hk : ((blsP - 4 : ℕ) : K) ^ ((blsP - 1) / 3) = 1 := by
      rw [← h3, ← pow_mul]
      have : 3 * ((blsP - 1) / 3) = blsP - 1 := by decide
      rw [this]; exact fermat hx
    rw [← powMod_cast] at hk
    have h1 : ((powMod (blsP - 4) ((blsP - 1) / 3) blsP : ℕ) : K) = ((1 : ℕ) : K) := by
      rw [Nat.cast_one]; exact hk
    exact minus4_not_cube_kernel (natCast_inj_of_lt (powMod_lt _ _ _ blsP_pos) (by decide : 1 < blsP) h1)

/-- the square roots of 4 -/
theorem sq_eq_four_iff (y : K) : y ^ 2 = 4 ↔ y = 2 ∨ y = -2 := by
  constructor
  · intro h
    have : (y - 2) * (y + 2) = 0 := by linear_combination h
    rcases mul_eq_zero.mp this with h1 | h1
    · left; linear_combination h1
    · right; linear_combination h1
  · rintro (rfl | rfl) <;> norm_num

theorem sq_eq_sq_iff (s y : K) : s ^ 2 = y ^ 2 ↔ s = y ∨ s = -y := by
  constructor
  · intro h
    have : (s - y) * (s + y) = 0 := by linear_combination h
    rcases mul_eq_zero.mp this with h1 | h1
    · left; linear_combination h1
    · right; linear_combination h1
  · rintro (rfl | rfl) <;> ring

/-! ### `F1 = Fq blsP` -/

theorem n_ofInt_nat {x : ℕ} (h : x < blsP) : (Fq.ofInt (x : ℤ) : F1).n = x := by
  have := Fq.n_ofInt (p := blsP) (x : ℤ)
  rw [Int.emod_eq_of_lt (by omega) (by exact_mod_cast h)] at this
  exact_mod_cast this

theorem ofInt_n (a : F1) : (Fq.ofInt (a.n : ℤ) : F1) = a := Fq.ext (n_ofInt_nat a.lt)

theorem toZMod_ofInt_nat (x : ℕ) : Fq.toZMod (Fq.ofInt (x : ℤ) : F1) = (x : K) := by
  rw [Fq.toZMod_ofInt]; simp

theorem one_ne_zero_F1 : (1 : F1) ≠ 0 := by decide

theorem toZMod_eq_zero_iff (a : F1) : Fq.toZMod a = 0 ↔ a = 0 := by
  rw [← Fq.toZMod_zero (p := blsP), Fq.toZMod_inj]

theorem n_eq_zero_iff (a : F1) : a.n = 0 ↔ a = 0 := by
  constructor
  · intro h; apply Fq.ext; rw [h]; rfl
  · intro h; rw [h]; rfl

theorem toZMod_blsB : Fq.toZMod blsB = (4 : K) := by
  show ((blsB.n : ℕ) : K) = 4
  rw [blsB_n]; norm_num

/-- `x / 1 = x` in the model (`prime_field_inv(1, p) = 1`) -/
theorem div_one_F1 (a : F1) : a / (1 : F1) = a := by
  apply Fq.toZMod_injective
  rw [Fq.toZMod_div, Fq.toZMod_one, div_one]

/-- `0 / z = 0` in the model -/
theorem zero_div_F1 (z : F1) : (0 : F1) / z = 0 := by
  apply Fq.toZMod_injective
  rw [Fq.toZMod_div, Fq.toZMod_zero, zero_div]

/-- the on-curve test of the optimized module, read in `ZMod p` -/
theorem is_on_curve_iff (P : G1Pt) :
    Gen.OptBls.is_on_curve P blsB = true ↔
      (P.2.2 = 0 ∨ (Fq.toZMod P.2.1) ^ 2 * Fq.toZMod P.2.2 - (Fq.toZMod P.1) ^ 3
        = 4 * (Fq.toZMod P.2.2) ^ 3) := by
  unfold Gen.OptBls.is_on_curve Gen.OptBls.is_inf
  by_cases hz : P.2.2 = 0
  · simp [hz]
  · simp only [hz, decide_false, Bool.false_eq_true, ↓reduceIte, decide_eq_true_eq, false_or]
    rw [← Fq.toZMod_inj]
    simp only [Fq.toZMod_sub, Fq.toZMod_mul, Fq.toZMod_pow, toZMod_blsB]

/-! ### sign flag arithmetic (`(y * 2) // q`) -/

theorem flag_le_one {y : ℕ} (h : y < blsP) : y * 2 / blsP ≤ 1 := by
  rw [blsP_val] at *; omega

theorem flag_zero_or_one {y : ℕ} (h : y < blsP) : y * 2 / blsP = 0 ∨ y * 2 / blsP = 1 :=
  Nat.le_one_iff_eq_zero_or_eq_one.mp (flag_le_one h)

/-- the flag is 1 exactly for the "larger" residues `y > (p-1)/2` -/
theorem flag_eq_one_iff {y : ℕ} (h : y < blsP) : y * 2 / blsP = 1 ↔ blsP ≤ y * 2 := by
  rw [blsP_val] at *; omega

/-- of `y` and `p - y` exactly one has the flag of `y` (`p` is odd, `y ≠ 0`) -/
theorem flag_unique {y y' : ℕ} (hy0 : 0 < y) (hy : y < blsP) (h : y' = y ∨ y' = blsP - y)
    (hf : y' * 2 / blsP = y * 2 / blsP) : y' = y := by
  rcases h with h | h
  · exact h
  · exfalso
    have hk : y' + y = blsP := by omega
    clear h
    have h01 := flag_zero_or_one hy
    rw [blsP_val] at *
    rcases h01 with h01 | h01 <;> rw [h01] at hf <;> omega

/-- the decoder's choice between `y` and `q - y` according to the sign flag -/
def pickY (s : ℕ) (a : ℕ) : ℕ := if s * 2 / blsP ≠ a then blsP - s else s

/-- `p - s` has the opposite flag (`p` odd, `0 < s < p`) -/
theorem flag_compl {s : ℕ} (hs0 : 0 < s) (hs : s < blsP) : (blsP - s) * 2 / blsP = 1 - s * 2 / blsP := by
  have h01 := flag_zero_or_one hs
  obtain ⟨d, hd⟩ : ∃ d, d = blsP - s := ⟨_, rfl⟩
  have hds : d + s = blsP := by omega
  have hd01 := flag_zero_or_one (show d < blsP by omega)
  rw [← hd]
  clear hd
  rw [blsP_val] at *
  rcases h01 with h01 | h01 <;> rcases hd01 with hd01 | hd01 <;> omega

theorem pickY_spec (s a : ℕ) (ha : a ≤ 1) (hs0 : 0 < s) (hs : s < blsP) :
    0 < pickY s a ∧ pickY s a < blsP ∧ pickY s a * 2 / blsP = a ∧
      (pickY s a = s ∨ pickY s a = blsP - s) := by
  unfold pickY
  by_cases hc : s * 2 / blsP = a
  · rw [if_neg (not_not.mpr hc)]
    exact ⟨hs0, hs, hc, Or.inl rfl⟩
  · rw [if_pos hc]
    refine ⟨by omega, by omega, ?_, Or.inr rfl⟩
    rw [flag_compl hs0 hs]
    have := flag_zero_or_one hs
    omega

theorem natCast_p_sub {y : ℕ} (h : y ≤ blsP) : ((blsP - y : ℕ) : K) = -(y : K) := by
  rw [Nat.cast_sub h, ZMod.natCast_self, zero_sub]

/-- residues `s, y ∈ [0, p)` with `s² ≡ y²` are equal or opposite -/
theorem nat_sq_eq_sq {s y : ℕ} (hs : s < blsP) (hy0 : 0 < y) (hy : y < blsP)
    (h : (s : K) ^ 2 = (y : K) ^ 2) : s = y ∨ s = blsP - y := by
  rcases (sq_eq_sq_iff _ _).mp h with h1 | h1
  · left; exact natCast_inj_of_lt hs hy h1
  · right
    rw [← natCast_p_sub (le_of_lt hy)] at h1
    exact natCast_inj_of_lt hs (by omega) h1

/-- "is a square mod p", stated on naturals, is `IsSquare` in `ZMod p` -/
theorem isSquare_nat_iff (r : ℕ) : IsSquare ((r : ℕ) : K) ↔ ∃ y : ℕ, y * y % blsP = r % blsP := by
  constructor
  · rintro ⟨t, ht⟩
    refine ⟨t.val, ?_⟩
    apply (ZMod.natCast_eq_natCast_iff' _ _ _).mp
    rw [Nat.cast_mul, ZMod.natCast_zmod_val, ht]
  · rintro ⟨y, hy⟩
    refine ⟨(y : K), ?_⟩
    have := (ZMod.natCast_eq_natCast_iff' (y * y) r blsP).mpr hy
    rw [← this, Nat.cast_mul]

/-! ### the pieces of `decompress_G1` -/

/-- right-hand side `(x**3 + b.n) % q` computed by the decoder -/
def rhsOf (x : ℕ) : ℕ := (x ^ 3 + blsB.n) % blsP
/-- the decoder's candidate root `pow(rhs, (q + 1) // 4, q)` -/
def rootOf (x : ℕ) : ℕ := powMod (rhsOf x) ((blsP + 1) / 4) blsP

theorem rhsOf_eq (x : ℕ) : rhsOf x = (x ^ 3 + 4) % blsP := by rw [rhsOf, blsB_n]
theorem rhsOf_lt (x : ℕ) : rhsOf x < blsP := Nat.mod_lt _ blsP_pos
theorem rootOf_lt (x : ℕ) : rootOf x < blsP := powMod_lt _ _ _ blsP_pos

theorem rhsOf_cast (x : ℕ) : ((rhsOf x : ℕ) : K) = (x : K) ^ 3 + 4 := by
  rw [rhsOf_eq, ZMod.natCast_mod, Nat.cast_add, Nat.cast_pow]; rfl

theorem rootOf_cast (x : ℕ) : ((rootOf x : ℕ) : K) = ((x : K) ^ 3 + 4) ^ ((blsP + 1) / 4) := by
  rw [rootOf, powMod_cast, rhsOf_cast]

/-- the decoder's test `pow(y, 2, q) == (x**3 + b.n) % q` -/
def sqrtCheck (x : ℕ) : Prop := powMod (rootOf x) 2 blsP = rhsOf x
instance (x : ℕ) : Decidable (sqrtCheck x) :=
  inferInstanceAs (Decidable (powMod (rootOf x) 2 blsP = rhsOf x))

theorem sqrtCheck_iff_sq (x : ℕ) : sqrtCheck x ↔ ((rootOf x : ℕ) : K) ^ 2 = (x : K) ^ 3 + 4 := by
  unfold sqrtCheck
  rw [powMod_eq_iff blsP_pos (rhsOf_lt x), rhsOf_cast]

/-- the test passes exactly when `x³ + 4` is a square mod `p` (Euler/Fermat, `p ≡ 3 mod 4`) -/
theorem sqrtCheck_iff (x : ℕ) : sqrtCheck x ↔ IsSquare ((x : K) ^ 3 + 4) := by
  rw [sqrtCheck_iff_sq, rootOf_cast, sqrt_check_iff]

theorem sqrtCheck_iff_nat (x : ℕ) : sqrtCheck x ↔ ∃ y : ℕ, y * y % blsP = (x ^ 3 + 4) % blsP := by
  rw [sqrtCheck_iff, ← isSquare_nat_iff]; push_cast; rfl

theorem rootOf_pos {x : ℕ} (h : sqrtCheck x) : 0 < rootOf x := by
  rcases Nat.eq_zero_or_pos (rootOf x) with h0 | h0
  · exfalso
    have := (sqrtCheck_iff_sq x).mp h
    rw [h0] at this
    apply cube_add_four_ne_zero (x : K)
    rw [← this]; simp
  · exact h0

/-- the point produced by the decoder on a finite word -/
def decodedPt (z : ℕ) : G1Pt :=
  (Fq.ofInt (z % POW_2_381 : ℕ), Fq.ofInt (pickY (rootOf (z % POW_2_381)) (if (z / 2 ^ 381 % 2 == 1) = true then 1 else 0) : ℕ),
    Fq.ofInt 1)

/-- control skeleton of `decompress_G1` -/
def ctl (c b a : Bool) (x : ℕ) (chk : Prop) [Decidable chk] (P : G1Pt) : Except PyErr G1Pt :=
  if !c then .error .value else
  if b != (x == 0 && true) then .error .value else
  if (x == 0 && true) then (if a then .error .value else .ok Z1) else
  if x ≥ blsP then .error .value else
  if ¬ chk then .error .value else .ok P

theorem decompressG1_ctl (z : ℕ) : decompressG1 z =
    ctl (z / 2 ^ 383 % 2 == 1) (z / 2 ^ 382 % 2 == 1) (z / 2 ^ 381 % 2 == 1) (z % POW_2_381)
      (sqrtCheck (z % POW_2_381)) (decodedPt z) := rfl

theorem ctl_eq (c b a : Bool) (x : ℕ) (chk : Prop) [Decidable chk] (P : G1Pt) :
    ctl c b a x chk P =
      if c = true then
        if x = 0 then (if b = true ∧ a = false then .ok Z1 else .error .value)
        else if b = true then .error .value
        else if blsP ≤ x then .error .value
        else if chk then .ok P else .error .value
      else .error .value := by
  unfold ctl
  by_cases hx : x = 0 <;> cases c <;> cases b <;> cases a <;> simp [hx]

theorem flag_ite (n : ℕ) : (if (n % 2 == 1) = true then 1 else 0) = n % 2 := by
  rcases Nat.mod_two_eq_zero_or_one n with h | h <;> simp [h]

theorem decodedPt_eq (z : ℕ) : decodedPt z =
    (Fq.ofInt (z % 2 ^ 381 : ℕ), Fq.ofInt (pickY (rootOf (z % 2 ^ 381)) (z / 2 ^ 381 % 2) : ℕ), Fq.ofInt 1) := by
  unfold decodedPt; rw [flag_ite, pow2_381]

/-- **`decompress_G1` as a decision table** on the three flag bits and `x = z % 2^381` -/
theorem decompressG1_eq (z : ℕ) : decompressG1 z =
    if z / 2 ^ 383 % 2 = 1 then
      if z % 2 ^ 381 = 0 then
        (if z / 2 ^ 382 % 2 = 1 ∧ z / 2 ^ 381 % 2 = 0 then .ok Z1 else .error .value)
      else if z / 2 ^ 382 % 2 = 1 then .error .value
      else if blsP ≤ z % 2 ^ 381 then .error .value
      else if sqrtCheck (z % 2 ^ 381) then .ok (decodedPt z) else .error .value
    else .error .value := by
  rw [decompressG1_ctl, ctl_eq, pow2_381]
  simp only [beq_iff_eq, beq_eq_false_iff_ne, ne_eq, Nat.mod_two_not_eq_one]

/-! ### `compress_G1` unfolded -/

theorem compressG1_inf {P : G1Pt} (h : P.2.2 = 0) : compressG1 P = 2 ^ 383 + 2 ^ 382 := by
  unfold compressG1 Gen.OptBls.is_inf
  rw [if_pos (by simpa using h), pow2_383, pow2_382]

theorem compressG1_fin {P : G1Pt} (h : P.2.2 ≠ 0) :
    compressG1 P = (P.1 / P.2.2).n + ((P.2.1 / P.2.2).n * 2 / blsP) * 2 ^ 381 + 2 ^ 383 := by
  unfold compressG1 Gen.OptBls.is_inf
  rw [if_neg (by simpa using h), pow2_383, pow2_381]
  rfl

/-- bit fields of a finite-point word `x + a·2^381 + 2^383` -/
theorem word_fields (x a : ℕ) (hx : x < 2 ^ 381) (ha : a ≤ 1) :
    (x + a * 2 ^ 381 + 2 ^ 383) / 2 ^ 383 % 2 = 1 ∧ (x + a * 2 ^ 381 + 2 ^ 383) / 2 ^ 382 % 2 = 0 ∧
    (x + a * 2 ^ 381 + 2 ^ 383) / 2 ^ 381 % 2 = a ∧ (x + a * 2 ^ 381 + 2 ^ 383) % 2 ^ 381 = x ∧
    x + a * 2 ^ 381 + 2 ^ 383 < 2 ^ 384 := by omega

theorem word_recompose (z : ℕ) (hz : z < 2 ^ 384) (hc : z / 2 ^ 383 % 2 = 1) (hb : z / 2 ^ 382 % 2 = 0) :
    z % 2 ^ 381 + (z / 2 ^ 381 % 2) * 2 ^ 381 + 2 ^ 383 = z := by omega

theorem word_inf (z : ℕ) (hz : z < 2 ^ 384) (hc : z / 2 ^ 383 % 2 = 1) (hb : z / 2 ^ 382 % 2 = 1)
    (ha : z / 2 ^ 381 % 2 = 0) (hx : z % 2 ^ 381 = 0) : z = 2 ^ 383 + 2 ^ 382 := by omega

/-! ### G2: coefficient ranges of `FQ2` values -/

theorem getI_map_emod_range (cs : List Int) (i : ℕ) :
    0 ≤ getI (cs.map (fun c => c % (blsP : Int))) i ∧ getI (cs.map (fun c => c % (blsP : Int))) i < (blsP : Int) := by
  have hp : (0 : Int) < (blsP : Int) := by exact_mod_cast blsP_pos
  induction cs generalizing i with
  | nil => exact ⟨le_refl _, hp⟩
  | cons c cs ih =>
    cases i with
    | zero => exact ⟨Int.emod_nonneg _ (ne_of_gt hp), Int.emod_lt_of_pos _ hp⟩
    | succ i => exact ih i

/-- every coefficient of an `FQ2(...)` built by the constructor is in `[0, p)` -/
theorem getI_ofInts_range (cs : List Int) (i : ℕ) :
    0 ≤ getI (Fqp.ofInts (v := .opt) (p := blsP) (mc := blsMc2) cs).coeffs i ∧
      getI (Fqp.ofInts (v := .opt) (p := blsP) (mc := blsMc2) cs).coeffs i < (blsP : Int) :=
  getI_map_emod_range cs i

/-- every coefficient of a quotient `a / b` in the optimized `FQ2` is in `[0, p)`
    (`__truediv__` is `__mul__` with the inverse, and `__mul__` ends with `% field_modulus`) -/
theorem getI_div_range (a b : F2) (i : ℕ) :
    0 ≤ getI (a / b).coeffs i ∧ getI (a / b).coeffs i < (blsP : Int) :=
  getI_map_emod_range _ i

/-- the G2 sign flag `(c * 2) // q` of a reduced coefficient is 0 or 1 -/
theorem flagInt_range {c : Int} (h0 : 0 ≤ c) (h : c < (blsP : Int)) :
    0 ≤ c * 2 / (blsP : Int) ∧ c * 2 / (blsP : Int) ≤ 1 := by
  rw [blsP_val] at *
  omega

end PyEcc.CodecSem
