/-
  PyEcc.Sem.Affine — the affine reading of a projective triple `(x, y, z)` as used by the optimized
  curve modules: `z = 0` is the point at infinity (`None` of the reference modules), otherwise `(x/z, y/z)`.
-/
import Mathlib.Algebra.Field.Defs

namespace PyEcc
variable {F : Type} [Field F] [DecidableEq F]

/-- affine reading of a projective triple; `none` = point at infinity -/
def toAff (T : F × F × F) : Option (F × F) :=
  if T.2.2 = 0 then none else some (T.1 / T.2.2, T.2.1 / T.2.2)

end PyEcc
