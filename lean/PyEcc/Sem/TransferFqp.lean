/-
  PyEcc.Sem.TransferFqp — transfer of the field-generic curve theorems to the CONCRETE executable model
  type of `FQ2` coordinates, `F2 = Fqp .opt blsP blsMc2` (lists of Python ints).

  `Fqp v p mc` is not a field type: it contains junk (non-canonical / wrong-length coefficient lists).
  But `toQ : Fqp v p mc → AdjoinRoot (modulus p mc)` (`Sem/FqpQuot.lean`) preserves every operation
  on canonical elements, canonical elements are closed under every operation, and `toQ` is injective
  on them; when the modulus is irreducible the target is a Mathlib field, and `/` is preserved too
  (`Props/C08_FqpInv.lean`).  In the vocabulary of `Lemmas/TransferBase.lean`:

      `goodHom_toQ : GoodHom Canon toQ`.

  Hence (`Lemmas/TransferOptBls.lean`, `Sem/TransferRefineBls.lean`) every generated curve function run on
  canonical `Fqp` triples commutes with `toQ`, returns canonical triples, and inherits the refinement
  and group-law theorems proved over an arbitrary field.

  This file: the general `goodHom_toQ` (any prime `p`, any irreducible modulus, both class variants);
  FQ2 for primes `p ≡ 3 (mod 4)`; the two concrete fields
      `K2   = AdjoinRoot (modulus blsP blsMc2)`  (BLS12-381 `FQ2`)
      `K2bn = AdjoinRoot (modulus bnP bnMc2)`    (bn128 `FQ2`)
  with the side conditions `2 ≠ 0`, `3 ≠ 0`, `toQ b2 ≠ 0`; and the specialisations to `G2Pt`.

  The target fields have no computable equality; theorems take an arbitrary `[DecidableEq K2]`
  instance (use `Classical.decEq` / `open Classical`), exactly as Mathlib's `Point` group law does.
  Point types are written `CurvePt b` (`Sem/CurvePt.lean`) so that instance resolution and rewriting
  with the group lemmas work at the concrete field.
-/
import PyEcc.Sem.TransferRefineBls
import PyEcc.Sem.TransferRefineBn
import PyEcc.Props.C08_FqpInv
import PyEcc.Props.C17_Sub
import PyEcc.Sem.Primes
import PyEcc.Lemmas.CurveFactsAux
import PyEcc.Sem.CurvePt
import PyEcc.Model.Codec

set_option linter.unusedSectionVars false
set_option maxRecDepth 100000

namespace PyEcc.Transfer
open PyEcc PyEcc.Gen PyEcc.Gen.Consts PyEcc.Fqp PyEcc.FqpSem WeierstrassCurve

/-! ### `toQ` is a `GoodHom` on canonical elements -/

section general
variable {v : Variant} {p : ℕ} {mc : List Int} [Fact p.Prime] [Fact (Irreducible (modulus p mc))]

/-- `/` on canonical elements (divisor `0` included: `x / 0 = 0` on both sides): the result is
    canonical and is the field quotient of the values -/
theorem canon_div_toQ (hd : 1 ≤ mc.length) (hmc : Sane p mc) {a b : Fqp v p mc} (ha : Canon a)
    (hb : Canon b) : Canon (a / b) ∧ toQ (a / b) = toQ a / toQ b := by
  have hp : 0 < p := (Fact.out : p.Prime).pos
  by_cases hne : b = 0
  · subst hne
    have e : (a / 0 : Fqp v p mc) = Fqp.mul a Fqp.zero := by
      show Fqp.mul a (Fqp.inv 0) = _
      rw [C08P.inv_zero]; rfl
    rw [e]
    refine ⟨canon_mul hp ha.wf wf_zero, ?_⟩
    rw [toQ_mul ha.wf wf_zero]
    show toQ a * toQ Fqp.zero = toQ a / toQ Fqp.zero
    rw [toQ_zero, mul_zero, div_zero]
  · obtain ⟨hc, _⟩ := C08P.inv_refines hd Fact.out hmc hb hne
    exact ⟨canon_mul hp ha.wf hc.wf, (C08P.inv_div_spec hd hmc ha hb hne).2⟩

/-- **The transfer principle for `FQP`.**  For a prime `p`, an irreducible modulus of degree `≥ 1`
    whose coefficients are reduced-or-zero (`Sane`), and either class variant, the value map `toQ`
    into the field `(ZMod p)[X]/(modulus)` preserves `0 1 + - * neg / natCast **` on canonical
    elements, these are closed under all the operations, and `toQ` is injective on them. -/
theorem goodHom_toQ (hd : 1 ≤ mc.length) (hmc : Sane p mc) :
    GoodHom (Canon (v := v) (p := p) (mc := mc)) toQ where
  good_zero := canon_zero (Fact.out : p.Prime).pos
  good_one := canon_one (Fact.out : p.Prime).pos hd
  good_add := fun ha hb => canon_add (Fact.out : p.Prime).pos ha.wf hb.wf
  good_sub := fun ha hb => canon_sub (Fact.out : p.Prime).pos ha.wf hb.wf
  good_mul := fun ha hb => canon_mul (Fact.out : p.Prime).pos ha.wf hb.wf
  good_neg := fun ha => canon_neg (Fact.out : p.Prime).pos ha.wf
  good_div := fun ha hb => (canon_div_toQ hd hmc ha hb).1
  good_natCast := fun n => canon_ofIntScalar (Fact.out : p.Prime).pos hd n
  good_pow := fun n ha => canon_pow (Fact.out : p.Prime).pos hd ha.wf n
  map_zero := toQ_zero
  map_one := toQ_one
  map_add := fun ha hb => toQ_add ha.wf hb.wf
  map_sub := fun ha hb => toQ_sub ha.wf hb.wf
  map_mul := fun ha hb => toQ_mul ha.wf hb.wf
  map_neg := fun {a} _ => toQ_neg a
  map_div := fun ha hb => (canon_div_toQ hd hmc ha hb).2
  map_natCast := fun n => by
    show toQ (ofIntScalar (n : ℤ)) = _
    rw [toQ_ofIntScalar, Int.cast_natCast]
  map_pow := fun n ha => toQ_pow hd ha.wf n
  inj := toQ_inj

end general

/-- all three coordinates canonical (exactly `d` coefficients, each in `[0, p)`) -/
abbrev CanonT {v : Variant} {p : ℕ} {mc : List Int}
    (T : Fqp v p mc × Fqp v p mc × Fqp v p mc) : Prop := GoodT Canon T

instance {v : Variant} {p : ℕ} {mc : List Int} (T : Fqp v p mc × Fqp v p mc × Fqp v p mc) :
    Decidable (CanonT T) := by unfold CanonT GoodT; infer_instance

/-! ### FQ2 = `F_p[X]/(X² + 1)` for `p ≡ 3 (mod 4)` -/

/-- FQ2 over any prime `p ≡ 3 (mod 4)`: `toQ` is a `GoodHom` into the field `(ZMod p)[X]/(X² + 1)` -/
theorem goodHom_fq2 {v : Variant} {p : ℕ} [Fact p.Prime] [Fact (Irreducible (modulus p [1, 0]))] :
    GoodHom (Canon (v := v) (p := p) (mc := [1, 0])) toQ :=
  goodHom_toQ (by decide) sane_fq2

/-- BLS12-381: the semantic field of `FQ2` coordinates -/
abbrev K2 : Type := AdjoinRoot (modulus blsP blsMc2)
/-- bn128: the semantic field of `FQ2` coordinates -/
abbrev K2bn : Type := AdjoinRoot (modulus bnP bnMc2)

instance irreducible_blsMc2 : Fact (Irreducible (modulus blsP blsMc2)) :=
  ⟨irreducible_modulus_fq2 (p := blsP) (by decide)⟩
instance irreducible_bnMc2 : Fact (Irreducible (modulus bnP bnMc2)) :=
  ⟨irreducible_modulus_fq2 (p := bnP) (by decide)⟩

/-- BLS12-381 `FQ2` (model type `Fqp v blsP blsMc2`, in particular `F2`): `toQ` is a `GoodHom` into `K2` -/
theorem goodHom_F2 {v : Variant} :
    GoodHom (Canon (v := v) (p := blsP) (mc := blsMc2)) (toQ : Fqp v blsP blsMc2 → K2) :=
  @goodHom_fq2 v blsP _ irreducible_blsMc2

/-- bn128 `FQ2`: `toQ` is a `GoodHom` into `K2bn` -/
theorem goodHom_F2bn {v : Variant} :
    GoodHom (Canon (v := v) (p := bnP) (mc := bnMc2)) (toQ : Fqp v bnP bnMc2 → K2bn) :=
  @goodHom_fq2 v bnP _ irreducible_bnMc2

/-- `optimized_bn128.b2` as an element of the model type -/
def bnB2 : Fqp .opt bnP bnMc2 := ⟨optimized_bn128_b2⟩

/-- a canonical non-zero element has a non-zero value -/
theorem toQ_ne_zero_of {v : Variant} {p : ℕ} {mc : List Int} [Fact p.Prime] {a : Fqp v p mc}
    (ha : Canon a) (hne : a ≠ 0) : toQ a ≠ 0 := C08P.toQ_ne_zero (Fact.out : p.Prime).pos ha hne

/-- side conditions of the generic theorems in `K2`: `2 ≠ 0`, `3 ≠ 0`, and `b2 = 4 + 4i` is canonical
    with non-zero value -/
theorem k2_field_ok : (2 : K2) ≠ 0 ∧ (3 : K2) ≠ 0 ∧ Canon blsB2 ∧ (toQ blsB2 : K2) ≠ 0 := by
  have e2 : (2 : K2) = toQ (((2 : ℕ) : F2)) := by
    rw [(goodHom_F2 (v := .opt)).map_natCast]; norm_cast
  have e3 : (3 : K2) = toQ (((3 : ℕ) : F2)) := by
    rw [(goodHom_F2 (v := .opt)).map_natCast]; norm_cast
  refine ⟨?_, ?_, by decide, toQ_ne_zero_of (by decide) (by decide)⟩
  · rw [e2]; exact toQ_ne_zero_of (by decide) (by decide)
  · rw [e3]; exact toQ_ne_zero_of (by decide) (by decide)

/-- side conditions of the generic theorems in `K2bn` -/
theorem k2bn_field_ok : (2 : K2bn) ≠ 0 ∧ (3 : K2bn) ≠ 0 ∧ Canon bnB2 ∧ (toQ bnB2 : K2bn) ≠ 0 := by
  have e2 : (2 : K2bn) = toQ (((2 : ℕ) : Fqp .opt bnP bnMc2)) := by
    rw [(goodHom_F2bn (v := .opt)).map_natCast]; norm_cast
  have e3 : (3 : K2bn) = toQ (((3 : ℕ) : Fqp .opt bnP bnMc2)) := by
    rw [(goodHom_F2bn (v := .opt)).map_natCast]; norm_cast
  refine ⟨?_, ?_, by decide, toQ_ne_zero_of (by decide) (by decide)⟩
  · rw [e2]; exact toQ_ne_zero_of (by decide) (by decide)
  · rw [e3]; exact toQ_ne_zero_of (by decide) (by decide)

/-! ### G2: the model functions on canonical `F2` triples refine Mathlib's group over `K2` -/

section G2
variable [DecidableEq K2] {T T₁ T₂ : G2Pt} {P Q : CurvePt (toQ blsB2 : K2)}

/-- canonical triples stay canonical under the curve operations (so canonicity is an invariant of
    every computation that starts from decoded / constant / hashed points) -/
theorem canonT_ops (c₁ : CanonT T₁) (c₂ : CanonT T₂) (n : ℕ) :
    CanonT (OptBls.add T₁ T₂) ∧ CanonT (OptBls.double T₁) ∧ CanonT (OptBls.neg T₁)
      ∧ CanonT (OptBls.multiply T₁ n) ∧ CanonT Z2 :=
  ⟨(Bls.good_add (B := K2) goodHom_F2 c₁ c₂).1, (Bls.good_double (B := K2) goodHom_F2 c₁).1,
   (Bls.good_neg (B := K2) goodHom_F2 c₁).1, (Bls.good_multiply (B := K2) goodHom_F2 c₁ n).1,
   (Bls.good_Z (B := K2) (goodHom_F2 (v := .opt))).1⟩

/-- `is_on_curve(T, b2)` run on a canonical model triple accepts exactly the triples whose value
    represents a Mathlib point of `y² = x³ + 4(1+i)` over `K2` -/
theorem on_curve_iff_F2 (c : CanonT T) :
    OptBls.is_on_curve T blsB2 = true ↔ ∃ P : CurvePt (toQ blsB2 : K2), Represents (mapT toQ T) P :=
  Bls.via_on_curve_iff goodHom_F2 k2_field_ok.1 k2_field_ok.2.1 k2_field_ok.2.2.1
    k2_field_ok.2.2.2 c

/-- model `add` on canonical G2 triples computes Mathlib's point addition over `K2` -/
theorem opt_add_refines_F2 (c₁ : CanonT T₁) (c₂ : CanonT T₂) (r₁ : Represents (mapT toQ T₁) P)
    (r₂ : Represents (mapT toQ T₂) Q) : Represents (mapT toQ (OptBls.add T₁ T₂)) (P + Q) :=
  Bls.via_add_refines goodHom_F2 k2_field_ok.1 c₁ c₂ r₁ r₂

/-- model `double` on a canonical G2 triple computes `P + P` -/
theorem opt_double_refines_F2 (c : CanonT T) (r : Represents (mapT toQ T) P) :
    Represents (mapT toQ (OptBls.double T)) (P + P) :=
  Bls.via_double_refines goodHom_F2 k2_field_ok.1 c r

/-- model `neg` on a canonical G2 triple computes `-P` -/
theorem opt_neg_refines_F2 (c : CanonT T) (r : Represents (mapT toQ T) P) :
    Represents (mapT toQ (OptBls.neg T)) (-P) := Bls.via_neg_refines goodHom_F2 c r

/-- model `multiply(T, n)` on a canonical G2 triple computes `n • P`, every `n` -/
theorem opt_multiply_refines_F2 (c : CanonT T) (r : Represents (mapT toQ T) P) (n : ℕ) :
    Represents (mapT toQ (OptBls.multiply T n)) (n • P) :=
  Bls.via_multiply_refines goodHom_F2 k2_field_ok.1 c r n

/-- model `eq` on canonical G2 triples decides equality of the represented points -/
theorem opt_eq_refines_F2 (c₁ : CanonT T₁) (c₂ : CanonT T₂) (r₁ : Represents (mapT toQ T₁) P)
    (r₂ : Represents (mapT toQ T₂) Q) : OptBls.eq T₁ T₂ = true ↔ P = Q :=
  Bls.via_eq_refines goodHom_F2 c₁ c₂ r₁ r₂

/-- model `is_inf` on a canonical G2 triple decides `P = 0` -/
theorem opt_is_inf_refines_F2 (c : CanonT T) (r : Represents (mapT toQ T) P) :
    OptBls.is_inf T = true ↔ P = 0 := Bls.via_is_inf_refines goodHom_F2 c r

/-- `subgroup_check` run on a canonical model G2 triple returns `True` exactly when
    `curve_order • P = 0` for the represented Mathlib point over `K2` -/
theorem subgroup_check_iff_F2 (c : CanonT T) (r : Represents (mapT toQ T) P) :
    subgroupCheck T = true ↔ blsR • P = 0 :=
  Bls.via_is_inf_refines goodHom_F2 (Bls.good_multiply (B := K2) goodHom_F2 c blsR).1
    (opt_multiply_refines_F2 c r blsR)

/-- `subgroup_check` gives the same answer on a canonical model triple and on its value in `K2` -/
theorem subgroupCheck_toQ (c : CanonT T) : subgroupCheck (mapT (toQ : F2 → K2) T) = subgroupCheck T := by
  show OptBls.is_inf (OptBls.multiply (mapT toQ T) blsR) = OptBls.is_inf (OptBls.multiply T blsR)
  rw [← (Bls.good_multiply (B := K2) goodHom_F2 c blsR).2,
    Bls.good_is_inf (B := K2) goodHom_F2 (Bls.good_multiply (B := K2) goodHom_F2 c blsR).1]

/-- a canonical triple with `z = 0` represents the neutral element -/
theorem represents_zero_F2 (hz : T.2.2 = 0) :
    Represents (mapT (toQ : F2 → K2) T) (0 : CurvePt (toQ blsB2 : K2)) :=
  C07Opt.Bls.represents_zero (by rw [mapT_snd_snd, hz]; exact (goodHom_F2 (v := .opt)).map_zero)

/-- the model's `clear_cofactor_G2` on a canonical triple computes `H_EFF_G2 • P` (and stays canonical) -/
theorem clearCofactorG2_refines (c : CanonT T) (r : Represents (mapT toQ T) P) :
    CanonT (clearCofactorG2 T) ∧ Represents (mapT toQ (clearCofactorG2 T)) (h2c_H_EFF_G2 • P) :=
  ⟨(Bls.good_multiply (B := K2) goodHom_F2 c _).1, opt_multiply_refines_F2 c r _⟩

end G2

/-! ### bn128 G2: `optimized_bn128` functions on canonical `Fqp .opt bnP bnMc2` triples -/

/-- the model type of `optimized_bn128` G2 points -/
abbrev BnG2Pt : Type := Fqp .opt bnP bnMc2 × Fqp .opt bnP bnMc2 × Fqp .opt bnP bnMc2

/-- `optimized_bn128.G2` as a model triple -/
def bnG2 : BnG2Pt := CurveSem.ptOpt2 .opt bnP bnMc2 optimized_bn128_G2

section G2bn
variable [DecidableEq K2bn] {T T₁ T₂ : BnG2Pt} {P Q : CurvePt (toQ bnB2 : K2bn)}

/-- bn128: canonical triples stay canonical under the curve operations -/
theorem canonT_ops_bn (c₁ : CanonT T₁) (c₂ : CanonT T₂) (n : ℕ) :
    CanonT (OptBn.add T₁ T₂) ∧ CanonT (OptBn.double T₁) ∧ CanonT (OptBn.neg T₁)
      ∧ CanonT (OptBn.multiply T₁ n) ∧ CanonT (((1 : Fqp .opt bnP bnMc2), (1 : Fqp .opt bnP bnMc2),
          (0 : Fqp .opt bnP bnMc2)) : BnG2Pt) :=
  ⟨(Bn.good_add (B := K2bn) goodHom_F2bn c₁ c₂).1, (Bn.good_double (B := K2bn) goodHom_F2bn c₁).1,
   (Bn.good_neg (B := K2bn) goodHom_F2bn c₁).1, (Bn.good_multiply (B := K2bn) goodHom_F2bn c₁ n).1,
   (Bn.good_Z (B := K2bn) (goodHom_F2bn (v := .opt))).1⟩

/-- bn128 `is_on_curve(T, b2)` on a canonical model triple accepts exactly the triples whose value
    represents a Mathlib point of `y² = x³ + b2` over `K2bn` -/
theorem on_curve_iff_F2bn (c : CanonT T) :
    OptBn.is_on_curve T bnB2 = true ↔ ∃ P : CurvePt (toQ bnB2 : K2bn), Represents (mapT toQ T) P :=
  Bn.via_on_curve_iff goodHom_F2bn k2bn_field_ok.1 k2bn_field_ok.2.1 k2bn_field_ok.2.2.1
    k2bn_field_ok.2.2.2 c

/-- bn128 model `add` on canonical G2 triples computes Mathlib's point addition over `K2bn` -/
theorem opt_add_refines_F2bn (c₁ : CanonT T₁) (c₂ : CanonT T₂) (r₁ : Represents (mapT toQ T₁) P)
    (r₂ : Represents (mapT toQ T₂) Q) : Represents (mapT toQ (OptBn.add T₁ T₂)) (P + Q) :=
  Bn.via_add_refines goodHom_F2bn k2bn_field_ok.1 c₁ c₂ r₁ r₂

/-- bn128 model `double` on a canonical G2 triple computes `P + P` -/
theorem opt_double_refines_F2bn (c : CanonT T) (r : Represents (mapT toQ T) P) :
    Represents (mapT toQ (OptBn.double T)) (P + P) :=
  Bn.via_double_refines goodHom_F2bn k2bn_field_ok.1 c r

/-- bn128 model `neg` on a canonical G2 triple computes `-P` -/
theorem opt_neg_refines_F2bn (c : CanonT T) (r : Represents (mapT toQ T) P) :
    Represents (mapT toQ (OptBn.neg T)) (-P) := Bn.via_neg_refines goodHom_F2bn c r

/-- bn128 model `multiply(T, n)` on a canonical G2 triple computes `n • P`, every `n` -/
theorem opt_multiply_refines_F2bn (c : CanonT T) (r : Represents (mapT toQ T) P) (n : ℕ) :
    Represents (mapT toQ (OptBn.multiply T n)) (n • P) :=
  Bn.via_multiply_refines goodHom_F2bn k2bn_field_ok.1 c r n

/-- bn128 model `eq` on canonical G2 triples decides equality of the represented points -/
theorem opt_eq_refines_F2bn (c₁ : CanonT T₁) (c₂ : CanonT T₂) (r₁ : Represents (mapT toQ T₁) P)
    (r₂ : Represents (mapT toQ T₂) Q) : OptBn.eq T₁ T₂ = true ↔ P = Q :=
  Bn.via_eq_refines goodHom_F2bn c₁ c₂ r₁ r₂

/-- bn128 model `is_inf` on a canonical G2 triple decides `P = 0` -/
theorem opt_is_inf_refines_F2bn (c : CanonT T) (r : Represents (mapT toQ T) P) :
    OptBn.is_inf T = true ↔ P = 0 := Bn.via_is_inf_refines goodHom_F2bn c r

end G2bn

/-- non-vacuity: the generator constant `G2` of the model is canonical and on the curve, hence its
    value represents a Mathlib point over `K2` -/
example [DecidableEq K2] : CanonT blsG2 ∧ ∃ P : CurvePt (toQ blsB2 : K2), Represents (mapT toQ blsG2) P :=
  ⟨by decide +kernel, (on_curve_iff_F2 (by decide +kernel)).mp (by decide +kernel)⟩

end PyEcc.Transfer
