/-
  PyEcc.Sem.PrattCerts2 — GENERATED Pratt certificates (from data/pratt_cert2.json) for the prime factors of the
  BLS12-381 cofactors h₁, h₂ and of the bn128 twist cofactor 2p − r; checked by the kernel via `pratt_step`.
-/
import PyEcc.Sem.PrattCerts
namespace PyEcc.Pratt
set_option maxRecDepth 100000

theorem prime_61 : Nat.Prime 61 := by norm_num
theorem prime_157 : Nat.Prime 157 := by norm_num
theorem prime_179 : Nat.Prime 179 := by norm_num
theorem prime_199 : Nat.Prime 199 := by norm_num
theorem prime_347 : Nat.Prime 347 := by norm_num
theorem prime_373 : Nat.Prime 373 := by norm_num
theorem prime_383 : Nat.Prime 383 := by norm_num
theorem prime_479 : Nat.Prime 479 := by norm_num
theorem prime_541 : Nat.Prime 541 := by norm_num
theorem prime_587 : Nat.Prime 587 := by norm_num
theorem prime_601 : Nat.Prime 601 := by norm_num
theorem prime_653 : Nat.Prime 653 := by norm_num
theorem prime_727 : Nat.Prime 727 := by norm_num
theorem prime_839 : Nat.Prime 839 := by norm_num
theorem prime_907 : Nat.Prime 907 := by norm_num
theorem prime_1031 : Nat.Prime 1031 :=
  pratt_step 1031 14 [(2,1), (5,1), (103,1)] (by norm_num) (by decide +kernel) (by decide +kernel)
    (by
      intro qe hqe
      simp only [List.mem_cons, List.mem_nil_iff, or_false] at hqe
      rcases hqe with rfl | rfl | rfl
      · exact ⟨Nat.prime_two, by decide +kernel⟩
      · exact ⟨prime_5, by decide +kernel⟩
      · exact ⟨prime_103, by decide +kernel⟩)
theorem prime_1307 : Nat.Prime 1307 :=
  pratt_step 1307 2 [(2,1), (653,1)] (by norm_num) (by decide +kernel) (by decide +kernel)
    (by
      intro qe hqe
      simp only [List.mem_cons, List.mem_nil_iff, or_false] at hqe
      rcases hqe with rfl | rfl
      · exact ⟨Nat.prime_two, by decide +kernel⟩
      · exact ⟨prime_653, by decide +kernel⟩)
theorem prime_1381 : Nat.Prime 1381 :=
  pratt_step 1381 2 [(2,2), (3,1), (5,1), (23,1)] (by norm_num) (by decide +kernel) (by decide +kernel)
    (by
      intro qe hqe
      simp only [List.mem_cons, List.mem_nil_iff, or_false] at hqe
      rcases hqe with rfl | rfl | rfl | rfl
      · exact ⟨Nat.prime_two, by decide +kernel⟩
      · exact ⟨Nat.prime_three, by decide +kernel⟩
      · exact ⟨prime_5, by decide +kernel⟩
      · exact ⟨prime_23, by decide +kernel⟩)
theorem prime_1511 : Nat.Prime 1511 :=
  pratt_step 1511 11 [(2,1), (5,1), (151,1)] (by norm_num) (by decide +kernel) (by decide +kernel)
    (by
      intro qe hqe
      simp only [List.mem_cons, List.mem_nil_iff, or_false] at hqe
      rcases hqe with rfl | rfl | rfl
      · exact ⟨Nat.prime_two, by decide +kernel⟩
      · exact ⟨prime_5, by decide +kernel⟩
      · exact ⟨prime_151, by decide +kernel⟩)
theorem prime_2713 : Nat.Prime 2713 :=
  pratt_step 2713 5 [(2,3), (3,1), (113,1)] (by norm_num) (by decide +kernel) (by decide +kernel)
    (by
      intro qe hqe
      simp only [List.mem_cons, List.mem_nil_iff, or_false] at hqe
      rcases hqe with rfl | rfl | rfl
      · exact ⟨Nat.prime_two, by decide +kernel⟩
      · exact ⟨Nat.prime_three, by decide +kernel⟩
      · exact ⟨prime_113, by decide +kernel⟩)
theorem prime_2969 : Nat.Prime 2969 :=
  pratt_step 2969 3 [(2,3), (7,1), (53,1)] (by norm_num) (by decide +kernel) (by decide +kernel)
    (by
      intro qe hqe
      simp only [List.mem_cons, List.mem_nil_iff, or_false] at hqe
      rcases hqe with rfl | rfl | rfl
      · exact ⟨Nat.prime_two, by decide +kernel⟩
      · exact ⟨prime_7, by decide +kernel⟩
      · exact ⟨prime_53, by decide +kernel⟩)
theorem prime_3359 : Nat.Prime 3359 :=
  pratt_step 3359 11 [(2,1), (23,1), (73,1)] (by norm_num) (by decide +kernel) (by decide +kernel)
    (by
      intro qe hqe
      simp only [List.mem_cons, List.mem_nil_iff, or_false] at hqe
      rcases hqe with rfl | rfl | rfl
      · exact ⟨Nat.prime_two, by decide +kernel⟩
      · exact ⟨prime_23, by decide +kernel⟩
      · exact ⟨prime_73, by decide +kernel⟩)
theorem prime_3539 : Nat.Prime 3539 :=
  pratt_step 3539 2 [(2,1), (29,1), (61,1)] (by norm_num) (by decide +kernel) (by decide +kernel)
    (by
      intro qe hqe
      simp only [List.mem_cons, List.mem_nil_iff, or_false] at hqe
      rcases hqe with rfl | rfl | rfl
      · exact ⟨Nat.prime_two, by decide +kernel⟩
      · exact ⟨prime_29, by decide +kernel⟩
      · exact ⟨prime_61, by decide +kernel⟩)
theorem prime_3833 : Nat.Prime 3833 :=
  pratt_step 3833 3 [(2,3), (479,1)] (by norm_num) (by decide +kernel) (by decide +kernel)
    (by
      intro qe hqe
      simp only [List.mem_cons, List.mem_nil_iff, or_false] at hqe
      rcases hqe with rfl | rfl
      · exact ⟨Nat.prime_two, by decide +kernel⟩
      · exact ⟨prime_479, by decide +kernel⟩)
theorem prime_8329 : Nat.Prime 8329 :=
  pratt_step 8329 7 [(2,3), (3,1), (347,1)] (by norm_num) (by decide +kernel) (by decide +kernel)
    (by
      intro qe hqe
      simp only [List.mem_cons, List.mem_nil_iff, or_false] at hqe
      rcases hqe with rfl | rfl | rfl
      · exact ⟨Nat.prime_two, by decide +kernel⟩
      · exact ⟨Nat.prime_three, by decide +kernel⟩
      · exact ⟨prime_347, by decide +kernel⟩)
theorem prime_10069 : Nat.Prime 10069 :=
  pratt_step 10069 2 [(2,2), (3,1), (839,1)] (by norm_num) (by decide +kernel) (by decide +kernel)
    (by
      intro qe hqe
      simp only [List.mem_cons, List.mem_nil_iff, or_false] at hqe
      rcases hqe with rfl | rfl | rfl
      · exact ⟨Nat.prime_two, by decide +kernel⟩
      · exact ⟨Nat.prime_three, by decide +kernel⟩
      · exact ⟨prime_839, by decide +kernel⟩)
theorem prime_10267 : Nat.Prime 10267 :=
  pratt_step 10267 2 [(2,1), (3,1), (29,1), (59,1)] (by norm_num) (by decide +kernel) (by decide +kernel)
    (by
      intro qe hqe
      simp only [List.mem_cons, List.mem_nil_iff, or_false] at hqe
      rcases hqe with rfl | rfl | rfl | rfl
      · exact ⟨Nat.prime_two, by decide +kernel⟩
      · exact ⟨Nat.prime_three, by decide +kernel⟩
      · exact ⟨prime_29, by decide +kernel⟩
      · exact ⟨prime_59, by decide +kernel⟩)
theorem prime_11953 : Nat.Prime 11953 :=
  pratt_step 11953 5 [(2,4), (3,2), (83,1)] (by norm_num) (by decide +kernel) (by decide +kernel)
    (by
      intro qe hqe
      simp only [List.mem_cons, List.mem_nil_iff, or_false] at hqe
      rcases hqe with rfl | rfl | rfl
      · exact ⟨Nat.prime_two, by decide +kernel⟩
      · exact ⟨Nat.prime_three, by decide +kernel⟩
      · exact ⟨prime_83, by decide +kernel⟩)
theorem prime_13789 : Nat.Prime 13789 :=
  pratt_step 13789 7 [(2,2), (3,2), (383,1)] (by norm_num) (by decide +kernel) (by decide +kernel)
    (by
      intro qe hqe
      simp only [List.mem_cons, List.mem_nil_iff, or_false] at hqe
      rcases hqe with rfl | rfl | rfl
      · exact ⟨Nat.prime_two, by decide +kernel⟩
      · exact ⟨Nat.prime_three, by decide +kernel⟩
      · exact ⟨prime_383, by decide +kernel⟩)
theorem prime_19759 : Nat.Prime 19759 :=
  pratt_step 19759 3 [(2,1), (3,1), (37,1), (89,1)] (by norm_num) (by decide +kernel) (by decide +kernel)
    (by
      intro qe hqe
      simp only [List.mem_cons, List.mem_nil_iff, or_false] at hqe
      rcases hqe with rfl | rfl | rfl | rfl
      · exact ⟨Nat.prime_two, by decide +kernel⟩
      · exact ⟨Nat.prime_three, by decide +kernel⟩
      · exact ⟨prime_37, by decide +kernel⟩
      · exact ⟨prime_89, by decide +kernel⟩)
theorem prime_21839 : Nat.Prime 21839 :=
  pratt_step 21839 11 [(2,1), (61,1), (179,1)] (by norm_num) (by decide +kernel) (by decide +kernel)
    (by
      intro qe hqe
      simp only [List.mem_cons, List.mem_nil_iff, or_false] at hqe
      rcases hqe with rfl | rfl | rfl
      · exact ⟨Nat.prime_two, by decide +kernel⟩
      · exact ⟨prime_61, by decide +kernel⟩
      · exact ⟨prime_179, by decide +kernel⟩)
theorem prime_37501 : Nat.Prime 37501 :=
  pratt_step 37501 2 [(2,2), (3,1), (5,5)] (by norm_num) (by decide +kernel) (by decide +kernel)
    (by
      intro qe hqe
      simp only [List.mem_cons, List.mem_nil_iff, or_false] at hqe
      rcases hqe with rfl | rfl | rfl
      · exact ⟨Nat.prime_two, by decide +kernel⟩
      · exact ⟨Nat.prime_three, by decide +kernel⟩
      · exact ⟨prime_5, by decide +kernel⟩)
theorem prime_38669 : Nat.Prime 38669 :=
  pratt_step 38669 2 [(2,2), (7,1), (1381,1)] (by norm_num) (by decide +kernel) (by decide +kernel)
    (by
      intro qe hqe
      simp only [List.mem_cons, List.mem_nil_iff, or_false] at hqe
      rcases hqe with rfl | rfl | rfl
      · exact ⟨Nat.prime_two, by decide +kernel⟩
      · exact ⟨prime_7, by decide +kernel⟩
      · exact ⟨prime_1381, by decide +kernel⟩)
theorem prime_57697 : Nat.Prime 57697 :=
  pratt_step 57697 5 [(2,5), (3,1), (601,1)] (by norm_num) (by decide +kernel) (by decide +kernel)
    (by
      intro qe hqe
      simp only [List.mem_cons, List.mem_nil_iff, or_false] at hqe
      rcases hqe with rfl | rfl | rfl
      · exact ⟨Nat.prime_two, by decide +kernel⟩
      · exact ⟨Nat.prime_three, by decide +kernel⟩
      · exact ⟨prime_601, by decide +kernel⟩)
theorem prime_68059 : Nat.Prime 68059 :=
  pratt_step 68059 2 [(2,1), (3,2), (19,1), (199,1)] (by norm_num) (by decide +kernel) (by decide +kernel)
    (by
      intro qe hqe
      simp only [List.mem_cons, List.mem_nil_iff, or_false] at hqe
      rcases hqe with rfl | rfl | rfl | rfl
      · exact ⟨Nat.prime_two, by decide +kernel⟩
      · exact ⟨Nat.prime_three, by decide +kernel⟩
      · exact ⟨prime_19, by decide +kernel⟩
      · exact ⟨prime_199, by decide +kernel⟩)
theorem prime_77339 : Nat.Prime 77339 :=
  pratt_step 77339 2 [(2,1), (38669,1)] (by norm_num) (by decide +kernel) (by decide +kernel)
    (by
      intro qe hqe
      simp only [List.mem_cons, List.mem_nil_iff, or_false] at hqe
      rcases hqe with rfl | rfl
      · exact ⟨Nat.prime_two, by decide +kernel⟩
      · exact ⟨prime_38669, by decide +kernel⟩)
theorem prime_133769 : Nat.Prime 133769 :=
  pratt_step 133769 3 [(2,3), (23,1), (727,1)] (by norm_num) (by decide +kernel) (by decide +kernel)
    (by
      intro qe hqe
      simp only [List.mem_cons, List.mem_nil_iff, or_false] at hqe
      rcases hqe with rfl | rfl | rfl
      · exact ⟨Nat.prime_two, by decide +kernel⟩
      · exact ⟨prime_23, by decide +kernel⟩
      · exact ⟨prime_727, by decide +kernel⟩)
theorem prime_197539 : Nat.Prime 197539 :=
  pratt_step 197539 2 [(2,1), (3,1), (11,1), (41,1), (73,1)] (by norm_num) (by decide +kernel) (by decide +kernel)
    (by
      intro qe hqe
      simp only [List.mem_cons, List.mem_nil_iff, or_false] at hqe
      rcases hqe with rfl | rfl | rfl | rfl | rfl
      · exact ⟨Nat.prime_two, by decide +kernel⟩
      · exact ⟨Nat.prime_three, by decide +kernel⟩
      · exact ⟨prime_11, by decide +kernel⟩
      · exact ⟨prime_41, by decide +kernel⟩
      · exact ⟨prime_73, by decide +kernel⟩)
theorem prime_225493 : Nat.Prime 225493 :=
  pratt_step 225493 2 [(2,2), (3,1), (19,1), (23,1), (43,1)] (by norm_num) (by decide +kernel) (by decide +kernel)
    (by
      intro qe hqe
      simp only [List.mem_cons, List.mem_nil_iff, or_false] at hqe
      rcases hqe with rfl | rfl | rfl | rfl | rfl
      · exact ⟨Nat.prime_two, by decide +kernel⟩
      · exact ⟨Nat.prime_three, by decide +kernel⟩
      · exact ⟨prime_19, by decide +kernel⟩
      · exact ⟨prime_23, by decide +kernel⟩
      · exact ⟨prime_43, by decide +kernel⟩)
theorem prime_262069 : Nat.Prime 262069 :=
  pratt_step 262069 6 [(2,2), (3,1), (21839,1)] (by norm_num) (by decide +kernel) (by decide +kernel)
    (by
      intro qe hqe
      simp only [List.mem_cons, List.mem_nil_iff, or_false] at hqe
      rcases hqe with rfl | rfl | rfl
      · exact ⟨Nat.prime_two, by decide +kernel⟩
      · exact ⟨Nat.prime_three, by decide +kernel⟩
      · exact ⟨prime_21839, by decide +kernel⟩)
theorem prime_268721 : Nat.Prime 268721 :=
  pratt_step 268721 3 [(2,4), (5,1), (3359,1)] (by norm_num) (by decide +kernel) (by decide +kernel)
    (by
      intro qe hqe
      simp only [List.mem_cons, List.mem_nil_iff, or_false] at hqe
      rcases hqe with rfl | rfl | rfl
      · exact ⟨Nat.prime_two, by decide +kernel⟩
      · exact ⟨prime_5, by decide +kernel⟩
      · exact ⟨prime_3359, by decide +kernel⟩)
theorem prime_349079 : Nat.Prime 349079 :=
  pratt_step 349079 11 [(2,1), (17,1), (10267,1)] (by norm_num) (by decide +kernel) (by decide +kernel)
    (by
      intro qe hqe
      simp only [List.mem_cons, List.mem_nil_iff, or_false] at hqe
      rcases hqe with rfl | rfl | rfl
      · exact ⟨Nat.prime_two, by decide +kernel⟩
      · exact ⟨prime_17, by decide +kernel⟩
      · exact ⟨prime_10267, by decide +kernel⟩)
theorem prime_601379 : Nat.Prime 601379 :=
  pratt_step 601379 2 [(2,1), (199,1), (1511,1)] (by norm_num) (by decide +kernel) (by decide +kernel)
    (by
      intro qe hqe
      simp only [List.mem_cons, List.mem_nil_iff, or_false] at hqe
      rcases hqe with rfl | rfl | rfl
      · exact ⟨Nat.prime_two, by decide +kernel⟩
      · exact ⟨prime_199, by decide +kernel⟩
      · exact ⟨prime_1511, by decide +kernel⟩)
theorem prime_661873 : Nat.Prime 661873 :=
  pratt_step 661873 5 [(2,4), (3,1), (13789,1)] (by norm_num) (by decide +kernel) (by decide +kernel)
    (by
      intro qe hqe
      simp only [List.mem_cons, List.mem_nil_iff, or_false] at hqe
      rcases hqe with rfl | rfl | rfl
      · exact ⟨Nat.prime_two, by decide +kernel⟩
      · exact ⟨Nat.prime_three, by decide +kernel⟩
      · exact ⟨prime_13789, by decide +kernel⟩)
theorem prime_1233079 : Nat.Prime 1233079 :=
  pratt_step 1233079 11 [(2,1), (3,1), (7,1), (11,1), (17,1), (157,1)] (by norm_num) (by decide +kernel) (by decide +kernel)
    (by
      intro qe hqe
      simp only [List.mem_cons, List.mem_nil_iff, or_false] at hqe
      rcases hqe with rfl | rfl | rfl | rfl | rfl | rfl
      · exact ⟨Nat.prime_two, by decide +kernel⟩
      · exact ⟨Nat.prime_three, by decide +kernel⟩
      · exact ⟨prime_7, by decide +kernel⟩
      · exact ⟨prime_11, by decide +kernel⟩
      · exact ⟨prime_17, by decide +kernel⟩
      · exact ⟨prime_157, by decide +kernel⟩)
theorem prime_1367711 : Nat.Prime 1367711 :=
  pratt_step 1367711 7 [(2,1), (5,1), (233,1), (587,1)] (by norm_num) (by decide +kernel) (by decide +kernel)
    (by
      intro qe hqe
      simp only [List.mem_cons, List.mem_nil_iff, or_false] at hqe
      rcases hqe with rfl | rfl | rfl | rfl
      · exact ⟨Nat.prime_two, by decide +kernel⟩
      · exact ⟨prime_5, by decide +kernel⟩
      · exact ⟨prime_233, by decide +kernel⟩
      · exact ⟨prime_587, by decide +kernel⟩)
theorem prime_1612327 : Nat.Prime 1612327 :=
  pratt_step 1612327 5 [(2,1), (3,1), (268721,1)] (by norm_num) (by decide +kernel) (by decide +kernel)
    (by
      intro qe hqe
      simp only [List.mem_cons, List.mem_nil_iff, or_false] at hqe
      rcases hqe with rfl | rfl | rfl
      · exact ⟨Nat.prime_two, by decide +kernel⟩
      · exact ⟨Nat.prime_three, by decide +kernel⟩
      · exact ⟨prime_268721, by decide +kernel⟩)
theorem prime_4920833 : Nat.Prime 4920833 :=
  pratt_step 4920833 3 [(2,9), (7,1), (1373,1)] (by norm_num) (by decide +kernel) (by decide +kernel)
    (by
      intro qe hqe
      simp only [List.mem_cons, List.mem_nil_iff, or_false] at hqe
      rcases hqe with rfl | rfl | rfl
      · exact ⟨Nat.prime_two, by decide +kernel⟩
      · exact ⟨prime_7, by decide +kernel⟩
      · exact ⟨prime_1373, by decide +kernel⟩)
theorem prime_5835139 : Nat.Prime 5835139 :=
  pratt_step 5835139 3 [(2,1), (3,1), (61,1), (107,1), (149,1)] (by norm_num) (by decide +kernel) (by decide +kernel)
    (by
      intro qe hqe
      simp only [List.mem_cons, List.mem_nil_iff, or_false] at hqe
      rcases hqe with rfl | rfl | rfl | rfl | rfl
      · exact ⟨Nat.prime_two, by decide +kernel⟩
      · exact ⟨Nat.prime_three, by decide +kernel⟩
      · exact ⟨prime_61, by decide +kernel⟩
      · exact ⟨prime_107, by decide +kernel⟩
      · exact ⟨prime_149, by decide +kernel⟩)
theorem prime_5864401 : Nat.Prime 5864401 :=
  pratt_step 5864401 38 [(2,4), (3,4), (5,2), (181,1)] (by norm_num) (by decide +kernel) (by decide +kernel)
    (by
      intro qe hqe
      simp only [List.mem_cons, List.mem_nil_iff, or_false] at hqe
      rcases hqe with rfl | rfl | rfl | rfl
      · exact ⟨Nat.prime_two, by decide +kernel⟩
      · exact ⟨Nat.prime_three, by decide +kernel⟩
      · exact ⟨prime_5, by decide +kernel⟩
      · exact ⟨prime_181, by decide +kernel⟩)
theorem prime_6716327 : Nat.Prime 6716327 :=
  pratt_step 6716327 5 [(2,1), (17,1), (197539,1)] (by norm_num) (by decide +kernel) (by decide +kernel)
    (by
      intro qe hqe
      simp only [List.mem_cons, List.mem_nil_iff, or_false] at hqe
      rcases hqe with rfl | rfl | rfl
      · exact ⟨Nat.prime_two, by decide +kernel⟩
      · exact ⟨prime_17, by decide +kernel⟩
      · exact ⟨prime_197539, by decide +kernel⟩)
theorem prime_12211063 : Nat.Prime 12211063 :=
  pratt_step 12211063 5 [(2,1), (3,1), (103,1), (19759,1)] (by norm_num) (by decide +kernel) (by decide +kernel)
    (by
      intro qe hqe
      simp only [List.mem_cons, List.mem_nil_iff, or_false] at hqe
      rcases hqe with rfl | rfl | rfl | rfl
      · exact ⟨Nat.prime_two, by decide +kernel⟩
      · exact ⟨Nat.prime_three, by decide +kernel⟩
      · exact ⟨prime_103, by decide +kernel⟩
      · exact ⟨prime_19759, by decide +kernel⟩)
theorem prime_40297963 : Nat.Prime 40297963 :=
  pratt_step 40297963 2 [(2,1), (3,1), (6716327,1)] (by norm_num) (by decide +kernel) (by decide +kernel)
    (by
      intro qe hqe
      simp only [List.mem_cons, List.mem_nil_iff, or_false] at hqe
      rcases hqe with rfl | rfl | rfl
      · exact ⟨Nat.prime_two, by decide +kernel⟩
      · exact ⟨Nat.prime_three, by decide +kernel⟩
      · exact ⟨prime_6716327, by decide +kernel⟩)
theorem prime_52872661 : Nat.Prime 52872661 :=
  pratt_step 52872661 2 [(2,2), (3,2), (5,1), (83,1), (3539,1)] (by norm_num) (by decide +kernel) (by decide +kernel)
    (by
      intro qe hqe
      simp only [List.mem_cons, List.mem_nil_iff, or_false] at hqe
      rcases hqe with rfl | rfl | rfl | rfl | rfl
      · exact ⟨Nat.prime_two, by decide +kernel⟩
      · exact ⟨Nat.prime_three, by decide +kernel⟩
      · exact ⟨prime_5, by decide +kernel⟩
      · exact ⟨prime_83, by decide +kernel⟩
      · exact ⟨prime_3539, by decide +kernel⟩)
theorem prime_241787779 : Nat.Prime 241787779 :=
  pratt_step 241787779 2 [(2,1), (3,1), (40297963,1)] (by norm_num) (by decide +kernel) (by decide +kernel)
    (by
      intro qe hqe
      simp only [List.mem_cons, List.mem_nil_iff, or_false] at hqe
      rcases hqe with rfl | rfl | rfl
      · exact ⟨Nat.prime_two, by decide +kernel⟩
      · exact ⟨Nat.prime_three, by decide +kernel⟩
      · exact ⟨prime_40297963, by decide +kernel⟩)
theorem prime_758568071 : Nat.Prime 758568071 :=
  pratt_step 758568071 14 [(2,1), (5,1), (13,1), (5835139,1)] (by norm_num) (by decide +kernel) (by decide +kernel)
    (by
      intro qe hqe
      simp only [List.mem_cons, List.mem_nil_iff, or_false] at hqe
      rcases hqe with rfl | rfl | rfl | rfl
      · exact ⟨Nat.prime_two, by decide +kernel⟩
      · exact ⟨prime_5, by decide +kernel⟩
      · exact ⟨prime_13, by decide +kernel⟩
      · exact ⟨prime_5835139, by decide +kernel⟩)
theorem prime_810774871 : Nat.Prime 810774871 :=
  pratt_step 810774871 11 [(2,1), (3,1), (5,1), (89,1), (151,1), (2011,1)] (by norm_num) (by decide +kernel) (by decide +kernel)
    (by
      intro qe hqe
      simp only [List.mem_cons, List.mem_nil_iff, or_false] at hqe
      rcases hqe with rfl | rfl | rfl | rfl | rfl | rfl
      · exact ⟨Nat.prime_two, by decide +kernel⟩
      · exact ⟨Nat.prime_three, by decide +kernel⟩
      · exact ⟨prime_5, by decide +kernel⟩
      · exact ⟨prime_89, by decide +kernel⟩
      · exact ⟨prime_151, by decide +kernel⟩
      · exact ⟨prime_2011, by decide +kernel⟩)
theorem prime_1402724681 : Nat.Prime 1402724681 :=
  pratt_step 1402724681 3 [(2,3), (5,1), (7,1), (1307,1), (3833,1)] (by norm_num) (by decide +kernel) (by decide +kernel)
    (by
      intro qe hqe
      simp only [List.mem_cons, List.mem_nil_iff, or_false] at hqe
      rcases hqe with rfl | rfl | rfl | rfl | rfl
      · exact ⟨Nat.prime_two, by decide +kernel⟩
      · exact ⟨prime_5, by decide +kernel⟩
      · exact ⟨prime_7, by decide +kernel⟩
      · exact ⟨prime_1307, by decide +kernel⟩
      · exact ⟨prime_3833, by decide +kernel⟩)
theorem prime_17367825521 : Nat.Prime 17367825521 :=
  pratt_step 17367825521 3 [(2,4), (5,1), (19,2), (601379,1)] (by norm_num) (by decide +kernel) (by decide +kernel)
    (by
      intro qe hqe
      simp only [List.mem_cons, List.mem_nil_iff, or_false] at hqe
      rcases hqe with rfl | rfl | rfl | rfl
      · exact ⟨Nat.prime_two, by decide +kernel⟩
      · exact ⟨prime_5, by decide +kernel⟩
      · exact ⟨prime_19, by decide +kernel⟩
      · exact ⟨prime_601379, by decide +kernel⟩)
theorem prime_63240439939 : Nat.Prime 63240439939 :=
  pratt_step 63240439939 3 [(2,1), (3,1), (13,1), (810774871,1)] (by norm_num) (by decide +kernel) (by decide +kernel)
    (by
      intro qe hqe
      simp only [List.mem_cons, List.mem_nil_iff, or_false] at hqe
      rcases hqe with rfl | rfl | rfl | rfl
      · exact ⟨Nat.prime_two, by decide +kernel⟩
      · exact ⟨Nat.prime_three, by decide +kernel⟩
      · exact ⟨prime_13, by decide +kernel⟩
      · exact ⟨prime_810774871, by decide +kernel⟩)
theorem prime_1435735831703 : Nat.Prime 1435735831703 :=
  pratt_step 1435735831703 5 [(2,1), (2969,1), (241787779,1)] (by norm_num) (by decide +kernel) (by decide +kernel)
    (by
      intro qe hqe
      simp only [List.mem_cons, List.mem_nil_iff, or_false] at hqe
      rcases hqe with rfl | rfl | rfl
      · exact ⟨Nat.prime_two, by decide +kernel⟩
      · exact ⟨prime_2969, by decide +kernel⟩
      · exact ⟨prime_241787779, by decide +kernel⟩)
theorem prime_1770732318293 : Nat.Prime 1770732318293 :=
  pratt_step 1770732318293 2 [(2,2), (7,1), (63240439939,1)] (by norm_num) (by decide +kernel) (by decide +kernel)
    (by
      intro qe hqe
      simp only [List.mem_cons, List.mem_nil_iff, or_false] at hqe
      rcases hqe with rfl | rfl | rfl
      · exact ⟨Nat.prime_two, by decide +kernel⟩
      · exact ⟨prime_7, by decide +kernel⟩
      · exact ⟨prime_63240439939, by decide +kernel⟩)
theorem prime_1875725156269 : Nat.Prime 1875725156269 :=
  pratt_step 1875725156269 2 [(2,2), (3,3), (17367825521,1)] (by norm_num) (by decide +kernel) (by decide +kernel)
    (by
      intro qe hqe
      simp only [List.mem_cons, List.mem_nil_iff, or_false] at hqe
      rcases hqe with rfl | rfl | rfl
      · exact ⟨Nat.prime_two, by decide +kernel⟩
      · exact ⟨Nat.prime_three, by decide +kernel⟩
      · exact ⟨prime_17367825521, by decide +kernel⟩)
theorem prime_12192593745179 : Nat.Prime 12192593745179 :=
  pratt_step 12192593745179 2 [(2,1), (7,1), (11,1), (107,1), (541,1), (1367711,1)] (by norm_num) (by decide +kernel) (by decide +kernel)
    (by
      intro qe hqe
      simp only [List.mem_cons, List.mem_nil_iff, or_false] at hqe
      rcases hqe with rfl | rfl | rfl | rfl | rfl | rfl
      · exact ⟨Nat.prime_two, by decide +kernel⟩
      · exact ⟨prime_7, by decide +kernel⟩
      · exact ⟨prime_11, by decide +kernel⟩
      · exact ⟨prime_107, by decide +kernel⟩
      · exact ⟨prime_541, by decide +kernel⟩
      · exact ⟨prime_1367711, by decide +kernel⟩)
theorem prime_16297965815447 : Nat.Prime 16297965815447 :=
  pratt_step 16297965815447 5 [(2,1), (7,3), (68059,1), (349079,1)] (by norm_num) (by decide +kernel) (by decide +kernel)
    (by
      intro qe hqe
      simp only [List.mem_cons, List.mem_nil_iff, or_false] at hqe
      rcases hqe with rfl | rfl | rfl | rfl
      · exact ⟨Nat.prime_two, by decide +kernel⟩
      · exact ⟨prime_7, by decide +kernel⟩
      · exact ⟨prime_68059, by decide +kernel⟩
      · exact ⟨prime_349079, by decide +kernel⟩)
theorem prime_512088937297519 : Nat.Prime 512088937297519 :=
  pratt_step 512088937297519 6 [(2,1), (3,1), (7,1), (12192593745179,1)] (by norm_num) (by decide +kernel) (by decide +kernel)
    (by
      intro qe hqe
      simp only [List.mem_cons, List.mem_nil_iff, or_false] at hqe
      rcases hqe with rfl | rfl | rfl | rfl
      · exact ⟨Nat.prime_two, by decide +kernel⟩
      · exact ⟨Nat.prime_three, by decide +kernel⟩
      · exact ⟨prime_7, by decide +kernel⟩
      · exact ⟨prime_12192593745179, by decide +kernel⟩)
theorem prime_677736056450657 : Nat.Prime 677736056450657 :=
  pratt_step 677736056450657 3 [(2,5), (7,1), (23,1), (83,1), (983,1), (1612327,1)] (by norm_num) (by decide +kernel) (by decide +kernel)
    (by
      intro qe hqe
      simp only [List.mem_cons, List.mem_nil_iff, or_false] at hqe
      rcases hqe with rfl | rfl | rfl | rfl | rfl | rfl
      · exact ⟨Nat.prime_two, by decide +kernel⟩
      · exact ⟨prime_7, by decide +kernel⟩
      · exact ⟨prime_23, by decide +kernel⟩
      · exact ⟨prime_83, by decide +kernel⟩
      · exact ⟨prime_983, by decide +kernel⟩
      · exact ⟨prime_1612327, by decide +kernel⟩)
theorem prime_1309000310535827101 : Nat.Prime 1309000310535827101 :=
  pratt_step 1309000310535827101 2 [(2,2), (3,1), (5,2), (43,1), (133769,1), (758568071,1)] (by norm_num) (by decide +kernel) (by decide +kernel)
    (by
      intro qe hqe
      simp only [List.mem_cons, List.mem_nil_iff, or_false] at hqe
      rcases hqe with rfl | rfl | rfl | rfl | rfl | rfl
      · exact ⟨Nat.prime_two, by decide +kernel⟩
      · exact ⟨Nat.prime_three, by decide +kernel⟩
      · exact ⟨prime_5, by decide +kernel⟩
      · exact ⟨prime_43, by decide +kernel⟩
      · exact ⟨prime_133769, by decide +kernel⟩
      · exact ⟨prime_758568071, by decide +kernel⟩)
theorem prime_1857858664515398933 : Nat.Prime 1857858664515398933 :=
  pratt_step 1857858664515398933 2 [(2,2), (907,1), (512088937297519,1)] (by norm_num) (by decide +kernel) (by decide +kernel)
    (by
      intro qe hqe
      simp only [List.mem_cons, List.mem_nil_iff, or_false] at hqe
      rcases hqe with rfl | rfl | rfl
      · exact ⟨Nat.prime_two, by decide +kernel⟩
      · exact ⟨prime_907, by decide +kernel⟩
      · exact ⟨prime_512088937297519, by decide +kernel⟩)
theorem prime_21561538103037546247 : Nat.Prime 21561538103037546247 :=
  pratt_step 21561538103037546247 5 [(2,1), (3,3), (225493,1), (1770732318293,1)] (by norm_num) (by decide +kernel) (by decide +kernel)
    (by
      intro qe hqe
      simp only [List.mem_cons, List.mem_nil_iff, or_false] at hqe
      rcases hqe with rfl | rfl | rfl | rfl
      · exact ⟨Nat.prime_two, by decide +kernel⟩
      · exact ⟨Nat.prime_three, by decide +kernel⟩
      · exact ⟨prime_225493, by decide +kernel⟩
      · exact ⟨prime_1770732318293, by decide +kernel⟩)
theorem prime_22294303974184787197 : Nat.Prime 22294303974184787197 :=
  pratt_step 22294303974184787197 14 [(2,2), (3,1), (1857858664515398933,1)] (by norm_num) (by decide +kernel) (by decide +kernel)
    (by
      intro qe hqe
      simp only [List.mem_cons, List.mem_nil_iff, or_false] at hqe
      rcases hqe with rfl | rfl | rfl
      · exact ⟨Nat.prime_two, by decide +kernel⟩
      · exact ⟨Nat.prime_three, by decide +kernel⟩
      · exact ⟨prime_1857858664515398933, by decide +kernel⟩)
theorem prime_86246152412150184989 : Nat.Prime 86246152412150184989 :=
  pratt_step 86246152412150184989 2 [(2,2), (21561538103037546247,1)] (by norm_num) (by decide +kernel) (by decide +kernel)
    (by
      intro qe hqe
      simp only [List.mem_cons, List.mem_nil_iff, or_false] at hqe
      rcases hqe with rfl | rfl
      · exact ⟨Nat.prime_two, by decide +kernel⟩
      · exact ⟨prime_21561538103037546247, by decide +kernel⟩)
theorem prime_209661715479349446893 : Nat.Prime 209661715479349446893 :=
  pratt_step 209661715479349446893 2 [(2,2), (77339,1), (677736056450657,1)] (by norm_num) (by decide +kernel) (by decide +kernel)
    (by
      intro qe hqe
      simp only [List.mem_cons, List.mem_nil_iff, or_false] at hqe
      rcases hqe with rfl | rfl | rfl
      · exact ⟨Nat.prime_two, by decide +kernel⟩
      · exact ⟨prime_77339, by decide +kernel⟩
      · exact ⟨prime_677736056450657, by decide +kernel⟩)
theorem prime_19931107752921199754119 : Nat.Prime 19931107752921199754119 :=
  pratt_step 19931107752921199754119 3 [(2,1), (3,1), (149,1), (22294303974184787197,1)] (by norm_num) (by decide +kernel) (by decide +kernel)
    (by
      intro qe hqe
      simp only [List.mem_cons, List.mem_nil_iff, or_false] at hqe
      rcases hqe with rfl | rfl | rfl | rfl
      · exact ⟨Nat.prime_two, by decide +kernel⟩
      · exact ⟨Nat.prime_three, by decide +kernel⟩
      · exact ⟨prime_149, by decide +kernel⟩
      · exact ⟨prime_22294303974184787197, by decide +kernel⟩)
theorem prime_3458579658547348475946929 : Nat.Prime 3458579658547348475946929 :=
  pratt_step 3458579658547348475946929 3 [(2,4), (1031,1), (209661715479349446893,1)] (by norm_num) (by decide +kernel) (by decide +kernel)
    (by
      intro qe hqe
      simp only [List.mem_cons, List.mem_nil_iff, or_false] at hqe
      rcases hqe with rfl | rfl | rfl
      · exact ⟨Nat.prime_two, by decide +kernel⟩
      · exact ⟨prime_1031, by decide +kernel⟩
      · exact ⟨prime_209661715479349446893, by decide +kernel⟩)
theorem prime_213235097339095295568608163219551 : Nat.Prime 213235097339095295568608163219551 :=
  pratt_step 213235097339095295568608163219551 31 [(2,1), (5,2), (1233079,1), (3458579658547348475946929,1)] (by norm_num) (by decide +kernel) (by decide +kernel)
    (by
      intro qe hqe
      simp only [List.mem_cons, List.mem_nil_iff, or_false] at hqe
      rcases hqe with rfl | rfl | rfl | rfl
      · exact ⟨Nat.prime_two, by decide +kernel⟩
      · exact ⟨prime_5, by decide +kernel⟩
      · exact ⟨prime_1233079, by decide +kernel⟩
      · exact ⟨prime_3458579658547348475946929, by decide +kernel⟩)
theorem prime_81162125843606155545104998607900118769099783 : Nat.Prime 81162125843606155545104998607900118769099783 :=
  pratt_step 81162125843606155545104998607900118769099783 5 [(2,1), (3,2), (2731,1), (57697,1), (1435735831703,1), (19931107752921199754119,1)] (by norm_num) (by decide +kernel) (by decide +kernel)
    (by
      intro qe hqe
      simp only [List.mem_cons, List.mem_nil_iff, or_false] at hqe
      rcases hqe with rfl | rfl | rfl | rfl | rfl | rfl
      · exact ⟨Nat.prime_two, by decide +kernel⟩
      · exact ⟨Nat.prime_three, by decide +kernel⟩
      · exact ⟨prime_2731, by decide +kernel⟩
      · exact ⟨prime_57697, by decide +kernel⟩
      · exact ⟨prime_1435735831703, by decide +kernel⟩
      · exact ⟨prime_19931107752921199754119, by decide +kernel⟩)
theorem prime_197620364512881247228717050342013327560683201906968909 : Nat.Prime 197620364512881247228717050342013327560683201906968909 :=
  pratt_step 197620364512881247228717050342013327560683201906968909 2 [(2,2), (3,1), (59,1), (1309000310535827101,1), (213235097339095295568608163219551,1)] (by norm_num) (by decide +kernel) (by decide +kernel)
    (by
      intro qe hqe
      simp only [List.mem_cons, List.mem_nil_iff, or_false] at hqe
      rcases hqe with rfl | rfl | rfl | rfl | rfl
      · exact ⟨Nat.prime_two, by decide +kernel⟩
      · exact ⟨Nat.prime_three, by decide +kernel⟩
      · exact ⟨prime_59, by decide +kernel⟩
      · exact ⟨prime_1309000310535827101, by decide +kernel⟩
      · exact ⟨prime_213235097339095295568608163219551, by decide +kernel⟩)
theorem prime_26935696298915610574513298451669528361624243820491956655650666425177 : Nat.Prime 26935696298915610574513298451669528361624243820491956655650666425177 :=
  pratt_step 26935696298915610574513298451669528361624243820491956655650666425177 3 [(2,3), (13,1), (37,1), (86246152412150184989,1), (81162125843606155545104998607900118769099783,1)] (by norm_num) (by decide +kernel) (by decide +kernel)
    (by
      intro qe hqe
      simp only [List.mem_cons, List.mem_nil_iff, or_false] at hqe
      rcases hqe with rfl | rfl | rfl | rfl | rfl
      · exact ⟨Nat.prime_two, by decide +kernel⟩
      · exact ⟨prime_13, by decide +kernel⟩
      · exact ⟨prime_37, by decide +kernel⟩
      · exact ⟨prime_86246152412150184989, by decide +kernel⟩
      · exact ⟨prime_81162125843606155545104998607900118769099783, by decide +kernel⟩)
theorem prime_4638704574076146691498289350639807119782054683906549022985642612861209609656189848749536921852444848596916990932297 : Nat.Prime 4638704574076146691498289350639807119782054683906549022985642612861209609656189848749536921852444848596916990932297 :=
  pratt_step 4638704574076146691498289350639807119782054683906549022985642612861209609656189848749536921852444848596916990932297 3 [(2,3), (373,1), (8329,1), (37501,1), (661873,1), (12211063,1), (1402724681,1), (16297965815447,1), (26935696298915610574513298451669528361624243820491956655650666425177,1)] (by norm_num) (by decide +kernel) (by decide +kernel)
    (by
      intro qe hqe
      simp only [List.mem_cons, List.mem_nil_iff, or_false] at hqe
      rcases hqe with rfl | rfl | rfl | rfl | rfl | rfl | rfl | rfl | rfl
      · exact ⟨Nat.prime_two, by decide +kernel⟩
      · exact ⟨prime_373, by decide +kernel⟩
      · exact ⟨prime_8329, by decide +kernel⟩
      · exact ⟨prime_37501, by decide +kernel⟩
      · exact ⟨prime_661873, by decide +kernel⟩
      · exact ⟨prime_12211063, by decide +kernel⟩
      · exact ⟨prime_1402724681, by decide +kernel⟩
      · exact ⟨prime_16297965815447, by decide +kernel⟩
      · exact ⟨prime_26935696298915610574513298451669528361624243820491956655650666425177, by decide +kernel⟩)
theorem prime_402096035359507321594726366720466575392706800671181159425656785868777272553337714697862511267018014931937703598282857976535744623203249 : Nat.Prime 402096035359507321594726366720466575392706800671181159425656785868777272553337714697862511267018014931937703598282857976535744623203249 :=
  pratt_step 402096035359507321594726366720466575392706800671181159425656785868777272553337714697862511267018014931937703598282857976535744623203249 13 [(2,4), (3,1), (11,1), (631,1), (4920833,1), (52872661,1), (4638704574076146691498289350639807119782054683906549022985642612861209609656189848749536921852444848596916990932297,1)] (by norm_num) (by decide +kernel) (by decide +kernel)
    (by
      intro qe hqe
      simp only [List.mem_cons, List.mem_nil_iff, or_false] at hqe
      rcases hqe with rfl | rfl | rfl | rfl | rfl | rfl | rfl
      · exact ⟨Nat.prime_two, by decide +kernel⟩
      · exact ⟨Nat.prime_three, by decide +kernel⟩
      · exact ⟨prime_11, by decide +kernel⟩
      · exact ⟨prime_631, by decide +kernel⟩
      · exact ⟨prime_4920833, by decide +kernel⟩
      · exact ⟨prime_52872661, by decide +kernel⟩
      · exact ⟨prime_4638704574076146691498289350639807119782054683906549022985642612861209609656189848749536921852444848596916990932297, by decide +kernel⟩)
end PyEcc.Pratt
