/-
  PyEcc.Sem.FqpQuot — the coefficient-list model `PyEcc.Fqp` of `FQP`/`FQ2`/`FQ12` read in the
  quotient ring `(ZMod p)[X] / (X^d + Σ mcᵢ Xⁱ)`.

  * `ev p l`            : the polynomial `Σ lᵢ Xⁱ` over `ZMod p`
  * `modulus p mc`      : `X^d + ev mc` (monic of degree `d = mc.length`)
  * `evQ p mc l`        : the class of `ev p l` in `AdjoinRoot (modulus p mc)`
  * `toQ x`             : `evQ` of the coefficient list of an `Fqp` element
  * `toQ_add … toQ_pow` : every operation of the model is the ring operation of the quotient
  * `evQ_inj`           : two canonical coefficient lists with the same class are equal
-/
import Mathlib.RingTheory.AdjoinRoot
import Mathlib.Data.ZMod.Basic
import Mathlib.Algebra.Polynomial.Monic
import PyEcc.Model.Fqp

namespace PyEcc.FqpSem
open Polynomial PyEcc.Fqp

/-! ### `ev`: coefficient list ↦ polynomial -/

/-- `Σ lᵢ Xⁱ` over `ZMod p` (lowest degree first). -/
noncomputable def ev (p : ℕ) : List Int → (ZMod p)[X]
  | [] => 0
  | c :: cs => C (c : ZMod p) + X * ev p cs

variable {p : ℕ}

@[simp] theorem ev_nil : ev p [] = 0 := rfl
@[simp] theorem ev_cons (c : Int) (cs : List Int) : ev p (c :: cs) = C (c : ZMod p) + X * ev p cs := rfl

theorem getI_nil (i : Nat) : getI [] i = 0 := by simp [getI]
@[simp] theorem getI_cons_zero (x : Int) (xs : List Int) : getI (x :: xs) 0 = x := by simp [getI]
@[simp] theorem getI_cons_succ (x : Int) (xs : List Int) (i : Nat) :
    getI (x :: xs) (i + 1) = getI xs i := by simp [getI]

theorem getI_of_le (l : List Int) (i : Nat) (h : l.length ≤ i) : getI l i = 0 := by
  simp [getI, List.getElem?_eq_none h]

theorem ev_append (a b : List Int) : ev p (a ++ b) = ev p a + X ^ a.length * ev p b := by
  induction a with
  | nil => simp
  | cons x xs ih => simp [ih, pow_succ]; ring

theorem ev_replicate_zero (n : Nat) : ev p (List.replicate n 0) = 0 := by
  induction n with
  | zero => rfl
  | succ n ih => simp [List.replicate_succ, ih]

theorem ev_map_mod (l : List Int) : ev p (l.map (fun c => c % (p : Int))) = ev p l := by
  induction l with
  | nil => rfl
  | cons x xs ih => simp [ih, ZMod.intCast_mod]

theorem ev_updAt (l : List Int) (i : Nat) (f : Int → Int) (h : i < l.length) :
    ev p (updAt l i f) = ev p l + C (((f (getI l i) - getI l i : ℤ)) : ZMod p) * X ^ i := by
  induction l generalizing i with
  | nil => simp at h
  | cons x xs ih =>
    cases i with
    | zero => simp [updAt]; ring
    | succ i =>
      have h' : i < xs.length := by simpa using h
      simp only [updAt, ev_cons, getI_cons_succ, ih i h', pow_succ]
      ring

theorem ev_eq_sum (l : List Int) :
    ev p l = ∑ i ∈ Finset.range l.length, C ((getI l i : ℤ) : ZMod p) * X ^ i := by
  induction l with
  | nil => simp
  | cons x xs ih =>
    rw [List.length_cons, Finset.sum_range_succ', ev_cons, ih, Finset.mul_sum]
    simp only [getI_cons_succ, getI_cons_zero, pow_zero, mul_one, pow_succ]
    rw [add_comm]
    congr 1
    apply Finset.sum_congr rfl
    intro i _
    ring

theorem ev_eq_sum_of_le (l : List Int) (n : Nat) (h : l.length ≤ n) :
    ev p l = ∑ i ∈ Finset.range n, C ((getI l i : ℤ) : ZMod p) * X ^ i := by
  rw [ev_eq_sum]
  apply Finset.sum_subset (by simpa using h)
  intro i _ hi
  simp only [Finset.mem_range, not_lt] at hi
  simp [getI_of_le l i hi]

theorem coeff_ev (l : List Int) (i : Nat) : (ev p l).coeff i = ((getI l i : ℤ) : ZMod p) := by
  induction l generalizing i with
  | nil => simp [getI_nil]
  | cons x xs ih =>
    cases i with
    | zero => simp
    | succ i => rw [ev_cons, coeff_add, coeff_C_succ, coeff_X_mul, ih]; simp

theorem degree_ev_lt (l : List Int) : (ev p l).degree < l.length := by
  rw [degree_lt_iff_coeff_zero]
  intro m hm
  rw [coeff_ev, getI_of_le l m (by exact_mod_cast hm)]
  simp

theorem ev_dropLast (l : List Int) (h : l ≠ []) :
    ev p l = ev p l.dropLast + C (((l.getLast?.getD 0 : ℤ)) : ZMod p) * X ^ (l.length - 1) := by
  conv_lhs => rw [← List.dropLast_append_getLast h]
  rw [ev_append, List.length_dropLast, List.getLast?_eq_some_getLast h]
  simp
  ring

theorem ev_zipWith_add (a b : List Int) (h : a.length = b.length) :
    ev p (List.zipWith (· + ·) a b) = ev p a + ev p b := by
  induction a generalizing b with
  | nil => cases b <;> simp_all
  | cons x xs ih =>
    cases b with
    | nil => simp at h
    | cons y ys =>
      have h' : xs.length = ys.length := by simpa using h
      simp [ih ys h']; ring

theorem ev_zipWith_sub (a b : List Int) (h : a.length = b.length) :
    ev p (List.zipWith (· - ·) a b) = ev p a - ev p b := by
  induction a generalizing b with
  | nil => cases b <;> simp_all
  | cons x xs ih =>
    cases b with
    | nil => simp at h
    | cons y ys =>
      have h' : xs.length = ys.length := by simpa using h
      simp [ih ys h']; ring

theorem ev_map_neg (a : List Int) : ev p (a.map (fun c => -c)) = - ev p a := by
  induction a with
  | nil => simp
  | cons x xs ih => simp [ih]; ring

theorem ev_map_mul (a : List Int) (k : Int) :
    ev p (a.map (fun c => c * k)) = ev p a * C ((k : ℤ) : ZMod p) := by
  induction a with
  | nil => simp
  | cons x xs ih => simp [ih]; ring


/-! ### generic "indexed update loop" lemma -/

/-- A loop `for j in js: acc[idx j] = f j (acc[idx j])` whose body adds `δ j` (modulo `p`) to the entry
    adds `Σ δ j · X^(idx j)` to the polynomial and keeps the length. -/
theorem foldl_updAt {α : Type} (idx : α → Nat) (f : α → Int → Int) (δ : α → ZMod p)
    (hf : ∀ j x, ((f j x : ℤ) : ZMod p) = (x : ZMod p) + δ j)
    (js : List α) (acc : List Int) (h : ∀ j ∈ js, idx j < acc.length) :
    (js.foldl (fun acc j => updAt acc (idx j) (f j)) acc).length = acc.length ∧
    ev p (js.foldl (fun acc j => updAt acc (idx j) (f j)) acc) =
      ev p acc + (js.map (fun j => C (δ j) * X ^ (idx j))).sum := by
  induction js generalizing acc with
  | nil => simp
  | cons j js ih =>
    have hj : idx j < acc.length := h j (by simp)
    have h' : ∀ j' ∈ js, idx j' < (updAt acc (idx j) (f j)).length := by
      intro j' hj'; rw [length_updAt]; exact h j' (by simp [hj'])
    obtain ⟨h1, h2⟩ := ih (updAt acc (idx j) (f j)) h'
    refine ⟨by rw [List.foldl_cons, h1, length_updAt], ?_⟩
    rw [List.foldl_cons, h2, ev_updAt _ _ _ hj, List.map_cons, List.sum_cons]
    have : (((f j (getI acc (idx j)) - getI acc (idx j) : ℤ)) : ZMod p) = δ j := by
      push_cast; rw [hf]; ring
    rw [this]; ring

theorem sum_map_range {M : Type*} [AddCommMonoid M] (g : ℕ → M) (n : ℕ) :
    ((List.range n).map g).sum = ∑ i ∈ Finset.range n, g i := by
  induction n with
  | zero => simp
  | succ n ih => simp [List.range_succ, Finset.sum_range_succ, ih]

/-! ### the schoolbook product loop -/

theorem convLoop_spec (red : Int → Int) (hred : ∀ x, ((red x : ℤ) : ZMod p) = (x : ZMod p))
    (a b : List Int) (d : Nat) (ha : a.length ≤ d) (hb : b.length ≤ d) :
    (convLoop red a b d).length = d * 2 - 1 ∧ ev p (convLoop red a b d) = ev p a * ev p b := by
  unfold convLoop
  have inner : ∀ (i : Nat) (acc : List Int), i < d → acc.length = d * 2 - 1 →
      ((List.range d).foldl (fun acc j =>
        updAt acc (i + j) (fun x => red (x + red (getI a i * getI b j)))) acc).length = d * 2 - 1 ∧
      ev p ((List.range d).foldl (fun acc j =>
        updAt acc (i + j) (fun x => red (x + red (getI a i * getI b j)))) acc) =
        ev p acc + ∑ j ∈ Finset.range d,
          C (((getI a i * getI b j : ℤ)) : ZMod p) * X ^ (i + j) := by
    intro i acc hi hacc
    have := foldl_updAt (p := p) (fun j => i + j)
      (fun j x => red (x + red (getI a i * getI b j)))
      (fun j => (((getI a i * getI b j : ℤ)) : ZMod p))
      (by intro j x; rw [hred]; push_cast; rw [hred]; push_cast; ring)
      (List.range d) acc
      (by intro j hj; rw [List.mem_range] at hj; omega)
    rw [sum_map_range] at this
    exact ⟨this.1.trans hacc, this.2⟩
  have outer : ∀ n, n ≤ d →
      ((List.range n).foldl (fun acc i => (List.range d).foldl (fun acc j =>
        updAt acc (i + j) (fun x => red (x + red (getI a i * getI b j)))) acc)
        (List.replicate (d * 2 - 1) 0)).length = d * 2 - 1 ∧
      ev p ((List.range n).foldl (fun acc i => (List.range d).foldl (fun acc j =>
        updAt acc (i + j) (fun x => red (x + red (getI a i * getI b j)))) acc)
        (List.replicate (d * 2 - 1) 0)) =
        ∑ i ∈ Finset.range n, ∑ j ∈ Finset.range d,
          C (((getI a i * getI b j : ℤ)) : ZMod p) * X ^ (i + j) := by
    intro n
    induction n with
    | zero => intro _; simp [ev_replicate_zero]
    | succ n ih =>
      intro hn
      obtain ⟨h1, h2⟩ := ih (by omega)
      rw [List.range_succ, List.foldl_append, List.foldl_cons, List.foldl_nil]
      obtain ⟨h3, h4⟩ := inner n _ (by omega) h1
      exact ⟨h3, by rw [h4, h2, Finset.sum_range_succ]⟩
  obtain ⟨h1, h2⟩ := outer d le_rfl
  refine ⟨h1, ?_⟩
  rw [h2, ev_eq_sum_of_le a d ha, ev_eq_sum_of_le b d hb, Finset.sum_mul_sum]
  apply Finset.sum_congr rfl; intro i _
  apply Finset.sum_congr rfl; intro j _
  push_cast
  rw [pow_add, C_mul]; ring


/-! ### the modulus and the two reduction loops -/

/-- `X^d + Σ mcᵢ Xⁱ`, the modulus polynomial of the extension (`d = mc.length`). -/
noncomputable def modulus (p : ℕ) (mc : List Int) : (ZMod p)[X] := X ^ mc.length + ev p mc

theorem modulus_monic (mc : List Int) : (modulus p mc).Monic :=
  monic_X_pow_add (degree_ev_lt mc)

theorem natDegree_modulus [Nontrivial (ZMod p)] (mc : List Int) :
    (modulus p mc).natDegree = mc.length := by
  apply natDegree_eq_of_degree_eq_some
  unfold modulus
  rw [degree_add_eq_left_of_degree_lt (by rw [degree_X_pow]; exact degree_ev_lt mc), degree_X_pow]

/-- class of `Σ lᵢ Xⁱ` in `(ZMod p)[X] / (modulus)` -/
noncomputable def evQ (p : ℕ) (mc : List Int) (l : List Int) : AdjoinRoot (modulus p mc) :=
  AdjoinRoot.mk (modulus p mc) (ev p l)

theorem sum_mcTuples (mc : List Int) (top : Int) (exp : Nat) : ∀ s : Nat,
    (((List.zip (List.range' s mc.length) mc).filter (fun ic => ic.2 ≠ 0)).map
      (fun ic => C ((-(top * ic.2) : ℤ) : ZMod p) * X ^ (exp + ic.1))).sum =
    -(C ((top : ℤ) : ZMod p) * X ^ (exp + s) * ev p mc) := by
  induction mc with
  | nil => intro s; simp
  | cons c cs ih =>
    intro s
    rw [List.length_cons, List.range'_succ, List.zip_cons_cons, List.filter_cons]
    by_cases hc : c = 0
    · subst hc
      simp only [ne_eq, not_true_eq_false, decide_false, Bool.false_eq_true, if_false]
      rw [ih (s + 1)]
      simp [pow_succ, pow_add]; ring
    · simp only [ne_eq, hc, not_false_eq_true, decide_true, if_true, List.map_cons, List.sum_cons]
      rw [ih (s + 1)]
      simp [pow_succ, pow_add]; ring

/-- one round of the reference reduction: pop `top`, subtract `top·X^exp·m` -/
theorem refStep_spec (mc : List Int) (exp : Nat) (b : List Int)
    (hb : b.length = exp + mc.length + 1) :
    let top := b.getLast?.getD 0
    let b' := (List.range mc.length).foldl (fun acc i =>
        updAt acc (exp + i) (fun x => (x - (top * (getI mc i % (p : Int))) % (p : Int)) % (p : Int)))
        b.dropLast
    b'.length = exp + mc.length ∧
    ev p b' = ev p b - C ((top : ℤ) : ZMod p) * X ^ exp * modulus p mc := by
  intro top b'
  have hne : b ≠ [] := by intro h; simp [h] at hb
  have := foldl_updAt (p := p) (fun i => exp + i)
    (fun i x => (x - (top * (getI mc i % (p : Int))) % (p : Int)) % (p : Int))
    (fun i => ((-(top * getI mc i) : ℤ) : ZMod p))
    (by intro j x; simp only [ZMod.intCast_mod, Int.cast_sub, Int.cast_mul, Int.cast_neg]; ring)
    (List.range mc.length) b.dropLast
    (by intro j hj; rw [List.mem_range] at hj; rw [List.length_dropLast]; omega)
  obtain ⟨h1, h2⟩ := this
  refine ⟨by rw [h1, List.length_dropLast]; omega, ?_⟩
  show ev p ((List.range mc.length).foldl _ b.dropLast) = _
  rw [h2, sum_map_range, ev_dropLast b hne, hb, modulus, ev_eq_sum mc, mul_add,
    Finset.mul_sum]
  simp only [Nat.add_sub_cancel]
  have : ∀ i, C (((-(top * getI mc i) : ℤ)) : ZMod p) * X ^ (exp + i) =
      -(C ((top : ℤ) : ZMod p) * X ^ exp * (C ((getI mc i : ℤ) : ZMod p) * X ^ i)) := by
    intro i; push_cast; rw [pow_add]; simp only [C_neg, C_mul]; ring
  simp only [this, Finset.sum_neg_distrib]
  rw [pow_add]
  ring

/-- one round of the optimized reduction -/
theorem optStep_spec (mc : List Int) (exp : Nat) (b : List Int)
    (hb : b.length = exp + mc.length + 1) :
    let top := b.getLast?.getD 0
    let b' := ((List.zip (List.range mc.length) mc).filter (fun ic => ic.2 ≠ 0)).foldl
        (fun acc ic => updAt acc (exp + ic.1) (fun x => x - top * ic.2)) b.dropLast
    b'.length = exp + mc.length ∧
    ev p b' = ev p b - C ((top : ℤ) : ZMod p) * X ^ exp * modulus p mc := by
  intro top b'
  have hne : b ≠ [] := by intro h; simp [h] at hb
  have := foldl_updAt (p := p) (fun ic : Nat × Int => exp + ic.1)
    (fun ic x => x - top * ic.2)
    (fun ic => ((-(top * ic.2) : ℤ) : ZMod p))
    (by intro j x; push_cast; ring)
    ((List.zip (List.range mc.length) mc).filter (fun ic => ic.2 ≠ 0)) b.dropLast
    (by
      intro ic hic
      have h1 := (List.of_mem_zip (List.mem_filter.mp hic).1).1
      rw [List.mem_range] at h1
      rw [List.length_dropLast]; omega)
  obtain ⟨h1, h2⟩ := this
  refine ⟨by rw [h1, List.length_dropLast]; omega, ?_⟩
  show ev p (((List.zip (List.range mc.length) mc).filter (fun ic => ic.2 ≠ 0)).foldl _ b.dropLast) = _
  rw [h2, List.range_eq_range', sum_mcTuples mc top exp 0, ev_dropLast b hne, hb, modulus]
  simp only [Nat.add_sub_cancel, Nat.add_zero]
  rw [pow_add]
  ring

theorem refReduce_spec (mc : List Int) : ∀ (f : Nat) (b : List Int),
    mc.length ≤ b.length → b.length ≤ mc.length + f →
    (refReduce p mc mc.length f b).length = mc.length ∧
    evQ p mc (refReduce p mc mc.length f b) = evQ p mc b := by
  intro f
  induction f with
  | zero => intro b h1 h2; exact ⟨by simp [refReduce]; omega, by simp [refReduce]⟩
  | succ f ih =>
    intro b h1 h2
    unfold refReduce
    by_cases hlen : b.length > mc.length
    · rw [if_pos hlen]
      have hb : b.length = (b.length - mc.length - 1) + mc.length + 1 := by omega
      obtain ⟨s1, s2⟩ := refStep_spec (p := p) mc (b.length - mc.length - 1) b hb
      obtain ⟨r1, r2⟩ := ih _ (by rw [s1]; omega) (by rw [s1]; omega)
      refine ⟨r1, ?_⟩
      rw [r2]
      unfold evQ
      rw [s2, map_sub, sub_eq_self, AdjoinRoot.mk_eq_zero]
      exact dvd_mul_left _ _
    · rw [if_neg hlen]
      exact ⟨by omega, rfl⟩

theorem downTo_succ (n : Nat) : downTo (n + 1) = (n + 1) :: downTo n := by
  unfold downTo
  rw [List.range_succ, List.reverse_append]; rfl

theorem optReduce_loop_spec (mc : List Int) : ∀ (n : Nat) (b : List Int),
    b.length = n + mc.length + 1 →
    let step := fun (b : List Int) (exp : Nat) =>
      let top := b.getLast?.getD 0
      let b := b.dropLast
      ((List.zip (List.range mc.length) mc).filter (fun ic => ic.2 ≠ 0)).foldl
        (fun acc ic => updAt acc (exp + ic.1) (fun x => x - top * ic.2)) b
    ((downTo n).foldl step b).length = mc.length ∧
    evQ p mc ((downTo n).foldl step b) = evQ p mc b := by
  intro n
  induction n with
  | zero =>
    intro b hb step
    obtain ⟨s1, s2⟩ := optStep_spec (p := p) mc 0 b hb
    refine ⟨by simpa [downTo, step] using s1, ?_⟩
    show evQ p mc (step b 0) = _
    unfold evQ
    show AdjoinRoot.mk _ (ev p (step b 0)) = _
    rw [show ev p (step b 0) = _ from s2, map_sub, sub_eq_self, AdjoinRoot.mk_eq_zero]
    exact dvd_mul_left _ _
  | succ n ih =>
    intro b hb step
    obtain ⟨s1, s2⟩ := optStep_spec (p := p) mc (n + 1) b hb
    rw [downTo_succ, List.foldl_cons]
    obtain ⟨r1, r2⟩ := ih (step b (n + 1)) (s1.trans (by omega))
    refine ⟨r1, ?_⟩
    rw [r2]
    unfold evQ
    rw [show ev p (step b (n + 1)) = _ from s2, map_sub, sub_eq_self, AdjoinRoot.mk_eq_zero]
    exact dvd_mul_left _ _

theorem optReduce_spec (mc : List Int) (b : List Int) (hb : b.length = mc.length * 2 - 1) :
    (optReduce mc mc.length b).length = mc.length ∧
    evQ p mc (optReduce mc mc.length b) = evQ p mc b := by
  unfold optReduce
  by_cases hd : mc.length < 2
  · simp only [hd, if_true, List.foldl_nil]
    exact ⟨by omega, trivial⟩
  · simp only [hd, if_false]
    exact optReduce_loop_spec mc (mc.length - 2) b (by omega)


/-! ### canonical lists and injectivity -/

/-- a coefficient list of length `d` with all entries in `[0, p)` -/
def CanonL (p d : ℕ) (l : List Int) : Prop := l.length = d ∧ ∀ c ∈ l, 0 ≤ c ∧ c < (p : Int)

instance (p d : ℕ) (l : List Int) : Decidable (CanonL p d l) := by unfold CanonL; infer_instance

theorem canonL_map_mod (hp : 0 < p) (l : List Int) :
    CanonL p l.length (l.map (fun c => c % (p : Int))) := by
  refine ⟨by simp, ?_⟩
  intro c hc
  obtain ⟨x, _, rfl⟩ := List.mem_map.mp hc
  have : (0 : Int) < p := by exact_mod_cast hp
  exact ⟨Int.emod_nonneg _ this.ne', Int.emod_lt_of_pos _ this⟩

theorem ev_inj {d : ℕ} {a b : List Int} (ha : CanonL p d a) (hb : CanonL p d b)
    (h : ev p a = ev p b) : a = b := by
  apply List.ext_getElem (ha.1.trans hb.1.symm)
  intro i h1 h2
  have hc := congrArg (fun q => q.coeff i) h
  simp only [coeff_ev, getI, List.getD_eq_getElem?_getD, List.getElem?_eq_getElem h1,
    List.getElem?_eq_getElem h2, Option.getD_some] at hc
  rw [ZMod.intCast_eq_intCast_iff'] at hc
  have ba := ha.2 _ (List.getElem_mem h1)
  have bb := hb.2 _ (List.getElem_mem h2)
  rwa [Int.emod_eq_of_lt ba.1 ba.2, Int.emod_eq_of_lt bb.1 bb.2] at hc

/-- the power basis argument: canonical coefficient lists with the same class are equal -/
theorem evQ_inj {mc a b : List Int} (ha : CanonL p mc.length a) (hb : CanonL p mc.length b)
    (h : evQ p mc a = evQ p mc b) : a = b := by
  apply ev_inj ha hb
  rcases subsingleton_or_nontrivial (ZMod p) with hs | hn
  · exact Subsingleton.elim _ _
  · unfold evQ at h
    rw [AdjoinRoot.mk_eq_mk] at h
    by_contra hne
    have hne' : ev p a - ev p b ≠ 0 := sub_ne_zero.mpr hne
    refine (modulus_monic mc).not_dvd_of_natDegree_lt hne' ?_ h
    rw [natDegree_modulus]
    have hdeg : (ev p a - ev p b).degree < (mc.length : ℕ) := by
      refine lt_of_le_of_lt (degree_sub_le _ _) (max_lt ?_ ?_)
      · simpa [ha.1] using degree_ev_lt (p := p) a
      · simpa [hb.1] using degree_ev_lt (p := p) b
    exact (natDegree_lt_iff_degree_lt hne').mpr hdeg

/-! ### the operations of `Fqp` in the quotient ring -/

section ops
variable {v : Variant} {mc : List Int}

/-- well-formed element: exactly `d = mc.length` coefficients -/
def WF (x : Fqp v p mc) : Prop := x.coeffs.length = mc.length

/-- canonical element: well-formed with all coefficients in `[0, p)` (what every constructor and
    operation of the Python classes produces) -/
def Canon (x : Fqp v p mc) : Prop := CanonL p mc.length x.coeffs

/-- the value of an element in `(ZMod p)[X] / (X^d + Σ mcᵢ Xⁱ)` -/
noncomputable def toQ (x : Fqp v p mc) : AdjoinRoot (modulus p mc) := evQ p mc x.coeffs

instance (x : Fqp v p mc) : Decidable (WF x) := by unfold WF; infer_instance
instance (x : Fqp v p mc) : Decidable (Canon x) := by unfold Canon; infer_instance

theorem Canon.wf {x : Fqp v p mc} (h : Canon x) : WF x := h.1

theorem toQ_inj {x y : Fqp v p mc} (hx : Canon x) (hy : Canon y) (h : toQ x = toQ y) : x = y := by
  cases x; cases y
  simp only [Fqp.mk.injEq]
  exact evQ_inj hx hy h

theorem toQ_ofInts (cs : List Int) : toQ (ofInts cs : Fqp v p mc) = evQ p mc cs := by
  simp [toQ, ofInts, evQ, ev_map_mod]

theorem wf_ofInts {cs : List Int} (h : cs.length = mc.length) : WF (ofInts cs : Fqp v p mc) := by
  simp [WF, ofInts, h]

theorem canon_ofInts (hp : 0 < p) {cs : List Int} (h : cs.length = mc.length) :
    Canon (ofInts cs : Fqp v p mc) := by
  have := canonL_map_mod hp cs
  rwa [h] at this

theorem toQ_zero : toQ (zero : Fqp v p mc) = 0 := by
  simp [zero, toQ_ofInts, evQ, ev_replicate_zero]

theorem toQ_ofIntScalar (k : Int) :
    toQ (ofIntScalar k : Fqp v p mc) = ((k : ℤ) : AdjoinRoot (modulus p mc)) := by
  simp [ofIntScalar, toQ_ofInts, evQ, ev_replicate_zero]

theorem toQ_one : toQ (one : Fqp v p mc) = 1 := by
  simp [one, toQ_ofInts, evQ, ev_replicate_zero]

theorem toQ_add {a b : Fqp v p mc} (ha : WF a) (hb : WF b) : toQ (add a b) = toQ a + toQ b := by
  rw [add, toQ_ofInts]; simp [evQ, toQ, ev_zipWith_add _ _ (ha.trans hb.symm)]

theorem toQ_sub {a b : Fqp v p mc} (ha : WF a) (hb : WF b) : toQ (sub a b) = toQ a - toQ b := by
  rw [sub, toQ_ofInts]; simp [evQ, toQ, ev_zipWith_sub _ _ (ha.trans hb.symm)]

theorem toQ_neg (a : Fqp v p mc) : toQ (neg a) = - toQ a := by
  rw [neg, toQ_ofInts]; simp [evQ, toQ, ev_map_neg]

theorem toQ_mulInt (a : Fqp v p mc) (k : Int) :
    toQ (mulInt a k) = toQ a * ((k : ℤ) : AdjoinRoot (modulus p mc)) := by
  rw [mulInt, toQ_ofInts]; simp [evQ, toQ, ev_map_mul]

theorem mul_spec {a b : Fqp v p mc} (ha : WF a) (hb : WF b) :
    WF (mul a b) ∧ toQ (mul a b) = toQ a * toQ b := by
  cases v
  · obtain ⟨c1, c2⟩ := convLoop_spec (p := p) (fun x => x % (p : Int))
      (fun x => ZMod.intCast_mod x p) a.coeffs b.coeffs mc.length ha.le hb.le
    obtain ⟨r1, r2⟩ := refReduce_spec (p := p) mc mc.length
      (convLoop (fun x => x % (p : Int)) a.coeffs b.coeffs mc.length)
      (by rw [c1]; omega) (by rw [c1]; omega)
    refine ⟨wf_ofInts r1, ?_⟩
    show toQ (ofInts _) = _
    rw [toQ_ofInts, r2, evQ, c2, map_mul]; rfl
  · obtain ⟨c1, c2⟩ := convLoop_spec (p := p) id (fun _ => rfl) a.coeffs b.coeffs mc.length
      ha.le hb.le
    obtain ⟨r1, r2⟩ := optReduce_spec (p := p) mc (convLoop id a.coeffs b.coeffs mc.length) c1
    refine ⟨wf_ofInts r1, ?_⟩
    show toQ (ofInts _) = _
    rw [toQ_ofInts, r2, evQ, c2, map_mul]; rfl

theorem toQ_mul {a b : Fqp v p mc} (ha : WF a) (hb : WF b) : toQ (mul a b) = toQ a * toQ b :=
  (mul_spec ha hb).2

theorem wf_mul {a b : Fqp v p mc} (ha : WF a) (hb : WF b) : WF (mul a b) := (mul_spec ha hb).1

theorem canon_mul (hp : 0 < p) {a b : Fqp v p mc} (ha : WF a) (hb : WF b) : Canon (mul a b) := by
  have h := wf_mul ha hb
  cases v <;> exact canon_ofInts hp (by simpa [WF, mul, ofInts] using h)

theorem wf_zero : WF (zero : Fqp v p mc) := wf_ofInts (by simp)
theorem wf_one (hd : 1 ≤ mc.length) : WF (one : Fqp v p mc) := wf_ofInts (by simp; omega)
theorem wf_ofIntScalar (hd : 1 ≤ mc.length) (k : Int) : WF (ofIntScalar k : Fqp v p mc) :=
  wf_ofInts (by simp; omega)
theorem wf_add {a b : Fqp v p mc} (ha : WF a) (hb : WF b) : WF (add a b) :=
  wf_ofInts (by unfold WF at ha hb; simp only [List.length_zipWith]; omega)
theorem wf_sub {a b : Fqp v p mc} (ha : WF a) (hb : WF b) : WF (sub a b) :=
  wf_ofInts (by unfold WF at ha hb; simp only [List.length_zipWith]; omega)
theorem wf_neg {a : Fqp v p mc} (ha : WF a) : WF (neg a) := wf_ofInts (by unfold WF at ha; simpa using ha)
theorem wf_mulInt {a : Fqp v p mc} (ha : WF a) (k : Int) : WF (mulInt a k) :=
  wf_ofInts (by unfold WF at ha; simpa using ha)

theorem canon_zero (hp : 0 < p) : Canon (zero : Fqp v p mc) := canon_ofInts hp (by simp)
theorem canon_one (hp : 0 < p) (hd : 1 ≤ mc.length) : Canon (one : Fqp v p mc) :=
  canon_ofInts hp (by simp; omega)
theorem canon_ofIntScalar (hp : 0 < p) (hd : 1 ≤ mc.length) (k : Int) :
    Canon (ofIntScalar k : Fqp v p mc) := canon_ofInts hp (by simp; omega)
theorem canon_add (hp : 0 < p) {a b : Fqp v p mc} (ha : WF a) (hb : WF b) : Canon (add a b) :=
  canon_ofInts hp (by unfold WF at ha hb; simp only [List.length_zipWith]; omega)
theorem canon_sub (hp : 0 < p) {a b : Fqp v p mc} (ha : WF a) (hb : WF b) : Canon (sub a b) :=
  canon_ofInts hp (by unfold WF at ha hb; simp only [List.length_zipWith]; omega)
theorem canon_neg (hp : 0 < p) {a : Fqp v p mc} (ha : WF a) : Canon (neg a) :=
  canon_ofInts hp (by unfold WF at ha; simpa using ha)
theorem canon_mulInt (hp : 0 < p) {a : Fqp v p mc} (ha : WF a) (k : Int) : Canon (mulInt a k) :=
  canon_ofInts hp (by unfold WF at ha; simpa using ha)

theorem powAux_spec : ∀ (f : Nat) (o t : Fqp v p mc) (e : Nat), e < 2 ^ f → WF o → WF t →
    WF (powAux f o t e) ∧ toQ (powAux f o t e) = toQ o * toQ t ^ e := by
  intro f
  induction f with
  | zero =>
    intro o t e h ho _
    have : e = 0 := by simpa using h
    subst this
    exact ⟨ho, by simp [powAux]⟩
  | succ n ih =>
    intro o t e h ho ht
    unfold powAux
    by_cases he : e = 0
    · subst he; simpa using ho
    · rw [if_neg he]
      have h2 : e / 2 < 2 ^ n := by
        rw [Nat.div_lt_iff_lt_mul (by norm_num)]; rw [pow_succ] at h; omega
      have hsplit : e = 2 * (e / 2) + e % 2 := by omega
      by_cases hodd : e % 2 = 1
      · rw [if_pos hodd]
        obtain ⟨w, q⟩ := ih (mul o t) (mul t t) (e / 2) h2 (wf_mul ho ht) (wf_mul ht ht)
        refine ⟨w, ?_⟩
        rw [q, toQ_mul ho ht, toQ_mul ht ht]
        conv_rhs => rw [hsplit, hodd, pow_add, pow_mul, pow_one]
        ring
      · rw [if_neg hodd]
        have hev : e % 2 = 0 := by omega
        obtain ⟨w, q⟩ := ih o (mul t t) (e / 2) h2 ho (wf_mul ht ht)
        refine ⟨w, ?_⟩
        rw [q, toQ_mul ht ht]
        conv_rhs => rw [hsplit, hev, add_zero, pow_mul]
        ring

theorem toQ_pow (hd : 1 ≤ mc.length) {a : Fqp v p mc} (ha : WF a) (n : Nat) :
    toQ (pow a n) = toQ a ^ n := by
  unfold Fqp.pow
  rw [(powAux_spec n one a n Nat.lt_two_pow_self (wf_one hd) ha).2, toQ_one, one_mul]

theorem wf_pow (hd : 1 ≤ mc.length) {a : Fqp v p mc} (ha : WF a) (n : Nat) : WF (pow a n) :=
  (powAux_spec n one a n Nat.lt_two_pow_self (wf_one hd) ha).1

theorem powAux_canon (hp : 0 < p) : ∀ (f : Nat) (o t : Fqp v p mc) (e : Nat), Canon o → WF t →
    Canon (powAux f o t e) := by
  intro f
  induction f with
  | zero => intro o t e ho _; exact ho
  | succ n ih =>
    intro o t e ho ht
    unfold powAux
    by_cases he : e = 0
    · rw [if_pos he]; exact ho
    · rw [if_neg he]
      apply ih _ _ _ _ (wf_mul ht ht)
      split
      · exact canon_mul hp ho.wf ht
      · exact ho

theorem canon_pow (hp : 0 < p) (hd : 1 ≤ mc.length) {a : Fqp v p mc} (ha : WF a) (n : Nat) :
    Canon (pow a n) := powAux_canon hp n one a n (canon_one hp hd) ha

end ops

end PyEcc.FqpSem
