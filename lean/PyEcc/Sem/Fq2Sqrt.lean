/-
  PyEcc.Sem.Fq2Sqrt — `modular_squareroot_in_FQ2` of `py_ecc/bls/point_compression.py` is correct.

  `K2 = (ZMod p)[X]/(X² + 1)` is a field with `p²` elements; `value ^ ((p² + 7)/16)` squared and divided by
  `value` is an eighth root of unity; the table `EIGHTH_ROOTS_OF_UNITY` is `ζ⁰ … ζ⁷` for a primitive eighth
  root `ζ` (kernel evaluation in the executable model, transported through `toQ`); even powers give a root,
  odd powers prove that `value` is a non-square.  The returned root is the one of `y, −y` with the larger
  `(imaginary, real)` coefficient pair, equivalently the one whose ZCash sign flag is 1.

  Model: `PyEcc/Model/Codec.lean` (`modularSquarerootInFq2`, `EIGHTH_ROOTS_OF_UNITY`, `everyOther`).
-/
import PyEcc.Props.C08_FqpInv
import PyEcc.Sem.CodecSemG2
import Mathlib.FieldTheory.Finite.Basic
import Mathlib.FieldTheory.Finiteness
import Mathlib.RingTheory.RootsOfUnity.PrimitiveRoots

set_option maxRecDepth 100000

namespace PyEcc.Fq2Sqrt
open PyEcc PyEcc.Fqp PyEcc.FqpSem PyEcc.CodecSem Gen.Consts

/-! ### the field `K2` -/

/-- `F_{p²} = (ZMod p)[X]/(X² + 1)` for the BLS12-381 base prime -/
abbrev K2 := AdjoinRoot (modulus blsP blsMc2)

instance irr : Fact (Irreducible (modulus blsP blsMc2)) :=
  ⟨irreducible_modulus_fq2 (p := blsP) (by decide)⟩

instance : Module.Finite (ZMod blsP) K2 := (modulus_monic (p := blsP) blsMc2).finite_adjoinRoot
instance : Finite K2 := Module.finite_of_finite (ZMod blsP)
noncomputable instance : Fintype K2 := Fintype.ofFinite K2

theorem card_K2 : Fintype.card K2 = blsP ^ 2 := by
  rw [Module.card_eq_pow_finrank (K := ZMod blsP) (V := K2), ZMod.card]
  congr 1
  rw [(AdjoinRoot.powerBasis' (modulus_monic (p := blsP) blsMc2)).finrank]
  simp [natDegree_modulus]; rfl

/-- Fermat in `F_{p²}`: `t^(p² − 1) = 1` (`FQ2_ORDER = p² − 1`) -/
theorem fermat2 {t : K2} (ht : t ≠ 0) : t ^ blsconst_FQ2_ORDER = 1 := by
  have := FiniteField.pow_card_sub_one_eq_one t ht
  rw [card_K2] at this
  have e : blsconst_FQ2_ORDER = blsP ^ 2 - 1 := by decide
  rw [e]; exact this

/-! ### the model's `FQ2` operations in `K2` -/

theorem hp : 0 < blsP := by decide
theorem hd : 1 ≤ blsMc2.length := by decide

theorem toQ_zero2 : toQ (0 : F2) = 0 := toQ_zero
theorem toQ_one2 : toQ (1 : F2) = 1 := toQ_one
theorem canon_zero2 : Canon (0 : F2) := canon_zero hp
theorem canon_one2 : Canon (1 : F2) := canon_one hp hd
theorem toQ_mul2 {a b : F2} (ha : WF a) (hb : WF b) : toQ (a * b) = toQ a * toQ b := toQ_mul ha hb
theorem canon_mul2 {a b : F2} (ha : WF a) (hb : WF b) : Canon (a * b) := canon_mul hp ha hb
theorem toQ_add2 {a b : F2} (ha : WF a) (hb : WF b) : toQ (a + b) = toQ a + toQ b := toQ_add ha hb
theorem canon_add2 {a b : F2} (ha : WF a) (hb : WF b) : Canon (a + b) := canon_add hp ha hb
theorem toQ_sub2 {a b : F2} (ha : WF a) (hb : WF b) : toQ (a - b) = toQ a - toQ b := toQ_sub ha hb
theorem canon_sub2 {a b : F2} (ha : WF a) (hb : WF b) : Canon (a - b) := canon_sub hp ha hb
theorem toQ_pow2 {a : F2} (ha : WF a) (n : ℕ) : toQ (a ^ n) = toQ a ^ n := toQ_pow hd ha n
theorem canon_pow2 {a : F2} (ha : WF a) (n : ℕ) : Canon (a ^ n) := canon_pow hp hd ha n
theorem toQ_neg2 (a : F2) : toQ (-a) = -toQ a := toQ_neg a
theorem canon_neg2 {a : F2} (ha : WF a) : Canon (-a) := canon_neg hp ha

theorem eq_zero_iff {a : F2} (ha : Canon a) : a = 0 ↔ toQ a = 0 := by
  constructor
  · rintro rfl; exact toQ_zero2
  · intro h; exact toQ_inj ha canon_zero2 (h.trans toQ_zero2.symm)

theorem canon_inv2 {b : F2} (hb : Canon b) : Canon (Fqp.inv b) := by
  by_cases h : b = 0
  · rw [h, C08P.inv_zero]; exact canon_zero2
  · exact (C08P.inv_refines hd irr.out sane_fq2 hb h).1

theorem toQ_inv2 {b : F2} (hb : Canon b) : toQ (Fqp.inv b) = (toQ b)⁻¹ := by
  by_cases h : b = 0
  · rw [h, C08P.inv_zero, toQ_zero2, inv_zero]
  · exact (C08P.inv_div_spec (a := b) hd sane_fq2 hb hb h).1

theorem canon_div2 {a b : F2} (ha : Canon a) (hb : Canon b) : Canon (a / b) :=
  canon_mul hp ha.wf (canon_inv2 hb).wf

/-- `/` of the model is the field division of `K2`, including `x / 0 = 0` -/
theorem toQ_div2 {a b : F2} (ha : Canon a) (hb : Canon b) : toQ (a / b) = toQ a / toQ b := by
  show toQ (Fqp.mul a (Fqp.inv b)) = _
  rw [toQ_mul ha.wf (canon_inv2 hb).wf, toQ_inv2 hb, div_eq_mul_inv]

/-! ### the table of eighth roots of unity -/

/-- `ζ = EIGHTH_ROOTS_OF_UNITY[1]` -/
def zeta : F2 := EIGHTH_ROOTS_OF_UNITY.getD 1 default

/-- the table is `ζ⁰, ζ¹, …, ζ⁷` (kernel evaluation) -/
theorem table_eq : EIGHTH_ROOTS_OF_UNITY = (List.range 8).map (fun k => zeta ^ k) := by decide +kernel
theorem zeta4 : zeta ^ 4 = -(1 : F2) := by decide +kernel
theorem evens_eq : everyOther EIGHTH_ROOTS_OF_UNITY = [zeta ^ 0, zeta ^ 2, zeta ^ 4, zeta ^ 6] := by
  decide +kernel
/-- `EIGHTH_ROOTS_OF_UNITY[EIGHTH_ROOTS_OF_UNITY.index(ζ^(2k)) // 2] = ζ^k` -/
theorem idx_spec : ∀ k ∈ [0, 1, 2, 3], EIGHTH_ROOTS_OF_UNITY.getD
    ((EIGHTH_ROOTS_OF_UNITY.findIdx (· == zeta ^ (2 * k))) / 2) default = zeta ^ k := by decide +kernel
theorem canon_zeta : Canon zeta := by decide +kernel
theorem neg_one_ne_one_F2 : -(1 : F2) ≠ 1 := by decide +kernel

/-- `ζ` in `K2` -/
noncomputable def z : K2 := toQ zeta

theorem z_pow4 : z ^ 4 = -1 := by
  unfold z
  rw [← toQ_pow2 canon_zeta.wf, zeta4, toQ_neg2, toQ_one2]

theorem neg_one_ne_one : (-1 : K2) ≠ 1 := by
  intro h
  apply neg_one_ne_one_F2
  apply toQ_inj (canon_neg2 canon_one2.wf) canon_one2
  rw [toQ_neg2, toQ_one2, h]

theorem z_ne_zero : z ≠ 0 := by
  intro h
  have := z_pow4
  rw [h] at this
  simp at this

theorem z_prim : IsPrimitiveRoot z 8 := by
  have h : orderOf z = 2 ^ (2 + 1) := by
    apply orderOf_eq_prime_pow
    · rw [show (2 : ℕ) ^ 2 = 4 from rfl, z_pow4]; exact neg_one_ne_one
    · rw [show (2 : ℕ) ^ (2 + 1) = 4 * 2 from rfl, pow_mul, z_pow4]; norm_num
  have := IsPrimitiveRoot.orderOf z
  rwa [h] at this

theorem z_pow_odd (k : ℕ) : (z ^ (2 * k + 1)) ^ 4 ≠ 1 := by
  rw [← pow_mul, mul_comm, pow_mul, z_pow4, pow_succ, pow_mul]
  simpa using neg_one_ne_one

/-! ### the function, unfolded -/

/-- the comparison `x1_im > x2_im or (x1_im == x2_im and x1_re > x2_re)` -/
def lexGt (a b : F2) : Prop :=
  getI a.coeffs 1 > getI b.coeffs 1 ∨ (getI a.coeffs 1 = getI b.coeffs 1 ∧ getI a.coeffs 0 > getI b.coeffs 0)

instance (a b : F2) : Decidable (lexGt a b) := by unfold lexGt; infer_instance

/-- the final choice of `modular_squareroot_in_FQ2` between `x1` and `x2 = -x1` -/
def pickLarger (x1 : F2) : F2 := if lexGt x1 (-x1) then x1 else -x1

/-- the exponent `(FQ2_ORDER + 8) // 16 = (p² + 7)/16` -/
def sqrtExp : ℕ := (blsconst_FQ2_ORDER + 8) / 16

def candOf (v : F2) : F2 := v ^ sqrtExp
def checkOf (v : F2) : F2 := (candOf v) ^ 2 / v

theorem sqrt_unfold (v : F2) : modularSquarerootInFq2 v =
    if checkOf v ∈ everyOther EIGHTH_ROOTS_OF_UNITY then
      some (pickLarger (candOf v / EIGHTH_ROOTS_OF_UNITY.getD
        ((EIGHTH_ROOTS_OF_UNITY.findIdx (· == checkOf v)) / 2) default))
    else none := by
  unfold modularSquarerootInFq2 pickLarger lexGt checkOf candOf sqrtExp
  simp only [List.contains_iff_mem]

theorem canon_cand {v : F2} (hv : Canon v) : Canon (candOf v) := canon_pow2 hv.wf _
theorem canon_check {v : F2} (hv : Canon v) : Canon (checkOf v) :=
  canon_div2 (canon_pow2 (canon_cand hv).wf _) hv

theorem toQ_cand {v : F2} (hv : Canon v) : toQ (candOf v) = toQ v ^ sqrtExp := toQ_pow2 hv.wf _
theorem toQ_check {v : F2} (hv : Canon v) : toQ (checkOf v) = (toQ v ^ sqrtExp) ^ 2 / toQ v := by
  unfold checkOf
  rw [toQ_div2 (canon_pow2 (canon_cand hv).wf _) hv, toQ_pow2 (canon_cand hv).wf, toQ_cand hv]

/-! ### the eighth-roots argument in `K2` -/

theorem sqrtExp_mul : sqrtExp * 2 * 8 = blsconst_FQ2_ORDER + 8 := by decide

/-- `check⁸ = 1` for `value ≠ 0` -/
theorem check_pow8 {V : K2} (hV : V ≠ 0) : ((V ^ sqrtExp) ^ 2 / V) ^ 8 = 1 := by
  rw [div_pow, ← pow_mul, ← pow_mul, ← mul_assoc, sqrtExp_mul, pow_add, fermat2 hV, one_mul,
    div_self (pow_ne_zero _ hV)]

/-- hence `check` is one of `ζ⁰ … ζ⁷` -/
theorem check_eq_pow {V : K2} (hV : V ≠ 0) : ∃ j < 8, z ^ j = (V ^ sqrtExp) ^ 2 / V :=
  z_prim.eq_pow_of_pow_eq_one (check_pow8 hV)

/-- for a non-zero square `value`, `check⁴ = 1` -/
theorem check_pow4_of_sq {W : K2} (hW : W ≠ 0) : (((W * W) ^ sqrtExp) ^ 2 / (W * W)) ^ 4 = 1 := by
  have h : ((W * W) ^ sqrtExp) ^ 2 = W ^ (sqrtExp * 2 * 2) := by
    rw [← pow_two, ← pow_mul, ← pow_mul]; congr 1
  have h2 : (W ^ (sqrtExp * 2 * 2)) ^ 4 = W ^ (blsconst_FQ2_ORDER + 8) := by
    rw [← pow_mul, ← sqrtExp_mul]; congr 1
  rw [div_pow, h, h2, pow_add, fermat2 hW, one_mul, ← pow_two, ← pow_mul,
    div_self (pow_ne_zero _ hW)]

/-- if `check = t²` with `t ≠ 0` then `candidate / t` is a square root -/
theorem root_of_even {V t : K2} (ht : t ≠ 0) (h : (V ^ sqrtExp) ^ 2 / V = t ^ 2) :
    (V ^ sqrtExp / t) ^ 2 = V := by
  have hV : V ≠ 0 := by
    intro h0
    rw [h0, div_zero] at h
    exact pow_ne_zero _ ht h.symm
  rw [div_pow, ← h]
  have hc : (V ^ sqrtExp) ^ 2 ≠ 0 := pow_ne_zero _ (pow_ne_zero _ hV)
  field_simp

/-! ### membership in the even half of the table -/

theorem mem_evens {c : F2} (h : c ∈ everyOther EIGHTH_ROOTS_OF_UNITY) :
    ∃ k < 4, c = zeta ^ (2 * k) ∧ EIGHTH_ROOTS_OF_UNITY.getD
      ((EIGHTH_ROOTS_OF_UNITY.findIdx (· == c)) / 2) default = zeta ^ k := by
  rw [evens_eq] at h
  simp only [List.mem_cons, List.not_mem_nil, or_false] at h
  rcases h with rfl | rfl | rfl | rfl
  · exact ⟨0, by omega, rfl, idx_spec 0 (by simp)⟩
  · exact ⟨1, by omega, rfl, idx_spec 1 (by simp)⟩
  · exact ⟨2, by omega, rfl, idx_spec 2 (by simp)⟩
  · exact ⟨3, by omega, rfl, idx_spec 3 (by simp)⟩

theorem evens_mem (k : ℕ) (hk : k < 4) : zeta ^ (2 * k) ∈ everyOther EIGHTH_ROOTS_OF_UNITY := by
  rw [evens_eq]
  interval_cases k <;> simp


/-! ### correctness of `modular_squareroot_in_FQ2` -/

theorem pickLarger_cases (x : F2) : pickLarger x = x ∨ pickLarger x = -x := by
  unfold pickLarger; split_ifs <;> simp

/-- shape of a successful call: the result is `x1` or `-x1` for a canonical `x1` with `x1² = value` in `K2` -/
theorem sqrt_some {v y : F2} (hv : Canon v) (h : modularSquarerootInFq2 v = some y) :
    ∃ x1 : F2, Canon x1 ∧ toQ x1 ^ 2 = toQ v ∧ y = pickLarger x1 := by
  rw [sqrt_unfold] at h
  split_ifs at h with hm
  obtain ⟨k, hk, hc, hidx⟩ := mem_evens hm
  rw [hidx] at h
  have hzk : Canon (zeta ^ k) := canon_pow2 canon_zeta.wf k
  refine ⟨candOf v / zeta ^ k, canon_div2 (canon_cand hv) hzk, ?_, (Option.some.inj h).symm⟩
  rw [toQ_div2 (canon_cand hv) hzk, toQ_cand hv, toQ_pow2 canon_zeta.wf]
  apply root_of_even (pow_ne_zero k z_ne_zero)
  rw [← toQ_check hv, hc, toQ_pow2 canon_zeta.wf, pow_mul']
  rfl

/-- **`modular_squareroot_in_FQ2` returns canonical elements** -/
theorem sqrt_canon {v y : F2} (hv : Canon v) (h : modularSquarerootInFq2 v = some y) : Canon y := by
  obtain ⟨x1, hx, _, rfl⟩ := sqrt_some hv h
  rcases pickLarger_cases x1 with e | e <;> rw [e]
  · exact hx
  · exact canon_neg2 hx.wf

/-- **`modular_squareroot_in_FQ2(value)` returns a square root**: if it returns `y` then `y * y == value`
    (for a well-formed `FQ2` object `value`, coefficients in `[0, p)`). -/
theorem sqrt_spec {v y : F2} (hv : Canon v) (h : modularSquarerootInFq2 v = some y) : y * y = v := by
  have hy := sqrt_canon hv h
  obtain ⟨x1, hx, hsq, rfl⟩ := sqrt_some hv h
  apply toQ_inj (canon_mul2 hy.wf hy.wf) hv
  rw [toQ_mul2 hy.wf hy.wf, ← hsq]
  rcases pickLarger_cases x1 with e | e <;> rw [e]
  · ring
  · rw [toQ_neg2]; ring

/-- `modular_squareroot_in_FQ2(FQ2.zero())` is `None`: `check = 0 / 0 = 0` is not in the table
    (the mathematical root `0` is not returned). -/
theorem sqrt_zero : modularSquarerootInFq2 (0 : F2) = none := by decide +kernel

/-- a value for which a root is returned is not zero -/
theorem sqrt_some_ne_zero {v y : F2} (h : modularSquarerootInFq2 v = some y) : v ≠ 0 := by
  rintro rfl; rw [sqrt_zero] at h; cases h

/-- **`modular_squareroot_in_FQ2(value)` returns `None` exactly for the non-squares** of `F_{p²}`
    (`value ≠ 0` well-formed; for `value = 0` see `sqrt_zero`). -/
theorem sqrt_none_iff {v : F2} (hv : Canon v) (h0 : v ≠ 0) :
    modularSquarerootInFq2 v = none ↔ ¬ IsSquare (toQ v) := by
  have hV : toQ v ≠ 0 := fun h => h0 ((eq_zero_iff hv).mpr h)
  constructor
  · intro hn hsq
    rw [sqrt_unfold] at hn
    split_ifs at hn with hm
    apply hm
    obtain ⟨W, hW⟩ := hsq
    have hW0 : W ≠ 0 := by rintro rfl; apply hV; rw [hW]; ring
    obtain ⟨j, hj, hzj⟩ := check_eq_pow hV
    have h4 : (z ^ j) ^ 4 = 1 := by rw [hzj, hW]; exact check_pow4_of_sq hW0
    obtain ⟨k, rfl | rfl⟩ := Nat.even_or_odd' j
    · have : checkOf v = zeta ^ (2 * k) := by
        apply toQ_inj (canon_check hv) (canon_pow2 canon_zeta.wf _)
        rw [toQ_check hv, ← hzj, toQ_pow2 canon_zeta.wf]; rfl
      rw [this]
      exact evens_mem k (by omega)
    · exact absurd h4 (z_pow_odd k)
  · intro hns
    cases hr : modularSquarerootInFq2 v with
    | none => rfl
    | some y =>
      exfalso; apply hns
      have := sqrt_spec hv hr
      have hy := sqrt_canon hv hr
      exact ⟨toQ y, by rw [← toQ_mul2 hy.wf hy.wf, this]⟩

/-- total version: `None` iff `value` is zero or a non-square -/
theorem sqrt_none_iff' {v : F2} (hv : Canon v) :
    modularSquarerootInFq2 v = none ↔ (v = 0 ∨ ¬ IsSquare (toQ v)) := by
  by_cases h0 : v = 0
  · subst h0; simp [sqrt_zero]
  · rw [sqrt_none_iff hv h0]; simp [h0]


/-! ### sign normalisation -/

/-- the ZCash sign flag of an `FQ2` value, as computed by `compress_G2`:
    `(y_im * 2) // q if y_im > 0 else (y_re * 2) // q` -/
def aflag (y : F2) : Int :=
  if getI y.coeffs 1 > 0 then getI y.coeffs 1 * 2 / (blsP : Int) else getI y.coeffs 0 * 2 / (blsP : Int)

theorem canon_cases {y : F2} (hy : Canon y) :
    ∃ re im : Int, y = ⟨[re, im]⟩ ∧ 0 ≤ re ∧ re < blsP ∧ 0 ≤ im ∧ im < blsP := by
  obtain ⟨l⟩ := y
  obtain ⟨hl, hc⟩ := hy
  match l, hl, hc with
  | [re, im], _, hc =>
    have h1 := hc re (by simp)
    have h2 := hc im (by simp)
    exact ⟨re, im, rfl, h1.1, h1.2, h2.1, h2.2⟩

theorem neg_mk (re im : Int) :
    -(⟨[re, im]⟩ : F2) = ⟨[(-re) % (blsP : Int), (-im) % (blsP : Int)]⟩ := rfl

theorem getI_pair0 (a b : Int) : getI [a, b] 0 = a := rfl
theorem getI_pair1 (a b : Int) : getI [a, b] 1 = b := rfl

theorem zero_mk : (0 : F2) = ⟨[0, 0]⟩ := rfl

theorem flag_int {c : Int} (h0 : 0 ≤ c) (h : c < blsP) :
    (c * 2 / (blsP : Int) = 0 ∧ c * 2 < blsP) ∨ (c * 2 / (blsP : Int) = 1 ∧ (blsP : Int) < c * 2) := by
  rw [blsP_val] at *
  omega

theorem neg_emod_p {c : Int} (h0 : 0 < c) (h : c < blsP) : (-c) % (blsP : Int) = blsP - c := by
  rw [← Int.add_emod_right, Int.emod_eq_of_lt (by omega) (by omega)]; ring

/-- for a non-zero well-formed `y`: the flag is a bit, `-y` has the opposite flag (`p` is odd), and
    `y` is lexicographically (imaginary part first) larger than `-y` exactly when its flag is 1 -/
theorem flag_facts {y : F2} (hy : Canon y) (h0 : y ≠ 0) :
    (aflag y = 0 ∨ aflag y = 1) ∧ aflag (-y) = 1 - aflag y ∧ (lexGt y (-y) ↔ aflag y = 1) ∧
      (lexGt (-y) y ↔ aflag y = 0) := by
  obtain ⟨re, im, rfl, h1, h2, h3, h4⟩ := canon_cases hy
  have hne : ¬(re = 0 ∧ im = 0) := by
    rintro ⟨rfl, rfl⟩; exact h0 zero_mk.symm
  rw [neg_mk]
  unfold aflag lexGt
  simp only [getI_pair0, getI_pair1]
  by_cases him : im = 0
  · subst him
    have hre : 0 < re := by omega
    rw [show (-(0 : Int)) % (blsP : Int) = 0 from rfl, neg_emod_p hre h2]
    have f1 := flag_int h1 h2
    have f2 := flag_int (c := blsP - re) (by omega) (by omega)
    generalize re * 2 / (blsP : Int) = a at *
    generalize ((blsP : Int) - re) * 2 / (blsP : Int) = b at *
    simp only [gt_iff_lt, lt_self_iff_false, if_false, false_or, true_and]
    refine ⟨?_, ?_, ?_, ?_⟩ <;> omega
  · have him' : 0 < im := by omega
    rw [neg_emod_p him' h4]
    have f1 := flag_int h3 h4
    have f2 := flag_int (c := blsP - im) (by omega) (by omega)
    generalize im * 2 / (blsP : Int) = a at *
    generalize ((blsP : Int) - im) * 2 / (blsP : Int) = b at *
    have hneg : 0 < (blsP : Int) - im := by omega
    simp only [gt_iff_lt, him', hneg, if_true]
    refine ⟨?_, ?_, ?_, ?_⟩ <;> omega


theorem neg_ne_zero2 {y : F2} (hy : Canon y) (h0 : y ≠ 0) : -y ≠ 0 := by
  intro h
  apply h0
  rw [eq_zero_iff hy]
  have := (eq_zero_iff (canon_neg2 hy.wf)).mp h
  rw [toQ_neg2] at this
  exact neg_eq_zero.mp this

theorem neg_neg2 {y : F2} (hy : Canon y) : - -y = y := by
  apply toQ_inj (canon_neg2 (canon_neg2 hy.wf).wf) hy
  rw [toQ_neg2, toQ_neg2, neg_neg]

/-- the chosen one of `x1`, `-x1` has sign flag 1 and is lexicographically larger than its negative -/
theorem pickLarger_flag {x : F2} (hx : Canon x) (h0 : x ≠ 0) :
    aflag (pickLarger x) = 1 ∧ lexGt (pickLarger x) (-(pickLarger x)) := by
  obtain ⟨f01, fneg, fgt, _⟩ := flag_facts hx h0
  unfold pickLarger
  split_ifs with h
  · exact ⟨fgt.mp h, h⟩
  · have h1 : aflag x = 0 := by
      rcases f01 with e | e
      · exact e
      · exact absurd (fgt.mpr e) h
    have h2 : aflag (-x) = 1 := by rw [fneg, h1]; rfl
    exact ⟨h2, ((flag_facts (canon_neg2 hx.wf) (neg_ne_zero2 hx h0)).2.2.1).mpr h2⟩

/-- **Sign normalisation of `modular_squareroot_in_FQ2`.**  The returned root `y` is not zero, and of the two
    roots `y`, `-y` it is the one with the lexicographically larger coefficient pair (imaginary part first,
    then real part) — equivalently the one whose ZCash sign flag
    `(y_im * 2) // q if y_im > 0 else (y_re * 2) // q` is `1`. -/
theorem sqrt_is_larger {v y : F2} (hv : Canon v) (h : modularSquarerootInFq2 v = some y) :
    y ≠ 0 ∧ lexGt y (-y) ∧ aflag y = 1 := by
  have hv0 := sqrt_some_ne_zero h
  obtain ⟨x1, hx, hsq, rfl⟩ := sqrt_some hv h
  have hx0 : x1 ≠ 0 := by
    rintro rfl
    apply hv0
    rw [eq_zero_iff hv, ← hsq, toQ_zero2]; ring
  obtain ⟨h1, h2⟩ := pickLarger_flag hx hx0
  refine ⟨?_, h2, h1⟩
  rcases pickLarger_cases x1 with e | e <;> rw [e]
  · exact hx0
  · exact neg_ne_zero2 hx hx0

/-- two well-formed values with the same square are equal or opposite -/
theorem sq_eq_cases {s y : F2} (hs : Canon s) (hy : Canon y) (h : toQ s ^ 2 = toQ y ^ 2) :
    s = y ∨ s = -y := by
  have : (toQ s - toQ y) * (toQ s + toQ y) = 0 := by linear_combination h
  rcases mul_eq_zero.mp this with h1 | h1
  · left; exact toQ_inj hs hy (by linear_combination h1)
  · right; apply toQ_inj hs (canon_neg2 hy.wf); rw [toQ_neg2]; linear_combination h1

/-- **exactly one of `y`, `-y` carries a given flag**: well-formed `s`, `y ≠ 0` with the same square and the
    same sign flag are equal -/
theorem flag_unique2 {s y : F2} (hs : Canon s) (hy : Canon y) (h0 : y ≠ 0)
    (h : toQ s ^ 2 = toQ y ^ 2) (hf : aflag s = aflag y) : s = y := by
  rcases sq_eq_cases hs hy h with e | e
  · exact e
  · exfalso
    obtain ⟨f01, fneg, _⟩ := flag_facts hy h0
    rw [e, fneg] at hf
    omega

/-! ### non-vacuity -/

/-- a well-formed non-zero square (`2i = (1 + i)²`) on which a root is returned (hypotheses of `sqrt_spec`,
    `sqrt_canon`, `sqrt_is_larger`) -/
example : Canon (⟨[0, 2]⟩ : F2) ∧ (modularSquarerootInFq2 ⟨[0, 2]⟩).isSome = true := by decide +kernel

/-- a well-formed non-zero non-square (`b2 = 4 + 4i`): both sides of `sqrt_none_iff` are inhabited -/
example : Canon blsB2 ∧ blsB2 ≠ 0 ∧ modularSquarerootInFq2 blsB2 = none := by decide +kernel

end PyEcc.Fq2Sqrt
