/-
  PyEcc.Sem.FqpInv — correctness of `FQP.inv` (the extended-Euclid loop over coefficient lists) for ANY
  irreducible modulus, both variants.

  `poly_rounded_div` is not polynomial division (only its top coefficient is right), so the proof does
  not assume a quotient.  Invariant on the state `(lm, low, hm, high)` (as polynomials over `ZMod p`):
    `lm·a ≡ low`, `hm·a ≡ high (mod m)`, `IsCoprime low high`, `low ≠ 0`,
    `deg lm + deg high ≤ d`, `deg hm + deg low ≤ d`, `1 ≤ deg high`,
  preserved by `(lm, low, hm, high) ← (hm − lm·r, high − low·r, lm, low)` for the `r` the code computes
  (either `r = 0` when `deg high < deg low`, or `deg r = deg high − deg low` with the right leading
  coefficient).  Measure `2(deg low + deg high) + [deg high < deg low]` strictly decreases.
-/
import PyEcc.Sem.FqpInvAux
import Mathlib.RingTheory.PrincipalIdealDomain
import Mathlib.Algebra.Polynomial.FieldDivision
import Mathlib.Algebra.Polynomial.Degree.Units
import Mathlib.Algebra.Polynomial.Degree.Domain
import Mathlib.Algebra.Field.ZMod

namespace PyEcc.FqpSem
open Polynomial PyEcc.Fqp

/-! ### the polynomial-level step -/

section polydefs
variable {F : Type} [CommRing F]

/-- the loop invariant, on polynomials -/
structure PInv (M A LM LOW HM HIGH : F[X]) (d : ℕ) : Prop where
  elow : M ∣ LM * A - LOW
  ehigh : M ∣ HM * A - HIGH
  cop : IsCoprime LOW HIGH
  ne : LOW ≠ 0
  d1 : LM.natDegree + HIGH.natDegree ≤ d
  d2 : HM.natDegree + LOW.natDegree ≤ d
  hpos : 1 ≤ HIGH.natDegree

/-- termination measure -/
noncomputable def mu (LOW HIGH : F[X]) : ℕ :=
  2 * (LOW.natDegree + HIGH.natDegree) + if HIGH.natDegree < LOW.natDegree then 1 else 0

/-- what the code's `r` satisfies -/
def RSpec (LOW HIGH R : F[X]) : Prop :=
  (R = 0 ∧ HIGH.natDegree < LOW.natDegree) ∨
  (LOW.natDegree ≤ HIGH.natDegree ∧ R.natDegree = HIGH.natDegree - LOW.natDegree ∧
    R.leadingCoeff * LOW.leadingCoeff = HIGH.leadingCoeff)

theorem RSpec.deg_le {LOW HIGH R : F[X]} (h : RSpec LOW HIGH R) :
    LOW.natDegree + R.natDegree ≤ max LOW.natDegree HIGH.natDegree := by
  rcases h with ⟨rfl, _⟩ | ⟨h1, h2, _⟩
  · simp
  · rw [h2]; omega

end polydefs

section poly
variable {F : Type} [Field F]

theorem pinv_step {M A LM LOW HM HIGH R : F[X]} {d : ℕ} (h : PInv M A LM LOW HM HIGH d)
    (hlow : LOW.natDegree ≠ 0) (hR : RSpec LOW HIGH R) :
    PInv M A (HM - LM * R) (HIGH - LOW * R) LM LOW d ∧ mu (HIGH - LOW * R) LOW < mu LOW HIGH := by
  have hHIGH : HIGH ≠ 0 := by
    intro h0; have := h.hpos; rw [h0] at this; simp at this
  have e1 : M ∣ (HM - LM * R) * A - (HIGH - LOW * R) := by
    have : (HM - LM * R) * A - (HIGH - LOW * R) = (HM * A - HIGH) - R * (LM * A - LOW) := by ring
    rw [this]
    exact dvd_sub h.ehigh (Dvd.dvd.mul_left h.elow _)
  have cop' : IsCoprime (HIGH - LOW * R) LOW := by
    have := h.cop.symm.add_mul_left_left (-R)
    rwa [mul_neg, ← sub_eq_add_neg] at this
  rcases hR with ⟨rfl, hlt⟩ | ⟨hle, hdeg, hlc⟩
  · -- r = 0 : swap
    simp only [mul_zero, sub_zero]
    refine ⟨⟨by simpa using e1, h.elow, by simpa using cop', hHIGH, h.d2, h.d1, by omega⟩, ?_⟩
    unfold mu
    rw [if_pos hlt, if_neg (by omega)]
    omega
  · have hlcL : LOW.leadingCoeff ≠ 0 := leadingCoeff_ne_zero.mpr h.ne
    have hlcH : HIGH.leadingCoeff ≠ 0 := leadingCoeff_ne_zero.mpr hHIGH
    have hRne : R ≠ 0 := by
      intro h0; rw [h0, leadingCoeff_zero, zero_mul] at hlc
      exact hlcH hlc.symm
    have hmuldeg : (LOW * R).natDegree = HIGH.natDegree := by
      rw [natDegree_mul h.ne hRne, hdeg]; omega
    have hmullc : (LOW * R).leadingCoeff = HIGH.leadingCoeff := by
      rw [leadingCoeff_mul, mul_comm, hlc]
    have hNEWne : HIGH - LOW * R ≠ 0 := by
      intro h0
      have hdvd : LOW ∣ HIGH := ⟨R, (sub_eq_zero.mp h0)⟩
      have := h.cop.isUnit_of_dvd' dvd_rfl hdvd
      exact hlow (natDegree_eq_zero_of_isUnit this)
    have hlt : (HIGH - LOW * R).natDegree < HIGH.natDegree := by
      apply natDegree_lt_natDegree hNEWne
      apply degree_sub_lt_left _ hHIGH hmullc.symm
      rw [degree_eq_natDegree hHIGH, degree_eq_natDegree (mul_ne_zero h.ne hRne), hmuldeg]
    have hd1 := h.d1
    have hd2 := h.d2
    have hpos := h.hpos
    refine ⟨⟨e1, h.elow, cop', hNEWne, ?_, by omega, by omega⟩, ?_⟩
    · have h1 := natDegree_sub_le HM (LM * R)
      have h2 : (LM * R).natDegree ≤ LM.natDegree + R.natDegree := natDegree_mul_le
      rcases le_max_iff.mp h1 with h3 | h3 <;> omega
    · unfold mu
      split <;> split <;> omega

end poly

/-! ### one round on lists -/

section lists
variable {p : ℕ}

/-- the loop invariant on the list state -/
structure LInv (mc : List Int) (A : (ZMod p)[X]) (lm low hm high : List Int) : Prop where
  llm : lm.length = mc.length + 1
  llow : low.length = mc.length + 1
  lhm : hm.length = mc.length + 1
  lhigh : high.length = mc.length + 1
  slow : Sane p low
  shigh : Sane p high
  pinv : PInv (modulus p mc) A (ev p lm) (ev p low) (ev p hm) (ev p high) mc.length

theorem natDegree_ev_le_of_length (r : List Int) (n : Nat) (h : r.length ≤ n + 1) :
    (ev p r).natDegree ≤ n := by
  rw [natDegree_le_iff_coeff_eq_zero]
  intro N hN
  rw [coeff_ev, getI_of_le r N (by omega)]; simp

theorem padR_spec [Fact p.Prime] (v : Variant) (d : Nat) (low high : List Int)
    (_llow : low.length = d + 1) (lhigh : high.length = d + 1) (slow : Sane p low)
    (shigh : Sane p high) (hl : ev p low ≠ 0) (hh : ev p high ≠ 0) :
    (padR v p d high low).length = d + 1 ∧
      RSpec (ev p low) (ev p high) (ev p (padR v p d high low)) := by
  have hp : p.Prime := Fact.out
  have hhne : high ≠ [] := by intro h; rw [h] at lhigh; simp at lhigh
  by_cases h : deg high < deg low
  · have hr : polyRoundedDiv v p high low = [0] := polyRoundedDiv_lt v high low hhne h
    unfold padR
    rw [hr]
    refine ⟨by simp, Or.inl ⟨by simp [ev_replicate_zero], ?_⟩⟩
    rw [natDegree_ev_eq_deg slow, natDegree_ev_eq_deg shigh]; exact h
  · have hle : deg low ≤ deg high := Nat.le_of_not_lt h
    have hlcH : ((getI high (deg high) : ℤ) : ZMod p) ≠ 0 := by
      rw [← leadingCoeff_ev shigh]; exact leadingCoeff_ne_zero.mpr hh
    have hlcL : ((getI low (deg low) : ℤ) : ZMod p) ≠ 0 := by
      rw [← leadingCoeff_ev slow]; exact leadingCoeff_ne_zero.mpr hl
    obtain ⟨r1, r2⟩ := polyRoundedDiv_ge hp v high low hle hlcH hlcL
    have hdh := deg_le high
    unfold padR
    refine ⟨by rw [List.length_append, List.length_replicate, r1]; omega, Or.inr ⟨?_, ?_⟩⟩
    · rw [natDegree_ev_eq_deg slow, natDegree_ev_eq_deg shigh]; exact hle
    · rw [ev_append, ev_replicate_zero, mul_zero, add_zero, natDegree_ev_eq_deg slow,
        natDegree_ev_eq_deg shigh, leadingCoeff_ev slow, leadingCoeff_ev shigh]
      have hne : (ev p (polyRoundedDiv v p high low)).coeff (deg high - deg low) ≠ 0 := by
        rw [coeff_ev, r2]; exact mul_ne_zero hlcH (inv_ne_zero hlcL)
      have hnd : (ev p (polyRoundedDiv v p high low)).natDegree = deg high - deg low :=
        le_antisymm (natDegree_ev_le_of_length _ _ (by omega)) (le_natDegree_of_ne_zero hne)
      refine ⟨hnd, ?_⟩
      rw [leadingCoeff, hnd, coeff_ev, r2, mul_assoc, inv_mul_cancel₀ hlcL, mul_one]

theorem truncLoop_ev (f : Nat → Nat → Int → Int) (l r : List Int)
    (hf : ∀ i j x, ((f i j x : ℤ) : ZMod p) =
      (x : ZMod p) - ((getI l i : ℤ) : ZMod p) * ((getI r j : ℤ) : ZMod p))
    (d : Nat) (acc : List Int) (hacc : acc.length = d + 1) (hl : l.length = d + 1)
    (hr : r.length = d + 1) (hdeg : (ev p l).natDegree + (ev p r).natDegree ≤ d) :
    (truncLoop (d + 1) f acc).length = d + 1 ∧
    ev p (truncLoop (d + 1) f acc) = ev p acc - ev p l * ev p r := by
  obtain ⟨h1, h2⟩ := truncLoop_spec (p := p) f l r hf (d + 1) acc hacc
  refine ⟨h1, ?_⟩
  rw [h2, trunc_sum_eq_mul l r (d + 1) hl.le hr.le (by omega)]

theorem nmF_cast (l r : List Int) (i j : Nat) (x : Int) :
    ((nmF l r i j x : ℤ) : ZMod p) =
      (x : ZMod p) - ((getI l i : ℤ) : ZMod p) * ((getI r j : ℤ) : ZMod p) := by
  simp [nmF]

theorem newFref_cast (l r : List Int) (i j : Nat) (x : Int) :
    ((newFref p l r i j x : ℤ) : ZMod p) =
      (x : ZMod p) - ((getI l i : ℤ) : ZMod p) * ((getI r j : ℤ) : ZMod p) := by
  simp [newFref, ZMod.intCast_mod]

theorem linv_round [Fact p.Prime] (v : Variant) {mc : List Int} {A : (ZMod p)[X]}
    {lm low hm high : List Int} (h : LInv mc A lm low hm high) (hdeg : deg low ≠ 0) :
    LInv mc A (invRound v p mc.length lm low hm high).1 (invRound v p mc.length lm low hm high).2
      lm low ∧
    mu (ev p (invRound v p mc.length lm low hm high).2) (ev p low) < mu (ev p low) (ev p high) := by
  have hp : p.Prime := Fact.out
  have hHIGH : ev p high ≠ 0 := by
    intro h0; have := h.pinv.hpos; rw [h0] at this; simp at this
  obtain ⟨rlen, rspec⟩ := padR_spec v mc.length low high h.llow h.lhigh h.slow h.shigh h.pinv.ne hHIGH
  have hlow : (ev p low).natDegree ≠ 0 := by rw [natDegree_ev_eq_deg h.slow]; exact hdeg
  have hd1 := h.pinv.d1
  have hd2 := h.pinv.d2
  have hdegR := rspec.deg_le
  have hdegLM : (ev p lm).natDegree + (ev p (padR v p mc.length high low)).natDegree ≤ mc.length := by
    rcases rspec with ⟨h0, _⟩ | ⟨_, h2, _⟩
    · rw [h0]; simp; omega
    · rw [h2]; omega
  have hdegLOW : (ev p low).natDegree + (ev p (padR v p mc.length high low)).natDegree ≤
      mc.length := by
    rcases le_max_iff.mp hdegR with h3 | h3 <;> omega
  obtain ⟨ps, pm⟩ := pinv_step h.pinv hlow rspec
  cases v
  · obtain ⟨n1, n2⟩ := truncLoop_ev (p := p) (nmF lm (padR .ref p mc.length high low)) lm
      (padR .ref p mc.length high low) (nmF_cast _ _) mc.length hm h.lhm h.llm rlen hdegLM
    obtain ⟨w1, w2⟩ := truncLoop_ev (p := p) (newFref p low (padR .ref p mc.length high low)) low
      (padR .ref p mc.length high low) (newFref_cast _ _) mc.length high h.lhigh h.llow rlen hdegLOW
    have hsane : Sane p (truncLoop (mc.length + 1)
        (newFref p low (padR .ref p mc.length high low)) high) :=
      sane_truncLoop _ (fun i j x hx => sane_mod hp.pos _ hx) _ _ h.shigh
    simp only [invRound]
    rw [w2]
    exact ⟨⟨n1, w1, h.llm, h.llow, hsane, h.slow, by rw [n2, w2]; exact ps⟩, pm⟩
  · obtain ⟨n1, n2⟩ := truncLoop_ev (p := p) (nmF lm (padR .opt p mc.length high low)) lm
      (padR .opt p mc.length high low) (nmF_cast _ _) mc.length hm h.lhm h.llm rlen hdegLM
    obtain ⟨w1, w2⟩ := truncLoop_ev (p := p) (nmF low (padR .opt p mc.length high low)) low
      (padR .opt p mc.length high low) (nmF_cast _ _) mc.length high h.lhigh h.llow rlen hdegLOW
    simp only [invRound]
    rw [ev_map_mod, w2]
    exact ⟨⟨by rw [List.length_map, n1], by rw [List.length_map, w1], h.llm, h.llow,
      sane_map_mod hp.pos _, h.slow, by rw [ev_map_mod, ev_map_mod, n2, w2]; exact ps⟩, pm⟩


/-- the loop terminates within the fuel and returns `(lm, low)` with `low` a non-zero constant,
    `lm·a ≡ low (mod m)` and `deg lm < d` -/
theorem invLoopP_spec [Fact p.Prime] (v : Variant) {mc : List Int} {A : (ZMod p)[X]} :
    ∀ (f : Nat) (lm low hm high : List Int), LInv mc A lm low hm high →
      mu (ev p low) (ev p high) < f →
      (invLoopP v p mc.length f lm low hm high).1.length = mc.length + 1 ∧
      (ev p (invLoopP v p mc.length f lm low hm high).2).natDegree = 0 ∧
      ev p (invLoopP v p mc.length f lm low hm high).2 ≠ 0 ∧
      modulus p mc ∣ ev p (invLoopP v p mc.length f lm low hm high).1 * A -
        ev p (invLoopP v p mc.length f lm low hm high).2 ∧
      (ev p (invLoopP v p mc.length f lm low hm high).1).natDegree < mc.length := by
  intro f
  induction f with
  | zero => intro lm low hm high _ h; omega
  | succ f ih =>
    intro lm low hm high h hmu
    rw [invLoopP_succ]
    by_cases hdeg : deg low ≠ 0
    · rw [if_pos hdeg]
      obtain ⟨h', hmu'⟩ := linv_round v h hdeg
      exact ih _ _ _ _ h' (by omega)
    · rw [if_neg hdeg]
      have hd1 := h.pinv.d1
      have hpos := h.pinv.hpos
      refine ⟨h.llm, ?_, h.pinv.ne, h.pinv.elow, ?_⟩
      · show (ev p low).natDegree = 0
        rw [natDegree_ev_eq_deg h.slow]; omega
      · show (ev p lm).natDegree < mc.length
        omega

theorem getI_append_singleton (l : List Int) (x : Int) (i : Nat) :
    getI (l ++ [x]) i = if i < l.length then getI l i else if i = l.length then x else 0 := by
  unfold getI
  rw [List.getD_eq_getElem?_getD, List.getD_eq_getElem?_getD, List.getElem?_append]
  split
  · rfl
  · split
    · rename_i h1 h2; subst h2; simp
    · rename_i h1 h2
      have : l.length < i := by omega
      rw [List.getElem?_eq_none (by simp; omega)]
      rfl

/-- the initial state of `FQP.inv` satisfies the invariant -/
theorem linv_init [Fact p.Prime] {mc a : List Int} (hd : 1 ≤ mc.length) (ha : a.length = mc.length)
    (hirr : Irreducible (modulus p mc)) (hmc : Sane p mc) (hsa : Sane p a) (hne : ev p a ≠ 0) :
    LInv mc (ev p a) (1 :: List.replicate mc.length 0) (a ++ [0])
      (List.replicate (mc.length + 1) 0) (mc ++ [1]) ∧
    mu (ev p (a ++ [0])) (ev p (mc ++ [1])) < 4 * mc.length + 4 := by
  have hlow : ev p (a ++ [0]) = ev p a := by simp [ev_append]
  have hhigh : ev p (mc ++ [1]) = modulus p mc := by simp [ev_append, modulus, add_comm]
  have hlm : ev p (1 :: List.replicate mc.length 0) = 1 := by simp [ev_replicate_zero]
  have hhm : ev p (List.replicate (mc.length + 1) 0) = 0 := ev_replicate_zero _
  have hdegA : (ev p a).natDegree < mc.length := by
    have := natDegree_ev_le_of_length (p := p) a (mc.length - 1) (by omega)
    omega
  have hdegM : (modulus p mc).natDegree = mc.length := natDegree_modulus mc
  have hndvd : ¬ modulus p mc ∣ ev p a :=
    (modulus_monic mc).not_dvd_of_natDegree_lt hne (by omega)
  refine ⟨⟨by simp, by simp [ha], by simp, by simp, ?_, ?_, ?_⟩, ?_⟩
  · exact sane_append_replicate_zero hsa 1
  · intro i hi
    rw [getI_append_singleton] at hi ⊢
    split
    · rename_i h; rw [if_pos h] at hi; exact hmc i hi
    · rename_i h
      rw [if_neg h] at hi
      split
      · rename_i h2; rw [if_pos h2] at hi; simp at hi
      · rfl
  · rw [hlow, hhigh, hlm, hhm]
    exact ⟨by simp, by simp, (hirr.coprime_iff_not_dvd.mpr hndvd).symm, hne,
      by simp [hdegM], by simp; omega, by omega⟩
  · rw [hlow, hhigh]
    unfold mu
    rw [hdegM, if_neg (by omega)]
    omega


theorem ev_take (l : List Int) (n : Nat) (h : (ev p l).natDegree < n) :
    ev p (l.take n) = ev p l := by
  ext i
  rw [coeff_ev, coeff_ev, getI_take]
  split
  · rfl
  · rename_i hi
    have := coeff_eq_zero_of_natDegree_lt (lt_of_lt_of_le h (Nat.le_of_not_lt hi))
    rw [coeff_ev] at this
    rw [this]; simp

end lists

/-! ### `FQP.inv` is inversion in the quotient -/

section inv
variable {p : ℕ} {v : Variant} {mc : List Int}

theorem inv_eq (a : Fqp v p mc) :
    Fqp.inv a = divInt (ofInts ((invLoopP v p mc.length (4 * mc.length + 4)
        (1 :: List.replicate mc.length 0) (a.coeffs ++ [0]) (List.replicate (mc.length + 1) 0)
        (mc ++ [1])).1.take mc.length))
      (getI (invLoopP v p mc.length (4 * mc.length + 4)
        (1 :: List.replicate mc.length 0) (a.coeffs ++ [0]) (List.replicate (mc.length + 1) 0)
        (mc ++ [1])).2 0) := rfl

/-- **`FQP.inv` computes the inverse modulo any irreducible modulus**: `inv a · a = 1` in
    `(ZMod p)[X]/(m)`, and the result is stored reduced.  Hypotheses: `p` prime, `m` irreducible,
    every supplied modulus coefficient is `0` or not divisible by `p` (`Sane p mc`), the same for the
    coefficients of `a` (true for every reduced element), and `a` is not zero in the quotient. -/
theorem toQ_inv_mul [Fact p.Prime] (hd : 1 ≤ mc.length) (hirr : Irreducible (modulus p mc))
    (hmc : Sane p mc) {a : Fqp v p mc} (ha : WF a) (hsa : Sane p a.coeffs) (hne : toQ a ≠ 0) :
    Canon (Fqp.inv a) ∧ toQ (Fqp.inv a) * toQ a = 1 := by
  have hp : p.Prime := Fact.out
  have hA : ev p a.coeffs ≠ 0 := by
    intro h0; apply hne; simp [toQ, evQ, h0]
  obtain ⟨hinit, hmu⟩ := linv_init hd ha hirr hmc hsa hA
  obtain ⟨r1, r2, r3, r4, r5⟩ := invLoopP_spec v _ _ _ _ _ hinit hmu
  rw [inv_eq]
  set res := invLoopP v p mc.length (4 * mc.length + 4)
        (1 :: List.replicate mc.length 0) (a.coeffs ++ [0]) (List.replicate (mc.length + 1) 0)
        (mc ++ [1]) with hres
  have hwf : WF (ofInts (res.1.take mc.length) : Fqp v p mc) :=
    wf_ofInts (by rw [List.length_take, r1]; omega)
  refine ⟨canon_mulInt hp.pos hwf _, ?_⟩
  have hC : ev p res.2 = C ((getI res.2 0 : ℤ) : ZMod p) := by
    rw [eq_C_of_natDegree_eq_zero r2, coeff_ev]
  have hc : ((getI res.2 0 : ℤ) : ZMod p) ≠ 0 := by
    intro h0; rw [h0, C_0] at hC; exact r3 hC
  have hk : ((primeFieldInv (getI res.2 0) p : ℤ) : ZMod p) * ((getI res.2 0 : ℤ) : ZMod p) = 1 := by
    rw [FqSem.primeFieldInv_spec hp, inv_mul_cancel₀ hc]
  show toQ (mulInt (ofInts (res.1.take mc.length)) (primeFieldInv (getI res.2 0) p)) * toQ a = 1
  rw [toQ_mulInt, toQ_ofInts, evQ, ev_take _ _ r5, toQ, evQ]
  have hcast : ((primeFieldInv (getI res.2 0) p : ℤ) : AdjoinRoot (modulus p mc)) =
      AdjoinRoot.mk (modulus p mc) (C ((primeFieldInv (getI res.2 0) p : ℤ) : ZMod p)) := by
    simp
  rw [hcast, ← map_mul, ← map_mul, ← map_one (AdjoinRoot.mk (modulus p mc)), AdjoinRoot.mk_eq_mk]
  have : ev p res.1 * C ((primeFieldInv (getI res.2 0) p : ℤ) : ZMod p) * ev p a.coeffs - 1 =
      C ((primeFieldInv (getI res.2 0) p : ℤ) : ZMod p) * (ev p res.1 * ev p a.coeffs - ev p res.2) := by
    rw [hC, mul_sub, ← C_mul, hk, C_1]; ring
  rw [this]
  exact Dvd.dvd.mul_left r4 _

/-- `inv` of the all-zero element is the all-zero element (`prime_field_inv(0) = 0`). -/
theorem inv_zero_coeffs :
    (Fqp.inv (zero : Fqp v p mc)).coeffs = (zero : Fqp v p mc).coeffs := by
  have hz : (zero : Fqp v p mc).coeffs = List.replicate mc.length 0 := by
    simp [zero, ofInts]
  have hdeg : deg ((zero : Fqp v p mc).coeffs ++ [0]) = 0 := by
    rw [hz, show ([0] : List Int) = List.replicate 1 0 from rfl, ← List.replicate_add]
    exact deg_replicate_zero _
  have hpi : primeFieldInv 0 (p : Int) = 0 := by simp [primeFieldInv]
  rw [inv_eq, show 4 * mc.length + 4 = (4 * mc.length + 3) + 1 from rfl, invLoopP_succ,
    if_neg (by rw [hdeg]; simp)]
  simp only [divInt, ofInts]
  have hg : getI (List.replicate mc.length 0 ++ [0]) 0 = 0 := by
    rw [show ([0] : List Int) = List.replicate 1 0 from rfl, ← List.replicate_add]
    exact getI_replicate_zero _ _
  rw [hz, hg, hpi, List.eq_replicate_iff]
  refine ⟨by simp, ?_⟩
  intro b hb
  simp only [mul_zero, List.map_map, List.mem_map, Function.comp] at hb
  obtain ⟨_, _, rfl⟩ := hb
  simp

end inv

end PyEcc.FqpSem
