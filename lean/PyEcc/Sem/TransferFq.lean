/-
  PyEcc.Sem.TransferFq — transfer of the field-generic curve theorems to the CONCRETE executable
  model type of `FQ` coordinates, `F1 = Fq blsP` (and `Fq bnP`).

  The generated curve code (`Gen.OptBls`, `Gen.OptBn`) is generic over a coordinate type `F` with the
  operation classes `[Zero F] [One F] [Add F] [Sub F] [Mul F] [Neg F] [Div F] [NatCast F] [Pow F Nat]
  [DecidableEq F]`; the property theorems (`Props/C13_*`, `C07Opt_*`, `C17_Sub`) are proved for an
  arbitrary Mathlib `[Field F] [DecidableEq F]`.

  For `F = Fq p`, `p` prime, NO morphism argument is needed: `Sem/FqZMod.lean` builds
  `Fq.instField : Field (Fq p)` by pull-back along `toZMod` REUSING the model's operation instances
  (`Function.Injective.commRing` takes the existing `Zero/One/Add/Mul/Neg/Sub/Pow/NatCast` instances
  as arguments; `inv := Fq.inv`, `div := Fq.div`).  Hence every operation class derived from
  `Fq.instField` unfolds, definitionally, to the instance of `Model/Fq.lean`
  (`instances_are_model` below checks all ten of them by `rfl`), and the generic theorems apply
  to the model functions as they stand.  In the statements below the code-side terms
  (`subgroupCheck T`, `Gen.OptBls.add T₁ T₂`, …) elaborate with the model's own instances
  (`Fq.instZero`, `Fq.instAdd`, …, the derived `DecidableEq (Fq p)`): they are exactly the functions
  that the executable `Driver` runs.

  Contents: the side conditions `2 ≠ 0`, `3 ≠ 0`, `b ≠ 0` in `Fq blsP` / `Fq bnP` (kernel-decided) and
  the refinement theorems specialised to `G1Pt = F1 × F1 × F1` with `P : CurvePt blsB`
  (Mathlib's elliptic-curve group `(W blsB).Point` over the field `Fq blsP`, see `Sem/CurvePt.lean`), plus the `bn128` analogues.
-/
import PyEcc.Props.C17_Sub
import PyEcc.Props.C07Opt_Bn
import PyEcc.Props.C07_Facts
import PyEcc.Sem.FqZMod
import PyEcc.Sem.Primes
import PyEcc.Sem.CurvePt
import PyEcc.Model.Codec

set_option linter.unusedSectionVars false
set_option maxRecDepth 100000

namespace PyEcc.Transfer
open PyEcc PyEcc.Gen PyEcc.Gen.Consts WeierstrassCurve

/-! ### the instances seen by the generated code are the model's -/

/-- Instance audit: for prime `p` each operation class that can be derived from the Mathlib structure
    `Fq.instField` is, by definitional unfolding, the operation of the executable model
    (`Fq.add`, `Fq.mul`, `Fq.sub`, `Fq.neg`, `Fq.div`, `Fq.pow` = the repaired square-and-multiply
    `__pow__`, `Fq.ofInt` for literals).  So it is immaterial which of the two instance paths
    elaboration picks for the generated code at `F := Fq p`. -/
theorem instances_are_model {p : ℕ} [Fact p.Prime] :
    (Fq.instField (p := p)).toZero = ⟨Fq.ofInt 0⟩
      ∧ (Fq.instField (p := p)).toOne = ⟨Fq.ofInt 1⟩
      ∧ (Fq.instField (p := p)).toAdd = ⟨Fq.add⟩
      ∧ (Fq.instField (p := p)).toSub = ⟨Fq.sub⟩
      ∧ (Fq.instField (p := p)).toMul = ⟨Fq.mul⟩
      ∧ (Fq.instField (p := p)).toNeg = ⟨Fq.neg⟩
      ∧ (Fq.instField (p := p)).toDiv = ⟨Fq.div⟩
      ∧ (Fq.instField (p := p)).toNatCast = ⟨fun k => Fq.ofInt k⟩
      ∧ (@NPow.toPow (Fq p) (Fq.instField (p := p)).toNPow : Pow (Fq p) ℕ) = ⟨Fq.pow⟩
      ∧ (Fq.instField (p := p)).toInv = ⟨Fq.inv⟩ :=
  ⟨rfl, rfl, rfl, rfl, rfl, rfl, rfl, rfl, rfl, rfl⟩

/-- numerals of the generic theorems (`(2 : F)`, `(3 : F)`) are the model's `FQ(2)`, `FQ(3)` -/
theorem numerals_are_model {p : ℕ} [Fact p.Prime] :
    (2 : Fq p) = Fq.ofInt 2 ∧ (3 : Fq p) = Fq.ofInt 3 ∧ (0 : Fq p) = Fq.ofInt 0 := ⟨rfl, rfl, rfl⟩

/-! ### side conditions of the generic theorems, BLS12-381 base field -/

/-- `2 ≠ 0`, `3 ≠ 0` and `b = FQ(4) ≠ 0` in the model of the BLS12-381 base field -/
theorem f1_field_ok : (2 : F1) ≠ 0 ∧ (3 : F1) ≠ 0 ∧ (blsB : F1) ≠ 0 := by decide +kernel

theorem f1_two_ne_zero : (2 : F1) ≠ 0 := f1_field_ok.1
theorem f1_three_ne_zero : (3 : F1) ≠ 0 := f1_field_ok.2.1
theorem f1_b_ne_zero : (blsB : F1) ≠ 0 := f1_field_ok.2.2

/-- the model's `Z1 = (1, 1, 0)` -/
theorem Z1_z : Z1.2.2 = 0 := rfl

/-! ### G1: the model functions refine Mathlib's group `(W blsB).Point` over the field `Fq blsP` -/

section G1
variable {T T₁ T₂ : G1Pt} {P Q : CurvePt (blsB : F1)}

/-- `is_on_curve(T, b)` of `optimized_bls12_381` run on the model's `FQ` triples accepts exactly the
    triples that represent a Mathlib point of `y² = x³ + 4` over `Fq blsP`. -/
theorem on_curve_iff_F1 (T : G1Pt) :
    OptBls.is_on_curve T blsB = true ↔ ∃ P : CurvePt (blsB : F1), Represents T P :=
  C07Opt.Bls.opt_on_curve_represents f1_two_ne_zero f1_three_ne_zero f1_b_ne_zero T

/-- model `add` on G1 triples computes Mathlib's point addition -/
theorem opt_add_refines_F1 (h₁ : Represents T₁ P) (h₂ : Represents T₂ Q) :
    Represents (OptBls.add T₁ T₂) (P + Q) := C07Opt.Bls.opt_add_refines f1_two_ne_zero h₁ h₂

/-- model `double` on G1 triples computes `P + P` -/
theorem opt_double_refines_F1 (h : Represents T P) : Represents (OptBls.double T) (P + P) :=
  C07Opt.Bls.opt_double_refines f1_two_ne_zero h

/-- model `neg` on G1 triples computes `-P` -/
theorem opt_neg_refines_F1 (h : Represents T P) : Represents (OptBls.neg T) (-P) :=
  C07Opt.Bls.opt_neg_refines h

/-- model `multiply(T, n)` on G1 triples computes `n • P`, every `n` -/
theorem opt_multiply_refines_F1 (h : Represents T P) (n : ℕ) :
    Represents (OptBls.multiply T n) (n • P) := C07Opt.Bls.opt_multiply_refines f1_two_ne_zero h n

/-- model `eq` on G1 triples decides equality of the represented points -/
theorem opt_eq_refines_F1 (h₁ : Represents T₁ P) (h₂ : Represents T₂ Q) :
    OptBls.eq T₁ T₂ = true ↔ P = Q := C07Opt.Bls.opt_eq_refines h₁ h₂

/-- model `is_inf` on G1 triples decides `P = 0` -/
theorem opt_is_inf_refines_F1 (h : Represents T P) : OptBls.is_inf T = true ↔ P = 0 :=
  C07Opt.Bls.opt_is_inf_refines h

/-- `subgroup_check` run on the model's G1 triples returns `True` exactly when `curve_order • P = 0`
    for the represented Mathlib point. -/
theorem subgroup_check_iff_F1 (h : Represents T P) : subgroupCheck T = true ↔ blsR • P = 0 :=
  C17Sub.subgroup_check_iff f1_two_ne_zero h

/-- the model's `clear_cofactor_G1` computes `H_EFF_G1 • P` -/
theorem clearCofactorG1_refines (h : Represents T P) :
    Represents (clearCofactorG1 T) (h2c_H_EFF_G1 • P) :=
  C17Sub.clear_cofactor_refines f1_two_ne_zero h

end G1

/-- non-vacuity: the generator constant of the model is on the curve, hence represents a point -/
example : ∃ P : CurvePt (blsB : F1), Represents blsG1 P :=
  (on_curve_iff_F1 blsG1).mp C07.Facts.bls_G1_model.1

/-! ### bn128 base field `Fq bnP` (the model has no typed bn128 constants; `b = FQ(3)`) -/

/-- `optimized_bn128.b` as an `FQ` object of the model -/
def bnB : Fq bnP := Fq.ofInt optimized_bn128_b

/-- the model type of `optimized_bn128` G1 points -/
abbrev BnG1Pt : Type := Fq bnP × Fq bnP × Fq bnP

/-- `optimized_bn128.G1 = (1, 2, 1)` as a model triple -/
def bnG1 : BnG1Pt := CurveSem.ptOpt (Fq bnP) optimized_bn128_G1

/-- `2 ≠ 0`, `3 ≠ 0` and `b = FQ(3) ≠ 0` in the model of the bn128 base field -/
theorem fbn_field_ok : (2 : Fq bnP) ≠ 0 ∧ (3 : Fq bnP) ≠ 0 ∧ bnB ≠ 0 := by decide +kernel

section BnG1
variable {T T₁ T₂ : BnG1Pt} {P Q : CurvePt bnB}

/-- `optimized_bn128.is_on_curve` on model `FQ` triples accepts exactly the representatives of Mathlib
    points of `y² = x³ + 3` over `Fq bnP` -/
theorem on_curve_iff_Fbn (T : BnG1Pt) :
    OptBn.is_on_curve T bnB = true ↔ ∃ P : CurvePt bnB, Represents T P :=
  C07Opt.Bn.opt_on_curve_represents fbn_field_ok.1 fbn_field_ok.2.1 fbn_field_ok.2.2 T

/-- `optimized_bn128.add` on model triples computes Mathlib's point addition -/
theorem opt_add_refines_Fbn (h₁ : Represents T₁ P) (h₂ : Represents T₂ Q) :
    Represents (OptBn.add T₁ T₂) (P + Q) := C07Opt.Bn.opt_add_refines fbn_field_ok.1 h₁ h₂

/-- `optimized_bn128.double` on model triples computes `P + P` -/
theorem opt_double_refines_Fbn (h : Represents T P) : Represents (OptBn.double T) (P + P) :=
  C07Opt.Bn.opt_double_refines fbn_field_ok.1 h

/-- `optimized_bn128.neg` on model triples computes `-P` -/
theorem opt_neg_refines_Fbn (h : Represents T P) : Represents (OptBn.neg T) (-P) :=
  C07Opt.Bn.opt_neg_refines h

/-- `optimized_bn128.multiply` on model triples computes `n • P` -/
theorem opt_multiply_refines_Fbn (h : Represents T P) (n : ℕ) :
    Represents (OptBn.multiply T n) (n • P) := C07Opt.Bn.opt_multiply_refines fbn_field_ok.1 h n

/-- `optimized_bn128.eq` on model triples decides equality of the represented points -/
theorem opt_eq_refines_Fbn (h₁ : Represents T₁ P) (h₂ : Represents T₂ Q) :
    OptBn.eq T₁ T₂ = true ↔ P = Q := C07Opt.Bn.opt_eq_refines h₁ h₂

/-- `optimized_bn128.is_inf` on model triples decides `P = 0` -/
theorem opt_is_inf_refines_Fbn (h : Represents T P) : OptBn.is_inf T = true ↔ P = 0 :=
  C07Opt.Bn.opt_is_inf_refines h

end BnG1

/-- non-vacuity: `optimized_bn128.G1 = (1, 2, 1)` -/
example : ∃ P : CurvePt bnB,
    Represents ((Fq.ofInt 1 : Fq bnP), (Fq.ofInt 2 : Fq bnP), (Fq.ofInt 1 : Fq bnP)) P :=
  (on_curve_iff_Fbn _).mp (by decide +kernel)

end PyEcc.Transfer
