/-
  PyEcc.Sem.GroupOrderK — elementary tools for determining the order (and exponent) of
  `E : y² = x³ + b` over an ARBITRARY finite field `K` (generalises `Sem/GroupOrder.lean`, which is
  about `ZMod p`), without Hasse's bound:

  * `card_point_le`        : `#E(K) ≤ 2·#K + 1` (at most two `y` per `x`, plus ∞);
  * `sq_dvd_card`          : in a finite commutative group, a point `P` of prime order `q` and a point
                             `R ∉ ⟨P⟩` with `q • R = 0` span a subgroup `≅ (Z/q)²`: `q² ∣ #G`, and the
                             subgroup has exponent `q`;
  * `not_mem_of_cube`      : for an endomorphism `φ` with `φ³ P = P`, `φ P = k • P` forces `k³ ≡ 1 (mod q)`,
                             so `φ P ∉ ⟨P⟩` follows from finitely many checks `φ P ≠ l • P` (`l` the cube
                             roots of unity mod `q`);
  * `cube_roots_of_split`, `cube_roots_of_mod3` : the cube roots of unity in `ZMod q`;
  * `exponent_of_sq`       : if `#G = q²·m`, `q ∤ m`, and `G` has a subgroup of order `q²` and exponent `q`,
                             then `(q·m) • x = 0` for every `x`;
  * `card_eq_of_dvd_of_le` : `n ∣ #G`, `#G ≤ B < 2n` ⇒ `#G = n`;
  * `card_eq_of_dvd_of_le_of_odd` : `n ∣ #G`, `#G ≤ B < 3n`, no element of order two ⇒ `#G = n`.
-/
import PyEcc.Sem.GroupOrder
import Mathlib.GroupTheory.Coset.Card
import Mathlib.GroupTheory.QuotientGroup.Basic
import Mathlib.GroupTheory.OrderOfElement
import Mathlib.GroupTheory.SpecificGroups.Cyclic
import Mathlib.Algebra.Group.Subgroup.Finite
import Mathlib.FieldTheory.Finite.Basic

namespace PyEcc.Hb2
open WeierstrassCurve PyEcc

/-! ### the upper bound `#E(K) ≤ 2·#K + 1` over any finite field -/

section bound
variable {K : Type} [Field K] [Fintype K] [DecidableEq K]

/-- affine solutions of `y² = x³ + b` over `K` -/
def sols (b : K) : Finset (K × K) := Finset.univ.filter (fun a => a.2 ^ 2 = a.1 ^ 3 + b)

lemma sq_fiber_le_two (c : K) : (Finset.univ.filter (fun y : K => y ^ 2 = c)).card ≤ 2 := by
  classical
  have : (Finset.univ.filter (fun y : K => y ^ 2 = c)) ⊆ (Polynomial.nthRoots 2 c).toFinset := by
    intro y hy
    simp only [Finset.mem_filter, Finset.mem_univ, true_and] at hy
    simp [Polynomial.mem_nthRoots, hy]
  calc _ ≤ (Polynomial.nthRoots 2 c).toFinset.card := Finset.card_le_card this
    _ ≤ Multiset.card (Polynomial.nthRoots 2 c) := Multiset.toFinset_card_le _
    _ ≤ 2 := Polynomial.card_nthRoots 2 c

lemma card_sols_le (b : K) : (sols b).card ≤ 2 * Fintype.card K := by
  classical
  have h := Finset.card_le_mul_card_image (f := Prod.fst) (sols b) 2 (by
    intro x _
    have : (Finset.filter (fun a => a.1 = x) (sols b)).card
        ≤ (Finset.univ.filter (fun y : K => y ^ 2 = x ^ 3 + b)).card := by
      apply Finset.card_le_card_of_injOn Prod.snd
      · intro a ha
        simp only [sols, Finset.coe_filter, Finset.mem_filter, Finset.mem_univ, true_and,
          Set.mem_ofPred_eq] at ha ⊢
        rw [← ha.2]; exact ha.1
      · intro a ha a' ha' h
        simp only [Finset.coe_filter, Set.mem_ofPred_eq] at ha ha'
        exact Prod.ext (ha.2.trans ha'.2.symm) h
    exact this.trans (sq_fiber_le_two _))
  calc (sols b).card ≤ 2 * ((sols b).image Prod.fst).card := h
    _ ≤ 2 * (Finset.univ : Finset K).card := by
        gcongr; exact Finset.subset_univ _
    _ = 2 * Fintype.card K := by simp

/-- points inject into `Option` of the solution set -/
def ptToOpt (b : K) : (W b).Point → Option {a : K × K // a ∈ sols b}
  | .zero => none
  | .some x y h => some ⟨(x, y), by
      have e := (Affine.equation_iff _ _).mp h.1
      simp only [W] at e
      simp only [sols, Finset.mem_filter, Finset.mem_univ, true_and]
      linear_combination e⟩

lemma ptToOpt_injective (b : K) : Function.Injective (ptToOpt b) := by
  intro P Q h
  rcases P with _ | ⟨x, y, hxy⟩ <;> rcases Q with _ | ⟨x', y', hxy'⟩
  · rfl
  · simp [ptToOpt] at h
  · simp [ptToOpt] at h
  · simp only [ptToOpt, Option.some.injEq, Subtype.mk.injEq, Prod.mk.injEq] at h
    obtain ⟨rfl, rfl⟩ := h
    rfl

theorem finite_point (b : K) : Finite (W b).Point := Finite.of_injective _ (ptToOpt_injective b)

/-- **`#E(K) ≤ 2·#K + 1`** for `E : y² = x³ + b` over a finite field `K`. -/
theorem card_point_le (b : K) : Nat.card (W b).Point ≤ 2 * Fintype.card K + 1 := by
  classical
  calc Nat.card (W b).Point ≤ Nat.card (Option {a : K × K // a ∈ sols b}) :=
        Nat.card_le_card_of_injective _ (ptToOpt_injective b)
    _ = (sols b).card + 1 := by
        rw [Nat.card_eq_fintype_card, Fintype.card_option, Fintype.card_coe]
    _ ≤ 2 * Fintype.card K + 1 := by have := card_sols_le b; omega

end bound

/-! ### group theory -/

section group
variable {G : Type*} [AddCommGroup G]

/-- `n ∣ #G`, `#G ≤ B`, `B < 2n` force `#G = n` (for a finite group). -/
theorem card_eq_of_dvd_of_le [Finite G] {n B : ℕ} (hd : n ∣ Nat.card G) (hle : Nat.card G ≤ B)
    (hB : B < 2 * n) : Nat.card G = n := by
  obtain ⟨k, hk⟩ := hd
  have hpos : 0 < Nat.card G := Nat.card_pos
  have hk0 : k ≠ 0 := by rintro rfl; omega
  have hk2 : k < 2 := by
    by_contra hcon
    have : 2 * n ≤ n * k := by nlinarith [Nat.le_of_not_lt hcon]
    omega
  have : k = 1 := by omega
  subst this; omega

/-- `n ∣ #G`, `#G ≤ B`, `B < 3n` and no element of order two force `#G = n` (Cauchy excludes `#G = 2n`). -/
theorem card_eq_of_dvd_of_le_of_odd [Finite G] {n B : ℕ} (hd : n ∣ Nat.card G) (hle : Nat.card G ≤ B)
    (hB : B < 3 * n) (hno2 : ∀ P : G, P + P = 0 → P = 0) : Nat.card G = n := by
  obtain ⟨k, hk⟩ := hd
  have hpos : 0 < Nat.card G := Nat.card_pos
  have hk0 : k ≠ 0 := by rintro rfl; omega
  have hk3 : k < 3 := by
    by_contra hcon
    have : 3 * n ≤ n * k := by nlinarith [Nat.le_of_not_lt hcon]
    omega
  have hk12 : k = 1 ∨ k = 2 := by omega
  rcases hk12 with rfl | rfl
  · omega
  · exfalso
    have h2dvd : 2 ∣ Nat.card G := ⟨n, by omega⟩
    have : Fact (Nat.Prime 2) := ⟨Nat.prime_two⟩
    obtain ⟨P, hP⟩ := exists_prime_addOrderOf_dvd_card' (G := G) 2 h2dvd
    have hP0 : P ≠ 0 := by
      intro h; rw [h, addOrderOf_zero] at hP; omega
    have h2P : P + P = 0 := by
      have := addOrderOf_nsmul_eq_zero P
      rw [hP, two_smul] at this; exact this
    exact hP0 (hno2 P h2P)

/-- a point of exact order `n` gives `n ∣ #G` -/
theorem dvd_card_of_order [Finite G] {n : ℕ} (P : G) (h : addOrderOf P = n) : n ∣ Nat.card G :=
  h ▸ addOrderOf_dvd_natCard P

/-- **A subgroup `≅ (Z/q)²`.**  `P` of prime order `q`, `q • R = 0`, `R ∉ ⟨P⟩`: there is a subgroup of
    order `q²` all of whose elements are killed by `q`. -/
theorem exists_sq_subgroup {q : ℕ} (hq : q.Prime) (P R : G) (hP : addOrderOf P = q)
    (hR : q • R = 0) (hnot : R ∉ AddSubgroup.zmultiples P) :
    ∃ H : AddSubgroup G, Nat.card H = q ^ 2 ∧ ∀ x ∈ H, q • x = 0 := by
  have hR0 : R ≠ 0 := fun h => hnot (h ▸ zero_mem _)
  have hRo : addOrderOf R = q := by
    have := Fact.mk hq
    exact addOrderOf_eq_prime hR hR0
  -- the sum map `⟨P⟩ × ⟨R⟩ → G`
  let f : (AddSubgroup.zmultiples P × AddSubgroup.zmultiples R) →+ G :=
    AddMonoidHom.coprod (AddSubgroup.zmultiples P).subtype (AddSubgroup.zmultiples R).subtype
  have hf : ∀ a, f a = (a.1 : G) + (a.2 : G) := fun a => by
    simp [f, AddMonoidHom.coprod_apply]
  -- `⟨P⟩ ∩ ⟨R⟩ = 0`
  have hdisj : ∀ x : G, x ∈ AddSubgroup.zmultiples P → x ∈ AddSubgroup.zmultiples R → x = 0 := by
    intro x hxP hxR
    by_contra hx0
    -- `x` generates `⟨R⟩` since `⟨R⟩` has prime order
    obtain ⟨k, rfl⟩ := AddSubgroup.mem_zmultiples_iff.mp hxR
    have hcop : IsCoprime k (q : ℤ) := by
      rw [Int.isCoprime_iff_gcd_eq_one]
      have hdvd : ¬ (q : ℤ) ∣ k := by
        intro hd
        apply hx0
        obtain ⟨c, rfl⟩ := hd
        rw [mul_comm, mul_smul, natCast_zsmul, hR, smul_zero]
      have hc : Nat.Coprime q k.natAbs :=
        (Nat.Prime.coprime_iff_not_dvd hq).mpr (fun h => hdvd (Int.natCast_dvd.mpr h))
      rw [Int.gcd_comm]
      show Nat.gcd (Int.natAbs (q : ℤ)) k.natAbs = 1
      rw [Int.natAbs_natCast]; exact hc
    obtain ⟨u, v, huv⟩ := hcop
    apply hnot
    have : R = u • (k • R) := by
      have h1 : (u * k + v * q) • R = R := by rw [huv, one_smul]
      rw [add_smul, mul_smul v, natCast_zsmul, hR, smul_zero, add_zero, mul_smul] at h1
      exact h1.symm
    rw [this]
    exact (AddSubgroup.zmultiples P).zsmul_mem hxP u
  have hinj : Function.Injective f := by
    rw [injective_iff_map_eq_zero]
    intro a ha
    rw [hf] at ha
    have h1 : (a.1 : G) = -(a.2 : G) := eq_neg_of_add_eq_zero_left ha
    have h2 : (a.1 : G) = 0 :=
      hdisj _ a.1.2 (h1 ▸ (AddSubgroup.zmultiples R).neg_mem a.2.2)
    have h3 : (a.2 : G) = 0 := by rw [h2, zero_add] at ha; exact ha
    exact Prod.ext (Subtype.ext h2) (Subtype.ext h3)
  refine ⟨f.range, ?_, ?_⟩
  · rw [Nat.card_congr (AddMonoidHom.ofInjective hinj).toEquiv.symm, Nat.card_prod, Nat.card_zmultiples,
      Nat.card_zmultiples, hP, hRo, sq]
  · rintro x ⟨a, rfl⟩
    rw [hf, smul_add]
    obtain ⟨i, hi⟩ := AddSubgroup.mem_zmultiples_iff.mp a.1.2
    obtain ⟨j, hj⟩ := AddSubgroup.mem_zmultiples_iff.mp a.2.2
    have hPq : q • P = 0 := hP ▸ addOrderOf_nsmul_eq_zero P
    rw [← hi, ← hj, smul_comm, hPq, smul_zero, smul_comm, hR, smul_zero, add_zero]

/-- `q² ∣ #G` from a subgroup of order `q²` -/
theorem sq_dvd_card [Finite G] {q : ℕ} (H : AddSubgroup G) (hH : Nat.card H = q ^ 2) :
    q ^ 2 ∣ Nat.card G := hH ▸ AddSubgroup.card_addSubgroup_dvd_card H

/-- **Exponent from a `(Z/q)²` subgroup.**  If `#G = q²·m` with `q ∤ m` and `G` has a subgroup of order
    `q²` killed by `q`, then every element of `G` is killed by `q·m`. -/
theorem exponent_of_sq [Finite G] {q m : ℕ} (hcard : Nat.card G = q ^ 2 * m)
    (hcop : Nat.Coprime m (q ^ 2)) (H : AddSubgroup G) (hH : Nat.card H = q ^ 2)
    (hexp : ∀ x ∈ H, q • x = 0) (x : G) : (q * m) • x = 0 := by
  have hq : Nat.card (G ⧸ H) = m := by
    have := AddSubgroup.card_eq_card_quotient_mul_card_addSubgroup H
    rw [hcard, hH, mul_comm] at this
    have hpos : 0 < q ^ 2 := by
      rcases Nat.eq_zero_or_pos (q ^ 2) with h | h
      · rw [h, zero_mul] at hcard
        have : 0 < Nat.card G := Nat.card_pos
        omega
      · exact h
    exact (Nat.eq_of_mul_eq_mul_right hpos this).symm
  have h1 : m • ((m • x : G) : G ⧸ H) = 0 := by
    rw [← hq]; exact card_nsmul_eq_zero'
  have h2 : (q ^ 2) • ((m • x : G) : G ⧸ H) = 0 := by
    rw [← QuotientAddGroup.mk_nsmul, smul_smul, ← hcard]
    rw [card_nsmul_eq_zero']; rfl
  have h3 : ((m • x : G) : G ⧸ H) = 0 := by
    have o1 : addOrderOf ((m • x : G) : G ⧸ H) ∣ m := addOrderOf_dvd_iff_nsmul_eq_zero.mpr h1
    have o2 : addOrderOf ((m • x : G) : G ⧸ H) ∣ q ^ 2 := addOrderOf_dvd_iff_nsmul_eq_zero.mpr h2
    have o3 : addOrderOf ((m • x : G) : G ⧸ H) ∣ 1 := hcop ▸ Nat.dvd_gcd o1 o2
    exact AddMonoid.addOrderOf_eq_one_iff.mp (Nat.dvd_one.mp o3)
  have h4 : m • x ∈ H := (QuotientAddGroup.eq_zero_iff _).mp h3
  rw [mul_smul]; exact hexp _ h4

/-- **`φ P ∉ ⟨P⟩` by finitely many checks.**  `φ` an endomorphism with `φ³ P = P`, `P` of prime order `q`,
    and `l₁, l₂` such that every cube root of unity in `ZMod q` is `1`, `l₁` or `l₂`: if
    `φ P ≠ P`, `φ P ≠ l₁ • P`, `φ P ≠ l₂ • P` then `φ P` is not a multiple of `P`. -/
theorem not_mem_of_cube {q : ℕ} [Fact q.Prime] (φ : G →+ G) (P : G) (hP : addOrderOf P = q)
    (h3 : φ (φ (φ P)) = P) (l₁ l₂ : ℕ)
    (hroots : ∀ k : ZMod q, k ^ 3 = 1 → k = 1 ∨ k = (l₁ : ZMod q) ∨ k = (l₂ : ZMod q))
    (c0 : φ P ≠ P) (c1 : φ P ≠ l₁ • P) (c2 : φ P ≠ l₂ • P) :
    φ P ∉ AddSubgroup.zmultiples P := by
  intro hmem
  have hq : q.Prime := Fact.out
  have hfin : IsOfFinAddOrder P := by
    rw [← addOrderOf_pos_iff, hP]; exact hq.pos
  obtain ⟨k, hk⟩ := (AddSubmonoid.mem_multiples_iff _ _).mp (hfin.mem_multiples_iff_mem_zmultiples.mpr hmem)
  have hk' : φ P = k • P := hk.symm
  have e3 : (k ^ 3) • P = 1 • P := by
    rw [one_smul]
    conv_rhs => rw [← h3, hk', map_nsmul, hk', map_nsmul, map_nsmul, hk']
    rw [smul_smul, smul_smul]; congr 1; ring
  have hmod : k ^ 3 ≡ 1 [MOD q] := by
    rw [← hP]; exact nsmul_eq_nsmul_iff_modEq.mp e3
  have hz : ((k : ZMod q)) ^ 3 = 1 := by
    have := (ZMod.natCast_eq_natCast_iff _ _ _).mpr hmod
    simpa using this
  have key : ∀ l : ℕ, (k : ZMod q) = (l : ZMod q) → φ P = l • P := by
    intro l hl
    rw [hk']
    apply nsmul_eq_nsmul_iff_modEq.mpr
    rw [hP]
    exact (ZMod.natCast_eq_natCast_iff _ _ _).mp hl
  rcases hroots _ hz with h | h | h
  · exact c0 (by have := key 1 (by simpa using h); simpa using this)
  · exact c1 (key _ h)
  · exact c2 (key _ h)

/-- cube roots of unity in `ZMod q` when `X² + X + 1 = (X − l₁)(X − l₂)` -/
theorem cube_roots_of_split {q : ℕ} [Fact q.Prime] (l₁ l₂ : ZMod q) (hs : l₁ + l₂ + 1 = 0)
    (hp : l₁ * l₂ = 1) (k : ZMod q) (hk : k ^ 3 = 1) : k = 1 ∨ k = l₁ ∨ k = l₂ := by
  have : (k - 1) * ((k - l₁) * (k - l₂)) = 0 := by
    have e : (k - 1) * ((k - l₁) * (k - l₂))
        = k ^ 3 - 1 - (k - 1) * k * (l₁ + l₂ + 1) + (k - 1) * (l₁ * l₂ - 1) := by ring
    rw [e, hk, hs, hp]; ring
  rcases mul_eq_zero.mp this with h | h
  · exact Or.inl (sub_eq_zero.mp h)
  · rcases mul_eq_zero.mp h with h | h
    · exact Or.inr (Or.inl (sub_eq_zero.mp h))
    · exact Or.inr (Or.inr (sub_eq_zero.mp h))

/-- the only cube root of unity in `ZMod q` is `1` when `3 ∤ q − 1` -/
theorem cube_roots_of_mod3 {q : ℕ} [Fact q.Prime] (h : Nat.Coprime 3 (q - 1)) (k : ZMod q)
    (hk : k ^ 3 = 1) : k = 1 ∨ k = ((1 : ℕ) : ZMod q) ∨ k = ((1 : ℕ) : ZMod q) := by
  left
  have hk0 : k ≠ 0 := by
    rintro rfl
    simp at hk
  have h2 : k ^ (q - 1) = 1 := ZMod.pow_card_sub_one_eq_one hk0
  have := pow_gcd_eq_one.mpr ⟨hk, h2⟩
  rw [show Nat.gcd 3 (q - 1) = 1 from h, pow_one] at this
  exact this

end group

end PyEcc.Hb2
