import Mathlib.NumberTheory.LucasPrimality
import Mathlib.Tactic.NormNum.Prime

namespace PyEcc.Pratt

def powModAux : Nat → Nat → Nat → Nat → Nat → Nat
  | 0, _, _, _, acc => acc
  | fuel+1, a, e, m, acc =>
    if e = 0 then acc
    else powModAux fuel (a * a % m) (e / 2) m (if e % 2 = 1 then acc * a % m else acc)

def powMod (a e m : Nat) : Nat := powModAux (e.log2 + 1) (a % m) e m (1 % m)

theorem powModAux_cast (m : Nat) : ∀ (fuel a e acc : Nat), e < 2 ^ fuel →
    ((powModAux fuel a e m acc : ℕ) : ZMod m) = (acc : ZMod m) * (a : ZMod m) ^ e := by
  intro fuel
  induction fuel with
  | zero =>
    intro a e acc h
    have : e = 0 := by simpa using h
    subst this
    simp [powModAux]
  | succ n ih =>
    intro a e acc h
    unfold powModAux
    by_cases he : e = 0
    · subst he; simp
    · rw [if_neg he]
      have h2 : e / 2 < 2 ^ n := by
        rw [Nat.div_lt_iff_lt_mul (by norm_num)]; rw [pow_succ] at h; omega
      rw [ih _ _ _ h2]
      have hsplit : e = 2 * (e / 2) + e % 2 := by omega
      by_cases hodd : e % 2 = 1
      · rw [if_pos hodd]
        conv_rhs => rw [hsplit, hodd, pow_add, pow_mul, pow_one]
        simp only [ZMod.natCast_mod, Nat.cast_mul]
        ring
      · rw [if_neg hodd]
        have hev : e % 2 = 0 := by omega
        conv_rhs => rw [hsplit, hev, add_zero, pow_mul]
        simp only [ZMod.natCast_mod, Nat.cast_mul]
        ring

theorem powMod_cast (a e m : Nat) : ((powMod a e m : ℕ) : ZMod m) = (a : ZMod m) ^ e := by
  unfold powMod
  rw [powModAux_cast m _ _ _ _ (Nat.lt_log2_self)]
  simp [ZMod.natCast_mod]

/-- Lucas/Pratt step from computable checks: `fs` lists the prime factors of `p - 1`
with multiplicities (`(q, e)`), each `q` already known prime. -/
theorem pratt_step (p a : ℕ) (fs : List (ℕ × ℕ)) (hp1 : 1 < p)
    (h1 : powMod a (p - 1) p % p = 1)
    (hprod : (fs.map (fun qe => qe.1 ^ qe.2)).prod = p - 1)
    (hfs : ∀ qe ∈ fs, qe.1.Prime ∧ powMod a ((p - 1) / qe.1) p % p ≠ 1) : p.Prime := by
  have h1p : 1 % p = 1 := Nat.mod_eq_of_lt hp1
  have hmod : ∀ x : ℕ, ((x : ZMod p) = 1 ↔ x % p = 1) := by
    intro x
    have := ZMod.natCast_eq_natCast_iff' x 1 p
    rw [Nat.cast_one, h1p] at this
    exact this
  apply lucas_primality p (a : ZMod p)
  · rw [← powMod_cast]; exact (hmod _).mpr h1
  · intro q hq hdvd
    rw [← hprod] at hdvd
    obtain ⟨x, hx, hqx⟩ := (Prime.dvd_prod_iff hq.prime).mp hdvd
    obtain ⟨qe, hqe, rfl⟩ := List.mem_map.mp hx
    have hq' := (hfs qe hqe).1
    have hdq : q ∣ qe.1 := hq.prime.dvd_of_dvd_pow hqx
    have heq : q = qe.1 := (Nat.prime_dvd_prime_iff_eq hq hq').mp hdq
    subst heq
    intro hcontra
    apply (hfs qe hqe).2
    rw [← powMod_cast] at hcontra
    exact (hmod _).mp hcontra


end PyEcc.Pratt
