/-
  PyEcc.Sem.CodecSemG2 — control skeleton of `decompress_G2` (helper for `Props/C11_G2.lean`).
-/
import PyEcc.Sem.CodecSem

set_option exponentiation.threshold 400

namespace PyEcc.CodecSem
open PyEcc Gen.Consts

/-! ### control skeleton of `decompress_G2` -/

/-- the decoder's choice between `y` and `-y` according to the sign flag -/
def pickY2 (a : Bool) (y : F2) : F2 :=
  if (getI y.coeffs 1 > 0 ∧ (getI y.coeffs 1 * 2) / (blsP : Int) ≠ (if a then 1 else 0)) ∨
     (getI y.coeffs 1 = 0 ∧ (getI y.coeffs 0 * 2) / (blsP : Int) ≠ (if a then 1 else 0))
  then Fqp.ofInts (Fqp.mulInt y (-1)).coeffs else y

/-- the `x` coordinate `FQ2([z2, z1 % 2^381])` read off the two words -/
def encodedX2 (z1 z2 : ℕ) : F2 := Fqp.ofInts [(z2 : Int), ((z1 % POW_2_381 : ℕ) : Int)]

/-- the curve right-hand side `x ** 3 + b2` of the decoder, with the model's `**` on `FQ2` (instance spelled
    out: with Mathlib imported, the notation `x ^ 3` would elaborate through `Monoid.npow`) -/
def rhsOf2 (z1 z2 : ℕ) : F2 :=
  @HPow.hPow F2 ℕ F2 (@instHPow F2 ℕ Fqp.instPowNat) (encodedX2 z1 z2) 3 + blsB2

/-- the triple returned by `decompress_G2` for encoded `x` and chosen root `y` -/
def decodedPt2 (z1 z2 : ℕ) (y : F2) : G2Pt :=
  (encodedX2 z1 z2, pickY2 (getFlags z1).2.2 y, Fqp.ofInts [1, 0])

/-- control skeleton of `decompress_G2` -/
def ctl2 (c b a isInf : Bool) (bad1 bad2 : Prop) [Decidable bad1] [Decidable bad2] (r : Option F2)
    (k : F2 → G2Pt) : Except PyErr G2Pt :=
  if !c then .error .value else
  if b != isInf then .error .value else
  if isInf then (if a then .error .value else .ok Z2) else
  if bad1 then .error .value else
  if bad2 then .error .value else
  match r with
  | none => .error .value
  | some y => if !(Gen.OptBls.is_on_curve (k y) blsB2) then .error .value else .ok (k y)

theorem decompressG2_ctl (z1 z2 : ℕ) : decompressG2 z1 z2 =
    ctl2 (getFlags z1).1 (getFlags z1).2.1 (getFlags z1).2.2 (isPointAtInfinity z1 (some z2))
      (z1 % POW_2_381 ≥ blsP) (z2 ≥ blsP)
      (modularSquarerootInFq2 (rhsOf2 z1 z2))
      (decodedPt2 z1 z2) := by
  unfold decompressG2 decodedPt2 rhsOf2 encodedX2
  generalize getFlags z1 = g
  obtain ⟨c, b, a⟩ := g
  simp only [bind, Except.bind, throw, throwThe, MonadExceptOf.throw, pure, Except.pure]
  unfold ctl2 pickY2
  generalize modularSquarerootInFq2 _ = r
  cases r <;> rfl

theorem ctl2_error_kind {c b a isInf : Bool} {bad1 bad2 : Prop} [Decidable bad1] [Decidable bad2]
    {r : Option F2} {k : F2 → G2Pt} {e : PyErr} (h : ctl2 c b a isInf bad1 bad2 r k = .error e) : e = .value := by
  unfold ctl2 at h
  split_ifs at h
  all_goals first
    | (cases h; rfl)
    | (split at h
       · cases h; rfl
       · split_ifs at h; cases h; rfl)

theorem ctl2_ok {c b a isInf : Bool} {bad1 bad2 : Prop} [Decidable bad1] [Decidable bad2]
    {r : Option F2} {k : F2 → G2Pt} {P : G2Pt} (h : ctl2 c b a isInf bad1 bad2 r k = .ok P) :
    c = true ∧
    ((isInf = true ∧ b = true ∧ a = false ∧ P = Z2) ∨
     (isInf = false ∧ b = false ∧ ¬bad1 ∧ ¬bad2 ∧
        ∃ y, r = some y ∧ P = k y ∧ Gen.OptBls.is_on_curve (k y) blsB2 = true)) := by
  unfold ctl2 at h
  split_ifs at h with h1 h2 h3 h4 h5 h6
  · cases h
    have hc : c = true := by simpa using h1
    have hb : b = isInf := by simpa using h2
    exact ⟨hc, Or.inl ⟨h3, hb.trans h3, by simpa using h4, rfl⟩⟩
  · have hc : c = true := by simpa using h1
    have hb : b = isInf := by simpa using h2
    have hi : isInf = false := by simpa using h3
    cases r with
    | none => cases h
    | some y =>
      simp only at h
      split_ifs at h with h7
      cases h
      exact ⟨hc, Or.inr ⟨hi, hb.trans hi, h5, h6, y, rfl, rfl, by simpa using h7⟩⟩

theorem ctl2_inf {c b a : Bool} {bad1 bad2 : Prop} [Decidable bad1] [Decidable bad2]
    {r : Option F2} {k : F2 → G2Pt} (hc : c = true) (hb : b = true) (ha : a = false) :
    ctl2 c b a true bad1 bad2 r k = .ok Z2 := by
  subst hc hb ha; simp [ctl2]

theorem ctl2_bad2 {c b a : Bool} {bad1 bad2 : Prop} [Decidable bad1] [Decidable bad2]
    {r : Option F2} {k : F2 → G2Pt} (h : bad2) :
    ctl2 c b a false bad1 bad2 r k = .error .value := by
  unfold ctl2
  cases c <;> cases b <;> by_cases h1 : bad1 <;> simp [h, h1]

theorem isPointAtInfinity_some (z1 z2 : ℕ) :
    isPointAtInfinity z1 (some z2) = true ↔ (z1 % 2 ^ 381 = 0 ∧ z2 = 0) := by
  unfold isPointAtInfinity
  rw [pow2_381]
  simp only [Bool.and_eq_true, beq_iff_eq]

theorem isPointAtInfinity_some_false (z1 z2 : ℕ) :
    isPointAtInfinity z1 (some z2) = false ↔ ¬(z1 % 2 ^ 381 = 0 ∧ z2 = 0) := by
  rw [← isPointAtInfinity_some, Bool.not_eq_true]

end PyEcc.CodecSem
