/-
  PyEcc.Sem.EcdsaSem — helpers for properties C06/C19 (ECDSA entry points of `py_ecc/secp256k1/secp256k1.py`):
   * `jacobian_multiply` never runs out of fuel (the recursion `n ↦ n % N ↦ n // 2 ↦ …` terminates), hence
     never returns an error;
   * `pow(b, e, P)` (`Gen.Secp.powModI`) read in `ZMod P`; the `(P+1)/4`-th power is a square root exactly on
     squares (`P % 4 = 3`); `x³ + 7` has no root mod `P` (`-7` is not a cube);
   * the `y` lift of `ecdsa_raw_recover` (`liftY`), its parity and range; `ecdsaRawRecover` split into its
     acceptance test and its arithmetic tail (`recoverCore`);
   * `^` on parities (`pyXor`).
-/
import PyEcc.Lemmas.SecpRefine
import PyEcc.Sem.CodecSem
import PyEcc.Model.Ecdsa
import Mathlib.FieldTheory.Finite.Basic
import Mathlib.Tactic.Ring
import Mathlib.Tactic.LinearCombination

namespace PyEcc.EcdsaSem
open PyEcc PyEcc.Gen.Secp PyEcc.SecpSem PyEcc.Gen.Consts

/-! ### `jacobian_multiply` is total -/

theorem N_val : N = 115792089237316195423570985008687907852837564279074904382605163141518161494337 := rfl
theorem P_val : P = 115792089237316195423570985008687907853269984665640564039457584007908834671663 := rfl

/-- for `0 ≤ n < N` any fuel above `n` suffices: the argument halves at each step -/
theorem jacobian_multiplyAux_ok : ∀ (fuel : ℕ) (a : ℤ × ℤ × ℤ) (n : ℤ), 0 ≤ n → n < N → n.toNat < fuel →
    ∃ T, jacobian_multiplyAux fuel a n = .ok T := by
  intro fuel
  induction fuel with
  | zero => intro a n _ _ h; omega
  | succ f ih =>
    intro a n h0 hN hf
    unfold jacobian_multiplyAux
    split
    · exact ⟨_, rfl⟩
    · rename_i hc
      split
      · exact ⟨_, rfl⟩
      · rename_i h1
        have hn0 : n ≠ 0 := fun h => hc (Or.inr h)
        rw [if_neg (by omega)]
        have hhalf : ∃ T, jacobian_multiplyAux f a (n / 2) = .ok T :=
          ih a (n / 2) (by omega) (by omega) (by omega)
        obtain ⟨T, hT⟩ := hhalf
        rw [hT]
        split
        · exact ⟨_, rfl⟩
        · rw [if_pos (by omega)]
          exact ⟨_, rfl⟩

/-- any fuel above `n % N + 1` suffices for an arbitrary int `n`: at most one reduction step first -/
theorem jacobian_multiplyAux_ok' (fuel : ℕ) (a : ℤ × ℤ × ℤ) (n : ℤ) (hf : (n % N).toNat + 1 < fuel) :
    ∃ T, jacobian_multiplyAux fuel a n = .ok T := by
  have hm0 : 0 ≤ n % N := Int.emod_nonneg _ (by decide)
  have hm1 : n % N < N := Int.emod_lt_of_pos _ N_pos
  by_cases hr : 0 ≤ n ∧ n < N
  · have : n % N = n := Int.emod_eq_of_lt hr.1 hr.2
    exact jacobian_multiplyAux_ok _ a n hr.1 hr.2 (by omega)
  · cases fuel with
    | zero => omega
    | succ f =>
      unfold jacobian_multiplyAux
      split
      · exact ⟨_, rfl⟩
      · split
        · exact ⟨_, rfl⟩
        · rw [if_pos (by omega)]
          obtain ⟨T, hT⟩ := jacobian_multiplyAux_ok f a (n % N) hm0 hm1 (by omega)
          rw [hT]
          exact ⟨_, rfl⟩

theorem fuel_bound (M : ℤ) (hM : 0 < M) (n : ℤ) : (n % M).toNat + 1 < n.natAbs + M.natAbs + 2 := by
  have hm0 : 0 ≤ n % M := Int.emod_nonneg _ (by omega)
  have hm1 : n % M < M := Int.emod_lt_of_pos _ hM
  omega

/-- **`jacobian_multiply` never raises**: the fuel `|n| + |N| + 2` of the generated recursion is never
exhausted and the "unexpected case" `ValueError` branch is unreachable. -/
theorem jacobian_multiply_ok (a : ℤ × ℤ × ℤ) (n : ℤ) : ∃ T, jacobian_multiply a n = .ok T :=
  jacobian_multiplyAux_ok' _ a n (fuel_bound N N_pos n)

/-- `multiply` never raises -/
theorem multiply_ok (a : ℤ × ℤ) (n : ℤ) : ∃ R, multiply a n = .ok R := by
  obtain ⟨T, hT⟩ := jacobian_multiply_ok (to_jacobian a) n
  exact ⟨_, multiply_of_ok hT⟩

/-! ### the model's entry points, unfolded -/
open PyEcc.Ecdsa

/-- `xcubedaxb = (x*x*x + A*x + B) % P` of `ecdsa_raw_recover` (with `x = r`) -/
def xcub (r : ℤ) : ℤ := (r * r * r + A * r + B) % P

/-- `beta = pow(xcubedaxb, (P+1)//4, P)` of `ecdsa_raw_recover` -/
def beta (r : ℤ) : ℤ := powModI (xcub r) ((P + 1) / 4) P

/-- `y = beta if v % 2 ^ beta % 2 else (P - beta)` of `ecdsa_raw_recover` -/
def liftY (v r : ℤ) : ℤ := if pyXor (v % 2) (beta r % 2) ≠ 0 then beta r else P - beta r

/-- the second `raise ValueError` test of `ecdsa_raw_recover` -/
def RecoverBad (v r s : ℤ) : Prop :=
  (xcub r - liftY v r * liftY v r) % P ≠ 0 ∨ r % N = 0 ∨ s % N = 0

instance (v r s : ℤ) : Decidable (RecoverBad v r s) := by unfold RecoverBad; infer_instance

/-- the arithmetic tail of `ecdsa_raw_recover` (after both tests), on the lifted point `(x, y)` -/
def recoverCore (msghash : Bytes) (x y r s : ℤ) : Except PyErr (ℤ × ℤ) := do
  let z := bytesToInt msghash
  let Gz ← jacobian_multiply (Gx, Gy, 1) ((N - z) % N)
  let XY ← jacobian_multiply (x, y, 1) s
  let Qr := jacobian_add Gz XY
  let Q ← jacobian_multiply Qr (inv r N)
  pure (from_jacobian Q)

/-- `ecdsa_raw_recover` = first test, second test, arithmetic tail -/
theorem ecdsaRawRecover_eq (h : Bytes) (v r s : ℤ) :
    ecdsaRawRecover h v r s =
      if ¬ (v = 27 ∨ v = 28) then .error .value
      else if RecoverBad v r s then .error .value
      else recoverCore h r (liftY v r) r s := by
  unfold ecdsaRawRecover
  by_cases hv : ¬ (v = 27 ∨ v = 28)
  · simp only [if_pos hv]; rfl
  · simp only [if_neg hv]
    by_cases hb : RecoverBad v r s
    · rw [if_pos hb]
      have hb' := hb
      unfold RecoverBad liftY beta xcub at hb'
      simp only [if_pos hb']; rfl
    · rw [if_neg hb]
      have hb' := hb
      unfold RecoverBad liftY beta xcub at hb'
      simp only [if_neg hb']; rfl

theorem bind_ok {α β : Type} (a : α) (f : α → Except PyErr β) : (Except.ok a >>= f) = f a := rfl

/-- the tail succeeds with `from_jacobian Q` when its three scalar multiplications return `Gz`, `XY`, `Q` -/
theorem recoverCore_of_ok {h : Bytes} {x y r s : ℤ} {Gz XY Q : ℤ × ℤ × ℤ}
    (h1 : jacobian_multiply (Gx, Gy, 1) ((N - bytesToInt h) % N) = .ok Gz)
    (h2 : jacobian_multiply (x, y, 1) s = .ok XY)
    (h3 : jacobian_multiply (jacobian_add Gz XY) (inv r N) = .ok Q) :
    recoverCore h x y r s = .ok (from_jacobian Q) := by
  unfold recoverCore
  dsimp only
  rw [h1, bind_ok, h2, bind_ok, h3, bind_ok]
  rfl

/-- the tail never raises -/
theorem recoverCore_ok (h : Bytes) (x y r s : ℤ) : ∃ Q, recoverCore h x y r s = .ok Q := by
  obtain ⟨Gz, h1⟩ := jacobian_multiply_ok (Gx, Gy, 1) ((N - bytesToInt h) % N)
  obtain ⟨XY, h2⟩ := jacobian_multiply_ok (x, y, 1) s
  obtain ⟨Q, h3⟩ := jacobian_multiply_ok (jacobian_add Gz XY) (inv r N)
  exact ⟨_, recoverCore_of_ok h1 h2 h3⟩

/-- the un-normalised `s = inv(k, N) * (z + r * d) % N` of `ecdsa_raw_sign` -/
def signS0 (msghash priv : Bytes) (k r : ℤ) : ℤ :=
  inv k N * (bytesToInt msghash + r * bytesToInt priv) % N

/-- `ecdsa_raw_sign` (nonce explicit) when `multiply(G, k)` returns `(r, y)` -/
theorem rawSignWithK_of_ok {h priv : Bytes} {k r y : ℤ} (hm : multiply G k = .ok (r, y)) :
    rawSignWithK h priv k =
      .ok (27 + pyXor (y % 2) (if signS0 h priv k r * 2 < N then 0 else 1), r,
           if signS0 h priv k r * 2 < N then signS0 h priv k r else N - signS0 h priv k r) := by
  unfold rawSignWithK
  dsimp only
  rw [hm, bind_ok]
  rfl

/-! ### `pow(b, e, P)` in the field, square roots by the `(P+1)/4`-th power -/

theorem P_toNat : P.toNat = secp256k1_P := by decide
theorem secpP_mod4 : secp256k1_P % 4 = 3 := by decide
theorem sqrtExp_toNat : ((P + 1) / 4).toNat = (secp256k1_P + 1) / 4 := by decide

/-- `pow(b, e, P)` read in `ZMod P` -/
theorem powModI_cast (b e : ℤ) : ((powModI b e P : ℤ) : Fp) = (b : Fp) ^ e.toNat := by
  unfold powModI
  rw [P_toNat, Int.cast_natCast, CodecSem.powMod_cast, ← Int.cast_natCast (R := Fp),
    Int.toNat_of_nonneg (mod_nonneg b), cast_mod_P]

/-- `pow(b, e, P)` is a reduced residue -/
theorem powModI_range (b e : ℤ) : 0 ≤ powModI b e P ∧ powModI b e P < P := by
  unfold powModI
  rw [P_toNat]
  have h := CodecSem.powMod_lt (b % P).toNat e.toNat secp256k1_P (by decide)
  refine ⟨Int.natCast_nonneg _, ?_⟩
  rw [P_eq]; exact_mod_cast h

theorem fermat {t : Fp} (ht : t ≠ 0) : t ^ (secp256k1_P - 1) = 1 := ZMod.pow_card_sub_one_eq_one ht

set_option exponentiation.threshold 400 in
/-- **square root by the `(P+1)/4` power** (`P ≡ 3 mod 4`): for a square `a`, `a^((P+1)/4)` is a root -/
theorem sqrt_pow_of_isSquare {a : Fp} (h : IsSquare a) : (a ^ ((secp256k1_P + 1) / 4)) ^ 2 = a := by
  obtain ⟨t, rfl⟩ := h
  by_cases ht : t = 0
  · subst ht
    have : (secp256k1_P + 1) / 4 ≠ 0 := by decide
    simp [this]
  · have he : 2 * ((secp256k1_P + 1) / 4) * 2 = (secp256k1_P - 1) + 2 := by decide
    calc ((t * t) ^ ((secp256k1_P + 1) / 4)) ^ 2 = t ^ (2 * ((secp256k1_P + 1) / 4) * 2) := by
          rw [← pow_two, ← pow_mul, ← pow_mul, mul_assoc]
      _ = t ^ (secp256k1_P - 1) * t ^ 2 := by rw [he, pow_add]
      _ = t * t := by rw [fermat ht, one_mul, pow_two]

/-- the acceptance test "`beta² ≡ a`" succeeds exactly on squares (Euler's criterion for `P ≡ 3 mod 4`) -/
theorem sqrt_check_iff (a : Fp) : (a ^ ((secp256k1_P + 1) / 4)) ^ 2 = a ↔ IsSquare a := by
  constructor
  · intro h; exact ⟨a ^ ((secp256k1_P + 1) / 4), by rw [← pow_two, h]⟩
  · exact sqrt_pow_of_isSquare

/-! ### the lift of `r` to a curve point in `ecdsa_raw_recover` -/

/-- `xcubedaxb ≡ r³ + 7` (the generated `A = 0`, `B = 7`) -/
theorem xcub_cast (r : ℤ) : ((xcub r : ℤ) : Fp) = (r : Fp) ^ 3 + ((B : ℤ) : Fp) := by
  unfold xcub
  rw [cast_mod_P]; push_cast; rw [A_cast]; ring

theorem beta_cast (r : ℤ) : ((beta r : ℤ) : Fp) = ((r : Fp) ^ 3 + ((B : ℤ) : Fp)) ^ ((secp256k1_P + 1) / 4) := by
  unfold beta
  rw [powModI_cast, xcub_cast, sqrtExp_toNat]

theorem beta_range (r : ℤ) : 0 ≤ beta r ∧ beta r < P := powModI_range _ _

/-- `beta` is never `0`: `r³ + 7 ≢ 0` because `−7` is not a cube mod `P` -/
theorem beta_ne_zero (r : ℤ) : beta r ≠ 0 := by
  intro h
  have hc := beta_cast r
  rw [h, Int.cast_zero] at hc
  exact no_root (r : Fp) (pow_eq_zero_iff (by decide) |>.mp hc.symm)

theorem beta_pos (r : ℤ) : 0 < beta r := lt_of_le_of_ne (beta_range r).1 (Ne.symm (beta_ne_zero r))

theorem liftY_eq (v r : ℤ) : liftY v r = beta r ∨ liftY v r = P - beta r := by
  unfold liftY; split
  · exact Or.inl rfl
  · exact Or.inr rfl

/-- the lifted `y` is a reduced NON-ZERO residue: `0 < y < P` -/
theorem liftY_range (v r : ℤ) : 0 < liftY v r ∧ liftY v r < P := by
  have h1 := beta_pos r
  have h2 := (beta_range r).2
  rcases liftY_eq v r with h | h <;> rw [h] <;> constructor <;> omega

theorem liftY_sq_cast (v r : ℤ) : ((liftY v r : ℤ) : Fp) ^ 2 = ((beta r : ℤ) : Fp) ^ 2 := by
  rcases liftY_eq v r with h | h <;> rw [h]
  push_cast; rw [cast_P]; ring

theorem P_odd : P % 2 = 1 := by decide

theorem pyXor_bits (a b : ℤ) (ha : a = 0 ∨ a = 1) (hb : b = 0 ∨ b = 1) :
    pyXor a b = if a = b then 0 else 1 := by
  rcases ha with rfl | rfl <;> rcases hb with rfl | rfl <;> decide

/-- parity of the lifted `y`: even for `v = 27`, odd for `v = 28` (also in the would-be corner `beta = 0`,
where the code takes `y = 0` resp. `y = P`) -/
theorem liftY_parity (v r : ℤ) (hv : v = 27 ∨ v = 28) : liftY v r % 2 = (v - 27) % 2 := by
  have hb : beta r % 2 = 0 ∨ beta r % 2 = 1 := by omega
  have hP := P_odd
  unfold liftY
  rcases hv with rfl | rfl
  · have h27 : (27 : ℤ) % 2 = 1 := by decide
    rw [h27, pyXor_bits 1 _ (Or.inr rfl) hb]
    rcases hb with hb | hb <;> rw [hb] <;> simp <;> omega
  · have h28 : (28 : ℤ) % 2 = 0 := by decide
    rw [h28, pyXor_bits 0 _ (Or.inl rfl) hb]
    rcases hb with hb | hb <;> rw [hb] <;> simp <;> omega

/-- the first disjunct of the acceptance test, in the field: `y² ≠ r³ + 7` -/
theorem check_iff_field (v r : ℤ) :
    (xcub r - liftY v r * liftY v r) % P ≠ 0 ↔ ((liftY v r : ℤ) : Fp) ^ 2 ≠ (r : Fp) ^ 3 + ((B : ℤ) : Fp) := by
  rw [Ne, ← cast_eq_zero_iff]
  push_cast
  rw [xcub_cast, sub_eq_zero, pow_two]
  exact ⟨fun h e => h e.symm, fun h e => h e.symm⟩

/-- **the residuosity test.** The code's test `(xcubedaxb - y*y) % P != 0` fires exactly when `r³ + 7` is a
quadratic NON-residue mod `P` (there is no `t` with `t² = r³ + 7` in `ZMod P`); whichever `v` is asked for. -/
theorem check_iff_not_isSquare (v r : ℤ) :
    (xcub r - liftY v r * liftY v r) % P ≠ 0 ↔ ¬ IsSquare ((r : Fp) ^ 3 + ((B : ℤ) : Fp)) := by
  rw [check_iff_field, liftY_sq_cast, beta_cast, ← sqrt_check_iff]

/-- two reduced non-zero residues with the same square and the same parity are equal (`P` is odd, so `y` and
`P − y` have different parities) -/
theorem root_unique {y y' : ℤ} (hy : 0 < y ∧ y < P) (hy' : 0 < y' ∧ y' < P)
    (hsq : (y : Fp) ^ 2 = (y' : Fp) ^ 2) (hpar : y % 2 = y' % 2) : y = y' := by
  have hmul : ((y : Fp) - (y' : Fp)) * ((y : Fp) + (y' : Fp)) = 0 := by linear_combination hsq
  rcases mul_eq_zero.mp hmul with h | h
  · have := (cast_eq_iff y y').mp (sub_eq_zero.mp h)
    rwa [Int.emod_eq_of_lt hy.1.le hy.2, Int.emod_eq_of_lt hy'.1.le hy'.2] at this
  · exfalso
    have h0 : (y + y') % P = 0 := by
      rw [← cast_eq_zero_iff]; push_cast; exact h
    obtain ⟨hy0, hyP⟩ := hy
    obtain ⟨hy0', hyP'⟩ := hy'
    have hPodd := P_odd
    by_cases hlt : y + y' < P
    · rw [Int.emod_eq_of_lt (by omega) hlt] at h0; omega
    · have e : y + y' = (y + y' - P) + P := by ring
      rw [e, Int.add_emod_right, Int.emod_eq_of_lt (by omega) (by omega)] at h0
      omega

/-- the lifted `y` is THE square root of `r³ + 7` in `(0, P)` with the parity asked for by `v` -/
theorem liftY_unique {v r y' : ℤ} (hv : v = 27 ∨ v = 28) (hy' : 0 < y' ∧ y' < P)
    (hsq : ((y' : ℤ) : Fp) ^ 2 = (r : Fp) ^ 3 + ((B : ℤ) : Fp)) (hpar : y' % 2 = (v - 27) % 2) :
    y' = liftY v r := by
  have hsq' : IsSquare ((r : Fp) ^ 3 + ((B : ℤ) : Fp)) := ⟨(y' : Fp), by rw [← hsq, pow_two]⟩
  have hl : ((liftY v r : ℤ) : Fp) ^ 2 = (r : Fp) ^ 3 + ((B : ℤ) : Fp) := by
    by_contra hne
    exact ((check_iff_not_isSquare v r).mp ((check_iff_field v r).mpr hne)) hsq'
  exact root_unique hy' (liftY_range v r) (hsq.trans hl.symm) (hpar.trans (liftY_parity v r hv).symm)

end PyEcc.EcdsaSem
