import PyEcc.Sem.Pratt
namespace PyEcc.Pratt
set_option maxRecDepth 100000

theorem prime_5 : Nat.Prime 5 := by norm_num
theorem prime_7 : Nat.Prime 7 := by norm_num
theorem prime_11 : Nat.Prime 11 := by norm_num
theorem prime_13 : Nat.Prime 13 := by norm_num
theorem prime_17 : Nat.Prime 17 := by norm_num
theorem prime_19 : Nat.Prime 19 := by norm_num
theorem prime_23 : Nat.Prime 23 := by norm_num
theorem prime_29 : Nat.Prime 29 := by norm_num
theorem prime_31 : Nat.Prime 31 := by norm_num
theorem prime_37 : Nat.Prime 37 := by norm_num
theorem prime_41 : Nat.Prime 41 := by norm_num
theorem prime_43 : Nat.Prime 43 := by norm_num
theorem prime_47 : Nat.Prime 47 := by norm_num
theorem prime_53 : Nat.Prime 53 := by norm_num
theorem prime_59 : Nat.Prime 59 := by norm_num
theorem prime_67 : Nat.Prime 67 := by norm_num
theorem prime_73 : Nat.Prime 73 := by norm_num
theorem prime_79 : Nat.Prime 79 := by norm_num
theorem prime_83 : Nat.Prime 83 := by norm_num
theorem prime_89 : Nat.Prime 89 := by norm_num
theorem prime_97 : Nat.Prime 97 := by norm_num
theorem prime_101 : Nat.Prime 101 := by norm_num
theorem prime_103 : Nat.Prime 103 := by norm_num
theorem prime_107 : Nat.Prime 107 := by norm_num
theorem prime_109 : Nat.Prime 109 := by norm_num
theorem prime_113 : Nat.Prime 113 := by norm_num
theorem prime_127 : Nat.Prime 127 := by norm_num
theorem prime_131 : Nat.Prime 131 := by norm_num
theorem prime_137 : Nat.Prime 137 := by norm_num
theorem prime_149 : Nat.Prime 149 := by norm_num
theorem prime_151 : Nat.Prime 151 := by norm_num
theorem prime_181 : Nat.Prime 181 := by norm_num
theorem prime_191 : Nat.Prime 191 := by norm_num
theorem prime_223 : Nat.Prime 223 := by norm_num
theorem prime_229 : Nat.Prime 229 := by norm_num
theorem prime_233 : Nat.Prime 233 := by norm_num
theorem prime_239 : Nat.Prime 239 := by norm_num
theorem prime_271 : Nat.Prime 271 := by norm_num
theorem prime_281 : Nat.Prime 281 := by norm_num
theorem prime_293 : Nat.Prime 293 := by norm_num
theorem prime_311 : Nat.Prime 311 := by norm_num
theorem prime_359 : Nat.Prime 359 := by norm_num
theorem prime_379 : Nat.Prime 379 := by norm_num
theorem prime_409 : Nat.Prime 409 := by norm_num
theorem prime_419 : Nat.Prime 419 := by norm_num
theorem prime_443 : Nat.Prime 443 := by norm_num
theorem prime_449 : Nat.Prime 449 := by norm_num
theorem prime_461 : Nat.Prime 461 := by norm_num
theorem prime_467 : Nat.Prime 467 := by norm_num
theorem prime_523 : Nat.Prime 523 := by norm_num
theorem prime_631 : Nat.Prime 631 := by norm_num
theorem prime_661 : Nat.Prime 661 := by norm_num
theorem prime_797 : Nat.Prime 797 := by norm_num
theorem prime_823 : Nat.Prime 823 := by norm_num
theorem prime_853 : Nat.Prime 853 := by norm_num
theorem prime_887 : Nat.Prime 887 := by norm_num
theorem prime_911 : Nat.Prime 911 := by norm_num
theorem prime_941 : Nat.Prime 941 := by norm_num
theorem prime_947 : Nat.Prime 947 := by norm_num
theorem prime_971 : Nat.Prime 971 := by norm_num
theorem prime_983 : Nat.Prime 983 := by norm_num
theorem prime_1087 : Nat.Prime 1087 :=
  pratt_step 1087 3 [(2,1), (3,1), (181,1)] (by norm_num) (by decide +kernel) (by decide +kernel)
    (by
      intro qe hqe
      simp only [List.mem_cons, List.mem_nil_iff, or_false] at hqe
      rcases hqe with rfl | rfl | rfl
      · exact ⟨Nat.prime_two, by decide +kernel⟩
      · exact ⟨Nat.prime_three, by decide +kernel⟩
      · exact ⟨prime_181, by decide +kernel⟩)
theorem prime_1151 : Nat.Prime 1151 :=
  pratt_step 1151 17 [(2,1), (5,2), (23,1)] (by norm_num) (by decide +kernel) (by decide +kernel)
    (by
      intro qe hqe
      simp only [List.mem_cons, List.mem_nil_iff, or_false] at hqe
      rcases hqe with rfl | rfl | rfl
      · exact ⟨Nat.prime_two, by decide +kernel⟩
      · exact ⟨prime_5, by decide +kernel⟩
      · exact ⟨prime_23, by decide +kernel⟩)
theorem prime_1231 : Nat.Prime 1231 :=
  pratt_step 1231 3 [(2,1), (3,1), (5,1), (41,1)] (by norm_num) (by decide +kernel) (by decide +kernel)
    (by
      intro qe hqe
      simp only [List.mem_cons, List.mem_nil_iff, or_false] at hqe
      rcases hqe with rfl | rfl | rfl | rfl
      · exact ⟨Nat.prime_two, by decide +kernel⟩
      · exact ⟨Nat.prime_three, by decide +kernel⟩
      · exact ⟨prime_5, by decide +kernel⟩
      · exact ⟨prime_41, by decide +kernel⟩)
theorem prime_1327 : Nat.Prime 1327 :=
  pratt_step 1327 3 [(2,1), (3,1), (13,1), (17,1)] (by norm_num) (by decide +kernel) (by decide +kernel)
    (by
      intro qe hqe
      simp only [List.mem_cons, List.mem_nil_iff, or_false] at hqe
      rcases hqe with rfl | rfl | rfl | rfl
      · exact ⟨Nat.prime_two, by decide +kernel⟩
      · exact ⟨Nat.prime_three, by decide +kernel⟩
      · exact ⟨prime_13, by decide +kernel⟩
      · exact ⟨prime_17, by decide +kernel⟩)
theorem prime_1373 : Nat.Prime 1373 :=
  pratt_step 1373 2 [(2,2), (7,3)] (by norm_num) (by decide +kernel) (by decide +kernel)
    (by
      intro qe hqe
      simp only [List.mem_cons, List.mem_nil_iff, or_false] at hqe
      rcases hqe with rfl | rfl
      · exact ⟨Nat.prime_two, by decide +kernel⟩
      · exact ⟨prime_7, by decide +kernel⟩)
theorem prime_1409 : Nat.Prime 1409 :=
  pratt_step 1409 3 [(2,7), (11,1)] (by norm_num) (by decide +kernel) (by decide +kernel)
    (by
      intro qe hqe
      simp only [List.mem_cons, List.mem_nil_iff, or_false] at hqe
      rcases hqe with rfl | rfl
      · exact ⟨Nat.prime_two, by decide +kernel⟩
      · exact ⟨prime_11, by decide +kernel⟩)
theorem prime_1453 : Nat.Prime 1453 :=
  pratt_step 1453 2 [(2,2), (3,1), (11,2)] (by norm_num) (by decide +kernel) (by decide +kernel)
    (by
      intro qe hqe
      simp only [List.mem_cons, List.mem_nil_iff, or_false] at hqe
      rcases hqe with rfl | rfl | rfl
      · exact ⟨Nat.prime_two, by decide +kernel⟩
      · exact ⟨Nat.prime_three, by decide +kernel⟩
      · exact ⟨prime_11, by decide +kernel⟩)
theorem prime_1607 : Nat.Prime 1607 :=
  pratt_step 1607 5 [(2,1), (11,1), (73,1)] (by norm_num) (by decide +kernel) (by decide +kernel)
    (by
      intro qe hqe
      simp only [List.mem_cons, List.mem_nil_iff, or_false] at hqe
      rcases hqe with rfl | rfl | rfl
      · exact ⟨Nat.prime_two, by decide +kernel⟩
      · exact ⟨prime_11, by decide +kernel⟩
      · exact ⟨prime_73, by decide +kernel⟩)
theorem prime_1627 : Nat.Prime 1627 :=
  pratt_step 1627 3 [(2,1), (3,1), (271,1)] (by norm_num) (by decide +kernel) (by decide +kernel)
    (by
      intro qe hqe
      simp only [List.mem_cons, List.mem_nil_iff, or_false] at hqe
      rcases hqe with rfl | rfl | rfl
      · exact ⟨Nat.prime_two, by decide +kernel⟩
      · exact ⟨Nat.prime_three, by decide +kernel⟩
      · exact ⟨prime_271, by decide +kernel⟩)
theorem prime_1637 : Nat.Prime 1637 :=
  pratt_step 1637 2 [(2,2), (409,1)] (by norm_num) (by decide +kernel) (by decide +kernel)
    (by
      intro qe hqe
      simp only [List.mem_cons, List.mem_nil_iff, or_false] at hqe
      rcases hqe with rfl | rfl
      · exact ⟨Nat.prime_two, by decide +kernel⟩
      · exact ⟨prime_409, by decide +kernel⟩)
theorem prime_1871 : Nat.Prime 1871 :=
  pratt_step 1871 14 [(2,1), (5,1), (11,1), (17,1)] (by norm_num) (by decide +kernel) (by decide +kernel)
    (by
      intro qe hqe
      simp only [List.mem_cons, List.mem_nil_iff, or_false] at hqe
      rcases hqe with rfl | rfl | rfl | rfl
      · exact ⟨Nat.prime_two, by decide +kernel⟩
      · exact ⟨prime_5, by decide +kernel⟩
      · exact ⟨prime_11, by decide +kernel⟩
      · exact ⟨prime_17, by decide +kernel⟩)
theorem prime_2011 : Nat.Prime 2011 :=
  pratt_step 2011 3 [(2,1), (3,1), (5,1), (67,1)] (by norm_num) (by decide +kernel) (by decide +kernel)
    (by
      intro qe hqe
      simp only [List.mem_cons, List.mem_nil_iff, or_false] at hqe
      rcases hqe with rfl | rfl | rfl | rfl
      · exact ⟨Nat.prime_two, by decide +kernel⟩
      · exact ⟨Nat.prime_three, by decide +kernel⟩
      · exact ⟨prime_5, by decide +kernel⟩
      · exact ⟨prime_67, by decide +kernel⟩)
theorem prime_2221 : Nat.Prime 2221 :=
  pratt_step 2221 2 [(2,2), (3,1), (5,1), (37,1)] (by norm_num) (by decide +kernel) (by decide +kernel)
    (by
      intro qe hqe
      simp only [List.mem_cons, List.mem_nil_iff, or_false] at hqe
      rcases hqe with rfl | rfl | rfl | rfl
      · exact ⟨Nat.prime_two, by decide +kernel⟩
      · exact ⟨Nat.prime_three, by decide +kernel⟩
      · exact ⟨prime_5, by decide +kernel⟩
      · exact ⟨prime_37, by decide +kernel⟩)
theorem prime_2621 : Nat.Prime 2621 :=
  pratt_step 2621 2 [(2,2), (5,1), (131,1)] (by norm_num) (by decide +kernel) (by decide +kernel)
    (by
      intro qe hqe
      simp only [List.mem_cons, List.mem_nil_iff, or_false] at hqe
      rcases hqe with rfl | rfl | rfl
      · exact ⟨Nat.prime_two, by decide +kernel⟩
      · exact ⟨prime_5, by decide +kernel⟩
      · exact ⟨prime_131, by decide +kernel⟩)
theorem prime_2657 : Nat.Prime 2657 :=
  pratt_step 2657 3 [(2,5), (83,1)] (by norm_num) (by decide +kernel) (by decide +kernel)
    (by
      intro qe hqe
      simp only [List.mem_cons, List.mem_nil_iff, or_false] at hqe
      rcases hqe with rfl | rfl
      · exact ⟨Nat.prime_two, by decide +kernel⟩
      · exact ⟨prime_83, by decide +kernel⟩)
theorem prime_2731 : Nat.Prime 2731 :=
  pratt_step 2731 3 [(2,1), (3,1), (5,1), (7,1), (13,1)] (by norm_num) (by decide +kernel) (by decide +kernel)
    (by
      intro qe hqe
      simp only [List.mem_cons, List.mem_nil_iff, or_false] at hqe
      rcases hqe with rfl | rfl | rfl | rfl | rfl
      · exact ⟨Nat.prime_two, by decide +kernel⟩
      · exact ⟨Nat.prime_three, by decide +kernel⟩
      · exact ⟨prime_5, by decide +kernel⟩
      · exact ⟨prime_7, by decide +kernel⟩
      · exact ⟨prime_13, by decide +kernel⟩)
theorem prime_2741 : Nat.Prime 2741 :=
  pratt_step 2741 2 [(2,2), (5,1), (137,1)] (by norm_num) (by decide +kernel) (by decide +kernel)
    (by
      intro qe hqe
      simp only [List.mem_cons, List.mem_nil_iff, or_false] at hqe
      rcases hqe with rfl | rfl | rfl
      · exact ⟨Nat.prime_two, by decide +kernel⟩
      · exact ⟨prime_5, by decide +kernel⟩
      · exact ⟨prime_137, by decide +kernel⟩)
theorem prime_2861 : Nat.Prime 2861 :=
  pratt_step 2861 2 [(2,2), (5,1), (11,1), (13,1)] (by norm_num) (by decide +kernel) (by decide +kernel)
    (by
      intro qe hqe
      simp only [List.mem_cons, List.mem_nil_iff, or_false] at hqe
      rcases hqe with rfl | rfl | rfl | rfl
      · exact ⟨Nat.prime_two, by decide +kernel⟩
      · exact ⟨prime_5, by decide +kernel⟩
      · exact ⟨prime_11, by decide +kernel⟩
      · exact ⟨prime_13, by decide +kernel⟩)
theorem prime_3373 : Nat.Prime 3373 :=
  pratt_step 3373 5 [(2,2), (3,1), (281,1)] (by norm_num) (by decide +kernel) (by decide +kernel)
    (by
      intro qe hqe
      simp only [List.mem_cons, List.mem_nil_iff, or_false] at hqe
      rcases hqe with rfl | rfl | rfl
      · exact ⟨Nat.prime_two, by decide +kernel⟩
      · exact ⟨Nat.prime_three, by decide +kernel⟩
      · exact ⟨prime_281, by decide +kernel⟩)
theorem prime_3557 : Nat.Prime 3557 :=
  pratt_step 3557 2 [(2,2), (7,1), (127,1)] (by norm_num) (by decide +kernel) (by decide +kernel)
    (by
      intro qe hqe
      simp only [List.mem_cons, List.mem_nil_iff, or_false] at hqe
      rcases hqe with rfl | rfl | rfl
      · exact ⟨Nat.prime_two, by decide +kernel⟩
      · exact ⟨prime_7, by decide +kernel⟩
      · exact ⟨prime_127, by decide +kernel⟩)
theorem prime_3691 : Nat.Prime 3691 :=
  pratt_step 3691 2 [(2,1), (3,2), (5,1), (41,1)] (by norm_num) (by decide +kernel) (by decide +kernel)
    (by
      intro qe hqe
      simp only [List.mem_cons, List.mem_nil_iff, or_false] at hqe
      rcases hqe with rfl | rfl | rfl | rfl
      · exact ⟨Nat.prime_two, by decide +kernel⟩
      · exact ⟨Nat.prime_three, by decide +kernel⟩
      · exact ⟨prime_5, by decide +kernel⟩
      · exact ⟨prime_41, by decide +kernel⟩)
theorem prime_4051 : Nat.Prime 4051 :=
  pratt_step 4051 10 [(2,1), (3,4), (5,2)] (by norm_num) (by decide +kernel) (by decide +kernel)
    (by
      intro qe hqe
      simp only [List.mem_cons, List.mem_nil_iff, or_false] at hqe
      rcases hqe with rfl | rfl | rfl
      · exact ⟨Nat.prime_two, by decide +kernel⟩
      · exact ⟨Nat.prime_three, by decide +kernel⟩
      · exact ⟨prime_5, by decide +kernel⟩)
theorem prime_4349 : Nat.Prime 4349 :=
  pratt_step 4349 2 [(2,2), (1087,1)] (by norm_num) (by decide +kernel) (by decide +kernel)
    (by
      intro qe hqe
      simp only [List.mem_cons, List.mem_nil_iff, or_false] at hqe
      rcases hqe with rfl | rfl
      · exact ⟨Nat.prime_two, by decide +kernel⟩
      · exact ⟨prime_1087, by decide +kernel⟩)
theorem prime_4423 : Nat.Prime 4423 :=
  pratt_step 4423 3 [(2,1), (3,1), (11,1), (67,1)] (by norm_num) (by decide +kernel) (by decide +kernel)
    (by
      intro qe hqe
      simp only [List.mem_cons, List.mem_nil_iff, or_false] at hqe
      rcases hqe with rfl | rfl | rfl | rfl
      · exact ⟨Nat.prime_two, by decide +kernel⟩
      · exact ⟨Nat.prime_three, by decide +kernel⟩
      · exact ⟨prime_11, by decide +kernel⟩
      · exact ⟨prime_67, by decide +kernel⟩)
theorem prime_4999 : Nat.Prime 4999 :=
  pratt_step 4999 3 [(2,1), (3,1), (7,2), (17,1)] (by norm_num) (by decide +kernel) (by decide +kernel)
    (by
      intro qe hqe
      simp only [List.mem_cons, List.mem_nil_iff, or_false] at hqe
      rcases hqe with rfl | rfl | rfl | rfl
      · exact ⟨Nat.prime_two, by decide +kernel⟩
      · exact ⟨Nat.prime_three, by decide +kernel⟩
      · exact ⟨prime_7, by decide +kernel⟩
      · exact ⟨prime_17, by decide +kernel⟩)
theorem prime_5323 : Nat.Prime 5323 :=
  pratt_step 5323 5 [(2,1), (3,1), (887,1)] (by norm_num) (by decide +kernel) (by decide +kernel)
    (by
      intro qe hqe
      simp only [List.mem_cons, List.mem_nil_iff, or_false] at hqe
      rcases hqe with rfl | rfl | rfl
      · exact ⟨Nat.prime_two, by decide +kernel⟩
      · exact ⟨Nat.prime_three, by decide +kernel⟩
      · exact ⟨prime_887, by decide +kernel⟩)
theorem prime_5501 : Nat.Prime 5501 :=
  pratt_step 5501 2 [(2,2), (5,3), (11,1)] (by norm_num) (by decide +kernel) (by decide +kernel)
    (by
      intro qe hqe
      simp only [List.mem_cons, List.mem_nil_iff, or_false] at hqe
      rcases hqe with rfl | rfl | rfl
      · exact ⟨Nat.prime_two, by decide +kernel⟩
      · exact ⟨prime_5, by decide +kernel⟩
      · exact ⟨prime_11, by decide +kernel⟩)
theorem prime_7577 : Nat.Prime 7577 :=
  pratt_step 7577 3 [(2,3), (947,1)] (by norm_num) (by decide +kernel) (by decide +kernel)
    (by
      intro qe hqe
      simp only [List.mem_cons, List.mem_nil_iff, or_false] at hqe
      rcases hqe with rfl | rfl
      · exact ⟨Nat.prime_two, by decide +kernel⟩
      · exact ⟨prime_947, by decide +kernel⟩)
theorem prime_7723 : Nat.Prime 7723 :=
  pratt_step 7723 3 [(2,1), (3,3), (11,1), (13,1)] (by norm_num) (by decide +kernel) (by decide +kernel)
    (by
      intro qe hqe
      simp only [List.mem_cons, List.mem_nil_iff, or_false] at hqe
      rcases hqe with rfl | rfl | rfl | rfl
      · exact ⟨Nat.prime_two, by decide +kernel⟩
      · exact ⟨Nat.prime_three, by decide +kernel⟩
      · exact ⟨prime_11, by decide +kernel⟩
      · exact ⟨prime_13, by decide +kernel⟩)
theorem prime_8101 : Nat.Prime 8101 :=
  pratt_step 8101 6 [(2,2), (3,4), (5,2)] (by norm_num) (by decide +kernel) (by decide +kernel)
    (by
      intro qe hqe
      simp only [List.mem_cons, List.mem_nil_iff, or_false] at hqe
      rcases hqe with rfl | rfl | rfl
      · exact ⟨Nat.prime_two, by decide +kernel⟩
      · exact ⟨Nat.prime_three, by decide +kernel⟩
      · exact ⟨prime_5, by decide +kernel⟩)
theorem prime_9349 : Nat.Prime 9349 :=
  pratt_step 9349 2 [(2,2), (3,1), (19,1), (41,1)] (by norm_num) (by decide +kernel) (by decide +kernel)
    (by
      intro qe hqe
      simp only [List.mem_cons, List.mem_nil_iff, or_false] at hqe
      rcases hqe with rfl | rfl | rfl | rfl
      · exact ⟨Nat.prime_two, by decide +kernel⟩
      · exact ⟨Nat.prime_three, by decide +kernel⟩
      · exact ⟨prime_19, by decide +kernel⟩
      · exact ⟨prime_41, by decide +kernel⟩)
theorem prime_10177 : Nat.Prime 10177 :=
  pratt_step 10177 7 [(2,6), (3,1), (53,1)] (by norm_num) (by decide +kernel) (by decide +kernel)
    (by
      intro qe hqe
      simp only [List.mem_cons, List.mem_nil_iff, or_false] at hqe
      rcases hqe with rfl | rfl | rfl
      · exact ⟨Nat.prime_two, by decide +kernel⟩
      · exact ⟨Nat.prime_three, by decide +kernel⟩
      · exact ⟨prime_53, by decide +kernel⟩)
theorem prime_11003 : Nat.Prime 11003 :=
  pratt_step 11003 2 [(2,1), (5501,1)] (by norm_num) (by decide +kernel) (by decide +kernel)
    (by
      intro qe hqe
      simp only [List.mem_cons, List.mem_nil_iff, or_false] at hqe
      rcases hqe with rfl | rfl
      · exact ⟨Nat.prime_two, by decide +kernel⟩
      · exact ⟨prime_5501, by decide +kernel⟩)
theorem prime_13327 : Nat.Prime 13327 :=
  pratt_step 13327 3 [(2,1), (3,1), (2221,1)] (by norm_num) (by decide +kernel) (by decide +kernel)
    (by
      intro qe hqe
      simp only [List.mem_cons, List.mem_nil_iff, or_false] at hqe
      rcases hqe with rfl | rfl | rfl
      · exact ⟨Nat.prime_two, by decide +kernel⟩
      · exact ⟨Nat.prime_three, by decide +kernel⟩
      · exact ⟨prime_2221, by decide +kernel⟩)
theorem prime_13441 : Nat.Prime 13441 :=
  pratt_step 13441 11 [(2,7), (3,1), (5,1), (7,1)] (by norm_num) (by decide +kernel) (by decide +kernel)
    (by
      intro qe hqe
      simp only [List.mem_cons, List.mem_nil_iff, or_false] at hqe
      rcases hqe with rfl | rfl | rfl | rfl
      · exact ⟨Nat.prime_two, by decide +kernel⟩
      · exact ⟨Nat.prime_three, by decide +kernel⟩
      · exact ⟨prime_5, by decide +kernel⟩
      · exact ⟨prime_7, by decide +kernel⟩)
theorem prime_16447 : Nat.Prime 16447 :=
  pratt_step 16447 3 [(2,1), (3,1), (2741,1)] (by norm_num) (by decide +kernel) (by decide +kernel)
    (by
      intro qe hqe
      simp only [List.mem_cons, List.mem_nil_iff, or_false] at hqe
      rcases hqe with rfl | rfl | rfl
      · exact ⟨Nat.prime_two, by decide +kernel⟩
      · exact ⟨Nat.prime_three, by decide +kernel⟩
      · exact ⟨prime_2741, by decide +kernel⟩)
theorem prime_16699 : Nat.Prime 16699 :=
  pratt_step 16699 3 [(2,1), (3,1), (11,2), (23,1)] (by norm_num) (by decide +kernel) (by decide +kernel)
    (by
      intro qe hqe
      simp only [List.mem_cons, List.mem_nil_iff, or_false] at hqe
      rcases hqe with rfl | rfl | rfl | rfl
      · exact ⟨Nat.prime_two, by decide +kernel⟩
      · exact ⟨Nat.prime_three, by decide +kernel⟩
      · exact ⟨prime_11, by decide +kernel⟩
      · exact ⟨prime_23, by decide +kernel⟩)
theorem prime_18329 : Nat.Prime 18329 :=
  pratt_step 18329 3 [(2,3), (29,1), (79,1)] (by norm_num) (by decide +kernel) (by decide +kernel)
    (by
      intro qe hqe
      simp only [List.mem_cons, List.mem_nil_iff, or_false] at hqe
      rcases hqe with rfl | rfl | rfl
      · exact ⟨Nat.prime_two, by decide +kernel⟩
      · exact ⟨prime_29, by decide +kernel⟩
      · exact ⟨prime_79, by decide +kernel⟩)
theorem prime_20113 : Nat.Prime 20113 :=
  pratt_step 20113 10 [(2,4), (3,1), (419,1)] (by norm_num) (by decide +kernel) (by decide +kernel)
    (by
      intro qe hqe
      simp only [List.mem_cons, List.mem_nil_iff, or_false] at hqe
      rcases hqe with rfl | rfl | rfl
      · exact ⟨Nat.prime_two, by decide +kernel⟩
      · exact ⟨Nat.prime_three, by decide +kernel⟩
      · exact ⟨prime_419, by decide +kernel⟩)
theorem prime_20921 : Nat.Prime 20921 :=
  pratt_step 20921 3 [(2,3), (5,1), (523,1)] (by norm_num) (by decide +kernel) (by decide +kernel)
    (by
      intro qe hqe
      simp only [List.mem_cons, List.mem_nil_iff, or_false] at hqe
      rcases hqe with rfl | rfl | rfl
      · exact ⟨Nat.prime_two, by decide +kernel⟩
      · exact ⟨prime_5, by decide +kernel⟩
      · exact ⟨prime_523, by decide +kernel⟩)
theorem prime_20963 : Nat.Prime 20963 :=
  pratt_step 20963 2 [(2,1), (47,1), (223,1)] (by norm_num) (by decide +kernel) (by decide +kernel)
    (by
      intro qe hqe
      simp only [List.mem_cons, List.mem_nil_iff, or_false] at hqe
      rcases hqe with rfl | rfl | rfl
      · exact ⟨Nat.prime_two, by decide +kernel⟩
      · exact ⟨prime_47, by decide +kernel⟩
      · exact ⟨prime_223, by decide +kernel⟩)
theorem prime_24809 : Nat.Prime 24809 :=
  pratt_step 24809 6 [(2,3), (7,1), (443,1)] (by norm_num) (by decide +kernel) (by decide +kernel)
    (by
      intro qe hqe
      simp only [List.mem_cons, List.mem_nil_iff, or_false] at hqe
      rcases hqe with rfl | rfl | rfl
      · exact ⟨Nat.prime_two, by decide +kernel⟩
      · exact ⟨prime_7, by decide +kernel⟩
      · exact ⟨prime_443, by decide +kernel⟩)
theorem prime_28181 : Nat.Prime 28181 :=
  pratt_step 28181 2 [(2,2), (5,1), (1409,1)] (by norm_num) (by decide +kernel) (by decide +kernel)
    (by
      intro qe hqe
      simp only [List.mem_cons, List.mem_nil_iff, or_false] at hqe
      rcases hqe with rfl | rfl | rfl
      · exact ⟨Nat.prime_two, by decide +kernel⟩
      · exact ⟨prime_5, by decide +kernel⟩
      · exact ⟨prime_1409, by decide +kernel⟩)
theorem prime_41201 : Nat.Prime 41201 :=
  pratt_step 41201 3 [(2,4), (5,2), (103,1)] (by norm_num) (by decide +kernel) (by decide +kernel)
    (by
      intro qe hqe
      simp only [List.mem_cons, List.mem_nil_iff, or_false] at hqe
      rcases hqe with rfl | rfl | rfl
      · exact ⟨Nat.prime_two, by decide +kernel⟩
      · exact ⟨prime_5, by decide +kernel⟩
      · exact ⟨prime_103, by decide +kernel⟩)
theorem prime_41927 : Nat.Prime 41927 :=
  pratt_step 41927 5 [(2,1), (20963,1)] (by norm_num) (by decide +kernel) (by decide +kernel)
    (by
      intro qe hqe
      simp only [List.mem_cons, List.mem_nil_iff, or_false] at hqe
      rcases hqe with rfl | rfl
      · exact ⟨Nat.prime_two, by decide +kernel⟩
      · exact ⟨prime_20963, by decide +kernel⟩)
theorem prime_43591 : Nat.Prime 43591 :=
  pratt_step 43591 11 [(2,1), (3,1), (5,1), (1453,1)] (by norm_num) (by decide +kernel) (by decide +kernel)
    (by
      intro qe hqe
      simp only [List.mem_cons, List.mem_nil_iff, or_false] at hqe
      rcases hqe with rfl | rfl | rfl | rfl
      · exact ⟨Nat.prime_two, by decide +kernel⟩
      · exact ⟨Nat.prime_three, by decide +kernel⟩
      · exact ⟨prime_5, by decide +kernel⟩
      · exact ⟨prime_1453, by decide +kernel⟩)
theorem prime_47737 : Nat.Prime 47737 :=
  pratt_step 47737 5 [(2,3), (3,3), (13,1), (17,1)] (by norm_num) (by decide +kernel) (by decide +kernel)
    (by
      intro qe hqe
      simp only [List.mem_cons, List.mem_nil_iff, or_false] at hqe
      rcases hqe with rfl | rfl | rfl | rfl
      · exact ⟨Nat.prime_two, by decide +kernel⟩
      · exact ⟨Nat.prime_three, by decide +kernel⟩
      · exact ⟨prime_13, by decide +kernel⟩
      · exact ⟨prime_17, by decide +kernel⟩)
theorem prime_85831 : Nat.Prime 85831 :=
  pratt_step 85831 3 [(2,1), (3,1), (5,1), (2861,1)] (by norm_num) (by decide +kernel) (by decide +kernel)
    (by
      intro qe hqe
      simp only [List.mem_cons, List.mem_nil_iff, or_false] at hqe
      rcases hqe with rfl | rfl | rfl | rfl
      · exact ⟨Nat.prime_two, by decide +kernel⟩
      · exact ⟨Nat.prime_three, by decide +kernel⟩
      · exact ⟨prime_5, by decide +kernel⟩
      · exact ⟨prime_2861, by decide +kernel⟩)
theorem prime_93001 : Nat.Prime 93001 :=
  pratt_step 93001 14 [(2,3), (3,1), (5,3), (31,1)] (by norm_num) (by decide +kernel) (by decide +kernel)
    (by
      intro qe hqe
      simp only [List.mem_cons, List.mem_nil_iff, or_false] at hqe
      rcases hqe with rfl | rfl | rfl | rfl
      · exact ⟨Nat.prime_two, by decide +kernel⟩
      · exact ⟨Nat.prime_three, by decide +kernel⟩
      · exact ⟨prime_5, by decide +kernel⟩
      · exact ⟨prime_31, by decide +kernel⟩)
theorem prime_96557 : Nat.Prime 96557 :=
  pratt_step 96557 2 [(2,2), (101,1), (239,1)] (by norm_num) (by decide +kernel) (by decide +kernel)
    (by
      intro qe hqe
      simp only [List.mem_cons, List.mem_nil_iff, or_false] at hqe
      rcases hqe with rfl | rfl | rfl
      · exact ⟨Nat.prime_two, by decide +kernel⟩
      · exact ⟨prime_101, by decide +kernel⟩
      · exact ⟨prime_239, by decide +kernel⟩)
theorem prime_110573 : Nat.Prime 110573 :=
  pratt_step 110573 3 [(2,2), (7,1), (11,1), (359,1)] (by norm_num) (by decide +kernel) (by decide +kernel)
    (by
      intro qe hqe
      simp only [List.mem_cons, List.mem_nil_iff, or_false] at hqe
      rcases hqe with rfl | rfl | rfl | rfl
      · exact ⟨Nat.prime_two, by decide +kernel⟩
      · exact ⟨prime_7, by decide +kernel⟩
      · exact ⟨prime_11, by decide +kernel⟩
      · exact ⟨prime_359, by decide +kernel⟩)
theorem prime_120233 : Nat.Prime 120233 :=
  pratt_step 120233 3 [(2,3), (7,1), (19,1), (113,1)] (by norm_num) (by decide +kernel) (by decide +kernel)
    (by
      intro qe hqe
      simp only [List.mem_cons, List.mem_nil_iff, or_false] at hqe
      rcases hqe with rfl | rfl | rfl | rfl
      · exact ⟨Nat.prime_two, by decide +kernel⟩
      · exact ⟨prime_7, by decide +kernel⟩
      · exact ⟨prime_19, by decide +kernel⟩
      · exact ⟨prime_113, by decide +kernel⟩)
theorem prime_125527 : Nat.Prime 125527 :=
  pratt_step 125527 5 [(2,1), (3,1), (20921,1)] (by norm_num) (by decide +kernel) (by decide +kernel)
    (by
      intro qe hqe
      simp only [List.mem_cons, List.mem_nil_iff, or_false] at hqe
      rcases hqe with rfl | rfl | rfl
      · exact ⟨Nat.prime_two, by decide +kernel⟩
      · exact ⟨Nat.prime_three, by decide +kernel⟩
      · exact ⟨prime_20921, by decide +kernel⟩)
theorem prime_237073 : Nat.Prime 237073 :=
  pratt_step 237073 15 [(2,4), (3,1), (11,1), (449,1)] (by norm_num) (by decide +kernel) (by decide +kernel)
    (by
      intro qe hqe
      simp only [List.mem_cons, List.mem_nil_iff, or_false] at hqe
      rcases hqe with rfl | rfl | rfl | rfl
      · exact ⟨Nat.prime_two, by decide +kernel⟩
      · exact ⟨Nat.prime_three, by decide +kernel⟩
      · exact ⟨prime_11, by decide +kernel⟩
      · exact ⟨prime_449, by decide +kernel⟩)
theorem prime_305873 : Nat.Prime 305873 :=
  pratt_step 305873 3 [(2,4), (7,1), (2731,1)] (by norm_num) (by decide +kernel) (by decide +kernel)
    (by
      intro qe hqe
      simp only [List.mem_cons, List.mem_nil_iff, or_false] at hqe
      rcases hqe with rfl | rfl | rfl
      · exact ⟨Nat.prime_two, by decide +kernel⟩
      · exact ⟨prime_7, by decide +kernel⟩
      · exact ⟨prime_2731, by decide +kernel⟩)
theorem prime_327599 : Nat.Prime 327599 :=
  pratt_step 327599 19 [(2,1), (19,1), (37,1), (233,1)] (by norm_num) (by decide +kernel) (by decide +kernel)
    (by
      intro qe hqe
      simp only [List.mem_cons, List.mem_nil_iff, or_false] at hqe
      rcases hqe with rfl | rfl | rfl | rfl
      · exact ⟨Nat.prime_two, by decide +kernel⟩
      · exact ⟨prime_19, by decide +kernel⟩
      · exact ⟨prime_37, by decide +kernel⟩
      · exact ⟨prime_233, by decide +kernel⟩)
theorem prime_421987 : Nat.Prime 421987 :=
  pratt_step 421987 2 [(2,1), (3,1), (53,1), (1327,1)] (by norm_num) (by decide +kernel) (by decide +kernel)
    (by
      intro qe hqe
      simp only [List.mem_cons, List.mem_nil_iff, or_false] at hqe
      rcases hqe with rfl | rfl | rfl | rfl
      · exact ⟨Nat.prime_two, by decide +kernel⟩
      · exact ⟨Nat.prime_three, by decide +kernel⟩
      · exact ⟨prime_53, by decide +kernel⟩
      · exact ⟨prime_1327, by decide +kernel⟩)
theorem prime_582767 : Nat.Prime 582767 :=
  pratt_step 582767 5 [(2,1), (67,1), (4349,1)] (by norm_num) (by decide +kernel) (by decide +kernel)
    (by
      intro qe hqe
      simp only [List.mem_cons, List.mem_nil_iff, or_false] at hqe
      rcases hqe with rfl | rfl | rfl
      · exact ⟨Nat.prime_two, by decide +kernel⟩
      · exact ⟨prime_67, by decide +kernel⟩
      · exact ⟨prime_4349, by decide +kernel⟩)
theorem prime_609743 : Nat.Prime 609743 :=
  pratt_step 609743 5 [(2,1), (7,1), (97,1), (449,1)] (by norm_num) (by decide +kernel) (by decide +kernel)
    (by
      intro qe hqe
      simp only [List.mem_cons, List.mem_nil_iff, or_false] at hqe
      rcases hqe with rfl | rfl | rfl | rfl
      · exact ⟨Nat.prime_two, by decide +kernel⟩
      · exact ⟨prime_7, by decide +kernel⟩
      · exact ⟨prime_97, by decide +kernel⟩
      · exact ⟨prime_449, by decide +kernel⟩)
theorem prime_755057 : Nat.Prime 755057 :=
  pratt_step 755057 3 [(2,4), (41,1), (1151,1)] (by norm_num) (by decide +kernel) (by decide +kernel)
    (by
      intro qe hqe
      simp only [List.mem_cons, List.mem_nil_iff, or_false] at hqe
      rcases hqe with rfl | rfl | rfl
      · exact ⟨Nat.prime_two, by decide +kernel⟩
      · exact ⟨prime_41, by decide +kernel⟩
      · exact ⟨prime_1151, by decide +kernel⟩)
theorem prime_859267 : Nat.Prime 859267 :=
  pratt_step 859267 2 [(2,1), (3,2), (47737,1)] (by norm_num) (by decide +kernel) (by decide +kernel)
    (by
      intro qe hqe
      simp only [List.mem_cons, List.mem_nil_iff, or_false] at hqe
      rcases hqe with rfl | rfl | rfl
      · exact ⟨Nat.prime_two, by decide +kernel⟩
      · exact ⟨Nat.prime_three, by decide +kernel⟩
      · exact ⟨prime_47737, by decide +kernel⟩)
theorem prime_906349 : Nat.Prime 906349 :=
  pratt_step 906349 2 [(2,2), (3,1), (47,1), (1607,1)] (by norm_num) (by decide +kernel) (by decide +kernel)
    (by
      intro qe hqe
      simp only [List.mem_cons, List.mem_nil_iff, or_false] at hqe
      rcases hqe with rfl | rfl | rfl | rfl
      · exact ⟨Nat.prime_two, by decide +kernel⟩
      · exact ⟨Nat.prime_three, by decide +kernel⟩
      · exact ⟨prime_47, by decide +kernel⟩
      · exact ⟨prime_1607, by decide +kernel⟩)
theorem prime_1206781 : Nat.Prime 1206781 :=
  pratt_step 1206781 10 [(2,2), (3,1), (5,1), (20113,1)] (by norm_num) (by decide +kernel) (by decide +kernel)
    (by
      intro qe hqe
      simp only [List.mem_cons, List.mem_nil_iff, or_false] at hqe
      rcases hqe with rfl | rfl | rfl | rfl
      · exact ⟨Nat.prime_two, by decide +kernel⟩
      · exact ⟨Nat.prime_three, by decide +kernel⟩
      · exact ⟨prime_5, by decide +kernel⟩
      · exact ⟨prime_20113, by decide +kernel⟩)
theorem prime_1593227 : Nat.Prime 1593227 :=
  pratt_step 1593227 2 [(2,1), (19,1), (41927,1)] (by norm_num) (by decide +kernel) (by decide +kernel)
    (by
      intro qe hqe
      simp only [List.mem_cons, List.mem_nil_iff, or_false] at hqe
      rcases hqe with rfl | rfl | rfl
      · exact ⟨Nat.prime_two, by decide +kernel⟩
      · exact ⟨prime_19, by decide +kernel⟩
      · exact ⟨prime_41927, by decide +kernel⟩)
theorem prime_1627771 : Nat.Prime 1627771 :=
  pratt_step 1627771 3 [(2,1), (3,1), (5,1), (29,1), (1871,1)] (by norm_num) (by decide +kernel) (by decide +kernel)
    (by
      intro qe hqe
      simp only [List.mem_cons, List.mem_nil_iff, or_false] at hqe
      rcases hqe with rfl | rfl | rfl | rfl | rfl
      · exact ⟨Nat.prime_two, by decide +kernel⟩
      · exact ⟨Nat.prime_three, by decide +kernel⟩
      · exact ⟨prime_5, by decide +kernel⟩
      · exact ⟨prime_29, by decide +kernel⟩
      · exact ⟨prime_1871, by decide +kernel⟩)
theorem prime_1686913 : Nat.Prime 1686913 :=
  pratt_step 1686913 10 [(2,7), (3,1), (23,1), (191,1)] (by norm_num) (by decide +kernel) (by decide +kernel)
    (by
      intro qe hqe
      simp only [List.mem_cons, List.mem_nil_iff, or_false] at hqe
      rcases hqe with rfl | rfl | rfl | rfl
      · exact ⟨Nat.prime_two, by decide +kernel⟩
      · exact ⟨Nat.prime_three, by decide +kernel⟩
      · exact ⟨prime_23, by decide +kernel⟩
      · exact ⟨prime_191, by decide +kernel⟩)
theorem prime_1853641 : Nat.Prime 1853641 :=
  pratt_step 1853641 17 [(2,3), (3,2), (5,1), (19,1), (271,1)] (by norm_num) (by decide +kernel) (by decide +kernel)
    (by
      intro qe hqe
      simp only [List.mem_cons, List.mem_nil_iff, or_false] at hqe
      rcases hqe with rfl | rfl | rfl | rfl | rfl
      · exact ⟨Nat.prime_two, by decide +kernel⟩
      · exact ⟨Nat.prime_three, by decide +kernel⟩
      · exact ⟨prime_5, by decide +kernel⟩
      · exact ⟨prime_19, by decide +kernel⟩
      · exact ⟨prime_271, by decide +kernel⟩)
theorem prime_2508409 : Nat.Prime 2508409 :=
  pratt_step 2508409 11 [(2,3), (3,4), (7,2), (79,1)] (by norm_num) (by decide +kernel) (by decide +kernel)
    (by
      intro qe hqe
      simp only [List.mem_cons, List.mem_nil_iff, or_false] at hqe
      rcases hqe with rfl | rfl | rfl | rfl
      · exact ⟨Nat.prime_two, by decide +kernel⟩
      · exact ⟨Nat.prime_three, by decide +kernel⟩
      · exact ⟨prime_7, by decide +kernel⟩
      · exact ⟨prime_79, by decide +kernel⟩)
theorem prime_2529403 : Nat.Prime 2529403 :=
  pratt_step 2529403 2 [(2,1), (3,1), (23,1), (18329,1)] (by norm_num) (by decide +kernel) (by decide +kernel)
    (by
      intro qe hqe
      simp only [List.mem_cons, List.mem_nil_iff, or_false] at hqe
      rcases hqe with rfl | rfl | rfl | rfl
      · exact ⟨Nat.prime_two, by decide +kernel⟩
      · exact ⟨Nat.prime_three, by decide +kernel⟩
      · exact ⟨prime_23, by decide +kernel⟩
      · exact ⟨prime_18329, by decide +kernel⟩)
theorem prime_2653753 : Nat.Prime 2653753 :=
  pratt_step 2653753 5 [(2,3), (3,1), (110573,1)] (by norm_num) (by decide +kernel) (by decide +kernel)
    (by
      intro qe hqe
      simp only [List.mem_cons, List.mem_nil_iff, or_false] at hqe
      rcases hqe with rfl | rfl | rfl
      · exact ⟨Nat.prime_two, by decide +kernel⟩
      · exact ⟨Nat.prime_three, by decide +kernel⟩
      · exact ⟨prime_110573, by decide +kernel⟩)
theorem prime_4562087 : Nat.Prime 4562087 :=
  pratt_step 4562087 5 [(2,1), (17,1), (109,1), (1231,1)] (by norm_num) (by decide +kernel) (by decide +kernel)
    (by
      intro qe hqe
      simp only [List.mem_cons, List.mem_nil_iff, or_false] at hqe
      rcases hqe with rfl | rfl | rfl | rfl
      · exact ⟨Nat.prime_two, by decide +kernel⟩
      · exact ⟨prime_17, by decide +kernel⟩
      · exact ⟨prime_109, by decide +kernel⟩
      · exact ⟨prime_1231, by decide +kernel⟩)
theorem prime_4681609 : Nat.Prime 4681609 :=
  pratt_step 4681609 23 [(2,3), (3,1), (97,1), (2011,1)] (by norm_num) (by decide +kernel) (by decide +kernel)
    (by
      intro qe hqe
      simp only [List.mem_cons, List.mem_nil_iff, or_false] at hqe
      rcases hqe with rfl | rfl | rfl | rfl
      · exact ⟨Nat.prime_two, by decide +kernel⟩
      · exact ⟨Nat.prime_three, by decide +kernel⟩
      · exact ⟨prime_97, by decide +kernel⟩
      · exact ⟨prime_2011, by decide +kernel⟩)
theorem prime_7240687 : Nat.Prime 7240687 :=
  pratt_step 7240687 3 [(2,1), (3,1), (1206781,1)] (by norm_num) (by decide +kernel) (by decide +kernel)
    (by
      intro qe hqe
      simp only [List.mem_cons, List.mem_nil_iff, or_false] at hqe
      rcases hqe with rfl | rfl | rfl
      · exact ⟨Nat.prime_two, by decide +kernel⟩
      · exact ⟨Nat.prime_three, by decide +kernel⟩
      · exact ⟨prime_1206781, by decide +kernel⟩)
theorem prime_13331831 : Nat.Prime 13331831 :=
  pratt_step 13331831 13 [(2,1), (5,1), (971,1), (1373,1)] (by norm_num) (by decide +kernel) (by decide +kernel)
    (by
      intro qe hqe
      simp only [List.mem_cons, List.mem_nil_iff, or_false] at hqe
      rcases hqe with rfl | rfl | rfl | rfl
      · exact ⟨Nat.prime_two, by decide +kernel⟩
      · exact ⟨prime_5, by decide +kernel⟩
      · exact ⟨prime_971, by decide +kernel⟩
      · exact ⟨prime_1373, by decide +kernel⟩)
theorem prime_44706919 : Nat.Prime 44706919 :=
  pratt_step 44706919 6 [(2,1), (3,1), (797,1), (9349,1)] (by norm_num) (by decide +kernel) (by decide +kernel)
    (by
      intro qe hqe
      simp only [List.mem_cons, List.mem_nil_iff, or_false] at hqe
      rcases hqe with rfl | rfl | rfl | rfl
      · exact ⟨Nat.prime_two, by decide +kernel⟩
      · exact ⟨Nat.prime_three, by decide +kernel⟩
      · exact ⟨prime_797, by decide +kernel⟩
      · exact ⟨prime_9349, by decide +kernel⟩)
theorem prime_51376543 : Nat.Prime 51376543 :=
  pratt_step 51376543 3 [(2,1), (3,1), (7,1), (151,1), (8101,1)] (by norm_num) (by decide +kernel) (by decide +kernel)
    (by
      intro qe hqe
      simp only [List.mem_cons, List.mem_nil_iff, or_false] at hqe
      rcases hqe with rfl | rfl | rfl | rfl | rfl
      · exact ⟨Nat.prime_two, by decide +kernel⟩
      · exact ⟨Nat.prime_three, by decide +kernel⟩
      · exact ⟨prime_7, by decide +kernel⟩
      · exact ⟨prime_151, by decide +kernel⟩
      · exact ⟨prime_8101, by decide +kernel⟩)
theorem prime_52437899 : Nat.Prime 52437899 :=
  pratt_step 52437899 2 [(2,1), (43,1), (609743,1)] (by norm_num) (by decide +kernel) (by decide +kernel)
    (by
      intro qe hqe
      simp only [List.mem_cons, List.mem_nil_iff, or_false] at hqe
      rcases hqe with rfl | rfl | rfl
      · exact ⟨Nat.prime_two, by decide +kernel⟩
      · exact ⟨prime_43, by decide +kernel⟩
      · exact ⟨prime_609743, by decide +kernel⟩)
theorem prime_63690073 : Nat.Prime 63690073 :=
  pratt_step 63690073 7 [(2,3), (3,1), (2653753,1)] (by norm_num) (by decide +kernel) (by decide +kernel)
    (by
      intro qe hqe
      simp only [List.mem_cons, List.mem_nil_iff, or_false] at hqe
      rcases hqe with rfl | rfl | rfl
      · exact ⟨Nat.prime_two, by decide +kernel⟩
      · exact ⟨Nat.prime_three, by decide +kernel⟩
      · exact ⟨prime_2653753, by decide +kernel⟩)
theorem prime_107590001 : Nat.Prime 107590001 :=
  pratt_step 107590001 3 [(2,4), (5,4), (7,1), (29,1), (53,1)] (by norm_num) (by decide +kernel) (by decide +kernel)
    (by
      intro qe hqe
      simp only [List.mem_cons, List.mem_nil_iff, or_false] at hqe
      rcases hqe with rfl | rfl | rfl | rfl | rfl
      · exact ⟨Nat.prime_two, by decide +kernel⟩
      · exact ⟨prime_5, by decide +kernel⟩
      · exact ⟨prime_7, by decide +kernel⟩
      · exact ⟨prime_29, by decide +kernel⟩
      · exact ⟨prime_53, by decide +kernel⟩)
theorem prime_173171039 : Nat.Prime 173171039 :=
  pratt_step 173171039 13 [(2,1), (73,1), (89,1), (13327,1)] (by norm_num) (by decide +kernel) (by decide +kernel)
    (by
      intro qe hqe
      simp only [List.mem_cons, List.mem_nil_iff, or_false] at hqe
      rcases hqe with rfl | rfl | rfl | rfl
      · exact ⟨Nat.prime_two, by decide +kernel⟩
      · exact ⟨prime_73, by decide +kernel⟩
      · exact ⟨prime_89, by decide +kernel⟩
      · exact ⟨prime_13327, by decide +kernel⟩)
theorem prime_254760293 : Nat.Prime 254760293 :=
  pratt_step 254760293 2 [(2,2), (63690073,1)] (by norm_num) (by decide +kernel) (by decide +kernel)
    (by
      intro qe hqe
      simp only [List.mem_cons, List.mem_nil_iff, or_false] at hqe
      rcases hqe with rfl | rfl
      · exact ⟨Nat.prime_two, by decide +kernel⟩
      · exact ⟨prime_63690073, by decide +kernel⟩)
theorem prime_405928799 : Nat.Prime 405928799 :=
  pratt_step 405928799 22 [(2,1), (11,1), (3691,1), (4999,1)] (by norm_num) (by decide +kernel) (by decide +kernel)
    (by
      intro qe hqe
      simp only [List.mem_cons, List.mem_nil_iff, or_false] at hqe
      rcases hqe with rfl | rfl | rfl | rfl
      · exact ⟨Nat.prime_two, by decide +kernel⟩
      · exact ⟨prime_11, by decide +kernel⟩
      · exact ⟨prime_3691, by decide +kernel⟩
      · exact ⟨prime_4999, by decide +kernel⟩)
theorem prime_475709467 : Nat.Prime 475709467 :=
  pratt_step 475709467 2 [(2,1), (3,1), (47,1), (1686913,1)] (by norm_num) (by decide +kernel) (by decide +kernel)
    (by
      intro qe hqe
      simp only [List.mem_cons, List.mem_nil_iff, or_false] at hqe
      rcases hqe with rfl | rfl | rfl | rfl
      · exact ⟨Nat.prime_two, by decide +kernel⟩
      · exact ⟨Nat.prime_three, by decide +kernel⟩
      · exact ⟨prime_47, by decide +kernel⟩
      · exact ⟨prime_1686913, by decide +kernel⟩)
theorem prime_545358713 : Nat.Prime 545358713 :=
  pratt_step 545358713 5 [(2,3), (41,1), (59,1), (28181,1)] (by norm_num) (by decide +kernel) (by decide +kernel)
    (by
      intro qe hqe
      simp only [List.mem_cons, List.mem_nil_iff, or_false] at hqe
      rcases hqe with rfl | rfl | rfl | rfl
      · exact ⟨Nat.prime_two, by decide +kernel⟩
      · exact ⟨prime_41, by decide +kernel⟩
      · exact ⟨prime_59, by decide +kernel⟩
      · exact ⟨prime_28181, by decide +kernel⟩)
theorem prime_639533339 : Nat.Prime 639533339 :=
  pratt_step 639533339 2 [(2,1), (229,1), (853,1), (1637,1)] (by norm_num) (by decide +kernel) (by decide +kernel)
    (by
      intro qe hqe
      simp only [List.mem_cons, List.mem_nil_iff, or_false] at hqe
      rcases hqe with rfl | rfl | rfl | rfl
      · exact ⟨Nat.prime_two, by decide +kernel⟩
      · exact ⟨prime_229, by decide +kernel⟩
      · exact ⟨prime_853, by decide +kernel⟩
      · exact ⟨prime_1637, by decide +kernel⟩)
theorem prime_927093389 : Nat.Prime 927093389 :=
  pratt_step 927093389 3 [(2,2), (13,1), (409,1), (43591,1)] (by norm_num) (by decide +kernel) (by decide +kernel)
    (by
      intro qe hqe
      simp only [List.mem_cons, List.mem_nil_iff, or_false] at hqe
      rcases hqe with rfl | rfl | rfl | rfl
      · exact ⟨Nat.prime_two, by decide +kernel⟩
      · exact ⟨prime_13, by decide +kernel⟩
      · exact ⟨prime_409, by decide +kernel⟩
      · exact ⟨prime_43591, by decide +kernel⟩)
theorem prime_1263766531 : Nat.Prime 1263766531 :=
  pratt_step 1263766531 10 [(2,1), (3,1), (5,1), (13,1), (911,1), (3557,1)] (by norm_num) (by decide +kernel) (by decide +kernel)
    (by
      intro qe hqe
      simp only [List.mem_cons, List.mem_nil_iff, or_false] at hqe
      rcases hqe with rfl | rfl | rfl | rfl | rfl | rfl
      · exact ⟨Nat.prime_two, by decide +kernel⟩
      · exact ⟨Nat.prime_three, by decide +kernel⟩
      · exact ⟨prime_5, by decide +kernel⟩
      · exact ⟨prime_13, by decide +kernel⟩
      · exact ⟨prime_911, by decide +kernel⟩
      · exact ⟨prime_3557, by decide +kernel⟩)
theorem prime_11465965001 : Nat.Prime 11465965001 :=
  pratt_step 11465965001 3 [(2,3), (5,4), (7,1), (327599,1)] (by norm_num) (by decide +kernel) (by decide +kernel)
    (by
      intro qe hqe
      simp only [List.mem_cons, List.mem_nil_iff, or_false] at hqe
      rcases hqe with rfl | rfl | rfl | rfl
      · exact ⟨Nat.prime_two, by decide +kernel⟩
      · exact ⟨prime_5, by decide +kernel⟩
      · exact ⟨prime_7, by decide +kernel⟩
      · exact ⟨prime_327599, by decide +kernel⟩)
theorem prime_12048837557 : Nat.Prime 12048837557 :=
  pratt_step 12048837557 2 [(2,2), (7,2), (661,1), (93001,1)] (by norm_num) (by decide +kernel) (by decide +kernel)
    (by
      intro qe hqe
      simp only [List.mem_cons, List.mem_nil_iff, or_false] at hqe
      rcases hqe with rfl | rfl | rfl | rfl
      · exact ⟨Nat.prime_two, by decide +kernel⟩
      · exact ⟨prime_7, by decide +kernel⟩
      · exact ⟨prime_661, by decide +kernel⟩
      · exact ⟨prime_93001, by decide +kernel⟩)
theorem prime_13090036741 : Nat.Prime 13090036741 :=
  pratt_step 13090036741 10 [(2,2), (3,1), (5,1), (11,1), (47,1), (421987,1)] (by norm_num) (by decide +kernel) (by decide +kernel)
    (by
      intro qe hqe
      simp only [List.mem_cons, List.mem_nil_iff, or_false] at hqe
      rcases hqe with rfl | rfl | rfl | rfl | rfl | rfl
      · exact ⟨Nat.prime_two, by decide +kernel⟩
      · exact ⟨Nat.prime_three, by decide +kernel⟩
      · exact ⟨prime_5, by decide +kernel⟩
      · exact ⟨prime_11, by decide +kernel⟩
      · exact ⟨prime_47, by decide +kernel⟩
      · exact ⟨prime_421987, by decide +kernel⟩)
theorem prime_35385462869 : Nat.Prime 35385462869 :=
  pratt_step 35385462869 2 [(2,2), (7,1), (1263766531,1)] (by norm_num) (by decide +kernel) (by decide +kernel)
    (by
      intro qe hqe
      simp only [List.mem_cons, List.mem_nil_iff, or_false] at hqe
      rcases hqe with rfl | rfl | rfl
      · exact ⟨Nat.prime_two, by decide +kernel⟩
      · exact ⟨prime_7, by decide +kernel⟩
      · exact ⟨prime_1263766531, by decide +kernel⟩)
theorem prime_43670061551 : Nat.Prime 43670061551 :=
  pratt_step 43670061551 7 [(2,1), (5,2), (17,1), (51376543,1)] (by norm_num) (by decide +kernel) (by decide +kernel)
    (by
      intro qe hqe
      simp only [List.mem_cons, List.mem_nil_iff, or_false] at hqe
      rcases hqe with rfl | rfl | rfl | rfl
      · exact ⟨Nat.prime_two, by decide +kernel⟩
      · exact ⟨prime_5, by decide +kernel⟩
      · exact ⟨prime_17, by decide +kernel⟩
      · exact ⟨prime_51376543, by decide +kernel⟩)
theorem prime_297159362677 : Nat.Prime 297159362677 :=
  pratt_step 297159362677 2 [(2,2), (3,2), (11,1), (461,1), (1627771,1)] (by norm_num) (by decide +kernel) (by decide +kernel)
    (by
      intro qe hqe
      simp only [List.mem_cons, List.mem_nil_iff, or_false] at hqe
      rcases hqe with rfl | rfl | rfl | rfl | rfl
      · exact ⟨Nat.prime_two, by decide +kernel⟩
      · exact ⟨Nat.prime_three, by decide +kernel⟩
      · exact ⟨prime_11, by decide +kernel⟩
      · exact ⟨prime_461, by decide +kernel⟩
      · exact ⟨prime_1627771, by decide +kernel⟩)
theorem prime_5156902474397 : Nat.Prime 5156902474397 :=
  pratt_step 5156902474397 2 [(2,2), (107,1), (12048837557,1)] (by norm_num) (by decide +kernel) (by decide +kernel)
    (by
      intro qe hqe
      simp only [List.mem_cons, List.mem_nil_iff, or_false] at hqe
      rcases hqe with rfl | rfl | rfl
      · exact ⟨Nat.prime_two, by decide +kernel⟩
      · exact ⟨prime_107, by decide +kernel⟩
      · exact ⟨prime_12048837557, by decide +kernel⟩)
theorem prime_9272813673901 : Nat.Prime 9272813673901 :=
  pratt_step 9272813673901 2 [(2,2), (3,1), (5,2), (7,1), (7577,1), (582767,1)] (by norm_num) (by decide +kernel) (by decide +kernel)
    (by
      intro qe hqe
      simp only [List.mem_cons, List.mem_nil_iff, or_false] at hqe
      rcases hqe with rfl | rfl | rfl | rfl | rfl | rfl
      · exact ⟨Nat.prime_two, by decide +kernel⟩
      · exact ⟨Nat.prime_three, by decide +kernel⟩
      · exact ⟨prime_5, by decide +kernel⟩
      · exact ⟨prime_7, by decide +kernel⟩
      · exact ⟨prime_7577, by decide +kernel⟩
      · exact ⟨prime_582767, by decide +kernel⟩)
theorem prime_64881703735777 : Nat.Prime 64881703735777 :=
  pratt_step 64881703735777 5 [(2,5), (3,7), (927093389,1)] (by norm_num) (by decide +kernel) (by decide +kernel)
    (by
      intro qe hqe
      simp only [List.mem_cons, List.mem_nil_iff, or_false] at hqe
      rcases hqe with rfl | rfl | rfl
      · exact ⟨Nat.prime_two, by decide +kernel⟩
      · exact ⟨Nat.prime_three, by decide +kernel⟩
      · exact ⟨prime_927093389, by decide +kernel⟩)
theorem prime_1670836401704629 : Nat.Prime 1670836401704629 :=
  pratt_step 1670836401704629 2 [(2,2), (3,4), (5156902474397,1)] (by norm_num) (by decide +kernel) (by decide +kernel)
    (by
      intro qe hqe
      simp only [List.mem_cons, List.mem_nil_iff, or_false] at hqe
      rcases hqe with rfl | rfl | rfl
      · exact ⟨Nat.prime_two, by decide +kernel⟩
      · exact ⟨Nat.prime_three, by decide +kernel⟩
      · exact ⟨prime_5156902474397, by decide +kernel⟩)
theorem prime_1928745244171409 : Nat.Prime 1928745244171409 :=
  pratt_step 1928745244171409 3 [(2,4), (13,1), (9272813673901,1)] (by norm_num) (by decide +kernel) (by decide +kernel)
    (by
      intro qe hqe
      simp only [List.mem_cons, List.mem_nil_iff, or_false] at hqe
      rcases hqe with rfl | rfl | rfl
      · exact ⟨Nat.prime_two, by decide +kernel⟩
      · exact ⟨prime_13, by decide +kernel⟩
      · exact ⟨prime_9272813673901, by decide +kernel⟩)
theorem prime_2480874801745591 : Nat.Prime 2480874801745591 :=
  pratt_step 2480874801745591 6 [(2,1), (3,2), (5,1), (19,1), (41,1), (35385462869,1)] (by norm_num) (by decide +kernel) (by decide +kernel)
    (by
      intro qe hqe
      simp only [List.mem_cons, List.mem_nil_iff, or_false] at hqe
      rcases hqe with rfl | rfl | rfl | rfl | rfl | rfl
      · exact ⟨Nat.prime_two, by decide +kernel⟩
      · exact ⟨Nat.prime_three, by decide +kernel⟩
      · exact ⟨prime_5, by decide +kernel⟩
      · exact ⟨prime_19, by decide +kernel⟩
      · exact ⟨prime_41, by decide +kernel⟩
      · exact ⟨prime_35385462869, by decide +kernel⟩)
theorem prime_65865678001877903 : Nat.Prime 65865678001877903 :=
  pratt_step 65865678001877903 5 [(2,1), (83,1), (379,1), (1637,1), (639533339,1)] (by norm_num) (by decide +kernel) (by decide +kernel)
    (by
      intro qe hqe
      simp only [List.mem_cons, List.mem_nil_iff, or_false] at hqe
      rcases hqe with rfl | rfl | rfl | rfl | rfl
      · exact ⟨Nat.prime_two, by decide +kernel⟩
      · exact ⟨prime_83, by decide +kernel⟩
      · exact ⟨prime_379, by decide +kernel⟩
      · exact ⟨prime_1637, by decide +kernel⟩
      · exact ⟨prime_639533339, by decide +kernel⟩)
theorem prime_107361793816595537 : Nat.Prime 107361793816595537 :=
  pratt_step 107361793816595537 3 [(2,4), (16699,1), (85831,1), (4681609,1)] (by norm_num) (by decide +kernel) (by decide +kernel)
    (by
      intro qe hqe
      simp only [List.mem_cons, List.mem_nil_iff, or_false] at hqe
      rcases hqe with rfl | rfl | rfl | rfl
      · exact ⟨Nat.prime_two, by decide +kernel⟩
      · exact ⟨prime_16699, by decide +kernel⟩
      · exact ⟨prime_85831, by decide +kernel⟩
      · exact ⟨prime_4681609, by decide +kernel⟩)
theorem prime_173378833005251801 : Nat.Prime 173378833005251801 :=
  pratt_step 173378833005251801 6 [(2,3), (5,2), (2621,1), (24809,1), (13331831,1)] (by norm_num) (by decide +kernel) (by decide +kernel)
    (by
      intro qe hqe
      simp only [List.mem_cons, List.mem_nil_iff, or_false] at hqe
      rcases hqe with rfl | rfl | rfl | rfl | rfl
      · exact ⟨Nat.prime_two, by decide +kernel⟩
      · exact ⟨prime_5, by decide +kernel⟩
      · exact ⟨prime_2621, by decide +kernel⟩
      · exact ⟨prime_24809, by decide +kernel⟩
      · exact ⟨prime_13331831, by decide +kernel⟩)
theorem prime_7259797099061183477 : Nat.Prime 7259797099061183477 :=
  pratt_step 7259797099061183477 2 [(2,2), (941,1), (1928745244171409,1)] (by norm_num) (by decide +kernel) (by decide +kernel)
    (by
      intro qe hqe
      simp only [List.mem_cons, List.mem_nil_iff, or_false] at hqe
      rcases hqe with rfl | rfl | rfl
      · exact ⟨Nat.prime_two, by decide +kernel⟩
      · exact ⟨prime_941, by decide +kernel⟩
      · exact ⟨prime_1928745244171409, by decide +kernel⟩)
theorem prime_174723607534414371449 : Nat.Prime 174723607534414371449 :=
  pratt_step 174723607534414371449 3 [(2,3), (17,1), (59,1), (4051,1), (120233,1), (44706919,1)] (by norm_num) (by decide +kernel) (by decide +kernel)
    (by
      intro qe hqe
      simp only [List.mem_cons, List.mem_nil_iff, or_false] at hqe
      rcases hqe with rfl | rfl | rfl | rfl | rfl | rfl
      · exact ⟨Nat.prime_two, by decide +kernel⟩
      · exact ⟨prime_17, by decide +kernel⟩
      · exact ⟨prime_59, by decide +kernel⟩
      · exact ⟨prime_4051, by decide +kernel⟩
      · exact ⟨prime_120233, by decide +kernel⟩
      · exact ⟨prime_44706919, by decide +kernel⟩)
theorem prime_2584487767265781317813 : Nat.Prime 2584487767265781317813 :=
  pratt_step 2584487767265781317813 2 [(2,2), (89,1), (7259797099061183477,1)] (by norm_num) (by decide +kernel) (by decide +kernel)
    (by
      intro qe hqe
      simp only [List.mem_cons, List.mem_nil_iff, or_false] at hqe
      rcases hqe with rfl | rfl | rfl
      · exact ⟨Nat.prime_two, by decide +kernel⟩
      · exact ⟨prime_89, by decide +kernel⟩
      · exact ⟨prime_7259797099061183477, by decide +kernel⟩)
theorem prime_3819663927398918131021 : Nat.Prime 3819663927398918131021 :=
  pratt_step 3819663927398918131021 6 [(2,2), (3,2), (5,1), (19,1), (113,1), (755057,1), (13090036741,1)] (by norm_num) (by decide +kernel) (by decide +kernel)
    (by
      intro qe hqe
      simp only [List.mem_cons, List.mem_nil_iff, or_false] at hqe
      rcases hqe with rfl | rfl | rfl | rfl | rfl | rfl | rfl
      · exact ⟨Nat.prime_two, by decide +kernel⟩
      · exact ⟨Nat.prime_three, by decide +kernel⟩
      · exact ⟨prime_5, by decide +kernel⟩
      · exact ⟨prime_19, by decide +kernel⟩
      · exact ⟨prime_113, by decide +kernel⟩
      · exact ⟨prime_755057, by decide +kernel⟩
      · exact ⟨prime_13090036741, by decide +kernel⟩)
theorem prime_22149492674086928081353 : Nat.Prime 22149492674086928081353 :=
  pratt_step 22149492674086928081353 5 [(2,3), (3,1), (5323,1), (173378833005251801,1)] (by norm_num) (by decide +kernel) (by decide +kernel)
    (by
      intro qe hqe
      simp only [List.mem_cons, List.mem_nil_iff, or_false] at hqe
      rcases hqe with rfl | rfl | rfl | rfl
      · exact ⟨Nat.prime_two, by decide +kernel⟩
      · exact ⟨Nat.prime_three, by decide +kernel⟩
      · exact ⟨prime_5323, by decide +kernel⟩
      · exact ⟨prime_173378833005251801, by decide +kernel⟩)
theorem prime_92691255082156974996979 : Nat.Prime 92691255082156974996979 :=
  pratt_step 92691255082156974996979 3 [(2,1), (3,1), (31,1), (467,1), (16447,1), (64881703735777,1)] (by norm_num) (by decide +kernel) (by decide +kernel)
    (by
      intro qe hqe
      simp only [List.mem_cons, List.mem_nil_iff, or_false] at hqe
      rcases hqe with rfl | rfl | rfl | rfl | rfl | rfl
      · exact ⟨Nat.prime_two, by decide +kernel⟩
      · exact ⟨Nat.prime_three, by decide +kernel⟩
      · exact ⟨prime_31, by decide +kernel⟩
      · exact ⟨prime_467, by decide +kernel⟩
      · exact ⟨prime_16447, by decide +kernel⟩
      · exact ⟨prime_64881703735777, by decide +kernel⟩)
theorem prime_132896956044521568488119 : Nat.Prime 132896956044521568488119 :=
  pratt_step 132896956044521568488119 6 [(2,1), (3,1), (22149492674086928081353,1)] (by norm_num) (by decide +kernel) (by decide +kernel)
    (by
      intro qe hqe
      simp only [List.mem_cons, List.mem_nil_iff, or_false] at hqe
      rcases hqe with rfl | rfl | rfl
      · exact ⟨Nat.prime_two, by decide +kernel⟩
      · exact ⟨Nat.prime_three, by decide +kernel⟩
      · exact ⟨prime_22149492674086928081353, by decide +kernel⟩)
theorem prime_13818364434197438864469338081 : Nat.Prime 13818364434197438864469338081 :=
  pratt_step 13818364434197438864469338081 3 [(2,5), (5,1), (823,1), (1593227,1), (65865678001877903,1)] (by norm_num) (by decide +kernel) (by decide +kernel)
    (by
      intro qe hqe
      simp only [List.mem_cons, List.mem_nil_iff, or_false] at hqe
      rcases hqe with rfl | rfl | rfl | rfl | rfl
      · exact ⟨Nat.prime_two, by decide +kernel⟩
      · exact ⟨prime_5, by decide +kernel⟩
      · exact ⟨prime_823, by decide +kernel⟩
      · exact ⟨prime_1593227, by decide +kernel⟩
      · exact ⟨prime_65865678001877903, by decide +kernel⟩)
theorem prime_29047611873442575647497758179 : Nat.Prime 29047611873442575647497758179 :=
  pratt_step 29047611873442575647497758179 2 [(2,1), (293,1), (305873,1), (545358713,1), (297159362677,1)] (by norm_num) (by decide +kernel) (by decide +kernel)
    (by
      intro qe hqe
      simp only [List.mem_cons, List.mem_nil_iff, or_false] at hqe
      rcases hqe with rfl | rfl | rfl | rfl | rfl
      · exact ⟨Nat.prime_two, by decide +kernel⟩
      · exact ⟨prime_293, by decide +kernel⟩
      · exact ⟨prime_305873, by decide +kernel⟩
      · exact ⟨prime_545358713, by decide +kernel⟩
      · exact ⟨prime_297159362677, by decide +kernel⟩)
theorem prime_341948486974166000522343609283189 : Nat.Prime 341948486974166000522343609283189 :=
  pratt_step 341948486974166000522343609283189 2 [(2,2), (3,3), (109,1), (29047611873442575647497758179,1)] (by norm_num) (by decide +kernel) (by decide +kernel)
    (by
      intro qe hqe
      simp only [List.mem_cons, List.mem_nil_iff, or_false] at hqe
      rcases hqe with rfl | rfl | rfl | rfl
      · exact ⟨Nat.prime_two, by decide +kernel⟩
      · exact ⟨Nat.prime_three, by decide +kernel⟩
      · exact ⟨prime_109, by decide +kernel⟩
      · exact ⟨prime_29047611873442575647497758179, by decide +kernel⟩)
theorem prime_1125266252156850182658904441386709967 : Nat.Prime 1125266252156850182658904441386709967 :=
  pratt_step 1125266252156850182658904441386709967 5 [(2,1), (3373,1), (43670061551,1), (3819663927398918131021,1)] (by norm_num) (by decide +kernel) (by decide +kernel)
    (by
      intro qe hqe
      simp only [List.mem_cons, List.mem_nil_iff, or_false] at hqe
      rcases hqe with rfl | rfl | rfl | rfl
      · exact ⟨Nat.prime_two, by decide +kernel⟩
      · exact ⟨prime_3373, by decide +kernel⟩
      · exact ⟨prime_43670061551, by decide +kernel⟩
      · exact ⟨prime_3819663927398918131021, by decide +kernel⟩)
theorem prime_255515944373312847190720520512484175977 : Nat.Prime 255515944373312847190720520512484175977 :=
  pratt_step 255515944373312847190720520512484175977 3 [(2,3), (7,2), (11,1), (1627,1), (2657,1), (4423,1), (41201,1), (96557,1), (7240687,1), (107590001,1)] (by norm_num) (by decide +kernel) (by decide +kernel)
    (by
      intro qe hqe
      simp only [List.mem_cons, List.mem_nil_iff, or_false] at hqe
      rcases hqe with rfl | rfl | rfl | rfl | rfl | rfl | rfl | rfl | rfl | rfl
      · exact ⟨Nat.prime_two, by decide +kernel⟩
      · exact ⟨prime_7, by decide +kernel⟩
      · exact ⟨prime_11, by decide +kernel⟩
      · exact ⟨prime_1627, by decide +kernel⟩
      · exact ⟨prime_2657, by decide +kernel⟩
      · exact ⟨prime_4423, by decide +kernel⟩
      · exact ⟨prime_41201, by decide +kernel⟩
      · exact ⟨prime_96557, by decide +kernel⟩
      · exact ⟨prime_7240687, by decide +kernel⟩
      · exact ⟨prime_107590001, by decide +kernel⟩)
theorem prime_13427688667394608761327070753331941386769 : Nat.Prime 13427688667394608761327070753331941386769 :=
  pratt_step 13427688667394608761327070753331941386769 17 [(2,4), (3,1), (7,1), (11,1), (1853641,1), (4562087,1), (173171039,1), (2480874801745591,1)] (by norm_num) (by decide +kernel) (by decide +kernel)
    (by
      intro qe hqe
      simp only [List.mem_cons, List.mem_nil_iff, or_false] at hqe
      rcases hqe with rfl | rfl | rfl | rfl | rfl | rfl | rfl | rfl
      · exact ⟨Nat.prime_two, by decide +kernel⟩
      · exact ⟨Nat.prime_three, by decide +kernel⟩
      · exact ⟨prime_7, by decide +kernel⟩
      · exact ⟨prime_11, by decide +kernel⟩
      · exact ⟨prime_1853641, by decide +kernel⟩
      · exact ⟨prime_4562087, by decide +kernel⟩
      · exact ⟨prime_173171039, by decide +kernel⟩
      · exact ⟨prime_2480874801745591, by decide +kernel⟩)
theorem prime_15778400344354997994418419698270088123916926905054652752758194827714659 : Nat.Prime 15778400344354997994418419698270088123916926905054652752758194827714659 :=
  pratt_step 15778400344354997994418419698270088123916926905054652752758194827714659 2 [(2,1), (3,1), (53,1), (475709467,1), (92691255082156974996979,1), (1125266252156850182658904441386709967,1)] (by norm_num) (by decide +kernel) (by decide +kernel)
    (by
      intro qe hqe
      simp only [List.mem_cons, List.mem_nil_iff, or_false] at hqe
      rcases hqe with rfl | rfl | rfl | rfl | rfl | rfl
      · exact ⟨Nat.prime_two, by decide +kernel⟩
      · exact ⟨Nat.prime_three, by decide +kernel⟩
      · exact ⟨prime_53, by decide +kernel⟩
      · exact ⟨prime_475709467, by decide +kernel⟩
      · exact ⟨prime_92691255082156974996979, by decide +kernel⟩
      · exact ⟨prime_1125266252156850182658904441386709967, by decide +kernel⟩)
theorem prime_205115282021455665897114700593932402728804164701536103180137503955397371 : Nat.Prime 205115282021455665897114700593932402728804164701536103180137503955397371 :=
  pratt_step 205115282021455665897114700593932402728804164701536103180137503955397371 10 [(2,1), (3,1), (5,1), (29,2), (31,1), (7723,1), (132896956044521568488119,1), (255515944373312847190720520512484175977,1)] (by norm_num) (by decide +kernel) (by decide +kernel)
    (by
      intro qe hqe
      simp only [List.mem_cons, List.mem_nil_iff, or_false] at hqe
      rcases hqe with rfl | rfl | rfl | rfl | rfl | rfl | rfl | rfl
      · exact ⟨Nat.prime_two, by decide +kernel⟩
      · exact ⟨Nat.prime_three, by decide +kernel⟩
      · exact ⟨prime_5, by decide +kernel⟩
      · exact ⟨prime_29, by decide +kernel⟩
      · exact ⟨prime_31, by decide +kernel⟩
      · exact ⟨prime_7723, by decide +kernel⟩
      · exact ⟨prime_132896956044521568488119, by decide +kernel⟩
      · exact ⟨prime_255515944373312847190720520512484175977, by decide +kernel⟩)
theorem prime_21888242871839275222246405745257275088548364400416034343698204186575808495617 : Nat.Prime 21888242871839275222246405745257275088548364400416034343698204186575808495617 :=
  pratt_step 21888242871839275222246405745257275088548364400416034343698204186575808495617 5 [(2,28), (3,2), (13,1), (29,1), (983,1), (11003,1), (237073,1), (405928799,1), (1670836401704629,1), (13818364434197438864469338081,1)] (by norm_num) (by decide +kernel) (by decide +kernel)
    (by
      intro qe hqe
      simp only [List.mem_cons, List.mem_nil_iff, or_false] at hqe
      rcases hqe with rfl | rfl | rfl | rfl | rfl | rfl | rfl | rfl | rfl | rfl
      · exact ⟨Nat.prime_two, by decide +kernel⟩
      · exact ⟨Nat.prime_three, by decide +kernel⟩
      · exact ⟨prime_13, by decide +kernel⟩
      · exact ⟨prime_29, by decide +kernel⟩
      · exact ⟨prime_983, by decide +kernel⟩
      · exact ⟨prime_11003, by decide +kernel⟩
      · exact ⟨prime_237073, by decide +kernel⟩
      · exact ⟨prime_405928799, by decide +kernel⟩
      · exact ⟨prime_1670836401704629, by decide +kernel⟩
      · exact ⟨prime_13818364434197438864469338081, by decide +kernel⟩)
theorem prime_21888242871839275222246405745257275088696311157297823662689037894645226208583 : Nat.Prime 21888242871839275222246405745257275088696311157297823662689037894645226208583 :=
  pratt_step 21888242871839275222246405745257275088696311157297823662689037894645226208583 3 [(2,1), (3,2), (13,1), (29,1), (67,1), (229,1), (311,1), (983,1), (11003,1), (405928799,1), (11465965001,1), (13427688667394608761327070753331941386769,1)] (by norm_num) (by decide +kernel) (by decide +kernel)
    (by
      intro qe hqe
      simp only [List.mem_cons, List.mem_nil_iff, or_false] at hqe
      rcases hqe with rfl | rfl | rfl | rfl | rfl | rfl | rfl | rfl | rfl | rfl | rfl | rfl
      · exact ⟨Nat.prime_two, by decide +kernel⟩
      · exact ⟨Nat.prime_three, by decide +kernel⟩
      · exact ⟨prime_13, by decide +kernel⟩
      · exact ⟨prime_29, by decide +kernel⟩
      · exact ⟨prime_67, by decide +kernel⟩
      · exact ⟨prime_229, by decide +kernel⟩
      · exact ⟨prime_311, by decide +kernel⟩
      · exact ⟨prime_983, by decide +kernel⟩
      · exact ⟨prime_11003, by decide +kernel⟩
      · exact ⟨prime_405928799, by decide +kernel⟩
      · exact ⟨prime_11465965001, by decide +kernel⟩
      · exact ⟨prime_13427688667394608761327070753331941386769, by decide +kernel⟩)
theorem prime_52435875175126190479447740508185965837690552500527637822603658699938581184513 : Nat.Prime 52435875175126190479447740508185965837690552500527637822603658699938581184513 :=
  pratt_step 52435875175126190479447740508185965837690552500527637822603658699938581184513 7 [(2,32), (3,1), (11,1), (19,1), (10177,1), (125527,1), (859267,1), (906349,2), (2508409,1), (2529403,1), (52437899,1), (254760293,2)] (by norm_num) (by decide +kernel) (by decide +kernel)
    (by
      intro qe hqe
      simp only [List.mem_cons, List.mem_nil_iff, or_false] at hqe
      rcases hqe with rfl | rfl | rfl | rfl | rfl | rfl | rfl | rfl | rfl | rfl | rfl | rfl
      · exact ⟨Nat.prime_two, by decide +kernel⟩
      · exact ⟨Nat.prime_three, by decide +kernel⟩
      · exact ⟨prime_11, by decide +kernel⟩
      · exact ⟨prime_19, by decide +kernel⟩
      · exact ⟨prime_10177, by decide +kernel⟩
      · exact ⟨prime_125527, by decide +kernel⟩
      · exact ⟨prime_859267, by decide +kernel⟩
      · exact ⟨prime_906349, by decide +kernel⟩
      · exact ⟨prime_2508409, by decide +kernel⟩
      · exact ⟨prime_2529403, by decide +kernel⟩
      · exact ⟨prime_52437899, by decide +kernel⟩
      · exact ⟨prime_254760293, by decide +kernel⟩)
theorem prime_115792089237316195423570985008687907852837564279074904382605163141518161494337 : Nat.Prime 115792089237316195423570985008687907852837564279074904382605163141518161494337 :=
  pratt_step 115792089237316195423570985008687907852837564279074904382605163141518161494337 7 [(2,6), (3,1), (149,1), (631,1), (107361793816595537,1), (174723607534414371449,1), (341948486974166000522343609283189,1)] (by norm_num) (by decide +kernel) (by decide +kernel)
    (by
      intro qe hqe
      simp only [List.mem_cons, List.mem_nil_iff, or_false] at hqe
      rcases hqe with rfl | rfl | rfl | rfl | rfl | rfl | rfl
      · exact ⟨Nat.prime_two, by decide +kernel⟩
      · exact ⟨Nat.prime_three, by decide +kernel⟩
      · exact ⟨prime_149, by decide +kernel⟩
      · exact ⟨prime_631, by decide +kernel⟩
      · exact ⟨prime_107361793816595537, by decide +kernel⟩
      · exact ⟨prime_174723607534414371449, by decide +kernel⟩
      · exact ⟨prime_341948486974166000522343609283189, by decide +kernel⟩)
theorem prime_115792089237316195423570985008687907853269984665640564039457584007908834671663 : Nat.Prime 115792089237316195423570985008687907853269984665640564039457584007908834671663 :=
  pratt_step 115792089237316195423570985008687907853269984665640564039457584007908834671663 3 [(2,1), (3,1), (7,1), (13441,1), (205115282021455665897114700593932402728804164701536103180137503955397371,1)] (by norm_num) (by decide +kernel) (by decide +kernel)
    (by
      intro qe hqe
      simp only [List.mem_cons, List.mem_nil_iff, or_false] at hqe
      rcases hqe with rfl | rfl | rfl | rfl | rfl
      · exact ⟨Nat.prime_two, by decide +kernel⟩
      · exact ⟨Nat.prime_three, by decide +kernel⟩
      · exact ⟨prime_7, by decide +kernel⟩
      · exact ⟨prime_13441, by decide +kernel⟩
      · exact ⟨prime_205115282021455665897114700593932402728804164701536103180137503955397371, by decide +kernel⟩)
theorem prime_4002409555221667393417789825735904156556882819939007885332058136124031650490837864442687629129015664037894272559787 : Nat.Prime 4002409555221667393417789825735904156556882819939007885332058136124031650490837864442687629129015664037894272559787 :=
  pratt_step 4002409555221667393417789825735904156556882819939007885332058136124031650490837864442687629129015664037894272559787 2 [(2,1), (3,2), (11,1), (23,1), (47,1), (10177,1), (859267,1), (52437899,1), (2584487767265781317813,1), (15778400344354997994418419698270088123916926905054652752758194827714659,1)] (by norm_num) (by decide +kernel) (by decide +kernel)
    (by
      intro qe hqe
      simp only [List.mem_cons, List.mem_nil_iff, or_false] at hqe
      rcases hqe with rfl | rfl | rfl | rfl | rfl | rfl | rfl | rfl | rfl | rfl
      · exact ⟨Nat.prime_two, by decide +kernel⟩
      · exact ⟨Nat.prime_three, by decide +kernel⟩
      · exact ⟨prime_11, by decide +kernel⟩
      · exact ⟨prime_23, by decide +kernel⟩
      · exact ⟨prime_47, by decide +kernel⟩
      · exact ⟨prime_10177, by decide +kernel⟩
      · exact ⟨prime_859267, by decide +kernel⟩
      · exact ⟨prime_52437899, by decide +kernel⟩
      · exact ⟨prime_2584487767265781317813, by decide +kernel⟩
      · exact ⟨prime_15778400344354997994418419698270088123916926905054652752758194827714659, by decide +kernel⟩)
end PyEcc.Pratt
