/-
  PyEcc.Sem.CodecSemG2Full — helper lemmas for the G2 half of property C11 (`Props/C11_G2Full.lean`):
  the twist curve `y² = x³ + 4(1+i)` read in `K2 = F_{p²}`; no point with `x = 0` (`4+4i` is a non-square),
  no point with `y = 0` (`−4−4i` is not a cube); `compress_G2` / `decompress_G2` unfolded.
-/
import PyEcc.Sem.Fq2Sqrt
import PyEcc.Props.C11_G2
import Mathlib.Tactic.FieldSimp
import Mathlib.Tactic.LinearCombination

set_option maxRecDepth 100000
set_option exponentiation.threshold 400

namespace PyEcc.Fq2Sqrt
open PyEcc PyEcc.Fqp PyEcc.FqpSem PyEcc.CodecSem Gen.Consts

/-! ### the twist curve in `K2` -/

/-- `b2 = 4 + 4i` in `K2` -/
noncomputable def B2 : K2 := toQ blsB2

theorem canon_b2 : Canon blsB2 := by decide +kernel
theorem b2_ne_zero : blsB2 ≠ 0 := by decide +kernel
theorem B2_ne_zero : B2 ≠ 0 := fun h => b2_ne_zero ((eq_zero_iff canon_b2).mpr h)

/-- kernel computation: `modular_squareroot_in_FQ2(4 + 4i)` is `None` -/
theorem sqrt_b2_none : modularSquarerootInFq2 blsB2 = none := by decide +kernel

/-- `4 + 4i` is not a square in `F_{p²}` -/
theorem B2_not_square : ¬ IsSquare B2 := (sqrt_none_iff canon_b2 b2_ne_zero).mp sqrt_b2_none

/-- kernel computation: `(−4−4i)^((p²−1)/3) ≠ 1` -/
theorem neg_b2_pow_kernel : (-blsB2) ^ (blsconst_FQ2_ORDER / 3) ≠ 1 := by decide +kernel

/-- **no point with `y = 0`**: `x³ + 4 + 4i` has no root in `F_{p²}` (`−4−4i` is not a cube) -/
theorem cube_add_B2_ne_zero (x : K2) : x ^ 3 + B2 ≠ 0 := by
  intro h
  have hx : x ≠ 0 := by
    rintro rfl
    apply B2_ne_zero
    simpa using h
  have h3 : x ^ 3 = -B2 := by linear_combination h
  have hk : (-B2) ^ (blsconst_FQ2_ORDER / 3) = 1 := by
    rw [← h3, ← pow_mul]
    have : 3 * (blsconst_FQ2_ORDER / 3) = blsconst_FQ2_ORDER := by decide
    rw [this]; exact fermat2 hx
  apply neg_b2_pow_kernel
  have hn := canon_neg2 canon_b2.wf
  apply toQ_inj (canon_pow2 hn.wf _) canon_one2
  rw [toQ_pow2 hn.wf, toQ_neg2, toQ_one2]
  exact hk

/-- a well-formed G2 triple: three `FQ2` objects (two coefficients each, reduced mod `p`) -/
def CanonPt (P : G2Pt) : Prop := Canon P.1 ∧ Canon P.2.1 ∧ Canon P.2.2

instance (P : G2Pt) : Decidable (CanonPt P) := by unfold CanonPt; infer_instance

/-- the on-curve test of the optimized module on `FQ2` triples, read in `K2` -/
theorem is_on_curve_iff2 (P : G2Pt) (hc : CanonPt P) :
    Gen.OptBls.is_on_curve P blsB2 = true ↔
      (P.2.2 = 0 ∨ toQ P.2.1 ^ 2 * toQ P.2.2 - toQ P.1 ^ 3 = B2 * toQ P.2.2 ^ 3) := by
  obtain ⟨hx, hy, hz⟩ := hc
  unfold Gen.OptBls.is_on_curve Gen.OptBls.is_inf
  by_cases h0 : P.2.2 = 0
  · simp [h0]
  · simp only [h0, decide_false, Bool.false_eq_true, ↓reduceIte, decide_eq_true_eq, false_or]
    have hl : Canon (P.2.1 ^ 2 * P.2.2 - P.1 ^ 3) :=
      canon_sub2 (canon_mul2 (canon_pow2 hy.wf 2).wf hz.wf).wf (canon_pow2 hx.wf 3).wf
    have hr : Canon (blsB2 * P.2.2 ^ 3) := canon_mul2 canon_b2.wf (canon_pow2 hz.wf 3).wf
    have e1 : toQ (P.2.1 ^ 2 * P.2.2 - P.1 ^ 3) = toQ P.2.1 ^ 2 * toQ P.2.2 - toQ P.1 ^ 3 := by
      rw [toQ_sub2 (canon_mul2 (canon_pow2 hy.wf 2).wf hz.wf).wf (canon_pow2 hx.wf 3).wf,
        toQ_mul2 (canon_pow2 hy.wf 2).wf hz.wf, toQ_pow2 hy.wf, toQ_pow2 hx.wf]
    have e2 : toQ (blsB2 * P.2.2 ^ 3) = B2 * toQ P.2.2 ^ 3 := by
      rw [toQ_mul2 canon_b2.wf (canon_pow2 hz.wf 3).wf, toQ_pow2 hz.wf]; rfl
    rw [← e1, ← e2]
    exact ⟨fun h => congrArg toQ h, fun h => toQ_inj hl hr h⟩

/-! ### `compress_G2` / `decompress_G2` unfolded -/

theorem compressG2_fin {P : G2Pt} (hon : Gen.OptBls.is_on_curve P blsB2 = true) (hz : P.2.2 ≠ 0) :
    compressG2 P = .ok ((getI (P.1 / P.2.2).coeffs 1 + aflag (P.2.1 / P.2.2) * ((2 ^ 381 : ℕ) : Int)
        + ((2 ^ 383 : ℕ) : Int)).toNat, (getI (P.1 / P.2.2).coeffs 0).toNat) := by
  have hi : Gen.OptBls.is_inf P = false := by simp [Gen.OptBls.is_inf, hz]
  unfold compressG2
  simp only [bind, Except.bind, throw, throwThe, MonadExceptOf.throw, pure, Except.pure, hon, hi,
    Bool.not_true, Bool.false_eq_true, if_false, pow2_381, pow2_383]
  rfl

/-- control skeleton as a decision table -/
theorem ctl2_eq (c b a isInf : Bool) (bad1 bad2 : Prop) [Decidable bad1] [Decidable bad2] (r : Option F2)
    (k : F2 → G2Pt) : ctl2 c b a isInf bad1 bad2 r k =
      if c = true then
        if isInf = true then (if b = true ∧ a = false then .ok Z2 else .error .value)
        else if b = true then .error .value
        else if bad1 then .error .value
        else if bad2 then .error .value
        else match r with
          | none => .error .value
          | some y => if Gen.OptBls.is_on_curve (k y) blsB2 = true then .ok (k y) else .error .value
      else .error .value := by
  unfold ctl2
  cases r with
  | none => cases c <;> cases b <;> cases a <;> cases isInf <;> simp
  | some y =>
    cases hoc : Gen.OptBls.is_on_curve (k y) blsB2 <;>
      cases c <;> cases b <;> cases a <;> cases isInf <;> simp [hoc]

/-- **`decompress_G2` as a decision table** on the three flag bits of `z1`, `x1 = z1 % 2^381` and `z2` -/
theorem decompressG2_eq (z1 z2 : ℕ) : decompressG2 z1 z2 =
    if z1 / 2 ^ 383 % 2 = 1 then
      if z1 % 2 ^ 381 = 0 ∧ z2 = 0 then
        (if z1 / 2 ^ 382 % 2 = 1 ∧ z1 / 2 ^ 381 % 2 = 0 then .ok Z2 else .error .value)
      else if z1 / 2 ^ 382 % 2 = 1 then .error .value
      else if blsP ≤ z1 % 2 ^ 381 then .error .value
      else if blsP ≤ z2 then .error .value
      else match modularSquarerootInFq2 (rhsOf2 z1 z2) with
        | none => .error .value
        | some y => if Gen.OptBls.is_on_curve (decodedPt2 z1 z2 y) blsB2 = true
            then .ok (decodedPt2 z1 z2 y) else .error .value
    else .error .value := by
  rw [decompressG2_ctl, ctl2_eq, C11.getFlags_eq]
  simp only [isPointAtInfinity_some, pow2_381, decide_eq_true_eq, decide_eq_false_iff_not, ge_iff_le,
    Nat.mod_two_not_eq_one]

/-! ### the encoded `x` -/

theorem canon_encodedX2 (z1 z2 : ℕ) : Canon (encodedX2 z1 z2) := canon_ofInts hp rfl

theorem canon_rhsOf2 (z1 z2 : ℕ) : Canon (rhsOf2 z1 z2) :=
  canon_add2 (canon_pow2 (canon_encodedX2 z1 z2).wf 3).wf canon_b2.wf

theorem toQ_rhsOf2 (z1 z2 : ℕ) : toQ (rhsOf2 z1 z2) = toQ (encodedX2 z1 z2) ^ 3 + B2 := by
  unfold rhsOf2
  rw [toQ_add2 (canon_pow2 (canon_encodedX2 z1 z2).wf 3).wf canon_b2.wf]
  congr 1
  exact toQ_pow2 (canon_encodedX2 z1 z2).wf 3

/-- reading the two coefficients of a well-formed `x` back through the constructor gives `x` -/
theorem encodedX2_eq {x : F2} (hx : Canon x) {z1 z2 : ℕ} (h0 : (z2 : Int) = getI x.coeffs 0)
    (h1 : ((z1 % 2 ^ 381 : ℕ) : Int) = getI x.coeffs 1) : encodedX2 z1 z2 = x := by
  obtain ⟨re, im, rfl, hr0, hr1, hi0, hi1⟩ := canon_cases hx
  simp only [getI_pair0, getI_pair1] at h0 h1
  unfold encodedX2 Fqp.ofInts
  rw [pow2_381, h0, h1]
  simp only [List.map_cons, List.map_nil, Int.emod_eq_of_lt hr0 hr1, Int.emod_eq_of_lt hi0 hi1]

theorem getI_encodedX2 {z1 z2 : ℕ} (h1 : z1 % 2 ^ 381 < blsP) (h2 : z2 < blsP) :
    getI (encodedX2 z1 z2).coeffs 0 = z2 ∧ getI (encodedX2 z1 z2).coeffs 1 = ((z1 % 2 ^ 381 : ℕ) : Int) := by
  unfold encodedX2 Fqp.ofInts
  rw [pow2_381]
  simp only [List.map_cons, List.map_nil, getI_pair0, getI_pair1]
  exact ⟨Int.emod_eq_of_lt (by omega) (by exact_mod_cast h2),
    Int.emod_eq_of_lt (by omega) (by exact_mod_cast h1)⟩

theorem encodedX2_eq_zero_iff {z1 z2 : ℕ} (h1 : z1 % 2 ^ 381 < blsP) (h2 : z2 < blsP) :
    encodedX2 z1 z2 = 0 ↔ (z1 % 2 ^ 381 = 0 ∧ z2 = 0) := by
  obtain ⟨e0, e1⟩ := getI_encodedX2 h1 h2
  constructor
  · intro h
    rw [h, zero_mk] at e0 e1
    simp only [getI_pair0, getI_pair1] at e0 e1
    constructor <;> exact_mod_cast (by omega)
  · rintro ⟨a, b⟩
    unfold encodedX2
    rw [pow2_381, a, b]
    rfl

/-! ### the decoder's choice of sign -/

theorem ofInts_mulInt_neg_one (s : F2) : (Fqp.ofInts (Fqp.mulInt s (-1)).coeffs : F2) = -s := by
  show Fqp.ofInts (Fqp.mulInt s (-1)).coeffs = Fqp.neg s
  unfold Fqp.mulInt Fqp.neg Fqp.ofInts
  simp only [List.map_map, Fqp.mk.injEq]
  apply List.map_congr_left
  intro c _
  simp only [Function.comp_apply, Int.mul_neg_one, Int.emod_emod_of_dvd _ (dvd_refl _)]

/-- `decompress_G2` negates the root exactly when its sign flag differs from `a_flag1` -/
theorem pickY2_eq (a : Bool) {s : F2} (hs : Canon s) :
    pickY2 a s = if aflag s ≠ (if a then 1 else 0) then -s else s := by
  unfold pickY2
  rw [ofInts_mulInt_neg_one]
  obtain ⟨re, im, rfl, hr0, hr1, hi0, hi1⟩ := canon_cases hs
  unfold aflag
  simp only [getI_pair0, getI_pair1]
  by_cases him : im > 0
  · have : im ≠ 0 := by omega
    simp only [him, this, true_and, false_and, or_false, if_true]
  · have : im = 0 := by omega
    subst this
    simp only [gt_iff_lt, lt_self_iff_false, false_and, true_and, false_or, if_false]

theorem pickY2_spec (a : Bool) {s : F2} (hs : Canon s) (h0 : s ≠ 0) :
    Canon (pickY2 a s) ∧ pickY2 a s ≠ 0 ∧ toQ (pickY2 a s) ^ 2 = toQ s ^ 2 ∧
      aflag (pickY2 a s) = (if a then 1 else 0) := by
  obtain ⟨f01, fneg, _⟩ := flag_facts hs h0
  rw [pickY2_eq a hs]
  by_cases h : aflag s = (if a then 1 else 0)
  · rw [if_neg (not_not.mpr h)]
    exact ⟨hs, h0, rfl, h⟩
  · rw [if_pos h]
    refine ⟨canon_neg2 hs.wf, neg_ne_zero2 hs h0, by rw [toQ_neg2]; ring, ?_⟩
    rw [fneg]
    cases a <;> simp only [if_true, if_false, Bool.false_eq_true] at h ⊢ <;> omega

theorem ofInts_one : (Fqp.ofInts [1, 0] : F2) = 1 := rfl

/-- the decoder's final `is_on_curve` re-check always passes on a square root of `x³ + b2` -/
theorem decodedPt2_on_curve {z1 z2 : ℕ} {y : F2} (hy : Canon y)
    (h : toQ y ^ 2 = toQ (encodedX2 z1 z2) ^ 3 + B2) :
    Gen.OptBls.is_on_curve (encodedX2 z1 z2, y, (Fqp.ofInts [1, 0] : F2)) blsB2 = true := by
  rw [is_on_curve_iff2 _ ⟨canon_encodedX2 z1 z2, hy, by rw [ofInts_one]; exact canon_one2⟩]
  right
  show toQ y ^ 2 * toQ (Fqp.ofInts [1, 0] : F2) - toQ (encodedX2 z1 z2) ^ 3 = B2 * toQ (Fqp.ofInts [1, 0] : F2) ^ 3
  rw [ofInts_one, toQ_one2, h]; ring


/-! ### affine coordinates of an on-curve triple -/

theorem affine_of_on_curve {P : G2Pt} (hc : CanonPt P) (hon : Gen.OptBls.is_on_curve P blsB2 = true)
    (hz : P.2.2 ≠ 0) :
    Canon (P.1 / P.2.2) ∧ Canon (P.2.1 / P.2.2) ∧
      toQ (P.1 / P.2.2) = toQ P.1 / toQ P.2.2 ∧ toQ (P.2.1 / P.2.2) = toQ P.2.1 / toQ P.2.2 ∧
      toQ (P.2.1 / P.2.2) ^ 2 = toQ (P.1 / P.2.2) ^ 3 + B2 ∧ P.1 / P.2.2 ≠ 0 ∧ P.2.1 / P.2.2 ≠ 0 := by
  obtain ⟨hX, hY, hZ⟩ := hc
  have hcx := canon_div2 hX hZ
  have hcy := canon_div2 hY hZ
  have ex := toQ_div2 hX hZ
  have ey := toQ_div2 hY hZ
  have hZ0 : toQ P.2.2 ≠ 0 := fun h => hz ((eq_zero_iff hZ).mpr h)
  have hcurve := ((is_on_curve_iff2 P ⟨hX, hY, hZ⟩).mp hon).resolve_left hz
  have hyy : toQ (P.2.1 / P.2.2) ^ 2 = toQ (P.1 / P.2.2) ^ 3 + B2 := by
    rw [ex, ey]; field_simp; linear_combination hcurve
  refine ⟨hcx, hcy, ex, ey, hyy, ?_, ?_⟩
  · intro h
    rw [(eq_zero_iff hcx).mp h] at hyy
    exact B2_not_square ⟨toQ (P.2.1 / P.2.2), by rw [← pow_two, hyy]; ring⟩
  · intro h
    rw [(eq_zero_iff hcy).mp h] at hyy
    exact cube_add_B2_ne_zero (toQ (P.1 / P.2.2)) (by rw [← hyy]; ring)

/-- bit fields of the first word written by `compress_G2` for a finite point -/
theorem compress_word {xi fl : Int} (h0 : 0 ≤ xi) (h1 : xi < blsP) (hf : fl = 0 ∨ fl = 1) :
    (xi + fl * ((2 ^ 381 : ℕ) : Int) + ((2 ^ 383 : ℕ) : Int)).toNat < 2 ^ 384 ∧
    (xi + fl * ((2 ^ 381 : ℕ) : Int) + ((2 ^ 383 : ℕ) : Int)).toNat / 2 ^ 383 % 2 = 1 ∧
    (xi + fl * ((2 ^ 381 : ℕ) : Int) + ((2 ^ 383 : ℕ) : Int)).toNat / 2 ^ 382 % 2 = 0 ∧
    (((xi + fl * ((2 ^ 381 : ℕ) : Int) + ((2 ^ 383 : ℕ) : Int)).toNat / 2 ^ 381 % 2 : ℕ) : Int) = fl ∧
    (((xi + fl * ((2 ^ 381 : ℕ) : Int) + ((2 ^ 383 : ℕ) : Int)).toNat % 2 ^ 381 : ℕ) : Int) = xi := by
  have hp := blsP_lt
  rcases hf with rfl | rfl <;> omega


/-! ### what the decoder does once a root has been found -/

theorem div_one2 {x : F2} (hx : Canon x) : x / (1 : F2) = x := by
  apply toQ_inj (canon_div2 hx canon_one2) hx
  rw [toQ_div2 hx canon_one2, toQ_one2, div_one]

theorem one_ne_zero2 : (1 : F2) ≠ 0 := by decide

/-- `x³ + b2` is never the zero element (no point with `y = 0`) -/
theorem rhsOf2_ne_zero (z1 z2 : ℕ) : rhsOf2 z1 z2 ≠ 0 := by
  intro h
  have := (eq_zero_iff (canon_rhsOf2 z1 z2)).mp h
  rw [toQ_rhsOf2] at this
  exact cube_add_B2_ne_zero _ this

/-- a root is returned exactly when `x³ + b2` is a square of some `FQ2` object -/
theorem sqrt_rhs_isSome_iff (z1 z2 : ℕ) :
    (∃ s, modularSquarerootInFq2 (rhsOf2 z1 z2) = some s) ↔ ∃ w : F2, Canon w ∧ w * w = rhsOf2 z1 z2 := by
  constructor
  · rintro ⟨s, hs⟩
    exact ⟨s, sqrt_canon (canon_rhsOf2 z1 z2) hs, sqrt_spec (canon_rhsOf2 z1 z2) hs⟩
  · rintro ⟨w, hw, hww⟩
    cases hr : modularSquarerootInFq2 (rhsOf2 z1 z2) with
    | some s => exact ⟨s, rfl⟩
    | none =>
      exfalso
      exact (sqrt_none_iff (canon_rhsOf2 z1 z2) (rhsOf2_ne_zero z1 z2)).mp hr
        ⟨toQ w, by rw [← hww, toQ_mul2 hw.wf hw.wf]⟩

/-- the same condition in the field `F_{p²}` -/
theorem sqrt_rhs_isSome_iff' (z1 z2 : ℕ) :
    (∃ s, modularSquarerootInFq2 (rhsOf2 z1 z2) = some s) ↔
      IsSquare (toQ (encodedX2 z1 z2) ^ 3 + B2) := by
  rw [← toQ_rhsOf2]
  constructor
  · rintro ⟨s, hs⟩
    have hc := sqrt_canon (canon_rhsOf2 z1 z2) hs
    exact ⟨toQ s, by rw [← toQ_mul2 hc.wf hc.wf, sqrt_spec (canon_rhsOf2 z1 z2) hs]⟩
  · intro hsq
    cases hr : modularSquarerootInFq2 (rhsOf2 z1 z2) with
    | some s => exact ⟨s, rfl⟩
    | none => exact absurd hsq ((sqrt_none_iff (canon_rhsOf2 z1 z2) (rhsOf2_ne_zero z1 z2)).mp hr)

/-- once `modular_squareroot_in_FQ2(x**3 + b2)` has returned `s`, the decoder's `y` is well-formed, non-zero,
    a root of `x³ + b2`, carries the requested sign flag, and the final `is_on_curve` re-check passes -/
theorem decoded_ok {z1 z2 : ℕ} {s : F2} (hs : modularSquarerootInFq2 (rhsOf2 z1 z2) = some s) :
    Canon (pickY2 (getFlags z1).2.2 s) ∧ pickY2 (getFlags z1).2.2 s ≠ 0 ∧
      aflag (pickY2 (getFlags z1).2.2 s) = (if (getFlags z1).2.2 = true then 1 else 0) ∧
      Gen.OptBls.is_on_curve (decodedPt2 z1 z2 s) blsB2 = true := by
  have hc := canon_rhsOf2 z1 z2
  have hsc := sqrt_canon hc hs
  obtain ⟨hs0, _, _⟩ := sqrt_is_larger hc hs
  obtain ⟨p1, p2, p3, p4⟩ := pickY2_spec (getFlags z1).2.2 hsc hs0
  refine ⟨p1, p2, p4, ?_⟩
  unfold decodedPt2
  apply decodedPt2_on_curve p1
  rw [p3, ← toQ_rhsOf2, ← sqrt_spec hc hs, toQ_mul2 hsc.wf hsc.wf]; ring

/-- recomposition of the first word from its fields -/
theorem word_recompose2 (z : ℕ) (hz : z < 2 ^ 384) (hc : z / 2 ^ 383 % 2 = 1) (hb : z / 2 ^ 382 % 2 = 0) :
    (((z % 2 ^ 381 : ℕ) : Int) + ((z / 2 ^ 381 % 2 : ℕ) : Int) * ((2 ^ 381 : ℕ) : Int)
      + ((2 ^ 383 : ℕ) : Int)).toNat = z := by omega

end PyEcc.Fq2Sqrt
