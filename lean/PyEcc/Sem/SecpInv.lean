/-
  PyEcc.Sem.SecpInv — discharges the hypothesis `SecpSem.InvSpec` (correctness of the generated
  `Gen.Secp.inv` on reduced arguments) from the general loop-correctness theorem of `Sem/InvLoop.lean`.
-/
import PyEcc.Sem.SecpSem
import PyEcc.Sem.InvLoop

namespace PyEcc.SecpSem
open PyEcc.Gen.Consts

/-- `inv(a, P)` of secp256k1 is the field inverse for every reduced `a` -/
theorem invSpec : InvSpec := by
  intro a h0 h1
  rw [P_eq] at h1 ⊢
  exact Gen.Secp.inv_spec_of_range prime_secpP a h0 h1

end PyEcc.SecpSem
