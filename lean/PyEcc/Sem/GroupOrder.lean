/-
  PyEcc.Sem.GroupOrder — elementary determination of the order of `E : y² = x³ + b` over `ZMod p`
  (GENERIC in `p`, `b`; used for secp256k1 and bn128 G1):
  `card_point_eq`: a point of prime order `n` with `2p + 1 < 3n`, and no root of `x³ + b` (no point with
  `y = 0`, i.e. no 2-torsion), force `#E(F_p) = n`; hence `n • Q = 0` for EVERY point (`nsmul_eq_zero_of_card`).
  Argument: `#E ≤ 2p + 1` (at most two `y` per `x`, plus ∞); `n ∣ #E` so `#E = k·n` with `k < 3`; `k = 2` would
  give an element of order 2 (Cauchy), i.e. a point with `y = 0`.
-/
import PyEcc.Sem.Curve
import Mathlib.GroupTheory.Perm.Cycle.Type
import Mathlib.RingTheory.Polynomial.Basic
import Mathlib.Algebra.Polynomial.Roots
import Mathlib.FieldTheory.Finite.Basic
import Mathlib.Tactic.LinearCombination
import Mathlib.Tactic.Linarith

namespace PyEcc.GroupOrder
open WeierstrassCurve PyEcc

variable {p : ℕ} [hp : Fact p.Prime]

theorem negY_W {F : Type} [Field F] (b x y : F) : (W b).negY x y = -y := by simp [Affine.negY, W]

/-- the curve equation of `W b` in plain form -/
theorem equation_W {F : Type} [Field F] [DecidableEq F] (b x y : F) :
    (W b).Equation x y ↔ y ^ 2 = x ^ 3 + b := by
  rw [Affine.equation_iff]; simp [W]

/-- affine solutions of y² = x³ + b over ZMod p -/
def sols (b : ZMod p) : Finset (ZMod p × ZMod p) :=
  Finset.univ.filter (fun a => a.2 ^ 2 = a.1 ^ 3 + b)

lemma sq_fiber_le_two (c : ZMod p) : (Finset.univ.filter (fun y : ZMod p => y ^ 2 = c)).card ≤ 2 := by
  classical
  have : (Finset.univ.filter (fun y : ZMod p => y ^ 2 = c)) ⊆ (Polynomial.nthRoots 2 c).toFinset := by
    intro y hy
    simp only [Finset.mem_filter, Finset.mem_univ, true_and] at hy
    simp [Polynomial.mem_nthRoots, hy]
  calc _ ≤ (Polynomial.nthRoots 2 c).toFinset.card := Finset.card_le_card this
    _ ≤ Multiset.card (Polynomial.nthRoots 2 c) := Multiset.toFinset_card_le _
    _ ≤ 2 := Polynomial.card_nthRoots 2 c

lemma card_sols_le (b : ZMod p) : (sols b).card ≤ 2 * p := by
  classical
  have h := Finset.card_le_mul_card_image (f := Prod.fst) (sols b) 2 (by
    intro x _
    -- the fiber over x injects into {y | y^2 = x^3 + b}
    have : (Finset.filter (fun a => a.1 = x) (sols b)).card
        ≤ (Finset.univ.filter (fun y : ZMod p => y ^ 2 = x ^ 3 + b)).card := by
      apply Finset.card_le_card_of_injOn Prod.snd
      · intro a ha
        simp only [sols, Finset.coe_filter, Finset.mem_filter, Finset.mem_univ, true_and,
          Set.mem_ofPred_eq] at ha ⊢
        rw [← ha.2]; exact ha.1
      · intro a ha a' ha' h
        simp only [Finset.coe_filter, Set.mem_ofPred_eq] at ha ha'
        exact Prod.ext (ha.2.trans ha'.2.symm) h
    exact this.trans (sq_fiber_le_two _))
  calc (sols b).card ≤ 2 * ((sols b).image Prod.fst).card := h
    _ ≤ 2 * (Finset.univ : Finset (ZMod p)).card := by
        gcongr; exact Finset.subset_univ _
    _ = 2 * p := by simp [ZMod.card]

/-- points inject into `Option` of the solution set -/
def ptToOpt (b : ZMod p) : (W b).Point → Option {a : ZMod p × ZMod p // a ∈ sols b}
  | .zero => none
  | .some x y h => some ⟨(x, y), by
      have e := (Affine.equation_iff _ _).mp h.1
      simp only [W] at e
      simp only [sols, Finset.mem_filter, Finset.mem_univ, true_and]
      linear_combination e⟩

lemma ptToOpt_injective (b : ZMod p) : Function.Injective (ptToOpt b) := by
  intro P Q h
  rcases P with _ | ⟨x, y, hxy⟩ <;> rcases Q with _ | ⟨x', y', hxy'⟩
  · rfl
  · simp [ptToOpt] at h
  · simp [ptToOpt] at h
  · simp only [ptToOpt, Option.some.injEq, Subtype.mk.injEq, Prod.mk.injEq] at h
    obtain ⟨rfl, rfl⟩ := h
    rfl

instance (b : ZMod p) : Finite (W b).Point := Finite.of_injective _ (ptToOpt_injective b)

lemma card_point_le (b : ZMod p) : Nat.card (W b).Point ≤ 2 * p + 1 := by
  classical
  calc Nat.card (W b).Point ≤ Nat.card (Option {a : ZMod p × ZMod p // a ∈ sols b}) :=
        Nat.card_le_card_of_injective _ (ptToOpt_injective b)
    _ = (sols b).card + 1 := by
        rw [Nat.card_eq_fintype_card, Fintype.card_option, Fintype.card_coe]
    _ ≤ 2 * p + 1 := by have := card_sols_le b; omega

/-- Elementary determination of the group order: a point of prime order `n` with
`2p + 1 < 3n`, and no point with `y = 0`, force `#E = n`. -/
theorem card_point_eq (b : ZMod p) (n : ℕ) (hn : n.Prime) (h2 : (2 : ZMod p) ≠ 0)
    (G : (W b).Point) (hG : G ≠ 0) (hnG : n • G = 0)
    (hbound : 2 * p + 1 < 3 * n)
    (hno2 : ∀ x : ZMod p, x ^ 3 + b ≠ 0) :
    Nat.card (W b).Point = n := by
  classical
  have : Fact n.Prime := ⟨hn⟩
  have hord : addOrderOf G = n := addOrderOf_eq_prime hnG hG
  have hdvd : n ∣ Nat.card (W b).Point := hord ▸ addOrderOf_dvd_natCard G
  obtain ⟨k, hk⟩ := hdvd
  have hle := card_point_le b
  have hpos : 0 < Nat.card (W b).Point := Nat.card_pos
  have hk3 : k < 3 := by
    by_contra hcon
    have : 3 * n ≤ n * k := by nlinarith [Nat.le_of_not_lt hcon]
    omega
  have hk0 : k ≠ 0 := by rintro rfl; omega
  have hk12 : k = 1 ∨ k = 2 := by omega
  rcases hk12 with rfl | rfl
  · omega
  · exfalso
    have h2dvd : 2 ∣ Nat.card (W b).Point := ⟨n, by omega⟩
    have : Fact (Nat.Prime 2) := ⟨Nat.prime_two⟩
    obtain ⟨P, hP⟩ := exists_prime_addOrderOf_dvd_card' (G := (W b).Point) 2 h2dvd
    have hP0 : P ≠ 0 := by
      intro h; rw [h, addOrderOf_zero] at hP; omega
    have h2P : P + P = 0 := by
      have := addOrderOf_nsmul_eq_zero P
      rw [hP, two_smul] at this; exact this
    rcases P with _ | ⟨x, y, hxy⟩
    · exact hP0 rfl
    · have hneg : Affine.Point.some x y hxy = -Affine.Point.some x y hxy :=
        eq_neg_of_add_eq_zero_left h2P
      rw [Affine.Point.neg_some] at hneg
      have hy : y = (W b).negY x y := by
        have := (Affine.Point.some.injEq ..).mp hneg
        exact this.2
      rw [negY_W] at hy
      have hy0 : y = 0 := by
        have : 2 * y = 0 := by linear_combination hy
        rcases mul_eq_zero.mp this with h | h
        · exact absurd h h2
        · exact h
      have e := (Affine.equation_iff _ _).mp hxy.1
      simp only [W] at e
      apply hno2 x
      rw [hy0] at e
      linear_combination -e


/-- once `#E = n`, every point is killed by `n` -/
theorem nsmul_eq_zero_of_card (b : ZMod p) (n : ℕ) (hcard : Nat.card (W b).Point = n) (Q : (W b).Point) :
    n • Q = 0 := by
  rw [← hcard]; exact card_nsmul_eq_zero'

end PyEcc.GroupOrder

#print axioms PyEcc.GroupOrder.card_point_eq
