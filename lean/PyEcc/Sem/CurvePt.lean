/-
  PyEcc.Sem.CurvePt — `CurvePt b`: Mathlib's point group of `y² = x³ + b` over a field `F`, with the
  ring structure of `F` taken FROM ITS `Field` INSTANCE.

  Why this abbreviation exists.  `WeierstrassCurve.Affine.Point` is declared over `[CommRing R]`, and the
  type `WeierstrassCurve.Affine R` of `W b` does not mention any instance.  Over a CONCRETE field type
  that has a direct `CommRing` instance of its own (`Fq p`: `Fq.instCommRing`; `AdjoinRoot f`:
  `AdjoinRoot.instCommRing`), writing `(W b).Point` makes elaboration pick that direct instance, whereas
  all generic theorems (and the `AddCommGroup` instance of `Point`, which needs `[Field F]`) speak about
  `@Point F (Field.toCommRing …) (W b)`.  The two are definitionally equal but not syntactically, and
  type-class resolution / `rw` / `simp` with `smul_add`, `smul_zero`, … then fail on the former.
  `CurvePt b` is elaborated once, in a generic `[Field F]` context, so at every instantiation it is
  syntactically the type used by the generic theorems.  Use `P : CurvePt (blsB : F1)`,
  `P : CurvePt (toQ blsB2 : K2)` in statements about concrete fields.
-/
import PyEcc.Sem.Curve

namespace PyEcc

/-- the group of points of `y² = x³ + b` over the field `F` (Mathlib's `WeierstrassCurve.Affine.Point`) -/
abbrev CurvePt {F : Type} [Field F] (b : F) : Type := (W b).Point

end PyEcc
