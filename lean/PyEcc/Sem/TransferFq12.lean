/-
  PyEcc.Sem.TransferFq12 — the transfer layer (`Sem/TransferFqp.lean`) instantiated at the degree-12
  extension fields `FQ12`:

      `K12   = AdjoinRoot (modulus blsP blsMc12) = F_p[X]/(X¹² − 2X⁶ + 2)`   (BLS12-381)
      `K12bn = AdjoinRoot (modulus bnP bnMc12)   = F_p[X]/(X¹² − 18X⁶ + 82)` (bn128)

  Both are Mathlib FIELDS (`Props/C08_Fq12.lean`: the moduli are irreducible), so
  `toQ : Fqp v p mc12 → K12` is a `GoodHom` on canonical elements (12 coefficients in `[0, p)`), for the
  reference class (`v = .ref`) and the optimized class (`v = .opt`).  Side conditions of the
  field-generic curve theorems: `2 ≠ 0`, `3 ≠ 0`, `b12` canonical with non-zero value.
-/
import PyEcc.Sem.TransferFqp
import PyEcc.Props.C08_Fq12
import PyEcc.Lemmas.TransferRefLawsBls
import PyEcc.Lemmas.TransferRefLawsBn

set_option linter.unusedSectionVars false
set_option maxRecDepth 100000

namespace PyEcc.TwistSem
open PyEcc PyEcc.Gen PyEcc.Gen.Consts PyEcc.Fqp PyEcc.FqpSem PyEcc.Transfer PyEcc.Irred12

/-- BLS12-381: the semantic field of `FQ12` coordinates -/
abbrev K12 : Type := AdjoinRoot (modulus blsP blsMc12)
/-- bn128: the semantic field of `FQ12` coordinates -/
abbrev K12bn : Type := AdjoinRoot (modulus bnP bnMc12)

/-- model type of BLS12-381 `FQ12` elements (`v = .ref`: `py_ecc.fields.bls12_381_FQ12`,
    `v = .opt`: `py_ecc.fields.optimized_bls12_381_FQ12`) -/
abbrev F12 (v : Variant) : Type := Fqp v blsP blsMc12
/-- model type of bn128 `FQ12` elements -/
abbrev F12bn (v : Variant) : Type := Fqp v bnP bnMc12

/-- BLS12-381 `FQ12`: `toQ` is a `GoodHom` into the field `K12` -/
theorem goodHom_F12 {v : Variant} : GoodHom (Canon (v := v) (p := blsP) (mc := blsMc12)) (toQ : F12 v → K12) :=
  goodHom_toQ (by decide) sane_bls12

/-- bn128 `FQ12`: `toQ` is a `GoodHom` into the field `K12bn` -/
theorem goodHom_F12bn {v : Variant} :
    GoodHom (Canon (v := v) (p := bnP) (mc := bnMc12)) (toQ : F12bn v → K12bn) :=
  goodHom_toQ (by decide) sane_bn12

/-- `optimized_bls12_381.b12` / `bls12_381.b12` (`FQ12([4, 0, …])`) as an element of the model type -/
def blsB12 (v : Variant) : F12 v :=
  match v with
  | .ref => ⟨bls12_381_b12⟩
  | .opt => ⟨optimized_bls12_381_b12⟩

/-- `optimized_bn128.b12` / `bn128.b12` (`FQ12([3, 0, …])`) as an element of the model type -/
def bnB12 (v : Variant) : F12bn v :=
  match v with
  | .ref => ⟨bn128_b12⟩
  | .opt => ⟨optimized_bn128_b12⟩

theorem blsB12_eq (v : Variant) : blsB12 v = ((4 : ℕ) : F12 v) := by cases v <;> decide
theorem bnB12_eq (v : Variant) : bnB12 v = ((3 : ℕ) : F12bn v) := by cases v <;> decide

/-- side conditions of the generic theorems in `K12`: `2 ≠ 0`, `3 ≠ 0`, `b12 = 4` canonical, non-zero -/
theorem k12_field_ok (v : Variant) :
    (2 : K12) ≠ 0 ∧ (3 : K12) ≠ 0 ∧ Canon (blsB12 v) ∧ (toQ (blsB12 v) : K12) ≠ 0 := by
  have e2 : (2 : K12) = toQ (((2 : ℕ) : F12 .opt)) := by
    rw [(goodHom_F12 (v := .opt)).map_natCast]; norm_cast
  have e3 : (3 : K12) = toQ (((3 : ℕ) : F12 .opt)) := by
    rw [(goodHom_F12 (v := .opt)).map_natCast]; norm_cast
  refine ⟨?_, ?_, by cases v <;> decide, toQ_ne_zero_of (by cases v <;> decide) (by cases v <;> decide)⟩
  · rw [e2]; exact toQ_ne_zero_of (by decide) (by decide)
  · rw [e3]; exact toQ_ne_zero_of (by decide) (by decide)

/-- side conditions of the generic theorems in `K12bn` -/
theorem k12bn_field_ok (v : Variant) :
    (2 : K12bn) ≠ 0 ∧ (3 : K12bn) ≠ 0 ∧ Canon (bnB12 v) ∧ (toQ (bnB12 v) : K12bn) ≠ 0 := by
  have e2 : (2 : K12bn) = toQ (((2 : ℕ) : F12bn .opt)) := by
    rw [(goodHom_F12bn (v := .opt)).map_natCast]; norm_cast
  have e3 : (3 : K12bn) = toQ (((3 : ℕ) : F12bn .opt)) := by
    rw [(goodHom_F12bn (v := .opt)).map_natCast]; norm_cast
  refine ⟨?_, ?_, by cases v <;> decide, toQ_ne_zero_of (by cases v <;> decide) (by cases v <;> decide)⟩
  · rw [e2]; exact toQ_ne_zero_of (by decide) (by decide)
  · rw [e3]; exact toQ_ne_zero_of (by decide) (by decide)

/-- the value of `b12` in `K12` is `4` -/
theorem toQ_blsB12 (v : Variant) : (toQ (blsB12 v) : K12) = 4 := by
  rw [blsB12_eq, (goodHom_F12 (v := v)).map_natCast]; norm_cast

/-- the value of `b12` in `K12bn` is `3` -/
theorem toQ_bnB12 (v : Variant) : (toQ (bnB12 v) : K12bn) = 3 := by
  rw [bnB12_eq, (goodHom_F12bn (v := v)).map_natCast]; norm_cast

/-- reference-module point (`None` or a pair) with canonical coordinates -/
abbrev CanonO {v : Variant} {p : ℕ} {mc : List Int} (pt : Option (Fqp v p mc × Fqp v p mc)) : Prop :=
  GoodO Canon pt

/-- reference-module result: an exception, or a point with canonical coordinates -/
abbrev CanonE {v : Variant} {p : ℕ} {mc : List Int}
    (r : Except PyErr (Option (Fqp v p mc × Fqp v p mc))) : Prop := GoodE Canon r

instance {v : Variant} {p : ℕ} {mc : List Int} (pt : Option (Fqp v p mc × Fqp v p mc)) :
    Decidable (CanonO pt) := by
  rcases pt with _ | ⟨x, y⟩
  · exact isTrue trivial
  · unfold CanonO GoodO GoodP; infer_instance

end PyEcc.TwistSem
