/-
  PyEcc.Sem.InvLoop — correctness of the extended-Euclid loop of `py_ecc.utils.prime_field_inv`
  (model: `PyEcc.primeFieldInv` / `PyEcc.invLoop`) and of `py_ecc.secp256k1.secp256k1.inv`
  (generated: `PyEcc.Gen.Secp.inv` / `inv_loop`) for ANY prime modulus.

  Loop invariant (state `(lm, low, hm, high)`, input `a`, modulus `p`):
    `lm * a ≡ low`, `hm * a ≡ high (mod p)`, `IsCoprime low high`, `1 ≤ low`, fuel `≥ low`.
  `low` strictly decreases; coprimality forces `low = 1` at exit, so `lm * a ≡ 1`.
-/
import PyEcc.Model.Fq
import PyEcc.Gen.Secp
import Mathlib.Data.ZMod.Basic
import Mathlib.Algebra.Field.ZMod
import Mathlib.RingTheory.Coprime.Lemmas
import Mathlib.Tactic.Ring
import Mathlib.Tactic.LinearCombination
import Mathlib.Tactic.Linarith

namespace PyEcc.FqSem

/-- a prime is non-zero (so the `[NeZero p]` operations of the model are available under
    `[Fact p.Prime]`) -/
instance (priority := 50) neZero_of_fact_prime {p : ℕ} [h : Fact p.Prime] : NeZero p :=
  ⟨h.out.ne_zero⟩

/-- The loop invariant implies the result: whatever the modulus `m`, if `lm·a ≡ low`, `hm·a ≡ high`
    (mod `m`), `low` and `high` are coprime, `1 ≤ low` and the fuel is at least `low`, then the value
    returned by the loop is a left inverse of `a` modulo `m`. -/
theorem invLoop_spec {m : ℕ} (a : ZMod m) : ∀ (f : ℕ) (lm low hm high : ℤ),
    1 ≤ low → low.toNat ≤ f → IsCoprime low high →
    (lm : ZMod m) * a = (low : ZMod m) → (hm : ZMod m) * a = (high : ZMod m) →
    ((invLoop f lm low hm high : ℤ) : ZMod m) * a = 1 := by
  intro f
  induction f with
  | zero =>
    intro lm low hm high h1 hf
    omega
  | succ f ih =>
    intro lm low hm high h1 hf hc hl hh
    unfold invLoop
    by_cases hgt : low > 1
    · rw [if_pos hgt]
      have hpos : (0 : ℤ) < low := by omega
      have hmodeq : high - low * (high / low) = high % low := by rw [Int.emod_def]
      have hnn := Int.emod_nonneg high (by omega : low ≠ 0)
      have hlt := Int.emod_lt_of_pos high hpos
      have hc' : IsCoprime (high - low * (high / low)) low := by
        have := hc.symm.add_mul_left_left (-(high / low))
        simpa [sub_eq_add_neg] using this
      have hne : high % low ≠ 0 := by
        intro h0
        rw [hmodeq, h0] at hc'
        have hu : IsUnit low := isCoprime_zero_left.mp hc'
        rcases Int.isUnit_iff.mp hu with h | h <;> omega
      apply ih
      · rw [hmodeq]; omega
      · rw [hmodeq]; omega
      · exact hc'
      · push_cast
        linear_combination hh - (↑(high / low) : ZMod m) * hl
      · exact hl
    · rw [if_neg hgt]
      have : low = 1 := by omega
      subst this
      simpa using hl

/-- for a prime `p` and `0 < x < p`, `x` and `p` are coprime integers -/
theorem isCoprime_of_pos_lt_prime {p : ℕ} (hp : p.Prime) {x : ℤ} (h0 : 0 < x) (hlt : x < p) :
    IsCoprime x (p : ℤ) := by
  obtain ⟨k, rfl⟩ := Int.eq_ofNat_of_zero_le h0.le
  rw [Nat.isCoprime_iff_coprime]
  apply Nat.Coprime.symm
  rw [Nat.Prime.coprime_iff_not_dvd hp]
  apply Nat.not_dvd_of_pos_of_lt <;> omega

/-- The loop started as in `prime_field_inv` / `secp256k1.inv` (state `(1, a mod p, 0, p)` with
    `a mod p ≠ 0`) returns a left inverse of `a` modulo the prime `p`. -/
theorem invLoop_start_spec {p : ℕ} (hp : p.Prime) (a : ℤ) (ha : a % (p : ℤ) ≠ 0) :
    ((invLoop (a % (p : ℤ)).toNat 1 (a % (p : ℤ)) 0 p : ℤ) : ZMod p) * (a : ZMod p) = 1 := by
  have hppos : (0 : ℤ) < p := by exact_mod_cast hp.pos
  have hnn := Int.emod_nonneg a (by omega : (p : ℤ) ≠ 0)
  have hlt := Int.emod_lt_of_pos a hppos
  apply invLoop_spec
  · omega
  · exact le_refl _
  · exact isCoprime_of_pos_lt_prime hp (by omega) hlt
  · simp [ZMod.intCast_mod]
  · simp

/-- **`prime_field_inv` is inversion in `ZMod p`** for every prime `p` and every integer `a`
    (also negative or `≥ p`); multiples of `p` are sent to `0` (the code's `inv0` convention, which is
    Mathlib's `0⁻¹ = 0`). -/
theorem primeFieldInv_spec {p : ℕ} (hp : p.Prime) (a : ℤ) :
    ((primeFieldInv a p : ℤ) : ZMod p) = (a : ZMod p)⁻¹ := by
  have : Fact p.Prime := ⟨hp⟩
  unfold primeFieldInv
  simp only [Int.emod_emod_of_dvd _ (dvd_refl (p : ℤ))]
  by_cases ha : a % (p : ℤ) = 0
  · rw [if_pos ha]
    have : (a : ZMod p) = 0 := by
      rw [ZMod.intCast_zmod_eq_zero_iff_dvd]; exact Int.dvd_of_emod_eq_zero ha
    simp [this]
  · rw [if_neg ha, ZMod.intCast_mod]
    exact eq_inv_of_mul_eq_one_left (invLoop_start_spec hp a ha)

/-- the value returned by `prime_field_inv(a, p)` is a canonical residue -/
theorem primeFieldInv_range {p : ℕ} (hp : 0 < p) (a : ℤ) :
    0 ≤ primeFieldInv a p ∧ primeFieldInv a p < p := by
  have hppos : (0 : ℤ) < p := by exact_mod_cast hp
  unfold primeFieldInv
  dsimp only
  split
  · exact ⟨le_refl _, hppos⟩
  · exact ⟨Int.emod_nonneg _ (by omega), Int.emod_lt_of_pos _ hppos⟩

/-- `prime_field_inv(a, p) * a ≡ 1 (mod p)` when `p ∤ a` (integer form) -/
theorem primeFieldInv_mul_emod {p : ℕ} (hp : p.Prime) (a : ℤ) (ha : a % (p : ℤ) ≠ 0) :
    (primeFieldInv a p * a) % (p : ℤ) = 1 % (p : ℤ) := by
  have : Fact p.Prime := ⟨hp⟩
  have h := primeFieldInv_spec hp a
  have hne : (a : ZMod p) ≠ 0 := by
    rw [Ne, ZMod.intCast_zmod_eq_zero_iff_dvd]
    intro hd; exact ha (Int.emod_eq_zero_of_dvd hd)
  have : ((primeFieldInv a p * a : ℤ) : ZMod p) = ((1 : ℤ) : ZMod p) := by
    push_cast; rw [h, inv_mul_cancel₀ hne]
  exact (ZMod.intCast_eq_intCast_iff' _ _ _).mp this

/-! ### the generated `secp256k1.inv` -/

/-- the tuple-state loop generated from `secp256k1.inv` is the same loop as `invLoop` -/
theorem secp_inv_loop_fst : ∀ (f : ℕ) (lm low hm high : ℤ),
    (Gen.Secp.inv_loop f (lm, low, hm, high)).1 = invLoop f lm low hm high := by
  intro f
  induction f with
  | zero => intro lm low hm high; rfl
  | succ f ih =>
    intro lm low hm high
    unfold Gen.Secp.inv_loop invLoop
    by_cases hgt : low > 1
    · simp only [hgt, if_true]; exact ih _ _ _ _
    · simp only [hgt, if_false]

/-- `secp256k1.inv(a, n)` unfolded: `0` for `a = 0`, otherwise the shared loop on `a mod n` -/
theorem secp_inv_eq (a n : ℤ) :
    Gen.Secp.inv a n = if a = 0 then 0 else invLoop (a % n).toNat 1 (a % n) 0 n % n := by
  unfold Gen.Secp.inv
  by_cases ha : a = 0
  · simp [ha]
  · simp only [ha, if_false]
    rw [← secp_inv_loop_fst]

/-- `secp256k1.inv` agrees with `prime_field_inv` except on non-zero multiples of `n` -/
theorem secp_inv_eq_primeFieldInv (a n : ℤ) (h : a % n ≠ 0) :
    Gen.Secp.inv a n = primeFieldInv a n := by
  have ha : a ≠ 0 := by rintro rfl; simp at h
  rw [secp_inv_eq, if_neg ha]
  unfold primeFieldInv
  simp only [Int.emod_emod_of_dvd _ (dvd_refl n), if_neg h]

/-- `secp256k1.inv(a, n)` for a NON-ZERO multiple `a` of `n` returns `1 % n` (i.e. `1` for `n > 1`),
    NOT `0`: `a == 0` is tested before `a` is reduced, the loop body never runs (`low = 0`) and the
    initial `lm = 1` is returned.  (`prime_field_inv` reduces first and returns `0` here.) -/
theorem secp_inv_of_dvd (a n : ℤ) (ha : a ≠ 0) (h : a % n = 0) : Gen.Secp.inv a n = 1 % n := by
  rw [secp_inv_eq, if_neg ha, h]
  rfl

end PyEcc.FqSem

namespace PyEcc.Gen.Secp
open PyEcc.FqSem

/-- **`secp256k1.inv(a, n)` is inversion in `ZMod q`** for `n = q` prime and every integer `a` that
    is `0` or not a multiple of `q` (negative and `≥ q` included).  The guard cannot be dropped:
    see `inv_of_dvd` (`inv(q, q) = 1`). -/
theorem inv_spec {q : ℕ} (hq : q.Prime) (a : ℤ) (ha : a = 0 ∨ a % (q : ℤ) ≠ 0) :
    ((inv a q : ℤ) : ZMod q) = (a : ZMod q)⁻¹ := by
  have : Fact q.Prime := ⟨hq⟩
  rcases ha with rfl | ha
  · simp [inv]
  · rw [secp_inv_eq_primeFieldInv a q ha]; exact primeFieldInv_spec hq a

/-- the same for canonical inputs `0 ≤ a < q` -/
theorem inv_spec_of_range {q : ℕ} (hq : q.Prime) (a : ℤ) (h0 : 0 ≤ a) (hlt : a < (q : ℤ)) :
    ((inv a q : ℤ) : ZMod q) = (a : ZMod q)⁻¹ := by
  apply inv_spec hq
  by_cases ha : a = 0
  · exact Or.inl ha
  · right; rw [Int.emod_eq_of_lt h0 hlt]; exact ha

/-- `secp256k1.inv(a, q)` on a non-zero multiple of `q > 1` is `1` (and `1 ≠ a⁻¹ = 0` in `ZMod q`) -/
theorem inv_of_dvd {q : ℕ} (hq : 1 < q) (a : ℤ) (ha : a ≠ 0) (h : a % (q : ℤ) = 0) :
    inv a q = 1 := by
  rw [secp_inv_of_dvd a q ha h]
  exact Int.emod_eq_of_lt (by omega) (by exact_mod_cast hq)

/-- range: `0 ≤ secp256k1.inv(a, n) < n` for `n > 0` -/
theorem inv_range {n : ℤ} (hn : 0 < n) (a : ℤ) : 0 ≤ inv a n ∧ inv a n < n := by
  rw [secp_inv_eq]
  split
  · exact ⟨le_refl _, hn⟩
  · exact ⟨Int.emod_nonneg _ (by omega), Int.emod_lt_of_pos _ hn⟩

example : inv 7 7 = 1 := by decide
example : inv (-14) 7 = 1 := by decide
example : inv 3 7 = 5 := by decide
example : primeFieldInv 7 7 = 0 := by decide

end PyEcc.Gen.Secp
