/-
  PyEcc.Sem.FqZMod — the executable model `Fq p` of py_ecc's `FQ` class IS `ZMod p`.

  `Fq.toZMod : Fq p → ZMod p` (cast of the stored residue `.n`) is a bijection that commutes with every
  operation of the model: `ofInt`, `0`, `1`, `+`, `*`, `-`, unary `-`, `/`, `inv`, `**`, the int-operand
  forms and the casts.  `Fq p` gets its `CommRing` structure (any `p ≠ 0`) and `Field` structure
  (`p` prime) by pull-back along `toZMod`; the operations of these instances are, definitionally, the
  model's `Fq.add`, `Fq.mul`, … (the instances of `PyEcc/Model/Fq.lean` are reused, not replaced).
-/
import PyEcc.Sem.InvLoop
import Mathlib.Algebra.Ring.InjSurj
import Mathlib.Algebra.Ring.Equiv
import Mathlib.Algebra.Field.Basic

namespace PyEcc
namespace Fq
variable {p : ℕ}

/-- semantic reading of an `FQ` object: its residue class -/
def toZMod (a : Fq p) : ZMod p := (a.n : ZMod p)

theorem toZMod_def (a : Fq p) : toZMod a = (a.n : ZMod p) := rfl

theorem toZMod_injective : Function.Injective (toZMod (p := p)) := by
  intro a b h
  apply Fq.ext
  have := (ZMod.natCast_eq_natCast_iff' a.n b.n p).mp h
  rwa [Nat.mod_eq_of_lt a.lt, Nat.mod_eq_of_lt b.lt] at this

theorem toZMod_inj {a b : Fq p} : toZMod a = toZMod b ↔ a = b := toZMod_injective.eq_iff

variable [NeZero p]

/-- the canonical representative of a residue class, as an `FQ` object -/
def ofZMod (z : ZMod p) : Fq p := ⟨z.val, ZMod.val_lt z⟩

@[simp] theorem toZMod_ofZMod (z : ZMod p) : toZMod (ofZMod z) = z := ZMod.natCast_zmod_val z

@[simp] theorem ofZMod_toZMod (a : Fq p) : ofZMod (toZMod a) = a :=
  toZMod_injective (toZMod_ofZMod _)

theorem toZMod_surjective : Function.Surjective (toZMod (p := p)) := fun z => ⟨ofZMod z, toZMod_ofZMod z⟩

theorem pmod_cast (z : ℤ) : ((pmod z p : ℕ) : ℤ) = z % (p : ℤ) := by
  unfold pmod
  exact Int.toNat_of_nonneg (Int.emod_nonneg _ (by exact_mod_cast NeZero.ne p))

/-- `FQ(z)` for an arbitrary Python int `z` (negative, `≥ p`) is the class of `z` -/
@[simp] theorem toZMod_ofInt (z : ℤ) : toZMod (ofInt z : Fq p) = (z : ZMod p) := by
  show ((pmod z p : ℕ) : ZMod p) = (z : ZMod p)
  rw [← Int.cast_natCast, pmod_cast, ZMod.intCast_mod]

theorem n_ofInt (z : ℤ) : ((ofInt z : Fq p).n : ℤ) = z % (p : ℤ) := pmod_cast z

@[simp] theorem toZMod_zero : toZMod (0 : Fq p) = 0 := by
  show toZMod (ofInt 0) = 0; simp
@[simp] theorem toZMod_one : toZMod (1 : Fq p) = 1 := by
  show toZMod (ofInt 1) = 1; simp
@[simp] theorem toZMod_add (a b : Fq p) : toZMod (a + b) = toZMod a + toZMod b := by
  show toZMod (ofInt _) = _; rw [toZMod_ofInt]; simp [toZMod]
@[simp] theorem toZMod_mul (a b : Fq p) : toZMod (a * b) = toZMod a * toZMod b := by
  show toZMod (ofInt _) = _; rw [toZMod_ofInt]; simp [toZMod]
@[simp] theorem toZMod_sub (a b : Fq p) : toZMod (a - b) = toZMod a - toZMod b := by
  show toZMod (ofInt _) = _; rw [toZMod_ofInt]; simp [toZMod]
@[simp] theorem toZMod_neg (a : Fq p) : toZMod (-a) = -toZMod a := by
  show toZMod (ofInt _) = _; rw [toZMod_ofInt]; simp [toZMod]
@[simp] theorem toZMod_natCast (k : ℕ) : toZMod (k : Fq p) = (k : ZMod p) := by
  show toZMod (ofInt _) = _; simp
@[simp] theorem toZMod_intCast (k : ℤ) : toZMod (k : Fq p) = (k : ZMod p) := by
  show toZMod (ofInt _) = _; simp

-- the same about the named functions of the model
theorem toZMod_add' (a b : Fq p) : toZMod (add a b) = toZMod a + toZMod b := toZMod_add a b
theorem toZMod_mul' (a b : Fq p) : toZMod (mul a b) = toZMod a * toZMod b := toZMod_mul a b
theorem toZMod_sub' (a b : Fq p) : toZMod (sub a b) = toZMod a - toZMod b := toZMod_sub a b
theorem toZMod_neg' (a : Fq p) : toZMod (neg a) = -toZMod a := toZMod_neg a

/-! ### integer operands (`FQ op int`, `int op FQ`) -/

@[simp] theorem toZMod_addInt (a : Fq p) (k : ℤ) : toZMod (addInt a k) = toZMod a + (k : ZMod p) := by
  unfold addInt; rw [toZMod_ofInt]; simp [toZMod]
@[simp] theorem toZMod_mulInt (a : Fq p) (k : ℤ) : toZMod (mulInt a k) = toZMod a * (k : ZMod p) := by
  unfold mulInt; rw [toZMod_ofInt]; simp [toZMod]
@[simp] theorem toZMod_subInt (a : Fq p) (k : ℤ) : toZMod (subInt a k) = toZMod a - (k : ZMod p) := by
  unfold subInt; rw [toZMod_ofInt]; simp [toZMod]
@[simp] theorem toZMod_rsubInt (a : Fq p) (k : ℤ) : toZMod (rsubInt a k) = (k : ZMod p) - toZMod a := by
  unfold rsubInt; rw [toZMod_ofInt]; simp [toZMod]

/-! ### `**` : square-and-multiply computes the power -/

theorem toZMod_powAux : ∀ (f : ℕ) (o t : Fq p) (e : ℕ), e ≤ f →
    toZMod (powAux f o t e) = toZMod o * toZMod t ^ e := by
  intro f
  induction f with
  | zero =>
    intro o t e h
    have : e = 0 := by omega
    subst this
    simp [powAux]
  | succ f ih =>
    intro o t e h
    unfold powAux
    by_cases he : e = 0
    · subst he; simp
    · rw [if_neg he, ih _ _ _ (by omega)]
      have hsplit : e = 2 * (e / 2) + e % 2 := by omega
      by_cases hodd : e % 2 = 1
      · rw [if_pos hodd]
        conv_rhs => rw [hsplit, hodd, pow_add, pow_mul, pow_one]
        rw [toZMod_mul', toZMod_mul']
        ring
      · rw [if_neg hodd]
        have hev : e % 2 = 0 := by omega
        conv_rhs => rw [hsplit, hev, add_zero, pow_mul]
        rw [toZMod_mul']
        ring

/-- `FQ.__pow__` (after repair F1) computes the `e`-th power, for every `e : ℕ` -/
@[simp] theorem toZMod_pow (a : Fq p) (e : ℕ) : toZMod (a ^ e) = toZMod a ^ e := by
  show toZMod (powAux e (ofInt 1) a e) = _
  rw [toZMod_powAux _ _ _ _ (le_refl e)]
  simp

theorem toZMod_pow' (a : Fq p) (e : ℕ) : toZMod (pow a e) = toZMod a ^ e := toZMod_pow a e

/-! ### ring structure -/

instance instSMulNat : SMul ℕ (Fq p) := ⟨fun k a => mulInt a k⟩
instance instSMulInt : SMul ℤ (Fq p) := ⟨fun k a => mulInt a k⟩

theorem toZMod_nsmul (k : ℕ) (a : Fq p) : toZMod (k • a) = k • toZMod a := by
  show toZMod (mulInt a k) = _
  rw [toZMod_mulInt, nsmul_eq_mul, Int.cast_natCast, mul_comm]

theorem toZMod_zsmul (k : ℤ) (a : Fq p) : toZMod (k • a) = k • toZMod a := by
  show toZMod (mulInt a k) = _
  rw [toZMod_mulInt, zsmul_eq_mul, mul_comm]

/-- `Fq p` with the model's `+ * - 0 1 **` is a commutative ring (any modulus `p ≠ 0`) -/
instance instCommRing : CommRing (Fq p) :=
  toZMod_injective.commRing toZMod toZMod_zero toZMod_one toZMod_add toZMod_mul toZMod_neg
    toZMod_sub toZMod_nsmul toZMod_zsmul toZMod_pow toZMod_natCast toZMod_intCast

/-- the model of `FQ` is ring-isomorphic to `ZMod p` via `n ↦ n mod p` -/
def ringEquiv : Fq p ≃+* ZMod p where
  toFun := toZMod
  invFun := ofZMod
  left_inv := ofZMod_toZMod
  right_inv := toZMod_ofZMod
  map_mul' := toZMod_mul
  map_add' := toZMod_add

@[simp] theorem ringEquiv_apply (a : Fq p) : ringEquiv a = toZMod a := rfl
@[simp] theorem ringEquiv_symm_apply (z : ZMod p) : (ringEquiv (p := p)).symm z = ofZMod z := rfl

/-- left fold of the model's `mul` over `n` copies of `a` is multiplication by `a ** n` -/
theorem foldl_replicate (a acc : Fq p) (n : ℕ) :
    (List.replicate n a).foldl mul acc = mul acc (pow a n) := by
  induction n generalizing acc with
  | zero => exact (mul_one acc).symm
  | succ n ih =>
    rw [List.replicate_succ, List.foldl_cons, ih]
    show acc * a * a ^ n = acc * a ^ (n + 1)
    rw [pow_succ', mul_assoc]

end Fq

/-! ### field structure, `p` prime -/
namespace Fq
open FqSem
variable {p : ℕ} [Fact p.Prime]

@[simp] theorem toZMod_inv' (a : Fq p) : toZMod (inv a) = (toZMod a)⁻¹ := by
  unfold inv
  rw [toZMod_ofInt, primeFieldInv_spec Fact.out, Int.cast_natCast]; rfl

/-- `FQ.__truediv__` is division in `ZMod p` (with `x / 0 = 0`) -/
@[simp] theorem toZMod_div (a b : Fq p) : toZMod (a / b) = toZMod a / toZMod b := by
  show toZMod (ofInt _) = _
  rw [toZMod_ofInt, Int.cast_mul, primeFieldInv_spec Fact.out, Int.cast_natCast, Int.cast_natCast,
    div_eq_mul_inv]; rfl

theorem toZMod_div' (a b : Fq p) : toZMod (div a b) = toZMod a / toZMod b := toZMod_div a b

/-- `FQ / int` -/
@[simp] theorem toZMod_divInt (a : Fq p) (k : ℤ) : toZMod (divInt a k) = toZMod a / (k : ZMod p) := by
  unfold divInt
  rw [toZMod_ofInt, Int.cast_mul, primeFieldInv_spec Fact.out, Int.cast_natCast, div_eq_mul_inv]; rfl

/-- `int / FQ` -/
@[simp] theorem toZMod_rdivInt (a : Fq p) (k : ℤ) : toZMod (rdivInt a k) = (k : ZMod p) / toZMod a := by
  unfold rdivInt
  rw [toZMod_ofInt, Int.cast_mul, primeFieldInv_spec Fact.out, Int.cast_natCast, div_eq_mul_inv,
    mul_comm]; rfl

instance instInv : Inv (Fq p) := ⟨inv⟩

@[simp] theorem toZMod_inv (a : Fq p) : toZMod a⁻¹ = (toZMod a)⁻¹ := toZMod_inv' a

/-- for prime `p`, `Fq p` with the model's `/` and `inv` is a field -/
instance instField : Field (Fq p) :=
  { instCommRing with
    inv := inv
    div := div
    exists_pair_ne := ⟨0, 1, fun h => by
      have := congrArg toZMod h
      rw [toZMod_zero, toZMod_one] at this
      exact zero_ne_one this⟩
    mul_inv_cancel := fun a ha => by
      apply toZMod_injective
      rw [toZMod_mul, toZMod_inv', toZMod_one]
      exact mul_inv_cancel₀ (fun h => ha (toZMod_injective (h.trans toZMod_zero.symm)))
    inv_zero := by
      apply toZMod_injective
      rw [toZMod_inv', toZMod_zero, inv_zero]
    div_eq_mul_inv := fun a b => by
      apply toZMod_injective
      rw [toZMod_div, toZMod_mul, toZMod_inv', div_eq_mul_inv]
    nnqsmul := _
    nnqsmul_def := fun _ _ => rfl
    qsmul := _
    qsmul_def := fun _ _ => rfl }

/-- the ring isomorphism also commutes with inversion and division (automatic for field isomorphisms;
    stated for convenience) -/
theorem ringEquiv_inv (a : Fq p) : ringEquiv a⁻¹ = (ringEquiv a)⁻¹ := toZMod_inv a
theorem ringEquiv_div (a b : Fq p) : ringEquiv (a / b) = ringEquiv a / ringEquiv b := toZMod_div a b

end Fq
end PyEcc
