/-
  PyEcc.Sem.Primes — the six primes of py_ecc are prime, stated about the REGENERATED constants
  (`Gen.Consts.*` are dumped from the working tree on every run, so a changed modulus/order makes
  these theorems fail).  Proofs: Pratt certificates (`Sem/PrattCerts.lean`, checked by the kernel).
-/
import PyEcc.Sem.PrattCerts
import PyEcc.Gen.Consts
import PyEcc.Gen.Secp

namespace PyEcc
open Gen.Consts

theorem prime_blsP : Nat.Prime fields_bls12_381_field_modulus := Pratt.prime_4002409555221667393417789825735904156556882819939007885332058136124031650490837864442687629129015664037894272559787
theorem prime_blsR : Nat.Prime bls12_381_curve_order := Pratt.prime_52435875175126190479447740508185965837690552500527637822603658699938581184513
theorem prime_bnP : Nat.Prime fields_bn128_field_modulus := Pratt.prime_21888242871839275222246405745257275088696311157297823662689037894645226208583
theorem prime_bnR : Nat.Prime bn128_curve_order := Pratt.prime_21888242871839275222246405745257275088548364400416034343698204186575808495617
theorem prime_secpP : Nat.Prime secp256k1_P := Pratt.prime_115792089237316195423570985008687907853269984665640564039457584007908834671663
theorem prime_secpN : Nat.Prime secp256k1_N := Pratt.prime_115792089237316195423570985008687907852837564279074904382605163141518161494337

/-- every copy of a modulus / order in the library equals the proved-prime one -/
theorem moduli_consistent :
    bls12_381_field_modulus = fields_bls12_381_field_modulus ∧ optimized_bls12_381_field_modulus = fields_bls12_381_field_modulus ∧
    bn128_field_modulus = fields_bn128_field_modulus ∧ optimized_bn128_field_modulus = fields_bn128_field_modulus ∧
    optimized_bls12_381_curve_order = bls12_381_curve_order ∧ suites_curve_order = bls12_381_curve_order ∧
    optimized_bn128_curve_order = bn128_curve_order ∧
    Gen.Secp.P = (secp256k1_P : Int) ∧ Gen.Secp.N = (secp256k1_N : Int) := by decide

instance : Fact (Nat.Prime fields_bls12_381_field_modulus) := ⟨prime_blsP⟩
instance : Fact (Nat.Prime fields_bn128_field_modulus) := ⟨prime_bnP⟩
instance : Fact (Nat.Prime bls12_381_curve_order) := ⟨prime_blsR⟩
instance : Fact (Nat.Prime bn128_curve_order) := ⟨prime_bnR⟩
instance : Fact (Nat.Prime secp256k1_P) := ⟨prime_secpP⟩
instance : Fact (Nat.Prime secp256k1_N) := ⟨prime_secpN⟩

end PyEcc
