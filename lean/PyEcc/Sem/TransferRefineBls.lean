/-
  PyEcc.Sem.TransferRefineBls — the field-generic theorems about `Gen.OptBls` (refinement of Mathlib's
  elliptic-curve group, `Props/C07Opt_Bls.lean`) transported to ANY coordinate type `A` that maps into
  a field `K` by a `GoodHom Good φ` (`Lemmas/TransferBase.lean`): an operation-preserving map, injective
  on a predicate `Good` that is closed under the operations.
  (`Sem/TransferRefineBn.lean` is this file with `Bls ↦ Bn`.)

  `A` is NOT assumed to be a field (the intended instance is the executable model
  `A = Fqp v p mc` of `FQ2`, `K = AdjoinRoot (modulus p mc)`, `φ = toQ`, `Good = Canon`,
  `Sem/TransferFqp.lean`); all code-side terms below are the generated functions run on `A`.

  * `via_*_refines`: on good triples the generated functions compute Mathlib's group law on
    `(W b).Point` over `K`, through "`mapT φ T` represents `P`";
  * `via_*_eq`, `via_*_closed`: the commutative-group laws, up to the library's projective equality
    `eq`, for good on-curve triples — all evaluated on `A`.
-/
import PyEcc.Lemmas.TransferOptBls
import PyEcc.Props.C07Opt_Bls

set_option linter.unusedSectionVars false
set_option linter.unusedVariables false

namespace PyEcc.Transfer.Bls
open PyEcc PyEcc.Gen PyEcc.Transfer WeierstrassCurve

variable {A K : Type}
  [Zero A] [One A] [Add A] [Sub A] [Mul A] [Neg A] [Div A] [NatCast A] [Pow A Nat] [DecidableEq A]
  [Field K] [DecidableEq K] {Good : A → Prop} {φ : A → K} (h : GoodHom Good φ)
include h

/-! ### refinement of Mathlib's group law over `K` by the code run on `A` -/

section refine
variable {b : K} {T T₁ T₂ : A × A × A} {P Q : (W b).Point}

/-- `add` run on good `A`-triples computes Mathlib's point addition over `K` -/
theorem via_add_refines (h2 : (2 : K) ≠ 0) (g₁ : GoodT Good T₁) (g₂ : GoodT Good T₂)
    (r₁ : Represents (mapT φ T₁) P) (r₂ : Represents (mapT φ T₂) Q) :
    Represents (mapT φ (OptBls.add T₁ T₂)) (P + Q) := by
  rw [(good_add h g₁ g₂).2]; exact C07Opt.Bls.opt_add_refines h2 r₁ r₂

/-- `double` run on a good `A`-triple computes `P + P` -/
theorem via_double_refines (h2 : (2 : K) ≠ 0) (g : GoodT Good T) (r : Represents (mapT φ T) P) :
    Represents (mapT φ (OptBls.double T)) (P + P) := by
  rw [(good_double h g).2]; exact C07Opt.Bls.opt_double_refines h2 r

/-- `neg` run on a good `A`-triple computes `-P` -/
theorem via_neg_refines (g : GoodT Good T) (r : Represents (mapT φ T) P) :
    Represents (mapT φ (OptBls.neg T)) (-P) := by
  rw [(good_neg h g).2]; exact C07Opt.Bls.opt_neg_refines r

/-- `multiply(T, n)` run on a good `A`-triple computes `n • P`, for every `n` -/
theorem via_multiply_refines (h2 : (2 : K) ≠ 0) (g : GoodT Good T) (r : Represents (mapT φ T) P)
    (n : ℕ) : Represents (mapT φ (OptBls.multiply T n)) (n • P) := by
  rw [(good_multiply h g n).2]; exact C07Opt.Bls.opt_multiply_refines h2 r n

/-- `eq` run on good `A`-triples decides equality of the represented points -/
theorem via_eq_refines (g₁ : GoodT Good T₁) (g₂ : GoodT Good T₂)
    (r₁ : Represents (mapT φ T₁) P) (r₂ : Represents (mapT φ T₂) Q) :
    OptBls.eq T₁ T₂ = true ↔ P = Q := by
  rw [← good_eq h g₁ g₂]; exact C07Opt.Bls.opt_eq_refines r₁ r₂

/-- `is_inf` run on a good `A`-triple decides `P = 0` -/
theorem via_is_inf_refines (g : GoodT Good T) (r : Represents (mapT φ T) P) :
    OptBls.is_inf T = true ↔ P = 0 := by
  rw [← good_is_inf h g]; exact C07Opt.Bls.opt_is_inf_refines r

/-- a good triple whose image represents a point passes `is_on_curve` on `A` -/
theorem via_on_curve_of_represents {b : A} {P : (W (φ b)).Point} (gb : Good b) (g : GoodT Good T)
    (r : Represents (mapT φ T) P) : OptBls.is_on_curve T b = true := by
  rw [← good_is_on_curve h g gb]; exact C07Opt.Bls.opt_on_curve_of_represents r

end refine

/-- `is_on_curve(T, b)` run on a good `A`-triple accepts exactly the triples whose image represents
    a Mathlib point of `y² = x³ + φ b` over `K` -/
theorem via_on_curve_iff (h2 : (2 : K) ≠ 0) (h3 : (3 : K) ≠ 0) {b : A} (gb : Good b) (hb : φ b ≠ 0)
    {T : A × A × A} (g : GoodT Good T) :
    OptBls.is_on_curve T b = true ↔ ∃ P : (W (φ b)).Point, Represents (mapT φ T) P := by
  rw [← good_is_on_curve h g gb]; exact C07Opt.Bls.opt_on_curve_represents h2 h3 hb _

/-! ### the group laws for the code run on `A` (good on-curve triples), up to the library's `eq` -/

section laws
variable (h2 : (2 : K) ≠ 0) (h3 : (3 : K) ≠ 0) {b : A} (gb : Good b) (hb : φ b ≠ 0)
  {X Y Z : A × A × A}
include h2 h3 gb hb

private theorem oc (g : GoodT Good X) (hX : OptBls.is_on_curve X b = true) :
    OptBls.is_on_curve (mapT φ X) (φ b) = true := by rw [good_is_on_curve h g gb]; exact hX

/-- commutativity up to `eq` -/
theorem via_add_comm_eq (gX : GoodT Good X) (gY : GoodT Good Y)
    (hX : OptBls.is_on_curve X b = true) (hY : OptBls.is_on_curve Y b = true) :
    OptBls.eq (OptBls.add X Y) (OptBls.add Y X) = true := by
  rw [← good_eq h (good_add h gX gY).1 (good_add h gY gX).1, (good_add h gX gY).2,
    (good_add h gY gX).2]
  exact C07Opt.Bls.opt_add_comm_eq h2 h3 hb (oc h h2 h3 gb hb gX hX) (oc h h2 h3 gb hb gY hY)

/-- associativity up to `eq` -/
theorem via_add_assoc_eq (gX : GoodT Good X) (gY : GoodT Good Y) (gZ : GoodT Good Z)
    (hX : OptBls.is_on_curve X b = true) (hY : OptBls.is_on_curve Y b = true)
    (hZ : OptBls.is_on_curve Z b = true) :
    OptBls.eq (OptBls.add (OptBls.add X Y) Z) (OptBls.add X (OptBls.add Y Z)) = true := by
  have gXY := good_add h gX gY
  have gYZ := good_add h gY gZ
  rw [← good_eq h (good_add h gXY.1 gZ).1 (good_add h gX gYZ.1).1, (good_add h gXY.1 gZ).2,
    (good_add h gX gYZ.1).2, gXY.2, gYZ.2]
  exact C07Opt.Bls.opt_add_assoc_eq h2 h3 hb (oc h h2 h3 gb hb gX hX) (oc h h2 h3 gb hb gY hY)
    (oc h h2 h3 gb hb gZ hZ)

/-- closure: `add` of good on-curve triples is (good and) on the curve -/
theorem via_add_closed (gX : GoodT Good X) (gY : GoodT Good Y)
    (hX : OptBls.is_on_curve X b = true) (hY : OptBls.is_on_curve Y b = true) :
    OptBls.is_on_curve (OptBls.add X Y) b = true := by
  rw [← good_is_on_curve h (good_add h gX gY).1 gb, (good_add h gX gY).2]
  exact C07Opt.Bls.opt_add_closed h2 h3 hb (oc h h2 h3 gb hb gX hX) (oc h h2 h3 gb hb gY hY)

/-- closure: `double` -/
theorem via_double_closed (gX : GoodT Good X) (hX : OptBls.is_on_curve X b = true) :
    OptBls.is_on_curve (OptBls.double X) b = true := by
  rw [← good_is_on_curve h (good_double h gX).1 gb, (good_double h gX).2]
  exact C07Opt.Bls.opt_double_closed h2 h3 hb (oc h h2 h3 gb hb gX hX)

/-- closure: `neg` -/
theorem via_neg_closed (gX : GoodT Good X) (hX : OptBls.is_on_curve X b = true) :
    OptBls.is_on_curve (OptBls.neg X) b = true := by
  rw [← good_is_on_curve h (good_neg h gX).1 gb, (good_neg h gX).2]
  exact C07Opt.Bls.opt_neg_closed h2 h3 hb (oc h h2 h3 gb hb gX hX)

/-- closure: `multiply(X, n)`, every `n` -/
theorem via_multiply_closed (gX : GoodT Good X) (hX : OptBls.is_on_curve X b = true) (n : ℕ) :
    OptBls.is_on_curve (OptBls.multiply X n) b = true := by
  rw [← good_is_on_curve h (good_multiply h gX n).1 gb, (good_multiply h gX n).2]
  exact C07Opt.Bls.opt_multiply_closed h2 h3 hb (oc h h2 h3 gb hb gX hX) n

/-- `multiply(X, m + n)` equals `add(multiply(X, m), multiply(X, n))` up to `eq` -/
theorem via_multiply_add_eq (gX : GoodT Good X) (hX : OptBls.is_on_curve X b = true) (m n : ℕ) :
    OptBls.eq (OptBls.multiply X (m + n))
      (OptBls.add (OptBls.multiply X m) (OptBls.multiply X n)) = true := by
  have gm := good_multiply h gX m
  have gn := good_multiply h gX n
  rw [← good_eq h (good_multiply h gX (m + n)).1 (good_add h gm.1 gn.1).1,
    (good_multiply h gX (m + n)).2, (good_add h gm.1 gn.1).2, gm.2, gn.2]
  exact C07Opt.Bls.opt_multiply_add_eq h2 h3 hb (oc h h2 h3 gb hb gX hX) m n

/-- `multiply(multiply(X, m), n)` equals `multiply(X, m * n)` up to `eq` -/
theorem via_multiply_mul_eq (gX : GoodT Good X) (hX : OptBls.is_on_curve X b = true) (m n : ℕ) :
    OptBls.eq (OptBls.multiply (OptBls.multiply X m) n) (OptBls.multiply X (m * n)) = true := by
  have gm := good_multiply h gX m
  rw [← good_eq h (good_multiply h gm.1 n).1 (good_multiply h gX (m * n)).1,
    (good_multiply h gm.1 n).2, gm.2, (good_multiply h gX (m * n)).2]
  exact C07Opt.Bls.opt_multiply_mul_eq h2 h3 hb (oc h h2 h3 gb hb gX hX) m n

/-- scalars act modulo any `r` with `multiply(X, r) = ∞`, up to `eq` -/
theorem via_multiply_mod_eq (gX : GoodT Good X) (hX : OptBls.is_on_curve X b = true) (r : ℕ)
    (hr : OptBls.is_inf (OptBls.multiply X r) = true) (n : ℕ) :
    OptBls.eq (OptBls.multiply X n) (OptBls.multiply X (n % r)) = true := by
  rw [← good_eq h (good_multiply h gX n).1 (good_multiply h gX (n % r)).1,
    (good_multiply h gX n).2, (good_multiply h gX (n % r)).2]
  refine C07Opt.Bls.opt_multiply_mod_eq h2 h3 hb (oc h h2 h3 gb hb gX hX) r ?_ n
  rw [← (good_multiply h gX r).2, good_is_inf h (good_multiply h gX r).1]; exact hr

/-- `multiply(neg(X), n)` equals `neg(multiply(X, n))` up to `eq` -/
theorem via_multiply_neg_eq (gX : GoodT Good X) (hX : OptBls.is_on_curve X b = true) (n : ℕ) :
    OptBls.eq (OptBls.multiply (OptBls.neg X) n) (OptBls.neg (OptBls.multiply X n)) = true := by
  have gn := good_neg h gX
  have gm := good_multiply h gX n
  rw [← good_eq h (good_multiply h gn.1 n).1 (good_neg h gm.1).1, (good_multiply h gn.1 n).2, gn.2,
    (good_neg h gm.1).2, gm.2]
  exact (C13.Bls.opt_eq_iff _ _).mpr
    (C07Opt.Bls.opt_multiply_neg h2 h3 hb (oc h h2 h3 gb hb gX hX) n)

end laws

/-! laws that need no curve membership -/

/-- identity up to `eq`: adding any good triple with `z = 0` on either side -/
theorem via_add_zero_eq {X Z : A × A × A} (gX : GoodT Good X) (gZ : GoodT Good Z)
    (hZ : Z.2.2 = 0) :
    OptBls.eq (OptBls.add X Z) X = true ∧ OptBls.eq (OptBls.add Z X) X = true := by
  have hZ' : (mapT φ Z).2.2 = 0 := by rw [mapT_snd_snd, hZ, h.map_zero]
  have k := C07Opt.Bls.opt_add_zero_eq (mapT φ X) (mapT φ Z) hZ'
  rw [← (good_add h gX gZ).2, ← (good_add h gZ gX).2, good_eq h (good_add h gX gZ).1 gX,
    good_eq h (good_add h gZ gX).1 gX] at k
  exact k

/-- inverse: `add(X, neg(X))` and `add(neg(X), X)` are ∞ (`z = 0`) for every good triple -/
theorem via_add_neg (h2 : (2 : K) ≠ 0) {X : A × A × A} (gX : GoodT Good X) :
    OptBls.is_inf (OptBls.add X (OptBls.neg X)) = true
      ∧ OptBls.is_inf (OptBls.add (OptBls.neg X) X) = true := by
  have gn := good_neg h gX
  have k := C07Opt.Bls.opt_add_neg h2 (mapT φ X)
  rw [← gn.2, ← (good_add h gX gn.1).2, ← (good_add h gn.1 gX).2,
    good_is_inf h (good_add h gX gn.1).1, good_is_inf h (good_add h gn.1 gX).1] at k
  exact k

/-- `add(X, X)` equals `double(X)` up to `eq` (good triples) -/
theorem via_add_self_eq {X : A × A × A} (gX : GoodT Good X) :
    OptBls.eq (OptBls.add X X) (OptBls.double X) = true := by
  rw [← good_eq h (good_add h gX gX).1 (good_double h gX).1, (good_add h gX gX).2,
    (good_double h gX).2]
  exact C07Opt.Bls.opt_add_self_eq _

/-- `add` respects `eq` (good triples, on the curve or not) -/
theorem via_add_congr (h2 : (2 : K) ≠ 0) {X X' Y Y' : A × A × A} (gX : GoodT Good X)
    (gX' : GoodT Good X') (gY : GoodT Good Y) (gY' : GoodT Good Y')
    (eX : OptBls.eq X X' = true) (eY : OptBls.eq Y Y' = true) :
    OptBls.eq (OptBls.add X Y) (OptBls.add X' Y') = true := by
  rw [← good_eq h (good_add h gX gY).1 (good_add h gX' gY').1, (good_add h gX gY).2,
    (good_add h gX' gY').2]
  refine C07Opt.Bls.opt_add_congr h2 ?_ ?_
  · rw [good_eq h gX gX']; exact eX
  · rw [good_eq h gY gY']; exact eY

/-- the library's projective equality `eq` is reflexive, symmetric and transitive on good triples
    (on the curve or not; with repair F4 of `eq`, any two `z = 0` triples are equal) -/
theorem via_eq_equiv {X Y Z : A × A × A} (gX : GoodT Good X) (gY : GoodT Good Y)
    (gZ : GoodT Good Z) :
    OptBls.eq X X = true ∧ (OptBls.eq X Y = true → OptBls.eq Y X = true)
      ∧ (OptBls.eq X Y = true → OptBls.eq Y Z = true → OptBls.eq X Z = true) := by
  rw [← good_eq h gX gX, ← good_eq h gX gY, ← good_eq h gY gX, ← good_eq h gY gZ,
    ← good_eq h gX gZ]
  simp only [C13.Bls.opt_eq_iff]
  exact ⟨trivial, Eq.symm, Eq.trans⟩

/-- `multiply` respects `eq` in its point argument (good triples) -/
theorem via_multiply_congr (h2 : (2 : K) ≠ 0) {X X' : A × A × A} (gX : GoodT Good X)
    (gX' : GoodT Good X') (eX : OptBls.eq X X' = true) (n : ℕ) :
    OptBls.eq (OptBls.multiply X n) (OptBls.multiply X' n) = true := by
  rw [← good_eq h (good_multiply h gX n).1 (good_multiply h gX' n).1, (good_multiply h gX n).2,
    (good_multiply h gX' n).2]
  refine C07Opt.Bls.opt_multiply_congr h2 ?_ n
  rw [good_eq h gX gX']; exact eX

end PyEcc.Transfer.Bls
