-- Root of the `PyEcc` library: executable model (Mathlib-free), generated code, semantic layer, property theorems.
import PyEcc.Model.Basic
import PyEcc.Model.Fq
import PyEcc.Model.Fqp
import PyEcc.Gen.Consts
import PyEcc.Gen.OptBls
import PyEcc.Gen.OptBn
import PyEcc.Gen.RefBls
import PyEcc.Gen.RefBn
import PyEcc.Gen.Secp
import PyEcc.Model.Hash
import PyEcc.Model.Curve
import PyEcc.Model.Pairing
import PyEcc.Model.Swu
import PyEcc.Model.Codec
import PyEcc.Model.Bls
import PyEcc.Model.Ecdsa
