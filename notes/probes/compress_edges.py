import random
from py_ecc.optimized_bls12_381 import FQ, FQ2, b, b2, field_modulus as p, is_on_curve, normalize, multiply, add, G1, G2, Z1, Z2, curve_order as r, eq
from py_ecc.bls.point_compression import compress_G1, decompress_G1, compress_G2, decompress_G2
random.seed(9)
q2 = p*p-1
s=0; t=q2
while t%3==0: t//=3; s+=1
def cuberoot_fq2(a):
    # returns a cube root or None
    if a**(q2//3) != FQ2.one(): return None
    inv3 = pow(3,-1,t); c = a**inv3
    while True:
        nr = FQ2([random.randrange(p),random.randrange(p)]); g = nr**t
        if g**(3**(s-1)) != FQ2.one(): break
    gj = FQ2.one()
    for j in range(3**s):
        cand=c*gj
        if cand*cand*cand==a: return cand
        gj=gj*g
    return None
def rt(pt):
    z = compress_G2(pt); d = decompress_G2(z)
    return normalize(d)==normalize(pt) and compress_G2(d)==z
found=0; okc=0
# y with zero imaginary part / zero real part
for kind in ('im0','re0'):
    n=0
    while n<6:
        c = random.randrange(1,p)
        y = FQ2([c,0]) if kind=='im0' else FQ2([0,c])
        x = cuberoot_fq2(y*y - b2)
        if x is None: continue
        pt=(x,y,FQ2.one()); assert is_on_curve(pt,b2)
        for P in (pt,(x,-y,FQ2.one())):
            lam=FQ2([random.randrange(1,p),random.randrange(p)])
            P2=tuple(cc*lam for cc in P)
            ok=rt(P2); okc+=ok; found+=1
            if not ok: print('G2 roundtrip FAIL',kind,P)
        n+=1
print('G2 special y round trips', okc,'/',found)
# y near (p-1)/2 for G1: search x with y in window impossible; instead check both signs for random points incl non-subgroup
okc=0;tot=0
for _ in range(300):
    x=FQ(random.randrange(p)); a=x**3+b; y=a**((p+1)//4)
    if y*y!=a: continue
    for yy in (y,-y):
        lam=FQ(random.randrange(1,p)); P=(x*lam,yy*lam,lam)
        z=compress_G1(P); d=decompress_G1(z); tot+=1
        okc += (normalize(d)==normalize(P) and compress_G1(d)==z and z<2**384)
print('G1 random curve points round trips',okc,'/',tot)
# canonicity over flag/x table for G1 words
def on_x(x): a=(x**3+4)%p; return pow(a,(p-1)//2,p)==1
gx=[x for x in range(1,50) if on_x(x)][:2]; bx=[x for x in range(1,50) if not on_x(x)][:2]
xs=[0,1,p-1,p,p+1,2**381-1]+gx+bx
acc=0;rej=0;noncanon=0;other=0
for flags in range(8):
    for x in xs:
        z=(flags<<381)|x
        try:
            P=decompress_G1(z); acc+=1
            if not is_on_curve(P,b) or compress_G1(P)!=z: noncanon+=1; print('NONCANON',flags,x)
        except ValueError: rej+=1
        except Exception as e: other+=1; print('OTHER',type(e).__name__,flags,x)
print('G1 words acc',acc,'rej',rej,'noncanonical',noncanon,'other-exc',other)
# G2 words
gx2=[]; bx2=[]
while len(gx2)<2 or len(bx2)<2:
    x=FQ2([random.randrange(p),random.randrange(p)])
    from py_ecc.bls.point_compression import modular_squareroot_in_FQ2
    (gx2 if modular_squareroot_in_FQ2(x**3+b2) is not None else bx2).append(x)
acc=rej=noncanon=other=0
w2s=[0,1,p-1,p,2**381,2**383]
for flags in range(8):
    for x1 in [0,1,p-1,p,2**381-1]+[int(x.coeffs[1]) for x in gx2[:2]+bx2[:2]]:
        for x0 in w2s+[int(x.coeffs[0]) for x in gx2[:2]+bx2[:2]]:
            z=((flags<<381)|x1, x0)
            try:
                P=decompress_G2(z); acc+=1
                if not is_on_curve(P,b2) or compress_G2(P)!=z: noncanon+=1; print('NONCANON G2',flags,x1,x0)
            except ValueError: rej+=1
            except Exception as e: other+=1; print('OTHER',type(e).__name__,flags)
print('G2 words acc',acc,'rej',rej,'noncanonical',noncanon,'other-exc',other)
