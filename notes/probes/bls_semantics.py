import os, random, itertools, hashlib
from multiprocessing import Pool
from py_ecc.bls import G2Basic as B, G2MessageAugmentation as A, G2ProofOfPossession as P
from py_ecc.optimized_bls12_381 import FQ, FQ2, b, b2, field_modulus as p, multiply, curve_order as r, G1, G2, add, neg, Z2, is_inf, normalize, eq
from py_ecc.bls.g2_primitives import G1_to_pubkey, G2_to_signature, signature_to_G2, pubkey_to_G1, subgroup_check
from py_ecc.bls.hash_to_curve import hash_to_G2
from py_ecc.bls.point_compression import modular_squareroot_in_FQ2
random.seed(21)
def rand_g2pt():
    while True:
        x=FQ2([random.randrange(p),random.randrange(p)]); y=modular_squareroot_in_FQ2(x**3+b2)
        if y is not None: return (x,y,FQ2.one())
def job_c02(args):
    suite_i, sk, m = args
    S=[B,A,P][suite_i]; out=[]
    pk=S.SkToPk(sk); sig=S.Sign(sk,m); Spt=signature_to_G2(sig)
    H = hash_to_G2((pk+m) if S is A else m, S.DST, hashlib.sha256)
    cands={'canon':sig,'neg':G2_to_signature(neg(Spt)),'dbl':G2_to_signature(add(Spt,Spt)),'inf':G2_to_signature(Z2),
           'sk+1':G2_to_signature(multiply(H,(sk+1)%r)) if (sk+1)%r else None,'sk-1':G2_to_signature(multiply(H,(sk-1)%r)) if (sk-1)%r else None,
           'othermsg':S.Sign(sk,m+b'x'),'otherkey':S.Sign(sk+7 if sk+7<r else sk-7,m)}
    T=multiply(rand_g2pt(), r)
    cands['S+T']=G2_to_signature(add(Spt,T))
    for (i,bit) in [(0,5),(0,6),(0,7),(47,0),(48,0),(95,0),(random.randrange(96),random.randrange(8))]:
        bb=bytearray(sig); bb[i]^=(1<<bit); cands[f'flip{i}.{bit}']=bytes(bb)
    others=[X for X in (B,A,P) if X is not S]
    cands['xsuite0']=others[0].Sign(sk,m); cands['xsuite1']=others[1].Sign(sk,m)
    cands['pop-as-sig']=P.PopProve(sk)
    for k,c in cands.items():
        if c is None: continue
        v=S.Verify(pk,m,c)
        if v != (c==sig): out.append(('C02',S.__name__,sk,m,k,v))
    if S is P:
        pr=P.PopProve(sk)
        if not P.PopVerify(pk,pr): out.append(('pop',sk))
        if P.PopVerify(pk,sig) : out.append(('sig-as-pop',sk))
    return out
def job_c03(args):
    suite_i, n, seed = args
    rnd=random.Random(seed); S=[B,A,P][suite_i]; out=[]
    sks=[rnd.randrange(1,r) for _ in range(n)]
    if n>=3 and suite_i!=0 and rnd.random()<0.5: sks[1]=sks[0]
    msgs=[bytes([i])+os.urandom(rnd.randrange(0,40)) for i in range(n)]
    if S is P and n>=2 and rnd.random()<0.5: msgs[1]=msgs[0]
    pks=[S.SkToPk(s) for s in sks]; sigs=[S.Sign(s,m) for s,m in zip(sks,msgs)]
    agg=S.Aggregate(sigs)
    perm=sigs[:]; rnd.shuffle(perm)
    if S.Aggregate(perm)!=agg: out.append(('perm',))
    if n>=2 and S.Aggregate([S.Aggregate(sigs[:1]),S.Aggregate(sigs[1:])])!=agg: out.append(('group',))
    if not S.AggregateVerify(pks,msgs,agg): out.append(('aggverify-honest',S.__name__,n))
    # perturbations must fail
    if n>=2:
        if S.AggregateVerify(pks[:-1],msgs[:-1],agg) and not is_inf(signature_to_G2(sigs[-1])): out.append(('drop',))
        if S.AggregateVerify(pks,msgs,S.Aggregate(sigs+[sigs[0]])): out.append(('dup-sig',))
        m2=msgs[:]; m2[0]=m2[0]+b'!'
        if S.AggregateVerify(pks,m2,agg): out.append(('subst-msg',))
        p2=pks[:]; p2[0]=S.SkToPk((sks[0]%(r-2))+1 if (sks[0]%(r-2))+1!=sks[0] else 5)
        if S.AggregateVerify(p2,msgs,agg): out.append(('subst-key',))
    if S.AggregateVerify(pks,msgs[:-1],agg): out.append(('len-mismatch',))
    if S is B and n>=2:
        if S.AggregateVerify(pks,[msgs[0]]*n,S.Aggregate([S.Sign(s,msgs[0]) for s in sks])): out.append(('basic-dup-msgs-accepted',))
    if S is P:
        m=msgs[0]; ss=[P.Sign(s,m) for s in sks]; ag=P.Aggregate(ss)
        if not P.FastAggregateVerify(pks,m,ag): out.append(('FAV honest',n))
        if n>=2 and P.FastAggregateVerify(pks[:-1],m,ag): out.append(('FAV drop',))
    return out
if __name__=='__main__':
    jobs=[(si,sk,m) for si in range(3) for sk,m in [(1,b''),(r-1,b'\x00'*64),(random.randrange(1,r),os.urandom(55)),(random.randrange(1,r),os.urandom(200))]]
    with Pool(16) as pool:
        res=pool.map(job_c02,jobs)
        print('C02 anomalies', [x for y in res for x in y])
        jobs3=[(si,n,1000*si+n) for si in range(3) for n in (1,2,3,5)]
        res=pool.map(job_c03,jobs3)
        print('C03 anomalies', [x for y in res for x in y])
    try: B.Aggregate([]); print('empty agg accepted')
    except Exception as e: print('Aggregate([]) ->',type(e).__name__)
    try: B.Aggregate([b'\x00'*95]); print('short accepted')
    except Exception as e: print('Aggregate(short) ->',type(e).__name__)
