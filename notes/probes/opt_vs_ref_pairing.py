# simulate fix F1 (iterative pow) by monkeypatching, then compare reference and optimized pairings
import time
from py_ecc.fields import field_elements as fe, optimized_field_elements as ofe
def fq_pow(self, other):
    o = type(self)(1); t = self
    while other > 0:
        if other & 1: o = o * t
        other >>= 1; t = t * t
    return o
def fqp_pow(self, other):
    o = type(self)([1] + [0] * (self.degree - 1)); t = self
    while other > 0:
        if other & 1: o = o * t
        other >>= 1; t = t * t
    return o
fe.FQ.__pow__ = fq_pow; fe.FQP.__pow__ = fqp_pow; ofe.FQ.__pow__ = fq_pow
from py_ecc import bn128, optimized_bn128 as obn, bls12_381 as bls, optimized_bls12_381 as obls
import random
random.seed(3)
def cmp(ref, opt, name):
    for a, b in [(1,1),(2,3),(random.randrange(ref.curve_order), random.randrange(ref.curve_order))]:
        t=time.time()
        Pr = ref.multiply(ref.G1, a); Qr = ref.multiply(ref.G2, b)
        Po = opt.multiply(opt.G1, a); Qo = opt.multiply(opt.G2, b)
        # random projective scaling of optimized inputs
        lam = opt.FQ(random.randrange(1, opt.field_modulus)); mu = opt.FQ2([random.randrange(1,opt.field_modulus), random.randrange(opt.field_modulus)])
        Po = tuple(c*lam for c in Po); Qo = tuple(c*mu for c in Qo)
        er = ref.pairing(Qr, Pr); eo = opt.pairing(Qo, Po)
        same = [int(c) for c in er.coeffs] == [int(c) for c in eo.coeffs]
        print(name, 'a,b bits', a.bit_length(), b.bit_length(), 'equal:', same, 'ref order r:', (er**ref.curve_order)==type(er).one(), '%.1fs'%(time.time()-t))
cmp(bls, obls, 'bls12_381')
cmp(bn128, obn, 'bn128')
# fast final exponentiation vs plain
from py_ecc.optimized_bls12_381.optimized_pairing import final_exponentiate, exp_by_p
F=obls.FQ12; p=obls.field_modulus
x=F([random.randrange(p) for _ in range(12)])
print('exp_by_p == **p', exp_by_p(x)==x**p, 'final_exp == plain', final_exponentiate(x)==x**((p**12-1)//obls.curve_order))
print('final_exp(0)', final_exponentiate(F.zero())==F.zero())
