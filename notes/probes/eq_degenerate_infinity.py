from py_ecc import optimized_bls12_381 as o, optimized_bn128 as ob
for m in (o, ob):
    Z4 = m.multiply(m.Z1, 4)
    print(m.__name__, 'multiply(Z1,4) =', Z4, 'is_inf', m.is_inf(Z4))
    print('  eq(multiply(Z1,4), G1) =', m.eq(Z4, m.G1), ' eq(G1, multiply(Z1,4)) =', m.eq(m.G1, Z4))
    print('  eq(Z1, G1) =', m.eq(m.Z1, m.G1))
    d = m.double(m.double(m.Z1)); print('  double(double(Z1)) =', d)
    # does it arise from non-infinity inputs?  r*G1 then doubled
    rG = m.multiply(m.G1, m.curve_order); print('  r*G1 =', tuple(int(c) for c in rG)[:3] if hasattr(rG[0],'n') else rG, 'is_inf', m.is_inf(rG))
    rG2 = m.double(rG); rG4 = m.double(rG2)
    print('  double(double(r*G1)) z,y,x zero?', [int(c)==0 for c in rG4])
    print('  eq(double(double(r*G1)), G1) =', m.eq(rG4, m.G1))
    print('  add(deg, G1) == G1 ?', m.eq(m.add(rG4, m.G1), m.G1), ' is_on_curve(deg) ', m.is_on_curve(rG4, m.b))
