import sympy, time, sys, json
from sympy import factorint, isprime, primitive_root
sys.setrecursionlimit(10000)
nums = {
 'bn_p': 21888242871839275222246405745257275088696311157297823662689037894645226208583,
 'bn_r': 21888242871839275222246405745257275088548364400416034343698204186575808495617,
 'bls_r': 52435875175126190479447740508185965837690552500527637822603658699938581184513,
 'secp_P': 2**256 - 2**32 - 977,
 'secp_N': 115792089237316195423570985008687907852837564279074904382605163141518161494337,
 'bls_p': 4002409555221667393417789825735904156556882819939007885332058136124031650490837864442687629129015664037894272559787,
}
cert = {}
def pratt(p, depth=0):
    if p in cert or p < 1000: return
    t=time.time()
    f = factorint(p-1)
    dt=time.time()-t
    # find witness
    a = 2
    while True:
        if pow(a, p-1, p)==1 and all(pow(a,(p-1)//q,p)!=1 for q in f): break
        a += 1
    cert[p] = (a, {str(q):e for q,e in f.items()})
    print('  '*depth, p.bit_length(), 'bits, witness', a, 'factor time %.1f'%dt, [q.bit_length() for q in f]); sys.stdout.flush()
    for q in f: pratt(q, depth+1)
for k,n in nums.items():
    print(k); pratt(n)
json.dump({str(k):v for k,v in cert.items()}, open('/tmp/pratt/cert.json','w'))
print('total primes', len(cert))
