import sys
import py_ecc
print(sys.getrecursionlimit())
from py_ecc.fields import bls12_381_FQ2 as FQ2, bls12_381_FQ as FQ, bn128_FQ12, bls12_381_FQ12, optimized_bls12_381_FQ as OFQ
p = FQ.field_modulus
for bits in [100, 200, 254, 300, 381, 500, 762, 1000, 2000, 4000, 4572]:
    for cls,mk in [(FQ, lambda: FQ(5)), (OFQ, lambda: OFQ(5)), (FQ2, lambda: FQ2([1,2])), (bls12_381_FQ12, lambda: bls12_381_FQ12(list(range(1,13))))]:
        try:
            x = mk() ** ((1<<bits) - 1)
            r='ok'
        except RecursionError as e:
            r='RecursionError'
        print(bits, cls.__name__, r)
