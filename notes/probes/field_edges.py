from py_ecc.fields import optimized_bls12_381_FQ2 as OFQ2, optimized_bls12_381_FQ as OFQ, bls12_381_FQ2 as RFQ2, bls12_381_FQ as RFQ, optimized_bls12_381_FQ12 as OFQ12, bls12_381_FQ12 as RFQ12
p = OFQ.field_modulus
a = OFQ2([OFQ(3), -1]); b = OFQ2([3, p-1])
print('mixed ctor eq:', a == b, a.coeffs[1], (a+OFQ2([0,0])) == b)
# int operands
x = OFQ2([5,7])
print('opt FQ2 * negative int', (x * -3).coeffs == (x * (p-3)).coeffs)
print('opt FQ2 / int big', (x / (p+2)) == (x / 2))
try: print('opt FQ2 * FQ', x * OFQ(3))
except Exception as e: print('opt FQ2*FQ raises', repr(e))
try: print('ref FQ2 * FQ', RFQ2([5,7]) * RFQ(3))
except Exception as e: print('ref FQ2*FQ raises', repr(e))
try: print('opt FQ2 + int', x + 1)
except Exception as e: print('opt FQ2+int raises', type(e).__name__)
try: print('ref FQ2 / FQ', RFQ2([5,7]) / RFQ(3))
except Exception as e: print('ref FQ2/FQ raises', repr(e))
try: print('opt FQ2 / FQ', x / OFQ(3))
except Exception as e: print('opt FQ2/FQ raises', repr(e))
# FQ eq with unreduced int
print('FQ(5)==5+p', OFQ(5) == 5+p, 'FQ(5)+(5+p)', OFQ(5)+(5+p), 'FQ(5)<3', OFQ(5) < 3)
print('FQ pow neg?')
try: print(OFQ(5) ** -1)
except RecursionError as e: print('FQ ** -1 RecursionError')
except Exception as e: print(repr(e))
# FQ / 0
print('FQ/0', OFQ(5)/0, OFQ(5)/p, 'FQ2/zero', x / OFQ2([0,0]), 'ref', RFQ2([5,7]) / RFQ2([0,0]))
print('inv zero', OFQ2([0,0]).inv(), RFQ2([0,0]).inv())
# reference FQP with int division path 
print(RFQ2([5,7]) / 3 == RFQ2([5,7]) * RFQ2([3,0]).inv())
# FQ12 inverse sparse
import random
random.seed(1)
for _ in range(3):
    c = [random.randrange(p) if random.random()<0.3 else 0 for _ in range(12)]
    if not any(c): continue
    o = OFQ12(c); r = RFQ12(c)
    print((o*o.inv()) == OFQ12.one(), (r*r.inv()) == RFQ12.one(), [int(t) for t in o.inv().coeffs]==[int(t) for t in r.inv().coeffs])
