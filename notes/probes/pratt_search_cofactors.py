import sympy, time, sys, json
from sympy import factorint, isprime
sys.setrecursionlimit(10000)
sys.path.insert(0,'/verif/tools/harness')
import oracle as O
h2=O.H2
Q=h2
for s in [13,13,23,23,2713,11953,262069]: Q//=s
nums = {'h2_big': Q, 'bn_c_big': 197620364512881247228717050342013327560683201906968909,
        'p1': 52437899, 'p2': 859267, 'p3': 10177, 'p4': 262069, 'p5': 11953, 'p6': 2713, 'c1': 10069, 'c2': 5864401, 'c3': 1875725156269}
cert = json.load(open('/verif/data/pratt_cert.json'))
cert = {int(k): v for k, v in cert.items()}
def pratt(p, depth=0):
    if p in cert or p < 1000: return
    t=time.time()
    f = factorint(p-1)
    dt=time.time()-t
    a = 2
    while True:
        if pow(a, p-1, p)==1 and all(pow(a,(p-1)//q,p)!=1 for q in f): break
        a += 1
    cert[p] = (a, {str(q):e for q,e in f.items()})
    print('  '*depth, p.bit_length(), 'bits, witness', a, 'factor time %.1f'%dt, [q.bit_length() for q in f]); sys.stdout.flush()
    json.dump({str(k):v for k,v in cert.items()}, open('/tmp/pratt2/cert.json','w'))
    for q in f: pratt(q, depth+1)
for k,n in nums.items():
    print(k, flush=True); pratt(n)
print('DONE total primes', len(cert))
