# independent affine RFC 9380 simple SWU (section 6.6.2, straight-line, with inv0/is_square/sqrt) vs optimized_swu_G1/G2
import random
from py_ecc.optimized_bls12_381 import FQ, FQ2, field_modulus as p, optimized_swu_G1, optimized_swu_G2, iso_map_G1, iso_map_G2, is_on_curve, b, b2, normalize
from py_ecc.optimized_bls12_381.constants import ISO_3_A, ISO_3_B, ISO_3_Z, ISO_11_A, ISO_11_B, ISO_11_Z
from py_ecc.bls.point_compression import modular_squareroot_in_FQ2
def sgn0_fq(x): return x.n % 2
def sgn0_fq2(x):
    a,b_=[int(c) for c in x.coeffs]; return (a%2) or ((a==0) and (b_%2))
def sqrt_fq(a):
    y = a ** ((p+1)//4)
    return y if y*y == a else None
def sqrt_fq2(a):
    if a == FQ2.zero(): return FQ2.zero()
    return modular_squareroot_in_FQ2(a)   # repo routine; cross-checked by squaring below
def sswu(u, A, B, Z, F, sqrt, sgn0):
    one, zero = F.one(), F.zero()
    tv = Z*Z*u*u*u*u + Z*u*u
    tv1 = (one/tv) if tv != zero else zero          # inv0
    x1 = (-B/A)*(one+tv1)
    if tv1 == zero: x1 = B/(Z*A)
    gx1 = x1*x1*x1 + A*x1 + B
    x2 = Z*u*u*x1
    gx2 = x2*x2*x2 + A*x2 + B
    y1 = sqrt(gx1)
    if y1 is not None: x, y = x1, y1; assert y*y == gx1
    else:
        x = x2; y = sqrt(gx2); assert y is not None and y*y == gx2
    if sgn0(u) != sgn0(y): y = -y
    return x, y
def cmpG2(u):
    X,Y,Z_ = optimized_swu_G2(u)
    x,y = sswu(u, ISO_3_A, ISO_3_B, ISO_3_Z, FQ2, sqrt_fq2, sgn0_fq2)
    ok = (X/Z_ == x) and (Y/Z_ == y)
    P = iso_map_G2(X,Y,Z_)
    return ok, is_on_curve(P, b2)
def cmpG1(u):
    X,Y,Z_ = optimized_swu_G1(u)
    x,y = sswu(u, ISO_11_A, ISO_11_B, ISO_11_Z, FQ, sqrt_fq, sgn0_fq)
    ok = (X/Z_ == x) and (Y/Z_ == y)
    P = iso_map_G1(X,Y,Z_)
    return ok, is_on_curve(P, b)
random.seed(5)
# exceptional u for G1: Z u^2 = -1  -> u = sqrt(-1/Z)
exc1 = sqrt_fq(FQ(-1)/ISO_11_Z)
print('G1 exceptional root exists', exc1 is not None)
us1 = [FQ(0), FQ(1), FQ(-1), FQ((p-1)//2), FQ((p+1)//2)] + ([exc1, -exc1] if exc1 is not None else []) + [FQ(random.randrange(p)) for _ in range(200)]
bad=[u for u in us1 if cmpG1(u)!=(True,True)]
print('G1 mismatches', len(bad), bad[:3])
exc2 = sqrt_fq2(FQ2([-1 % p,0])/ISO_3_Z)
print('G2 exceptional root exists', exc2 is not None)
us2 = [FQ2([0,0]), FQ2([1,0]), FQ2([-1,0]), FQ2([0,1]), FQ2([(p-1)//2,0]), FQ2([(p+1)//2,0]), FQ2([0,(p+1)//2])] + ([exc2, -exc2] if exc2 is not None else [])
us2 += [FQ2([random.randrange(p),0]) for _ in range(30)] + [FQ2([0,random.randrange(p)]) for _ in range(30)] + [FQ2([random.randrange(p),random.randrange(p)]) for _ in range(200)]
bad=[u for u in us2 if cmpG2(u)!=(True,True)]
print('G2 mismatches', len(bad), bad[:3])
