# dry run of the C20 effect analysis: list every syntactic write site in py_ecc that is not a plain local-name binding
import ast, pathlib
MUT_METHODS={'append','extend','pop','insert','remove','clear','sort','reverse','update','setdefault','add','discard','popitem','__setitem__'}
for f in sorted(pathlib.Path('py_ecc').rglob('*.py')):
    src=f.read_text(); tree=ast.parse(src)
    for fn in ast.walk(tree):
        if not isinstance(fn,(ast.FunctionDef,)): continue
        for n in ast.walk(fn):
            tgts=[]
            if isinstance(n,ast.Assign): tgts=n.targets
            elif isinstance(n,(ast.AugAssign,ast.AnnAssign)): tgts=[n.target]
            for t in tgts:
                for tt in ast.walk(t):
                    if isinstance(tt,(ast.Attribute,ast.Subscript)):
                        print(f"{f}:{n.lineno} in {fn.name}: write {ast.unparse(t)}")
                        break
            if isinstance(n,ast.Call) and isinstance(n.func,ast.Attribute) and n.func.attr in MUT_METHODS:
                print(f"{f}:{n.lineno} in {fn.name}: call {ast.unparse(n.func)}")
            if isinstance(n,(ast.Global,ast.Nonlocal)):
                print(f"{f}:{n.lineno} in {fn.name}: {type(n).__name__} {n.names}")
            if isinstance(n,ast.AugAssign) and isinstance(n.target,ast.Name):
                print(f"{f}:{n.lineno} in {fn.name}: augassign {ast.unparse(n.target)} {type(n.op).__name__}")
