# find a cube root of -4 in FQ12 (optimized, iterative pow), then feed to reference bls12_381 double/add
from py_ecc.fields import optimized_bls12_381_FQ12 as O12, bls12_381_FQ12 as R12
from py_ecc import bls12_381 as ref, optimized_bls12_381 as opt
p = O12.field_modulus
q = p**12
# q-1 = 3^s * t
t = q-1; s=0
while t%3==0: t//=3; s+=1
print('s',s)
a = O12([(-4)%p]+[0]*11)
# find generator of 3-Sylow: g = nonresidue^t
import random
random.seed(7)
while True:
    nr = O12([random.randrange(p) for _ in range(12)])
    g = nr**t
    if g**(3**(s-1)) != O12.one(): break
# cube root via: c = a^(inv3 mod t) ; c^3 = a * a^(k t) -> adjust in Sylow subgroup by brute force on 3^s elements (s small?)
inv3 = pow(3,-1,t)
c = a**inv3
e = (c*c*c)/a   # lies in 3-Sylow (order dividing 3^s)
# find j with (g^j)^3 = e^-1 ... brute force j in range(3^s)
found=None
gj = O12.one()
for j in range(3**s):
    cand = c*gj
    if cand*cand*cand == a: found=cand; break
    gj = gj*g
print('found', found is not None)
x = found
X = R12([int(v) for v in x.coeffs]); Y = R12([0]*12)
P = (X, Y)
print('on curve (ref E(Fp12))', ref.is_on_curve(P, ref.b12))
D = ref.double(P)
print('ref double(P) =', 'None' if D is None else 'point; on curve? %s' % ref.is_on_curve(D, ref.b12))
A = ref.add(P, P)
print('ref add(P,P) =', 'None' if A is None else 'point; on curve? %s' % ref.is_on_curve(A, ref.b12))
print('ref multiply(P,2) is None:', ref.multiply(P,2) is None)
OP = (x, O12.zero(), O12.one())
print('opt on curve', opt.is_on_curve(OP, opt.b12), 'opt double inf', opt.is_inf(opt.double(OP)), 'opt add inf', opt.is_inf(opt.add(OP,OP)))
