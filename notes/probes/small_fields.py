import itertools, sys
from py_ecc.fields import field_elements as fe, optimized_field_elements as ofe
def fq_pow(self, other):
    o = type(self)(1); t = self
    while other > 0:
        if other & 1: o = o * t
        other >>= 1; t = t * t
    return o
def fqp_pow(self, other):
    o = type(self)([1] + [0] * (self.degree - 1)); t = self
    while other > 0:
        if other & 1: o = o * t
        other >>= 1; t = t * t
    return o
fe.FQ.__pow__ = fq_pow; fe.FQP.__pow__ = fqp_pow; ofe.FQ.__pow__ = fq_pow
def irreducible_monic(p, d):
    # brute force: monic degree-d polys over GF(p) with no nontrivial factor (trial division by all monic polys of degree <= d/2)
    def polymod(a,b):
        a=a[:]
        while len(a)>=len(b):
            c=a[-1]
            if c:
                for i in range(len(b)): a[len(a)-len(b)+i]=(a[len(a)-len(b)+i]-c*b[i])%p
            a.pop()
        return a
    res=[]
    for low in itertools.product(range(p),repeat=d):
        f=list(low)+[1]; ok=True
        for k in range(1,d//2+1):
            for gl in itertools.product(range(p),repeat=k):
                g=list(gl)+[1]
                if not any(polymod(f,g)): ok=False;break
            if not ok:break
        if ok: res.append(low)
    return res
def mk(mod, p, mc, d):
    FQ2b = mod.FQ2 if d==2 else None
    if d==2:
        return type('F',(mod.FQ2,),{'field_modulus':p,'FQ2_MODULUS_COEFFS':tuple(mc)})
    if d==12:
        return type('F',(mod.FQ12,),{'field_modulus':p,'FQ12_MODULUS_COEFFS':tuple(mc)})
problems=0
for p in (3,5,7,11):
    for mod,name in ((fe,'ref'),(ofe,'opt')):
        FQ=type('FQ',(mod.FQ,),{'field_modulus':p})
        for a in range(p):
            x=FQ(a)
            if a and int(x*(FQ(1)/x))!=1: problems+=1; print('FQ inv',name,p,a)
            if int(x**(p-1)) != (1 if a else 0): problems+=1
    irr=irreducible_monic(p,2)
    # signed variants of coefficients too (code allows negative modulus coeffs)
    for mc in irr:
        for signed in (False,True):
            mcs=[c-p if (signed and c) else c for c in mc]
            for mod,name in ((fe,'ref'),(ofe,'opt')):
                F=mk(mod,p,mcs,2)
                els=[F(list(c)) for c in itertools.product(range(p),repeat=2)]
                one=F.one()
                for x in els:
                    cx=[int(c) for c in x.coeffs]
                    if any(cx):
                        try:
                            xi=x.inv()
                            if [int(c) for c in (x*xi).coeffs]!=[1,0]: problems+=1; print('FQ2 inv wrong',name,p,mcs,cx,[int(c) for c in xi.coeffs])
                            if any(not (0<=int(c)<p) for c in xi.coeffs): problems+=1; print('noncanonical inv',name,p,mcs,cx)
                        except Exception as e:
                            problems+=1; print('FQ2 inv EXC',name,p,mcs,cx,type(e).__name__,e)
                    if [int(c) for c in (x**(p*p-1)).coeffs] != ([1,0] if any(cx) else [0,0]): problems+=1; print('fermat',name,p,mcs,cx)
                # assoc/distrib sampled exhaustively over triples for p<=5
                if p<=5:
                    for x,y,z in itertools.product(els,repeat=3):
                        if [int(c) for c in ((x*y)*z).coeffs]!=[int(c) for c in (x*(y*z)).coeffs]: problems+=1; print('assoc',name,p,mcs); break
                        if [int(c) for c in (x*(y+z)).coeffs]!=[int(c) for c in (x*y+x*z).coeffs]: problems+=1; print('distrib',name,p,mcs); break
print('degree-2 done, problems',problems)
# degree 12 over GF(2),GF(3),GF(5),GF(7): find an irreducible of the library's shape w^12 + a w^6 + b and a dense random irreducible by Rabin test using sympy-free method: test via order: x^(p^12)=x and gcd conditions skipped; use brute-force irreducibility by checking no roots in subfields is heavy -> use known: search trinomial shapes and verify field-ness by checking x*inv(x)=1 on many elements
import random
random.seed(4)
for p in (2,3,5,7):
    found=0
    for a in range(p):
        for b in range(1,p):
            mc=[b,0,0,0,0,0,a,0,0,0,0,0]
            ok=True
            for mod,name in ((ofe,'opt'),):
                F=mk(mod,p,mc,12)
                # quick irreducibility heuristic: w^(p^12-1)==1 and w^((p^12-1)/q)!=1 not needed; check random elements invertible
                w=F([0,1]+[0]*10)
                if [int(c) for c in (w**(p**12-1)).coeffs]!=[1]+[0]*11: ok=False
                # Rabin: gcd(w^(p^(12/q)) - w, f) = 1 for q=2,3  -> here: element w^(p^6)-w and w^(p^4)-w must be invertible
                for k in (6,4):
                    if ok:
                        t=w**(p**k)-w
                        ti=t.inv()
                        if [int(c) for c in (t*ti).coeffs]!=[1]+[0]*11: ok=False
            if not ok: continue
            found+=1
            for mod,name in ((fe,'ref'),(ofe,'opt')):
                F=mk(mod,p,mc,12)
                for _ in range(300):
                    c=[random.randrange(p) if random.random()<0.5 else 0 for _ in range(12)]
                    if not any(c): continue
                    x=F(c)
                    try:
                        xi=x.inv()
                        if [int(t) for t in (x*xi).coeffs]!=[1]+[0]*11: problems+=1; print('FQ12 inv wrong',name,p,mc,c); break
                    except Exception as e:
                        problems+=1; print('FQ12 inv EXC',name,p,mc,c,type(e).__name__,e); break
    print('p',p,'irreducible w^12+a w^6+b found',found)
print('total problems',problems)
