# design validation: which AST node kinds occur in the functions the translator is meant to cover?
import ast, pathlib, collections
targets = {
 'py_ecc/optimized_bls12_381/optimized_curve.py': ['is_inf','is_on_curve','double','add','multiply','eq','normalize','neg','twist'],
 'py_ecc/optimized_bn128/optimized_curve.py': ['is_inf','is_on_curve','double','add','multiply','eq','normalize','neg','twist'],
 'py_ecc/bls12_381/bls12_381_curve.py': ['is_inf','is_on_curve','double','add','multiply','eq','neg','twist'],
 'py_ecc/bn128/bn128_curve.py': ['is_inf','is_on_curve','double','add','multiply','eq','neg','twist'],
 'py_ecc/optimized_bls12_381/optimized_pairing.py': ['normalize1','linefunc','cast_point_to_fq12','pairing','exp_by_p','final_exponentiate','miller_loop'],
 'py_ecc/optimized_bn128/optimized_pairing.py': ['normalize1','linefunc','cast_point_to_fq12','pairing','final_exponentiate','miller_loop'],
 'py_ecc/bls12_381/bls12_381_pairing.py': ['linefunc','cast_point_to_fq12','pairing','final_exponentiate','miller_loop'],
 'py_ecc/bn128/bn128_pairing.py': ['linefunc','cast_point_to_fq12','pairing','final_exponentiate','miller_loop'],
 'py_ecc/secp256k1/secp256k1.py': ['inv','to_jacobian','jacobian_double','jacobian_add','from_jacobian','jacobian_multiply','multiply','add','privtopub','bytes_to_int','ecdsa_raw_sign','ecdsa_raw_recover','deterministic_generate_k'],
 'py_ecc/utils.py': ['prime_field_inv','deg','poly_rounded_div'],
}
SUBSET = {'FunctionDef','arguments','arg','Return','Assign','If','Expr','Name','Load','Store','Constant','Tuple','BinOp','UnaryOp','Compare','BoolOp','Call','Attribute','Subscript','IfExp','Raise',
          'Add','Sub','Mult','Div','Pow','Mod','FloorDiv','USub','Not','Eq','NotEq','Lt','LtE','Gt','GtE','Is','IsNot','And','Or','While','AnnAssign','Index','Slice','keyword','JoinedStr','FormattedValue','BitXor','In','NotIn'}
for f, names in targets.items():
    tree = ast.parse(pathlib.Path(f).read_text())
    fns = {n.name:n for n in ast.walk(tree) if isinstance(n, ast.FunctionDef)}
    for nm in names:
        fn = fns[nm]
        kinds = collections.Counter(type(n).__name__ for n in ast.walk(fn))
        out = {k:v for k,v in kinds.items() if k not in SUBSET}
        calls = sorted({ast.unparse(n.func) for n in ast.walk(fn) if isinstance(n, ast.Call)})
        print(f"{f.split('/')[-1]:28s} {nm:24s} outside-subset: {out or '-'}   calls: {calls}")
