from py_ecc.bls import G2Basic, G2ProofOfPossession as POP
from py_ecc.bls.point_compression import compress_G1, decompress_G1, compress_G2, decompress_G2, modular_squareroot_in_FQ2
from py_ecc.optimized_bls12_381 import FQ, FQ2, b, b2, is_on_curve, multiply, curve_order, G1, G2, normalize, field_modulus as q
from py_ecc.bls.g2_primitives import subgroup_check
# 1. x=0 point on G1 curve
pt = (FQ(0), FQ(2), FQ(1))
print('on curve', is_on_curve(pt, b), 'subgroup', subgroup_check(pt), 'order3', multiply(pt,3))
z = compress_G1(pt)
print(hex(z))
try:
    print(decompress_G1(z))
except Exception as e:
    print('decompress_G1 failed:', repr(e))
# G2 x=0
y = modular_squareroot_in_FQ2(FQ2([0,0])**3 + b2)
print('G2 x=0 sqrt:', y)
if y is not None:
    pt2 = (FQ2([0,0]), y, FQ2.one())
    print(is_on_curve(pt2,b2))
    z2 = compress_G2(pt2); print(z2)
    try: print(decompress_G2(z2))
    except Exception as e: print('decompress_G2 failed:', repr(e))
# 4. KeyValidate with 49 bytes
pk = G2Basic.SkToPk(12345)
print('KV pk', G2Basic.KeyValidate(pk))
for pre in [b'\x00', b'\x01', b'\xff\xff']:
    try:
        print('KV', pre, G2Basic.KeyValidate(pre+pk))
    except Exception as e:
        print('KV raised', pre, repr(e))
print('KV empty', G2Basic.KeyValidate(b''))
print('KV short', G2Basic.KeyValidate(pk[1:]))
sig = G2Basic.Sign(12345, b'm')
print('Verify long pk', G2Basic.Verify(b'\x00'+pk, b'm', sig))
print('POP verify', POP.PopVerify(b'\x00'+pk, POP.PopProve(12345)))
print('POP FAV', POP.FastAggregateVerify([b'\x00'+pk], b'm', sig))
print('POP FAV ok', POP.FastAggregateVerify([pk], b'm', POP.Sign(12345,b'm')))
# non-bytes
for bad in [None, 5, 'abc', bytearray(pk)]:
    try: print('KV', type(bad), G2Basic.KeyValidate(bad))
    except Exception as e: print('KV raised', type(bad), repr(e))
