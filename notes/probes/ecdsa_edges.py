import random, itertools, os
from py_ecc.secp256k1 import secp256k1 as S
P,N,G=S.P,S.N,S.G
# textbook affine oracle, identity = None
def inv(a,m): return pow(a,-1,m)
def aadd(p,q):
    if p is None: return q
    if q is None: return p
    if p[0]==q[0]:
        if (p[1]+q[1])%P==0: return None
        m=3*p[0]*p[0]*inv(2*p[1],P)%P
    else: m=(q[1]-p[1])*inv(q[0]-p[0],P)%P
    x=(m*m-p[0]-q[0])%P; return (x,(m*(p[0]-x)-p[1])%P)
def amul(p,n):
    n%=N; r=None
    while n:
        if n&1: r=aadd(r,p)
        p=aadd(p,p); n>>=1
    return r
enc=lambda p:(0,0) if p is None else p
random.seed(11)
# group law / multiply
pts=[None,G,amul(G,2),amul(G,N-1),amul(G,random.randrange(N))]
bad=0
for a,b in itertools.product(pts,pts):
    if S.add(enc(a),enc(b))!=enc(aadd(a,b)): bad+=1; print('add mismatch',a,b)
for n in [0,1,2,N-1,N,N+1,2*N+5,-1,-7,random.getrandbits(512),-random.getrandbits(300)]:
    for a in pts:
        if S.multiply(enc(a),n)!=enc(amul(a,n) if a else None): bad+=1; print('mul mismatch',n)
print('group mismatches',bad)
# recover
def oracle_recover(z,v,r,s):
    if v not in (27,28): return 'ValueError'
    if r%N==0 or s%N==0: return 'ValueError'
    a=(r*r*r+7)%P; y=pow(a,(P+1)//4,P)
    if y*y%P!=a: return 'ValueError'
    if (y%2==1)!=(v==28): y=P-y
    R=(r%P,y)
    t=aadd(amul(R,s), amul(G,(-z)%N))
    return enc(amul(t,inv(r%N,N)) if t else None)
def impl_recover(h,v,r,s):
    try: return S.ecdsa_raw_recover(h,(v,r,s))
    except ValueError: return 'ValueError'
    except Exception as e: return 'OTHER:'+type(e).__name__
validx=[x for x in range(1,60) if pow((x**3+7)%P,(P-1)//2,P)==1][:3]
invalidx=[x for x in range(1,60) if pow((x**3+7)%P,(P-1)//2,P)!=1][:3]
rs=[0,1,N-1,N,N+1,P-1]+validx+invalidx+[random.randrange(P) for _ in range(6)]
ss=[0,1,(N-1)//2,(N+1)//2,N-1,N,N+1,2*N+3]+[random.randrange(N) for _ in range(3)]
hs=[b'\x00'*32,b'\xff'*32,N.to_bytes(32,'big'),(N-1).to_bytes(32,'big'),os.urandom(32),b'',os.urandom(64)]
bad=0;n=0
for h in hs:
    z=int.from_bytes(h,'big')
    for v in [0,1,26,27,28,29,35,36]:
        for r in rs:
            for s in ss:
                n+=1
                if impl_recover(h,v,r,s)!=oracle_recover(z,v,r,s):
                    bad+=1
                    if bad<5: print('recover mismatch',h.hex()[:8],v,r,s,impl_recover(h,v,r,s),oracle_recover(z,v,r,s))
print('recover cases',n,'mismatches',bad)
# sign
bad=0
for d in [1,2,N-2,N-1,3,random.randrange(N),random.randrange(N)]:
    for h in hs[:5]+[os.urandom(32) for _ in range(10)]:
        priv=d.to_bytes(32,'big'); v,r,s=S.ecdsa_raw_sign(h,priv); Q=S.privtopub(priv)
        ok = v in (27,28) and 1<=r<N and 1<=s<=N//2 and S.ecdsa_raw_recover(h,(v,r,s))==Q and impl_recover(h,55-v,r,s)!=Q and Q==enc(amul(G,d))
        z=int.from_bytes(h,'big'); w=inv(s,N); X=aadd(amul(G,z*w%N),amul(Q,r*w%N)); ok = ok and X is not None and X[0]%N==r
        if not ok: bad+=1; print('sign bad',d,h.hex())
print('sign mismatches',bad)
