import os, random
from py_ecc.bls import G2Basic, G2MessageAugmentation as AUG, G2ProofOfPossession as POP
from py_ecc.optimized_bls12_381 import FQ, FQ2, b, b2, field_modulus as p, multiply, curve_order as r, G1, G2, add
from py_ecc.bls.g2_primitives import G1_to_pubkey, G2_to_signature, subgroup_check
random.seed(2)
pk=G2Basic.SkToPk(7); sig=G2Basic.Sign(7,b'm')
# non-subgroup G1 point: random curve point times r
def rand_g1():
    while True:
        x=FQ(random.randrange(p)); a=x**3+b; y=a**((p+1)//4)
        if y*y==a: return (x,y,FQ(1))
T1=multiply(rand_g1(), r); assert not subgroup_check(add(T1,G1))
pk_bad=G1_to_pubkey(add(multiply(G1,7),T1))
from py_ecc.bls.point_compression import modular_squareroot_in_FQ2
def rand_g2():
    while True:
        x=FQ2([random.randrange(p),random.randrange(p)]); y=modular_squareroot_in_FQ2(x**3+b2)
        if y is not None: return (x,y,FQ2.one())
T2=multiply(rand_g2(), r); 
sig_bad=G2_to_signature(add(multiply(G2,5),T2))
inf_pk=bytes([0xc0])+b'\x00'*47; inf_sig=bytes([0xc0])+b'\x00'*95
cands_pk=[b'',pk[:47],pk+b'\x00',b'\x00'+pk,pk_bad,inf_pk,b'\x11'*48,os.urandom(48),os.urandom(100),bytes([pk[0]^0x80])+pk[1:],bytes([pk[0]|0x40])+pk[1:],bytes([pk[0]^0x20])+pk[1:], pk]
cands_sig=[b'',sig[:95],sig+b'\x00',sig_bad,inf_sig,os.urandom(96),os.urandom(200),bytes([sig[0]^0x80])+sig[1:],sig[:48]+bytes([sig[48]|0x80])+sig[49:], sig]
res={}
def call(name,f,*a):
    try:
        v=f(*a)
        if v is not True and v is not False: print('NONBOOL',name,v)
        return v
    except Exception as e:
        print('RAISED',name,type(e).__name__,[x if not isinstance(x,bytes) else x.hex()[:16] for x in a]); return 'exc'
trues=0;n=0
for S in (G2Basic,AUG,POP):
    for k in cands_pk:
        v=call('KeyValidate',S.KeyValidate,k); n+=1
        if v is True and k!=pk: print('KV TRUE on',k.hex()[:20],len(k))
        for s in cands_sig:
            for (nm,f,args) in [('Verify',S.Verify,(k,b'm',s)),('AggV',S.AggregateVerify,([k,pk],[b'm',b'n'],s)),('AggV2',S.AggregateVerify,([pk,k],[b'm',b'n'],s))]:
                v=call(S.__name__+nm,f,*args); n+=1
                if v is True and not (k==pk and s==sig and nm=='Verify' and S is G2Basic): print('TRUE?',S.__name__,nm,len(k),len(s))
            if S is POP:
                v=call('FAV',S.FastAggregateVerify,[pk,k],b'm',s); n+=1
                v=call('PopVerify',S.PopVerify,k,s); n+=1
    call('AggV empty',S.AggregateVerify,[],[],sig); call('AggV mismatch',S.AggregateVerify,[pk],[],sig)
call('FAV empty',POP.FastAggregateVerify,[],b'm',sig)
print('calls',n)
