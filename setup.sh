#!/bin/sh
# build the Lean project (model, generated code, semantic layer, all property theorems, driver) offline
cd "$(dirname "$0")" || exit 2
export PATH="/opt/veriftools/lean/bin:$PATH"
/venv/bin/python tools/translate/gen.py --repo "${VERIF_REPO:-/repo}" >/dev/null || true
/venv/bin/python - <<'PY'
import sys
sys.path.insert(0, "tools/harness")
import check
check.instantiate_templates()
PY
cd lean || exit 2
mods=$(ls PyEcc/Props/*.lean | sed 's|/|.|g; s|\.lean$||')
lake build driver $mods
