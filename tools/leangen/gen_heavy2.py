import re
txt=open('ev1.out').read()
blocks=re.findall(r"\{ c0 := (\d+),\s*c1 := (\d+),\s*c2 := (\d+),\s*c3 := (\d+),\s*c4 := (\d+),\s*c5 := (\d+),\s*c6 := (\d+),\s*c7 := (\d+),\s*c8 := (\d+),\s*c9 := (\d+),\s*c10 := (\d+),\s*c11 := (\d+) \}", txt)
assert len(blocks)==4
def lit(b): return "⟨" + ",\n   ".join(b) + "⟩"
names=["millerNum","millerDen","millerVal","pairingVal"]
docs=["`f_num` after the 63 iterations of the optimized Miller loop on `(G2, G1)`",
      "`f_den` after the 63 iterations of the optimized Miller loop on `(G2, G1)`",
      "the Miller value `f_num / f_den` of `(G2, G1)` (`pairing(G2, G1, final_exponentiate=False)`)",
      "the twelve coefficients of `pairing(G2, G1)`"]
s='''/-
  PyEcc.PropsHeavy.C05_NondegCalc — the kernel evaluation (`decide +kernel`: kernel reduction
  only, no compiled evaluator, no axioms) of the optimized BLS12-381 pairing on the generators, `pairing(G2, G1)`, over the
  verified fast `FQ12` arithmetic `X12` (`Lemmas/NondegFast.lean`, `Lemmas/NondegLoop.lean`).

  HEAVY MODULE (thorough tier): ≈ 50 s of kernel time in total
    stage A  Miller loop, 63 iterations (68 line evaluations over `X12`, `R` in the model's `FQ2`)  ≈ 14 s
    stage B  the one division `f_num / f_den` (the model's `FQ12.__div__`)                          ≈ 1.5 s
    stage C  the plain power `** ((p¹² − 1) // r)` (4314-bit exponent, ≈ 6500 products)             ≈ 35 s
  The literals below were obtained by `#eval` of the same functions and agree with
  `py_ecc.optimized_bls12_381.pairing(G2, G1)` of the working tree (checked by the harness).
-/
import PyEcc.Lemmas.NondegLoop

set_option maxRecDepth 100000

namespace PyEcc.NondegSem
open PyEcc PyEcc.Gen.Consts X12

'''
for n,d,b in zip(names,docs,blocks):
    s+=f"/-- {d} -/\ndef {n} : X12 :=\n  {lit(b)}\n\n"
s+='''/-- `pairing(G2, G1)` as an element of the model's optimized `FQ12` (coefficient list) -/
def pairingG2G1 : OBls12 :=
  ⟨[''' + ",\n    ".join(blocks[3]) + ''']⟩

/-- stage A: the Miller loop (kernel evaluation over the fast arithmetic) -/
theorem calc_miller :
    millerX (digitsFrom optimized_bls12_381_pseudo_binary_encoding 62) blsG2 blsG1
      = (millerNum, millerDen) := by decide +kernel

/-- stage B: the division `f_num / f_den` (the model's own `FQ12` division) -/
theorem calc_div : millerNum / millerDen = millerVal := by decide +kernel

/-- stage C: the final power -/
theorem calc_pow :
    millerVal ^ ((blsP ^ 12 - 1) / optimized_bls12_381_curve_order) = pairingVal := by decide +kernel

/-- the guards of `pairing(G2, G1)` pass -/
theorem calc_guards :
    Gen.OptBls.is_on_curve blsG2 (⟨optimized_bls12_381_b2⟩ : OBls2) = true ∧
    Gen.OptBls.is_on_curve blsG1 (Fq.ofInt optimized_bls12_381_b : Fq blsP) = true ∧
    ¬ (blsG1.2.2 = 0 ∨ blsG2.2.2 = 0) := by decide +kernel

theorem calc_toL : toL pairingVal = pairingG2G1 ∧ toL millerVal ≠ 0 ∧
    pairingG2G1 ≠ 1 ∧ pairingG2G1 ≠ 0 := by decide +kernel

end PyEcc.NondegSem
'''
open("/tmp/pw/nondeg/lean/PyEcc/PropsHeavy/C05_NondegCalc.lean","w").write(s)
