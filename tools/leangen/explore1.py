import sys, random
sys.path.insert(0,'/verif/tools/harness')
import oracle as O
from oracle import Fp, Fp2, aff_add, aff_mul, BLS_P as p, BLS_R as r, H1, H2
rng = random.Random(1)
N1 = H1*r
print('h1 factor check', H1 == 3*11**2*10177**2*859267**2*52437899**2)
# cube root of unity in Fp
g = 2
while True:
    w = pow(g, (p-1)//3, p)
    if w != 1: break
    g += 1
print('omega', hex(w), (w*w+w+1)%p)
def phi(P, c2): return (P[0]*c2, P[1])
# G1
for q in [11,10177,859267,52437899]:
    # structure: find point of order q^2?
    cnt=0
    for _ in range(5):
        R = O.rand_curve_point_g1(rng)
        T = aff_mul(R, N1//q**2)
        if T is None: continue
        qT = aff_mul(T,q)
        print(q, 'order q^2?' , qT is not None)
P3 = (Fp(0,p),Fp(2,p))
print('3*(0,2)', aff_mul(P3,3))
Q = H2
for s in [13,13,23,23,2713,11953,262069]:
    assert Q % s == 0; Q//=s
print('Q bits', Q.bit_length())
N2 = H2*r
for q in [13,23]:
    for _ in range(5):
        R = O.rand_curve_point_g2(rng)
        T = aff_mul(R, N2//q**2)
        if T is None: continue
        qT = aff_mul(T,q)
        print(q, 'G2 order q^2?' , qT is not None)
print(2*N2 > 2*p*p+1, 2*N1 > 2*p+1)
