# generates PyEcc/PropsHeavy/C05_NondegBnCalc.lean from the output of ev2.lean (#eval of the same functions)
import re, ast, sys
vals={}
for line in open('/tmp/pw/nondegbn/ev2.out'):
    m=re.match(r"(\w+) (\[\[.*\]\])\s*$", line)
    if m: vals[m.group(1)]=ast.literal_eval(m.group(2))
assert set(vals)=={"twQ","cP","loopND","loopR","Q1","nQ2","nd","mv","pv"}, vals.keys()
def lit(b, ind="  "):
    if all(c==0 for c in b[1:]) and b[0] < 10**6:
        return ind+"⟨" + ", ".join(str(c) for c in b) + "⟩"
    return ind+"⟨" + (",\n"+ind+" ").join(str(c) for c in b) + "⟩"
defs=[]
def d(name, doc, b): defs.append(f"/-- {doc} -/\ndef {name} : Y12 :=\n{lit(b)}\n")
for i,c in enumerate("xyz"):
    d(f"twQ{c}", f"`twist(G2)`, coordinate `{c}`", vals["twQ"][i])
for i,c in enumerate("xyz"):
    d(f"cP{c}", f"`cast_point_to_fq12(G1)`, coordinate `{c}`", vals["cP"][i])
d("loopNum","`f_num` after the 64 iterations of the optimized bn128 Miller loop on `(twist(G2), G1)`", vals["loopND"][0])
d("loopDen","`f_den` after the 64 iterations", vals["loopND"][1])
for i,c in enumerate("xyz"):
    d(f"loopR{c}", f"the running point `R` after the 64 iterations, coordinate `{c}`", vals["loopR"][i])
for i,c in enumerate("xyz"):
    d(f"frobA{c}", f"`Q1 = (x ** p, y ** p, z ** p)` for `Q = twist(G2)`, coordinate `{c}`", vals["Q1"][i])
for i,c in enumerate("xyz"):
    d(f"frobB{c}", f"`nQ2 = (x1 ** p, -y1 ** p, z1 ** p)`, coordinate `{c}`", vals["nQ2"][i])
d("millerNum","`f_num * _n1 * _n2`", vals["nd"][0])
d("millerDen","`f_den * _d1 * _d2`", vals["nd"][1])
d("millerVal","the Miller value `f_num * _n1 * _n2 / (f_den * _d1 * _d2)` of `(G2, G1)` (`pairing(G2, G1, final_exponentiate=False)`)", vals["mv"][0])
d("pairingVal","the twelve coefficients of `pairing(G2, G1)`", vals["pv"][0])
T = sys.argv[1] if len(sys.argv)>1 else "XX"
s='''/-
  PyEcc.PropsHeavy.C05_NondegBnCalc — the kernel evaluation (`decide +kernel`: kernel reduction only,
  no compiled evaluator, no axioms) of the optimized bn128 pairing on the generators,
  `optimized_bn128.pairing(G2, G1)`, over the verified fast `FQ12` arithmetic `Y12`
  (`Lemmas/NondegFastBn.lean`, `Lemmas/NondegLoopBn.lean`).

  HEAVY MODULE (thorough tier); kernel time per stage (measured):
__TIMES__
  The literals below were obtained by `#eval` of the same functions; the last one agrees with
  `py_ecc.optimized_bn128.pairing(G2, G1)` of the working tree (compared coefficient by coefficient).
-/
import PyEcc.Lemmas.NondegLoopBn
import PyEcc.Sem.TransferFq

set_option maxRecDepth 100000

namespace PyEcc.NondegBnSem
open PyEcc PyEcc.Gen.Consts PyEcc.Transfer Y12

'''
s+="\n".join(defs)
s+='''
/-- `pairing(G2, G1)` as an element of the model's optimized bn128 `FQ12` (coefficient list) -/
def pairingG2G1 : OBn12 :=
  ⟨[''' + ",\n    ".join(str(c) for c in vals["pv"][0]) + ''']⟩

/-- the digits `pseudo_binary_encoding[63::-1]` scanned by the loop -/
abbrev bnDigits64 : List Int := digitsFrom optimized_bn128_pseudo_binary_encoding 63

/-- stage 0: `twist(G2)` and `cast_point_to_fq12(G1)` (the model's functions) -/
theorem calc_twist : twistY bnG2 = (twQx, twQy, twQz) ∧ castY bnG1 = (cPx, cPy, cPz) := by
  decide +kernel

/-- stage A: the 64 iterations of the Miller loop (kernel evaluation over the fast arithmetic) -/
theorem calc_loop :
    loopY bnDigits64 (twQx, twQy, twQz) (cPx, cPy, cPz)
      = ((loopNum, loopDen), (loopRx, loopRy, loopRz)) := by decide +kernel

/-- stage B: the Frobenius images `Q1`, `nQ2` (six powers `** field_modulus`) -/
theorem calc_frob :
    frobG bnP (twQx, twQy, twQz) = ((frobAx, frobAy, frobAz), (frobBx, frobBy, frobBz)) := by
  decide +kernel

/-- stage C: the two Frobenius line steps -/
theorem calc_tail :
    tailG ((frobAx, frobAy, frobAz), (frobBx, frobBy, frobBz)) (cPx, cPy, cPz)
        ((loopNum, loopDen), (loopRx, loopRy, loopRz))
      = (millerNum, millerDen) := by decide +kernel

/-- stages 0–C together: numerator and denominator of the Miller value of `(G2, G1)` -/
theorem calc_miller : millerY bnDigits64 (twistY bnG2) (castY bnG1) = (millerNum, millerDen) := by
  rw [calc_twist.1, calc_twist.2, millerY, calc_loop, calc_frob, calc_tail]

/-- stage D: the division (the model's own `FQ12` division) -/
theorem calc_div : millerNum / millerDen = millerVal := by decide +kernel

/-- stage E: the final power -/
theorem calc_pow :
    millerVal ^ ((bnP ^ 12 - 1) / optimized_bn128_curve_order) = pairingVal := by decide +kernel

/-- the guards of `pairing(G2, G1)` pass -/
theorem calc_guards :
    Gen.OptBn.is_on_curve bnG2 (⟨optimized_bn128_b2⟩ : OBn2) = true ∧
    Gen.OptBn.is_on_curve bnG1 (Fq.ofInt optimized_bn128_b : Fq bnP) = true ∧
    ¬ (bnG1.2.2 = 0 ∨ bnG2.2.2 = 0) := by decide +kernel

theorem calc_toL : toL pairingVal = pairingG2G1 ∧ toL millerVal ≠ 0 ∧
    pairingG2G1 ≠ 1 ∧ pairingG2G1 ≠ 0 := by decide +kernel

end PyEcc.NondegBnSem
'''
times=open('/tmp/pw/nondegbn/tools/times.txt').read().rstrip("\n") if len(sys.argv)>1 else "    (to be measured)"
s=s.replace("__TIMES__", times)
open("/tmp/pw/nondegbn/lean/PyEcc/PropsHeavy/C05_NondegBnCalc.lean","w").write(s)
