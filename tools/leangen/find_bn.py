import sys, random, json
sys.path.insert(0,'/verif/tools/harness')
import oracle as O
from oracle import Fp2, aff_mul, BN_P as p, BN_R as r
rng = random.Random(7)
b2 = Fp2(19485874751759354771024239261021720505790618469301721065564631296452457478373, 266929791119991161246907387137283842545076965332900288569378510910307636690, p)
assert b2 * Fp2(9,1,p) == Fp2(3,0,p)
cof = 2*p - r
C = 197620364512881247228717050342013327560683201906968909
fs = [10069, 5864401, 1875725156269, C]
prod = 1
for f in fs: prod *= f
assert prod == cof
N = cof * r
print('2N > 2p^2+1?', 2*N > 2*p*p+1, '3N > 2p^2+1?', 3*N > 2*p*p+1, 'p%3', p%3, (p*p-1)%3)
def rand_pt():
    while True:
        x = Fp2(rng.randrange(p), rng.randrange(p), p)
        y = (x*x*x + b2).sqrt()
        if y is not None: return (x, y)
res = {}
for q in fs:
    while True:
        R = rand_pt()
        assert aff_mul(R, N) is None
        T = aff_mul(R, N//q)
        if T is None: continue
        assert aff_mul(T, q) is None
        break
    res[q] = {'x': T[0].coeffs(), 'y': T[1].coeffs()}
    print(q)
# cube check
e = (p*p-1)//3
print('(-b2)^e == 1?', (-b2).pow(e) == Fp2(1,0,p))
json.dump(res, open('pts_bn.json','w'))
