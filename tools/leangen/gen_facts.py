import json
d = json.load(open('pts.json'))
w, c = d['w'], d['c']
L = []
A = L.append
A("""/-
  PyEcc.Lemmas.Hb2FactsG1 — GENERATED kernel-evaluated facts about concrete points of `E(Fp)`, BLS12-381
  (`y² = x³ + 4` over `Fq blsP`), used to determine `#E(Fp)` (HB2): for each prime `q ∣ (x−1)/3` a point `T` of
  order `q` whose image under `φ(x, y) = (ω·x, y)` is none of `T`, `l₁·T`, `l₂·T` (`1, l₁, l₂` the cube roots of
  unity mod `q`), and the point `(0, 2)` of order 3.  Every fact is one run of the generated
  `optimized_bls12_381` curve code (`decide +kernel`).  Points found by tools (Python), checked here.
-/
import PyEcc.Sem.TransferFq

set_option maxRecDepth 100000

namespace PyEcc.Hb2
open PyEcc PyEcc.Gen PyEcc.Gen.Consts

/-- a primitive cube root of unity `ω` of `Fp` -/
def w1 : F1 := Fq.ofInt %d
/-- `c = ω²`, so `c² = ω`, `c³ = 1` -/
def c1 : F1 := Fq.ofInt %d

theorem c1_facts : c1 ^ 3 = 1 ∧ w1 = c1 ^ 2 ∧ w1 ≠ 1 := by decide +kernel

/-- `φ` on projective triples: `(X, Y, Z) ↦ (ω·X, Y, Z)` -/
def phiT1 (T : G1Pt) : G1Pt := (T.1 * w1, T.2.1, T.2.2)

/-- what is checked for a point `T` and a prime `q` -/
def SqFacts1 (T : G1Pt) (q l₁ l₂ : ℕ) : Prop :=
  OptBls.is_on_curve T blsB = true ∧ OptBls.is_inf T = false ∧ OptBls.is_inf (OptBls.multiply T q) = true
    ∧ OptBls.eq (phiT1 T) T = false ∧ OptBls.eq (phiT1 T) (OptBls.multiply T l₁) = false
    ∧ OptBls.eq (phiT1 T) (OptBls.multiply T l₂) = false

instance (T : G1Pt) (q l₁ l₂ : ℕ) : Decidable (SqFacts1 T q l₁ l₂) := by unfold SqFacts1; infer_instance
""" % (w, c))
for q, v in d['g1'].items():
    ls = v['ls'] or [1,1]
    A(f"/-- a point of order {q} of `E(Fp)` -/")
    A(f"def pt1_{q} : G1Pt := (Fq.ofInt {v['x']}, Fq.ofInt {v['y']}, Fq.ofInt 1)")
    A(f"theorem pt1_{q}_facts : SqFacts1 pt1_{q} {q} {ls[0]} {ls[1]} := by decide +kernel\n")
A("""/-- the point `(0, 2)` of order 3 -/
def pt1_3 : G1Pt := (Fq.ofInt 0, Fq.ofInt 2, Fq.ofInt 1)
theorem pt1_3_facts : OptBls.is_on_curve pt1_3 blsB = true ∧ OptBls.is_inf pt1_3 = false
    ∧ OptBls.is_inf (OptBls.multiply pt1_3 3) = true := by decide +kernel

end PyEcc.Hb2""")
open('/tmp/pw/hb2/lean/PyEcc/Lemmas/Hb2FactsG1.lean','w').write("\n".join(L)+"\n")
