# one-off: turn data/pratt_cert.json into Lean theorems using PyEccPratt.pratt_step (probe; the real generator lives in tools/ later)
import json, sys
cert = {int(k): (v[0], {int(q): e for q, e in v[1].items()}) for k, v in json.load(open('/verif/data/pratt_cert.json')).items()}
order = []
seen = set()
def visit(p):
    if p in seen: return
    seen.add(p)
    if p in cert:
        for q in cert[p][1]: visit(q)
        order.append(p)
for p in sorted(cert): visit(p)
out = ["import Sc.Pratt", "namespace PyEccPratt", "set_option maxRecDepth 100000", ""]
def pname(q): return f"prime_{q}"
small = sorted({q for p in cert for q in cert[p][1] if q not in cert})
for q in small:
    if q in (2, 3): continue
    out.append(f"theorem {pname(q)} : Nat.Prime {q} := by norm_num")
for p in order:
    a, f = cert[p]
    fs = sorted(f.items())
    lst = ", ".join(f"({q},{e})" for q, e in fs)
    pat = " | ".join(["rfl"] * len(fs))
    cases = []
    for q, e in fs:
        pr = "Nat.prime_two" if q == 2 else "Nat.prime_three" if q == 3 else pname(q)
        cases.append(f"      · exact ⟨{pr}, by decide +kernel⟩")
    out.append(f"theorem {pname(p)} : Nat.Prime {p} :=")
    out.append(f"  pratt_step {p} {a} [{lst}] (by norm_num) (by decide +kernel) (by decide +kernel)")
    out.append("    (by")
    out.append("      intro qe hqe")
    out.append("      simp only [List.mem_cons, List.mem_nil_iff, or_false] at hqe")
    out.append(f"      rcases hqe with {pat}")
    out += cases
    out[-1] += ")"
out.append("end PyEccPratt")
open(sys.argv[1], 'w').write("\n".join(out) + "\n")
print(len(order), 'certified primes,', len(small), 'small primes by norm_num')
