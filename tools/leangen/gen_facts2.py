import json
d = json.load(open('pts.json'))
w, c = d['w'], d['c']
Q = d['Q']
L = []
A = L.append
A("""/-
  PyEcc.Lemmas.Hb2FactsG2 — GENERATED kernel-evaluated facts about concrete points of the twist `E'(Fp²)`,
  BLS12-381 (`y² = x³ + 4(1+i)`, coordinates in the executable model type `F2` of `FQ2`), used to determine
  `#E'(Fp²) = h₂·r` (HB2): for `q ∈ {13, 23}` a point `T` of order `q` whose image under `φ(x, y) = (ω·x, y)` is
  none of `T`, `l₁·T`, `l₂·T`; for `q ∈ {2713, 11953, 262069, Q}` (`Q` the 448-bit prime factor of `h₂`) a point
  of order `q`.  Every fact is one run of the generated `optimized_bls12_381` curve code with the modelled
  `FQ2` arithmetic (`decide +kernel`).  Points found by tools (Python), checked here.
-/
import PyEcc.Sem.TransferFqp

set_option maxRecDepth 100000

namespace PyEcc.Hb2
open PyEcc PyEcc.Gen PyEcc.Gen.Consts PyEcc.FqpSem PyEcc.Transfer

/-- a primitive cube root of unity `ω` of `Fp`, as an `FQ2` object -/
def w2 : F2 := ⟨[%d, 0]⟩
/-- `c = ω²`, so `c² = ω`, `c³ = 1` -/
def c2 : F2 := ⟨[%d, 0]⟩

theorem c2_facts : Canon c2 ∧ Canon w2 ∧ c2 * c2 * c2 = 1 ∧ w2 = c2 * c2 := by decide +kernel

/-- `φ` on projective triples: `(X, Y, Z) ↦ (ω·X, Y, Z)` -/
def phiT2 (T : G2Pt) : G2Pt := (T.1 * w2, T.2.1, T.2.2)

/-- what is checked for a point `T` and a prime `q` with `q² ∣ h₂` -/
def SqFacts2 (T : G2Pt) (q l₁ l₂ : ℕ) : Prop :=
  CanonT T ∧ OptBls.is_on_curve T blsB2 = true ∧ OptBls.is_inf T = false
    ∧ OptBls.is_inf (OptBls.multiply T q) = true
    ∧ OptBls.eq (phiT2 T) T = false ∧ OptBls.eq (phiT2 T) (OptBls.multiply T l₁) = false
    ∧ OptBls.eq (phiT2 T) (OptBls.multiply T l₂) = false

instance (T : G2Pt) (q l₁ l₂ : ℕ) : Decidable (SqFacts2 T q l₁ l₂) := by unfold SqFacts2; infer_instance

/-- what is checked for a point `T` of prime order `q` -/
def CycFacts2 (T : G2Pt) (q : ℕ) : Prop :=
  CanonT T ∧ OptBls.is_on_curve T blsB2 = true ∧ OptBls.is_inf T = false
    ∧ OptBls.is_inf (OptBls.multiply T q) = true

instance (T : G2Pt) (q : ℕ) : Decidable (CycFacts2 T q) := by unfold CycFacts2; infer_instance

/-- the 448-bit prime factor of `h₂` -/
def bigQ : ℕ := %d
""" % (w, c, Q))
for q, v in d['g2'].items():
    q = int(q)
    name = 'Q' if q == Q else str(q)
    qs = 'bigQ' if q == Q else str(q)
    A(f"/-- a point of order {qs} of `E'(Fp²)` -/")
    A(f"def pt2_{name} : G2Pt := (⟨[{v['x'][0]}, {v['x'][1]}]⟩, ⟨[{v['y'][0]}, {v['y'][1]}]⟩, ⟨[1, 0]⟩)")
    if q in (13, 23):
        ls = v['ls'] or [1,1]
        A(f"theorem pt2_{name}_facts : SqFacts2 pt2_{name} {qs} {ls[0]} {ls[1]} := by decide +kernel\n")
    else:
        A(f"theorem pt2_{name}_facts : CycFacts2 pt2_{name} {qs} := by decide +kernel\n")
A("end PyEcc.Hb2")
open('/tmp/pw/hb2/lean/PyEcc/Lemmas/Hb2FactsG2.lean','w').write("\n".join(L)+"\n")
