import json
d = json.load(open('pts_bn.json'))
C = 197620364512881247228717050342013327560683201906968909
L = []
A = L.append
A("""/-
  PyEcc.Lemmas.Hb2FactsBn — GENERATED kernel-evaluated facts about concrete points of the bn128 twist
  `E'(Fp²)` (`y² = x³ + 3/(9+i)`, coordinates in the executable model type of `optimized_bn128` `FQ2` objects), used
  to determine `#E'(Fp²) = (2p − r)·r`: a point of order `q` for each prime factor `q` of
  `2p − r = 10069 · 5864401 · 1875725156269 · C` (`C` a 178-bit prime), and `(−b2)^((p²−1)/3) ≠ 1` (no point of
  order two).  Every fact is one run of the generated `optimized_bn128` curve code / the modelled `FQ2`
  arithmetic (`decide +kernel`).  Points found by tools (Python), checked here.
-/
import PyEcc.Sem.TransferFqp

set_option maxRecDepth 100000

namespace PyEcc.Hb2
open PyEcc PyEcc.Gen PyEcc.Gen.Consts PyEcc.FqpSem PyEcc.Transfer

/-- what is checked for a point `T` of prime order `q` -/
def CycFactsBn (T : BnG2Pt) (q : ℕ) : Prop :=
  CanonT T ∧ OptBn.is_on_curve T bnB2 = true ∧ OptBn.is_inf T = false
    ∧ OptBn.is_inf (OptBn.multiply T q) = true

instance (T : BnG2Pt) (q : ℕ) : Decidable (CycFactsBn T q) := by unfold CycFactsBn; infer_instance

/-- the 178-bit prime factor of `2p − r` -/
def bnC : ℕ := %d

/-- the generator `G2` of `optimized_bn128`: canonical, on the twist curve, not ∞, killed by `curve_order` -/
theorem bnG2_facts : CycFactsBn bnG2 optimized_bn128_curve_order := by decide +kernel

/-- `(−b2)^((p²−1)/3) ≠ 1` in the modelled `FQ2`: `−b2` is not a cube -/
theorem bn_neg_b2_pow : Canon bnB2 ∧ bnB2 ≠ 0 ∧ (-bnB2) ^ ((bnP ^ 2 - 1) / 3) ≠ 1 := by decide +kernel
""" % C)
for q, v in d.items():
    q = int(q)
    name = 'C' if q == C else str(q)
    qs = 'bnC' if q == C else str(q)
    A(f"/-- a point of order {qs} of the bn128 twist -/")
    A(f"def ptbn_{name} : BnG2Pt := (⟨[{v['x'][0]}, {v['x'][1]}]⟩, ⟨[{v['y'][0]}, {v['y'][1]}]⟩, ⟨[1, 0]⟩)")
    A(f"theorem ptbn_{name}_facts : CycFactsBn ptbn_{name} {qs} := by decide +kernel\n")
A("end PyEcc.Hb2")
open('/tmp/pw/hb2/lean/PyEcc/Lemmas/Hb2FactsBn.lean','w').write("\n".join(L)+"\n")
