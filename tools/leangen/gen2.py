import json, sys, re
old = {int(k) for k in json.load(open('/verif/data/pratt_cert.json'))}
cert = {int(k): (v[0], {int(q): e for q, e in v[1].items()}) for k, v in json.load(open('/verif/data/pratt_cert2.json')).items()}
existing = set(int(x) for x in re.findall(r'theorem prime_(\d+)', open('/tmp/pw/hb2/lean/PyEcc/Sem/PrattCerts.lean').read()))
print('old in cert2:', len(old & set(cert)), 'of', len(old), 'existing thms', len(existing))
order=[]; seen=set()
def visit(p):
    if p in seen: return
    seen.add(p)
    if p in cert:
        for q in cert[p][1]: visit(q)
        order.append(p)
for p in sorted(cert): visit(p)
out = ["/-","  PyEcc.Sem.PrattCerts2 — GENERATED Pratt certificates (from data/pratt_cert2.json) for the prime factors of the","  BLS12-381 cofactors h₁, h₂ and of the bn128 twist cofactor 2p − r; checked by the kernel via `pratt_step`.","-/","import PyEcc.Sem.PrattCerts", "namespace PyEcc.Pratt", "set_option maxRecDepth 100000", ""]
def pname(q): return f"prime_{q}"
small = sorted({q for p in cert for q in cert[p][1] if q not in cert})
n_small=0
for q in small:
    if q in (2,3) or q in existing: continue
    out.append(f"theorem {pname(q)} : Nat.Prime {q} := by norm_num"); n_small+=1
n=0
for p in order:
    if p in existing: continue
    a, f = cert[p]
    fs = sorted(f.items())
    lst = ", ".join(f"({q},{e})" for q, e in fs)
    pat = " | ".join(["rfl"] * len(fs))
    cases = []
    for q, e in fs:
        pr = "Nat.prime_two" if q == 2 else "Nat.prime_three" if q == 3 else pname(q)
        cases.append(f"      · exact ⟨{pr}, by decide +kernel⟩")
    out.append(f"theorem {pname(p)} : Nat.Prime {p} :=")
    out.append(f"  pratt_step {p} {a} [{lst}] (by norm_num) (by decide +kernel) (by decide +kernel)")
    out.append("    (by")
    out.append("      intro qe hqe")
    out.append("      simp only [List.mem_cons, List.mem_nil_iff, or_false] at hqe")
    out.append(f"      rcases hqe with {pat}")
    out += cases
    out[-1] += ")"
    n+=1
out.append("end PyEcc.Pratt")
open(sys.argv[1], 'w').write("\n".join(out) + "\n")
print(n, 'new certified primes,', n_small, 'new small primes', 'max small', max(small))
