# generates PyEcc/Lemmas/NondegFast.lean
N=12
def conv(k, a="a", b="b"):
    return " + ".join(f"{a}.c{i} * {b}.c{k-i}" for i in range(N) if 0 <= k-i < N)
fields=" ".join(f"c{i}" for i in range(N))
out=[]
w=out.append
w('''/-
  PyEcc.Lemmas.NondegFastBn — a FAST executable arithmetic of bn128 `FQ12 = Fp[w]/(w¹² − 18w⁶ + 82)`
  designed for kernel evaluation (`decide +kernel`), and the proof that it agrees with the model's
  list arithmetic (`PyEcc.Fqp` at `.opt bnP bnMc12`, i.e. the `FQ12` class of `py_ecc.optimized_bn128`).
  Same construction as `Lemmas/NondegFast.lean` (BLS12-381); only the reduction formulas differ.

  * `Y12`                 : an element = a structure of 12 naturals (coefficients of `1, w, …, w¹¹`);
  * `Y12.mulF`            : schoolbook product by explicit formulas, `w¹² = 18w⁶ − 82` folded in by index
                            arithmetic, one `% p` per output coefficient (the text of the
                            formulas was produced by a script; it is checked by `toK_mulF`);
  * `toL : Y12 → OBn12`  : the coefficient list;  `ofL` its inverse on reduced lists;
  * `goodHom_toL`         : `toL` is a `Transfer.GoodHom` from `Y12` to the MODEL type `OBn12`: it
                            preserves `0 1 + − * neg / natCast ^` (on reduced elements) and is injective.
                            Hence every generated generic function (`Gen.OptBn.linefunc`, …) run on `Y12`
                            computes the coefficient lists the model computes.
  `/` on `Y12` is defined through the model's own `FQ12.__div__` (used once per pairing).

  The product is proved correct through the quotient ring `K12`: both sides denote the product there,
  and reduced coefficient lists with the same value are equal (`toQ_inj`).
-/
import Mathlib.Tactic.LinearCombination
import Mathlib.Tactic.Ring
import PyEcc.Lemmas.PairingSem
import PyEcc.Sem.Primes
import PyEcc.Lemmas.TransferBase
import PyEcc.Model.Pairing

set_option maxRecDepth 100000
set_option linter.unusedVariables false

namespace PyEcc.NondegBnSem
open Polynomial PyEcc PyEcc.Fqp PyEcc.FqpSem PyEcc.PairingSem PyEcc.Gen.Consts PyEcc.Transfer

/-- an element of bn128 `FQ12`: the 12 coefficients (naturals) of `1, w, …, w¹¹` -/
structure Y12 where
  (''' + fields + ''' : Nat)
  deriving DecidableEq, Repr

namespace Y12

/-- the field modulus `p` (the generated constant) -/
abbrev P : Nat := bnP
''')
# mulF
w("/-- schoolbook product with `w¹² = 18w⁶ − 82` folded in; every output coefficient is `< p` -/")
w("def mulF (a b : Y12) : Y12 :=")
for k in range(11):
    w(f"  let h{k} := {conv(12+k)}")
for j in range(5):
    w(f"  let g{j} := 18 * h{6+j}")
coefs=[]
for k in range(12):
    pos=[f"({conv(k)})"]
    neg=[]
    if k<=10: neg.append(f"82 * h{k}")
    if k>=6: pos.append(f"18 * h{k-6}")
    if k<=4: neg.append(f"82 * g{k}")
    if 6<=k<=10: pos.append(f"18 * g{k-6}")
    Pp=" + ".join(pos)
    if neg:
        Nn=" + ".join(neg)
        coefs.append(f"(({Pp}) + (P - ({Nn}) % P)) % P")
    else:
        coefs.append(f"(({Pp}) + (P - 0 % P)) % P")
w("  ⟨" + ",\n   ".join(coefs) + "⟩")
w("")
def comp(fmt): return "⟨" + ", ".join(fmt.format(i=i) for i in range(N)) + "⟩"
w("def zeroF : Y12 := ⟨" + ", ".join(["0"]*12) + "⟩")
w("def oneF : Y12 := ⟨" + ", ".join(["1"]+["0"]*11) + "⟩")
w("def addF (a b : Y12) : Y12 := " + comp("(a.c{i} + b.c{i}) % P"))
w("def subF (a b : Y12) : Y12 := " + comp("(a.c{i} + (P - b.c{i})) % P"))
w("def negF (a : Y12) : Y12 := " + comp("(P - a.c{i}) % P"))
w("def natF (n : Nat) : Y12 := ⟨" + ", ".join(["n % P"]+["0"]*11) + "⟩")
w('''
/-- square-and-multiply, the loop of `FQP.__pow__` (same shape as `Fqp.powAux`) -/
def powAuxF : Nat → Y12 → Y12 → Nat → Y12
  | 0, o, _, _ => o
  | f+1, o, t, e =>
    if e = 0 then o
    else powAuxF f (if e % 2 = 1 then mulF o t else o) (mulF t t) (e / 2)

def powF (a : Y12) (e : Nat) : Y12 := powAuxF e oneF a e
''')
w("/-- the coefficient list, as an element of the model's optimized `FQ12` -/")
w("def toL (x : Y12) : OBn12 := ⟨[" + ", ".join(f"(x.c{i} : Int)" for i in range(N)) + "]⟩")
w("/-- read a coefficient list back (inverse of `toL` on reduced lists) -/")
w("def ofL (l : OBn12) : Y12 := " + comp("(getI l.coeffs {i}).toNat"))
w('''
/-- division: the model's own `FQ12.__div__` (extended Euclid on coefficient lists) -/
def divF (a b : Y12) : Y12 := ofL (toL a / toL b)

instance : Zero Y12 := ⟨zeroF⟩
instance : One Y12 := ⟨oneF⟩
instance : Add Y12 := ⟨addF⟩
instance : Sub Y12 := ⟨subF⟩
instance : Mul Y12 := ⟨mulF⟩
instance : Neg Y12 := ⟨negF⟩
instance : Div Y12 := ⟨divF⟩
instance : NatCast Y12 := ⟨natF⟩
instance : Pow Y12 Nat := ⟨powF⟩
''')
w("/-- reduced: every coefficient `< p` -/")
w("def Good (x : Y12) : Prop := " + " ∧ ".join(f"x.c{i} < P" for i in range(N)))
w("instance (x : Y12) : Decidable (Good x) := by unfold Good; infer_instance")
w("")
w("end Y12")
w("open Y12")
w('''
local notation "K12" => AdjoinRoot (modulus bnP bnMc12)
local notation "w" => AdjoinRoot.root (modulus bnP bnMc12)

theorem P_pos : 0 < Y12.P := by decide

/-! ### `toL` / `ofL` -/

theorem wf_toL (x : Y12) : WF (toL x) := by unfold WF; rfl

theorem canon_toL {x : Y12} (h : Good x) : Canon (toL x) := by
  obtain ⟨''' + ", ".join(f"h{i}" for i in range(N)) + '''⟩ := h
  refine ⟨rfl, ?_⟩
  intro c hc
  simp only [toL, List.mem_cons, List.not_mem_nil, or_false] at hc
  rcases hc with ''' + " | ".join(["rfl"]*N) + ''' <;>
    exact ⟨Int.natCast_nonneg _, by exact_mod_cast ‹_›⟩
''')
# getI of canonical list
w('''theorem toL_ofL {l : OBn12} (h : Canon l) : toL (ofL l) = l := by
  obtain ⟨cs⟩ := l
  obtain ⟨hl, hb⟩ := h
  have hlen : cs.length = 12 := hl
  match cs, hlen with
  | [''' + ", ".join(f"a{i}" for i in range(N)) + '''], _ =>
    have hb' : ∀ c ∈ [''' + ", ".join(f"a{i}" for i in range(N)) + '''], (0 : Int) ≤ c := fun c hc => (hb c hc).1
    simp only [List.mem_cons, List.not_mem_nil, or_false, forall_eq_or_imp, forall_eq] at hb'
    obtain ⟨''' + ", ".join(f"p{i}" for i in range(N)) + '''⟩ := hb'
    simp only [toL, ofL, getI, List.getD_cons_zero, List.getD_cons_succ, Int.toNat_of_nonneg, *]

theorem good_ofL {l : OBn12} (h : Canon l) : Good (ofL l) := by
  obtain ⟨cs⟩ := l
  obtain ⟨hl, hb⟩ := h
  have hlen : cs.length = 12 := hl
  match cs, hlen with
  | [''' + ", ".join(f"a{i}" for i in range(N)) + '''], _ =>
    have hb' : ∀ c ∈ [''' + ", ".join(f"a{i}" for i in range(N)) + '''], (0 : Int) ≤ c ∧ c < (bnP : Int) := hb
    simp only [List.mem_cons, List.not_mem_nil, or_false, forall_eq_or_imp, forall_eq] at hb'
    obtain ⟨''' + ", ".join(f"p{i}" for i in range(N)) + '''⟩ := hb'
    simp only [Good, ofL, getI, List.getD_cons_zero, List.getD_cons_succ]
    refine ⟨''' + ", ".join(["?_"]*N) + '''⟩ <;>
      (rw [Int.toNat_lt (by tauto)]; tauto)

theorem toL_injective : Function.Injective toL := by
  intro a b h
  obtain ⟨''' + ", ".join(f"a{i}" for i in range(N)) + '''⟩ := a
  obtain ⟨''' + ", ".join(f"b{i}" for i in range(N)) + '''⟩ := b
  simp only [toL, Fqp.mk.injEq, List.cons.injEq, Int.natCast_inj, and_true] at h
  simp only [Y12.mk.injEq]
  exact h
''')
# value in K12
horner = "(x.c11 : K12)"
for i in range(10,-1,-1):
    horner = f"(x.c{i} : K12) + w * ({horner})"
w("/-- the value in `K12`: `Σ cᵢ wⁱ` (Horner form) -/")
w("noncomputable def toK (x : Y12) : K12 := " + horner)
w('''
theorem toQ_toL (x : Y12) : toQ (toL x) = toK x := by
  simp only [toQ, toL, evQ, ev_cons, ev_nil, mul_zero, add_zero, map_add, map_mul, AdjoinRoot.mk_X,
    Int.cast_natCast, map_natCast, toK]

theorem bnMc12_len : 1 ≤ bnMc12.length := by decide

theorem hw12 : (w : K12) ^ 12 = 18 * (w : K12) ^ 6 - 82 := by
  have e : modulus bnP bnMc12 = X ^ 12 + (C 82 + X * (X * (X * (X * (X * (X * (C (-18)))))))) := by
    simp [modulus, bnMc12, fields_bn128_fq12_modulus_coeffs, ev]
  have h : AdjoinRoot.mk (modulus bnP bnMc12)
      (X ^ 12 + (C 82 + X * (X * (X * (X * (X * (X * (C (-18))))))))) = 0 := by
    rw [← e]; exact AdjoinRoot.mk_self
  simp only [map_add, map_mul, map_pow, AdjoinRoot.mk_X, map_neg, map_ofNat] at h
  linear_combination h

theorem cast_red (x y : ℕ) : (((x + (Y12.P - y % Y12.P)) % Y12.P : ℕ) : K12) = (x : K12) - (y : K12) := by
  have := charP_quot (p := bnP) (mc := bnMc12) bnMc12_len
  have hle : y % Y12.P ≤ Y12.P := (Nat.mod_lt _ P_pos).le
  have h1 : ∀ n : ℕ, ((n % Y12.P : ℕ) : K12) = (n : K12) := by
    intro n
    conv_rhs => rw [← Nat.mod_add_div n Y12.P]
    rw [Nat.cast_add, Nat.cast_mul, CharP.cast_eq_zero K12 bnP, zero_mul, add_zero]
  rw [h1, Nat.cast_add, Nat.cast_sub hle, h1, CharP.cast_eq_zero K12 bnP]
  ring
''')
# toK_mul
G_terms=[]
def castconv(k):
    return " + ".join(f"(a.c{i} : K12) * (b.c{k-i} : K12)" for i in range(N) if 0 <= k-i < N)
Hs=[f"({castconv(12+k)})" for k in range(11)]
G_poly=[]
for k in range(11):
    G_poly.append(f"{Hs[k]} * w ^ {k}")
for j in range(5):
    G_poly.append(f"18 * {Hs[6+j]} * w ^ {j}")
w("theorem toK_mulF (a b : Y12) : toK (mulF a b) = toK a * toK b := by")
w("  simp only [toK, mulF, cast_red]")
w("  push_cast")
w("  linear_combination (-(" + "\n    + ".join(G_poly) + ")) * hw12")
w('''
/-! ### the operations agree with the model's -/

theorem good_mulF (a b : Y12) : Good (mulF a b) := by
  simp only [Good, mulF]
  refine ⟨''' + ", ".join(["?_"]*N) + '''⟩ <;> exact Nat.mod_lt _ P_pos

theorem toL_mul (a b : Y12) : toL (a * b) = toL a * toL b := by
  apply toQ_inj (canon_toL (good_mulF a b)) (canon_mul' (by decide) (by decide) _ _)
  rw [toQ_mul (wf_toL a) (wf_toL b), toQ_toL, toQ_toL, toQ_toL]
  exact toK_mulF a b

theorem int_sub_mod (a b : ℕ) (h : b ≤ Y12.P) :
    (((a + (Y12.P - b)) % Y12.P : ℕ) : ℤ) = ((a : ℤ) - (b : ℤ)) % (bnP : ℤ) := by
  rw [Int.natCast_mod, Nat.cast_add, Nat.cast_sub h]
  rw [show (a : ℤ) + ((Y12.P : ℤ) - (b : ℤ)) = ((a : ℤ) - (b : ℤ)) + (bnP : ℤ) by
    show _ = _ + (Y12.P : ℤ); ring]
  rw [Int.add_emod_right]

theorem int_neg_mod (b : ℕ) (h : b ≤ Y12.P) :
    (((Y12.P - b) % Y12.P : ℕ) : ℤ) = (-(b : ℤ)) % (bnP : ℤ) := by
  have := int_sub_mod 0 b h
  simpa using this

theorem toL_add (a b : Y12) : toL (a + b) = toL a + toL b := by
  show toL (addF a b) = Fqp.add (toL a) (toL b)
  simp only [toL, addF, Fqp.add, Fqp.ofInts, List.zipWith_cons_cons, List.zipWith_nil_right,
    List.map_cons, List.map_nil, Int.natCast_mod, Nat.cast_add]

theorem toL_sub {a b : Y12} (hb : Good b) : toL (a - b) = toL a - toL b := by
  obtain ⟨''' + ", ".join(f"h{i}" for i in range(N)) + '''⟩ := hb
  show toL (subF a b) = Fqp.sub (toL a) (toL b)
  simp only [toL, subF, Fqp.sub, Fqp.ofInts, List.zipWith_cons_cons, List.zipWith_nil_right,
    List.map_cons, List.map_nil]
  rw [''' + ", ".join(f"int_sub_mod _ _ h{i}.le" for i in range(N)) + ''']

theorem toL_neg {a : Y12} (ha : Good a) : toL (-a) = -toL a := by
  obtain ⟨''' + ", ".join(f"h{i}" for i in range(N)) + '''⟩ := ha
  show toL (negF a) = Fqp.neg (toL a)
  simp only [toL, negF, Fqp.neg, Fqp.ofInts, List.map_cons, List.map_nil]
  rw [''' + ", ".join(f"int_neg_mod _ h{i}.le" for i in range(N)) + ''']

theorem toL_zero : toL 0 = 0 := by decide +kernel
theorem toL_one : toL 1 = 1 := by decide +kernel

theorem toL_natCast (n : ℕ) : toL (n : Y12) = (n : OBn12) := by
  show toL (natF n) = Fqp.ofIntScalar (n : ℤ)
  have h12 : bnMc12.length - 1 = 11 := by decide
  simp only [toL, natF, Fqp.ofIntScalar, Fqp.ofInts, h12, List.replicate, List.map_cons, List.map_nil,
    Int.natCast_mod, Int.zero_emod, Nat.cast_zero]

theorem good_addF (a b : Y12) : Good (addF a b) := by
  simp only [Good, addF]
  refine ⟨''' + ", ".join(["?_"]*N) + '''⟩ <;> exact Nat.mod_lt _ P_pos
theorem good_subF (a b : Y12) : Good (subF a b) := by
  simp only [Good, subF]
  refine ⟨''' + ", ".join(["?_"]*N) + '''⟩ <;> exact Nat.mod_lt _ P_pos
theorem good_negF (a : Y12) : Good (negF a) := by
  simp only [Good, negF]
  refine ⟨''' + ", ".join(["?_"]*N) + '''⟩ <;> exact Nat.mod_lt _ P_pos
theorem good_natF (n : ℕ) : Good (natF n) := by
  simp only [Good, natF]
  refine ⟨''' + ", ".join(["?_"]*N) + '''⟩ <;> first | exact Nat.mod_lt _ P_pos | exact P_pos
theorem good_zeroF : Good zeroF := by decide
theorem good_oneF : Good oneF := by decide

theorem good_divF (a b : Y12) : Good (divF a b) :=
  good_ofL (canon_mul' (by decide) (by decide) _ _)

theorem toL_div (a b : Y12) : toL (a / b) = toL a / toL b :=
  toL_ofL (canon_mul' (by decide) (by decide) _ _)

theorem powAuxF_spec : ∀ (f : ℕ) (o t : Y12) (e : ℕ), Good o →
    Good (powAuxF f o t e) ∧ toL (powAuxF f o t e) = Fqp.powAux f (toL o) (toL t) e := by
  intro f
  induction f with
  | zero => intro o t e ho; exact ⟨ho, rfl⟩
  | succ n ih =>
    intro o t e ho
    unfold powAuxF Fqp.powAux
    by_cases he : e = 0
    · rw [if_pos he, if_pos he]; exact ⟨ho, rfl⟩
    · rw [if_neg he, if_neg he]
      by_cases hodd : e % 2 = 1
      · rw [if_pos hodd, if_pos hodd]
        have := ih (mulF o t) (mulF t t) (e / 2) (good_mulF o t)
        rw [show toL (mulF o t) = Fqp.mul (toL o) (toL t) from toL_mul o t,
          show toL (mulF t t) = Fqp.mul (toL t) (toL t) from toL_mul t t] at this
        exact this
      · rw [if_neg hodd, if_neg hodd]
        have := ih o (mulF t t) (e / 2) ho
        rw [show toL (mulF t t) = Fqp.mul (toL t) (toL t) from toL_mul t t] at this
        exact this

theorem toL_pow (a : Y12) (n : ℕ) : toL (a ^ n) = toL a ^ n := by
  have := (powAuxF_spec n oneF a n good_oneF).2
  rw [show toL oneF = (Fqp.one : OBn12) from toL_one] at this
  exact this

theorem good_powF (a : Y12) (n : ℕ) : Good (a ^ n) := (powAuxF_spec n oneF a n good_oneF).1

/-- **`toL` is a homomorphism from the fast arithmetic to the model's `FQ12`** for all ten operations
    of the generated generic code (on reduced elements), and is injective. -/
theorem goodHom_toL : GoodHom Good toL where
  good_zero := good_zeroF
  good_one := good_oneF
  good_add := fun _ _ => good_addF _ _
  good_sub := fun _ _ => good_subF _ _
  good_mul := fun _ _ => good_mulF _ _
  good_neg := fun _ => good_negF _
  good_div := fun _ _ => good_divF _ _
  good_natCast := good_natF
  good_pow := fun n _ => good_powF _ n
  map_zero := toL_zero
  map_one := toL_one
  map_add := fun _ _ => toL_add _ _
  map_sub := fun _ hb => toL_sub hb
  map_mul := fun _ _ => toL_mul _ _
  map_neg := fun ha => toL_neg ha
  map_div := fun _ _ => toL_div _ _
  map_natCast := toL_natCast
  map_pow := fun n _ => toL_pow _ n
  inj := fun _ _ e => toL_injective e

end PyEcc.NondegBnSem
''')
open("/tmp/pw/nondegbn/lean/PyEcc/Lemmas/NondegFastBn.lean","w").write("\n".join(out))
