import sys, random, json
sys.path.insert(0,'/verif/tools/harness')
import oracle as O
from oracle import Fp, Fp2, aff_add, aff_mul, BLS_P as p, BLS_R as r, H1, H2
rng = random.Random(20260929)
N1 = H1*r; N2 = H2*r
g = 2
while True:
    w = pow(g, (p-1)//3, p)
    if w != 1: break
    g += 1
c = w*w % p   # c^2 = w
assert pow(c,3,p)==1 and c*c%p==w
def roots(q):
    return [l for l in range(q) if (l*l+l+1)%q==0] if q < 10**5 else None
def cube_roots(q):
    # roots of l^2+l+1 mod q
    if q % 3 != 1: return []
    # find via generator
    a=2
    while True:
        l = pow(a,(q-1)//3,q)
        if l != 1: break
        a+=1
    return sorted([l, l*l%q])
res = {'w': w, 'c': c, 'g1': {}, 'g2': {}}
def phi1(P): return (P[0]*w, P[1])
for q in [11,10177,859267,52437899]:
    ls = cube_roots(q)
    while True:
        R = O.rand_curve_point_g1(rng)
        T = aff_mul(R, N1//q**2)
        if T is None: continue
        assert aff_mul(T,q) is None
        fT = phi1(T)
        assert O.on_curve(fT, O.b1())
        bad = fT == T or any(aff_mul(T,l)==fT for l in ls)
        if bad: print('eigen, retry', q); continue
        break
    for l in ls: assert (l*l+l+1)%q==0
    res['g1'][q] = {'x': T[0].v, 'y': T[1].v, 'ls': ls}
    print(q, ls)
def phi2(P): return (P[0]*w, P[1])
Qb = H2
for s in [13,13,23,23,2713,11953,262069]: Qb//=s
res['Q']=Qb
for q in [13,23]:
    ls = cube_roots(q)
    while True:
        R = O.rand_curve_point_g2(rng)
        T = aff_mul(R, N2//q**2)
        if T is None: continue
        assert aff_mul(T,q) is None
        fT = phi2(T)
        assert O.on_curve(fT, O.b2())
        bad = fT == T or any(aff_mul(T,l)==fT for l in ls)
        if bad: print('eigen, retry', q); continue
        break
    res['g2'][q] = {'x': T[0].coeffs(), 'y': T[1].coeffs(), 'ls': ls}
    print(q, ls)
for q in [2713,11953,262069,Qb]:
    while True:
        R = O.rand_curve_point_g2(rng)
        T = aff_mul(R, N2//q)
        if T is None: continue
        assert aff_mul(T,q) is None
        break
    res['g2'][q] = {'x': T[0].coeffs(), 'y': T[1].coeffs(), 'ls': []}
    print(q)
json.dump(res, open('pts.json','w'))
