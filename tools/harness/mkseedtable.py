#!/venv/bin/python
"""prints the markdown table of DESIGN.md §9 from seeded/*/{meta,result}.json"""
import glob
import json
import os

VERIF = os.path.abspath(os.path.join(os.path.dirname(os.path.abspath(__file__)), "..", ".."))


def main():
    print("| seeded change | property | what it changes / what it needs | caught by (quick tier) | how |")
    print("|---|---|---|---|---|")
    n = det = 0
    for d in sorted(glob.glob(os.path.join(VERIF, "seeded", "*"))):
        mp, rp = os.path.join(d, "meta.json"), os.path.join(d, "result.json")
        if not (os.path.exists(mp) and os.path.exists(rp)):
            continue
        m, r = json.load(open(mp)), json.load(open(rp))
        n += 1
        checks = r.get("checks", {})
        caught = []
        how = []
        for p, x in sorted(checks.items()):
            if x.get("exit") == 1:
                kind = x.get("kind") or ""
                br = x.get("broken", {})
                legs = []
                if br.get("theorems") or br.get("build") or br.get("tie"):
                    legs.append("T")
                if br.get("correspondence"):
                    legs.append("C")
                preds = sorted({f["predicate"] for f in x.get("failing", [])})
                if preds:
                    legs.append("P:" + "/".join(preds))
                caught.append(p + ("" if kind == "failing-input" else "°"))
                how.append(f"{p}: {'+'.join(legs) or kind}")
        missed = sorted(p for p, x in checks.items() if x.get("exit") == 0)
        if caught:
            det += 1
        summ = (m.get("summary", "") + " — needs: " + m.get("needs", "")).replace("|", "/").replace("\n", " ")
        if len(summ) > 330:
            summ = summ[:327] + "…"
        print(f"| `{os.path.basename(d)}` | {m.get('property')} | {summ} | {', '.join(caught) or '—'}"
              f"{(' (not by ' + ', '.join(missed) + ')') if missed else ''} | {'; '.join(how)} |")
    print()
    print(f"{det} of {n} seeded changes are caught by at least one registered check. "
          "T = a theorem / the translator tie stopped checking, C = model/implementation correspondence disagreement, "
          "P = statement-level predicate failed on the real code (that input is the replay); ° = reported as no-failing-input-found.")


if __name__ == "__main__":
    main()
