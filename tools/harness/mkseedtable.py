#!/venv/bin/python
"""prints the markdown table of DESIGN.md §9 from seeded/*/{meta,result}.json"""
import glob
import json
import os

VERIF = os.path.abspath(os.path.join(os.path.dirname(os.path.abspath(__file__)), "..", ".."))


def main():
    print("| seeded change | property | what it changes / what it needs | caught by (quick tier) | how |")
    print("|---|---|---|---|---|")
    n = det = 0
    for d in sorted(glob.glob(os.path.join(VERIF, "seeded", "*"))):
        mp, rp = os.path.join(d, "meta.json"), os.path.join(d, "result.json")
        if not (os.path.exists(mp) and os.path.exists(rp)):
            continue
        m, r = json.load(open(mp)), json.load(open(rp))
        n += 1
        checks = r.get("checks", {})
        caught = []
        how = []
        for p, x in sorted(checks.items()):
            if x.get("exit") == 1:
                kind = x.get("kind") or ""
                br = x.get("broken", {})
                legs = []
                if br.get("theorems") or br.get("build") or br.get("tie"):
                    legs.append("T")
                if br.get("correspondence"):
                    legs.append("C")
                preds = sorted({f["predicate"] for f in x.get("failing", [])})
                if preds:
                    legs.append("P:" + "/".join(preds))
                caught.append(p + ("" if kind == "failing-input" else "°"))
                how.append(f"{p}: {'+'.join(legs) or kind}")
        missed = sorted(p for p, x in checks.items() if x.get("exit") == 0)
        if caught:
            det += 1
        summ = (m.get("summary", "") + " — needs: " + m.get("needs", "")).replace("|", "/").replace("\n", " ")
        if len(summ) > 330:
            summ = summ[:327] + "…"
        print(f"| `{os.path.basename(d)}` | {m.get('property')} | {summ} | {', '.join(caught) or '—'}"
              f"{(' (not by ' + ', '.join(missed) + ')') if missed else ''} | {'; '.join(how)} |")
    print()
    print(f"{det} of {n} seeded changes are caught by at least one registered check. "
          "T = a theorem / the translator tie stopped checking, C = model/implementation correspondence disagreement, "
          "P = statement-level predicate failed on the real code (that input is the replay); ° = reported as no-failing-input-found.")


def refactorings():
    print("| behaviour-preserving refactoring | property | what it changes | check of that property | what stopped checking |")
    print("|---|---|---|---|---|")
    n = al = 0
    for d in sorted(glob.glob(os.path.join(VERIF, "refactorings", "*"))):
        mp, rp = os.path.join(d, "meta.json"), os.path.join(d, "result.json")
        if not (os.path.exists(mp) and os.path.exists(rp)):
            continue
        m, r = json.load(open(mp)), json.load(open(rp))
        x = r.get("checks", {}).get(m.get("property"), {})
        n += 1
        alarm = x.get("exit") == 1
        al += alarm
        br = x.get("broken", {})
        what = "; ".join(f"{k}: {(v[0] if v else '')[:110]}" for k, v in br.items()).replace("|", "/")
        summ = m.get("summary", "").replace("|", "/").replace("\n", " ")
        if len(summ) > 260:
            summ = summ[:257] + "…"
        print(f"| `{os.path.basename(d)}` | {m.get('property')} | {summ} | {'VIOLATION … no-failing-input-found' if alarm else 'OK'} | {what} |")
    print()
    print(f"{al} of {n} behaviour-preserving refactorings are reported (as the brief prescribes when a proof obligation breaks and no failing input exists) "
          f"as `no-failing-input-found`; {n - al} pass.")


if __name__ == "__main__":
    import sys
    if "--refactorings" in sys.argv:
        refactorings()
    else:
        main()
