"""C10 — hash_to_curve follows RFC 9380 and always lands in the prime-order subgroup"""
import hashlib

import oracle as O
from common import Case, Pred, tb, tl
from props.util import from_lib_p3, hashed_case, nontrivial_default, pt_eq

RULE = ("correspondence: optimized_swu_G1/G2, iso_map_G1/G2, map_to_curve_G1/G2, clear_cofactor, sqrt_division_FQ/FQ2 and full hash_to_G1/G2 "
        "(with hash transcripts; sha256 and other hashlib functions) of the model vs the real functions for u in {0, 1, -1, i, (p-1)/2, (p+1)/2, "
        "the roots of Z^2u^4+Zu^2, zero real/imaginary part, random}; predicates: the real map vs the independent straight-line RFC 9380 SSWU "
        "on the isogenous curve (x, y, sgn0), image of the isogeny on the target curve, result in the prime-order subgroup")
HYPOTHESES = ['HB4_hash']
NOT_YET_PROVED = []
ASSUMPTIONS = []
nontrivial = nontrivial_default
EXTRA_MODULES = {"Props.TieSwu": "PyEcc.Tie.", "Props.TieCofactor": "PyEcc.Tie.", "Props.TieHashIso": "PyEcc.Tie.", "Props.TieFieldsFq": "PyEcc.Tie.", "Props.TieFieldsFqp": "PyEcc.Tie."}

P = O.BLS_P
CHUNK = 8

ISO11_A = 0x144698a3b8e9433d693a02c96d4982b0ea985383ee66a8d8e8981aefd881ac98936f8da0e0f97f5cf428082d584c1d
ISO11_B = 0x12e2908d11688030018b12e8753eee3b2016c1f0f24f4070a0b9c14fcef35ef55a23215a316ceaa5d1cc48e98e172be0


def _iso_params(grp):
    if grp == 1:
        return O.Fp(ISO11_A, P), O.Fp(ISO11_B, P), O.Fp(11, P)
    return O.Fp2(0, 240, P), O.Fp2(1012, 1012, P), O.Fp2(-2, -1, P)


def exceptional_u(grp):
    """roots of Z^2 u^4 + Z u^2 other than 0: u^2 = -1/Z"""
    A, B, Z = _iso_params(grp)
    t = (Z.like(0) - Z.like(1)) / Z
    r = t.sqrt()
    return [] if r is None else [r, -r]


def us_g1(rng, tier):
    us = [0, 1, P - 1, (P - 1) // 2, (P + 1) // 2, 2, rng.randrange(P), rng.randrange(P)] + [u.v for u in exceptional_u(1)]
    if tier == "thorough":
        us += [rng.randrange(P) for _ in range(60)]
    return us


def us_g2(rng, tier):
    us = [[0, 0], [1, 0], [P - 1, 0], [0, 1], [(P - 1) // 2, (P + 1) // 2], [rng.randrange(P), 0], [0, rng.randrange(P)],
          [rng.randrange(P), rng.randrange(P)], [rng.randrange(P), rng.randrange(P)]] + [u.coeffs() for u in exceptional_u(2)]
    if tier == "thorough":
        us += [[rng.randrange(P), rng.randrange(P)] for _ in range(40)]
    return us


_KERNEL = {}


def iso11_kernel_points(rng):
    """points of E1' in the kernel of the 11-isogeny (roots of the x- and y-denominators that are x-coordinates of Fp-points),
    and field elements u whose SSWU image is such a point"""
    if "pts" in _KERNEL:
        return _KERNEL["pts"], _KERNEL["us"]
    from py_ecc.optimized_bls12_381 import constants as K
    A, B, Z = _iso_params(1)
    co = K.ISO_11_MAP_COEFFICIENTS
    toint = lambda c: int(c.n) if hasattr(c, "n") else int(c)  # noqa: E731
    xs = set(O.poly_roots_fp([toint(c) for c in co[1]], P, rng)) | set(O.poly_roots_fp([toint(c) for c in co[3]], P, rng))
    pts, us = [], []
    for x in sorted(xs):
        X = O.Fp(x, P)
        y = (X * X * X + A * X + B).sqrt()
        if y is None:
            continue
        pts.append((X, y))
        # invert SSWU: x1 = (-B/A)(1 + 1/(t^2 + t)), t = Z u^2  =>  t^2 + t - 1/c = 0 with c = -A x / B - 1 ; or x = Z u^2 x1
        c = (X * A * (-1)) / B - 1
        if not c.is_zero():
            disc = (c.like(1) + c.like(4) / c).sqrt()
            if disc is not None:
                for sg in (1, -1):
                    t = (disc * sg - 1) / 2
                    u = (t / Z).sqrt()
                    if u is not None:
                        us += [u.v, (-u).v]
    _KERNEL["pts"], _KERNEL["us"] = pts, us
    return pts, us


def _h2c_case(op, hname, msg, dst):
    from py_ecc.bls import hash_to_curve as H2C
    import pyexec

    def run(rh):
        f = H2C.hash_to_G1 if op.endswith("g1") else H2C.hash_to_G2
        return pyexec.show_p3(f(msg, dst, rh))
    return hashed_case("h2c." + op, hname, run, [tb(msg), tb(dst)])


def cases(rng, tier):
    cs = []
    for u in us_g1(rng, tier):
        cs.append(Case("h2c.swu_g1", [tl([u])]))
        cs.append(Case("h2c.map_g1", [tl([u])]))
    for u in us_g2(rng, tier):
        cs.append(Case("h2c.swu_g2", [tl(u)]))
        cs.append(Case("h2c.map_g2", [tl(u)]))
    # the isogeny maps on their own: generic points of the isogenous curves in random projective scalings, and the rational
    # kernel of the 11-isogeny (image = the point at infinity)
    A1, B1, Z1_ = _iso_params(1)
    kpts, kus = iso11_kernel_points(rng)
    for (X, Y) in kpts:
        for sc in (1, rng.randrange(2, P)):
            cs.append(Case("h2c.iso_g1", [tl([X.v * sc % P]), tl([Y.v * sc % P]), tl([sc])], tags=("iso-kernel",)))
    for u in kus[:8]:
        cs.append(Case("h2c.map_g1", [tl([u])], tags=("iso-kernel",)))
        cs.append(Case("h2c.swu_g1", [tl([u])], tags=("iso-kernel",)))
    for _ in range(3 if tier == "quick" else 12):
        sw = O.sswu(O.Fp(rng.randrange(P), P), A1, B1, Z1_)
        sc = rng.randrange(1, P)
        cs.append(Case("h2c.iso_g1", [tl([sw[0].v * sc % P]), tl([sw[1].v * sc % P]), tl([sc])]))
        A2, B2, Z2_ = _iso_params(2)
        sw2 = O.sswu(O.Fp2(rng.randrange(P), rng.randrange(P), P), A2, B2, Z2_)
        s2 = O.Fp2(rng.randrange(1, P), rng.randrange(P), P)
        cs.append(Case("h2c.iso_g2", [tl((sw2[0] * s2).coeffs()), tl((sw2[1] * s2).coeffs()), tl(s2.coeffs())]))
    for _ in range(3 if tier == "quick" else 20):
        a, b = rng.randrange(P), rng.randrange(1, P)
        cs.append(Case("h2c.sqrt_div_fq", [tl([a]), tl([b])]))
        cs.append(Case("h2c.sqrt_div_fq", [tl([a * a % P * b % P]), tl([b])]))
        u = [rng.randrange(P), rng.randrange(P)]
        v = [rng.randrange(P), rng.randrange(1, P)]
        cs.append(Case("h2c.sqrt_div_fq2", [tl(u), tl(v)]))
        x = O.Fp2(*u, P)
        cs.append(Case("h2c.sqrt_div_fq2", [tl((x * x * O.Fp2(*v, P)).coeffs()), tl(v)]))
    dsts = [b"QUUX-V01-CS02-with-BLS12381G2_XMD:SHA-256_SSWU_RO_", b"", b"x" * 255]
    msgs = [b"", b"abc", b"abcdef0123456789", b"a" * 133]
    n = 2 if tier == "quick" else 10
    for _ in range(n):
        cs.append(_h2c_case("hash_to_g2", "sha256", rng.choice(msgs), rng.choice(dsts)))
        cs.append(_h2c_case("hash_to_g1", "sha256", rng.choice(msgs), rng.choice(dsts)))
    for hname in ("sha384", "sha1", "sha224", "sha3_384"):
        cs.append(_h2c_case("hash_to_g2", hname, b"abc", dsts[0]))
        cs.append(_h2c_case("hash_to_g1", hname, b"abc", dsts[0]))
    cs.append(_h2c_case("hash_to_g2", "sha512", b"abc", dsts[0]))
    cs.append(_h2c_case("hash_to_g2", "sha3_256", b"abc", dsts[0]))
    cs.append(_h2c_case("hash_to_g1", "blake2b", b"abc", dsts[0]))
    cs.append(_h2c_case("hash_to_g2", "sha256", b"abc", b"y" * 256))
    return cs


def swu_pred(grp, u):
    from py_ecc.fields import optimized_bls12_381_FQ as FQ, optimized_bls12_381_FQ2 as FQ2
    from py_ecc.optimized_bls12_381 import optimized_swu as S
    A, B, Z = _iso_params(grp)
    uo = O.Fp(u[0], P) if grp == 1 else O.Fp2(u[0], u[1], P)
    want = O.sswu(uo, A, B, Z)
    got = from_lib_p3(S.optimized_swu_G1(FQ(u[0])) if grp == 1 else S.optimized_swu_G2(FQ2(u)))
    bad = []
    if got is None:
        bad.append("returned infinity / zero denominator")
    else:
        if not (got[1] * got[1] == got[0] * got[0] * got[0] + A * got[0] + B):
            bad.append("not on the isogenous curve")
        if not pt_eq(got, want):
            bad.append("differs from the straight-line RFC 9380 SSWU")
        if got[1].sgn0() != uo.sgn0():
            bad.append("sgn0(y) != sgn0(u)")
    return (not bad, f"optimized_swu_G{grp}: {bad} at u={u}")


def map_pred(grp, u):
    from py_ecc.bls import hash_to_curve as H2C
    from py_ecc.bls.g2_primitives import subgroup_check
    from py_ecc.fields import optimized_bls12_381_FQ as FQ, optimized_bls12_381_FQ2 as FQ2
    pt = H2C.map_to_curve_G1(FQ(u[0])) if grp == 1 else H2C.map_to_curve_G2(FQ2(u))
    aff = from_lib_p3(pt)
    b = O.b1() if grp == 1 else O.b2()
    bad = []
    if not O.on_curve(aff, b):
        bad.append("isogeny image not on the target curve")
    cl = H2C.clear_cofactor_G1(pt) if grp == 1 else H2C.clear_cofactor_G2(pt)
    if not subgroup_check(cl) or O.aff_mul(from_lib_p3(cl), O.BLS_R) is not None:
        bad.append("cleared point outside the prime-order subgroup")
    return (not bad, f"map_to_curve_G{grp}: {bad} at u={u}")


def iso_kernel_pred(which, val):
    """kernel of the 11-isogeny: iso_map_G1 / map_to_curve_G1 must return the point at infinity (z = 0), never an off-curve triple"""
    from py_ecc.bls import hash_to_curve as H2C
    from py_ecc.fields import optimized_bls12_381_FQ as FQ
    from py_ecc.optimized_bls12_381 import add, b, is_inf, is_on_curve, optimized_swu as S
    if which == "pt":
        x, y, sc = val
        out = S.iso_map_G1(FQ(x * sc), FQ(y * sc), FQ(sc))
    else:
        out = H2C.map_to_curve_G1(FQ(val))
    bad = []
    if not is_on_curve(out, b):
        bad.append("image is not on the curve")
    if not is_inf(out):
        bad.append("image of a kernel point is not the point at infinity")
    if which == "u":
        other = H2C.map_to_curve_G1(FQ(5))
        cl = H2C.clear_cofactor_G1(add(out, other))
        if not is_on_curve(cl, b) or not pt_eq(from_lib_p3(cl), from_lib_p3(H2C.clear_cofactor_G1(other))):
            bad.append("clear_cofactor(map(u) + Q) != clear_cofactor(Q)")
    return (not bad, f"11-isogeny kernel ({which}={str(val)[:40]}..): {bad}")


def multi_hash_history_pred(grp, msg, dst):
    """one interpreter: the same (message, tag) hashed with different hash functions, in both orders — each = the RFC point for THAT hash"""
    bad = []
    for order in (("sha256", "sha512", "sha3_256", "sha256"), ("sha512", "sha256", "blake2b", "sha512")):
        for h in order:
            ok, detail = hash_pred(grp, msg, dst, h)
            if not ok:
                bad.append(f"{h} after {order}: {detail[:120]}")
    return (not bad, f"hash_to_G{grp} with several hash functions in one process: {bad[:3]}")


def hash_pred(grp, msg, dst, hname):
    """hash_to_G: = clear_cofactor(map(u0) + map(u1)) with u from the independent hash_to_field; on curve; in subgroup"""
    from py_ecc.bls import hash_to_curve as H2C
    from py_ecc.bls.g2_primitives import subgroup_check
    from py_ecc.fields import optimized_bls12_381_FQ as FQ, optimized_bls12_381_FQ2 as FQ2
    from py_ecc.optimized_bls12_381 import add
    hf = getattr(hashlib, hname)
    A, B, Z = _iso_params(grp)
    if grp == 1:
        got = H2C.hash_to_G1(msg, dst, hf)
        us = O.rfc_hash_to_field(msg, 2, dst, hname, 1)
        q = [H2C.map_to_curve_G1(FQ(u[0])) for u in us]
        want = H2C.clear_cofactor_G1(add(q[0], q[1]))
        sw = [O.sswu(O.Fp(u[0], P), A, B, Z) for u in us]
        from py_ecc.optimized_bls12_381 import optimized_swu as S
        lib_sw = [from_lib_p3(S.optimized_swu_G1(FQ(u[0]))) for u in us]
    else:
        got = H2C.hash_to_G2(msg, dst, hf)
        us = O.rfc_hash_to_field(msg, 2, dst, hname, 2)
        q = [H2C.map_to_curve_G2(FQ2(u)) for u in us]
        want = H2C.clear_cofactor_G2(add(q[0], q[1]))
        sw = [O.sswu(O.Fp2(u[0], u[1], P), A, B, Z) for u in us]
        from py_ecc.optimized_bls12_381 import optimized_swu as S
        lib_sw = [from_lib_p3(S.optimized_swu_G2(FQ2(u))) for u in us]
    bad = []
    if not pt_eq(from_lib_p3(got), from_lib_p3(want)):
        bad.append("!= clear_cofactor(map(u0)+map(u1)) with the RFC hash_to_field")
    if not all(pt_eq(a, b_) for a, b_ in zip(sw, lib_sw)):
        bad.append("SSWU leg differs from the RFC")
    aff = from_lib_p3(got)
    if not O.on_curve(aff, O.b1() if grp == 1 else O.b2()):
        bad.append("not on the curve")
    if not subgroup_check(got) or O.aff_mul(aff, O.BLS_R) is not None:
        bad.append("outside the prime-order subgroup")
    return (not bad, f"hash_to_G{grp}: {bad} msg={msg!r} |dst|={len(dst)} hash={hname}")


RFC_G2_DST = b"QUUX-V01-CS02-with-BLS12381G2_XMD:SHA-256_SSWU_RO_"
RFC_G2_EMPTY = (0x0141ebfbdca40eb85b87142e130ab689c673cf60f1a3e98d69335266f30d9b8d4ac44c1038e9dcdd5393faf5c41fb78a,
                0x05cb8437535e20ecffaef7752baddf98034139c38452458baeefab379ba13dff5bf5dd71b72418717047f5b0f37da03d)


def rfc_vector_pred():
    """RFC 9380 J.10.1 first vector (msg = ''): P.x"""
    from py_ecc.bls.hash_to_curve import hash_to_G2
    aff = from_lib_p3(hash_to_G2(b"", RFC_G2_DST, hashlib.sha256))
    ok = aff is not None and (aff[0].a, aff[0].b) == RFC_G2_EMPTY
    return (ok, "RFC 9380 J.10.1 vector for the empty message not reproduced (x coordinate)")


def predicates(rng, tier, only=None):
    ps = [Pred("rfc-vector", rfc_vector_pred, ()),
          Pred("hash-to-curve", multi_hash_history_pred, (2, b"history", b"tag")), Pred("hash-to-curve", multi_hash_history_pred, (1, b"history", b"tag"))]
    kpts, kus = iso11_kernel_points(rng)
    for (X, Y) in kpts[:6]:
        ps.append(Pred("isogeny-kernel", iso_kernel_pred, ("pt", (X.v, Y.v, rng.randrange(1, P)))))
    for u in kus[:6]:
        ps.append(Pred("isogeny-kernel", iso_kernel_pred, ("u", u)))
    for u in us_g1(rng, tier):
        ps.append(Pred("sswu-rfc", swu_pred, (1, [u])))
        ps.append(Pred("map-on-curve", map_pred, (1, [u])))
    for u in us_g2(rng, tier):
        ps.append(Pred("sswu-rfc", swu_pred, (2, u)))
        ps.append(Pred("map-on-curve", map_pred, (2, u)))
    n = 2 if tier == "quick" else 25
    for _ in range(n):
        m = bytes(rng.randrange(256) for _ in range(rng.randrange(0, 80)))
        d = bytes(rng.randrange(256) for _ in range(rng.choice([0, 1, 43, 255])))
        ps.append(Pred("hash-to-curve", hash_pred, (2, m, d, "sha256")))
        ps.append(Pred("hash-to-curve", hash_pred, (1, m, d, "sha256")))
    for hname in ("sha384", "sha1", "sha224"):
        ps.append(Pred("hash-to-curve", hash_pred, (2, b"abc", b"tag", hname)))
        ps.append(Pred("hash-to-curve", hash_pred, (1, b"abc", b"tag", hname)))
    ps.append(Pred("hash-to-curve", hash_pred, (2, b"abc", b"tag", "sha512")))
    ps.append(Pred("hash-to-curve", hash_pred, (1, b"abc", b"tag", "sha3_256")))
    if only:
        ps = [p for p in ps if p.name == only]
    return ps


def search(rng, tier, broken, disagreements):
    return predicates(rng, "thorough")
