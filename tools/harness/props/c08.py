"""C08 — field classes satisfy the field axioms with canonical representatives"""
import itertools

import oracle as O
from common import Case, Pred, tl
from props.util import BLS_MC12, BN_MC12, IRRED, MC2, espec, nontrivial_default

RULE = ("correspondence: field operations of the reference and optimized classes (both real primes, "
        "FQ/FQ2/FQ12, int operands negative and > p, exponents up to p^12) and exhaustive/sampled small-field "
        "instantiations GF(p), GF(p^2), degree-12 extensions; predicates: the field axioms evaluated on the real classes")
EXTRA_MODULES = {"Props.TieFieldsFq": "PyEcc.Tie.", "Props.TieFieldsFqp": "PyEcc.Tie.", "Props.TieFieldsMul": "PyEcc.Tie.", "Props.TieFieldsPoly": "PyEcc.Tie.", "Props.TieFieldsInv": "PyEcc.Tie."}
HYPOTHESES = []
NOT_YET_PROVED = []
ASSUMPTIONS = ["mixed FQ/int coefficient lists passed to the optimized FQP constructor are outside the modelled domain"]
nontrivial = nontrivial_default

PRIMES = {"bls": O.BLS_P, "bn": O.BN_P}
MC12 = {"bls": BLS_MC12, "bn": BN_MC12}


def rand_elem(rng, p, d, kind=None):
    kind = kind or rng.choice(["rand", "rand", "rand", "sparse", "edge"])
    if kind == "rand":
        return [rng.randrange(p) for _ in range(d)]
    if kind == "sparse":
        l = [0] * d
        l[rng.randrange(d)] = rng.randrange(p)
        return l
    return [rng.choice([0, 1, p - 1, 2, p - 2]) for _ in range(d)]


def int_operands(rng, p):
    return [0, 1, -1, 2, p - 1, p, p + 1, 2 * p, -p, 3 * p + 5, -(p * 2) - 7, rng.randrange(p), -rng.randrange(p),
            rng.randrange(p * p)]


def exps(rng, p, tier):
    e = [0, 1, 2, 3, 7, p - 2, p - 1, p, p + 1, p * p - 1, (p * p - 1) // 2, p ** 12 - 1, (p ** 12 - 1) // 3,
         rng.randrange(p), rng.randrange(p ** 2), rng.randrange(p ** 12)]
    return e


def cases(rng, tier):
    cs = []
    n = 3 if tier == "quick" else 20
    for cname, p in PRIMES.items():
        for v in ("ref", "opt"):
            q = f"q:{p}:{v}"
            for _ in range(n):
                a, b = rng.randrange(p), rng.randrange(p)
                for op in ("add", "sub", "mul", "div", "eq"):
                    cs.append(Case("fq." + op, [q, tl([a]), tl([b])]))
                cs.append(Case("fq.neg", [q, tl([a])]))
                cs.append(Case("fq.inv", [q, tl([a])]))
            for a in (0, 1, p - 1):
                for b in (0, 1, p - 1):
                    for op in ("add", "sub", "mul", "div", "eq"):
                        cs.append(Case("fq." + op, [q, tl([a]), tl([b])]))
            a = rng.randrange(p)
            for k in int_operands(rng, p):
                for op in ("addi", "muli", "subi", "rsubi", "divi", "rdivi", "eqi", "lti"):
                    cs.append(Case("fq." + op, [q, tl([a]), k]))
                cs.append(Case("fq.ofint", [q, k]))
                cs.append(Case("pfi", [k, p]))
            for e in exps(rng, p, tier)[: (10 if tier == "quick" else 99)]:
                cs.append(Case("fq.pow", [q, tl([rng.randrange(p)]), e]))
            cs.append(Case("fq.pow", [q, tl([0]), 0]))
            cs.append(Case("fq.pow", [q, tl([rng.randrange(1, p)]), -1]))
            cs.append(Case("fq.pow", [q, tl([rng.randrange(1, p)]), -rng.randrange(2, p)]))
            cs.append(Case("fq.pow", [q, tl([0]), p - 1]))
            for d, mc in ((2, MC2), (12, MC12[cname])):
                s = espec(v, p, mc)
                for _ in range(n):
                    a, b = rand_elem(rng, p, d), rand_elem(rng, p, d)
                    for op in ("add", "sub", "mul", "div", "eq"):
                        cs.append(Case("fqp." + op, [s, tl(a), tl(b)]))
                    cs.append(Case("fqp.neg", [s, tl(a)]))
                    cs.append(Case("fqp.inv", [s, tl(a)]))
                    k = rng.choice(int_operands(rng, p))
                    cs.append(Case("fqp.muli", [s, tl(a), k]))
                    cs.append(Case("fqp.divi", [s, tl(a), k]))
                z = [0] * d
                one = [1] + [0] * (d - 1)
                cs.append(Case("fqp.inv", [s, tl(z)]))
                cs.append(Case("fqp.div", [s, tl(rand_elem(rng, p, d)), tl(z)]))
                cs.append(Case("fqp.inv", [s, tl(one)]))
                cs.append(Case("fqp.one", [s]))
                cs.append(Case("fqp.zero", [s]))
                for e in exps(rng, p, tier)[: (5 if tier == "quick" else 99)]:
                    cs.append(Case("fqp.pow", [s, tl(rand_elem(rng, p, d)), e]))
                cs.append(Case("fqp.pow", [s, tl(z), 0]))
                if v == "opt":
                    for _ in range(n):
                        a = rand_elem(rng, p, d)
                        cs.append(Case("fqp.sgn0", [s, tl(a)]))
                        if d == 2:
                            cs.append(Case("fqp.sgn0_fq2", [s, tl(a)]))
    # small prime fields: exhaustive
    small = [2, 3, 5, 7] if tier == "quick" else [2, 3, 5, 7, 11, 13]
    for p in small:
        for v in ("ref", "opt"):
            q = f"q:{p}:{v}"
            for a, b in itertools.product(range(p), repeat=2):
                for op in ("add", "sub", "mul", "div"):
                    cs.append(Case("fq." + op, [q, tl([a]), tl([b])]))
            for a in range(p):
                for e in (0, 1, 2, p - 1, p, 2 * (p - 1), p * p - 1):
                    cs.append(Case("fq.pow", [q, tl([a]), e]))
                for k in (-p, -1, 0, p, 2 * p, 2 * p + 1):
                    cs.append(Case("fq.divi", [q, tl([a]), k]))
                    cs.append(Case("fq.rdivi", [q, tl([a]), k]))
    # GF(p^2), every irreducible monic quadratic (also with negative coefficient representatives)
    for p in ([2, 3, 5] if tier == "quick" else [2, 3, 5, 7]):
        quads = IRRED["deg2"][str(p)]
        if tier == "quick":
            quads = quads[:4]
        for mc in quads:
            for neg in (False, True):
                mcs = tl([c - p if (neg and c) else c for c in mc])
                for v in ("ref", "opt"):
                    s = espec(v, p, mcs)
                    elems = list(itertools.product(range(p), repeat=2))
                    pairs = list(itertools.product(elems, repeat=2))
                    if len(pairs) > 200:
                        pairs = rng.sample(pairs, 200 if tier == "quick" else 625)
                    for a, b in pairs:
                        cs.append(Case("fqp.mul", [s, tl(a), tl(b)]))
                        cs.append(Case("fqp.div", [s, tl(a), tl(b)]))
                    for a in elems:
                        cs.append(Case("fqp.inv", [s, tl(a)]))
                        cs.append(Case("fqp.pow", [s, tl(a), p * p - 1]))
    # degree-12 extensions of small prime fields: unary all-ish, binary sampled
    for p in ([2, 3] if tier == "quick" else [2, 3, 5, 7]):
        for mc in IRRED["deg12"][str(p)][: (1 if tier == "quick" else 3)]:
            for v in ("ref", "opt"):
                s = espec(v, p, tl(mc))
                for _ in range(12 if tier == "quick" else 150):
                    a, b = rand_elem(rng, p, 12, "rand"), rand_elem(rng, p, 12, "rand")
                    cs.append(Case("fqp.mul", [s, tl(a), tl(b)]))
                    cs.append(Case("fqp.div", [s, tl(a), tl(b)]))
                    cs.append(Case("fqp.inv", [s, tl(a)]))
                    cs.append(Case("fqp.pow", [s, tl(a), p ** 12 - 1]))
    return cs


# ------------------------------------------------------------------ predicates on the real classes
def _classes():
    from py_ecc import fields as Fm
    out = []
    for curve in ("bn128", "bls12_381"):
        for pre in ("", "optimized_"):
            out.append((pre + curve + "_FQ", getattr(Fm, pre + curve + "_FQ"), 1))
            out.append((pre + curve + "_FQ2", getattr(Fm, pre + curve + "_FQ2"), 2))
            out.append((pre + curve + "_FQ12", getattr(Fm, pre + curve + "_FQ12"), 12))
    return out


def _small_classes(tier):
    import pyexec
    out = []
    for p in (2, 3, 5, 7):
        for v in ("ref", "opt"):
            out.append((f"GF({p}) {v}", pyexec.field_class(f"q:{p}:{v}"), 1))
            for mc in IRRED["deg2"][str(p)][:3]:
                out.append((f"GF({p}^2) {mc} {v}", pyexec.field_class(espec(v, p, tl(mc))), 2))
            for mc in IRRED["deg12"][str(p)][:1]:
                out.append((f"GF({p}^12) {v}", pyexec.field_class(espec(v, p, tl(mc))), 12))
    return out


def _mk(C, d, l):
    return C(l[0]) if d == 1 else C(list(l))


def _canon(x, p):
    cs = [x.n] if hasattr(x, "n") else list(x.coeffs)
    return all(isinstance(int(c), int) and 0 <= int(c) < p for c in cs)


def axioms_pred(name, C, d, a, b, c, e1, e2):
    p = C.field_modulus
    x, y, z = _mk(C, d, a), _mk(C, d, b), _mk(C, d, c)
    one, zero = C.one(), C.zero()
    checks = {
        "assoc+": (x + y) + z == x + (y + z), "assoc*": (x * y) * z == x * (y * z),
        "comm+": x + y == y + x, "comm*": x * y == y * x,
        "distrib": x * (y + z) == x * y + x * z,
        "neutral": x + zero == x and x * one == x,
        "neg": x + (-x) == zero and x - y == x + (-y),
        "inv": (x == zero) or (x * (one / x) == one),
        "div": (y == zero) or ((x / y) * y == x),
        "div0": x / zero == zero,
        "pow-add": x ** (e1 + e2) == (x ** e1) * (x ** e2),
        "pow-small": x ** 3 == x * x * x and x ** 0 == one and x ** 1 == x,
        "pow-zero": (e1 == 0 or zero ** e1 == zero) and (e2 == 0 or zero ** e2 == zero) and zero ** (p - 1) == zero
                    and zero ** (2 * (p - 1)) == zero and zero ** (p * p - 1) == zero,
        "pow-one": one ** e1 == one,
        "pow-fermat": (x == zero) or x ** (p ** d - 1) == one,
        "canonical": all(_canon(r, p) for r in (x + y, x - y, x * y, x / y if not y == zero else x, -x, x ** e1)),
    }
    bad = [k for k, v in checks.items() if not v]
    return (not bad, f"{name}: failed {bad} at x={a} y={b} z={c} e1={e1} e2={e2}")


def int_pred(name, C, d, a, k):
    p = C.field_modulus
    x = _mk(C, d, a)
    kk = _mk(C, d, [k] + [0] * (d - 1)) if d > 1 else C(k)
    checks = {"mul-int": x * k == x * kk, "rmul-int": k * x == kk * x, "div-int": x / k == x / kk}
    if d == 1:
        checks.update({"add-int": x + k == x + kk, "radd-int": k + x == kk + x, "sub-int": x - k == x - kk,
                       "rsub-int": k - x == kk - x, "rdiv-int": k / x == kk / x})
    bad = [n for n, v in checks.items() if not v]
    return (not bad, f"{name}: int operand {k} does not act as its residue: {bad} at x={a}")


def shared_tuple_pred(v, mc, primes):
    """ONE interpreter, FRESH classes: quadratic extensions over DIFFERENT primes declared with the SAME modulus-coefficient tuple
    (entries negative or >= the smaller prime), used one after the other. Anything remembered per coefficient tuple / per degree
    instead of per class (wrapped coefficients, a reduction table) shows only in such a history. Checked against the textbook
    GF(p^2) oracle: x*x, a*b, a/b, a*a.inv(), a**(p^2-1)."""
    from py_ecc.fields import field_elements as R, optimized_field_elements as Op
    M = R if v == "ref" else Op
    bad = []
    for p in primes:
        C = type(f"FQ2_hist_{v}_{p}", (M.FQ2,), {"field_modulus": p, "FQ2_MODULUS_COEFFS": tuple(mc)})
        E = lambda l, p=p: O.Fpk(list(l), p, [c % p for c in mc])  # noqa: E731
        for a, b in (((0, 1), (0, 1)), ((1, 1), (p - 1, 2)), ((2, p - 1), (1, 1))):
            x, y = C(list(a)), C(list(b))
            ex, ey = E(a), E(b)
            for nm, got, want in (("mul", x * y, ex * ey), ("div", x / y, ex / ey), ("sq", x * x, ex * ex),
                                  ("inv", x * x.inv(), E((1, 0))), ("pow", x ** (p * p - 1), E((1, 0)))):
                if [int(c) % p for c in got.coeffs] != [int(c) % p for c in want.c] or not _canon(got, p):
                    bad.append(f"GF({p}^2) {nm} {a} {b}: {[int(c) for c in got.coeffs]} != {[int(c) for c in want.c]}")
    return (not bad, f"{v} FQ2 classes with the shared coefficient tuple {mc} over the primes {primes}, in this order: {bad[:4]}")


def predicates(rng, tier, only=None):
    ps = []
    n = 2 if tier == "quick" else 12
    for v in ("ref", "opt"):
        # x^2 - 2 is irreducible over GF(3), GF(5), GF(11), GF(13); x^2 + 7 = x^2 + 1 over GF(3), x^2 + 3 over GF(7)... (7 = -3 mod 5: x^2+2)
        ps.append(Pred("field-axioms", shared_tuple_pred, (v, (-2, 0), (3, 5, 11))))
        ps.append(Pred("field-axioms", shared_tuple_pred, (v, (-2, 0), (13, 5, 3))))
        ps.append(Pred("field-axioms", shared_tuple_pred, (v, (7, 0), (3, 5))))
        ps.append(Pred("field-axioms", shared_tuple_pred, (v, (7, 0), (5, 3))))
    for name, C, d in _classes() + _small_classes(tier):
        p = C.field_modulus
        for _ in range(n):
            a, b, c = rand_elem(rng, p, d), rand_elem(rng, p, d), rand_elem(rng, p, d)
            e1, e2 = rng.choice([rng.randrange(p ** d), rng.randrange(50), p - 1]), rng.choice([rng.randrange(p ** 2), 0, 1])
            ps.append(Pred("field-axioms", axioms_pred, (name, C, d, a, b, c, e1, e2)))
        a = rand_elem(rng, p, d)
        for k in (0, -1, p, p + 1, 2 * p, -p, 3 * p, -rng.randrange(1, p * p), rng.randrange(p * p)):
            ps.append(Pred("int-residue", int_pred, (name, C, d, a, k)))
        # zero base with exponents that are multiples of p-1
        ps.append(Pred("field-axioms", axioms_pred, (name, C, d, [0] * d, rand_elem(rng, p, d), [0] * d, 2 * (p - 1), p * p - 1)))
    if only:
        ps = [x for x in ps if x.name == only]
    return ps


def search(rng, tier, broken, disagreements):
    return predicates(rng, "thorough")
