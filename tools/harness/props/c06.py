"""C06 — ECDSA: sign-then-recover returns the signer's key; signatures valid and low-s"""
import oracle as O
from common import Case, Pred, tb
from props.util import nontrivial_default

RULE = ("correspondence: ecdsa_raw_sign / deterministic_generate_k / ecdsa_raw_recover / privtopub of the model (generated Jacobian "
        "code + RFC 6979 HMAC chain) vs the real functions for d in {1,2,N-2,N-1,small,random} and hashes 00..,ff..,N-1,N,N+1, random, "
        "lengths 0..64; nonce substituted to reach the excluded k; predicates: v in {27,28}, 1<=r<N, 1<=s<=N/2, the ECDSA "
        "verification equation (independent affine oracle), recover(v)=privtopub(d), recover(55-v)!=privtopub(d), nonce = RFC 6979")
HYPOTHESES = ['HB4_hash (hashlib/hmac are deterministic functions of their input)']
NOT_YET_PROVED = []
ASSUMPTIONS = ["k % N != 0, x(kG) % N != 0, s != 0 and x(kG) < N are explicit hypotheses (sets of relative size <= 2^-127, not reachable through HMAC)"]
nontrivial = nontrivial_default
EXTRA_MODULES = {"Props.TieSecp": "PyEcc.Tie.", "Props.TieHashSecp": "PyEcc.Tie."}
P_, N_ = O.SECP_P, O.SECP_N


def G():
    return (O.Fp(O.SECP_G[0], P_), O.Fp(O.SECP_G[1], P_))


def keys(rng, tier):
    ks = [1, 2, N_ - 2, N_ - 1, rng.randrange(1, 1 << 16), rng.randrange(1, N_), rng.randrange(1, N_)]
    if tier == "thorough":
        ks += [rng.randrange(1, N_) for _ in range(20)] + [1 << b for b in range(0, 256, 17)]
    return ks


def hashes(rng, tier):
    hs = [b"\x00" * 32, b"\xff" * 32, (N_ - 1).to_bytes(32, "big"), N_.to_bytes(32, "big"), (N_ + 1).to_bytes(32, "big"),
          bytes(rng.randrange(256) for _ in range(32)), bytes(rng.randrange(256) for _ in range(32))]
    lens = [0, 1, 31, 33, 64] if tier == "quick" else list(range(0, 65))
    hs += [bytes(rng.randrange(256) for _ in range(n)) for n in lens]
    return hs


def cases(rng, tier):
    cs = []
    ks, hs = keys(rng, tier), hashes(rng, tier)
    for d in ks:
        db = d.to_bytes(32, "big")
        cs.append(Case("secp.privtopub", [tb(db)]))
        for h in (hs if tier == "thorough" else rng.sample(hs, 6) + hs[:2]):
            cs.append(Case("secp.generate_k", [tb(h), tb(db)]))
            cs.append(Case("secp.sign", [tb(h), tb(db)]))
    # substituted nonces (the model's rawSignWithK vs the real sign with deterministic_generate_k patched)
    d = rng.randrange(1, N_).to_bytes(32, "big")
    h = bytes(rng.randrange(256) for _ in range(32))
    for k in [1, 2, N_ - 1, N_ + 1, 2 * N_ + 5, rng.randrange(1, N_), rng.randrange(1 << 256)]:
        cs.append(Case("secp.sign_k", [tb(h), tb(d), k]))
    return cs


def sign_pred(d, h):
    from py_ecc.secp256k1 import secp256k1 as S
    db = d.to_bytes(32, "big")
    v, r, s = S.ecdsa_raw_sign(h, db)
    pub = S.privtopub(db)
    Q = O.aff_mul(G(), d)
    z = int.from_bytes(h, "big")
    bad = []
    if (int(pub[0]), int(pub[1])) != (Q[0].v, Q[1].v):
        bad.append("privtopub != d*G")
    if v not in (27, 28):
        bad.append("v")
    if not (1 <= r < N_):
        bad.append("r range")
    if not (1 <= s <= N_ // 2):
        bad.append("s not low")
    if 1 <= s < N_ and 1 <= r < N_:
        w = pow(s, -1, N_)
        X = O.aff_add(O.aff_mul(G(), z * w % N_), O.aff_mul(Q, r * w % N_))
        if X is None or X[0].v % N_ != r % N_:
            bad.append("verification equation")
    rec = S.ecdsa_raw_recover(h, (v, r, s))
    if (int(rec[0]), int(rec[1])) != (Q[0].v, Q[1].v):
        bad.append("recover != privtopub")
    try:
        other = S.ecdsa_raw_recover(h, (55 - v, r, s))
        if (int(other[0]), int(other[1])) == (Q[0].v, Q[1].v):
            bad.append("other v also recovers the key")
    except ValueError:
        pass
    if S.deterministic_generate_k(h, db) != O.rfc6979_k(h, db):
        bad.append("nonce != RFC 6979")
    if S.ecdsa_raw_sign(h, db) != (v, r, s):
        bad.append("not deterministic")
    k = O.rfc6979_k(h, db)
    R = O.aff_mul(G(), k % N_)
    if R is not None and r != R[0].v:
        bad.append("r != x(kG)")
    return (not bad, f"sign/recover: {bad} at d={d} hash={h.hex()}")


def predicates(rng, tier, only=None):
    ps = []
    ks, hs = keys(rng, tier), hashes(rng, tier)
    pairs = [(d, h) for d in ks for h in hs]
    if tier == "quick":
        pairs = [(d, hs[i % len(hs)]) for i, d in enumerate(ks)] + rng.sample(pairs, 24)
    for d, h in pairs:
        ps.append(Pred("sign-recover", sign_pred, (d, h)))
    if only:
        ps = [p for p in ps if p.name == only]
    return ps


def search(rng, tier, broken, disagreements):
    return predicates(rng, "thorough")
