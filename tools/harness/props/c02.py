"""C02 — BLS: Verify accepts exactly the one canonical signature"""
import oracle as O
from common import Case, Pred, tb
from props.blsutil import DST, POP_TAG, SUITES, dec_g2, enc_g2, flip, msgs, pk_of, suite_cls
from props.util import nontrivial_default

RULE = ("correspondence: Verify / PopVerify of the model vs the real suites on candidates: the canonical signature, signatures of "
        "other keys/messages/suites/tags, sk'*H(m) for sk'=sk+-1, -S, S+T (cofactor torsion T), 2S, single/multi bit flips at every byte "
        "and in the three flag bits, the infinity encoding, random valid G2 encodings; predicates: the real Verify returns True iff the "
        "candidate is byte-for-byte Sign(sk, m) of that suite")
HYPOTHESES = ["ModelBilinearCode (C01_ProtoModel / Lemmas/ModelPairing): the pairing function the code itself computes is additive in each argument on canonical on-curve subgroup triples — pairing(add(Q,Q'),P) == pairing(Q,P)*pairing(Q',P) and pairing(Q,add(P,P')) == pairing(Q,P)*pairing(Q,P') (HB1; needs divisor theory, not in Mathlib). It is the ONLY remaining hypothesis: group orders (HB2), hash_to_G2 total and in the subgroup (HT6), non-degeneracy (kernel-evaluated e(G2,G1) != 1 + cyclic torsion) and 'the Miller loop computes e' (representative independence via optimized = reference pairing) are all theorems"]
NOT_YET_PROVED = ['bilinearity of the model pairing; cross-suite/cross-tag rejection carries the visible hash-inequality hypothesis (random-oracle assumption)']
ASSUMPTIONS = ["cross-suite / cross-tag rejection relies on hash_to_curve(m, DST) != hash_to_curve(m', DST') (random-oracle assumption)"]
nontrivial = nontrivial_default
EXTRA_MODULES = {"Props.C01_ProtoHB2": "PyEcc.C02.", "Props.C01_ProtoND": "PyEcc.C02.", "Props.C01_ProtoModel": "PyEcc.C02.", "Props.TieBls": "PyEcc.Tie.", "Props.TieCodec": "PyEcc.Tie."}

CHUNK = 3


def candidates(rng, s, sk, m, tier):
    """(tag, candidate bytes); computed with the REAL library's Sign for honest ones, with the oracle for algebraic variants"""
    C = suite_cls(s)
    sig = C.Sign(sk, m)
    S = dec_g2(sig)
    r = O.BLS_R
    out = [("canonical", sig)]
    sk2 = rng.randrange(1, r)
    out.append(("other-key", C.Sign(sk2, m)))
    out.append(("other-msg", C.Sign(sk, m + b"x")))
    for s2 in SUITES:
        if s2 != s:
            out.append(("suite-" + s2, suite_cls(s2).Sign(sk, m)))
    from py_ecc.bls import G2ProofOfPossession as POP
    out.append(("pop-as-sig", POP.PopProve(sk)))
    if sk + 1 < r:
        out.append(("sk+1", C.Sign(sk + 1, m)))
    if sk - 1 >= 1:
        out.append(("sk-1", C.Sign(sk - 1, m)))
    out.append(("neg", enc_g2(O.aff_neg(S))))
    out.append(("2S", enc_g2(O.aff_add(S, S))))
    out.append(("S+T", enc_g2(O.aff_add(S, O.torsion_g2(rng)))))
    out.append(("inf", enc_g2(None)))
    out.append(("random-g2", enc_g2(O.g2(rng.randrange(1, r)))))
    bits = [0, 1, 2, 3, 7, 8, 383, 384, 385, 767] + [rng.randrange(768) for _ in range(3 if tier == "quick" else 40)]
    for b in bits:
        out.append((f"flip{b}", flip(sig, b)))
    out.append(("flip2", flip(flip(sig, 100), 500)))
    if s == "aug":
        # an augmented-suite signature computed WITHOUT the public-key prefix (same tag)
        out.append(("aug-no-prefix", C._CoreSign(sk, m, C.DST)))
    return sig, out


def cases(rng, tier):
    cs = []
    ms = msgs(rng, tier)
    n = 1 if tier == "quick" else 6
    for s in SUITES:
        for _ in range(n):
            sk, m = rng.randrange(1, O.BLS_R), rng.choice(ms)
            pk = pk_of(sk)
            _, cands = candidates(rng, s, sk, m, tier)
            if tier == "quick":
                cands = cands[:1] + rng.sample(cands[1:], 9)
            for tag, c in cands:
                cs.append(Case("bls.Verify", [s, tb(pk), tb(m), tb(c)], tags=(tag,)))
    ska = rng.randrange(1, O.BLS_R)
    pka = pk_of(ska)
    AUG = suite_cls("aug")
    cs.append(Case("bls.Verify", ["aug", tb(pka), tb(pka + b"m"), tb(AUG.Sign(ska, b"m"))], tags=("aug-prefix",)))
    cs.append(Case("bls.Verify", ["aug", tb(pka), tb(b"m"), tb(AUG.Sign(ska, pka + b"m"))], tags=("aug-prefix",)))
    cs.append(Case("bls.Sign", ["aug", ska, tb(pka + b"m")], tags=("aug-prefix",)))
    sk = rng.randrange(1, O.BLS_R)
    from py_ecc.bls import G2ProofOfPossession as POP
    pk = pk_of(sk)
    proof = POP.PopProve(sk)
    for tag, c in [("canonical", proof), ("sig-as-pop", POP.Sign(sk, pk)), ("neg", enc_g2(O.aff_neg(dec_g2(proof)))), ("flip", flip(proof, rng.randrange(768)))]:
        cs.append(Case("bls.PopVerify", [tb(pk), tb(c)], tags=(tag,)))
    return cs


def cross_history_pred(ska, skb):
    """one interpreter, POP suite: a signature on the key bytes is NOT a possession proof and vice versa, in both call orders"""
    from py_ecc.bls import G2ProofOfPossession as POP
    bad = []
    pka, pkb = pk_of(ska), pk_of(skb)
    sig = POP.Sign(ska, pka)
    if POP.PopVerify(pka, sig):
        bad.append("PopVerify accepted an ordinary signature on the key bytes (after Sign)")
    proof = POP.PopProve(ska)
    if proof == sig:
        bad.append("PopProve returned the ordinary signature bytes")
    proofb = POP.PopProve(skb)
    POP.PopVerify(pkb, proofb)
    if POP.Verify(pkb, pkb, proofb):
        bad.append("Verify accepted a possession proof as a signature on the key bytes (after PopVerify)")
    if not POP.PopVerify(pkb, proofb) or not POP.Verify(pka, pka, sig):
        bad.append("an honest proof/signature is rejected later in the history")
    return (not bad, f"POP suite cross-tag history: {bad}")


def aug_prefix_pred(sk, m):
    """augmentation suite: messages that start with the signer's own public key"""
    from py_ecc.bls import G2MessageAugmentation as AUG
    pk = pk_of(sk)
    bad = []
    s_m, s_pm = AUG.Sign(sk, m), AUG.Sign(sk, pk + m)
    if s_m == s_pm:
        bad.append("Sign(sk, m) == Sign(sk, pk||m)")
    if AUG.Verify(pk, pk + m, s_m) or AUG.Verify(pk, m, s_pm):
        bad.append("a signature verifies for a message with/without the key prefix")
    if not AUG.Verify(pk, pk + m, s_pm) or not AUG.Verify(pk, m, s_m):
        bad.append("honest signature rejected")
    if AUG.Sign(sk, pk) == AUG.Sign(sk, b""):
        bad.append("Sign(sk, pk) == Sign(sk, b'')")
    return (not bad, f"AUG suite, message beginning with the signer's key: {bad}")


def exact_pred(s, pk, m, canonical, tag, cand):
    C = suite_cls(s)
    got = C.Verify(pk, m, cand)
    want = cand == canonical
    return (got is want, f"Verify returned {got} for candidate '{tag}' (canonical={want}) suite={s} msg={m.hex()[:32]} cand={cand.hex()[:32]}..")


def pop_exact_pred(pk, canonical, tag, cand):
    from py_ecc.bls import G2ProofOfPossession as POP
    got = POP.PopVerify(pk, cand)
    return (got is (cand == canonical), f"PopVerify returned {got} for candidate '{tag}'")


def predicates(rng, tier, only=None):
    ps = []
    ms = msgs(rng, tier)
    n = 1 if tier == "quick" else 8
    for s in SUITES:
        for _ in range(n):
            sk, m = rng.randrange(1, O.BLS_R), rng.choice(ms)
            pk = pk_of(sk)
            canonical, cands = candidates(rng, s, sk, m, tier)
            if tier == "quick":
                cands = cands[:1] + rng.sample(cands[1:], 12)
            for tag, c in cands:
                ps.append(Pred("verify-exact", exact_pred, (s, pk, m, canonical, tag, c)))
    from py_ecc.bls import G2ProofOfPossession as POP
    sk = rng.randrange(1, O.BLS_R)
    pk = pk_of(sk)
    proof = POP.PopProve(sk)
    for tag, c in [("canonical", proof), ("sig-as-pop", POP.Sign(sk, pk)), ("neg", enc_g2(O.aff_neg(dec_g2(proof)))),
                   ("flip", flip(proof, rng.randrange(768))), ("inf", enc_g2(None))]:
        ps.append(Pred("popverify-exact", pop_exact_pred, (pk, proof, tag, c)))
    # boundary corpus: honest signatures with an x-coordinate half in the top sliver [0x1a << 376, p) of the field
    import json as _json
    import os as _os
    cp = _os.path.join(_os.path.dirname(_os.path.abspath(__file__)), "..", "..", "..", "data", "corpus", "C02", "boundary_x.json")
    if _os.path.exists(cp):
        corp = _json.load(open(cp))
        C = suite_cls(corp["suite"])
        m_ = bytes.fromhex(corp["message_hex"])
        for c_ in corp["cases"]:
            sg = C.Sign(c_["sk"], m_)
            ps.append(Pred("verify-exact", exact_pred, (corp["suite"], pk_of(c_["sk"]), m_, sg, "canonical-boundary-" + c_["half"], sg)))
    ps.append(Pred("cross-tag-history", cross_history_pred, (rng.randrange(1, O.BLS_R), rng.randrange(1, O.BLS_R))))
    ps.append(Pred("aug-own-key-prefix", aug_prefix_pred, (rng.randrange(1, O.BLS_R), rng.choice([b"", b"msg"]))))
    if only:
        ps = [p for p in ps if p.name == only]
    return ps


def search(rng, tier, broken, disagreements):
    return predicates(rng, "thorough")
