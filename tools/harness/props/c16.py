"""C16 — HKDF and KeyGen match RFC 5869 and the BLS draft for all inputs"""
import oracle as O
from common import Case, Pred, tb
from props.util import nontrivial_default

RULE = ("correspondence: hkdf_extract / hkdf_expand / KeyGen / hmac / sha256 of the model (native SHA-256 model, itself compared "
        "with hashlib here) vs the real functions: salts/IKMs/infos of length 0..300, output lengths 0..8160 and beyond (refused), "
        "IKM 0..128, key_info 0..64; predicates: real output vs independent RFC 2104/5869 + BLS draft v4 KeyGen transcription, range [1, r-1]")
EXTRA_MODULES = {"Props.TieHash": "PyEcc.Tie.", "Props.TieBls": "PyEcc.Tie."}

HYPOTHESES = ["HB4_hash"]
NOT_YET_PROVED = []
ASSUMPTIONS = ["math.ceil(length / 32) modelled as exact integer ceiling (swept exhaustively over 0..8160+ on every run)"]
nontrivial = nontrivial_default


def rb(rng, n):
    return bytes(rng.randrange(256) for _ in range(n))


def cases(rng, tier):
    cs = []
    lens = [0, 1, 31, 32, 33, 55, 56, 63, 64, 65, 119, 120, 128, 300]
    for n in lens:
        cs.append(Case("h2c.sha256", [tb(rb(rng, n))]))
        cs.append(Case("h2c.hmac", [tb(rb(rng, n)), tb(rb(rng, rng.choice(lens)))]))
        cs.append(Case("h2c.hkdf_extract", [tb(rb(rng, n)), tb(rb(rng, rng.choice(lens)))]))
    outl = [0, 1, 31, 32, 33, 48, 64, 255, 256, 1000, 8159, 8160, 8161, 8192, 10000]
    if tier == "thorough":
        outl += list(range(0, 8200, 37))
    for L in outl:
        cs.append(Case("h2c.hkdf_expand", [tb(rb(rng, 32)), tb(rb(rng, rng.choice([0, 1, 10, 300]))), L]))
    ikm_lens = [0, 1, 31, 32, 33, 64, 128] if tier == "quick" else list(range(0, 129, 3))
    for n in ikm_lens:
        cs.append(Case("bls.KeyGen", [tb(rb(rng, n)), tb(rb(rng, rng.choice([0, 1, 32, 64])))]))
    for ikm in (b"\x00", bytes(32), rb(rng, 31) + b"\x00", b"\x00" + rb(rng, 31), rb(rng, 30) + b"\x00\x00", b"\x00" * 33):
        cs.append(Case("bls.KeyGen", [tb(ikm), tb(b"")]))
        cs.append(Case("bls.KeyGen", [tb(ikm), tb(b"\x00\x30")]))
    return cs


def hkdf_pred(salt, ikm, info, L):
    from py_ecc.bls import hash as Hm
    bad = []
    prk = Hm.hkdf_extract(salt, ikm)
    if prk != O.rfc_hkdf_extract(salt, ikm):
        bad.append("extract")
    try:
        want = O.rfc_hkdf_expand(prk, info, L)
    except ValueError:
        want = None
    try:
        got = Hm.hkdf_expand(prk, info, L)
    except Exception as e:  # noqa: BLE001
        got = None
        if want is not None:
            bad.append(f"expand raised {type(e).__name__}")
    if want is None and got is not None:
        bad.append("expand must refuse L > 8160")
    if want is not None and got is not None and (got != want or len(got) != L):
        bad.append("expand")
    if Hm.hkdf_extract(b"", ikm) != Hm.hkdf_extract(b"\x00" * 32, ikm):
        bad.append("empty salt != 32 zero bytes")
    return (not bad, f"HKDF: {bad} at |salt|={len(salt)} |ikm|={len(ikm)} |info|={len(info)} L={L}")


def keygen_pred(ikm, info):
    from py_ecc.bls import G2Basic, G2ProofOfPossession
    sk = G2Basic.KeyGen(ikm, info)
    want = O.bls_keygen_v4(ikm, info)
    ok = sk == want and 1 <= sk < O.BLS_R and G2ProofOfPossession.KeyGen(ikm, info) == sk and G2Basic.KeyGen(ikm, info) == sk
    try:
        G2Basic.SkToPk(sk)
    except Exception:  # noqa: BLE001
        ok = False
    return (ok, f"KeyGen differs from the draft-v4 procedure / range at |ikm|={len(ikm)} |info|={len(info)}: got {sk}, want {want}")


def mutable_args_pred(ikm, info):
    """the same procedure for bytes-like arguments that happen to be mutable (bytearray): equal results on repeated calls on the same
    objects, equal to the draft value, arguments left as they were"""
    from py_ecc.bls import G2Basic
    from py_ecc.bls import hash as Hm
    bad = []
    a, b = bytearray(ikm), bytearray(info)
    want = O.bls_keygen_v4(bytes(ikm), bytes(info))
    for k in range(3):
        try:
            got = G2Basic.KeyGen(a, b)
        except Exception as e:  # noqa: BLE001
            bad.append(f"KeyGen call {k + 1} raised {type(e).__name__}")
            break
        if got != want:
            bad.append(f"KeyGen call {k + 1} on the same bytearray objects: got {got}, want {want}")
        if bytes(a) != bytes(ikm) or bytes(b) != bytes(info):
            bad.append(f"KeyGen changed its argument (|IKM| {len(ikm)} -> {len(a)}, |key_info| {len(info)} -> {len(b)})")
            break
    s, i2, n2 = bytearray(info), bytearray(ikm), bytearray(info)
    for k in range(2):
        prk = Hm.hkdf_extract(s, i2)
        if prk != O.rfc_hkdf_extract(bytes(info), bytes(ikm)):
            bad.append(f"hkdf_extract call {k + 1} with bytearray arguments")
        pk = bytearray(prk)
        if Hm.hkdf_expand(pk, n2, 48) != O.rfc_hkdf_expand(prk, bytes(info), 48):
            bad.append(f"hkdf_expand call {k + 1} with bytearray arguments")
        if bytes(s) != bytes(info) or bytes(i2) != bytes(ikm) or bytes(n2) != bytes(info) or bytes(pk) != prk:
            bad.append("an HKDF function changed its argument")
            break
    return (not bad, f"mutable bytes-like arguments: {bad[:3]}")


def ceil32_pred():
    import math
    bad = [n for n in range(0, 20000) if math.ceil(n / 32) != -(-n // 32)]
    return (not bad, f"math.ceil(n/32) != exact ceiling at {bad[:5]}")


def same_key_history_pred(key, ikm1, ikm2, info):
    """ONE interpreter: consecutive HKDF calls under the SAME key (salt / PRK), with nothing keyed differently in between —
    extract, extract; extract, expand; expand, expand; expand, extract. A keyed-HMAC object reused between calls shows only here."""
    from py_ecc.bls import hash as Hm
    bad = []
    seq = [("extract", ikm1), ("extract", ikm2), ("expand", 48), ("expand", 80), ("extract", ikm1), ("expand", 32), ("extract", b"")]
    for i, (op, arg) in enumerate(seq):
        if op == "extract":
            got, want = Hm.hkdf_extract(key, arg), O.rfc_hkdf_extract(key, arg)
        else:
            got, want = Hm.hkdf_expand(key, info, arg), O.rfc_hkdf_expand(key, info, arg)
        if got != want:
            bad.append(f"step {i} {op}")
    return (not bad, f"HKDF calls under one key of {len(key)} bytes in a row: {bad}")


def predicates(rng, tier, only=None):
    ps = [Pred("ceil-exact", ceil32_pred, ())]
    for klen in (0, 32, 33, 64, 65):
        ps.append(Pred("hkdf-rfc5869", same_key_history_pred, (rb(rng, klen), rb(rng, 17), rb(rng, 40), rb(rng, 9))))
    n = 12 if tier == "quick" else 120
    for _ in range(n):
        ps.append(Pred("hkdf-rfc5869", hkdf_pred, (rb(rng, rng.randrange(0, 301)), rb(rng, rng.randrange(0, 301)),
                                                     rb(rng, rng.randrange(0, 301)), rng.choice([0, 1, 32, 33, 48, 8160, 8161, rng.randrange(8161)]))))
    for _ in range(n):
        ps.append(Pred("keygen-draft", keygen_pred, (rb(rng, rng.randrange(0, 129)), rb(rng, rng.randrange(0, 65)))))
    for ikm in (b"\x00", bytes(32), rb(rng, 31) + b"\x00", b"\x00" + rb(rng, 31), rb(rng, 30) + b"\x00\x00"):
        ps.append(Pred("keygen-draft", keygen_pred, (ikm, b"")))
        ps.append(Pred("keygen-draft", keygen_pred, (ikm, b"\x00\x30\x00")))
    for ikm, info in ((rb(rng, 32), b""), (rb(rng, 32), rb(rng, 5)), (rb(rng, rng.randrange(32, 65)), rb(rng, rng.randrange(0, 33)))):
        ps.append(Pred("mutable-args", mutable_args_pred, (ikm, info)))
    if only:
        ps = [p for p in ps if p.name == only]
    return ps


def search(rng, tier, broken, disagreements):
    return predicates(rng, "thorough")
