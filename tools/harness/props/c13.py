"""C13 — projective/Jacobian formulas equal the affine law on every control path"""
import oracle as O
from common import Case, Pred, tl
from props.util import (aff_linefunc, aff_tokens, cast12, curve_groups, fp_tok, nontrivial_default, proj_tokens,
                        rand_scale)

RULE = ("correspondence: generated (translated) optimized-module add/double/neg/eq/is_on_curve/normalize/linefunc and "
        "secp256k1 jacobian_add/jacobian_double/from_jacobian executed by the driver vs the real functions on arbitrary "
        "(also off-curve) triples with random projective scalings, on every control path (generic, P=Q in different "
        "representatives, P=-Q, identity operands incl. (0,0,0)); predicates: real function vs textbook affine law through (x/z, y/z)")
EXTRA_MODULES = {"Props.TieFieldsFq": "PyEcc.Tie.", "Props.TieFieldsFqp": "PyEcc.Tie.", "Props.TieFieldsMul": "PyEcc.Tie.", "Props.TieFieldsPoly": "PyEcc.Tie.", "Props.TieFieldsInv": "PyEcc.Tie."}
HYPOTHESES = []
NOT_YET_PROVED = []
ASSUMPTIONS = []
nontrivial = nontrivial_default


def _rand_elem(rng, g):
    return g.mk([rng.randrange(g.b.p) for _ in range(len(g.b.coeffs()))])


def _points(rng, g, n):
    """affine oracle points: on-curve subgroup points plus arbitrary (off-curve) pairs — the identities are formal"""
    pts = [g.gen, O.aff_mul(g.gen, 2), O.aff_mul(g.gen, rng.randrange(3, 1 << 64))]
    if g.grp != "G12":
        for _ in range(n):
            pts.append((_rand_elem(rng, g), _rand_elem(rng, g)))   # arbitrary pair, almost surely off the curve
        pts.append((g.b.like(0), _rand_elem(rng, g)))
        pts.append((_rand_elem(rng, g), g.b.like(0)))              # y = 0: doubling gives infinity
    return pts


def _scales(rng, g, k):
    if g.grp == "G12":
        return [g.b.like(1), g.b.like(rng.randrange(2, g.b.p))][:k]
    return [g.b.like(1)] + [rand_scale(rng, g.b) for _ in range(k - 1)]


def _inf_reps(rng, g):
    one, zero = g.b.like(1), g.b.like(0)
    r = rand_scale(rng, g.b) if g.grp != "G12" else g.b.like(7)
    return [[fp_tok(one), fp_tok(one), fp_tok(zero)], [fp_tok(r), fp_tok(r * r), fp_tok(zero)],
            [fp_tok(zero), fp_tok(one), fp_tok(zero)], [fp_tok(zero), fp_tok(zero), fp_tok(zero)]]


def cases(rng, tier):
    cs = []
    n = 2 if tier == "quick" else 8
    for g in curve_groups():
        if not g.opt:
            continue
        if g.grp == "G12" and tier == "quick" and g.curve == "bn":
            continue
        pre = f"curve.{g.mod}."
        pts = _points(rng, g, n)
        infs = _inf_reps(rng, g)
        for P in pts:
            for s in _scales(rng, g, 2):
                tp = proj_tokens(P, s)
                cs.append(Case(pre + "double", [g.spec] + tp))
                cs.append(Case(pre + "neg", [g.spec] + tp))
                cs.append(Case(pre + "is_on_curve", [g.spec] + tp + [fp_tok(g.b)]))
                cs.append(Case(pre + "normalize", [g.spec] + tp))
                # P + P in another representative, P + (-P), P + inf, inf + P
                s2 = _scales(rng, g, 2)[-1]
                cs.append(Case(pre + "add", [g.spec] + tp + proj_tokens(P, s2)))
                cs.append(Case(pre + "add", [g.spec] + tp + proj_tokens(O.aff_neg(P), s2)))
                cs.append(Case(pre + "eq", [g.spec] + tp + proj_tokens(P, s2)))
                cs.append(Case(pre + "eq", [g.spec] + tp + proj_tokens(O.aff_neg(P), s2)))
                for inf in infs:
                    cs.append(Case(pre + "add", [g.spec] + tp + inf))
                    cs.append(Case(pre + "add", [g.spec] + inf + tp))
                    cs.append(Case(pre + "eq", [g.spec] + tp + inf))
                    cs.append(Case(pre + "eq", [g.spec] + inf + tp))
        for inf in infs:
            cs.append(Case(pre + "double", [g.spec] + inf))
            cs.append(Case(pre + "is_on_curve", [g.spec] + inf + [fp_tok(g.b)]))
            cs.append(Case(pre + "is_inf", [g.spec] + inf))
            for inf2 in infs:
                cs.append(Case(pre + "eq", [g.spec] + inf + inf2))
                cs.append(Case(pre + "add", [g.spec] + inf + inf2))
        # pairs related by the order-3 automorphism: same y / opposite y but different x (never produced by random sampling)
        if g.grp != "G12":
            for P in pts[:3]:
                for Q in (O.phi(P, g.b.p), O.aff_neg(O.phi(P, g.b.p)), O.phi(O.phi(P, g.b.p), g.b.p)):
                    sp, sq = _scales(rng, g, 2)[-1], _scales(rng, g, 2)[-1]
                    cs.append(Case(pre + "add", [g.spec] + proj_tokens(P, sp) + proj_tokens(Q, sq)))
                    cs.append(Case(pre + "eq", [g.spec] + proj_tokens(P, sp) + proj_tokens(Q, sq)))
        for _ in range(n * 2):
            P, Q = rng.choice(pts), rng.choice(pts)
            sp, sq = _scales(rng, g, 2)[-1], _scales(rng, g, 2)[-1]
            cs.append(Case(pre + "add", [g.spec] + proj_tokens(P, sp) + proj_tokens(Q, sq)))
            cs.append(Case(pre + "eq", [g.spec] + proj_tokens(P, sp) + proj_tokens(Q, sq)))
        # co-Z pairs (one shared non-unit denominator) and half-normalised pairs
        for _ in range(n):
            P, Q = rng.choice(pts), rng.choice(pts)
            s = _scales(rng, g, 2)[-1]
            for (sp, sq) in ((s, s), (s, g.b.like(1)), (g.b.like(1), s), (s, -s)):
                cs.append(Case(pre + "add", [g.spec] + proj_tokens(P, sp) + proj_tokens(Q, sq)))
                cs.append(Case(pre + "eq", [g.spec] + proj_tokens(P, sp) + proj_tokens(Q, sq)))
        # line functions as the Miller loops call them: P1, P2 in G2-like coordinates, T anywhere (same field here)
        if g.grp != "G12" or tier == "thorough":
            for _ in range(n):
                P1, P2, T = rng.choice(pts), rng.choice(pts), rng.choice(pts)
                for (A, B) in ((P1, P2), (P1, P1), (P1, O.aff_neg(P1))):
                    sc = [_scales(rng, g, 2)[-1] for _ in range(3)]
                    cs.append(Case(pre + "linefunc", [g.spec] + proj_tokens(A, sc[0]) + proj_tokens(B, sc[1]) + proj_tokens(T, sc[2])))
    # secp256k1 Jacobian code
    P_, N_ = O.SECP_P, O.SECP_N
    G = (O.Fp(O.SECP_G[0], P_), O.Fp(O.SECP_G[1], P_))
    spts = [G, O.aff_mul(G, 2), O.aff_mul(G, rng.randrange(N_)), O.aff_mul(G, N_ - 1)]
    for _ in range(n):
        spts.append((O.Fp(rng.randrange(P_), P_), O.Fp(rng.randrange(P_), P_)))

    def jac(P, lam):
        if P is None:
            return [0, 0, lam]
        return [P[0].v * lam * lam % P_, P[1].v * lam ** 3 % P_, lam % P_]
    for P in spts:
        for lam in (1, rng.randrange(2, P_)):
            cs.append(Case("secp.jacobian_double", jac(P, lam)))
            cs.append(Case("secp.from_jacobian", jac(P, lam)))
            lam2 = rng.randrange(2, P_)
            cs.append(Case("secp.jacobian_add", jac(P, lam) + jac(P, lam2)))
            cs.append(Case("secp.jacobian_add", jac(P, lam) + jac(O.aff_neg(P), lam2)))
            cs.append(Case("secp.jacobian_add", jac(P, lam) + [0, 0, 1]))
            cs.append(Case("secp.jacobian_add", [0, 0, 1] + jac(P, lam)))
            cs.append(Case("secp.jacobian_add", [0, 0, 0] + jac(P, lam)))
            Q = rng.choice(spts)
            cs.append(Case("secp.jacobian_add", jac(P, lam) + jac(Q, lam2)))
    for P in spts[:3]:
        for Q in (O.phi(P, P_), O.aff_neg(O.phi(P, P_))):
            cs.append(Case("secp.jacobian_add", jac(P, rng.randrange(1, P_)) + jac(Q, rng.randrange(1, P_))))
    cs.append(Case("secp.jacobian_double", [0, 0, 1]))
    cs.append(Case("secp.jacobian_double", [5, 0, 3]))
    cs.append(Case("secp.from_jacobian", [0, 0, 0]))
    cs.append(Case("secp.jacobian_add", [0, 0, 1, 0, 0, 0]))
    return cs


# ------------------------------------------------------------------ predicates on the real code
def _lib_field(g):
    import pyexec
    return pyexec.fcls(g.spec)


def _to_lib(g, x):
    C = _lib_field(g)
    c = x.coeffs()
    return C(c[0]) if g.grp == "G1" else C(c)


def _from_lib(g, x):
    return g.mk([int(c) for c in x.coeffs] if hasattr(x, "coeffs") else [int(x.n)])


def _lib_pt(g, P, s):
    if P is None:
        return (_to_lib(g, s), _to_lib(g, s * s), _to_lib(g, s.like(0)))
    return (_to_lib(g, P[0] * s), _to_lib(g, P[1] * s), _to_lib(g, s))


def _aff_of_lib(g, T):
    x, y, z = (_from_lib(g, c) for c in T)
    if z.is_zero():
        return None
    return (x / z, y / z)


def _peq(P, Q):
    if P is None or Q is None:
        return P is None and Q is None
    return P[0] == Q[0] and P[1] == Q[1]


def formula_pred(gi, P, Q, T, sp, sq, st):
    import pyexec
    g = curve_groups()[gi]
    M = pyexec.curve_mod(g.mod)
    PM = pyexec.pairing_mod(g.mod)
    lp, lq, lt = _lib_pt(g, P, sp), _lib_pt(g, Q, sq), _lib_pt(g, T, st)
    bad = []
    # the oracle's doubling treats y = 0 as 2-torsion (result infinity), like the formulas do
    if not _peq(_aff_of_lib(g, M.double(lp)), O.aff_add(P, P)):
        bad.append("double")
    if not _peq(_aff_of_lib(g, M.add(lp, lq)), O.aff_add(P, Q)):
        bad.append("add")
    if not _peq(_aff_of_lib(g, M.add(lp, _lib_pt(g, P, sq))), O.aff_add(P, P)):
        bad.append("add(P,P')")
    if not _peq(_aff_of_lib(g, M.add(lp, _lib_pt(g, O.aff_neg(P), sq))), None):
        bad.append("add(P,-P)")
    if not _peq(_aff_of_lib(g, M.add(lp, _lib_pt(g, None, sq))), P) or not _peq(_aff_of_lib(g, M.add(_lib_pt(g, None, sq), lp)), P):
        bad.append("add(inf)")
    if not _peq(_aff_of_lib(g, M.neg(lp)), O.aff_neg(P)):
        bad.append("neg")
    if M.eq(lp, lq) != _peq(P, Q) or not M.eq(lp, _lib_pt(g, P, sq)) or M.eq(lp, _lib_pt(g, None, sq)) or not M.eq(_lib_pt(g, None, sp), _lib_pt(g, None, sq)):
        bad.append("eq")
    zero3 = tuple(_to_lib(g, sp.like(0)) for _ in range(3))
    if M.eq(zero3, lp) or M.eq(lp, zero3) or not M.eq(zero3, _lib_pt(g, None, sq)):
        bad.append("eq(0,0,0)")
    if P is not None and M.is_on_curve(lp, _to_lib(g, g.b)) != O.on_curve(P, g.b):
        bad.append("is_on_curve")
    if P is not None and Q is not None and T is not None and not (P[1].is_zero() and _peq(P, Q)):
        num, den = PM.linefunc(lp, lq, lt)
        n_, d_ = _from_lib(g, num), _from_lib(g, den)
        if d_.is_zero() or not (n_ / d_ == aff_linefunc(P, Q, T)):
            bad.append("linefunc")
        num, den = PM.linefunc(lp, _lib_pt(g, P, sq), lt)
        n_, d_ = _from_lib(g, num), _from_lib(g, den)
        if not P[1].is_zero() and (d_.is_zero() or not (n_ / d_ == aff_linefunc(P, P, T))):
            bad.append("linefunc-tangent")
        num, den = PM.linefunc(lp, _lib_pt(g, O.aff_neg(P), sq), lt)
        n_, d_ = _from_lib(g, num), _from_lib(g, den)
        if not P[1].is_zero() and (d_.is_zero() or not (n_ / d_ == aff_linefunc(P, O.aff_neg(P), T))):
            bad.append("linefunc-vertical")
    return (not bad, f"{g.name()}: {bad} differ from the affine law at P={P} Q={Q} T={T} scalings {sp},{sq},{st}")


def jacobian_pred(P, Q, l1, l2):
    from py_ecc.secp256k1 import secp256k1 as S
    P_ = O.SECP_P

    def jac(X, lam):
        if X is None:
            return (0, 0, lam)
        return (X[0].v * lam * lam % P_, X[1].v * lam ** 3 % P_, lam % P_)

    def aff(J):
        x, y, z = J
        if y % P_ == 0:
            return None
        zi = pow(z, -1, P_)
        return (O.Fp(x * zi * zi, P_), O.Fp(y * zi ** 3, P_))
    bad = []
    if not _peq(aff(S.jacobian_double(jac(P, l1))), O.aff_add(P, P)):
        bad.append("jacobian_double")
    if not _peq(aff(S.jacobian_add(jac(P, l1), jac(Q, l2))), O.aff_add(P, Q)):
        bad.append("jacobian_add")
    if not _peq(aff(S.jacobian_add(jac(P, l1), jac(P, l2))), O.aff_add(P, P)):
        bad.append("jacobian_add(P,P')")
    if not _peq(aff(S.jacobian_add(jac(P, l1), jac(O.aff_neg(P), l2))), None):
        bad.append("jacobian_add(P,-P)")
    if not _peq(aff(S.jacobian_add(jac(P, l1), (0, 0, 1))), P) or not _peq(aff(S.jacobian_add((0, 0, 1), jac(P, l1))), P):
        bad.append("jacobian_add(identity)")
    fj = S.from_jacobian(jac(P, l1))
    if (fj[0], fj[1]) != (P[0].v, P[1].v):
        bad.append("from_jacobian")
    return (not bad, f"secp256k1: {bad} differ from the affine law at P={P} Q={Q} scalings {l1},{l2}")


def predicates(rng, tier, only=None):
    ps = []
    n = 3 if tier == "quick" else 20
    for gi, g in enumerate(curve_groups()):
        if not g.opt or g.grp == "G12":
            continue
        pts = _points(rng, g, n)
        for P in pts[:2]:
            for Q in (O.phi(P, g.b.p), O.aff_neg(O.phi(P, g.b.p))):
                ps.append(Pred("formulas-vs-affine", formula_pred,
                               (gi, P, Q, rng.choice(pts), rand_scale(rng, g.b), rand_scale(rng, g.b), rand_scale(rng, g.b))))
        for _ in range(n):
            P, Q, T = rng.choice(pts), rng.choice(pts), rng.choice(pts)
            ps.append(Pred("formulas-vs-affine", formula_pred,
                           (gi, P, Q, T, rand_scale(rng, g.b), rand_scale(rng, g.b), rand_scale(rng, g.b))))
        # RELATED representatives: the operands share one non-unit denominator (co-Z, as add() itself returns for P+Q / P-Q),
        # or one is normalised and the other is not — a shortcut keyed on z1 == z2 or on z == 1 is invisible to independent scalings
        for _ in range(2):
            P, Q, T = rng.choice(pts), rng.choice(pts), rng.choice(pts)
            s = rand_scale(rng, g.b)
            one = g.b.like(1)
            for (sp, sq, st) in ((s, s, s), (s, s, one), (one, s, s), (s, one, one), (s, -s, s)):
                ps.append(Pred("formulas-vs-affine", formula_pred, (gi, P, Q, T, sp, sq, st)))
    P_, N_ = O.SECP_P, O.SECP_N
    G = (O.Fp(O.SECP_G[0], P_), O.Fp(O.SECP_G[1], P_))
    for _ in range(n * 3):
        P = O.aff_mul(G, rng.randrange(1, N_))
        Q = O.aff_mul(G, rng.randrange(1, N_))
        ps.append(Pred("jacobian-vs-affine", jacobian_pred, (P, Q, rng.randrange(1, P_), rng.randrange(1, P_))))
        if _ < 2:
            ps.append(Pred("jacobian-vs-affine", jacobian_pred, (P, O.phi(P, P_), rng.randrange(1, P_), rng.randrange(1, P_))))
            ps.append(Pred("jacobian-vs-affine", jacobian_pred, (P, O.aff_neg(O.phi(P, P_)), rng.randrange(1, P_), rng.randrange(1, P_))))
    if only:
        ps = [p for p in ps if p.name == only]
    return ps


def search(rng, tier, broken, disagreements):
    return predicates(rng, "thorough")
