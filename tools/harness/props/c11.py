"""C11 — point (de)serialization is a canonical bijection in the ZCash format"""
import oracle as O
from common import Case, Pred, tb
from props.util import from_lib_p3, lib_g1, lib_g2, nontrivial_default, pt_eq, tok_g1, tok_g2

RULE = ("correspondence: compress/decompress G1/G2, the byte-level helpers and modular_squareroot_in_FQ2 of the model vs the real functions: "
        "subgroup and non-subgroup points, infinity in several representations, G2 points whose y has zero imaginary/real part, y near (p-1)/2, "
        "random scalings; all 384-bit words: 8 flag combinations x {0,1,p-1,p,p+1,2^381-1,on-curve x,off-curve x} x second-word variants; "
        "predicates: round trip both ways against the independent ZCash oracle; known finding K1 replayed")
HYPOTHESES = []
NOT_YET_PROVED = []
ASSUMPTIONS = []
nontrivial = nontrivial_default
EXTRA_MODULES = {"Props.TieCodec": "PyEcc.Tie.", "Props.TieHashCodec": "PyEcc.Tie.", "Props.TieFieldsFq": "PyEcc.Tie.", "Props.TieFieldsFqp": "PyEcc.Tie.", "Props.TieFieldsMul": "PyEcc.Tie.", "Props.TieFieldsPoly": "PyEcc.Tie.", "Props.TieFieldsInv": "PyEcc.Tie."}

P = O.BLS_P


def g1_points(rng, tier):
    pts = [None, O.g1(1), O.g1(rng.randrange(1, O.BLS_R)), O.rand_curve_point_g1(rng), O.torsion_g1(rng)]
    Q = O.rand_curve_point_g1(rng)
    pts += [Q, O.aff_neg(Q)]
    # y within a few units of the boundary of the sign rule ((p-1)/2 | (p+1)/2) and of the ends of the range, built by a cube root
    pts += O.g1_points_y_boundary(2 if tier == "quick" else 6)
    if tier == "thorough":
        pts += [O.rand_curve_point_g1(rng) for _ in range(20)]
    return pts


def g2_axis_y(n=3):
    """points of E' whose y is purely real or purely imaginary (the tie-break cases of the sign rule), small and large"""
    out = []
    for mk in (lambda t: O.Fp2(t, 0, P), lambda t: O.Fp2(0, t, P), lambda t: O.Fp2(P - t, 0, P), lambda t: O.Fp2(0, P - t, P)):
        t, found = 0, 0
        while found < n and t < 300:
            t += 1
            Pt = O.g2_point_with_y(mk(t))
            if Pt is not None:
                out.append(Pt)
                found += 1
    return out


def g2_special(rng):
    """G2 points whose x lies in the base field (x_im = 0) or is purely imaginary (x_re = 0): the second / first encoded word
    carries no coordinate bits"""
    out = []
    for kind in ("re", "im"):
        found = 0
        for t in range(1, 400):
            x = O.Fp2(t, 0, P) if kind == "re" else O.Fp2(0, t, P)
            y = (x * x * x + O.b2()).sqrt()
            if y is not None:
                out.append((x, y))
                found += 1
                if found >= 2:
                    break
    return out


def g2_points(rng, tier):
    pts = [None, O.g2(1), O.g2(rng.randrange(1, O.BLS_R)), O.rand_curve_point_g2(rng), O.torsion_g2(rng)] + g2_special(rng)
    # y exactly at the boundary of the sign rule: imaginary part (p-1)/2 and (p+1)/2 (and the real-part analogue)
    bd = O.g2_points_y_boundary(1 if tier == "quick" else 3) + g2_axis_y(2 if tier == "quick" else 5)
    pts += bd + [O.aff_neg(P) for P in bd]
    Q = O.rand_curve_point_g2(rng)
    pts += [Q, O.aff_neg(Q)]
    if tier == "thorough":
        pts += [O.rand_curve_point_g2(rng) for _ in range(10)]
    return pts


def words(rng):
    on = O.rand_curve_point_g1(rng)[0].v
    off = next(x for x in (rng.randrange(P) for _ in range(99)) if (O.Fp(x, P) * O.Fp(x, P) * O.Fp(x, P) + 4).sqrt() is None)
    xs = [0, 1, P - 1, P, P + 1, (1 << 381) - 1, on, off]
    return [(f << 381) | x for f in range(8) for x in xs]


def cases(rng, tier):
    cs = []
    for Pt in g1_points(rng, tier):
        for sc in (1, rng.randrange(2, P)):
            cs.append(Case("codec.compress_g1", tok_g1(Pt, sc)))
            cs.append(Case("codec.g1_to_pubkey", tok_g1(Pt, sc)))
        z = O.zcash_compress_g1(Pt)
        cs.append(Case("codec.decompress_g1", [z]))
        cs.append(Case("codec.pubkey_to_g1", [tb(z.to_bytes(48, "big"))]))
    for w in words(rng):
        cs.append(Case("codec.decompress_g1", [w]))
    cs.append(Case("codec.decompress_g1", [(1 << 384) | O.zcash_compress_g1(O.g1(5))]))
    for Pt in g2_points(rng, tier):
        for sc in ((1, 0), (rng.randrange(1, P), rng.randrange(P))):
            cs.append(Case("codec.compress_g2", tok_g2(Pt, sc)))
            cs.append(Case("codec.g2_to_signature", tok_g2(Pt, sc)))
        z1, z2 = O.zcash_compress_g2(Pt)
        cs.append(Case("codec.decompress_g2", [z1, z2]))
        cs.append(Case("codec.signature_to_g2", [tb(z1.to_bytes(48, "big") + z2.to_bytes(48, "big"))]))
        # second-word variants
        for z2v in (z2 | (1 << 383), z2 | (1 << 381), z2 + P, P, P - 1, 0):
            cs.append(Case("codec.decompress_g2", [z1, z2v]))
        for f in range(8):
            cs.append(Case("codec.decompress_g2", [(z1 & ((1 << 381) - 1)) | (f << 381), z2]))
    ws = words(rng)
    for w in (rng.sample(ws, 16) if tier == "quick" else ws):
        cs.append(Case("codec.decompress_g2", [w, rng.choice([0, 1, rng.randrange(P)])]))
    # off-curve G2 point: compress_G2 refuses
    cs.append(Case("codec.compress_g2", ["[1,2]", "[3,4]", "[1,0]"]))
    for _ in range(4 if tier == "quick" else 30):
        a = [rng.randrange(P), rng.randrange(P)]
        cs.append(Case("codec.sqrt_fq2", ["[" + ",".join(map(str, a)) + "]"]))
        sq = O.Fp2(a[0], a[1], P) * O.Fp2(a[0], a[1], P)
        cs.append(Case("codec.sqrt_fq2", ["[" + ",".join(map(str, sq.coeffs())) + "]"]))
    return cs


def g1_roundtrip_pred(Pt, sc):
    from py_ecc.bls import point_compression as PC, g2_primitives as GP
    lp = lib_g1(Pt, sc)
    z = int(PC.compress_G1(lp))
    bad = []
    if z != O.zcash_compress_g1(Pt):
        bad.append("compress != ZCash encoding")
    if z >> 384:
        bad.append("more than 384 bits")
    match = {"op": "compress_decompress_G1", "affine_x": (0 if (Pt is not None and Pt[0].v == 0) else None)}
    try:
        back = from_lib_p3(PC.decompress_G1(z))
        if not pt_eq(back, Pt):
            bad.append("decompress(compress(P)) != P")
    except Exception as e:  # noqa: BLE001
        bad.append(f"decompress(compress(P)) raised {type(e).__name__}")
    pk = GP.G1_to_pubkey(lp)
    if len(pk) != 48 or int.from_bytes(pk, "big") != z:
        bad.append("G1_to_pubkey")
    return (not bad, f"G1 round trip: {bad} at P={Pt}")


def g2_roundtrip_pred(Pt, sc):
    from py_ecc.bls import point_compression as PC, g2_primitives as GP
    lp = lib_g2(Pt, sc)
    z1, z2 = (int(v) for v in PC.compress_G2(lp))
    bad = []
    if (z1, z2) != O.zcash_compress_g2(Pt):
        bad.append("compress != ZCash encoding")
    if z1 >> 384 or z2 >> 381:
        bad.append("flag bits in the second word / too long")
    try:
        back = from_lib_p3(PC.decompress_G2((z1, z2)))
        if not pt_eq(back, Pt):
            bad.append("decompress(compress(P)) != P")
    except Exception as e:  # noqa: BLE001
        bad.append(f"decompress(compress(P)) raised {type(e).__name__}")
    sg = GP.G2_to_signature(lp)
    if len(sg) != 96 or sg != z1.to_bytes(48, "big") + z2.to_bytes(48, "big"):
        bad.append("G2_to_signature")
    return (not bad, f"G2 round trip: {bad} at P={Pt}")


def g1_word_pred(z):
    """what the decoder accepts decodes to an on-curve point whose compression is exactly the input; the rest is ValueError"""
    from py_ecc.bls import point_compression as PC
    from py_ecc.optimized_bls12_381 import b, is_on_curve
    try:
        want = O.zcash_decompress_g1(z)
        want_ok = True
    except ValueError:
        want_ok = False
    try:
        got = PC.decompress_G1(z)
    except ValueError:
        # K1: the decoder refuses x = 0 although the ZCash format decodes it
        x0 = want_ok and want is not None and want[0].v == 0
        return ((not want_ok) or x0, f"decompress_G1 refused a valid ZCash word {hex(z)}")
    except Exception as e:  # noqa: BLE001
        return (False, f"decompress_G1 raised {type(e).__name__} (not ValueError) on {hex(z)}")
    bad = []
    if not want_ok:
        bad.append("accepted a word the ZCash format refuses")
    if not is_on_curve(got, b):
        bad.append("decoded point off the curve")
    if int(PC.compress_G1(got)) != z:
        bad.append("compress(decompress(z)) != z")
    return (not bad, f"decompress_G1({hex(z)}): {bad}")


def g2_word_pred(z1, z2):
    from py_ecc.bls import point_compression as PC
    from py_ecc.optimized_bls12_381 import b2, is_on_curve
    try:
        O.zcash_decompress_g2(z1, z2)
        want_ok = True
    except ValueError:
        want_ok = False
    try:
        got = PC.decompress_G2((z1, z2))
    except ValueError:
        return (not want_ok, f"decompress_G2 refused a valid ZCash pair {hex(z1)},{hex(z2)}")
    except Exception as e:  # noqa: BLE001
        return (False, f"decompress_G2 raised {type(e).__name__} (not ValueError)")
    bad = []
    if not want_ok:
        bad.append("accepted a pair the ZCash format refuses")
    if not is_on_curve(got, b2):
        bad.append("decoded point off the curve")
    if tuple(int(v) for v in PC.compress_G2(got)) != (z1, z2):
        bad.append("compress(decompress(z)) != z")
    return (not bad, f"decompress_G2({hex(z1)},{hex(z2)}): {bad}")


def predicates(rng, tier, only=None):
    ps = []
    for Pt in g1_points(rng, tier):
        k1 = {"op": "compress_decompress_G1", "affine_x": 0} if (Pt is not None and Pt[0].v == 0) else None   # the K1 points
        ps.append(Pred("g1-roundtrip", g1_roundtrip_pred, (Pt, rng.randrange(1, P)), match=k1))
    # K1: the two points with x = 0 (order 3, outside the subgroup)
    for y in (2, P - 2):
        Pt = (O.Fp(0, P), O.Fp(y, P))
        ps.append(Pred("g1-roundtrip", g1_roundtrip_pred, (Pt, 1), match={"op": "compress_decompress_G1", "affine_x": 0}))
    for Pt in g2_points(rng, tier):
        ps.append(Pred("g2-roundtrip", g2_roundtrip_pred, (Pt, (rng.randrange(1, P), rng.randrange(P)))))
    for w in words(rng):
        ps.append(Pred("g1-words", g1_word_pred, (w,)))
    ws = words(rng)
    Q = O.rand_curve_point_g2(rng)
    z1, z2 = O.zcash_compress_g2(Q)
    pairs = [(w, rng.choice([0, 1, rng.randrange(P)])) for w in (rng.sample(ws, 12) if tier == "quick" else ws)]
    pairs += [(z1, z2), (z1, z2 | (1 << 383)), (z1, z2 | (1 << 381)), (z1, z2 + P), (z1 ^ (1 << 381), z2), (z1 | (1 << 382), z2), (z1 & ~(1 << 383), z2)]
    inf1 = (1 << 383) | (1 << 382)
    pairs += [(inf1, 0), (inf1, 1 << 383), (inf1, 1 << 382), (inf1, 1 << 381), (inf1, 7 << 381), (inf1, 1), (inf1, P), (inf1 | (1 << 381), 0)]
    for a, b_ in pairs:
        ps.append(Pred("g2-words", g2_word_pred, (a, b_)))
    if only:
        ps = [p for p in ps if p.name == only]
    return ps


def search(rng, tier, broken, disagreements):
    return predicates(rng, "thorough")
