"""C12 — optimized pairings equal reference pairings; split final exponentiation exact"""
import oracle as O
from common import Case, Pred, tl
from props.pairutil import IMPLS, f12, grp, lib_pairing, pair_case
from props.util import BLS_MC12, espec, nontrivial_default, structured_scales

RULE = ("correspondence: all four pairing implementations of the model vs the real ones on the same subgroup point pairs (exact FQ12 "
        "equality, random projective representatives), final_exponentiate / exp_by_p of the model vs the real functions on 0, 1, sparse, random "
        "elements; predicates on the real code: optimized pairing == reference pairing of the same curve, product of 1..6 Miller values through "
        "one final exponentiation == product of the pairings, final_exponentiate(x) == x ** ((p^12-1)/r) and exp_by_p(x) == x ** p")
HYPOTHESES = []
NOT_YET_PROVED = []
ASSUMPTIONS = []
nontrivial = nontrivial_default
EXTRA_MODULES = {"Props.TiePairing": "PyEcc.Tie.", "Props.TieMiller": "PyEcc.Tie.", "Props.TieHashCurve": "PyEcc.Tie.", "Props.TieFieldsFq": "PyEcc.Tie.", "Props.TieFieldsFqp": "PyEcc.Tie.", "Props.TieFieldsMul": "PyEcc.Tie.", "Props.TieFieldsPoly": "PyEcc.Tie.", "Props.TieFieldsInv": "PyEcc.Tie."}

CHUNK = 1
P = O.BLS_P


def elems(rng, tier):
    z = [0] * 12
    one = [1] + [0] * 11
    sp = list(z)
    sp[rng.randrange(12)] = rng.randrange(P)
    out = [z, one, sp, [rng.randrange(P) for _ in range(12)]]
    if tier == "thorough":
        out += [[rng.randrange(P) for _ in range(12)] for _ in range(10)]
    return out


def cases(rng, tier):
    cs = []
    for curve in ("Bls", "Bn"):
        g1, g2 = grp("Opt" + curve, "G1"), grp("Opt" + curve, "G2")
        r = g1.order
        n = 1 if tier == "quick" else 6
        for _ in range(n):
            a, b = rng.randrange(1, r), rng.randrange(1, r)
            Pt, Q = O.aff_mul(g1.gen, a), O.aff_mul(g2.gen, b)
            cs.append(pair_case("Opt" + curve, Q, Pt, rng))
            cs.append(pair_case("Opt" + curve, Q, Pt, rng, fe=0))
            cs.append(pair_case("Ref" + curve, Q, Pt))
        # structured (non-random) projective representatives: base-field z, z = i, 1+i, 9+i, ...
        Qs, Ps = O.aff_mul(g2.gen, rng.randrange(1, r)), O.aff_mul(g1.gen, rng.randrange(1, r))
        cs.append(pair_case("Ref" + curve, Qs, Ps))
        for sq in structured_scales(g2.b)[: (5 if tier == "quick" else 99)]:
            cs.append(pair_case("Opt" + curve, Qs, Ps, rng, sq=sq, sp=g1.b.like(1)))
        for sp in structured_scales(g1.b)[1:3]:
            cs.append(pair_case("Opt" + curve, Qs, Ps, rng, sq=g2.b.like(1), sp=sp))
        # the identity (a subgroup point) in NON-canonical projective representations (proj_tokens(None, s) = (s, 1, 0))
        cs.append(pair_case("Opt" + curve, None, O.aff_mul(g1.gen, 3), rng))
        cs.append(pair_case("Opt" + curve, O.aff_mul(g2.gen, 3), None, rng))
        cs.append(pair_case("Opt" + curve, None, O.aff_mul(g1.gen, 3), rng, fe=0))
    for x in elems(rng, tier):
        cs.append(Case("pairing.fexp_OptBls", [tl(x)]))
        cs.append(Case("pairing.expbyp_OptBls", [tl(x)]))
        cs.append(Case("fqp.pow", [espec("opt", P, BLS_MC12), tl(x), P]))
    return cs


def opt_eq_ref_pred(curve, a, b, seed):
    import random
    rng = random.Random(seed)
    g1, g2 = grp("Opt" + curve, "G1"), grp("Opt" + curve, "G2")
    Pt, Q = O.aff_mul(g1.gen, a), O.aff_mul(g2.gen, b)
    o1 = lib_pairing("Opt" + curve, Q, Pt, rng)
    o2 = lib_pairing("Opt" + curve, Q, Pt, rng)
    rf = lib_pairing("Ref" + curve, Q, Pt)
    bad = []
    if o1 != rf:
        bad.append("optimized != reference")
    if o1 != o2:
        bad.append("depends on the projective representative")
    return (not bad, f"{curve}: {bad} at a={a} b={b}")


def coincidence_scales(Pt):
    """scalings lam of the representative (lam x, lam y, lam) for which intermediate projective coordinates COINCIDE although the
    points differ: z(2Q') = z(Q') (lam^5 = 1/(8 y^3): 'same denominator' after the first doubling of a ladder / Miller loop),
    z(2Q') = 1 (lam^6 = 1/(8 y^3)) — the inputs on which a co-Z or z == 1 fast path would be taken"""
    if Pt is None:
        return []
    y = Pt[1]
    one = y.like(1)
    t = one / (y * y * y * y.like(8))
    n = (y.p ** 2 - 1) if isinstance(y, O.Fp2) else (y.p - 1)
    out = []
    for k in (5, 6, 3):
        try:
            e = pow(k, -1, n)
        except ValueError:
            continue
        lam = t.pow(e)
        if lam.pow(k) == t:
            out.append(lam)
    return out


def structured_rep_pred(curve, a, b):
    """optimized pairing on structured representatives (z in the base field, z = i, 1+i, 9+i, ...) == reference pairing"""
    g1, g2 = grp("Opt" + curve, "G1"), grp("Opt" + curve, "G2")
    Pt, Q = O.aff_mul(g1.gen, a), O.aff_mul(g2.gen, b)
    rf = lib_pairing("Ref" + curve, Q, Pt)
    bad = []
    for sq in structured_scales(g2.b) + coincidence_scales(Q):
        if lib_pairing("Opt" + curve, Q, Pt, sq=sq, sp=g1.b.like(1)) != rf:
            bad.append(f"Q scaled by {sq}")
    for sp in structured_scales(g1.b) + coincidence_scales(Pt):
        if lib_pairing("Opt" + curve, Q, Pt, sq=g2.b.like(1), sp=sp) != rf:
            bad.append(f"P scaled by {sp}")
    return (not bad, f"{curve}: optimized pairing differs from the reference on representatives {bad[:4]} of the same points (a={a}, b={b})")


def inf_rep_pred(curve, seed):
    """optimized == reference when an argument is the identity given as ANY z = 0 triple (as produced by the library itself)"""
    import importlib
    import pyexec
    mod = "Opt" + curve
    M = importlib.import_module(pyexec.MODS[mod])
    one = [1] + [0] * 11
    bad = []
    ref = lib_pairing("Ref" + curve, None, grp(mod, "G1").gen)
    if ref != one:
        bad.append("reference pairing(Q, infinity) is not the unit")
    reps1 = [M.Z1, M.double(M.Z1), M.multiply(M.Z1, 6), M.double(M.multiply(M.G1, M.curve_order)), M.add(M.G1, M.neg(M.G1))]
    reps2 = [M.Z2, M.double(M.Z2), M.multiply(M.Z2, 5), M.add(M.G2, M.neg(M.G2))]
    for Z in reps1:
        for fe in (True, False):
            if [int(c) for c in M.pairing(M.G2, Z, final_exponentiate=fe).coeffs] != one:
                bad.append(f"pairing(G2, identity as {tuple(int(c.n) for c in Z)}, final_exponentiate={fe}) != reference value 1")
    for Z in reps2:
        if [int(c) for c in M.pairing(Z, M.G1).coeffs] != one:
            bad.append("pairing(identity in G2 (non-canonical), G1) != reference value 1")
    return (not bad, f"{mod} vs reference at the identity: {bad[:3]}")


def two_step_pred(curve, scal, seed):
    """product of Miller values through one final exponentiation == product of pairings"""
    import importlib
    import random
    import pyexec
    rng = random.Random(seed)
    mod = "Opt" + curve
    g1, g2 = grp(mod, "G1"), grp(mod, "G2")
    M = importlib.import_module(pyexec.MODS[mod])
    PM = pyexec.pairing_mod(mod)
    C12 = pyexec.fcls(grp(mod, "G12").spec)
    prod_m, prod_p = C12.one(), C12.one()
    for a, b in scal:
        Pt, Q = O.aff_mul(g1.gen, a), O.aff_mul(g2.gen, b)
        prod_m = prod_m * C12(lib_pairing(mod, Q, Pt, rng, fe=False))
        prod_p = prod_p * C12(lib_pairing(mod, Q, Pt, rng, fe=True))
    fe = PM.final_exponentiate(prod_m) if hasattr(PM, "final_exponentiate") else M.final_exponentiate(prod_m)
    return (fe == prod_p, f"{mod}: final_exponentiate(prod of {len(scal)} Miller values) != product of pairings")


def exp_pred(x):
    from py_ecc.fields import optimized_bls12_381_FQ12 as FQ12, bls12_381_FQ12 as RFQ12
    from py_ecc.optimized_bls12_381 import curve_order, field_modulus, final_exponentiate
    from py_ecc.optimized_bls12_381.optimized_pairing import exp_by_p
    X = FQ12(x)
    bad = []
    if not (exp_by_p(X) == X ** field_modulus):
        bad.append("exp_by_p(x) != x ** p")
    e = (field_modulus ** 12 - 1) // curve_order
    if not (final_exponentiate(X) == X ** e):
        bad.append("final_exponentiate(x) != x ** ((p^12-1)/r)")
    t = O.Fpk(x, P, [2, 0, 0, 0, 0, 0, -2, 0, 0, 0, 0, 0]).pow(e)
    if [int(c) for c in final_exponentiate(X).coeffs] != t.coeffs():
        bad.append("final_exponentiate(x) != textbook x^((p^12-1)/r)")
    from py_ecc.bls12_381.bls12_381_pairing import final_exponentiate as rfe
    if [int(c) for c in rfe(RFQ12(x)).coeffs] != t.coeffs():
        bad.append("reference final_exponentiate != textbook power")
    from py_ecc.fields import optimized_bn128_FQ12 as BFQ12
    from py_ecc.optimized_bn128.optimized_pairing import final_exponentiate as bfe
    from py_ecc.optimized_bn128 import curve_order as br, field_modulus as bp
    xb = [c % bp for c in x]
    tb_ = O.Fpk(xb, bp, [82, 0, 0, 0, 0, 0, -18, 0, 0, 0, 0, 0]).pow((bp ** 12 - 1) // br)
    if [int(c) for c in bfe(BFQ12(xb)).coeffs] != tb_.coeffs():
        bad.append("bn128 final_exponentiate != textbook power")
    return (not bad, f"exponentiation identities: {bad} at x={x[:2]}..")


def predicates(rng, tier, only=None):
    ps = []
    for curve in ("Bls", "Bn"):
        r = grp("Opt" + curve, "G1").order
        for _ in range(1 if tier == "quick" else 8):
            ps.append(Pred("opt-eq-ref", opt_eq_ref_pred, (curve, rng.randrange(1, r), rng.randrange(1, r), rng.randrange(1 << 30))))
        ps.append(Pred("opt-eq-ref-at-identity", inf_rep_pred, (curve, 0)))
        ps.append(Pred("opt-eq-ref-structured-reps", structured_rep_pred, (curve, rng.randrange(1, r), rng.randrange(1, r))))
        for k in ([2] if tier == "quick" else [1, 2, 3, 6]):
            ps.append(Pred("two-step", two_step_pred, (curve, [(rng.randrange(1, r), rng.randrange(1, r)) for _ in range(k)], rng.randrange(1 << 30))))
    for x in elems(rng, tier):
        ps.append(Pred("exp-identities", exp_pred, (x,)))
    if only:
        ps = [p for p in ps if p.name == only]
    return ps


def search(rng, tier, broken, disagreements):
    return predicates(rng, "thorough")
