"""C03 — BLS: aggregation is the group sum and aggregate checks accept only it"""
import itertools

import oracle as O
from common import Case, Pred, tb, tbl
from props.blsutil import SUITES, dec_g2, enc_g2, flip, pk_of, suite_cls
from props.util import nontrivial_default

RULE = ("correspondence: Aggregate / AggregateVerify / FastAggregateVerify / _AggregatePKs of the model vs the real suites for signer sets "
        "of size 1..n, repeated keys, repeated messages, permutations and regroupings, every single-element perturbation of "
        "(keys, messages, aggregate), length mismatches, empty inputs; predicates: Aggregate == encoding of the oracle's group sum, order and "
        "grouping independence, accept iff the supplied signature equals the sum and the suite preconditions hold")
HYPOTHESES = ["ModelBilinearCode (C01_ProtoModel / Lemmas/ModelPairing): the pairing function the code itself computes is additive in each argument on canonical on-curve subgroup triples — pairing(add(Q,Q'),P) == pairing(Q,P)*pairing(Q',P) and pairing(Q,add(P,P')) == pairing(Q,P)*pairing(Q,P') (HB1; needs divisor theory, not in Mathlib). It is the ONLY remaining hypothesis: group orders (HB2), hash_to_G2 total and in the subgroup (HT6), non-degeneracy (kernel-evaluated e(G2,G1) != 1 + cyclic torsion) and 'the Miller loop computes e' (representative independence via optimized = reference pairing) are all theorems"]
NOT_YET_PROVED = ['bilinearity of the model pairing (Aggregate = group sum, order/grouping independence, error behaviour are unconditional)']
ASSUMPTIONS = ["FastAggregateVerify returns False when the AGGREGATE public key is the identity (IETF-mandated KeyValidate of the aggregate)"]
nontrivial = nontrivial_default
EXTRA_MODULES = {"Props.C01_ProtoHB2": "PyEcc.C03.", "Props.C01_ProtoND": "PyEcc.C03.", "Props.C01_ProtoModel": "PyEcc.C03.", "Props.TieBls": "PyEcc.Tie.", "Props.TieBlsAgg": "PyEcc.Tie."}

CHUNK = 2


def signers(rng, n, distinct_msgs=True):
    sks = [rng.randrange(1, O.BLS_R) for _ in range(n)]
    ms = [bytes([i]) + bytes(rng.randrange(256) for _ in range(rng.randrange(0, 40))) for i in range(n)]
    return sks, ms


def agg_sum(sigs):
    S = None
    for s in sigs:
        S = O.aff_add(S, dec_g2(s))
    return enc_g2(S)


def scenario(rng, s, n):
    C = suite_cls(s)
    sks, ms = signers(rng, n)
    pks = [pk_of(k) for k in sks]
    sigs = [C.Sign(k, m) for k, m in zip(sks, ms)]
    return C, sks, ms, pks, sigs


def perturbations(rng, s, C, sks, ms, pks, sigs):
    """(tag, pks, msgs, aggregate, expected)"""
    agg = C.Aggregate(sigs)
    n = len(sks)
    out = [("honest", pks, ms, agg, True)]
    i = rng.randrange(n)
    if n > 1:
        out.append(("drop-signer", pks[:i] + pks[i + 1:], ms[:i] + ms[i + 1:], agg, False))
        out.append(("drop-key-only", pks[:i] + pks[i + 1:], ms, agg, False))
        out.append(("drop-msg-only", pks, ms[:i] + ms[i + 1:], agg, False))
        j = (i + 1) % n
        sw = list(ms)
        sw[i], sw[j] = sw[j], sw[i]
        out.append(("swap-msgs", pks, sw, agg, False))
        perm = list(range(n))
        rng.shuffle(perm)
        out.append(("permuted-pairs", [pks[k] for k in perm], [ms[k] for k in perm], agg, True))
    out.append(("dup-signer", pks + [pks[i]], ms + [ms[i]], agg, False))
    other = pk_of(rng.randrange(1, O.BLS_R))
    out.append(("substitute-key", pks[:i] + [other] + pks[i + 1:], ms, agg, False))
    out.append(("substitute-msg", pks, ms[:i] + [ms[i] + b"!"] + ms[i + 1:], agg, False))
    out.append(("alter-agg-flip", pks, ms, flip(agg, rng.randrange(768)), False))
    out.append(("alter-agg-neg", pks, ms, enc_g2(O.aff_neg(dec_g2(agg))), False))
    out.append(("agg-plus-torsion", pks, ms, enc_g2(O.aff_add(dec_g2(agg), O.torsion_g2(rng))), False))
    out.append(("invalid-key", pks[:i] + [b"\x00" * 48] + pks[i + 1:], ms, agg, False))
    out.append(("identity-key", pks[:i] + [b"\xc0" + b"\x00" * 47] + pks[i + 1:], ms, agg, False))
    out.append(("empty", [], [], agg, False))
    out.append(("short-agg", pks, ms, agg[:95], False))
    return out


def same_message_scenarios(rng, s):
    """(tag, pks, msgs, aggregate, expected): repeated messages (valid in AUG/POP, refused in BASIC), count mismatches that
    only differ in repeated messages, and signer pairs whose keys cancel (sk, r - sk)"""
    C = suite_cls(s)
    sks = [rng.randrange(1, O.BLS_R) for _ in range(3)]
    m = b"same message"
    pks = [pk_of(k) for k in sks]
    agg = C.Aggregate([C.Sign(k, m) for k in sks])
    ok_rep = s != "basic"
    out = [("repeated-msgs", pks, [m, m, m], agg, ok_rep),
           ("repeated-msgs-one-short", pks, [m, m], agg, False),
           ("repeated-msgs-one-msg", pks, [m], agg, False),
           ("repeated-msgs-one-extra", pks, [m, m, m, m], agg, False),
           ("repeated-msgs-key-short", pks[:2], [m, m, m], agg, False)]
    a = rng.randrange(1, O.BLS_R)
    cancel = [pk_of(a), pk_of(O.BLS_R - a)]
    agg2 = C.Aggregate([C.Sign(a, m), C.Sign(O.BLS_R - a, m)])
    # in POP/BASIC the two signatures on the same message cancel: the honest aggregate is the identity signature
    out.append(("cancelling-keys", cancel, [m, m], agg2, ok_rep))
    return out


def cases(rng, tier):
    cs = []
    for s in SUITES:
        for tag, p, m, a, _ in same_message_scenarios(rng, s):
            cs.append(Case("bls.AggregateVerify", [s, tbl(p), tbl(m), tb(a)], tags=(tag,)))
    sizes = [1, 2, 3] if tier == "quick" else [1, 2, 3, 4, 8, 16, 32]
    for s in SUITES:
        for n in (sizes if tier == "thorough" else [rng.choice(sizes)]):
            C, sks, ms, pks, sigs = scenario(rng, s, n)
            cs.append(Case("bls.Aggregate", [tbl(sigs)]))
            perts = perturbations(rng, s, C, sks, ms, pks, sigs)
            if tier == "quick":
                perts = perts[:1] + rng.sample(perts[1:], 5)
            for tag, p, m, a, _ in perts:
                cs.append(Case("bls.AggregateVerify", [s, tbl(p), tbl(m), tb(a)], tags=(tag,)))
    # Aggregate: errors, order, grouping
    C, sks, ms, pks, sigs = scenario(rng, "basic", 3)
    cs.append(Case("bls.Aggregate", [tbl([])]))
    cs.append(Case("bls.Aggregate", [tbl([sigs[0][:95]])]))
    cs.append(Case("bls.Aggregate", [tbl([sigs[0], b"\x00" * 96])]))
    cs.append(Case("bls.Aggregate", [tbl([sigs[0], sigs[1] + b"\x00"])]))
    cs.append(Case("bls.Aggregate", [tbl(list(reversed(sigs)))]))
    cs.append(Case("bls.Aggregate", [tbl([sigs[0], sigs[0]])]))
    # FastAggregateVerify (POP suite)
    from py_ecc.bls import G2ProofOfPossession as POP
    n = 3
    sks = [rng.randrange(1, O.BLS_R) for _ in range(n)]
    m = b"shared message"
    pks = [pk_of(k) for k in sks]
    agg = POP.Aggregate([POP.Sign(k, m) for k in sks])
    cs.append(Case("bls.FastAggregateVerify", [tbl(pks), tb(m), tb(agg)]))
    cs.append(Case("bls.FastAggregateVerify", [tbl(pks[:2]), tb(m), tb(agg)]))
    cs.append(Case("bls.FastAggregateVerify", [tbl(pks + [pks[0]]), tb(m), tb(agg)]))
    cs.append(Case("bls.FastAggregateVerify", [tbl([]), tb(m), tb(agg)]))
    cs.append(Case("bls.FastAggregateVerify", [tbl(pks), tb(m + b"x"), tb(agg)]))
    cs.append(Case("bls.FastAggregateVerify", [tbl(pks[:2] + [b"\x01" * 48]), tb(m), tb(agg)]))
    cs.append(Case("bls.AggregatePKs", [tbl(pks)]))
    sk0 = rng.randrange(1, O.BLS_R)
    cs.append(Case("bls.FastAggregateVerify", [tbl([pk_of(sk0), pk_of(O.BLS_R - sk0)]), tb(m), tb(enc_g2(None))]))
    for tag, p, mm, a, _ in torsion_cancel_scenarios(rng):
        cs.append(Case("bls.FastAggregateVerify", [tbl(p), tb(mm), tb(a)], tags=(tag,)))
    return cs


def torsion_cancel_scenarios(rng):
    """keys OUTSIDE the subgroup whose cofactor components cancel: pk1 = a*G + T, pk2 = b*G - T (each invalid on its own);
    the aggregate key (a+b)*G is valid and the signature of a+b verifies against it — must still be refused"""
    from props.blsutil import enc_g1
    from py_ecc.bls import G2ProofOfPossession as POP
    a, b = rng.randrange(1, O.BLS_R), rng.randrange(1, O.BLS_R)
    m = b"shared message"
    out = []
    for T in (O.torsion_g1(rng), (O.Fp(0, O.BLS_P), O.Fp(2, O.BLS_P))):
        pk1 = enc_g1(O.aff_add(O.g1(a), T))
        pk2 = enc_g1(O.aff_add(O.g1(b), O.aff_neg(T)))
        sig = POP.Sign((a + b) % O.BLS_R or 1, m)
        out.append(("torsion-cancelling-keys", [pk1, pk2], m, sig, False))
    return out


def enc_g2_sum(sigs):
    """the honest aggregate computed WITHOUT the library's Aggregate (textbook affine sum of the decoded signatures)"""
    return agg_sum(sigs)


def aggregate_pred(sigs, perm, split):
    from py_ecc.bls import G2Basic as C
    agg = C.Aggregate(sigs)
    bad = []
    if agg != agg_sum(sigs) or len(agg) != 96:
        bad.append("Aggregate != encoding of the group sum")
    if C.Aggregate([sigs[i] for i in perm]) != agg:
        bad.append("order dependence")
    if 0 < split < len(sigs):
        if C.Aggregate([C.Aggregate(sigs[:split]), C.Aggregate(sigs[split:])]) != agg:
            bad.append("grouping dependence")
    return (not bad, f"Aggregate: {bad} for {len(sigs)} signatures perm={perm} split={split}")


def cross_suite_history_pred(sks, ms):
    """one interpreter: the same keys and messages aggregated and verified under BASIC, then POP, then AUG, then BASIC again;
    each suite accepts its own honest aggregate and rejects the other suites' aggregates"""
    pks = [pk_of(k) for k in sks]
    aggs = {}
    for s in SUITES:
        C = suite_cls(s)
        aggs[s] = C.Aggregate([C.Sign(k, m) for k, m in zip(sks, ms)])
    bad = []
    for s in ("basic", "pop", "aug", "basic", "pop"):
        C = suite_cls(s)
        if not C.AggregateVerify(pks, ms, aggs[s]):
            bad.append(f"{s}: own honest aggregate rejected")
        for s2 in SUITES:
            if s2 != s and C.AggregateVerify(pks, ms, aggs[s2]):
                bad.append(f"{s}: accepted the {s2} aggregate")
    return (not bad, f"same messages under several suites in one process: {bad[:4]}")


def aggregate_errors_pred(sig):
    from eth_utils import ValidationError
    from py_ecc.bls import G2Basic as C
    bad = []
    for tag, arg in (("empty", []), ("short", [sig[:95]]), ("long", [sig, sig + b"\x00"])):
        try:
            C.Aggregate(arg)
            bad.append(tag + " accepted")
        except ValidationError:
            pass
        except Exception as e:  # noqa: BLE001
            bad.append(f"{tag}: {type(e).__name__}")
    try:
        C.Aggregate([sig, b"\x00" * 96])
        bad.append("undecodable entry accepted")
    except ValueError:
        pass
    return (not bad, f"Aggregate error handling: {bad}")


def aggverify_pred(s, tag, pks, ms, agg, want):
    C = suite_cls(s)
    got = C.AggregateVerify(pks, ms, agg)
    return (got is want, f"AggregateVerify returned {got}, expected {want} for '{tag}' suite={s} n={len(pks)}")


def fast_pred(tag, pks, m, agg, want):
    from py_ecc.bls import G2ProofOfPossession as POP
    got = POP.FastAggregateVerify(pks, m, agg)
    return (got is want, f"FastAggregateVerify returned {got}, expected {want} for '{tag}' n={len(pks)}")


def basic_distinct_pred(sk1, sk2, m):
    """basic suite: repeated messages are refused even when the aggregate is the honest sum"""
    from py_ecc.bls import G2Basic as C, G2ProofOfPossession as POP, G2MessageAugmentation as AUG
    agg = C.Aggregate([C.Sign(sk1, m), C.Sign(sk2, m)])
    a = C.AggregateVerify([pk_of(sk1), pk_of(sk2)], [m, m], agg)
    agg_p = POP.Aggregate([POP.Sign(sk1, m), POP.Sign(sk2, m)])
    b = POP.AggregateVerify([pk_of(sk1), pk_of(sk2)], [m, m], agg_p)
    agg_a = AUG.Aggregate([AUG.Sign(sk1, m), AUG.Sign(sk2, m)])
    c = AUG.AggregateVerify([pk_of(sk1), pk_of(sk2)], [m, m], agg_a)
    return (a is False and b is True and c is True, f"repeated message: basic={a} (want False) pop={b} aug={c} (want True)")


def predicates(rng, tier, only=None):
    ps = []
    sizes = [1, 2, 4] if tier == "quick" else [1, 2, 3, 4, 8, 16, 32]
    for s in SUITES:
        for n in (sizes if tier == "thorough" else [rng.choice(sizes)]):
            C, sks, ms, pks, sigs = scenario(rng, s, n)
            perts = perturbations(rng, s, C, sks, ms, pks, sigs)
            if tier == "quick":
                perts = perts[:1] + rng.sample(perts[1:], 6)
            for tag, p, m, a, want in perts:
                ps.append(Pred("aggregate-verify", aggverify_pred, (s, tag, p, m, a, want)))
    for s in SUITES:
        for tag, p, m, a, want in same_message_scenarios(rng, s):
            ps.append(Pred("aggregate-verify", aggverify_pred, (s, tag, p, m, a, want)))
    C, sks, ms, pks, sigs = scenario(rng, "basic", 4 if tier == "quick" else 9)
    # Aggregate with the SAME signature repeated: the sum counts multiplicities
    ps.append(Pred("aggregate-sum", aggregate_pred, ([sigs[0], sigs[0], sigs[1]], [2, 0, 1], 1)))
    ps.append(Pred("aggregate-sum", aggregate_pred, ([sigs[0], sigs[0]], [1, 0], 1)))
    perms = list(itertools.permutations(range(len(sigs)))) if len(sigs) <= 4 else [tuple(rng.sample(range(len(sigs)), len(sigs))) for _ in range(30)]
    for perm in (rng.sample(perms, 4) if tier == "quick" else perms[:60]):
        ps.append(Pred("aggregate-sum", aggregate_pred, (sigs, list(perm), rng.randrange(0, len(sigs)))))
    ps.append(Pred("aggregate-errors", aggregate_errors_pred, (sigs[0],)))
    ps.append(Pred("aggregate-verify", cross_suite_history_pred, ([rng.randrange(1, O.BLS_R) for _ in range(2)], [b"shared-1", b"shared-2"])))
    ps.append(Pred("basic-distinct-messages", basic_distinct_pred, (rng.randrange(1, O.BLS_R), rng.randrange(1, O.BLS_R), b"same")))
    from py_ecc.bls import G2ProofOfPossession as POP
    n = 3 if tier == "quick" else 8
    sks = [rng.randrange(1, O.BLS_R) for _ in range(n)]
    m = b"shared message"
    pks = [pk_of(k) for k in sks]
    agg = POP.Aggregate([POP.Sign(k, m) for k in sks])
    other = pk_of(rng.randrange(1, O.BLS_R))
    for tag, p, mm, a, want in [("honest", pks, m, agg, True), ("drop", pks[:-1], m, agg, False), ("dup", pks + [pks[0]], m, agg, False),
                                ("substitute", pks[:-1] + [other], m, agg, False), ("empty", [], m, agg, False), ("other-msg", pks, m + b"x", agg, False),
                                ("permuted", list(reversed(pks)), m, agg, True), ("altered", pks, m, flip(agg, rng.randrange(768)), False),
                                ("invalid-key", pks[:-1] + [b"\x01" * 48], m, agg, False)]:
        ps.append(Pred("fast-aggregate-verify", fast_pred, (tag, p, mm, a, want)))
    for tag, p, mm, a, want in torsion_cancel_scenarios(rng):
        ps.append(Pred("fast-aggregate-verify", fast_pred, (tag, p, mm, a, want)))
    # signers whose keys differ by a cube root of unity mod r: their signatures on one message are S and lam*S = (beta*x, y) — two
    # DIFFERENT points with the SAME y (and, with -lam, the same x-cube and opposite y): the sum is neither a doubling nor infinity
    lam = O.cube_root_of_unity(O.BLS_R)
    a = rng.randrange(1, O.BLS_R)
    for tag, ks in (("eigen-keys", [a, a * lam % O.BLS_R]), ("eigen-keys-3", [a, a * lam % O.BLS_R, a * lam * lam % O.BLS_R, 5]),
                    ("eigen-keys-neg", [a, O.BLS_R - a * lam % O.BLS_R])):
        sg = [POP.Sign(k, m) for k in ks]
        ps.append(Pred("aggregate-sum", aggregate_pred, (sg, list(reversed(range(len(ks)))), 1)))
        ag = enc_g2_sum(sg)
        ps.append(Pred("fast-aggregate-verify", fast_pred, (tag, [pk_of(k) for k in ks], m, ag, True)))
        ps.append(Pred("aggregate-verify", aggverify_pred, ("pop", tag, [pk_of(k) for k in ks], [m] * len(ks), ag, True)))
    if only:
        ps = [p for p in ps if p.name == only]
    return ps


def search(rng, tier, broken, disagreements):
    return predicates(rng, "thorough")
