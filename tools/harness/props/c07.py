"""C07 — curve operations form the standard abelian group in all four curve modules"""
import itertools

import oracle as O
from common import Case, Pred, tl
from props.util import aff_tokens, cast12, curve_groups, fp_tok, nontrivial_default, rand_scale

RULE = ("correspondence: generated add/double/neg/multiply/is_on_curve of the four curve modules executed by the driver vs the "
        "real functions on G1, G2 (twist curve) and the degree-12 curve — subgroup points, points outside the subgroup, infinity, "
        "P=Q, P=-Q, scalars 0,1,2,3,r-1,r,r+1,2p-r,random up to 640 bits, random projective representatives; twist; "
        "predicates: group laws on the real modules vs an independent affine oracle (pure ints), reference vs optimized")
EXTRA_MODULES = {"Props.TieHashCurve": "PyEcc.Tie.", "Props.TieFieldsFq": "PyEcc.Tie.", "Props.TieFieldsFqp": "PyEcc.Tie.", "Props.TieFieldsMul": "PyEcc.Tie.", "Props.TieFieldsPoly": "PyEcc.Tie.", "Props.TieFieldsInv": "PyEcc.Tie."}

HYPOTHESES = []
NOT_YET_PROVED = []
ASSUMPTIONS = []
nontrivial = nontrivial_default


def _scalars(rng, g, tier):
    r, p = g.order, g.b.p
    s = [0, 1, 2, 3, r - 1, r, r + 1, 2 * p - r, rng.randrange(r), rng.randrange(1 << 640)]
    if g.grp == "G12":
        s = [0, 1, 2, 3, rng.randrange(1 << 16), r] if tier == "thorough" else [0, 1, 2, 5]
    return s


def _points(rng, g, tier):
    pts = [None, g.gen, O.aff_mul(g.gen, 2), O.aff_mul(g.gen, rng.randrange(3, g.order)), O.aff_mul(g.gen, g.order - 1)]
    if g.grp != "G12":
        pts.append(g.rand_point(rng))
        pts.append(g.rand_point(rng))
        # the order-3 automorphism (x, y) -> (beta x, y): points sharing y with / having the opposite y of another point
        pts.append(O.phi(g.gen, g.b.p))
        pts.append(O.aff_neg(O.phi(pts[3], g.b.p)))
    else:
        # a point of E(Fp12) that is neither in the twist image nor in E(Fp): twist(kG2) + cast(G1)
        g1 = next(x for x in curve_groups() if x.mod == g.mod and x.grp == "G1")
        pts.append(O.aff_add(g.gen, cast12(g1.gen, g)))
    return pts


def base_diff_pair(g, rng):
    """two points (x1, y1), (x2, y2) of the curve over Fp2 with x1 - x2 in Fp (same imaginary part) — generally outside the subgroup"""
    p = g.b.p
    im = rng.randrange(1, p)
    out = []
    a = rng.randrange(p)
    while len(out) < 2:
        a = (a + 1) % p
        x = O.Fp2(a, im, p)
        y = (x * x * x + g.b).sqrt()
        if y is not None:
            out.append((x, y))
    return out[0], out[1]


def cases(rng, tier):
    cs = []
    for g in curve_groups():
        if g.grp == "G12" and tier == "quick" and g.mod in ("RefBn", "OptBn"):
            continue
        pre = f"curve.{g.mod}."
        pts = _points(rng, g, tier)
        tk = lambda P: g.pt_tokens(P, rng)  # noqa: E731
        for P in pts:
            cs.append(Case(pre + "double", [g.spec] + tk(P)))
            cs.append(Case(pre + "neg", [g.spec] + tk(P)))
            cs.append(Case(pre + "is_on_curve", [g.spec] + tk(P) + [fp_tok(g.b)]))
            cs.append(Case(pre + "add", [g.spec] + tk(P) + tk(P)))
            cs.append(Case(pre + "add", [g.spec] + tk(P) + tk(O.aff_neg(P))))
            for n in _scalars(rng, g, tier)[: (6 if tier == "quick" else 99)]:
                cs.append(Case(pre + "multiply", [g.spec] + tk(P) + [n]))
        pairs = list(itertools.product(pts, repeat=2))
        if tier == "quick":
            pairs = rng.sample(pairs, min(len(pairs), 12))
        if g.grp != "G12":
            pairs += [(g.gen, O.phi(g.gen, g.b.p)), (g.gen, O.aff_neg(O.phi(g.gen, g.b.p))), (pts[3], O.aff_neg(O.phi(pts[3], g.b.p)))]
        for P, Q in pairs:
            cs.append(Case(pre + "add", [g.spec] + tk(P) + tk(Q)))
        # an off-curve point is reported as such
        if g.grp != "G12":
            x = g.gen[0]
            cs.append(Case(pre + "is_on_curve", [g.spec] + tk((x, g.gen[1] + 1)) + [fp_tok(g.b)]))
    # twist
    for g in curve_groups():
        if g.grp != "G2":
            continue
        for P in [None, g.gen, O.aff_mul(g.gen, rng.randrange(2, g.order)), g.rand_point(rng)]:
            if g.opt:
                cs.append(Case(f"pairing.twist_{g.mod}", g.pt_tokens(P, rng)))
            else:
                cs.append(Case(f"pairing.twist_{g.mod}", aff_tokens(P)))
    return cs


# ------------------------------------------------------------------ predicates
def _lib(g):
    import pyexec
    return pyexec.curve_mod(g.mod), pyexec.fcls(g.spec)


def _to_lib(g, C, x):
    c = x.coeffs()
    return C(c[0]) if g.grp == "G1" else C(c)


def _from_lib(g, x):
    return g.mk([int(c) for c in x.coeffs] if hasattr(x, "coeffs") else [int(x.n)])


def _pt_to_lib(g, C, P, s=None):
    if g.opt:
        s = s if s is not None else g.b.like(1)
        if P is None:
            return (_to_lib(g, C, s), _to_lib(g, C, s), _to_lib(g, C, s.like(0)))
        return (_to_lib(g, C, P[0] * s), _to_lib(g, C, P[1] * s), _to_lib(g, C, s))
    if P is None:
        return None
    return (_to_lib(g, C, P[0]), _to_lib(g, C, P[1]))


def _pt_from_lib(g, T):
    if g.opt:
        x, y, z = (_from_lib(g, c) for c in T)
        return None if z.is_zero() else (x / z, y / z)
    if T is None:
        return None
    return (_from_lib(g, T[0]), _from_lib(g, T[1]))


def _peq(P, Q):
    if P is None or Q is None:
        return P is None and Q is None
    return P[0] == Q[0] and P[1] == Q[1]


def group_pred(gi, P, Q, R, m, n, scales):
    g = curve_groups()[gi]
    M, C = _lib(g)
    s1, s2, s3 = scales
    lp, lq, lr = _pt_to_lib(g, C, P, s1), _pt_to_lib(g, C, Q, s2), _pt_to_lib(g, C, R, s3)
    out = lambda T: _pt_from_lib(g, T)  # noqa: E731
    B = _to_lib(g, C, g.b)
    chk = {
        "add=oracle": _peq(out(M.add(lp, lq)), O.aff_add(P, Q)),
        "comm": _peq(out(M.add(lp, lq)), out(M.add(lq, lp))),
        "assoc": _peq(out(M.add(M.add(lp, lq), lr)), out(M.add(lp, M.add(lq, lr)))),
        "identity": _peq(out(M.add(lp, _pt_to_lib(g, C, None, s2))), P) and _peq(out(M.add(_pt_to_lib(g, C, None, s2), lp)), P),
        "inverse": _peq(out(M.add(lp, M.neg(lp))), None),
        "double": _peq(out(M.double(lp)), out(M.add(lp, lp))) and _peq(out(M.double(lp)), O.aff_add(P, P)),
        "closure": M.is_on_curve(M.add(lp, lq), B) and M.is_on_curve(M.double(lp), B) and M.is_on_curve(M.neg(lp), B)
                   and M.is_on_curve(M.multiply(lp, n), B),
        "multiply=oracle": _peq(out(M.multiply(lp, n)), O.aff_mul(P, n)),
        "mul-additive": _peq(out(M.multiply(lp, m + n)), out(M.add(M.multiply(lp, m), M.multiply(lp, n)))),
        "mul-multiplicative": _peq(out(M.multiply(M.multiply(lp, m), n)), out(M.multiply(lp, m * n))),
        "small-n": all(_peq(out(M.multiply(lp, k)), O.aff_mul(P, k)) for k in (0, 1, 2, 3)),
        # the library's OWN comparison between neg(P) and a freshly (canonically) constructed -P, and their sum: a negation
        # that leaves a non-canonical zero coefficient (p instead of 0) is invisible after reduction but breaks eq / add dispatch
        "neg-eq-canonical": bool(M.eq(M.neg(lp), _pt_to_lib(g, C, O.aff_neg(P), s1))) and _peq(out(M.neg(lp)), O.aff_neg(P)),
        "neg+canonical-neg": _peq(out(M.add(M.neg(lp), _pt_to_lib(g, C, O.aff_neg(P), s2))), O.aff_add(O.aff_neg(P), O.aff_neg(P))),
    }
    bad = [k for k, v in chk.items() if not v]
    return (not bad, f"{g.name()}: group law fails {bad} at P={P} Q={Q} R={R} m={m} n={n}")


def subgroup_pred(gi, k, n):
    """multiply(P, n) == multiply(P, n mod r) on the prime-order subgroup; r*P = inf; reference == optimized"""
    g = curve_groups()[gi]
    M, C = _lib(g)
    P = O.aff_mul(g.gen, k)
    lp = _pt_to_lib(g, C, P)
    out = lambda T: _pt_from_lib(g, T)  # noqa: E731
    r = g.order
    bad = []
    if not _peq(out(M.multiply(lp, n)), out(M.multiply(lp, n % r))):
        bad.append("n mod r")
    if not _peq(out(M.multiply(lp, r)), None) or not _peq(out(M.multiply(lp, r + 1)), P) or not _peq(out(M.multiply(lp, r - 1)), O.aff_neg(P)):
        bad.append("order r")
    return (not bad, f"{g.name()}: {bad} at k={k} n={n}")


def twist_pred(gi, k1, k2):
    """twist is a homomorphism into the degree-12 curve, injective on the sample"""
    import pyexec
    g = curve_groups()[gi]           # a G2 group
    g12 = next(x for x in curve_groups() if x.mod == g.mod and x.grp == "G12")
    M, C = _lib(g)
    _, C12 = _lib(g12)
    P, Q = O.aff_mul(g.gen, k1), O.aff_mul(g.gen, k2)
    tw = lambda X: _pt_from_lib(g12, M.twist(_pt_to_lib(g, C, X)))  # noqa: E731
    tp, tq, tpq = tw(P), tw(Q), tw(O.aff_add(P, Q))
    bad = []
    if not O.on_curve(tp, g12.b) or not O.on_curve(tq, g12.b):
        bad.append("image on curve")
    if not _peq(O.aff_add(tp, tq), tpq):
        bad.append("homomorphism")
    if (k1 - k2) % g.order != 0 and _peq(tp, tq):
        bad.append("injective")
    if not _peq(tw(None), None):
        bad.append("twist(inf)")
    if not _peq(tw(O.aff_neg(P)), O.aff_neg(tp)):
        bad.append("neg")
    return (not bad, f"{g.mod}.twist: {bad} at k1={k1} k2={k2}")


def constants_pred():
    """published constants are the standard ones (independent literals in the oracle)"""
    from py_ecc import bls12_381 as B, bn128 as N, optimized_bls12_381 as OB, optimized_bn128 as ON
    bad = []
    if int(B.field_modulus) != O.BLS_P or int(OB.field_modulus) != O.BLS_P or int(B.curve_order) != O.BLS_R or int(OB.curve_order) != O.BLS_R:
        bad.append("bls moduli")
    if int(N.field_modulus) != O.BN_P or int(ON.field_modulus) != O.BN_P or int(N.curve_order) != O.BN_R or int(ON.curve_order) != O.BN_R:
        bad.append("bn moduli")
    if (int(B.G1[0].n), int(B.G1[1].n)) != O.BLS_G1 or (int(OB.G1[0].n), int(OB.G1[1].n), int(OB.G1[2].n)) != O.BLS_G1 + (1,):
        bad.append("bls G1")
    if tuple(tuple(int(c) for c in x.coeffs) for x in B.G2) != O.BLS_G2:
        bad.append("bls G2")
    if (int(N.G1[0].n), int(N.G1[1].n)) != (1, 2) or int(N.b.n) != 3 or int(B.b.n) != 4:
        bad.append("b / bn G1")
    if [int(c) for c in B.b2.coeffs] != [4, 4]:
        bad.append("bls b2")
    if tuple(tuple(int(c) for c in x.coeffs) for x in N.G2) != O.BN_G2 or tuple(tuple(int(c) for c in x.coeffs) for x in ON.G2[:2]) != O.BN_G2 \
            or [int(c) for c in ON.G2[2].coeffs] != [1, 0]:
        bad.append("bn128 G2 != EIP-197 generator")
    if tuple(tuple(int(c) for c in x.coeffs) for x in OB.G2[:2]) != O.BLS_G2:
        bad.append("optimized bls G2")
    for M_, nm in ((B, "bls12_381"), (N, "bn128")):
        if tuple(tuple(int(c) for c in x.coeffs) for x in M_.G12) != tuple(tuple(int(c) for c in x.coeffs) for x in M_.twist(M_.G2)):
            bad.append(nm + " G12 != twist(G2)")
    x = O.Fp2(*[int(c) for c in N.b2.coeffs], O.BN_P) * O.Fp2(9, 1, O.BN_P)
    if not x == O.Fp2(3, 0, O.BN_P):
        bad.append("bn b2 != 3/(9+i)")
    return (not bad, f"constants differ from the standard ones: {bad}")


def predicates(rng, tier, only=None):
    ps = [Pred("constants", constants_pred, ())]
    n = 2 if tier == "quick" else 10
    for gi, g in enumerate(curve_groups()):
        if g.grp == "G12":
            # points of E(Fp12) all of whose coordinates lie in the base field (cast_point_to_fq12 of G1 points): every slope
            # denominator is a base-field-valued degree-12 element — in all four modules, also in the quick tier
            g1 = next(x for x in curve_groups() if x.mod == g.mod and x.grp == "G1")
            c1, c2 = cast12(g1.gen, g), cast12(O.aff_mul(g1.gen, 2), g)
            one3 = tuple(g.b.like(1) for _ in range(3))
            ps.append(Pred("group-laws", group_pred, (gi, c1, c2, c1, 2, 3, one3)))
        if g.grp == "G12" and (tier == "quick" and not (g.mod == "OptBls")):
            continue
        pts = _points(rng, g, tier)
        nn = 1 if g.grp == "G12" else n
        if g.grp != "G12":
            sc0 = tuple(rand_scale(rng, g.b) for _ in range(3))
            ps.append(Pred("group-laws", group_pred, (gi, g.gen, O.phi(g.gen, g.b.p), pts[2], 2, 3, sc0)))
            ps.append(Pred("group-laws", group_pred, (gi, pts[3], O.aff_neg(O.phi(pts[3], g.b.p)), g.gen, 1, 5, sc0)))
        for _ in range(nn):
            P, Q, R = rng.choice(pts), rng.choice(pts), rng.choice(pts)
            big = g.grp != "G12"
            m = rng.choice([0, 1, 2, rng.randrange(g.order)]) if big else rng.randrange(8)
            k = rng.choice([3, g.order - 1, g.order + 1, rng.randrange(1 << 300)]) if big else rng.randrange(2, 9)
            sc = tuple((rand_scale(rng, g.b) if g.grp != "G12" else g.b.like(rng.randrange(1, 99))) for _ in range(3))
            ps.append(Pred("group-laws", group_pred, (gi, P, Q, R, m, k, sc)))
        if g.opt and g.grp != "G12":
            # RELATED projective representatives: all three operands over ONE shared non-unit denominator (co-Z, which add() itself
            # produces for P+Q and P-Q), and a normalised operand next to a scaled one
            s_ = rand_scale(rng, g.b)
            one_ = g.b.like(1)
            P, Q, R = rng.choice(pts), rng.choice(pts), rng.choice(pts)
            for sc2 in ((s_, s_, s_), (s_, one_, s_), (one_, s_, one_)):
                ps.append(Pred("group-laws", group_pred, (gi, P, Q, R, 2, 3, sc2)))
        if g.grp == "G2":
            # two points of the twist curve whose x-coordinates differ by an element of the BASE field (and a point whose y lies in
            # the base field): the slope denominators x2 - x1 / 2y are then base-field-valued extension elements
            A, B = base_diff_pair(g, rng)
            sc1 = tuple(rand_scale(rng, g.b) for _ in range(3))
            ps.append(Pred("group-laws", group_pred, (gi, A, B, g.gen, 1, 2, sc1)))
            ps.append(Pred("group-laws", group_pred, (gi, B, O.aff_neg(A), A, 2, 3, sc1)))
        if g.grp != "G12":
            ps.append(Pred("subgroup-order", subgroup_pred, (gi, rng.randrange(1, g.order), rng.randrange(1 << 640))))
        if g.grp == "G2":
            ps.append(Pred("twist-homomorphism", twist_pred, (gi, rng.randrange(1, g.order), rng.randrange(1, g.order))))
    if only:
        ps = [p for p in ps if p.name == only]
    return ps


def search(rng, tier, broken, disagreements):
    return predicates(rng, "thorough")
