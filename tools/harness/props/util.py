"""shared generators / converters for the property modules"""
import json
import os

import oracle as O
from common import VERIF, Case, tb, tbl, tfq, tl  # noqa: F401

BLS_SPEC_Q = f"q:{O.BLS_P}:opt"
BLS_SPEC_Q_REF = f"q:{O.BLS_P}:ref"
BN_SPEC_Q = f"q:{O.BN_P}:opt"
BN_SPEC_Q_REF = f"q:{O.BN_P}:ref"
MC2 = "[1,0]"
BLS_MC12 = "[2,0,0,0,0,0,-2,0,0,0,0,0]"
BN_MC12 = "[82,0,0,0,0,0,-18,0,0,0,0,0]"


def espec(v, p, mc):
    return f"e:{v}:{p}:{mc}"


IRRED = json.load(open(os.path.join(VERIF, "data", "irreducible.json")))


def scalars(rng, order, n_random=4, extra=()):
    s = [0, 1, 2, 3, order - 2, order - 1, order, order + 1]
    s += list(extra)
    for _ in range(n_random):
        s.append(rng.randrange(order))
    return s


def bitlen_scalars(rng, order, step=16):
    out = []
    b = 1
    while (1 << b) < order:
        out.append(rng.randrange(1 << (b - 1), min(1 << b, order)))
        b += step
    return out


# ---- library objects from oracle points -------------------------------------------------
def lib_g1(P, scale=1):
    """oracle affine G1 point -> optimized_bls12_381 projective triple (scaled representative)"""
    from py_ecc.fields import optimized_bls12_381_FQ as FQ
    if P is None:
        return (FQ(scale % O.BLS_P or 1), FQ(1), FQ(0))
    return (FQ(P[0].v * scale), FQ(P[1].v * scale), FQ(scale))


def lib_g2(P, scale=(1, 0)):
    from py_ecc.fields import optimized_bls12_381_FQ2 as FQ2
    s = O.Fp2(scale[0], scale[1], O.BLS_P)
    if P is None:
        return (FQ2([1, 0]), FQ2([1, 0]), FQ2([0, 0]))
    x, y = P[0] * s, P[1] * s
    return (FQ2([x.a, x.b]), FQ2([y.a, y.b]), FQ2([s.a, s.b]))


def tok_g1(P, scale=1):
    """protocol tokens (3 args) for an optimized G1 point"""
    if P is None:
        return [tfq(scale % O.BLS_P or 1), tfq(1), tfq(0)]
    return [tfq(P[0].v * scale % O.BLS_P), tfq(P[1].v * scale % O.BLS_P), tfq(scale % O.BLS_P)]


def tok_g2(P, scale=(1, 0)):
    s = O.Fp2(scale[0], scale[1], O.BLS_P)
    if P is None:
        return [tl([1, 0]), tl([1, 0]), tl([0, 0])]
    x, y = P[0] * s, P[1] * s
    return [tl([x.a, x.b]), tl([y.a, y.b]), tl([s.a, s.b])]


def from_lib_p3(pt):
    """optimized projective (FQ or FQ2 coordinates) -> oracle affine point"""
    x, y, z = pt
    if hasattr(x, "coeffs"):
        X = O.Fp2(int(x.coeffs[0]), int(x.coeffs[1]), O.BLS_P)
        Y = O.Fp2(int(y.coeffs[0]), int(y.coeffs[1]), O.BLS_P)
        Z = O.Fp2(int(z.coeffs[0]), int(z.coeffs[1]), O.BLS_P)
    else:
        X, Y, Z = O.Fp(int(x.n), O.BLS_P), O.Fp(int(y.n), O.BLS_P), O.Fp(int(z.n), O.BLS_P)
    if Z.is_zero():
        return None
    return (X / Z, Y / Z)


def pt_eq(P, Q):
    if P is None or Q is None:
        return P is None and Q is None
    return P[0] == Q[0] and P[1] == Q[1]


def show_pt(P):
    if P is None:
        return "inf"
    return f"({P[0].coeffs()},{P[1].coeffs()})"


def messages(rng, tier):
    ms = [b"", b"\x00", b"a" * 55, b"b" * 56, b"c" * 63, b"d" * 64, b"e" * 65,
          bytes(rng.randrange(256) for _ in range(37))]
    if tier == "thorough":
        ms += [bytes(rng.randrange(256) for _ in range(4096)), bytes(range(256))]
    return ms


def nontrivial_default(case, impl):
    if not impl.startswith("ok\t"):
        return False
    v = impl[3:]
    return v not in ("inf", "0", "[0]", "False", "x", "", "[0,0]", "1", "[1]")


# ---- hash transcripts ------------------------------------------------------------------------
def transcript_token(rh):
    """`T<ds>:<bs>:<in>=<out>,…` — the hash oracle the driver evaluates the model with"""
    seen = {}
    for i, o in rh.record:
        seen[bytes(i)] = bytes(o)
    return f"T{rh.digest_size}:{rh.block_size}:" + ",".join(k.hex() + "=" + v.hex() for k, v in seen.items())


def hashed_case(op, hname, run_impl, args_after_hash, tags=()):
    """run the REAL function now with a recording wrapper around hashlib.<hname>; ship the transcript to
    the model.  `run_impl(rh)` returns the canonical output string (or raises)."""
    import pyexec
    rh = pyexec.RecordingHash(hname)
    try:
        out = "ok\t" + run_impl(rh)
    except RecursionError:
        out = "err\tRecursionError"
    except Exception as e:  # noqa: BLE001
        out = "err\t" + pyexec.err_kind(e)
    tok = transcript_token(rh)
    return Case(op, [hname] + [str(a) for a in args_after_hash], impl_out=out,
                driver_args=[tok] + [str(a) for a in args_after_hash], tags=tags)


# ---- points of the four curve modules as protocol tokens ----------------------------------------
def fp_tok(x):
    return tl(x.coeffs())


def aff_tokens(P):
    """oracle affine point -> 2 tokens for the reference modules"""
    if P is None:
        return ["inf", "inf"]
    return [fp_tok(P[0]), fp_tok(P[1])]


def proj_tokens(P, scale):
    """oracle affine point -> 3 tokens (x*s, y*s, s) for the optimized modules; `scale` is an oracle field element"""
    if P is None:
        return [fp_tok(scale), fp_tok(scale.like(1)), fp_tok(scale.like(0))]
    return [fp_tok(P[0] * scale), fp_tok(P[1] * scale), fp_tok(scale)]


def rand_scale(rng, like):
    """a random non-zero field element of the same kind as `like`"""
    while True:
        if isinstance(like, O.Fp2):
            s = O.Fp2(rng.randrange(like.p), rng.randrange(like.p), like.p)
        else:
            s = O.Fp(rng.randrange(like.p), like.p)
        if not s.is_zero():
            return s


# ---- the four curve modules × three groups --------------------------------------------------------
class Grp:
    """one (module, group): field spec token, oracle generator, curve coefficient b, subgroup order"""

    def __init__(self, mod, grp, spec, gen, b, order, mk):
        self.mod, self.grp, self.spec, self.gen, self.b, self.order, self.mk = mod, grp, spec, gen, b, order, mk
        self.opt = mod.startswith("Opt")
        self.curve = "bls" if mod.endswith("Bls") else "bn"

    def name(self):
        return f"{self.mod}.{self.grp}"

    def pt_tokens(self, P, rng=None, scale=None):
        if not self.opt:
            return aff_tokens(P)
        if scale is None:
            scale = rand_scale(rng, self.b) if rng is not None and not isinstance(self.b, O.Fpk) else self.b.like(1)
        return proj_tokens(P, scale)

    def rand_point(self, rng):
        """random point of the full curve group (may lie outside the prime-order subgroup)"""
        if self.grp == "G12":
            return None
        while True:
            x = self.mk([rng.randrange(self.b.p) for _ in range(len(self.b.coeffs()))])
            y = (x * x * x + self.b).sqrt()
            if y is not None:
                return (x, y if rng.random() < 0.5 else -y)


_GROUPS = None


def curve_groups():
    global _GROUPS
    if _GROUPS is not None:
        return _GROUPS
    import importlib
    out = []
    for curve, p, r, mc12 in (("bls", O.BLS_P, O.BLS_R, [2, 0, 0, 0, 0, 0, -2, 0, 0, 0, 0, 0]),
                              ("bn", O.BN_P, O.BN_R, [82, 0, 0, 0, 0, 0, -18, 0, 0, 0, 0, 0])):
        libname = "bls12_381" if curve == "bls" else "bn128"
        ref = importlib.import_module("py_ecc." + libname)
        mk1 = lambda l, p=p: O.Fp(l[0], p)  # noqa: E731
        mk2 = lambda l, p=p: O.Fp2(l[0], l[1], p)  # noqa: E731
        mk12 = lambda l, p=p, mc12=mc12: O.Fpk(l, p, mc12)  # noqa: E731
        co = lambda x: [int(c) for c in x.coeffs] if hasattr(x, "coeffs") else [int(x.n)]  # noqa: E731
        g1 = (mk1(co(ref.G1[0])), mk1(co(ref.G1[1])))
        g2 = (mk2(co(ref.G2[0])), mk2(co(ref.G2[1])))
        t = ref.twist(ref.G2)
        g12 = (mk12(co(t[0])), mk12(co(t[1])))
        b1_, b2_, b12_ = mk1(co(ref.b)), mk2(co(ref.b2)), mk12(co(ref.b12))
        for v in ("Ref", "Opt"):
            mod = v + ("Bls" if curve == "bls" else "Bn")
            vv = v.lower()
            out.append(Grp(mod, "G1", f"q:{p}:{vv}", g1, b1_, r, mk1))
            out.append(Grp(mod, "G2", espec(vv, p, MC2), g2, b2_, r, mk2))
            out.append(Grp(mod, "G12", espec(vv, p, tl(mc12)), g12, b12_, r, mk12))
    _GROUPS = out
    return out


def cast12(P, g12):
    """embed an Fp point into E(Fp12) (cast_point_to_fq12)"""
    if P is None:
        return None
    return (g12.mk([P[0].v] + [0] * 11), g12.mk([P[1].v] + [0] * 11))


def aff_linefunc(P1, P2, T):
    """value at T of the line through P1, P2 (tangent if equal, vertical if opposite) — the textbook
    function the Miller loops use; all three finite"""
    x1, y1 = P1
    x2, y2 = P2
    xt, yt = T
    if not (x1 == x2):
        m = (y2 - y1) / (x2 - x1)
        return m * (xt - x1) - (yt - y1)
    if y1 == y2:
        m = (x1 * x1 * 3) / (y1 * 2)
        return m * (xt - x1) - (yt - y1)
    return xt - x1


def structured_scales(like):
    """non-random projective scalings that random sampling never hits: base-field constants, -1, i, 1+i, 9+i and
    base-field multiples of them (the twist embeddings use 1+i / 9+i)"""
    p = like.p
    if isinstance(like, O.Fp2):
        return [O.Fp2(1, 0, p), O.Fp2(p - 1, 0, p), O.Fp2(3, 0, p), O.Fp2(0, 1, p), O.Fp2(1, 1, p), O.Fp2(9, 1, p),
                O.Fp2(9 * 7, 7, p), O.Fp2(5, 5, p), O.Fp2(p - 9, p - 1, p)]
    if isinstance(like, O.Fp):
        return [O.Fp(1, p), O.Fp(p - 1, p), O.Fp(2, p), O.Fp(3, p)]
    return [like.like(1), like.like(3)]
