"""shared generators / converters for the property modules"""
import json
import os

import oracle as O
from common import VERIF, Case, tb, tbl, tfq, tl  # noqa: F401

BLS_SPEC_Q = f"q:{O.BLS_P}:opt"
BLS_SPEC_Q_REF = f"q:{O.BLS_P}:ref"
BN_SPEC_Q = f"q:{O.BN_P}:opt"
BN_SPEC_Q_REF = f"q:{O.BN_P}:ref"
MC2 = "[1,0]"
BLS_MC12 = "[2,0,0,0,0,0,-2,0,0,0,0,0]"
BN_MC12 = "[82,0,0,0,0,0,-18,0,0,0,0,0]"


def espec(v, p, mc):
    return f"e:{v}:{p}:{mc}"


IRRED = json.load(open(os.path.join(VERIF, "data", "irreducible.json")))


def scalars(rng, order, n_random=4, extra=()):
    s = [0, 1, 2, 3, order - 2, order - 1, order, order + 1]
    s += list(extra)
    for _ in range(n_random):
        s.append(rng.randrange(order))
    return s


def bitlen_scalars(rng, order, step=16):
    out = []
    b = 1
    while (1 << b) < order:
        out.append(rng.randrange(1 << (b - 1), min(1 << b, order)))
        b += step
    return out


# ---- library objects from oracle points -------------------------------------------------
def lib_g1(P, scale=1):
    """oracle affine G1 point -> optimized_bls12_381 projective triple (scaled representative)"""
    from py_ecc.fields import optimized_bls12_381_FQ as FQ
    if P is None:
        return (FQ(scale % O.BLS_P or 1), FQ(1), FQ(0))
    return (FQ(P[0].v * scale), FQ(P[1].v * scale), FQ(scale))


def lib_g2(P, scale=(1, 0)):
    from py_ecc.fields import optimized_bls12_381_FQ2 as FQ2
    s = O.Fp2(scale[0], scale[1], O.BLS_P)
    if P is None:
        return (FQ2([1, 0]), FQ2([1, 0]), FQ2([0, 0]))
    x, y = P[0] * s, P[1] * s
    return (FQ2([x.a, x.b]), FQ2([y.a, y.b]), FQ2([s.a, s.b]))


def tok_g1(P, scale=1):
    """protocol tokens (3 args) for an optimized G1 point"""
    if P is None:
        return [tfq(scale % O.BLS_P or 1), tfq(1), tfq(0)]
    return [tfq(P[0].v * scale % O.BLS_P), tfq(P[1].v * scale % O.BLS_P), tfq(scale % O.BLS_P)]


def tok_g2(P, scale=(1, 0)):
    s = O.Fp2(scale[0], scale[1], O.BLS_P)
    if P is None:
        return [tl([1, 0]), tl([1, 0]), tl([0, 0])]
    x, y = P[0] * s, P[1] * s
    return [tl([x.a, x.b]), tl([y.a, y.b]), tl([s.a, s.b])]


def from_lib_p3(pt):
    """optimized projective (FQ or FQ2 coordinates) -> oracle affine point"""
    x, y, z = pt
    if hasattr(x, "coeffs"):
        X = O.Fp2(int(x.coeffs[0]), int(x.coeffs[1]), O.BLS_P)
        Y = O.Fp2(int(y.coeffs[0]), int(y.coeffs[1]), O.BLS_P)
        Z = O.Fp2(int(z.coeffs[0]), int(z.coeffs[1]), O.BLS_P)
    else:
        X, Y, Z = O.Fp(int(x.n), O.BLS_P), O.Fp(int(y.n), O.BLS_P), O.Fp(int(z.n), O.BLS_P)
    if Z.is_zero():
        return None
    return (X / Z, Y / Z)


def pt_eq(P, Q):
    if P is None or Q is None:
        return P is None and Q is None
    return P[0] == Q[0] and P[1] == Q[1]


def show_pt(P):
    if P is None:
        return "inf"
    return f"({P[0].coeffs()},{P[1].coeffs()})"


def messages(rng, tier):
    ms = [b"", b"\x00", b"a" * 55, b"b" * 56, b"c" * 63, b"d" * 64, b"e" * 65,
          bytes(rng.randrange(256) for _ in range(37))]
    if tier == "thorough":
        ms += [bytes(rng.randrange(256) for _ in range(4096)), bytes(range(256))]
    return ms


def nontrivial_default(case, impl):
    if not impl.startswith("ok\t"):
        return False
    v = impl[3:]
    return v not in ("inf", "0", "[0]", "False", "x", "", "[0,0]", "1", "[1]")
