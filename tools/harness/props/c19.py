"""C19 — ECDSA recovery returns the algebraically determined key or refuses"""
import itertools

import oracle as O
from common import Case, Pred, tb
from props.util import nontrivial_default

RULE = ("correspondence: ecdsa_raw_recover of the model vs the real function over the product of the quantifier's tables "
        "v in {0,1,26,27,28,29,35,36} x r in {0,1,N-1,N,N+1,P-1,valid/invalid x, random} x s in {0,1,(N-1)/2,(N+1)/2,N-1,N,N+1,random}; "
        "predicates: result is the unique Q with (r mod N) Q = s R - z G for the R of the requested parity (independent affine oracle), "
        "or ValueError exactly when the property demands it")
HYPOTHESES = []
NOT_YET_PROVED = []
ASSUMPTIONS = []
nontrivial = nontrivial_default
EXTRA_MODULES = {"Props.TieSecp": "PyEcc.Tie."}
P_, N_ = O.SECP_P, O.SECP_N


def G():
    return (O.Fp(O.SECP_G[0], P_), O.Fp(O.SECP_G[1], P_))


def lift(r, odd):
    x = O.Fp(r, P_)
    y = (x * x * x + 7).sqrt()
    if y is None:
        return None
    if (y.v % 2 == 1) != odd:
        y = -y
    return (x, y)


def tables(rng, tier):
    valid_x = [x for x in (rng.randrange(P_) for _ in range(40)) if lift(x, False) is not None][:3]
    invalid_x = [x for x in (rng.randrange(P_) for _ in range(40)) if lift(x, False) is None][:2]
    vs = [0, 1, 26, 27, 28, 29, 35, 36]
    rs = [0, 1, N_ - 1, N_, N_ + 1, P_ - 1] + valid_x + invalid_x
    ss = [0, 1, (N_ - 1) // 2, (N_ + 1) // 2, N_ - 1, N_, N_ + 1, rng.randrange(1, N_), rng.randrange(N_, 1 << 300)]
    return vs, rs, ss


def parity_histories(rng):
    """[(hash, [(v, r, s), ...])]: the same r recovered under both parities / a signature and its high-s twin, back to back"""
    from py_ecc.secp256k1 import secp256k1 as S
    out = []
    for _ in range(2):
        h = bytes(rng.randrange(256) for _ in range(32))
        d = rng.randrange(1, N_).to_bytes(32, "big")
        v, r, s = S.ecdsa_raw_sign(h, d)
        out.append((h, [(55 - v, r, s), (v, r, s), (55 - v, r, N_ - s), (v, r, s)]))
        out.append((h, [(v, r, s), (55 - v, r, s), (v, r, N_ - s)]))
    return out


def cases(rng, tier):
    cs = []
    for h, seq in parity_histories(rng):
        for v, r, s in seq:
            cs.append(Case("secp.recover", [tb(h), v, r, s], tags=("parity-history",)))
    vs, rs, ss = tables(rng, tier)
    hs = [bytes(rng.randrange(256) for _ in range(32)), b"\x00" * 32, b"\xff" * 32]
    combos = list(itertools.product(vs, rs, ss))
    if tier == "quick":
        combos = [c for c in combos if c[0] in (27, 28)][::2] + rng.sample(combos, 80)
    for v, r, s in combos:
        cs.append(Case("secp.recover", [tb(rng.choice(hs)), v, r, s]))
    return cs


def recover_pred(h, v, r, s):
    from py_ecc.secp256k1 import secp256k1 as S
    z = int.from_bytes(h, "big")
    try:
        got = S.ecdsa_raw_recover(h, (v, r, s))
        got = (int(got[0]), int(got[1]))
        raised = None
    except ValueError:
        got, raised = None, "ValueError"
    except Exception as e:  # noqa: BLE001
        return (False, f"recover raised {type(e).__name__} (not ValueError) at v={v} r={r} s={s}")
    must_raise = v not in (27, 28) or r % N_ == 0 or s % N_ == 0 or lift(r, False) is None
    if must_raise:
        return (raised is not None, f"recover must raise ValueError at v={v} r={r} s={s}, returned {got}")
    if raised:
        return (False, f"recover refused a determined key at v={v} r={r} s={s}")
    R = lift(r, v == 28)
    # unique Q with (r mod N) Q = s R - z G
    rinv = pow(r % N_, -1, N_)
    rhs = O.aff_add(O.aff_mul(R, s % N_), O.aff_neg(O.aff_mul(G(), z % N_)))
    Q = O.aff_mul(rhs, rinv)
    want = (0, 0) if Q is None else (Q[0].v, Q[1].v)
    bad = []
    if got != want:
        bad.append(f"returned {got}, determined key is {want}")
    elif Q is not None:
        w = pow(s % N_, -1, N_)
        X = O.aff_add(O.aff_mul(G(), z * w % N_), O.aff_mul(Q, r * w % N_))
        if X is None or X[0].v != r:
            bad.append("signature does not verify for the recovered key")
        Rother = lift(r, v != 28)
        rhs2 = O.aff_add(O.aff_mul(Rother, s % N_), O.aff_neg(O.aff_mul(G(), z % N_)))
        Q2 = O.aff_mul(rhs2, rinv)
        if Q2 is not None and got == (Q2[0].v, Q2[1].v) and got != want:
            bad.append("used the other parity")
    return (not bad, f"recover: {bad} at hash={h.hex()} v={v} r={r} s={s}")


def history_pred(h, seq):
    bad = []
    for v, r, s in seq:
        ok, detail = recover_pred(h, v, r, s)
        if not ok:
            bad.append(detail)
    return (not bad, f"recover in a call history {[(v, r % 1000) for v, r, _ in seq]}: {bad[:2]}")


def predicates(rng, tier, only=None):
    ps = []
    for h, seq in parity_histories(rng):
        ps.append(Pred("recover-sound", history_pred, (h, seq)))
    vs, rs, ss = tables(rng, tier)
    combos = list(itertools.product(vs, rs, ss))
    if tier == "quick":
        combos = [c for c in combos if c[0] in (27, 28)][::3] + rng.sample(combos, 60)
    for v, r, s in combos:
        h = rng.choice([bytes(rng.randrange(256) for _ in range(32)), b"\x00" * 32, N_.to_bytes(32, "big")])
        ps.append(Pred("recover-sound", recover_pred, (h, v, r, s)))
    # inputs in a special algebraic relation: s*R and -z*G are the SAME point (z = -s*k with R = k*G: the recovery adds a point to
    # itself in two different Jacobian representations — a doubling inside jacobian_add), or INVERSE points (z = s*k: the sum is
    # infinity and the determined key is the identity), or differ by the order-3 automorphism (same y, other x)
    lam = O.cube_root_of_unity(N_)
    for _ in range(2 if tier == "quick" else 12):
        k = rng.randrange(1, N_)
        R = O.aff_mul(G(), k)
        r = R[0].v
        if not 0 < r < N_:
            continue
        v = 28 if R[1].v % 2 else 27
        for s_ in (1, rng.randrange(1, N_)):
            for z in ((-s_ * k) % N_, (s_ * k) % N_, (-s_ * k * lam) % N_, (s_ * k * lam) % N_):
                ps.append(Pred("recover-sound", recover_pred, (z.to_bytes(32, "big"), v, r, s_)))
                ps.append(Pred("recover-sound", recover_pred, (z.to_bytes(32, "big"), 55 - v, r, s_)))
    if only:
        ps = [p for p in ps if p.name == only]
    return ps


def search(rng, tier, broken, disagreements):
    return predicates(rng, "thorough")
