"""C01 — BLS: every honestly produced signature and possession proof verifies"""
import oracle as O
from common import Case, Pred, tb
from props.blsutil import BAD_KEYS, SUITES, good_keys, msgs, suite_cls
from props.util import nontrivial_default

RULE = ("correspondence: SkToPk / Sign / Verify / PopProve / PopVerify / KeyGen of the model vs the real suites for keys 1,2,r-2,r-1, "
        "one per bit-length band, random 255-bit; rejected keys 0,r,r+1,-1,2^255,non-int; messages empty, 1 byte, SHA-256 block "
        "boundaries 55/56/63/64/65, binary, multi-KiB; three suites; predicates: Verify(SkToPk(sk), m, Sign(sk, m)) and "
        "PopVerify(pk, PopProve(sk)) on the real code, ValidationError for rejected keys, KeyGen output in [1, r-1]")
EXTRA_MODULES = {"Props.TieBls": "PyEcc.Tie."}
HYPOTHESES = ["ModelBilinearCode (C01_ProtoModel / Lemmas/ModelPairing): the pairing function the code itself computes is additive in each argument on canonical on-curve subgroup triples — pairing(add(Q,Q'),P) == pairing(Q,P)*pairing(Q',P) and pairing(Q,add(P,P')) == pairing(Q,P)*pairing(Q,P') (HB1; needs divisor theory, not in Mathlib). It is the ONLY remaining hypothesis: group orders (HB2), hash_to_G2 total and in the subgroup (HT6), non-degeneracy (kernel-evaluated e(G2,G1) != 1 + cyclic torsion) and 'the Miller loop computes e' (representative independence via optimized = reference pairing) are all theorems"]
NOT_YET_PROVED = ["bilinearity of the model pairing (sampled on model and implementation by C05's predicates)"]
ASSUMPTIONS = []
nontrivial = nontrivial_default
CHUNK = 5


def tk(sk):
    return sk if isinstance(sk, str) else str(sk)


def cases(rng, tier):
    cs = []
    from props.blsutil import pk_of
    k0 = rng.randrange(2, O.BLS_R - 1)
    C0 = suite_cls("basic")
    for k in (k0, O.BLS_R - k0, k0, 1, O.BLS_R - 1):
        cs.append(Case("bls.Verify", ["basic", tb(pk_of(k)), tb(b"m"), tb(C0.Sign(k, b"m"))], tags=("complementary-keys",)))
    ks, ms = good_keys(rng, tier), msgs(rng, tier)
    for sk in ks:
        cs.append(Case("bls.SkToPk", [tk(sk)]))
    for sk in BAD_KEYS:
        cs.append(Case("bls.SkToPk", [tk(sk)]))
        cs.append(Case("bls.PopProve", [tk(sk)]))
        for s in SUITES:
            cs.append(Case("bls.Sign", [s, tk(sk), tb(b"msg")]))
    n = 4 if tier == "quick" else 30
    for s in SUITES:
        for _ in range(n):
            sk, m = rng.choice(ks), rng.choice(ms)
            cs.append(Case("bls.Sign", [s, tk(sk), tb(m)]))
    for sk in rng.sample(ks, 2 if tier == "quick" else 8):
        cs.append(Case("bls.PopProve", [tk(sk)]))
    for n_ in ([0, 31, 32, 64] if tier == "quick" else range(0, 129, 8)):
        cs.append(Case("bls.KeyGen", [tb(bytes(rng.randrange(256) for _ in range(n_))), tb(b"")]))
    return cs


def roundtrip_pred(s, sk, m):
    C = suite_cls(s)
    pk = C.SkToPk(sk)
    sig = C.Sign(sk, m)
    ok = C.Verify(pk, m, sig) is True and len(pk) == 48 and len(sig) == 96
    return (ok, f"honest signature rejected: suite={s} sk={sk} msg={m.hex()[:40]}.. (len {len(m)})")


def pop_pred(sk):
    from py_ecc.bls import G2ProofOfPossession as C
    pk = C.SkToPk(sk)
    return (C.PopVerify(pk, C.PopProve(sk)) is True, f"honest possession proof rejected: sk={sk}")


def pop_history_pred(ska, skb):
    """one interpreter, POP suite, the signed message IS the public key: proof-then-signature and signature-then-proof"""
    from py_ecc.bls import G2ProofOfPossession as POP
    bad = []
    pka, pkb = POP.SkToPk(ska), POP.SkToPk(skb)
    if not POP.PopVerify(pka, POP.PopProve(ska)):
        bad.append("honest proof rejected")
    if not POP.Verify(pka, pka, POP.Sign(ska, pka)):
        bad.append("honest signature on the key bytes rejected after PopVerify")
    if not POP.Verify(pkb, pkb, POP.Sign(skb, pkb)):
        bad.append("honest signature on the key bytes rejected")
    if not POP.PopVerify(pkb, POP.PopProve(skb)):
        bad.append("honest proof rejected after Verify on the key bytes")
    return (not bad, f"POP suite history: {bad}")


def complementary_keys_pred(sk, s):
    """keys sk and r - sk (public keys PK and -PK: same x, other sign bit) used in one interpreter, both orders"""
    C = suite_cls(s)
    bad = []
    for a, b in ((sk, O.BLS_R - sk), (O.BLS_R - sk + 1, sk - 1)):
        for k in (a, b, a):
            pk = C.SkToPk(k)
            if not C.Verify(pk, b"m", C.Sign(k, b"m")):
                bad.append(f"honest signature of key {'sk' if k == a else 'r-sk'} rejected")
    return (not bad, f"complementary keys in one process, suite {s}: {bad[:3]}")


def numeric_key_pred():
    """non-integer numeric secret keys are refused like any other non-int"""
    from decimal import Decimal
    from fractions import Fraction
    from eth_utils import ValidationError
    from py_ecc.bls import G2Basic
    bad = []
    class Idx:                      # integer-LIKE, not an int: only __index__ (what operator.index / range / slicing accept)
        def __init__(self, v): self.v = v
        def __index__(self): return self.v
        def __repr__(self): return f"Idx({self.v})"

    class IdxArith(Idx):            # fixed-width-integer style: __index__ plus the arithmetic a double-and-add ladder uses
        def __eq__(self, o): return self.v == (o.v if isinstance(o, Idx) else o)
        def __hash__(self): return hash(self.v)
        def __mod__(self, o): return self.v % o
        def __floordiv__(self, o): return IdxArith(self.v // o)
        def __lt__(self, o): return self.v < o
        def __gt__(self, o): return self.v > o
        def __int__(self): return self.v
        def __bool__(self): return bool(self.v)

    for k in (5.0, 2.5, float(2 ** 200), Fraction(7, 1), Decimal(11), 3 + 0j, True and 1.0, Idx(5), IdxArith(5), IdxArith(1), Idx(1 << 200)):
        for nm, f in (("SkToPk", lambda k=k: G2Basic.SkToPk(k)), ("Sign", lambda k=k: G2Basic.Sign(k, b"m"))):
            try:
                f()
                bad.append(f"{nm}({k!r}) returned")
            except ValidationError:
                pass
            except Exception as e:  # noqa: BLE001
                bad.append(f"{nm}({k!r}) raised {type(e).__name__}")
    return (not bad, f"non-integer secret keys: {bad}")


def reject_pred(sk):
    from eth_utils import ValidationError
    from py_ecc.bls import G2ProofOfPossession
    key = "a string" if sk == "!other" else sk
    bad = []
    for nm, f in (("SkToPk", lambda: G2ProofOfPossession.SkToPk(key)), ("PopProve", lambda: G2ProofOfPossession.PopProve(key))) + tuple(
            ("Sign/" + s, (lambda s=s: suite_cls(s).Sign(key, b"m"))) for s in SUITES):
        try:
            f()
            bad.append(nm + " returned")
        except ValidationError:
            pass
        except Exception as e:  # noqa: BLE001
            bad.append(f"{nm} raised {type(e).__name__}")
    for other in (1.5, None, b"\x01"):
        try:
            G2ProofOfPossession.SkToPk(other)
            bad.append(f"SkToPk({other!r}) returned")
        except ValidationError:
            pass
        except Exception as e:  # noqa: BLE001
            bad.append(f"SkToPk({other!r}) raised {type(e).__name__}")
    return (not bad, f"invalid secret key {sk} not refused with ValidationError: {bad}")


def keygen_pred(ikm, info):
    from py_ecc.bls import G2Basic
    sk = G2Basic.KeyGen(ikm, info)
    ok = isinstance(sk, int) and 1 <= sk < O.BLS_R
    if ok:
        G2Basic.SkToPk(sk)
    return (ok, f"KeyGen returned {sk}, outside [1, r-1]")


def predicates(rng, tier, only=None):
    ps = []
    ks, ms = good_keys(rng, tier), msgs(rng, tier)
    n = 12 if tier == "quick" else 150
    for i in range(n):
        s = SUITES[i % 3]
        ps.append(Pred("sign-verify", roundtrip_pred, (s, ks[i % len(ks)], ms[(i // 3) % len(ms)])))
    for sk in rng.sample(ks, 3 if tier == "quick" else len(ks)):
        ps.append(Pred("pop-roundtrip", pop_pred, (sk,)))
    for sk in BAD_KEYS:
        ps.append(Pred("key-rejected", reject_pred, (sk,)))
    ps.append(Pred("key-rejected", numeric_key_pred, ()))
    ps.append(Pred("sign-verify", complementary_keys_pred, (rng.randrange(2, O.BLS_R - 1), rng.choice(SUITES))))
    ps.append(Pred("sign-verify", complementary_keys_pred, (2, "pop")))
    ps.append(Pred("pop-history", pop_history_pred, (rng.randrange(1, O.BLS_R), rng.randrange(1, O.BLS_R))))
    for _ in range(6 if tier == "quick" else 60):
        ps.append(Pred("keygen-range", keygen_pred, (bytes(rng.randrange(256) for _ in range(rng.randrange(0, 129))), bytes(rng.randrange(256) for _ in range(rng.randrange(0, 65))))))
    if only:
        ps = [p for p in ps if p.name == only]
    return ps


def search(rng, tier, broken, disagreements):
    return predicates(rng, "thorough")
