"""C14 — optimized field classes compute the same values as the reference field classes"""
import oracle as O
from common import Case, Pred, tl
from props.util import BLS_MC12, BN_MC12, IRRED, MC2, espec, nontrivial_default

RULE = ("correspondence: every field operation of the model in its reference and optimized variant vs the corresponding real class "
        "(both real primes x FQ/FQ2/FQ12 + small-field instantiations); predicates: random straight-line programs (expression trees of depth "
        "<= 8 over + - * / ** neg and int mixing) evaluated in the reference class, the optimized class and an independent textbook "
        "field (proper polynomial Euclid for inverses) must agree coefficient for coefficient; sgn0 vs RFC 9380 for every sampled element")
EXTRA_MODULES = {"Props.TieFieldsFq": "PyEcc.Tie.", "Props.TieFieldsFqp": "PyEcc.Tie.", "Props.TieFieldsMul": "PyEcc.Tie.", "Props.TieFieldsPoly": "PyEcc.Tie.", "Props.TieFieldsInv": "PyEcc.Tie."}
HYPOTHESES = []
NOT_YET_PROVED = []
ASSUMPTIONS = ["optimized FQP refuses FQ-object operands that the reference class accepts: expression trees use ints and same-class operands only"]
nontrivial = nontrivial_default


def specs(tier):
    out = []
    for p, mc12 in ((O.BLS_P, BLS_MC12), (O.BN_P, BN_MC12)):
        out.append((p, 1, None))
        out.append((p, 2, MC2))
        out.append((p, 12, mc12))
    for p in ((3, 5, 7) if tier == "quick" else (2, 3, 5, 7, 11, 13)):
        out.append((p, 1, None))
        for mc in IRRED["deg2"].get(str(p), [])[:2]:
            out.append((p, 2, tl(mc)))
        for mc in IRRED["deg12"].get(str(p), [])[:1]:
            out.append((p, 12, tl(mc)))
    return out


def cases(rng, tier):
    cs = []
    n = 3 if tier == "quick" else 25
    for p, d, mc in specs(tier):
        for v in ("ref", "opt"):
            if d == 1:
                q = f"q:{p}:{v}"
                for _ in range(n):
                    a, b = rng.randrange(p), rng.randrange(p)
                    k = rng.choice([-1, 0, p, p + 3, -p - 2, rng.randrange(p * p)])
                    for op in ("add", "sub", "mul", "div", "eq"):
                        cs.append(Case("fq." + op, [q, tl([a]), tl([b])]))
                    for op in ("addi", "muli", "subi", "rsubi", "divi", "rdivi", "eqi"):
                        cs.append(Case("fq." + op, [q, tl([a]), k]))
                    cs.append(Case("fq.neg", [q, tl([a])]))
                    cs.append(Case("fq.pow", [q, tl([a]), rng.randrange(p * p)]))
                    cs.append(Case("fq.pow", [q, tl([a]), -rng.randrange(1, p + 3)]))
                    if v == "opt":
                        cs.append(Case("fq.sgn0", [q, tl([a])]))
            else:
                s = espec(v, p, mc)
                for _ in range(n):
                    a = [rng.randrange(p) for _ in range(d)]
                    b = [rng.randrange(p) for _ in range(d)]
                    k = rng.choice([-1, 0, p, p + 3, -p - 2, rng.randrange(p * p)])
                    for op in ("add", "sub", "mul", "div", "eq"):
                        cs.append(Case("fqp." + op, [s, tl(a), tl(b)]))
                    cs.append(Case("fqp.muli", [s, tl(a), k]))
                    cs.append(Case("fqp.divi", [s, tl(a), k]))
                    cs.append(Case("fqp.neg", [s, tl(a)]))
                    cs.append(Case("fqp.inv", [s, tl(a)]))
                    cs.append(Case("fqp.pow", [s, tl(a), rng.randrange(p ** 3)]))
                    cs.append(Case("fqp.pow", [s, tl(a), -rng.randrange(1, p + 3)]))
                    u = [rng.choice([p, p + 1, -1, 2 * p, -p, 0, p - 1, rng.randrange(p)]) for _ in range(d)]
                    cs.append(Case("fqp.ofints", [s, tl(u)]))
                    if v == "opt":
                        cs.append(Case("fqp.sgn0", [s, tl(a)]))
                        if d == 2:
                            cs.append(Case("fqp.sgn0_fq2", [s, tl(a)]))
    return cs


# ---- random straight-line programs ------------------------------------------------------------
def gen_tree(rng, depth, nleaves, p):
    if depth == 0 or rng.random() < 0.15:
        return ("leaf", rng.randrange(nleaves))
    op = rng.choice(["add", "sub", "mul", "div", "neg", "pow", "muli", "divi", "rmuli"] + (["addi", "subi", "rsubi"] ))
    if op in ("add", "sub", "mul", "div"):
        return (op, gen_tree(rng, depth - 1, nleaves, p), gen_tree(rng, depth - 1, nleaves, p))
    if op == "neg":
        return (op, gen_tree(rng, depth - 1, nleaves, p))
    if op == "pow":
        return (op, gen_tree(rng, depth - 1, nleaves, p), rng.choice([0, 1, 2, 3, 5, rng.randrange(p), rng.randrange(p * p), -1, -2, -rng.randrange(1, p + 2)]))
    return (op, gen_tree(rng, depth - 1, nleaves, p), rng.choice([-3, -1, 0, 1, 2, p - 1, p, p + 1, 2 * p + 5, -p * 3 - 1, rng.randrange(p * p)]))


def ev(t, leaves, d, mkint, textbook=False):
    """evaluate with Python operators on the library objects (FQP classes take ints only for * and /), or, with
    textbook=True, on the oracle's field objects where every int constant is first embedded as a field element"""
    k = t[0]
    if k == "leaf":
        return leaves[t[1]]
    if k == "neg":
        return -ev(t[1], leaves, d, mkint, textbook)
    a = ev(t[1], leaves, d, mkint, textbook)
    if k == "pow":
        if textbook:
            return a.pow(t[2]) if t[2] >= 0 else a.like(1)     # the library's loop `while other > 0` does not run: result 1
        return a ** t[2]
    if k in ("add", "sub", "mul", "div"):
        b = ev(t[2], leaves, d, mkint, textbook)
        return a + b if k == "add" else a - b if k == "sub" else a * b if k == "mul" else a / b
    c = t[2]
    if textbook:
        ci = mkint(c)
        return {"muli": lambda: a * ci, "rmuli": lambda: ci * a, "divi": lambda: a / ci, "addi": lambda: a + ci,
                "subi": lambda: a - ci, "rsubi": lambda: ci - a}[k]()
    if k == "muli":
        return a * c
    if k == "rmuli":
        return c * a
    if k == "divi":
        return a / c
    # int add/sub is accepted only by FQ; for extension classes go through the embedded constant
    ci = c if d == 1 else mkint(c)
    if k == "addi":
        return a + ci
    if k == "subi":
        return a - ci
    if k == "rsubi":
        return ci - a
    raise KeyError(k)


def tree_pred(p, d, mc, tree, leaves):
    import pyexec
    if d == 1:
        R, Opt = pyexec.fcls(f"q:{p}:ref"), pyexec.fcls(f"q:{p}:opt")
        mk_r = lambda l: R(l[0])  # noqa: E731
        mk_o = lambda l: Opt(l[0])  # noqa: E731
        mk_t = lambda l: O.Fp(l[0], p)  # noqa: E731
    else:
        R, Opt = pyexec.fcls(espec("ref", p, mc)), pyexec.fcls(espec("opt", p, mc))
        mcl = pyexec.parse_tok(mc)
        mk_r = lambda l: R(list(l))  # noqa: E731
        mk_o = lambda l: Opt(list(l))  # noqa: E731
        mk_t = lambda l: O.Fpk(list(l), p, mcl)  # noqa: E731
    co = lambda x: [int(c) for c in x.coeffs] if hasattr(x, "coeffs") and not callable(x.coeffs) else ([int(x.n)] if hasattr(x, "n") else x.coeffs())  # noqa: E731
    emb = lambda mk: (lambda c: mk([c] + [0] * (d - 1)))  # noqa: E731
    r = co(ev(tree, [mk_r(l) for l in leaves], d, emb(mk_r)))
    o = co(ev(tree, [mk_o(l) for l in leaves], d, emb(mk_o)))
    t = co(ev(tree, [mk_t(l) for l in leaves], d, emb(mk_t), textbook=True))
    ok = r == o == t and all(0 <= c < p for c in o)
    return (ok, f"expression tree over GF({p})^{d} mc={mc}: reference={r[:3]} optimized={o[:3]} textbook={t[:3]} tree={tree} leaves={leaves}")


def sgn0_pred(p, d, mc, a):
    import pyexec
    if d == 1:
        x = pyexec.fcls(f"q:{p}:opt")(a[0])
        want = a[0] % p % 2
        got = int(x.sgn0)
    else:
        x = pyexec.fcls(espec("opt", p, mc))(list(a))
        # RFC 9380 §4.1 sgn0 for GF(p^m)
        sign, zero = 0, 1
        for c in a:
            c %= p
            sign_i = c % 2
            zero_i = 1 if c == 0 else 0
            sign = sign | (zero & sign_i)
            zero = zero & zero_i
        want = sign
        got = int(x.sgn0)
    return (got == want, f"sgn0 differs from RFC 9380 at {a} over GF({p})^{d}: got {got} want {want}")


def cmp_pred(p, d, mc, a, b):
    import pyexec
    if d == 1:
        R, Opt = pyexec.fcls(f"q:{p}:ref"), pyexec.fcls(f"q:{p}:opt")
        ra, rb, oa, ob = R(a[0]), R(b[0]), Opt(a[0]), Opt(b[0])
    else:
        R, Opt = pyexec.fcls(espec("ref", p, mc)), pyexec.fcls(espec("opt", p, mc))
        ra, rb, oa, ob = R(list(a)), R(list(b)), Opt(list(a)), Opt(list(b))
    ok = (ra == rb) == (oa == ob) == (a == b) and (ra != rb) == (oa != ob) and (ra == ra) and (oa == oa)
    return (ok, f"comparison differs between reference and optimized at {a} {b}")


def ctor_pred(p, d, mc, u):
    """constructor with unreduced integer coefficients: reference and optimized store the same reduced coefficients,
    compare equal to the reduced spelling, and sgn0 follows RFC 9380 on the reduced value"""
    import pyexec
    if d == 1:
        R, Opt = pyexec.fcls(f"q:{p}:ref"), pyexec.fcls(f"q:{p}:opt")
        r, o, red = R(u[0]), Opt(u[0]), Opt(u[0] % p)
        co = lambda x: [int(x.n)]  # noqa: E731
    else:
        R, Opt = pyexec.fcls(espec("ref", p, mc)), pyexec.fcls(espec("opt", p, mc))
        r, o, red = R(list(u)), Opt(list(u)), Opt([c % p for c in u])
        co = lambda x: [int(c) for c in x.coeffs]  # noqa: E731
    bad = []
    if co(r) != co(o) or co(o) != [c % p for c in u]:
        bad.append(f"stored coefficients: reference {co(r)[:3]}, optimized {co(o)[:3]}, reduced {[c % p for c in u][:3]}")
    if not (o == red) or (o != red):
        bad.append("optimized element built from unreduced ints != the same element built from reduced ints")
    if int(o.sgn0) != int(red.sgn0):
        bad.append("sgn0 differs between unreduced and reduced construction")
    return (not bad, f"constructor with unreduced coefficients {u[:3]} over GF({p})^{d}: {bad}")


def cmp_int_pred(p, a, k):
    """FQ == int / FQ != int with ints outside [0, p): the optimized class answers like the reference class"""
    import pyexec
    R, Opt = pyexec.fcls(f"q:{p}:ref"), pyexec.fcls(f"q:{p}:opt")
    bad = []
    for kk in (k, a, a + p, a - p, -a, 0, p, -p, 2 * p + a):
        r1, o1 = (R(a) == kk), (Opt(a) == kk)
        r2, o2 = (R(a) != kk), (Opt(a) != kk)
        if r1 != o1 or r2 != o2:
            bad.append(f"FQ({a}) vs int {kk}: reference ==:{r1} !=:{r2}, optimized ==:{o1} !=:{o2}")
    return (not bad, f"comparison with int operands over GF({p}): {bad[:3]}")


def predicates(rng, tier, only=None):
    ps = []
    n = 4 if tier == "quick" else 40
    for p, d, mc in specs(tier):
        for _ in range(n if d < 12 else max(1, n // 2)):
            depth = rng.randrange(1, 9 if d < 12 else 5)
            leaves = [[rng.choice([0, 1, p - 1, rng.randrange(p)]) for _ in range(d)] for _ in range(3)]
            ps.append(Pred("expr-tree", tree_pred, (p, d, mc, gen_tree(rng, depth, 3, p), leaves)))
        for _ in range(3):
            u = [rng.choice([p, p + 1, -1, 2 * p, -p, 0, rng.randrange(p)]) for _ in range(d)]
            ps.append(Pred("constructor", ctor_pred, (p, d, mc, u)))
        ps.append(Pred("constructor", ctor_pred, (p, d, mc, [p] + [0] * (d - 1))))
        if d == 1:
            for _ in range(3):
                ps.append(Pred("comparison", cmp_int_pred, (p, rng.choice([0, 1, p - 1, rng.randrange(p)]), rng.choice([-1, p, p + 1, -p, rng.randrange(p * p)]))))
        for _ in range(n):
            a = [rng.choice([0, 0, 1, p - 1, rng.randrange(p)]) for _ in range(d)]
            ps.append(Pred("sgn0-rfc", sgn0_pred, (p, d, mc, a)))
            b = list(a) if rng.random() < .5 else [rng.randrange(p) for _ in range(d)]
            ps.append(Pred("comparison", cmp_pred, (p, d, mc, a, b)))
    if only:
        ps = [p for p in ps if p.name == only]
    return ps


def search(rng, tier, broken, disagreements):
    return predicates(rng, "thorough")
