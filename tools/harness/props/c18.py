"""C18 — secp256k1 point arithmetic equals the textbook group law for all points/scalars"""
import oracle as O
from common import Case, Pred
from props.util import nontrivial_default

RULE = ("correspondence: generated secp256k1 add/multiply/jacobian_multiply/privtopub/inv vs the real functions: identity operands "
        "(0,0), Q=P, Q=-P, scalars 0,1,2,N-1,N,N+1,2N+k,-1,-k, random up to 512 bits; thorough tier: the real module re-imported "
        "with small prime-order curve constants, every pair and scalar enumerated against the affine oracle; "
        "predicates: real functions vs affine textbook oracle (pure ints)")
HYPOTHESES = []
NOT_YET_PROVED = []
ASSUMPTIONS = []
nontrivial = nontrivial_default
EXTRA_MODULES = {"Props.TieSecp": "PyEcc.Tie."}
P_, N_ = O.SECP_P, O.SECP_N


def G():
    return (O.Fp(O.SECP_G[0], P_), O.Fp(O.SECP_G[1], P_))


def ti(P):
    return [0, 0] if P is None else [P[0].v, P[1].v]


def scalars(rng):
    k = rng.randrange(1, 1 << 64)
    return [0, 1, 2, 3, N_ - 1, N_, N_ + 1, 2 * N_ + k, -1, -k, -N_, -N_ - 1, rng.randrange(N_), rng.randrange(1 << 512), -rng.randrange(1 << 300)]


def rand_point(rng):
    while True:
        x = O.Fp(rng.randrange(P_), P_)
        y = (x * x * x + 7).sqrt()
        if y is not None:
            return (x, y if rng.random() < .5 else -y)


def cases(rng, tier):
    cs = []
    g = G()
    pts = [None, g, O.aff_mul(g, 2), O.aff_mul(g, N_ - 1), rand_point(rng), rand_point(rng)]
    if tier == "thorough":
        pts += [rand_point(rng) for _ in range(10)]
    for P in pts:
        for Q in pts:
            cs.append(Case("secp.add", ti(P) + ti(Q)))
        cs.append(Case("secp.add", ti(P) + ti(O.aff_neg(P))))
        for n in scalars(rng):
            cs.append(Case("secp.multiply", ti(P) + [n]))
    for P in pts[1:4]:
        for Q in (O.phi(P, P_), O.aff_neg(O.phi(P, P_))):
            cs.append(Case("secp.add", ti(P) + ti(Q)))
            cs.append(Case("secp.add", ti(Q) + ti(P)))
    for d in (P_ - 1, P_, P_ + 1, (1 << 256) - 1, N_, N_ + 1, (1 << 256) - (1 << 32)):
        cs.append(Case("secp.privtopub", ["x" + d.to_bytes(32, "big").hex()]))
    for blob in (b"", b"\x01", b"\x00" * 31 + b"\x05", b"\x01" + b"\x00" * 32, bytes([rng.randrange(256) for _ in range(40)])):
        cs.append(Case("secp.privtopub", ["x" + blob.hex()]))
    for n in scalars(rng) + [rng.randrange(N_) for _ in range(8)]:
        if 0 <= n < (1 << 256):
            cs.append(Case("secp.privtopub", ["x" + n.to_bytes(32, "big").hex()]))
    for a in [0, 1, 2, P_ - 1, P_, P_ + 1, -1, rng.randrange(P_), rng.randrange(1 << 300), -rng.randrange(P_)]:
        cs.append(Case("secp.inv", [a, P_]))
        cs.append(Case("secp.inv", [a, N_]))
    return cs


def _peq(t, P):
    return (int(t[0]), int(t[1])) == ((0, 0) if P is None else (P[0].v, P[1].v))


def law_pred(P, Q, n):
    from py_ecc.secp256k1 import secp256k1 as S
    bad = []
    if not _peq(S.add(tuple(ti(P)), tuple(ti(Q))), O.aff_add(P, Q)):
        bad.append("add")
    if not _peq(S.add(tuple(ti(P)), tuple(ti(P))), O.aff_add(P, P)):
        bad.append("add(P,P)")
    if not _peq(S.add(tuple(ti(P)), tuple(ti(O.aff_neg(P)))), None):
        bad.append("add(P,-P)")
    if not _peq(S.add(tuple(ti(P)), (0, 0)), P) or not _peq(S.add((0, 0), tuple(ti(P))), P):
        bad.append("identity")
    if not _peq(S.multiply(tuple(ti(P)), n), O.aff_mul(P, n % N_)):
        bad.append("multiply != (n mod N)*P")
    return (not bad, f"secp256k1: {bad} at P={P} Q={Q} n={n}")


def privtopub_pred(d):
    from py_ecc.secp256k1 import secp256k1 as S
    ok = _peq(S.privtopub(d.to_bytes(max(32, (d.bit_length() + 7) // 8), "big")), O.aff_mul(G(), d % N_))
    consts = (S.P == 2**256 - 2**32 - 977 and S.N == O.SECP_N and (S.Gx, S.Gy) == O.SECP_G and S.A == 0 and S.B == 7)
    return (ok and consts, f"privtopub({d}) != d*G or SEC 2 constants differ (constants ok: {consts})")


# ---- thorough: the same module code with small prime-order curves, exhaustively -------------------
SMALL_CURVES = [(43, 0, 7, 31), (67, 0, 7, 79), (79, 0, 7, 67), (97, 0, 7, 79), (163, 0, 7, 139), (13, 0, 7, 7)]   # (P, A, B, N): y^2 = x^3 + 7 of prime order N


def _points_small(p, a, b):
    pts = [None]
    for x in range(p):
        for y in range(p):
            if (y * y - x * x * x - a * x - b) % p == 0:
                pts.append((O.Fp(x, p), O.Fp(y, p)))
    return pts


def small_curve_pred(p, a, b, n):
    import importlib.util
    import py_ecc.secp256k1.secp256k1 as real
    spec = importlib.util.spec_from_file_location("secp_small_%d" % p, real.__file__)
    S = importlib.util.module_from_spec(spec)
    spec.loader.exec_module(S)
    pts = _points_small(p, a, b)
    if len(pts) != n:
        return (True, "skipped: order mismatch in table")
    has_y0 = any(P is not None and P[1].v == 0 for P in pts)
    if has_y0:
        return (True, "skipped: curve has 2-torsion (y = 0 is the module's identity marker)")
    S.P, S.A, S.B, S.N = p, a, b, n
    g = pts[1]
    S.Gx, S.Gy, S.G = g[0].v, g[1].v, (g[0].v, g[1].v)
    bad = []
    for P in pts:
        for Q in pts:
            if not _peq(S.add(tuple(ti(P)), tuple(ti(Q))), O.aff_add(P, Q, a)):
                bad.append(("add", ti(P), ti(Q)))
        for k in list(range(-2 * n - 2, 2 * n + 3)):
            if not _peq(S.multiply(tuple(ti(P)), k), O.aff_mul(P, k % n, a)):
                bad.append(("multiply", ti(P), k))
    return (not bad, f"small curve p={p} order={n}: {bad[:5]}")


def predicates(rng, tier, only=None):
    ps = []
    g = G()
    n = 6 if tier == "quick" else 40
    for _ in range(n):
        P = rng.choice([rand_point(rng), O.aff_mul(g, rng.randrange(1, N_)), g, None])
        Q = rng.choice([rand_point(rng), O.aff_mul(g, rng.randrange(1, N_)), None])
        ps.append(Pred("group-law", law_pred, (P, Q, rng.choice(scalars(rng)))))
    for P in (g, rand_point(rng)):
        ps.append(Pred("group-law", law_pred, (P, O.phi(P, P_), 3)))
        ps.append(Pred("group-law", law_pred, (P, O.aff_neg(O.phi(P, P_)), 5)))
    for d in [1, 2, N_ - 2, N_ - 1, rng.randrange(1, N_), rng.randrange(1, 1 << 40), N_, N_ + 1, P_ - 1, P_, P_ + 1, (1 << 256) - 1, (1 << 256) + 7, rng.randrange(1 << 300)]:
        ps.append(Pred("privtopub", privtopub_pred, (d,)))
    for (p, a, b, n_) in (SMALL_CURVES[:2] if tier == "quick" else SMALL_CURVES):
        ps.append(Pred("small-curve-exhaustive", small_curve_pred, (p, a, b, n_)))
    if only:
        ps = [p for p in ps if p.name == only]
    return ps


def search(rng, tier, broken, disagreements):
    return predicates(rng, "thorough")
