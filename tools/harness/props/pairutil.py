"""shared helpers for the pairing properties C05 / C12"""
import oracle as O
from common import Case, tl
from props.util import aff_tokens, curve_groups, proj_tokens, rand_scale

IMPLS = ["OptBls", "OptBn", "RefBls", "RefBn"]


def grp(mod, g):
    return next(x for x in curve_groups() if x.mod == mod and x.grp == g)


def pair_case(mod, Q, P, rng=None, fe=1, scale=True, sq=None, sp=None):
    """protocol case for pairing(Q, P) of implementation `mod`; Q, P oracle affine points (G2, G1)"""
    g1, g2 = grp(mod, "G1"), grp(mod, "G2")
    if mod.startswith("Opt"):
        sq = sq if sq is not None else (rand_scale(rng, g2.b) if (rng and scale) else g2.b.like(1))
        sp = sp if sp is not None else (rand_scale(rng, g1.b) if (rng and scale) else g1.b.like(1))
        return Case("pairing." + mod, proj_tokens(Q, sq) + proj_tokens(P, sp) + [fe])
    return Case("pairing." + mod, aff_tokens(Q) + aff_tokens(P))


def lib_pairing(mod, Q, P, rng=None, fe=True, sq=None, sp=None):
    """evaluate the REAL pairing; returns list of 12 ints"""
    import importlib
    import pyexec
    g1, g2 = grp(mod, "G1"), grp(mod, "G2")
    M = importlib.import_module(pyexec.MODS[mod])
    C1, C2 = pyexec.fcls(g1.spec), pyexec.fcls(g2.spec)
    if mod.startswith("Opt"):
        sq = sq if sq is not None else (rand_scale(rng, g2.b) if rng else g2.b.like(1))
        sp = sp if sp is not None else (rand_scale(rng, g1.b) if rng else g1.b.like(1))

        def l2(X, s):
            if X is None:
                return (C2(s.coeffs()), C2(s.coeffs()), C2([0, 0]))
            return (C2((X[0] * s).coeffs()), C2((X[1] * s).coeffs()), C2(s.coeffs()))

        def l1(X, s):
            if X is None:
                return (C1(s.v), C1(s.v), C1(0))
            return (C1((X[0] * s).v), C1((X[1] * s).v), C1(s.v))
        r = M.pairing(l2(Q, sq), l1(P, sp), final_exponentiate=fe)
    else:
        q = None if Q is None else (C2(Q[0].coeffs()), C2(Q[1].coeffs()))
        p = None if P is None else (C1(P[0].v), C1(P[1].v))
        r = M.pairing(q, p)
    return [int(c) for c in r.coeffs]


def f12(mod, coeffs):
    g = grp(mod, "G12")
    return g.mk(coeffs)
