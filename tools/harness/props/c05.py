"""C05 — pairings are bilinear, non-degenerate, unit on infinity, reject off-curve input"""
import oracle as O
from common import Case, Pred, tl
from props.pairutil import IMPLS, f12, grp, lib_pairing, pair_case
from props.util import nontrivial_default, structured_scales

RULE = ("correspondence: the four pairing implementations of the model (hand-modelled Miller loops around the generated linefunc/double/add/"
        "twist) vs the real ones, comparing final-exponentiated FQ12 values exactly, on aG1/bG2 for a,b in {0,1,2,r-1,r,random}, sums, "
        "negations, random projective representatives, infinity, off-curve points; predicates: bilinearity e(bQ,aP)=e(Q,P)^(ab), additivity in "
        "both arguments, negation inverts, e(G2,G1) has order exactly r, unit on infinity, ValueError for off-curve arguments — on the real code")
HYPOTHESES = ['HB1 (structure C05.HB1): additivity of the Miller-loop pairing in each argument — the headline bilinearity clause is CONDITIONAL on it; sampled on model and implementation']
NOT_YET_PROVED = ['bilinearity itself (HB1). Proved around it: pairing values are r-th roots of unity (C05_Order, four implementations), e(G2,G1) != 1 of order exactly r by kernel evaluation (PropsHeavy/C05_Nondeg), optimized = reference pairings (C12_Miller, C12_MillerBn)']
ASSUMPTIONS = []
nontrivial = nontrivial_default
EXTRA_MODULES = {"Props.TiePairing": "PyEcc.Tie.", "Props.TieMiller": "PyEcc.Tie.", "Props.TieHashCurve": "PyEcc.Tie.", "Props.TieFieldsFq": "PyEcc.Tie.", "Props.TieFieldsFqp": "PyEcc.Tie.", "Props.TieFieldsMul": "PyEcc.Tie.", "Props.TieFieldsPoly": "PyEcc.Tie.", "Props.TieFieldsInv": "PyEcc.Tie."}

CHUNK = 1


def _pts(mod):
    return grp(mod, "G1"), grp(mod, "G2")


def cases(rng, tier):
    cs = []
    for mod in IMPLS:
        g1, g2 = _pts(mod)
        r = g1.order
        ref = mod.startswith("Ref")
        ab = [(1, 1), (2, 1), (1, r - 1), (rng.randrange(r), rng.randrange(r))]
        if tier == "thorough":
            ab += [(0, 1), (1, 0), (r, 1), (1, r), (2, 2)] + [(rng.randrange(r), rng.randrange(r)) for _ in range(3 if ref else 12)]
        elif ref:
            ab = ab[:1] + ab[-1:]
        for a, b in ab:
            cs.append(pair_case(mod, O.aff_mul(g2.gen, b), O.aff_mul(g1.gen, a), rng))
        cs.append(pair_case(mod, None, g1.gen, rng))
        cs.append(pair_case(mod, g2.gen, None, rng))
        if not ref:
            for sq in structured_scales(g2.b)[1: (5 if tier == "quick" else 99)]:
                cs.append(pair_case(mod, g2.gen, g1.gen, rng, sq=sq, sp=g1.b.like(1)))
        # off-curve arguments are refused
        offQ = (g2.gen[0], g2.gen[1] + 1)
        offP = (g1.gen[0], g1.gen[1] + 1)
        cs.append(pair_case(mod, offQ, g1.gen, rng))
        cs.append(pair_case(mod, g2.gen, offP, rng))
        # an off-curve argument is refused also when the OTHER argument is (any representative of) infinity
        cs.append(pair_case(mod, offQ, None, rng))
        cs.append(pair_case(mod, None, offP, rng))
        cs.append(pair_case(mod, None, None, rng))
        if not ref:
            cs.append(pair_case(mod, O.aff_mul(g2.gen, 3), O.aff_mul(g1.gen, 5), rng, fe=0))
    return cs


def _pw(x, e):
    return x.pow(e)


def bilinear_pred(mod, a, b, a2, b2, seed):
    import random
    rng = random.Random(seed)
    g1, g2 = _pts(mod)
    r = g1.order
    e = lambda Q, P: f12(mod, lib_pairing(mod, Q, P, rng))  # noqa: E731
    G1, G2 = g1.gen, g2.gen
    base = e(G2, G1)
    one = base.like(1)
    bad = []
    if base == one:
        bad.append("e(G2,G1) = 1 (degenerate)")
    if not (base.pow(r) == one):
        bad.append("e(G2,G1)^r != 1")
    P, Q = O.aff_mul(G1, a), O.aff_mul(G2, b)
    ePQ = e(Q, P)
    if not (ePQ == base.pow(a * b)):
        bad.append("e(bQ,aP) != e(Q,P)^(ab)")
    P2, Q2 = O.aff_mul(G1, a2), O.aff_mul(G2, b2)
    if not (e(Q, O.aff_add(P, P2)) == ePQ * e(Q, P2)):
        bad.append("not additive in the G1 argument")
    if not (e(O.aff_add(Q, Q2), P) == ePQ * e(Q2, P)):
        bad.append("not additive in the G2 argument")
    if not (e(Q, O.aff_neg(P)) * ePQ == one) or not (e(O.aff_neg(Q), P) * ePQ == one):
        bad.append("negation does not invert")
    return (not bad, f"{mod} pairing: {bad} at a={a} b={b} a2={a2} b2={b2}")


def cheap_bilinear_pred(mod, a, b, seed):
    """one pairing relation per call (used for the slow reference implementations in the quick tier)"""
    import random
    rng = random.Random(seed)
    g1, g2 = _pts(mod)
    e = lambda Q, P: f12(mod, lib_pairing(mod, Q, P, rng))  # noqa: E731
    base = e(g2.gen, g1.gen)
    got = e(O.aff_mul(g2.gen, b), O.aff_mul(g1.gen, a))
    ok = got == base.pow(a * b) and not (base == base.like(1))
    return (ok, f"{mod} pairing: e(bQ,aP) != e(Q,P)^(ab) or degenerate at a={a} b={b}")


def rep_independence_pred(mod, a, b):
    """bilinearity/non-degeneracy must not depend on the projective representative: structured scalings of Q and P"""
    g1, g2 = _pts(mod)
    P, Q = O.aff_mul(g1.gen, a), O.aff_mul(g2.gen, b)
    base = lib_pairing(mod, Q, P)
    bad = []
    for sq in structured_scales(g2.b):
        if lib_pairing(mod, Q, P, sq=sq, sp=g1.b.like(1)) != base:
            bad.append(f"Q scaled by {sq}")
    for sp in structured_scales(g1.b):
        if lib_pairing(mod, Q, P, sq=g2.b.like(1), sp=sp) != base:
            bad.append(f"P scaled by {sp}")
    if base == [1] + [0] * 11:
        bad.append("value is 1")
    return (not bad, f"{mod}: pairing depends on the representative: {bad[:4]} (a={a}, b={b})")


def lib_sum_pred(mod, a, b, seed):
    """additivity with the sum computed by the LIBRARY's own add/double/multiply on arbitrary representatives (incl. the same
    point given twice in different representations): e(add(A, A'), P) == e(A, P) * e(A', P)"""
    import importlib
    import random
    import pyexec
    rng = random.Random(seed)
    M = importlib.import_module(pyexec.MODS[mod])
    g12 = grp(mod, "G12")
    C12 = pyexec.fcls(g12.spec)
    bad = []
    if mod.startswith("Opt"):
        def resc(T, k):
            return tuple(c * k for c in T)
        A = M.multiply(M.G2, a)
        A2 = resc(M.multiply(M.G2, a), rng.randrange(2, 1000))
        B = M.multiply(M.G2, b)
        P1 = M.multiply(M.G1, 7)
        P1b = resc(P1, rng.randrange(2, 1000))
        e = lambda Q, P: M.pairing(Q, P)  # noqa: E731
        if not (e(M.add(A, A2), P1) == e(A, P1) * e(A2, P1)):
            bad.append("G2 argument: the same point in two representations")
        if not (e(M.add(A, B), P1) == e(A, P1) * e(B, P1)):
            bad.append("G2 argument: generic sum")
        if not (e(A, M.add(P1, P1b)) == e(A, P1) * e(A, P1b)):
            bad.append("G1 argument: the same point in two representations")
    else:
        A, B, P1 = M.multiply(M.G2, a), M.multiply(M.G2, b), M.multiply(M.G1, 7)
        if not (M.pairing(M.add(A, B), P1) == M.pairing(A, P1) * M.pairing(B, P1)):
            bad.append("G2 argument: generic sum")
    return (not bad, f"{mod}: pairing of a library-computed sum != product of pairings: {bad} (a={a}, b={b})")


def edge_pred(mod):
    import importlib
    import pyexec
    g1, g2 = _pts(mod)
    bad = []
    one = [1] + [0] * 11
    if lib_pairing(mod, None, g1.gen) != one or lib_pairing(mod, g2.gen, None) != one or lib_pairing(mod, None, None) != one:
        bad.append("infinity does not give the unit")
    offQ, offP = (g2.gen[0], g2.gen[1] + 1), (g1.gen[0], g1.gen[1] + 1)
    for Q, P, tag in ((offQ, g1.gen, "Q"), (g2.gen, offP, "P"), (offQ, None, "Q paired with infinity"), (None, offP, "P paired with infinity")):
        try:
            lib_pairing(mod, Q, P)
            bad.append(f"off-curve {tag} was paired")
        except ValueError:
            pass
        except Exception as e:  # noqa: BLE001
            bad.append(f"off-curve {tag}: {type(e).__name__} instead of ValueError")
    if mod.startswith("Opt"):
        import random
        rr = random.Random(7)
        for _ in range(2):
            if lib_pairing(mod, None, g1.gen, rr) != one or lib_pairing(mod, g2.gen, None, rr) != one:
                bad.append("a non-canonical representative of infinity does not give the unit")
        M = importlib.import_module(pyexec.MODS[mod])
        for Z, other, first in ((M.double(M.Z1), M.G2, False), (M.multiply(M.Z1, 6), M.G2, False), (M.double(M.Z2), M.G1, True),
                                (M.double(M.multiply(M.G1, M.curve_order)), M.G2, False)):
            try:
                r = M.pairing(Z, other) if first else M.pairing(other, Z)
                if [int(c) for c in r.coeffs] != one:
                    bad.append("pairing with the identity in a non-canonical representation (e.g. double(Z1), multiply(Z1, 6)) is not the unit")
            except Exception as e:  # noqa: BLE001
                bad.append(f"pairing with a non-canonical identity raised {type(e).__name__}")
    # HISTORY: the public, deliberately unvalidated building blocks (twist, cast_point_to_fq12, miller_loop) are first run on an
    # off-curve point; pairing() must still refuse that very point afterwards (a per-point memo filled by miller_loop must not
    # count as "already validated")
    M = importlib.import_module(pyexec.MODS[mod])
    PM = pyexec.pairing_mod(mod)
    for who in ("Q", "P"):
        Qb, Pb = M.G2, M.G1
        if who == "Q":
            Qb = (M.G2[0], M.G2[1] + M.G2[1].one()) + tuple(M.G2[2:])
        else:
            Pb = (M.G1[0], M.G1[1] + M.G1[1].one()) + tuple(M.G1[2:])
        for call in (lambda: PM.miller_loop(M.twist(Qb), PM.cast_point_to_fq12(Pb)),
                     lambda: PM.miller_loop(M.twist(Qb), PM.cast_point_to_fq12(Pb), False),
                     lambda: PM.miller_loop(Qb, Pb), lambda: PM.miller_loop(Qb, Pb, False)):
            try:
                call()
            except Exception:  # noqa: BLE001  — whatever the unvalidated call does with an off-curve point is its own business
                pass
        for fe in (True, False):
            try:
                PM.pairing(Qb, Pb, fe) if mod.startswith("Opt") else PM.pairing(Qb, Pb)
                bad.append(f"off-curve {who} was paired after miller_loop had been run on it directly (final_exponentiate={fe})")
            except ValueError:
                pass
            except Exception as e:  # noqa: BLE001
                bad.append(f"off-curve {who} after a direct miller_loop: {type(e).__name__} instead of ValueError")
    return (not bad, f"{mod} pairing edge cases: {bad}")


def predicates(rng, tier, only=None):
    ps = []
    for mod in IMPLS:
        ps.append(Pred("pairing-edges", edge_pred, (mod,)))
        if mod.startswith("Opt") or tier == "thorough":
            ps.append(Pred("bilinear", lib_sum_pred, (mod, rng.randrange(2, 1 << 64), rng.randrange(2, 1 << 64), rng.randrange(1 << 30))))
        if mod.startswith("Opt"):
            rr = grp(mod, "G1").order
            ps.append(Pred("representative-independence", rep_independence_pred, (mod, rng.randrange(1, rr), rng.randrange(1, rr))))
        r = grp(mod, "G1").order
        ref = mod.startswith("Ref")
        if ref and tier == "quick":
            ps.append(Pred("bilinear-ab", cheap_bilinear_pred, (mod, rng.randrange(r), rng.randrange(r), rng.randrange(1 << 30))))
            continue
        n = 2 if tier == "quick" else (3 if ref else 20)
        for i in range(n):
            a, b = (rng.randrange(r), rng.randrange(r)) if i else (rng.choice([2, r - 1]), rng.choice([1, 2, r - 1]))
            ps.append(Pred("bilinear", bilinear_pred, (mod, a, b, rng.randrange(r), rng.randrange(r), rng.randrange(1 << 30))))
    if only:
        ps = [p for p in ps if p.name == only]
    return ps


def search(rng, tier, broken, disagreements):
    return predicates(rng, "thorough")
