"""C04 — BLS: verification is total and rejects malformed or unsafe keys and signatures"""
import oracle as O
from common import Case, Pred, tb, tbl
from props.blsutil import SUITES, dec_g2, enc_g1, enc_g2, pk_of, suite_cls
from props.util import nontrivial_default

RULE = ("correspondence: KeyValidate / Verify (with the trace of arguments that actually reach `pairing`) / AggregateVerify / "
        "FastAggregateVerify / PopVerify of the model vs the real suites on a malformed stream: valid encodings with extra leading/trailing "
        "bytes, truncated, zero-padded, all eight flag combinations x {0,1,p-1,p,p+1,2^381-1,on-curve x,off-curve x}, on-curve points with a "
        "non-trivial cofactor component (G1 and G2), identity encodings, random bytes of length 0..200, in every position of a key list; "
        "predicates: a boolean is returned (never an exception), True only for canonical in-subgroup non-identity key and in-subgroup signature, "
        "every recorded pairing argument is on the curve and in the r-torsion")
HYPOTHESES = []
NOT_YET_PROVED = []
ASSUMPTIONS = []
nontrivial = nontrivial_default
EXTRA_MODULES = {"Props.TieCodec": "PyEcc.Tie.", "Props.TieBls": "PyEcc.Tie.", "Props.TieBlsAgg": "PyEcc.Tie."}

CHUNK = 8
P = O.BLS_P


def g1_words(rng):
    """384-bit words: 8 flag combinations x interesting x"""
    on = O.rand_curve_point_g1(rng)[0].v
    off = next(x for x in (rng.randrange(P) for _ in range(99)) if (O.Fp(x, P) * O.Fp(x, P) * O.Fp(x, P) + 4).sqrt() is None)
    xs = [0, 1, P - 1, P, P + 1, (1 << 381) - 1, on, off]
    return [(f << 381) | x for f in range(8) for x in xs]


def malformed_keys(rng, tier):
    sk = rng.randrange(1, O.BLS_R)
    good = pk_of(sk)
    T = O.torsion_g1(rng)
    out = [("good", good), ("lead0", b"\x00" + good), ("lead1", b"\x01" + good), ("leadff", b"\xff\xff" + good), ("trail", good + b"\x00"),
           ("trunc", good[:47]), ("trunc1", good[1:]), ("empty", b""), ("zeros", bytes(48)), ("identity", enc_g1(None)),
           ("identity-a", bytes([0xe0]) + bytes(47)), ("torsion", enc_g1(T)), ("mixed", enc_g1(O.aff_add(O.g1(sk), T))),
           ("uncompressed-flag", bytes([good[0] & 0x7f]) + good[1:]), ("x0", (1 << 383).to_bytes(48, "big")), ("x0a", ((1 << 383) | (1 << 381)).to_bytes(48, "big"))]
    ws = g1_words(rng)
    for w in (rng.sample(ws, 10) if tier == "quick" else ws):
        out.append((f"word{w >> 381}:{w & ((1 << 381) - 1) if (w & ((1 << 381) - 1)) < 3 else 'x'}", w.to_bytes(48, "big")))
    for n in ([0, 1, 47, 48, 49, 96, 200] if tier == "quick" else range(0, 201, 7)):
        out.append((f"rand{n}", bytes(rng.randrange(256) for _ in range(n))))
    return sk, good, out


def malformed_sigs(rng, s, sk, m, tier):
    C = suite_cls(s)
    good = C.Sign(sk, m)
    S = dec_g2(good)
    T = O.torsion_g2(rng)
    out = [("good", good), ("lead0", b"\x00" + good), ("trail", good + b"\x00"), ("trunc", good[:95]), ("half", good[:48]), ("empty", b""),
           ("zeros", bytes(96)), ("identity", enc_g2(None)), ("identity-a", bytes([0xe0]) + bytes(95)), ("torsion", enc_g2(T)),
           ("mixed", enc_g2(O.aff_add(S, T))), ("flag-in-word2", good[:48] + bytes([good[48] | 0x80]) + good[49:]),
           ("uncompressed-flag", bytes([good[0] & 0x7f]) + good[1:]), ("x>=p", (((1 << 383) | (P + 1)).to_bytes(48, "big")) + good[48:]),
           ("x2>=p", good[:48] + P.to_bytes(48, "big"))]
    for f in range(8):
        out.append((f"flags{f}", bytes([(good[0] & 0x1f) | (f << 5)]) + good[1:]))
    for n in ([0, 95, 96, 97, 192] if tier == "quick" else range(0, 201, 9)):
        out.append((f"rand{n}", bytes(rng.randrange(256) for _ in range(n))))
    return good, out


def identity_sig_scenarios(rng):
    """signer pairs whose keys cancel (a, r-a) on one message: the honest aggregate is the IDENTITY signature c0 00..00, which
    the POP suite accepts; every non-canonical spelling of the identity (flag bits in the second word, a-flag) must be refused.
    Also key pairs outside the subgroup whose cofactor components cancel. (tag, api, pks, msgs-or-msg, sig, expected)"""
    from props.blsutil import enc_g1
    from py_ecc.bls import G2ProofOfPossession as POP
    a = rng.randrange(1, O.BLS_R)
    m = b"msg"
    pks = [pk_of(a), pk_of(O.BLS_R - a)]
    inf = enc_g2(None)
    out = [("identity-sig-canonical", "agg", pks, [m, m], inf, True)]
    for f in (0x20, 0x40, 0x80, 0xa0, 0xe0):
        out.append((f"identity-sig-word2-flags-{f:02x}", "agg", pks, [m, m], inf[:48] + bytes([f]) + inf[49:], False))
    out.append(("identity-sig-a-flag", "agg", pks, [m, m], bytes([0xe0]) + inf[1:], False))
    out.append(("identity-sig-no-c-flag", "agg", pks, [m, m], bytes([0x40]) + inf[1:], False))
    # a key list padded with the IDENTITY key (contributes nothing to the pairing product) and a key shifted by a cofactor-torsion
    # point (the pairing with T is killed by the final exponentiation): the signature of the honest part "matches" — must be refused
    ident = enc_g1(None)
    for s_ in SUITES:
        C = suite_cls(s_)
        sg = C.Sign(a, m)
        out.append(("identity-key-appended", "aggS:" + s_, [pk_of(a), ident], [m, b"m2"], sg, False))
        out.append(("identity-key-prepended", "aggS:" + s_, [ident, pk_of(a)], [b"m2", m], sg, False))
        if s_ != "aug":
            for T in ((O.Fp(0, P), O.Fp(2, P)), O.torsion_g1(rng)):
                shifted = enc_g1(O.aff_add(O.g1(a), T))
                out.append(("torsion-shifted-key", "aggS:" + s_, [shifted], [m], sg, False))
                out.append(("torsion-shifted-key", "verS:" + s_, [shifted], m, sg, False))
    b = rng.randrange(1, O.BLS_R)
    for T in (O.torsion_g1(rng), (O.Fp(0, P), O.Fp(2, P))):
        pk1 = enc_g1(O.aff_add(O.g1(a), T))
        pk2 = enc_g1(O.aff_add(O.g1(b), O.aff_neg(T)))
        sig = POP.Sign((a + b) % O.BLS_R or 1, m)
        out.append(("torsion-cancelling-keys", "fast", [pk1, pk2], m, sig, False))
        out.append(("torsion-cancelling-keys", "agg", [pk1, pk2], [m, m], sig, False))
    return out


def cases(rng, tier):
    cs = []
    for tag, api, pks, ms, sg, _ in identity_sig_scenarios(rng):
        if api == "agg":
            cs.append(Case("bls.AggregateVerify", ["pop", tbl(pks), tbl(ms), tb(sg)], tags=(tag,)))
        elif api.startswith("aggS:"):
            cs.append(Case("bls.AggregateVerify", [api[5:], tbl(pks), tbl(ms), tb(sg)], tags=(tag,)))
        elif api.startswith("verS:"):
            cs.append(Case("bls.Verify", [api[5:], tb(pks[0]), tb(ms), tb(sg)], tags=(tag,)))
        else:
            cs.append(Case("bls.FastAggregateVerify", [tbl(pks), tb(ms), tb(sg)], tags=(tag,)))
    sk, goodpk, keys = malformed_keys(rng, tier)
    for tag, k in keys:
        cs.append(Case("bls.KeyValidate", [tb(k)], tags=(tag,)))
    m = b"message"
    for s in SUITES:
        goodsig, sigs = malformed_sigs(rng, s, sk, m, tier)
        ksel = keys if tier == "thorough" else keys[:6] + rng.sample(keys[6:], 6)
        for tag, k in ksel:
            cs.append(Case("bls.VerifyTrace", [s, tb(k), tb(m), tb(goodsig)], tags=("key-" + tag,)))
        ssel = sigs if tier == "thorough" else sigs[:4] + rng.sample(sigs[4:], 7)
        for tag, sg in ssel:
            cs.append(Case("bls.VerifyTrace", [s, tb(goodpk), tb(m), tb(sg)], tags=("sig-" + tag,)))
        # every position of a key list
        sk2 = rng.randrange(1, O.BLS_R)
        C = suite_cls(s)
        agg = C.Aggregate([C.Sign(sk, b"m1"), C.Sign(sk2, b"m2")])
        for tag, k in rng.sample(keys[1:], 3 if tier == "quick" else 12):
            cs.append(Case("bls.AggregateVerify", [s, tbl([k, pk_of(sk2)]), tbl([b"m1", b"m2"]), tb(agg)]))
            cs.append(Case("bls.AggregateVerify", [s, tbl([goodpk, k]), tbl([b"m1", b"m2"]), tb(agg)]))
        for tag, sg in rng.sample(sigs[1:], 3 if tier == "quick" else 10):
            cs.append(Case("bls.AggregateVerify", [s, tbl([goodpk, pk_of(sk2)]), tbl([b"m1", b"m2"]), tb(sg)]))
    from py_ecc.bls import G2ProofOfPossession as POP
    goodsig = POP.Sign(sk, m)
    for tag, k in rng.sample(keys[1:], 4 if tier == "quick" else 15):
        cs.append(Case("bls.FastAggregateVerify", [tbl([goodpk, k]), tb(m), tb(goodsig)]))
        cs.append(Case("bls.PopVerify", [tb(k), tb(goodsig)]))
    return cs


def _classify_key(k):
    """True iff k is the canonical 48-byte encoding of a non-identity point of the prime-order subgroup (independent oracle)"""
    if len(k) != 48:
        return False
    try:
        Pt = O.zcash_decompress_g1(int.from_bytes(k, "big"))
    except ValueError:
        return False
    if Pt is None or O.aff_mul(Pt, O.BLS_R) is not None:
        return False
    return O.zcash_compress_g1(Pt).to_bytes(48, "big") == k


def _classify_sig(sg):
    if len(sg) != 96:
        return False
    try:
        S = O.zcash_decompress_g2(int.from_bytes(sg[:48], "big"), int.from_bytes(sg[48:], "big"))
    except ValueError:
        return False
    if O.aff_mul(S, O.BLS_R) is not None:
        return False
    return True


def keyvalidate_pred(tag, k):
    from py_ecc.bls import G2Basic
    try:
        got = G2Basic.KeyValidate(k)
    except Exception as e:  # noqa: BLE001
        return (False, f"KeyValidate raised {type(e).__name__} on '{tag}' {k.hex()[:40]} (len {len(k)})")
    want = _classify_key(k)
    return (got is want, f"KeyValidate returned {got}, oracle says {want} for '{tag}' {k.hex()[:40]} (len {len(k)})")


def total_pred(s, tag, pk, m, sg):
    """never raises; True only for canonical inputs; every pairing argument on-curve and in the subgroup"""
    from py_ecc.bls import ciphersuites as CS
    from py_ecc.bls.g2_primitives import subgroup_check
    from py_ecc.optimized_bls12_381 import b, b2, is_inf, is_on_curve
    rec = []
    orig = CS.pairing

    def spy(Q, Pt, final_exponentiate=True):
        rec.append((Q, Pt))
        return orig(Q, Pt, final_exponentiate=final_exponentiate)
    CS.pairing = spy
    try:
        C = suite_cls(s)
        try:
            got = C.Verify(pk, m, sg)
        except Exception as e:  # noqa: BLE001
            return (False, f"Verify raised {type(e).__name__} on '{tag}' suite={s}")
    finally:
        CS.pairing = orig
    bad = []
    if not isinstance(got, bool):
        bad.append("non-boolean result")
    if got and not (_classify_key(pk) and _classify_sig(sg)):
        bad.append("accepted a non-canonical / out-of-subgroup / identity input")
    for Q, Pt in rec:
        if not is_on_curve(Q, b2) or not subgroup_check(Q):
            bad.append("pairing evaluated on a G2 argument off the curve or outside the subgroup")
        if not is_on_curve(Pt, b) or not subgroup_check(Pt) or is_inf(Pt):
            bad.append("pairing evaluated on a G1 argument off the curve / outside the subgroup / identity")
    return (not bad, f"Verify '{tag}' suite={s}: {bad}")


def list_pred(s, pks, ms, agg, tag):
    C = suite_cls(s)
    bad = []
    try:
        got = C.AggregateVerify(pks, ms, agg)
        if got and not (all(_classify_key(k) for k in pks) and _classify_sig(agg)):
            bad.append("AggregateVerify accepted with a bad key/signature")
    except Exception as e:  # noqa: BLE001
        bad.append(f"AggregateVerify raised {type(e).__name__}")
    from py_ecc.bls import G2ProofOfPossession as POP
    try:
        got = POP.FastAggregateVerify(pks, ms[0] if ms else b"", agg)
        if got and not (all(_classify_key(k) for k in pks) and _classify_sig(agg)):
            bad.append("FastAggregateVerify accepted with a bad key/signature")
    except Exception as e:  # noqa: BLE001
        bad.append(f"FastAggregateVerify raised {type(e).__name__}")
    try:
        got = POP.PopVerify(pks[0] if pks else b"", agg)
        if got and not (_classify_key(pks[0]) and _classify_sig(agg)):
            bad.append("PopVerify accepted with a bad key/proof")
    except Exception as e:  # noqa: BLE001
        bad.append(f"PopVerify raised {type(e).__name__}")
    return (not bad, f"'{tag}' suite={s}: {bad}")


def scenario_pred(tag, api, pks, ms, sg, want):
    from py_ecc.bls import G2ProofOfPossession as POP
    try:
        if api == "agg":
            got = POP.AggregateVerify(pks, ms, sg)
        elif api.startswith("aggS:"):
            got = suite_cls(api[5:]).AggregateVerify(pks, ms, sg)
        elif api.startswith("verS:"):
            got = suite_cls(api[5:]).Verify(pks[0], ms, sg)
        else:
            got = POP.FastAggregateVerify(pks, ms, sg)
    except Exception as e:  # noqa: BLE001
        return (False, f"'{tag}': raised {type(e).__name__}")
    bad = []
    if got is not want:
        bad.append(f"returned {got}, expected {want}")
    if got and not (all(_classify_key(k) for k in pks) and _classify_sig(sg) and _canonical_sig(sg)):
        bad.append("accepted although a key or the signature is not a canonical in-subgroup encoding")
    return (not bad, f"'{tag}' ({api}): {bad}")


def cancelling_history_pred(a, order):
    """ONE interpreter: calls on individually valid keys whose sum is the identity (pk, -pk) come first, then the identity key and
    the identity signature are offered to every entry point — a verdict remembered from the aggregate (a cache seeded with
    'the sum of validated keys is valid') shows only in this history"""
    from props.blsutil import enc_g1
    from py_ecc.bls import G2Basic, G2MessageAugmentation, G2ProofOfPossession as POP
    m = b"msg"
    pks = [pk_of(a), pk_of(O.BLS_R - a)]
    ident, inf = enc_g1(None), enc_g2(None)
    bad = []
    try:
        steps = [lambda: POP.FastAggregateVerify(pks, m, inf), lambda: POP.AggregateVerify(pks, [m, m], inf),
                 lambda: POP._AggregatePKs(pks), lambda: [POP.KeyValidate(k) for k in pks]]
        for i in order:
            steps[i]()
        for C in (G2Basic, G2MessageAugmentation, POP):
            if C.KeyValidate(ident) is not False:
                bad.append(f"{C.__name__}.KeyValidate(identity key) is not False after the history")
            if C.Verify(ident, m, inf) is not False:
                bad.append(f"{C.__name__}.Verify(identity key, m, identity signature) is not False after the history")
            if C.AggregateVerify([ident], [m], inf) is not False:
                bad.append(f"{C.__name__}.AggregateVerify([identity key]) is not False after the history")
        if POP.FastAggregateVerify([ident], m, inf) is not False or POP.PopVerify(ident, inf) is not False:
            bad.append("POP FastAggregateVerify / PopVerify accept the identity key after the history")
        if POP.FastAggregateVerify(pks, m, inf) is not False:
            bad.append("FastAggregateVerify accepts keys that sum to the identity on a repeated call")
    except Exception as e:  # noqa: BLE001
        bad.append(f"raised {type(e).__name__}: {e}")
    return (not bad, f"cancelling keys sk={a}, r-sk, history {order}: {bad}")


def _canonical_sig(sg):
    try:
        S = O.zcash_decompress_g2(int.from_bytes(sg[:48], "big"), int.from_bytes(sg[48:], "big"))
    except ValueError:
        return False
    return enc_g2(S) == sg


def predicates(rng, tier, only=None):
    ps = []
    for sc in identity_sig_scenarios(rng):
        ps.append(Pred("identity-and-torsion-scenarios", scenario_pred, sc))
    sk, goodpk, keys = malformed_keys(rng, tier)
    for tag, k in keys:
        ps.append(Pred("keyvalidate-exact", keyvalidate_pred, (tag, k)))
    for order in ((0,), (1, 0), (3, 2, 0, 1)):
        ps.append(Pred("cancelling-keys-history", cancelling_history_pred, (rng.randrange(1, O.BLS_R), order)))
    m = b"message"
    for s in SUITES:
        goodsig, sigs = malformed_sigs(rng, s, sk, m, tier)
        ksel = keys if tier == "thorough" else keys[:6] + rng.sample(keys[6:], 5)
        for tag, k in ksel:
            ps.append(Pred("verify-total", total_pred, (s, "key-" + tag, k, m, goodsig)))
        ssel = sigs if tier == "thorough" else sigs[:3] + rng.sample(sigs[3:], 6)
        for tag, sg in ssel:
            ps.append(Pred("verify-total", total_pred, (s, "sig-" + tag, goodpk, m, sg)))
        sk2 = rng.randrange(1, O.BLS_R)
        C = suite_cls(s)
        agg = C.Aggregate([C.Sign(sk, b"m1"), C.Sign(sk2, b"m2")])
        for tag, k in rng.sample(keys[1:], 3 if tier == "quick" else 14):
            ps.append(Pred("lists-total", list_pred, (s, [k, pk_of(sk2)], [b"m1", b"m2"], agg, "pos0-" + tag)))
            ps.append(Pred("lists-total", list_pred, (s, [goodpk, k], [b"m1", b"m2"], agg, "pos1-" + tag)))
        for tag, sg in rng.sample(sigs[1:], 3 if tier == "quick" else 12):
            ps.append(Pred("lists-total", list_pred, (s, [goodpk, pk_of(sk2)], [b"m1", b"m2"], sg, "sig-" + tag)))
    if only:
        ps = [p for p in ps if p.name == only]
    return ps


def search(rng, tier, broken, disagreements):
    return predicates(rng, "thorough")
