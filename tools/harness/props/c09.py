"""C09 — BLS outputs are the byte strings mandated by the IETF ciphersuites"""
import hashlib

import oracle as O
from common import Case, Pred, tb, tbl
from props.blsutil import DST, POP_TAG, SUITES, dec_g2, enc_g1, enc_g2, good_keys, msgs, suite_cls
from props.util import nontrivial_default

RULE = ("correspondence: SkToPk / Sign / PopProve / Aggregate of the model vs the real suites; predicates: real bytes vs an independent "
        "composition written from the draft — ZCash compression (oracle) of sk*G1 resp. sk*hash_to_curve(msg, tag) with hash_to_curve from the "
        "independent RFC 9380 transcription (hash_to_field + straight-line SSWU + isogeny by the published rational maps is replaced by: "
        "the library point must equal sk * H where H is recomputed through the oracle's xmd + SSWU and mapped by the library isogeny/cofactor "
        "step checked separately in C10); anchors: SkToPk(1) = compressed generator, Ethereum consensus-spec key -> public key")
HYPOTHESES = ["HB4_hash"]
NOT_YET_PROVED = []
ASSUMPTIONS = ["published EIP-2333/Ethereum vectors cannot be fetched offline; two anchors typed from independent recollection are used"]
nontrivial = nontrivial_default
EXTRA_MODULES = {"Props.TieCodec": "PyEcc.Tie.", "Props.TieSwu": "PyEcc.Tie.", "Props.TieHash": "PyEcc.Tie.", "Props.TieBls": "PyEcc.Tie.", "Props.TieBlsAgg": "PyEcc.Tie."}

CHUNK = 4

GEN_COMPRESSED = bytes.fromhex("97f1d3a73197d7942695638c4fa9ac0fc3688c4f9774b905a14e3a3f171bac586c55e83ff97a1aeffb3af00adb22c6bb")
ETH_SK = 0x263dbd792f5b1be47ed85f8938c0f29586af0d3ac7b977f21c278fe1462040e3
ETH_PK = bytes.fromhex("a491d1b0ecd9bb917989f0e74f0dea0422eac4a873e5e2644f368dffb9a6e20fd6e10c1b77654d067c0618f6e5a7f79a")


def cases(rng, tier):
    cs = []
    ks, ms = good_keys(rng, tier), msgs(rng, tier)
    # the 48 public-key bytes used BOTH as an ordinary message and as possession-proof input, in both orders, inside one
    # interpreter (first four cases = one chunk): the two tags must never be confused
    ska, skb = rng.randrange(1, O.BLS_R), rng.randrange(1, O.BLS_R)
    cs += [Case("bls.Sign", ["pop", ska, tb(enc_g1(O.g1(ska)))]), Case("bls.PopProve", [ska]),
           Case("bls.PopProve", [skb]), Case("bls.Sign", ["pop", skb, tb(enc_g1(O.g1(skb)))])]
    for sk in [1, ETH_SK] + rng.sample(ks, 3 if tier == "quick" else len(ks)):
        cs.append(Case("bls.SkToPk", [sk]))
    n = 3 if tier == "quick" else 25
    for s in SUITES:
        for _ in range(n):
            cs.append(Case("bls.Sign", [s, rng.choice(ks), tb(rng.choice(ms))]))
    for sk in rng.sample(ks, 2 if tier == "quick" else 8):
        cs.append(Case("bls.PopProve", [sk]))
    from py_ecc.bls import G2Basic
    sigs = [G2Basic.Sign(rng.choice(ks), bytes([i])) for i in range(3 if tier == "quick" else 9)]
    cs.append(Case("bls.Aggregate", [tbl(sigs)]))
    cs.append(Case("bls.Aggregate", [tbl(sigs[:1])]))
    cs.append(Case("bls.Aggregate", [tbl([sigs[0], sigs[0]])]))
    S0 = dec_g2(sigs[0])
    cs.append(Case("bls.Aggregate", [tbl([sigs[0], enc_g2(O.phi(S0, O.BLS_P))])]))
    cs.append(Case("bls.Aggregate", [tbl([sigs[0], enc_g2(O.phi(S0, O.BLS_P)), enc_g2(O.phi(O.phi(S0, O.BLS_P), O.BLS_P))])]))
    from props.c11 import g2_axis_y, g2_special
    # ... and signatures whose y is purely real / purely imaginary, small and large (the tie-break cases of the sign flag)
    for X in g2_special(None)[:2] + g2_axis_y(1):
        cs.append(Case("bls.Aggregate", [tbl([enc_g2(X)])]))
        cs.append(Case("bls.Aggregate", [tbl([sigs[0], enc_g2(X), enc_g2(O.aff_neg(X))])]))
    cs.append(Case("bls.Aggregate", [tbl([sigs[0], sigs[1], sigs[0]])]))
    return cs


def _spec_hash_to_g2(msg, dst):
    """hash_to_curve(msg, dst) per RFC 9380 using the oracle for hash_to_field and the LIBRARY only for the
    map/isogeny/cofactor leg (that leg is decided in C10 against the straight-line SSWU)"""
    from py_ecc.bls.hash_to_curve import clear_cofactor_G2, map_to_curve_G2
    from py_ecc.fields import optimized_bls12_381_FQ2 as FQ2
    from py_ecc.optimized_bls12_381 import add
    from props.util import from_lib_p3
    us = O.rfc_hash_to_field(msg, 2, dst, "sha256", 2)
    q0 = map_to_curve_G2(FQ2(us[0]))
    q1 = map_to_curve_G2(FQ2(us[1]))
    return from_lib_p3(clear_cofactor_G2(add(q0, q1)))


def spec_sign(s, sk, m):
    pk = enc_g1(O.g1(sk))
    msg = pk + m if s == "aug" else m
    return enc_g2(O.aff_mul(_spec_hash_to_g2(msg, DST[s]), sk))


def sign_spec_pred(s, sk, m):
    C = suite_cls(s)
    got = C.Sign(sk, m)
    want = spec_sign(s, sk, m)
    return (got == want, f"Sign bytes differ from the draft composition: suite={s} sk={sk} |m|={len(m)} got={got.hex()[:24]} want={want.hex()[:24]}")


def sktopk_spec_pred(sk):
    from py_ecc.bls import G2Basic, G2MessageAugmentation, G2ProofOfPossession
    want = enc_g1(O.g1(sk))
    ok = all(C.SkToPk(sk) == want for C in (G2Basic, G2MessageAugmentation, G2ProofOfPossession))
    return (ok, f"SkToPk({sk}) != ZCash-compressed sk*G1")


def pop_spec_pred(sk):
    from py_ecc.bls import G2ProofOfPossession as POP
    pk = enc_g1(O.g1(sk))
    want = enc_g2(O.aff_mul(_spec_hash_to_g2(pk, POP_TAG), sk))
    return (POP.PopProve(sk) == want, f"PopProve({sk}) != compressed sk*hash_to_curve(pk, BLS_POP_ tag)")


def pop_sign_history_pred(ska, skb):
    """one interpreter: Sign(sk, pk) then PopProve(sk), and the reverse order with another key — each must equal the draft bytes"""
    from py_ecc.bls import G2ProofOfPossession as POP
    bad = []
    pka, pkb = enc_g1(O.g1(ska)), enc_g1(O.g1(skb))
    s1 = POP.Sign(ska, pka)
    p1 = POP.PopProve(ska)
    p2 = POP.PopProve(skb)
    s2 = POP.Sign(skb, pkb)
    if s1 != spec_sign("pop", ska, pka) or s2 != spec_sign("pop", skb, pkb):
        bad.append("Sign(sk, pk) differs from the draft bytes (order-dependent)")
    for sk, pk, pr in ((ska, pka, p1), (skb, pkb, p2)):
        if pr != enc_g2(O.aff_mul(_spec_hash_to_g2(pk, POP_TAG), sk)):
            bad.append("PopProve differs from the draft bytes (order-dependent)")
    if s1 == p1 or s2 == p2:
        bad.append("a possession proof equals the ordinary signature of the key bytes (tags confused)")
    return (not bad, f"POP suite, pk bytes as message and as proof input: {bad}")


def aggregate_spec_pred(sks, m):
    """Aggregate = compressed group sum WITH multiplicities (duplicates count twice)"""
    from py_ecc.bls import G2Basic
    sigs = [G2Basic.Sign(k, m) for k in sks]
    lst = [sigs[0], sigs[0]] + sigs[1:]
    S = None
    for x in lst:
        S = O.aff_add(S, dec_g2(x))
    got = G2Basic.Aggregate(lst)
    return (got == enc_g2(S), "Aggregate of a list containing the same signature twice != encoding of the group sum")


def aggregate_special_pred(sk, m):
    """Aggregate on well-formed signatures that are unusual as POINTS: S together with phi(S) = (beta x, y) (same y, other x) and
    phi^2(S) (the three sum to the identity), and signatures whose x lies in the base field"""
    from py_ecc.bls import G2Basic
    from props.c11 import g2_axis_y, g2_special
    S = dec_g2(G2Basic.Sign(sk, m))
    S1, S2 = O.phi(S, O.BLS_P), O.phi(O.phi(S, O.BLS_P), O.BLS_P)
    bad = []
    for lst in ([S, S1], [S, S1, S2], [S1, S], [S, O.aff_neg(S1)]):
        want = None
        for X in lst:
            want = O.aff_add(want, X)
        got = G2Basic.Aggregate([enc_g2(X) for X in lst])
        if got != enc_g2(want):
            bad.append(f"Aggregate of {len(lst)} automorphism-related signatures != encoding of the group sum")
    # ... and signatures whose y is purely real / purely imaginary, small and large (the tie-break cases of the sign flag)
    for X in g2_special(None)[:2] + g2_axis_y(1):
        for lst in ([X], [X, O.aff_neg(X)], [S, X, O.aff_neg(X)]):
            want = None
            for Y in lst:
                want = O.aff_add(want, Y)
            try:
                got = G2Basic.Aggregate([enc_g2(Y) for Y in lst])
            except Exception as e:  # noqa: BLE001
                got = f"raised {type(e).__name__}"
            if got != enc_g2(want):
                bad.append(f"Aggregate with a signature whose x lies in the base field / is purely imaginary: {str(got)[:40]}")
    return (not bad, f"Aggregate on special points: {bad[:3]}")


def tags_pred():
    from py_ecc.bls import G2Basic, G2MessageAugmentation, G2ProofOfPossession
    ok = (G2Basic.DST == DST["basic"] and G2MessageAugmentation.DST == DST["aug"] and G2ProofOfPossession.DST == DST["pop"]
          and G2ProofOfPossession.POP_TAG == POP_TAG)
    return (ok, "suite tags differ from the IETF draft-v4 strings")


def anchors_pred():
    from py_ecc.bls import G2Basic
    ok = G2Basic.SkToPk(1) == GEN_COMPRESSED and G2Basic.SkToPk(ETH_SK) == ETH_PK
    return (ok, "anchor vectors (compressed generator; consensus-spec key) not reproduced")


def predicates(rng, tier, only=None):
    ps = [Pred("tags", tags_pred, ()), Pred("anchors", anchors_pred, ()),
          Pred("pop-sign-history", pop_sign_history_pred, (rng.randrange(1, O.BLS_R), rng.randrange(1, O.BLS_R))),
          Pred("aggregate-spec", aggregate_spec_pred, ([rng.randrange(1, O.BLS_R) for _ in range(2)], b"agg")),
          Pred("aggregate-spec", aggregate_special_pred, (rng.randrange(1, O.BLS_R), b"special"))]
    ks, ms = good_keys(rng, tier), msgs(rng, tier)
    for sk in rng.sample(ks, 4 if tier == "quick" else len(ks)):
        ps.append(Pred("sktopk-spec", sktopk_spec_pred, (sk,)))
    n = 3 if tier == "quick" else 40
    for s in SUITES:
        for _ in range(n):
            ps.append(Pred("sign-spec", sign_spec_pred, (s, rng.choice(ks), rng.choice(ms))))
    for sk in rng.sample(ks, 2 if tier == "quick" else 10):
        ps.append(Pred("pop-spec", pop_spec_pred, (sk,)))
    if only:
        ps = [p for p in ps if p.name == only]
    return ps


def search(rng, tier, broken, disagreements):
    return predicates(rng, "thorough")
