"""shared generators for the BLS-API properties (C01–C04, C09)"""
import oracle as O
from common import tb

SUITES = ["basic", "aug", "pop"]
DST = {"basic": b"BLS_SIG_BLS12381G2_XMD:SHA-256_SSWU_RO_NUL_", "aug": b"BLS_SIG_BLS12381G2_XMD:SHA-256_SSWU_RO_AUG_",
       "pop": b"BLS_SIG_BLS12381G2_XMD:SHA-256_SSWU_RO_POP_"}
POP_TAG = b"BLS_POP_BLS12381G2_XMD:SHA-256_SSWU_RO_POP_"


def suite_cls(s):
    import pyexec
    return pyexec.suite_cls(s)


def good_keys(rng, tier):
    r = O.BLS_R
    ks = [1, 2, r - 2, r - 1, rng.randrange(1, r)]
    # scalars with a special bit pattern: exact powers of two (a single set bit — wide enough that float-based bit counting is
    # inexact), 2^k - 1 (all ones), 2^k + 1
    k = rng.randrange(49, 254)
    ks += [1 << 254, 1 << k, (1 << rng.randrange(49, 255)) - 1]
    if tier == "thorough":
        ks += [1 << j for j in range(48, 255, 7)] + [(1 << j) + 1 for j in range(50, 255, 29)]
    step = 64 if tier == "quick" else 8
    b = 3
    while (1 << b) < r:
        ks.append(rng.randrange(1 << (b - 1), min(1 << b, r)))
        b += step
    return ks


BAD_KEYS = [0, O.BLS_R, O.BLS_R + 1, -1, 1 << 255, "!other"]


def msgs(rng, tier):
    ms = [b"", b"\x00", b"a" * 55, b"b" * 56, b"c" * 63, b"d" * 64, b"e" * 65, bytes(rng.randrange(256) for _ in range(37))]
    if tier == "thorough":
        ms += [bytes(rng.randrange(256) for _ in range(4096)), bytes(range(256))]
    return ms


def enc_g1(P):
    return O.zcash_compress_g1(P).to_bytes(48, "big")


def enc_g2(P):
    z1, z2 = O.zcash_compress_g2(P)
    return z1.to_bytes(48, "big") + z2.to_bytes(48, "big")


def dec_g2(b):
    return O.zcash_decompress_g2(int.from_bytes(b[:48], "big"), int.from_bytes(b[48:], "big"))


def dec_g1(b):
    return O.zcash_decompress_g1(int.from_bytes(b, "big"))


def pk_of(sk):
    return enc_g1(O.g1(sk))


def flip(b, bit):
    x = bytearray(b)
    x[bit // 8] ^= 0x80 >> (bit % 8)
    return bytes(x)
