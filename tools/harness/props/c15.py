"""C15 — expand_message_xmd and hash_to_field match RFC 9380 for all parameters"""
import hashlib

import oracle as O
from common import Case, Pred, tb
from props.util import hashed_case, nontrivial_default

RULE = ("correspondence: expand_message_xmd / hash_to_field_FQ / hash_to_field_FQ2 of the model, evaluated with the hash TRANSCRIPT "
        "recorded from the real call (so agreement means the code fed hashlib byte-for-byte the strings the model says), for messages "
        "around block boundaries and up to KiB, tags of length 0,1,254,255,256, lengths 0,1,31,32,33,64,255b,255b+1,65535,65536, hashes "
        "sha256/sha384/sha512/sha3_256/blake2b, counts 1..8; exhaustive sweep of math.ceil(len/b) over 0..65536 for every digest size; "
        "predicates: real output vs an independent RFC 9380 transcription")
EXTRA_MODULES = {"Props.TieHash": "PyEcc.Tie."}
HYPOTHESES = ["HB4_hash (hashlib objects are deterministic functions of their input with the advertised digest_size/block_size)"]
NOT_YET_PROVED = []
ASSUMPTIONS = ["math.ceil(len_in_bytes / b_in_bytes) is modelled as exact integer ceiling division; validated exhaustively over the accepted range on every run"]
nontrivial = nontrivial_default
HASHES = ["sha256", "sha512", "sha384", "sha3_256", "blake2b"]


def _msgs(rng, tier):
    ms = [b"", b"a", b"x" * 55, b"x" * 56, b"x" * 63, b"x" * 64, b"x" * 65, bytes(rng.randrange(256) for _ in range(200))]
    if tier == "thorough":
        ms += [bytes(rng.randrange(256) for _ in range(n)) for n in (127, 128, 129, 1024, 4096)]
    return ms


def _dsts(rng):
    return [b"", b"D", bytes(rng.randrange(256) for _ in range(254)), bytes(rng.randrange(256) for _ in range(255)),
            bytes(rng.randrange(256) for _ in range(256)), b"QUUX-V01-CS02-with-expander-SHA256-128", bytes(300)]


def _lens(b):
    return [0, 1, 31, 32, 33, 64, b - 1, b, b + 1, 255 * b, 255 * b + 1, 65535, 65536, 100000]


def _xmd_case(hname, msg, dst, n):
    from py_ecc.bls.hash import expand_message_xmd

    def run(rh):
        return "x" + bytes(expand_message_xmd(msg, dst, n, rh)).hex()
    return hashed_case("h2c.xmd", hname, run, [tb(msg), tb(dst), n])


def _h2f_case(hname, msg, count, dst, m):
    from py_ecc.bls import hash_to_curve as H2C

    def run(rh):
        if m == 2:
            r = H2C.hash_to_field_FQ2(msg, count, dst, rh)
            return " ".join("[" + ",".join(str(int(c)) for c in u.coeffs) + "]" for u in r)
        r = H2C.hash_to_field_FQ(msg, count, dst, rh)
        return " ".join(str(int(u.n)) for u in r)
    return hashed_case("h2c.h2f_fq2" if m == 2 else "h2c.h2f_fq", hname, run, [tb(msg), count, tb(dst)])


def cases(rng, tier):
    cs = []
    ms, ds = _msgs(rng, tier), _dsts(rng)
    for hname in HASHES:
        b = hashlib.new(hname).digest_size
        for n in _lens(b):
            cs.append(_xmd_case(hname, rng.choice(ms), rng.choice(ds[:4] + ds[5:6]), n))
        for d in ds:
            cs.append(_xmd_case(hname, rng.choice(ms), d, rng.choice([0, 1, b, 3 * b + 5])))
        for m in ms:
            cs.append(_xmd_case(hname, m, ds[5], rng.choice([b, 2 * b, 2 * b + 1, 256])))
        for count in ([1, 2, 8] if tier == "quick" else range(1, 9)):
            cs.append(_h2f_case(hname, rng.choice(ms), count, ds[5], 1))
            cs.append(_h2f_case(hname, rng.choice(ms), count, ds[5], 2))
    cs.append(_h2f_case("sha256", b"abc", 0, ds[5], 2))
    cs.append(_h2f_case("sha256", b"abc", 2, ds[4], 2))
    return cs


def xmd_pred(hname, msg, dst, n):
    from py_ecc.bls.hash import expand_message_xmd
    hf = getattr(hashlib, hname)
    try:
        want = O.rfc_expand_message_xmd(msg, dst, n, hname)
    except ValueError:
        want = None
    try:
        got = bytes(expand_message_xmd(msg, dst, n, hf))
    except Exception as e:  # noqa: BLE001
        got = None
        if want is not None:
            return (False, f"xmd raised {type(e).__name__} on a valid input hash={hname} len={n} |dst|={len(dst)}")
    if want is None:
        return (got is None, f"xmd must refuse hash={hname} len={n} |dst|={len(dst)} but returned {len(got or b'')} bytes")
    return (got == want and len(got) == n, f"xmd differs from RFC 9380 hash={hname} len={n} |dst|={len(dst)} |msg|={len(msg)}")


def h2f_pred(hname, msg, count, dst):
    from py_ecc.bls import hash_to_curve as H2C
    hf = getattr(hashlib, hname)
    w1 = O.rfc_hash_to_field(msg, count, dst, hname, 1)
    w2 = O.rfc_hash_to_field(msg, count, dst, hname, 2)
    g1 = [[int(u.n)] for u in H2C.hash_to_field_FQ(msg, count, dst, hf)]
    g2 = [[int(c) for c in u.coeffs] for u in H2C.hash_to_field_FQ2(msg, count, dst, hf)]
    return (g1 == w1 and g2 == w2, f"hash_to_field differs from RFC 9380 §5.2 hash={hname} count={count}")


def ceil_sweep_pred(b):
    """the float expression of the implementation vs exact integer ceiling, whole accepted range"""
    import math
    bad = [n for n in range(0, 65537) if math.ceil(n / b) != -(-n // b)]
    return (not bad, f"math.ceil(n/{b}) != exact ceiling at n={bad[:5]}")


def predicates(rng, tier, only=None):
    ps = []
    ms, ds = _msgs(rng, tier), _dsts(rng)
    for hname in HASHES:
        b = hashlib.new(hname).digest_size
        ps.append(Pred("ceil-exact", ceil_sweep_pred, (b,)))
        for n in _lens(b):
            ps.append(Pred("xmd-rfc", xmd_pred, (hname, rng.choice(ms), rng.choice(ds), n)))
        for d in ds:
            ps.append(Pred("xmd-rfc", xmd_pred, (hname, rng.choice(ms), d, rng.choice([1, b, 2 * b + 1]))))
        for count in (1, 2, 5, 8):
            ps.append(Pred("h2f-rfc", h2f_pred, (hname, rng.choice(ms), count, ds[5])))
    for b in (16, 20, 28, 32, 48, 64):
        ps.append(Pred("ceil-exact", ceil_sweep_pred, (b,)))
    if only:
        ps = [p for p in ps if p.name == only]
    return ps


def search(rng, tier, broken, disagreements):
    return predicates(rng, "thorough")
