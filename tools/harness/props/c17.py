"""C17 — subgroup membership test is exact and cofactor clearing lands in the subgroup"""
import oracle as O
from common import Case, Pred
from props.util import from_lib_p3, lib_g1, lib_g2, nontrivial_default, pt_eq, tfq, tok_g1, tok_g2

RULE = ("correspondence: subgroup_check / clear_cofactor_G1/G2 of the model vs the real functions on kG, kG+T (T in the cofactor "
        "torsion: full-cofactor component r*R and its components of small prime order 3, 11, 13, 23, ...), random curve points, "
        "infinity, random projective scalings; predicates: subgroup_check == (r*P == inf by the independent oracle), "
        "clear_cofactor == h_eff*P lands in the subgroup, cofactor constants re-derived from the curve parameter x")
HYPOTHESES = []
NOT_YET_PROVED = []
ASSUMPTIONS = []
nontrivial = nontrivial_default
EXTRA_MODULES = {"Props.TieCofactor": "PyEcc.Tie.", "Props.TieCodec": "PyEcc.Tie.", "Props.TieFieldsFq": "PyEcc.Tie.", "Props.TieFieldsFqp": "PyEcc.Tie.", "Props.TieFieldsMul": "PyEcc.Tie.", "Props.TieFieldsPoly": "PyEcc.Tie.", "Props.TieFieldsInv": "PyEcc.Tie."}

H1_FACTORS = [3, 11, 11, 10177, 10177, 859267, 859267, 52437899, 52437899]   # h1 = 3 * 11^2 * 10177^2 * 859267^2 * 52437899^2
H2_SMALL = [13, 13, 23, 23, 2713, 11953, 262069]


def _h1_ok():
    n = 1
    for f in H1_FACTORS:
        n *= f
    return n == O.H1


def small_order_g1(rng, q):
    """a point of E(Fp) of exact order q (q a prime factor of h1), or None if the sampled point has no q-part"""
    for _ in range(8):
        R = O.rand_curve_point_g1(rng)
        T = O.aff_mul(R, O.BLS_R * O.H1 // (q ** (2 if q != 3 else 1)))
        while T is not None and O.aff_mul(T, q) is not None:
            T = O.aff_mul(T, q)
        if T is not None:
            return T
    return None


def small_order_g2(rng, q):
    for _ in range(4):
        R = O.rand_curve_point_g2(rng)
        e = 0
        h = O.H2
        while h % q == 0:
            h //= q
            e += 1
        T = O.aff_mul(R, O.BLS_R * h)
        while T is not None and O.aff_mul(T, q) is not None:
            T = O.aff_mul(T, q)
        if T is not None:
            return T
    return None


def _g1_inputs(rng, tier):
    k = rng.randrange(1, O.BLS_R)
    pts = [("inf", None), ("G", O.g1(1)), ("kG", O.g1(k)), ("(r-1)G", O.g1(O.BLS_R - 1))]
    T = O.torsion_g1(rng)
    pts += [("T", T), ("kG+T", O.aff_add(O.g1(k), T)), ("rand", O.rand_curve_point_g1(rng))]
    for q in ([3, 11] if tier == "quick" else [3, 11, 10177, 859267, 52437899]):
        S = small_order_g1(rng, q)
        if S is not None:
            pts += [(f"ord{q}", S), (f"kG+ord{q}", O.aff_add(O.g1(k), S))]
    return pts


def _g2_inputs(rng, tier):
    k = rng.randrange(1, O.BLS_R)
    pts = [("inf", None), ("G", O.g2(1)), ("kG", O.g2(k))]
    T = O.torsion_g2(rng)
    pts += [("T", T), ("kG+T", O.aff_add(O.g2(k), T)), ("rand", O.rand_curve_point_g2(rng))]
    for q in ([13] if tier == "quick" else [13, 23, 2713]):
        S = small_order_g2(rng, q)
        if S is not None:
            pts += [(f"ord{q}", S), (f"kG+ord{q}", O.aff_add(O.g2(k), S))]
    return pts


def same_xy_other_z(rng):
    """pairs of projective triples sharing X and Y but not Z: P = (x, y, 1) in the subgroup and Q = (x, y, z') with z' another root of
    4 z^3 - y^2 z + x^3 = 0 (a different curve point, generically outside the subgroup). Returns [(x, y, z), ...] as ints."""
    p = O.BLS_P
    out = []
    for _ in range(40):
        Pt = O.g1(rng.randrange(1, O.BLS_R))
        x, y = Pt[0].v, Pt[1].v
        # 4 z^2 + 4 z + (4 - y^2) = 0  (after dividing the cubic by z - 1, using x^3 = y^2 - 4)
        disc = O.Fp((16 - 16 * (4 - y * y)) % p, p).sqrt()
        if disc is None:
            continue
        for sg in (1, -1):
            z = (-4 + sg * disc.v) * pow(8, -1, p) % p
            if z not in (0, 1) and (y * y * z - x ** 3 - 4 * z ** 3) % p == 0:
                out.append(((x, y, 1), (x, y, z)))
        if len(out) >= 2:
            break
    return out


def cases(rng, tier):
    cs = []
    # call histories inside one interpreter: the same X, Y with two different Z, in both orders (first cases = one chunk)
    for P1, Q1 in same_xy_other_z(rng)[:2]:
        for a, b_ in ((P1, Q1), (Q1, P1)):
            cs.append(Case("codec.subgroup_check_g1", [tfq(a[0]), tfq(a[1]), tfq(a[2])], tags=("same-xy",)))
            cs.append(Case("codec.subgroup_check_g1", [tfq(b_[0]), tfq(b_[1]), tfq(b_[2])], tags=("same-xy",)))
    reps = 2 if tier == "quick" else 6
    for _ in range(reps):
        for tag, P in _g1_inputs(rng, tier):
            sc = rng.randrange(1, O.BLS_P)
            cs.append(Case("codec.subgroup_check_g1", tok_g1(P, sc), tags=(tag,)))
            cs.append(Case("h2c.clear_g1", tok_g1(P, sc), tags=(tag,)))
        for tag, P in _g2_inputs(rng, tier):
            sc = (rng.randrange(1, O.BLS_P), rng.randrange(O.BLS_P))
            cs.append(Case("codec.subgroup_check_g2", tok_g2(P, sc), tags=(tag,)))
            cs.append(Case("h2c.clear_g2", tok_g2(P, sc), tags=(tag,)))
    return cs


def check_pred(grp, tag, P, sc):
    from py_ecc.bls import g2_primitives as GP
    from py_ecc.bls.hash_to_curve import clear_cofactor_G1, clear_cofactor_G2
    lp = lib_g1(P, sc) if grp == 1 else lib_g2(P, sc)
    got = GP.subgroup_check(lp)
    want = O.aff_mul(P, O.BLS_R) is None
    bad = []
    if got != want:
        bad.append(f"subgroup_check={got}, oracle r*P==inf is {want}")
    if tag.startswith("kG+") or tag in ("T", ) or tag.startswith("ord"):
        if got:
            bad.append("accepted a point with a non-trivial cofactor component")
    if tag in ("inf", "G", "kG", "(r-1)G") and not got:
        bad.append("rejected a multiple of the generator")
    cl = clear_cofactor_G1(lp) if grp == 1 else clear_cofactor_G2(lp)
    heff = (1 - O.BLS_X) if grp == 1 else O.H2 * (3 * O.BLS_X ** 2 - 3)
    if not pt_eq(from_lib_p3(cl), O.aff_mul(P, heff)):
        bad.append("clear_cofactor != h_eff * P")
    if not GP.subgroup_check(cl) or O.aff_mul(from_lib_p3(cl), O.BLS_R) is not None:
        bad.append("cleared point not in the subgroup")
    return (not bad, f"G{grp} {tag}: {bad} at P={P}")


def same_xy_history_pred(P1, Q1):
    """one interpreter: subgroup_check on (x, y, 1) then on (x, y, z') and in the other order: each answer = oracle"""
    from py_ecc.bls import g2_primitives as GP
    from py_ecc.fields import optimized_bls12_381_FQ as FQ
    p = O.BLS_P

    def want(T):
        zi = pow(T[2], -1, p)
        A = (O.Fp(T[0] * zi, p), O.Fp(T[1] * zi, p))
        return O.aff_mul(A, O.BLS_R) is None
    bad = []
    for seq in ((P1, Q1, P1), (Q1, P1, Q1)):
        for T in seq:
            got = GP.subgroup_check((FQ(T[0]), FQ(T[1]), FQ(T[2])))
            if got != want(T):
                bad.append(f"subgroup_check(z={T[2] % 1000}..) = {got}, oracle {want(T)} (history {[t[2] % 1000 for t in seq]})")
    return (not bad, f"subgroup_check on triples sharing X, Y: {bad[:3]}")


def constants_pred():
    from py_ecc.bls import constants as BC
    from py_ecc.optimized_bls12_381 import constants as OC
    x = O.BLS_X
    bad = []
    if not _h1_ok():
        bad.append("oracle factorisation of h1")
    if OC.H_EFF_G1 != 1 - x:
        bad.append("H_EFF_G1")
    if BC.G2_COFACTOR != O.H2:
        bad.append("G2_COFACTOR")
    if OC.H_EFF_G2 != O.H2 * (3 * x * x - 3):
        bad.append("H_EFF_G2")
    if O.BLS_R != x ** 4 - x * x + 1 or O.BLS_P != (x - 1) ** 2 * O.BLS_R // 3 + x or O.H1 * O.BLS_R != O.BLS_P + 1 - (x + 1):
        bad.append("r/p/h1 from x")
    return (not bad, f"cofactor constants differ from the values derived from x: {bad}")


def predicates(rng, tier, only=None):
    ps = [Pred("cofactor-constants", constants_pred, ())]
    for P1, Q1 in same_xy_other_z(rng)[:2]:
        ps.append(Pred("subgroup-exact", same_xy_history_pred, (P1, Q1)))
    for _ in range(1 if tier == "quick" else 5):
        for tag, P in _g1_inputs(rng, tier):
            ps.append(Pred("subgroup-exact", check_pred, (1, tag, P, rng.randrange(1, O.BLS_P))))
        for tag, P in _g2_inputs(rng, tier):
            ps.append(Pred("subgroup-exact", check_pred, (2, tag, P, (rng.randrange(1, O.BLS_P), rng.randrange(O.BLS_P)))))
    if only:
        ps = [p for p in ps if p.name == only]
    return ps


def search(rng, tier, broken, disagreements):
    return predicates(rng, "thorough")
