"""C17 — subgroup membership test is exact and cofactor clearing lands in the subgroup"""
import oracle as O
from common import Case, Pred
from props.util import from_lib_p3, lib_g1, lib_g2, nontrivial_default, pt_eq, tok_g1, tok_g2

RULE = ("correspondence: subgroup_check / clear_cofactor_G1/G2 of the model vs the real functions on kG, kG+T (T in the cofactor "
        "torsion: full-cofactor component r*R and its components of small prime order 3, 11, 13, 23, ...), random curve points, "
        "infinity, random projective scalings; predicates: subgroup_check == (r*P == inf by the independent oracle), "
        "clear_cofactor == h_eff*P lands in the subgroup, cofactor constants re-derived from the curve parameter x")
HYPOTHESES = ["HB2_card_blsE1 / HB2_card_blsE2 (group orders h1*r, h2*r; Hasse bound not in Mathlib) for 'every curve point is mapped into the subgroup'"]
NOT_YET_PROVED = ["cofactor clearing maps EVERY curve point into the r-torsion: needs #E = h*r (HB2); sampled"]
ASSUMPTIONS = []
nontrivial = nontrivial_default

H1_FACTORS = [3, 11, 11, 10177, 10177, 859267, 859267, 52437899, 52437899]   # h1 = 3 * 11^2 * 10177^2 * 859267^2 * 52437899^2
H2_SMALL = [13, 13, 23, 23, 2713, 11953, 262069]


def _h1_ok():
    n = 1
    for f in H1_FACTORS:
        n *= f
    return n == O.H1


def small_order_g1(rng, q):
    """a point of E(Fp) of exact order q (q a prime factor of h1), or None if the sampled point has no q-part"""
    for _ in range(8):
        R = O.rand_curve_point_g1(rng)
        T = O.aff_mul(R, O.BLS_R * O.H1 // (q ** (2 if q != 3 else 1)))
        while T is not None and O.aff_mul(T, q) is not None:
            T = O.aff_mul(T, q)
        if T is not None:
            return T
    return None


def small_order_g2(rng, q):
    for _ in range(4):
        R = O.rand_curve_point_g2(rng)
        e = 0
        h = O.H2
        while h % q == 0:
            h //= q
            e += 1
        T = O.aff_mul(R, O.BLS_R * h)
        while T is not None and O.aff_mul(T, q) is not None:
            T = O.aff_mul(T, q)
        if T is not None:
            return T
    return None


def _g1_inputs(rng, tier):
    k = rng.randrange(1, O.BLS_R)
    pts = [("inf", None), ("G", O.g1(1)), ("kG", O.g1(k)), ("(r-1)G", O.g1(O.BLS_R - 1))]
    T = O.torsion_g1(rng)
    pts += [("T", T), ("kG+T", O.aff_add(O.g1(k), T)), ("rand", O.rand_curve_point_g1(rng))]
    for q in ([3, 11] if tier == "quick" else [3, 11, 10177, 859267, 52437899]):
        S = small_order_g1(rng, q)
        if S is not None:
            pts += [(f"ord{q}", S), (f"kG+ord{q}", O.aff_add(O.g1(k), S))]
    return pts


def _g2_inputs(rng, tier):
    k = rng.randrange(1, O.BLS_R)
    pts = [("inf", None), ("G", O.g2(1)), ("kG", O.g2(k))]
    T = O.torsion_g2(rng)
    pts += [("T", T), ("kG+T", O.aff_add(O.g2(k), T)), ("rand", O.rand_curve_point_g2(rng))]
    for q in ([13] if tier == "quick" else [13, 23, 2713]):
        S = small_order_g2(rng, q)
        if S is not None:
            pts += [(f"ord{q}", S), (f"kG+ord{q}", O.aff_add(O.g2(k), S))]
    return pts


def cases(rng, tier):
    cs = []
    reps = 2 if tier == "quick" else 6
    for _ in range(reps):
        for tag, P in _g1_inputs(rng, tier):
            sc = rng.randrange(1, O.BLS_P)
            cs.append(Case("codec.subgroup_check_g1", tok_g1(P, sc), tags=(tag,)))
            cs.append(Case("h2c.clear_g1", tok_g1(P, sc), tags=(tag,)))
        for tag, P in _g2_inputs(rng, tier):
            sc = (rng.randrange(1, O.BLS_P), rng.randrange(O.BLS_P))
            cs.append(Case("codec.subgroup_check_g2", tok_g2(P, sc), tags=(tag,)))
            cs.append(Case("h2c.clear_g2", tok_g2(P, sc), tags=(tag,)))
    return cs


def check_pred(grp, tag, P, sc):
    from py_ecc.bls import g2_primitives as GP
    from py_ecc.bls.hash_to_curve import clear_cofactor_G1, clear_cofactor_G2
    lp = lib_g1(P, sc) if grp == 1 else lib_g2(P, sc)
    got = GP.subgroup_check(lp)
    want = O.aff_mul(P, O.BLS_R) is None
    bad = []
    if got != want:
        bad.append(f"subgroup_check={got}, oracle r*P==inf is {want}")
    if tag.startswith("kG+") or tag in ("T", ) or tag.startswith("ord"):
        if got:
            bad.append("accepted a point with a non-trivial cofactor component")
    if tag in ("inf", "G", "kG", "(r-1)G") and not got:
        bad.append("rejected a multiple of the generator")
    cl = clear_cofactor_G1(lp) if grp == 1 else clear_cofactor_G2(lp)
    heff = (1 - O.BLS_X) if grp == 1 else O.H2 * (3 * O.BLS_X ** 2 - 3)
    if not pt_eq(from_lib_p3(cl), O.aff_mul(P, heff)):
        bad.append("clear_cofactor != h_eff * P")
    if not GP.subgroup_check(cl) or O.aff_mul(from_lib_p3(cl), O.BLS_R) is not None:
        bad.append("cleared point not in the subgroup")
    return (not bad, f"G{grp} {tag}: {bad} at P={P}")


def constants_pred():
    from py_ecc.bls import constants as BC
    from py_ecc.optimized_bls12_381 import constants as OC
    x = O.BLS_X
    bad = []
    if not _h1_ok():
        bad.append("oracle factorisation of h1")
    if OC.H_EFF_G1 != 1 - x:
        bad.append("H_EFF_G1")
    if BC.G2_COFACTOR != O.H2:
        bad.append("G2_COFACTOR")
    if OC.H_EFF_G2 != O.H2 * (3 * x * x - 3):
        bad.append("H_EFF_G2")
    if O.BLS_R != x ** 4 - x * x + 1 or O.BLS_P != (x - 1) ** 2 * O.BLS_R // 3 + x or O.H1 * O.BLS_R != O.BLS_P + 1 - (x + 1):
        bad.append("r/p/h1 from x")
    return (not bad, f"cofactor constants differ from the values derived from x: {bad}")


def predicates(rng, tier, only=None):
    ps = [Pred("cofactor-constants", constants_pred, ())]
    for _ in range(1 if tier == "quick" else 5):
        for tag, P in _g1_inputs(rng, tier):
            ps.append(Pred("subgroup-exact", check_pred, (1, tag, P, rng.randrange(1, O.BLS_P))))
        for tag, P in _g2_inputs(rng, tier):
            ps.append(Pred("subgroup-exact", check_pred, (2, tag, P, (rng.randrange(1, O.BLS_P), rng.randrange(O.BLS_P)))))
    if only:
        ps = [p for p in ps if p.name == only]
    return ps


def search(rng, tier, broken, disagreements):
    return predicates(rng, "thorough")
