"""C20 — public functions are pure: no mutation of inputs/constants, history-independent"""
import copy
import json
import os
import subprocess
import sys

import oracle as O
from common import VERIF, Case, Pred, tb, tbl, tl
from props.util import nontrivial_default

sys.path.insert(0, os.path.join(VERIF, "tools", "translate"))

RULE = ("history correspondence: random interleavings over the whole public API (field ops on both curves' classes and ad-hoc small-field "
        "subclasses, curve ops of the four modules, pairings, hashing, (de)compression, BLS, ECDSA), each history executed in one interpreter in "
        "two different orders and compared call by call with the provably history-free model; predicates: every call repeated after the "
        "interleaving returns an equal result, deep value snapshots of all arguments and of every module constant before/after, same history in a "
        "freshly started interpreter; theorem all_clean over the regenerated effect summary of all functions")
HYPOTHESES = ["Sem.frame / Sem.det: the heap semantics respects the syntactic effect summaries (trusted analysis tools/translate/effects.py, cross-examined by the history runs)"]
NOT_YET_PROVED = []
ASSUMPTIONS = ["cached_property sgn0 and the lazy-import cache of py_ecc/__init__ are sanctioned memo slots (value snapshots use integer coefficients, not __dict__)"]
nontrivial = nontrivial_default
CHUNK = 48
HIST = 16     # distinct calls per history; each history = order A (16) + order B (16) + order A again (16) = CHUNK


def _pool(rng, tier):
    """cheap calls from all API groups, taken from the other properties' generators"""
    import importlib
    pool = []
    for mod, keep in (("c08", 260), ("c13", 160), ("c07", 120), ("c11", 80), ("c17", 30), ("c18", 80), ("c19", 50), ("c06", 30),
                      ("c16", 40), ("c10", 30), ("c14", 120)):
        m = importlib.import_module("props." + mod)
        cs = [c for c in m.cases(rng, "quick") if c.impl_out is None]
        # keep cheap ones only
        cs = [c for c in cs if not (c.op.startswith("curve.") and ("e:" in c.args[0] and c.args[0].count(",") > 5 and c.op.endswith("multiply")))]
        cs = [c for c in cs if not c.op.startswith("pairing.")]
        rng.shuffle(cs)
        # prefer groups of calls to the same function (near-duplicate arguments expose coarse cache keys)
        cs.sort(key=lambda c: c.op)
        start = rng.randrange(max(1, len(cs) - keep)) if len(cs) > keep else 0
        pool += cs[start:start + keep]
    return pool


def _bls_calls(rng):
    from py_ecc.bls import G2Basic, G2ProofOfPossession
    sk1, sk2 = rng.randrange(1, O.BLS_R), rng.randrange(1, O.BLS_R)
    m1, m2 = b"history-1", b"history-2"
    s1, s2 = G2Basic.Sign(sk1, m1), G2Basic.Sign(sk2, m2)
    pk1, pk2 = G2Basic.SkToPk(sk1), G2Basic.SkToPk(sk2)
    return [Case("bls.SkToPk", [sk1]), Case("bls.Sign", ["basic", sk1, tb(m1)]), Case("bls.Verify", ["basic", tb(pk1), tb(m1), tb(s1)]),
            Case("bls.Verify", ["basic", tb(pk1), tb(m2), tb(s1)]), Case("bls.Verify", ["basic", tb(pk2), tb(m1), tb(s1)]),
            Case("bls.Aggregate", [tbl([s1, s2])]), Case("bls.AggregateVerify", ["basic", tbl([pk1, pk2]), tbl([m1, m2]), tb(G2Basic.Aggregate([s1, s2]))]),
            Case("bls.KeyValidate", [tb(pk1)]), Case("bls.Sign", ["pop", sk1, tb(m1)]), Case("bls.Sign", ["aug", sk1, tb(m1)]),
            Case("bls.PopProve", [sk2]), Case("bls.PopVerify", [tb(pk2), tb(G2ProofOfPossession.PopProve(sk2))])]


def histories(rng, tier):
    pool = _pool(rng, tier)
    bls = _bls_calls(rng)
    n = 10 if tier == "quick" else 60
    out = []
    for i in range(n):
        # runs of consecutive pool entries (same function, different arguments) + some BLS/pairing calls
        h = []
        while len(h) < HIST - 2:
            j = rng.randrange(len(pool))
            h += pool[j:j + rng.choice([1, 2, 3])]
        h = h[:HIST - 2] + rng.sample(bls, 2)
        out.append(h)
    return out


def cases(rng, tier):
    cs = []
    for h in histories(rng, tier):
        a = list(h)
        b = list(h)
        rng.shuffle(b)
        cs += a + b + a
    return cs


# ------------------------------------------------------------------ predicates
def _snap():
    import dump_consts
    return json.dumps(dump_consts.dump(), sort_keys=True)


def generic_snapshot():
    """deep VALUE snapshot of every module-level int / bytes / str / list / tuple / dict / set (and field element) of every loaded
    py_ecc module — whatever its name (catches tables the curated constant dump does not list, e.g. `__all__`)"""
    import importlib
    import pkgutil
    import py_ecc
    out = {}
    names = ["py_ecc"] + [m.name for m in pkgutil.walk_packages(py_ecc.__path__, "py_ecc.")]
    for nm in sorted(names):
        try:
            mod = importlib.import_module(nm)
        except Exception:  # noqa: BLE001
            continue
        for k, v in sorted(vars(mod).items()):
            if k.startswith("__") and k not in ("__all__",):
                continue
            if isinstance(v, (int, bytes, str, list, tuple, dict, set, frozenset)) or hasattr(v, "coeffs") or (hasattr(v, "n") and hasattr(v, "field_modulus")):
                try:
                    out[nm + "." + k] = repr(_val(v if not isinstance(v, (dict, set, frozenset)) else sorted(map(repr, v)) if not isinstance(v, dict) else sorted((repr(a), repr(_val(b))) for a, b in v.items())))
                except Exception:  # noqa: BLE001
                    out[nm + "." + k] = "<unrepresentable>"
    return out


def introspection_pred():
    """dir() / __dir__ / __all__ / repr / hash / copy on the package, its modules and its values must not change any module-level value"""
    import copy as _copy
    import py_ecc
    from py_ecc import optimized_bls12_381 as OB
    before = generic_snapshot()
    for _ in range(2):
        dir(py_ecc)
        py_ecc.__dir__()
        list(getattr(py_ecc, "__all__", []))
        for m in (py_ecc.bls, py_ecc.secp256k1, py_ecc.bn128, py_ecc.optimized_bls12_381):
            dir(m)
        repr(OB.G1), repr(OB.G2), _copy.deepcopy(OB.G2), _copy.copy(OB.G12)
        str(OB.b2), OB.G2[0].sgn0, OB.G1[0].sgn0
    after = generic_snapshot()
    bad = sorted(k for k in before if after.get(k) != before[k]) + sorted(k for k in after if k not in before)
    return (not bad, f"module-level values changed by introspection (dir / repr / copy): {bad[:5]}")


def history_pred(lines, seed):
    """one interpreter: order A, order B, order A again; equal answers per call; constants unchanged"""
    import random
    import pyexec
    rng = random.Random(seed)
    before = _snap()
    gbefore = generic_snapshot()
    calls = [ln.split("\t") for ln in lines]
    run = lambda c: pyexec.run_op(c[0], c[1:], {})  # noqa: E731
    a1 = {i: run(c) for i, c in enumerate(calls)}
    order = list(range(len(calls)))
    rng.shuffle(order)
    b = {i: run(calls[i]) for i in order}
    a2 = {i: run(c) for i, c in enumerate(calls)}
    after = _snap()
    bad = []
    for i in range(len(calls)):
        if not (a1[i] == b[i] == a2[i]):
            bad.append(f"call {i} ({calls[i][0]}) answered {a1[i][:60]!r} / {b[i][:60]!r} / {a2[i][:60]!r} in different histories")
    if before != after:
        bad.append("a module-level constant changed during the history")
    gafter = generic_snapshot()
    ch = sorted(k for k in gbefore if gafter.get(k) != gbefore[k])
    if ch:
        bad.append(f"module-level values changed during the history: {ch[:4]}")
    return (not bad, f"history dependence: {bad[:3]} | history: {[c[0] for c in calls]}")


def fresh_pred(lines):
    """the same calls in a freshly started interpreter"""
    import pyexec
    calls = [ln.split("\t") for ln in lines]
    here = [pyexec.run_op(c[0], c[1:], {}) for c in calls]
    prog = ("import sys, json; sys.path.insert(0, %r); sys.path.insert(0, %r); import pyexec; "
            "calls = json.load(sys.stdin); print(json.dumps([pyexec.run_op(c[0], c[1:], {}) for c in calls]))"
            % (os.path.join(VERIF, "tools", "harness"), os.environ.get("VERIF_REPO", "/repo")))
    r = subprocess.run([sys.executable, "-c", prog], input=json.dumps(calls), capture_output=True, text=True, timeout=1200)
    if r.returncode != 0:
        return (False, "fresh interpreter failed: " + r.stderr[-300:])
    there = json.loads(r.stdout)
    bad = [f"call {i} ({calls[i][0]}): {here[i][:50]!r} here vs {there[i][:50]!r} in a fresh interpreter" for i in range(len(calls)) if here[i] != there[i]]
    return (not bad, f"process-lifetime dependence: {bad[:3]}")


def hash_function_history_pred(order):
    """hash_to_G2 / expand_message_xmd with the same (message, tag) and DIFFERENT hash functions, in the given order, in a fresh
    interpreter each time: every answer must equal the answer of a single fresh call"""
    prog = ("import sys, json, hashlib; sys.path.insert(0, %r); sys.path.insert(0, %r); import pyexec\n"
            "from py_ecc.bls.hash_to_curve import hash_to_G2\nfrom py_ecc.bls.hash import expand_message_xmd\n"
            "out = {}\n"
            "for h in json.load(sys.stdin):\n"
            "    f = getattr(hashlib, h)\n"
            "    out[h] = [pyexec.show_p3(hash_to_G2(b'msg', b'tag', f)), expand_message_xmd(b'msg', b'tag', 96, f).hex()]\n"
            "print(json.dumps(out))\n" % (os.path.join(VERIF, "tools", "harness"), os.environ.get("VERIF_REPO", "/repo")))

    def run(hs):
        r = subprocess.run([sys.executable, "-c", prog], input=json.dumps(hs), capture_output=True, text=True, timeout=1200)
        return json.loads(r.stdout) if r.returncode == 0 else {"error": r.stderr[-300:]}
    together = run(list(order))
    bad = []
    for h in order:
        alone = run([h])
        if together.get(h) != alone.get(h):
            bad.append(f"{h} differs when called after {list(order)[:list(order).index(h)]}")
    return (not bad, f"hash-function history {order}: {bad}")


def subclass_history_pred(parent_first):
    """an ad-hoc small-field class DERIVED from a library field class: results must not depend on whether the parent class
    was used before (two fresh interpreters)"""
    prog = ("import sys, json; sys.path.insert(0, %r); sys.path.insert(0, %r)\n"
            "from py_ecc.fields import bn128_FQ2, optimized_bn128_FQ2, bls12_381_FQ12\n"
            "first = json.load(sys.stdin)\n"
            "if first: bn128_FQ2([3, 4]) * bn128_FQ2([5, 6]); optimized_bn128_FQ2([3, 4]) * optimized_bn128_FQ2([5, 6]); bls12_381_FQ12([1] * 12) * bls12_381_FQ12([2] * 12)\n"
            "class A(bn128_FQ2): field_modulus = 19\n"
            "class B(optimized_bn128_FQ2): field_modulus = 19\n"
            "class C(bls12_381_FQ12): field_modulus = 7\n"
            "r = []\n"
            "for K, d in ((A, 2), (B, 2), (C, 12)):\n"
            "    x, y = K(list(range(3, 3 + d))), K(list(range(5, 5 + d)))\n"
            "    r.append([[int(c) for c in (x * y).coeffs], [int(c) for c in (x + y).coeffs], [int(c) for c in (x / y).coeffs]])\n"
            "print(json.dumps(r))\n" % (os.path.join(VERIF, "tools", "harness"), os.environ.get("VERIF_REPO", "/repo")))

    def run(first):
        r = subprocess.run([sys.executable, "-c", prog], input=json.dumps(first), capture_output=True, text=True, timeout=600)
        return r.stdout.strip() if r.returncode == 0 else "error: " + r.stderr[-300:]
    a, b = run(True), run(False)
    ok = a == b and not a.startswith("error")
    # all coefficients must be reduced modulo the SUBCLASS modulus
    if ok:
        vals = json.loads(a)
        mods = (19, 19, 7)
        ok = all(0 <= c < m for trip, m in zip(vals, mods) for lst in trip for c in lst)
    return (ok, f"ad-hoc field subclass derived from a library class: with parent used first -> {a[:80]}, without -> {b[:80]}")


def _val(x):
    """deep VALUE of an argument (integer coefficients, not __dict__)"""
    if hasattr(x, "coeffs"):
        return ("FQP", type(x).__name__, tuple(int(c) for c in x.coeffs))
    if hasattr(x, "n") and hasattr(x, "field_modulus"):
        return ("FQ", type(x).__name__, int(x.n))
    if isinstance(x, (list, tuple)):
        return (type(x).__name__, tuple(_val(y) for y in x))
    if isinstance(x, (bytes, bytearray)):
        return (type(x).__name__, bytes(x))
    return x


def args_pred(name, thunk):
    """call a public function with mutable arguments; the arguments' values must be unchanged afterwards and a second call
    with the same (still identical) objects must return an equal result"""
    f, args = thunk()
    before = [_val(a) for a in args]
    try:
        r1 = _val(f(*args))
    except Exception as e:  # noqa: BLE001
        r1 = ("raised", type(e).__name__)
    mid = [_val(a) for a in args]
    try:
        r2 = _val(f(*args))
    except Exception as e:  # noqa: BLE001
        r2 = ("raised", type(e).__name__)
    bad = []
    if before != mid:
        bad.append("an argument was mutated")
    if r1 != r2:
        bad.append("second call with the same arguments returned a different result")
    return (not bad, f"{name}: {bad}")


def _arg_thunks(rng):
    """(name, thunk) — thunks build fresh mutable arguments (lists) for public functions"""
    from py_ecc import fields as Fm
    from py_ecc.bls import G2Basic, G2ProofOfPossession
    from py_ecc.bls import hash as Hm, hash_to_curve as H2C, point_compression as PC
    from py_ecc import optimized_bls12_381 as OB, bls12_381 as RB, optimized_bn128 as ON, bn128 as RN
    import hashlib
    out = []
    p = O.BLS_P
    for cname in ("bls12_381_FQ2", "optimized_bls12_381_FQ2", "bn128_FQ12", "optimized_bn128_FQ12", "bls12_381_FQ12", "optimized_bls12_381_FQ12"):
        C = getattr(Fm, cname)
        d = 2 if cname.endswith("FQ2") else 12
        coeffs = [rng.randrange(C.field_modulus) for _ in range(d)]
        out.append((cname + "(list)", lambda C=C, coeffs=coeffs: (C, [list(coeffs)])))
        q = C.field_modulus
        unred = [[-1, q, q + 5, 2 * q, -q, 0, 1, q - 1, -7, 3 * q + 2, q * q, -q * q + 1][i % 12] for i in range(d)]
        out.append((cname + "(list of unreduced ints)", lambda C=C, unred=unred: (C, [list(unred)])))
        x, y = C(list(coeffs)), C([rng.randrange(C.field_modulus) for _ in range(d)])
        for opn, fn in (("mul", lambda a, b: a * b), ("div", lambda a, b: a / b), ("add", lambda a, b: a + b), ("pow", lambda a, b: a ** 5),
                        ("inv", lambda a, b: a.inv()), ("neg", lambda a, b: -a), ("eq", lambda a, b: a == b)):
            out.append((f"{cname}.{opn}", lambda fn=fn, x=x, y=y: (fn, [x, y])))
    sks = [rng.randrange(1, O.BLS_R) for _ in range(3)]
    msgs = [b"m0", b"m1", b"m2"]
    sigs = [G2Basic.Sign(k, m) for k, m in zip(sks, msgs)]
    pks = [G2Basic.SkToPk(k) for k in sks]
    agg = G2Basic.Aggregate(sigs)
    out.append(("Aggregate(list)", lambda: (G2Basic.Aggregate, [list(sigs)])))
    from py_ecc.bls import G2MessageAugmentation
    for C in (G2MessageAugmentation, G2ProofOfPossession):
        csigs = [C.Sign(k, m) for k, m in zip(sks, msgs)]
        cagg = C.Aggregate(csigs)
        out.append((C.__name__ + ".AggregateVerify(lists)", lambda C=C, cagg=cagg: (C.AggregateVerify, [list(pks), list(msgs), cagg])))
        out.append((C.__name__ + ".Aggregate(list)", lambda C=C, csigs=csigs: (C.Aggregate, [list(csigs)])))
        out.append((C.__name__ + ".Verify", lambda C=C, csigs=csigs: (C.Verify, [pks[0], bytearray(msgs[0]), csigs[0]])))
    out.append(("AggregateVerify(lists)", lambda: (G2Basic.AggregateVerify, [list(pks), list(msgs), agg])))
    out.append(("AggregateVerify(unsorted lists)", lambda: (G2Basic.AggregateVerify, [list(reversed(pks)), list(reversed(msgs)), agg])))
    popagg = G2ProofOfPossession.Aggregate([G2ProofOfPossession.Sign(k, b"m") for k in sks])
    out.append(("FastAggregateVerify(list)", lambda: (G2ProofOfPossession.FastAggregateVerify, [list(reversed(pks)), b"m", popagg])))
    out.append(("_AggregatePKs(list)", lambda: (G2ProofOfPossession._AggregatePKs, [list(pks)])))
    for C in (G2Basic, G2ProofOfPossession):
        out.append((C.__name__ + ".KeyGen(bytearray, bytearray)", lambda C=C: (C.KeyGen, [bytearray(b"\x11" * 32), bytearray(b"info")])))
        out.append((C.__name__ + ".KeyGen(bytearray)", lambda C=C: (C.KeyGen, [bytearray(range(40))])))
        out.append((C.__name__ + ".Sign(bytearray msg)", lambda C=C: (C.Sign, [sks[0], bytearray(b"message")])))
    out.append(("hkdf_extract(bytearrays)", lambda: (Hm.hkdf_extract, [bytearray(b"salt"), bytearray(b"ikm")])))
    out.append(("hkdf_expand(bytearrays)", lambda: (Hm.hkdf_expand, [bytearray(b"\x01" * 32), bytearray(b"info"), 80])))
    out.append(("expand_message_xmd(bytearray)", lambda: (lambda m, d: Hm.expand_message_xmd(bytes(m), bytes(d), 96, hashlib.sha256), [bytearray(b"abc"), bytearray(b"dst")])))
    for M, nm in ((OB, "optimized_bls12_381"), (ON, "optimized_bn128")):
        pt = M.multiply(M.G1, 7)
        qt = M.multiply(M.G2, 5)
        out.append((nm + ".add", lambda M=M, pt=pt: (M.add, [pt, M.G1])))
        out.append((nm + ".multiply", lambda M=M, qt=qt: (M.multiply, [qt, 12345])))
        out.append((nm + ".pairing", lambda M=M, pt=pt, qt=qt: (M.pairing, [qt, pt])))
        out.append((nm + ".twist", lambda M=M, qt=qt: (M.twist, [qt])))
    for M, nm in ((RB, "bls12_381"), (RN, "bn128")):
        pt = M.multiply(M.G1, 7)
        out.append((nm + ".add", lambda M=M, pt=pt: (M.add, [pt, M.G1])))
        out.append((nm + ".twist", lambda M=M: (M.twist, [M.G2])))
    out.append(("compress_G2", lambda: (PC.compress_G2, [OB.multiply(OB.G2, 9)])))
    out.append(("hash_to_G2", lambda: (H2C.hash_to_G2, [b"msg", b"dst", hashlib.sha256])))
    from py_ecc.secp256k1 import secp256k1 as S
    out.append(("secp.multiply", lambda: (S.multiply, [S.G, 99])))
    out.append(("ecdsa_raw_recover", lambda: (S.ecdsa_raw_recover, [b"\x01" * 32, S.ecdsa_raw_sign(b"\x01" * 32, b"\x02" * 32)])))
    return out


def augmented_assignment_pred(seed):
    """`b = a; b op= c` must leave `a` (and module constants reached that way) unchanged: field elements are values, so the
    augmented operators may not update in place. Exercised for every field class, both packages, and for generator coordinates."""
    import operator
    import random
    import importlib
    r = random.Random(seed)
    bad = []
    ops = [("+=", operator.iadd), ("-=", operator.isub), ("*=", operator.imul), ("/=", operator.itruediv), ("**=", operator.ipow)]
    for modname in ("py_ecc.bls12_381", "py_ecc.bn128", "py_ecc.optimized_bls12_381", "py_ecc.optimized_bn128"):
        M = importlib.import_module(modname)
        for cname in ("FQ", "FQ2", "FQ12"):
            C = getattr(M, cname)
            deg = {"FQ": 0, "FQ2": 2, "FQ12": 12}[cname]
            mk = (lambda: C(r.randrange(2, 1 << 60))) if deg == 0 else (lambda: C([r.randrange(2, 1 << 60) for _ in range(deg)]))
            for sym, op in ops:
                a = mk()
                before = repr(a), (int(a.n) if deg == 0 else tuple(int(c) for c in a.coeffs))
                alias = a
                rhs = 3 if sym == "**=" else (mk() if (r.random() < 0.5 or (deg and sym in ("+=", "-="))) else 5)
                res = op(alias, rhs)
                after = repr(a), (int(a.n) if deg == 0 else tuple(int(c) for c in a.coeffs))
                if after != before:
                    bad.append(f"{modname}.{cname}: `b = a; b {sym} {type(rhs).__name__}` changed a")
                if res is a:
                    bad.append(f"{modname}.{cname}: `{sym}` returned its left operand (in-place update)")
        # a coordinate of a module constant used as an accumulator
        G1 = M.G1
        x0 = G1[0]
        snap = repr(G1)
        t = x0
        t += 1
        t *= 2
        if repr(M.G1) != snap:
            bad.append(f"{modname}: `t = G1[0]; t += 1` changed the generator constant")
    return (not bad, f"augmented assignment on an aliased field element: {bad[:4]}")


def predicates(rng, tier, only=None):
    ps = []
    hs = histories(rng, tier)
    for h in hs[: (6 if tier == "quick" else 40)]:
        ps.append(Pred("history-independence", history_pred, ([c.key() for c in h], rng.randrange(1 << 30))))
    for h in hs[: (2 if tier == "quick" else 10)]:
        ps.append(Pred("fresh-interpreter", fresh_pred, ([c.key() for c in h],)))
    ps.append(Pred("fresh-interpreter", hash_function_history_pred, (("sha256", "sha512", "sha3_256"),)))
    ps.append(Pred("fresh-interpreter", hash_function_history_pred, (("sha512", "sha384", "blake2b", "sha256"),)))
    ps.append(Pred("fresh-interpreter", subclass_history_pred, (True,)))
    ps.append(Pred("constants-unchanged", introspection_pred, ()))
    ps.append(Pred("arguments-unchanged", augmented_assignment_pred, (rng.randrange(1 << 30),)))
    for name, th in _arg_thunks(rng):
        ps.append(Pred("arguments-unchanged", args_pred, (name, th)))
    if only:
        ps = [p for p in ps if p.name == only]
    return ps


def search(rng, tier, broken, disagreements):
    return predicates(rng, "thorough")
