"""
oracle — independent textbook implementations (pure Python ints, nothing imported from py_ecc) used
by the statement-level predicates and the failing-input search: prime fields, Fp2 = Fp[i]/(i^2+1),
affine short-Weierstrass group law, ZCash G1/G2 encoding, RFC 9380 / RFC 5869 / RFC 6979 byte
procedures, RFC 9380 simplified SWU (straight-line, affine).
"""
import hashlib
import hmac as _hmac

BLS_P = 0x1a0111ea397fe69a4b1ba7b6434bacd764774b84f38512bf6730d2a0f6b0f6241eabfffeb153ffffb9feffffffffaaab
BLS_R = 0x73eda753299d7d483339d80809a1d80553bda402fffe5bfeffffffff00000001
BN_P = 21888242871839275222246405745257275088696311157297823662689037894645226208583
BN_R = 21888242871839275222246405745257275088548364400416034343698204186575808495617
SECP_P = 2**256 - 2**32 - 977
SECP_N = 0xFFFFFFFFFFFFFFFFFFFFFFFFFFFFFFFEBAAEDCE6AF48A03BBFD25E8CD0364141
SECP_G = (0x79BE667EF9DCBBAC55A06295CE870B07029BFCDB2DCE28D959F2815B16F81798,
          0x483ADA7726A3C4655DA4FBFC0E1108A8FD17B448A68554199C47D08FFB10D4B8)
BLS_X = -0xd201000000010000
# EIP-197 generator of the alt_bn128 twist subgroup: x = x0 + x1 i, y = y0 + y1 i
BN_G2 = ((10857046999023057135944570762232829481370756359578518086990519993285655852781,
          11559732032986387107991004021392285783925812861821192530917403151452391805634),
         (8495653923123431417604973247489272438418190587263600148770280649306958101930,
          4082367875863433681332203403145435568316851327593401208105741076214120093531))

BLS_G1 = (0x17f1d3a73197d7942695638c4fa9ac0fc3688c4f9774b905a14e3a3f171bac586c55e83ff97a1aeffb3af00adb22c6bb,
          0x08b3f481e3aaa0f1a09e30ed741d8ae4fcf5e095d5d00af600db18cb2c04b3edd03cc744a2888ae40caa232946c5e7e1)
BLS_G2 = ((0x024aa2b2f08f0a91260805272dc51051c6e47ad4fa403b02b4510b647ae3d1770bac0326a805bbefd48056c8c121bdb8,
           0x13e02b6052719f607dacd3a088274f65596bd0d09920b61ab5da61bbdc7f5049334cf11213945d57e5ac7d055d042b7e),
          (0x0ce5d527727d6e118cc9cdc6da2e351aadfd9baa8cbdd3a76d429a695160d12c923ac9cc3baca289e193548608b82801,
           0x0606c4a02ea734cc32acd2b02bc28b99cb3e287e85a763af267492ab572e99ab3f370d275cec1da1aaa9075ff05f79be))


class Fp:
    """element of GF(p); p is per-instance so the same code serves every prime"""
    __slots__ = ("v", "p")

    def __init__(self, v, p):
        self.v = v % p
        self.p = p

    def _c(self, o):
        return o if isinstance(o, Fp) else Fp(o, self.p)

    def __add__(self, o): return Fp(self.v + self._c(o).v, self.p)
    def __sub__(self, o): return Fp(self.v - self._c(o).v, self.p)
    def __mul__(self, o): return Fp(self.v * self._c(o).v, self.p)
    def __neg__(self): return Fp(-self.v, self.p)
    def __eq__(self, o): return self.v == self._c(o).v
    def __hash__(self): return hash((self.v, self.p))
    def inv(self): return Fp(pow(self.v, -1, self.p) if self.v else 0, self.p)
    def __truediv__(self, o): return self * self._c(o).inv()
    def is_zero(self): return self.v == 0
    def like(self, k): return Fp(k, self.p)
    def coeffs(self): return [self.v]

    def sqrt(self):
        """a square root or None (p = 3 mod 4)"""
        assert self.p % 4 == 3
        r = pow(self.v, (self.p + 1) // 4, self.p)
        return Fp(r, self.p) if r * r % self.p == self.v else None

    def sgn0(self): return self.v % 2
    def pow(self, e): return Fp(pow(self.v, e, self.p), self.p)
    def __repr__(self): return f"Fp({self.v})"


class Fp2:
    """a + b i with i^2 = -1 over GF(p), p = 3 mod 4"""
    __slots__ = ("a", "b", "p")

    def __init__(self, a, b, p):
        self.a, self.b, self.p = a % p, b % p, p

    def _c(self, o):
        return o if isinstance(o, Fp2) else Fp2(o, 0, self.p)

    def __add__(self, o): o = self._c(o); return Fp2(self.a + o.a, self.b + o.b, self.p)
    def __sub__(self, o): o = self._c(o); return Fp2(self.a - o.a, self.b - o.b, self.p)
    def __mul__(self, o):
        o = self._c(o)
        return Fp2(self.a * o.a - self.b * o.b, self.a * o.b + self.b * o.a, self.p)
    def __neg__(self): return Fp2(-self.a, -self.b, self.p)
    def __eq__(self, o): o = self._c(o); return self.a == o.a and self.b == o.b
    def __hash__(self): return hash((self.a, self.b, self.p))
    def is_zero(self): return self.a == 0 and self.b == 0
    def like(self, k): return Fp2(k, 0, self.p)
    def coeffs(self): return [self.a, self.b]

    def inv(self):
        n = (self.a * self.a + self.b * self.b) % self.p
        if n == 0:
            return Fp2(0, 0, self.p)
        ni = pow(n, -1, self.p)
        return Fp2(self.a * ni, -self.b * ni, self.p)

    def __truediv__(self, o): return self * self._c(o).inv()

    def pow(self, e):
        r, t = Fp2(1, 0, self.p), self
        while e > 0:
            if e & 1:
                r = r * t
            t = t * t
            e >>= 1
        return r

    def sqrt(self):
        """some square root or None (norm method, p = 3 mod 4)"""
        p = self.p
        if self.is_zero():
            return Fp2(0, 0, p)
        if self.b == 0:
            r = pow(self.a, (p + 1) // 4, p)
            if r * r % p == self.a:
                return Fp2(r, 0, p)
            # a is a non-residue: sqrt is purely imaginary, (r i)^2 = -r^2 = a
            r = pow((-self.a) % p, (p + 1) // 4, p)
            return Fp2(0, r, p) if (-r * r) % p == self.a else None
        n = (self.a * self.a + self.b * self.b) % p
        s = pow(n, (p + 1) // 4, p)
        if s * s % p != n:
            return None
        inv2 = pow(2, -1, p)
        for sg in (s, -s):
            t = (self.a + sg) * inv2 % p
            x = pow(t, (p + 1) // 4, p)
            if x * x % p == t and x != 0:
                y = self.b * pow(2 * x, -1, p) % p
                c = Fp2(x, y, p)
                if c * c == self:
                    return c
        return None

    def sgn0(self):
        s0, z0 = self.a % 2, self.a == 0
        return s0 or (z0 and self.b % 2)

    def __repr__(self): return f"Fp2({self.a},{self.b})"


# ------------------------------------------------------------------ affine group law (None = infinity)
def aff_add(P, Q, a=0):
    """textbook chord-and-tangent on y^2 = x^3 + a x + b; works for any field-like objects with
    + - * / == and .is_zero() / .like(int) (own Fp/Fp2, or py_ecc field objects via `wrap`)"""
    if P is None:
        return Q
    if Q is None:
        return P
    x1, y1 = P
    x2, y2 = Q
    if x1 == x2:
        if y1 == y2 and not _is_zero(y1):
            m = (x1 * x1 * 3 + a) / (y1 * 2)
        else:
            return None
    else:
        m = (y2 - y1) / (x2 - x1)
    x3 = m * m - x1 - x2
    return (x3, m * (x1 - x3) - y1)


def _is_zero(x):
    if hasattr(x, "is_zero"):
        return x.is_zero()
    return x == type(x).zero()


def aff_neg(P):
    return None if P is None else (P[0], -P[1])


def aff_mul(P, n, a=0):
    if n < 0:
        return aff_mul(aff_neg(P), -n, a)
    R = None
    T = P
    while n > 0:
        if n & 1:
            R = aff_add(R, T, a)
        T = aff_add(T, T, a)
        n >>= 1
    return R


def on_curve(P, b, a=0):
    if P is None:
        return True
    x, y = P
    return y * y == x * x * x + x * a + b


def g1(k):
    return aff_mul((Fp(BLS_G1[0], BLS_P), Fp(BLS_G1[1], BLS_P)), k)


def g2(k):
    G = (Fp2(*BLS_G2[0], BLS_P), Fp2(*BLS_G2[1], BLS_P))
    return aff_mul(G, k)


def b1():
    return Fp(4, BLS_P)


def b2():
    return Fp2(4, 4, BLS_P)


def rand_curve_point_g1(rng):
    while True:
        x = Fp(rng.randrange(BLS_P), BLS_P)
        y = (x * x * x + 4).sqrt()
        if y is not None:
            return (x, y if rng.random() < 0.5 else -y)


def rand_curve_point_g2(rng):
    while True:
        x = Fp2(rng.randrange(BLS_P), rng.randrange(BLS_P), BLS_P)
        y = (x * x * x + b2()).sqrt()
        if y is not None:
            return (x, y if rng.random() < 0.5 else -y)


H1 = (BLS_X - 1) ** 2 // 3
H2 = (BLS_X**8 - 4 * BLS_X**7 + 5 * BLS_X**6 - 4 * BLS_X**4 + 6 * BLS_X**3 - 4 * BLS_X**2 - 4 * BLS_X + 13) // 9


def torsion_g1(rng):
    """a non-zero point of E(Fp) killed by the cofactor h1 (no r-component)"""
    while True:
        T = aff_mul(rand_curve_point_g1(rng), BLS_R)
        if T is not None:
            return T


def torsion_g2(rng):
    while True:
        T = aff_mul(rand_curve_point_g2(rng), BLS_R)
        if T is not None:
            return T


# ------------------------------------------------------------------ ZCash encoding (independent)
def zcash_compress_g1(P):
    if P is None:
        return (1 << 383) | (1 << 382)
    x, y = P
    a = 1 if y.v * 2 > BLS_P else 0
    return x.v | (a << 381) | (1 << 383)


def zcash_decompress_g1(z):
    """returns point or raises ValueError; the ZCash rules: c=1; b=1 iff infinity with a=0, x=0"""
    if z >> 384:
        raise ValueError("too long")
    c, b, a = (z >> 383) & 1, (z >> 382) & 1, (z >> 381) & 1
    x = z & ((1 << 381) - 1)
    if not c:
        raise ValueError("c")
    if b:
        if a or x:
            raise ValueError("inf")
        return None
    if x >= BLS_P:
        raise ValueError("x>=p")
    X = Fp(x, BLS_P)
    y = (X * X * X + 4).sqrt()
    if y is None:
        raise ValueError("not on curve")
    if (1 if y.v * 2 > BLS_P else 0) != a:
        y = -y
    return (X, y)


def y_sign_g2(y):
    """1 iff y is the lexicographically larger of {y, -y} (imaginary part first)"""
    if y.b != 0:
        return 1 if y.b * 2 > BLS_P else 0
    return 1 if y.a * 2 > BLS_P else 0


def zcash_compress_g2(P):
    if P is None:
        return ((1 << 383) | (1 << 382), 0)
    x, y = P
    return (x.b | (y_sign_g2(y) << 381) | (1 << 383), x.a)


def zcash_decompress_g2(z1, z2):
    if z1 >> 384 or z2 >> 384:
        raise ValueError("too long")
    c, b, a = (z1 >> 383) & 1, (z1 >> 382) & 1, (z1 >> 381) & 1
    x1 = z1 & ((1 << 381) - 1)
    if not c:
        raise ValueError("c")
    if z2 >> 381:
        raise ValueError("flags in second word")
    if b:
        if a or x1 or z2:
            raise ValueError("inf")
        return None
    if x1 >= BLS_P or z2 >= BLS_P:
        raise ValueError(">=p")
    X = Fp2(z2, x1, BLS_P)
    y = (X * X * X + b2()).sqrt()
    if y is None:
        raise ValueError("not on curve")
    if y_sign_g2(y) != a:
        y = -y
    return (X, y)


# ------------------------------------------------------------------ byte-level specs
def i2osp(x, n):
    return x.to_bytes(n, "big")


def rfc_expand_message_xmd(msg, dst, len_in_bytes, hname):
    """RFC 9380 §5.3.1, transcribed"""
    H = lambda b: hashlib.new(hname, b).digest()  # noqa: E731
    h = hashlib.new(hname)
    b_in_bytes, s_in_bytes = h.digest_size, h.block_size
    ell = -(-len_in_bytes // b_in_bytes)
    if ell > 255 or len_in_bytes > 65535 or len(dst) > 255:
        raise ValueError("abort")
    dst_prime = dst + i2osp(len(dst), 1)
    z_pad = i2osp(0, s_in_bytes)
    l_i_b_str = i2osp(len_in_bytes, 2)
    msg_prime = z_pad + msg + l_i_b_str + i2osp(0, 1) + dst_prime
    b0 = H(msg_prime)
    bs = [H(b0 + i2osp(1, 1) + dst_prime)]
    for i in range(2, ell + 1):
        bs.append(H(bytes(x ^ y for x, y in zip(b0, bs[-1])) + i2osp(i, 1) + dst_prime))
    return b"".join(bs)[:len_in_bytes]


def rfc_hash_to_field(msg, count, dst, hname, m, p=BLS_P, L=64):
    ub = rfc_expand_message_xmd(msg, dst, count * m * L, hname)
    out = []
    for i in range(count):
        e = []
        for j in range(m):
            off = L * (j + i * m)
            e.append(int.from_bytes(ub[off:off + L], "big") % p)
        out.append(e)
    return out


def rfc_hmac(key, msg, hname="sha256"):
    """RFC 2104 written out (independent of the hmac module)"""
    H = lambda b: hashlib.new(hname, b).digest()  # noqa: E731
    bs = hashlib.new(hname).block_size
    if len(key) > bs:
        key = H(key)
    key = key + b"\x00" * (bs - len(key))
    return H(bytes(k ^ 0x5c for k in key) + H(bytes(k ^ 0x36 for k in key) + msg))


def rfc_hkdf_extract(salt, ikm):
    return rfc_hmac(salt, ikm)


def rfc_hkdf_expand(prk, info, L):
    """RFC 5869 §2.3"""
    if L > 255 * 32:
        raise ValueError("L too large")
    n = -(-L // 32)
    t, okm = b"", b""
    for i in range(1, n + 1):
        t = rfc_hmac(prk, t + info + bytes([i]))
        okm += t
    return okm[:L]


def bls_keygen_v4(ikm, key_info=b""):
    """draft-irtf-cfrg-bls-signature-04 §2.3"""
    salt = b"BLS-SIG-KEYGEN-SALT-"
    sk = 0
    while sk == 0:
        salt = hashlib.sha256(salt).digest()
        prk = rfc_hkdf_extract(salt, ikm + i2osp(0, 1))
        okm = rfc_hkdf_expand(prk, key_info + i2osp(48, 2), 48)
        sk = int.from_bytes(okm, "big") % BLS_R
    return sk


def rfc6979_k(z_bytes, d_bytes):
    """RFC 6979 §3.2 first candidate, HMAC-SHA256, qlen = 256, with the octets fed as given"""
    V = b"\x01" * 32
    K = b"\x00" * 32
    K = _hmac.new(K, V + b"\x00" + d_bytes + z_bytes, hashlib.sha256).digest()
    V = _hmac.new(K, V, hashlib.sha256).digest()
    K = _hmac.new(K, V + b"\x01" + d_bytes + z_bytes, hashlib.sha256).digest()
    V = _hmac.new(K, V, hashlib.sha256).digest()
    V = _hmac.new(K, V, hashlib.sha256).digest()
    return int.from_bytes(V, "big")


# ------------------------------------------------------------------ RFC 9380 simplified SWU (affine, straight-line §6.6.2)
def sswu(u, A, B, Z):
    """returns affine (x, y) on y^2 = x^3 + A x + B"""
    one = u.like(1)
    tv1 = Z * Z * u * u * u * u + Z * u * u
    tv1 = tv1.inv()  # inv0
    x1 = (-B / A) * (one + tv1)
    if tv1.is_zero():
        x1 = B / (Z * A)
    gx1 = x1 * x1 * x1 + A * x1 + B
    x2 = Z * u * u * x1
    gx2 = x2 * x2 * x2 + A * x2 + B
    y1 = gx1.sqrt()
    if y1 is not None:
        x, y = x1, y1
    else:
        x, y = x2, gx2.sqrt()
        if y is None:
            raise AssertionError("SSWU: neither candidate is square")
    if u.sgn0() != y.sgn0():
        y = -y
    return (x, y)


# ------------------------------------------------------------------ generic extension field GF(p)[X]/(X^d + sum mc_i X^i)
def _ptrim(a):
    while a and a[-1] == 0:
        a.pop()
    return a


def _pdivmod(a, b, p):
    """polynomial division over GF(p) (coefficient lists, lowest degree first); b != 0"""
    a = _ptrim([x % p for x in a])
    b = _ptrim([x % p for x in b])
    q = [0] * max(1, len(a) - len(b) + 1)
    binv = pow(b[-1], -1, p)
    while len(a) >= len(b) and a:
        k = len(a) - len(b)
        c = a[-1] * binv % p
        q[k] = c
        for i, bc in enumerate(b):
            a[k + i] = (a[k + i] - c * bc) % p
        _ptrim(a)
    return _ptrim(q), a


def _pmul(a, b, p):
    if not a or not b:
        return []
    r = [0] * (len(a) + len(b) - 1)
    for i, x in enumerate(a):
        if x:
            for j, y in enumerate(b):
                r[i + j] = (r[i + j] + x * y) % p
    return _ptrim(r)


def _psub(a, b, p):
    n = max(len(a), len(b))
    return _ptrim([((a[i] if i < len(a) else 0) - (b[i] if i < len(b) else 0)) % p for i in range(n)])


class Fpk:
    """element of GF(p)[X]/(m), m = X^d + sum mc[i] X^i — textbook arithmetic, proper polynomial Euclid for inverses"""
    __slots__ = ("c", "p", "mc")

    def __init__(self, c, p, mc):
        d = len(mc)
        c = [x % p for x in c] + [0] * (d - len(c))
        if len(c) > d:
            _, r = _pdivmod(c, [x % p for x in mc] + [1], p)
            c = r + [0] * (d - len(r))
        self.c, self.p, self.mc = c, p, tuple(mc)

    def _c(self, o):
        return o if isinstance(o, Fpk) else Fpk([o], self.p, self.mc)

    def like(self, k): return Fpk([k], self.p, self.mc)
    def coeffs(self): return list(self.c)
    def is_zero(self): return not any(self.c)
    def __add__(self, o): o = self._c(o); return Fpk([a + b for a, b in zip(self.c, o.c)], self.p, self.mc)
    def __sub__(self, o): o = self._c(o); return Fpk([a - b for a, b in zip(self.c, o.c)], self.p, self.mc)
    def __neg__(self): return Fpk([-a for a in self.c], self.p, self.mc)
    def __eq__(self, o): o = self._c(o); return self.c == o.c
    def __hash__(self): return hash((tuple(self.c), self.p))

    def __mul__(self, o):
        o = self._c(o)
        return Fpk(_pmul(_ptrim(list(self.c)), _ptrim(list(o.c)), self.p) or [0], self.p, self.mc)

    def inv(self):
        """inverse by the extended Euclidean algorithm on polynomials; 0 -> 0 (inv0)"""
        p = self.p
        if self.is_zero():
            return self.like(0)
        r0, r1 = [x % p for x in self.mc] + [1], _ptrim(list(self.c))
        s0, s1 = [], [1]
        while r1:
            q, r = _pdivmod(r0, r1, p)
            r0, r1 = r1, r
            s0, s1 = s1, _psub(s0, _pmul(q, s1, p), p)
        # r0 = gcd (a constant when m is irreducible), s0 * self = r0 (mod m)
        if len(r0) != 1:
            raise ZeroDivisionError("not invertible")
        ci = pow(r0[0], -1, p)
        return Fpk([x * ci for x in s0] or [0], p, self.mc)

    def __truediv__(self, o): return self * self._c(o).inv()

    def pow(self, e):
        r, t = self.like(1), self
        while e > 0:
            if e & 1:
                r = r * t
            t = t * t
            e >>= 1
        return r

    def __repr__(self): return f"Fpk({self.c})"


# ------------------------------------------------------------------ cube roots in Fp2 (to build G2 points with a prescribed y)
_CBRT_CACHE = {}


def fp2_cbrt(a):
    """a cube root of `a` in Fp2 (p = BLS_P) or None; q - 1 = 9 t with 3 ∤ t"""
    p = a.p
    q = p * p
    if a.is_zero():
        return a
    if not (a.pow((q - 1) // 3) == a.like(1)):
        return None
    s, t = 0, q - 1
    while t % 3 == 0:
        s, t = s + 1, t // 3
    if p not in _CBRT_CACHE:
        g = Fp2(1, 1, p)
        k = 1
        while g.pow((q - 1) // 3) == g.like(1):
            k += 1
            g = Fp2(k, 1, p)
        _CBRT_CACHE[p] = g.pow(t)          # generator of the 3-Sylow subgroup (order 3^s)
    c = _CBRT_CACHE[p]
    k3 = pow(3, -1, t)
    x = a.pow(k3)
    ci = a.like(1)
    for _ in range(3 ** s):
        cand = x * ci
        if cand * cand * cand == a:
            return cand
        ci = ci * c
    return None


_CBRT1_CACHE = {}


def fp_cbrt(a, p=None):
    """a cube root of the integer `a` modulo the prime p (default BLS_P), or None"""
    p = p or BLS_P
    a %= p
    if a == 0:
        return 0
    if p % 3 == 2:
        return pow(a, (2 * p - 1) // 3, p)
    if pow(a, (p - 1) // 3, p) != 1:
        return None
    s, t = 0, p - 1
    while t % 3 == 0:
        s, t = s + 1, t // 3
    if p not in _CBRT1_CACHE:
        g = 2
        while pow(g, (p - 1) // 3, p) == 1:
            g += 1
        _CBRT1_CACHE[p] = pow(g, t, p)     # generator of the 3-Sylow subgroup
    c = _CBRT1_CACHE[p]
    x = pow(a, pow(3, -1, t), p)
    ci = 1
    for _ in range(3 ** s):
        cand = x * ci % p
        if pow(cand, 3, p) == a:
            return cand
        ci = ci * c % p
    return None


def g1_point_with_y(y):
    """a point (x, y) of E(Fp): y^2 = x^3 + 4 with the given y, or None"""
    x = fp_cbrt(y * y - 4, BLS_P)
    return None if x is None else (Fp(x, BLS_P), Fp(y, BLS_P))


def g1_points_y_boundary(n=3):
    """points of E(Fp) whose y is as close as possible to the boundary of the ZCash sign rule ((p-1)/2 and (p+1)/2, from both
    sides) and to the ends of the range (1.., p-1..): exactly where an inexact `2y // p` would tip over"""
    out = []
    h = (BLS_P - 1) // 2
    for start, step in ((h, -1), (h + 1, 1), (1, 1), (BLS_P - 1, -1)):
        y, found, tries = start, 0, 0
        while found < n and tries < 200:
            Pt = g1_point_with_y(y)
            if Pt is not None:
                out.append(Pt)
                found += 1
            y += step
            tries += 1
    return out


def g2_point_with_y(y):
    """a point (x, y) of E'(Fp2) with the given y, or None"""
    x = fp2_cbrt(y * y - b2())
    return None if x is None else (x, y)


def g2_points_y_boundary(n=3):
    """points of E' whose y has imaginary part exactly (p-1)/2 or (p+1)/2, or zero imaginary part and real part (p∓1)/2 —
    the boundary of the ZCash sign rule"""
    out = []
    h = (BLS_P - 1) // 2
    for im in (h, h + 1):
        re, found = 0, 0
        while found < n and re < 400:
            re += 1
            P = g2_point_with_y(Fp2(re, im, BLS_P))
            if P is not None:
                out.append(P)
                found += 1
    for re_ in (h, h + 1):
        P = g2_point_with_y(Fp2(re_, 0, BLS_P))
        if P is not None:
            out.append(P)
    return out


# ------------------------------------------------------------------ roots of a polynomial over GF(p) (for isogeny kernels)
def _ppowmod(base, e, f, p):
    r = [1]
    b = _pdivmod(base, f, p)[1]
    while e > 0:
        if e & 1:
            r = _pdivmod(_pmul(r, b, p), f, p)[1]
        b = _pdivmod(_pmul(b, b, p), f, p)[1]
        e >>= 1
    return r


def _pgcd(a, b, p):
    a, b = _ptrim([x % p for x in a]), _ptrim([x % p for x in b])
    while b:
        a, b = b, _pdivmod(a, b, p)[1]
    if a:
        inv = pow(a[-1], -1, p)
        a = [x * inv % p for x in a]
    return a


def poly_roots_fp(f, p, rng):
    """all roots in GF(p) of the polynomial f (coefficient list, lowest degree first)"""
    f = _ptrim([x % p for x in f])
    xp = _ppowmod([0, 1], p, f, p)
    g = _pgcd(f, _psub(xp, [0, 1], p), p)       # product of the distinct linear factors
    roots, stack = [], [g]
    while stack:
        h = stack.pop()
        if len(h) <= 1:
            continue
        if len(h) == 2:
            roots.append((-h[0] * pow(h[1], -1, p)) % p)
            continue
        while True:
            a = rng.randrange(p)
            t = _ppowmod([a, 1], (p - 1) // 2, h, p)
            d = _pgcd(h, _psub(t, [1], p), p)
            if 1 < len(d) < len(h):
                stack.append(d)
                stack.append(_pdivmod(h, d, p)[0])
                break
    return sorted(roots)


# ------------------------------------------------------------------ the order-3 automorphism of j = 0 curves
_BETA = {}


def cube_root_of_unity(p):
    """a primitive cube root of unity in GF(p) (p = 1 mod 3)"""
    if p not in _BETA:
        g = 2
        while pow(g, (p - 1) // 3, p) == 1:
            g += 1
        _BETA[p] = pow(g, (p - 1) // 3, p)
    return _BETA[p]


def phi(P, p=None):
    """(x, y) -> (beta x, y): another point of y^2 = x^3 + b with the SAME y (and -phi(P) has the opposite y, another x)"""
    if P is None:
        return None
    p = p or P[0].p
    return (P[0] * cube_root_of_unity(p), P[1])
