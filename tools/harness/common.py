"""
common — shared machinery of the correspondence harness: case representation, parallel runner
(real library in-process vs the compiled Lean driver), predicate runner, PRNG, token encoders.
"""
import json
import multiprocessing as mp
import os
import random
import subprocess
import sys
import time

HERE = os.path.dirname(os.path.abspath(__file__))
VERIF = os.path.abspath(os.path.join(HERE, "..", ".."))
LEAN_DIR = os.path.join(VERIF, "lean")
DRIVER = os.path.join(LEAN_DIR, ".lake", "build", "bin", "driver")
REPO = os.environ.get("VERIF_REPO", "/repo")

if REPO not in sys.path:
    sys.path.insert(0, REPO)
if HERE not in sys.path:
    sys.path.insert(0, HERE)

NCPU = max(1, min(16, os.cpu_count() or 1))


# ----------------------------------------------------------------------------- encoders
def tl(l):
    return "[" + ",".join(str(int(x)) for x in l) + "]"


def tb(b):
    return "x" + bytes(b).hex()


def tbl(bs):
    return "{" + ",".join(tb(b) for b in bs) + "}"


def tfq(n):
    return tl([n])


class Case:
    """one correspondence case: a protocol line, run on both sides"""
    __slots__ = ("op", "args", "extra", "impl_out", "tags", "driver_args")

    def __init__(self, op, args, extra=None, impl_out=None, tags=(), driver_args=None):
        self.op = op
        self.args = [str(a) for a in args]
        self.extra = extra or {}
        self.impl_out = impl_out      # precomputed implementation output (transcript cases)
        self.tags = tuple(tags)
        self.driver_args = [str(a) for a in driver_args] if driver_args is not None else None

    def line(self, i):
        return "\t".join([str(i), self.op] + (self.driver_args if self.driver_args is not None else self.args))

    def key(self):
        return self.op + "\t" + "\t".join(self.args)


def _run_chunk(payload):
    idx0, cases = payload
    import pyexec
    impl = []
    for c in cases:
        if c.impl_out is not None:
            impl.append(c.impl_out)
        else:
            impl.append(pyexec.run_op(c.op, c.args, c.extra))
    lines = "\n".join(c.line(idx0 + i) for i, c in enumerate(cases)) + "\n"
    r = subprocess.run([DRIVER], input=lines, capture_output=True, text=True, timeout=3600)
    model = {}
    for ln in r.stdout.split("\n"):
        if not ln:
            continue
        parts = ln.split("\t", 2)
        if len(parts) >= 2:
            model[parts[0]] = "\t".join(parts[1:])
    out = []
    for i, c in enumerate(cases):
        m = model.get(str(idx0 + i), "missing\t" + (r.stderr[-300:] if r.stderr else "no output"))
        out.append((idx0 + i, impl[i], m))
    return out


def run_cases(cases, chunk=None, procs=None):
    """returns list of (index, impl_out, model_out) in order"""
    if not cases:
        return []
    procs = procs or NCPU
    if chunk is None:
        chunk = max(1, min(64, (len(cases) + procs - 1) // procs))
    payloads = [(i, cases[i:i + chunk]) for i in range(0, len(cases), chunk)]
    if procs == 1 or len(payloads) == 1:
        res = [_run_chunk(p) for p in payloads]
    else:
        ctx = mp.get_context("fork")
        with ctx.Pool(min(procs, len(payloads))) as pool:
            res = pool.map(_run_chunk, payloads)
    flat = [x for r in res for x in r]
    flat.sort(key=lambda t: t[0])
    return flat


class Pred:
    """a statement-level predicate evaluated on the REAL code: fn() -> (ok: bool, detail: str).
    `match` is the canonicalised description of the input used to match known findings."""
    __slots__ = ("name", "fn", "args", "match")

    def __init__(self, name, fn, args=(), match=None):
        self.name = name
        self.fn = fn
        self.args = args
        self.match = match or {}


_PREDS = []


def _run_pred_chunk(rng_):
    lo, hi = rng_
    out = []
    for p in _PREDS[lo:hi]:
        try:
            ok, detail = p.fn(*p.args)
        except RecursionError:
            ok, detail = False, "RecursionError escaped"
        except Exception as e:  # noqa: BLE001
            ok, detail = False, f"exception {type(e).__name__}: {e}"
        out.append((p.name, bool(ok), str(detail)[:2000], p.match))
    return out


def run_preds(preds, procs=None, chunk=None):
    """predicates may be closures: they are inherited by fork, only index ranges are pickled"""
    global _PREDS
    if not preds:
        return []
    procs = procs or NCPU
    _PREDS = list(preds)
    n = len(_PREDS)
    if chunk is None:
        chunk = max(1, min(32, (n + procs - 1) // procs))
    payloads = [(i, min(n, i + chunk)) for i in range(0, n, chunk)]
    if procs == 1 or len(payloads) == 1:
        res = [_run_pred_chunk(p) for p in payloads]
    else:
        ctx = mp.get_context("fork")
        with ctx.Pool(min(procs, len(payloads))) as pool:
            res = pool.map(_run_pred_chunk, payloads)
    return [x for r in res for x in r]


def rng_for(prop, seed):
    return random.Random(f"{prop}:{seed}")


def load_known_findings():
    path = os.path.join(VERIF, "known_findings.jsonl")
    out = []
    if os.path.exists(path):
        for ln in open(path):
            ln = ln.strip()
            if ln:
                out.append(json.loads(ln))
    return out


def now():
    return time.time()
