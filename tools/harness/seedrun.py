#!/venv/bin/python
"""
seedrun — confirm a seeded change (patch.diff + demo.py + meta.json) and run the registered checks against it.

  seedrun.py <mutant-dir> [--props C01,C02] [--tier quick] [--skip-confirm]

1. confirmation in a scratch worktree of /repo (outside /repo and /verif): the patch applies; the unedited test suite
   passes with it; demo.py exits 1 with the change and 0 without it;
2. the patch is applied to /repo (git apply), the requested checks are run, and /repo is restored straight afterwards
   (git checkout -- .), whatever happens;
3. everything is stored under /verif/seeded/<property>-<name>/ (patch.diff, demo.py, meta.json, result.json).
"""
import argparse
import json
import os
import re
import shutil
import subprocess
import sys
import time

VERIF = os.path.abspath(os.path.join(os.path.dirname(os.path.abspath(__file__)), "..", ".."))
REPO = "/repo"
PY = "/venv/bin/python"


def sh(cmd, cwd=None, env=None, timeout=7200):
    r = subprocess.run(cmd, cwd=cwd, env=env, capture_output=True, text=True, timeout=timeout)
    return r.returncode, r.stdout, r.stderr


def confirm(mdir, scratch, refactoring=False):
    res = {}
    if os.path.exists(scratch):
        sh(["git", "-C", REPO, "worktree", "remove", "--force", scratch])
        shutil.rmtree(scratch, ignore_errors=True)
    rc, o, e = sh(["git", "-C", REPO, "worktree", "add", "-q", "--detach", scratch, "HEAD"])
    if rc:
        return {"error": "worktree: " + e}
    try:
        env = dict(os.environ, PYTHONPATH=scratch)
        patch = os.path.join(mdir, "patch.diff")
        demo = os.path.join(mdir, "demo.py")
        rc, o, e = sh([PY, demo], cwd=scratch, env=env, timeout=900)
        res["demo_without_change"] = rc
        rc, o, e = sh(["git", "apply", patch], cwd=scratch)
        res["patch_applies"] = rc == 0
        if rc:
            res["error"] = e[-400:]
            return res
        rc, o, e = sh([PY, demo], cwd=scratch, env=env, timeout=900)
        res["demo_with_change"] = rc
        res["demo_output"] = (o + e)[-600:]
        rc, o, e = sh([PY, "-m", "pytest", "-q", "-p", "no:cacheprovider", "-n", "12", "tests"], cwd=scratch, env=env, timeout=3600)
        tail = (o + e).strip().split("\n")[-1]
        res["tests_with_change"] = tail
        res["tests_pass_with_change"] = rc == 0
    finally:
        sh(["git", "-C", REPO, "worktree", "remove", "--force", scratch])
        shutil.rmtree(scratch, ignore_errors=True)
    if refactoring:   # a behaviour-preserving change: its demonstration passes on both trees
        res["confirmed"] = bool(res.get("patch_applies") and res.get("tests_pass_with_change") and res.get("demo_without_change") == 0
                                and res.get("demo_with_change") == 0)
    else:
        res["confirmed"] = bool(res.get("patch_applies") and res.get("tests_pass_with_change") and res.get("demo_without_change") == 0
                                and res.get("demo_with_change") not in (0, None))
    return res


def run_checks(patch, props, tier):
    out = {}
    rc, o, e = sh(["git", "-C", REPO, "status", "--porcelain", "--untracked-files=no"])
    if o.strip():
        raise SystemExit("refusing: /repo has local modifications:\n" + o)
    rc, o, e = sh(["git", "-C", REPO, "apply", patch])
    if rc:
        return {"error": "git apply in /repo failed: " + e[-300:]}
    saved = {}
    for p in props:                      # evidence written while a seeded change is applied must not replace the real evidence
        ev = os.path.join(VERIF, "evidence", p + ".json")
        saved[p] = open(ev).read() if os.path.exists(ev) else None
    try:
        for p in props:
            t0 = time.time()
            rc, o, e = sh([os.path.join(VERIF, "check"), p, "--tier", tier], cwd=VERIF, env=dict(os.environ, VERIF_SKIP_LEANCHECKER="1"), timeout=7200)
            lines = [ln for ln in (o + e).split("\n") if ln.startswith(("VIOLATION", "OK ", "KNOWN-FINDING", "INFRASTRUCTURE"))]
            entry = {"exit": rc, "lines": lines, "wall_s": round(time.time() - t0, 1)}
            m = re.search(r"replay=(\S+)", " ".join(lines))
            if m and os.path.exists(os.path.join(VERIF, m.group(1))):
                rp = json.load(open(os.path.join(VERIF, m.group(1))))
                entry["kind"] = rp.get("kind")
                entry["broken"] = {k: v[:4] for k, v in rp.get("broken", {}).items()}
                entry["failing"] = [{"predicate": f["predicate"], "detail": f["detail"][:300]} for f in rp.get("failing", [])[:3]]
            out[p] = entry
    finally:
        sh(["git", "-C", REPO, "checkout", "--", "."])
        for p, txt in saved.items():
            if txt is not None:
                open(os.path.join(VERIF, "evidence", p + ".json"), "w").write(txt)
        # bring the generated Lean files back in line with the restored source
        sh([PY, os.path.join(VERIF, "tools", "translate", "gen.py"), "--repo", REPO])
    return out


def main():
    ap = argparse.ArgumentParser()
    ap.add_argument("mdir")
    ap.add_argument("--props", default=None)
    ap.add_argument("--tier", default="quick")
    ap.add_argument("--skip-confirm", action="store_true")
    ap.add_argument("--confirm-only", action="store_true", help="only the scratch-worktree confirmation (safe to run in parallel)")
    a = ap.parse_args()
    mdir = os.path.abspath(a.mdir)
    meta = json.load(open(os.path.join(mdir, "meta.json")))
    prop = meta["property"]
    name = meta.get("name") or os.path.basename(mdir)
    refactoring = meta.get("kind") == "refactoring"
    dest = os.path.join(VERIF, "refactorings" if refactoring else "seeded", f"{prop}-{name}")
    os.makedirs(dest, exist_ok=True)
    for f in ("patch.diff", "demo.py", "meta.json"):
        if os.path.abspath(os.path.join(mdir, f)) != os.path.abspath(os.path.join(dest, f)):
            shutil.copy(os.path.join(mdir, f), os.path.join(dest, f))
    rpath = os.path.join(dest, "result.json")
    result = json.load(open(rpath)) if os.path.exists(rpath) else {}
    if not a.skip_confirm:
        result["confirmation"] = confirm(dest, f"/tmp/seedverify-{prop}-{name}", refactoring)
    props = a.props.split(",") if a.props else [prop]
    if a.confirm_only:
        json.dump(result, open(rpath, "w"), indent=1)
        print(json.dumps({"mutant": f"{prop}-{name}", "confirmation": result.get("confirmation")}))
        return
    if result.get("confirmation", {}).get("confirmed") or a.skip_confirm:
        runs = run_checks(os.path.join(dest, "patch.diff"), props, a.tier)
        result.setdefault("checks", {}).update(runs)
        result["detected_by"] = sorted(p for p, r in result["checks"].items() if r.get("exit") == 1)
        if refactoring:
            result["alarms"] = result.pop("detected_by")
    json.dump(result, open(rpath, "w"), indent=1)
    # meta.json gains what we ran
    meta["what_we_ran"] = ["tools/harness/seedrun.py: git apply in a scratch worktree; pytest -n 12 tests; demo.py with/without the change; "
                           "git -C /repo apply; ./check <prop> --tier quick; git -C /repo checkout -- ."]
    json.dump(meta, open(os.path.join(dest, "meta.json"), "w"), indent=1)
    print(json.dumps({"mutant": f"{prop}-{name}", "confirmed": result.get("confirmation", {}).get("confirmed"),
                      "detected_by": result.get("detected_by"), "alarms": result.get("alarms"),
                      "checks": {p: (r.get("exit"), r.get("kind"), r.get("lines")) for p, r in result.get("checks", {}).items()}}, indent=1))


if __name__ == "__main__":
    main()
