"""
pyexec — executes one protocol line (DESIGN Appendix B) on the REAL py_ecc, in-process, and returns
the canonicalised result string in exactly the format the Lean driver prints:
    "ok\t<value>"  |  "err\t<ExceptionKind>"
Anything unordered, any float, any address never reaches the output.  Projective points are printed
affine-normalised, so a refactor that returns another representative is not a disagreement.
"""
import hashlib
import importlib

ERR_KINDS = {
    "ValueError": "ValueError",
    "ValidationError": "ValidationError",
    "TypeError": "TypeError",
    "OverflowError": "OverflowError",
    "AssertionError": "AssertionError",
}


def err_kind(e):
    n = type(e).__name__
    return ERR_KINDS.get(n, "Exception:" + n if n not in ("Exception",) else "Exception")


# ------------------------------------------------------------------ tokens
def parse_tok(s):
    if s == "inf":
        return None
    if s == "!other":
        return "a string, not an int"
    if s.startswith("["):
        inner = s[1:-1]
        return [int(x) for x in inner.split(",")] if inner else []
    if s.startswith("x"):
        return bytes.fromhex(s[1:])
    if s.startswith("{"):
        inner = s[1:-1]
        return [bytes.fromhex(h[1:]) for h in inner.split(",")] if inner else []
    try:
        return int(s)
    except ValueError:
        return s


def show_list(l):
    return "[" + ",".join(str(int(x)) for x in l) + "]"


def show_bool(b):
    return "True" if b else "False"


def show_bytes(b):
    return "x" + bytes(b).hex()


# ------------------------------------------------------------------ field classes
_cls_cache = {}


def field_class(spec):
    """spec: q:<p>[:ref|opt]  or  e:<v>:<p>:<mc>"""
    if spec in _cls_cache:
        return _cls_cache[spec]
    from py_ecc.fields import field_elements as R, optimized_field_elements as O
    parts = spec.split(":")
    if parts[0] == "q":
        p = int(parts[1])
        v = parts[2] if len(parts) > 2 else "opt"
        base = R.FQ if v == "ref" else O.FQ
        c = type(f"FQ_{v}_{p}", (base,), {"field_modulus": p})
    else:
        v, p, mc = parts[1], int(parts[2]), tuple(parse_tok(parts[3]))
        M = R if v == "ref" else O
        if len(mc) == 2:
            c = type(f"FQ2_{v}_{p}", (M.FQ2,), {"field_modulus": p, "FQ2_MODULUS_COEFFS": mc})
        elif len(mc) == 12:
            c = type(f"FQ12_{v}_{p}", (M.FQ12,), {"field_modulus": p, "FQ12_MODULUS_COEFFS": mc})
        else:
            raise ValueError("only degree 2 and 12 extension classes exist in the library")
    _cls_cache[spec] = c
    return c


def real_class(spec):
    """the library's own named classes for the real curves (so isinstance-based dispatch is the real one)"""
    from py_ecc import fields as Fm
    from py_ecc.fields.field_properties import field_properties as fp
    parts = spec.split(":")
    for curve in ("bn128", "bls12_381"):
        p = fp[curve]["field_modulus"]
        if parts[0] == "q" and int(parts[1]) == p:
            v = parts[2] if len(parts) > 2 else "opt"
            return getattr(Fm, ("optimized_" if v == "opt" else "") + curve + "_FQ")
        if parts[0] == "e" and int(parts[2]) == p:
            mc = tuple(parse_tok(parts[3]))
            pre = ("optimized_" if parts[1] == "opt" else "") + curve
            if mc == tuple(fp[curve]["fq2_modulus_coeffs"]):
                return getattr(Fm, pre + "_FQ2")
            if mc == tuple(fp[curve]["fq12_modulus_coeffs"]):
                return getattr(Fm, pre + "_FQ12")
    return None


def fcls(spec):
    return real_class(spec) or field_class(spec)


def mk(spec, l):
    c = fcls(spec)
    if spec.startswith("q"):
        return c(l[0])
    return c(list(l))


def coeffs_of(x):
    if hasattr(x, "coeffs"):
        return [int(c) for c in x.coeffs]
    return [int(x.n)]


def show_f(x):
    return show_list(coeffs_of(x))


def show_p3(pt):
    x, y, z = pt
    if z == type(z).zero():
        return "inf"
    return show_f(x / z) + ";" + show_f(y / z)


def show_p2(pt):
    if pt is None:
        return "inf"
    return show_f(pt[0]) + ";" + show_f(pt[1])


# ------------------------------------------------------------------ op groups
def fq_op(op, spec, a):
    C = fcls(spec)
    e = lambda l: C(l[0])  # noqa: E731
    s = lambda x: str(int(x.n))  # noqa: E731
    if op == "add":
        return s(e(a[0]) + e(a[1]))
    if op == "sub":
        return s(e(a[0]) - e(a[1]))
    if op == "mul":
        return s(e(a[0]) * e(a[1]))
    if op == "div":
        return s(e(a[0]) / e(a[1]))
    if op == "neg":
        return s(-e(a[0]))
    if op == "inv":
        return s(1 / e(a[0]))
    if op == "pow":
        return s(e(a[0]) ** a[1])
    if op == "eq":
        return show_bool(e(a[0]) == e(a[1]))
    if op == "sgn0":
        return str(e(a[0]).sgn0)
    if op == "addi":
        return s(e(a[0]) + a[1])
    if op == "raddi":
        return s(a[1] + e(a[0]))
    if op == "muli":
        return s(e(a[0]) * a[1])
    if op == "rmuli":
        return s(a[1] * e(a[0]))
    if op == "subi":
        return s(e(a[0]) - a[1])
    if op == "rsubi":
        return s(a[1] - e(a[0]))
    if op == "divi":
        return s(e(a[0]) / a[1])
    if op == "rdivi":
        return s(a[1] / e(a[0]))
    if op == "eqi":
        return show_bool(e(a[0]) == a[1])
    if op == "lti":
        return show_bool(e(a[0]) < a[1])
    if op == "ofint":
        return s(C(a[0]))
    raise KeyError(op)


def fqp_op(op, spec, a):
    C = fcls(spec)
    e = lambda l: C(list(l))  # noqa: E731
    s = lambda x: show_list(coeffs_of(x))  # noqa: E731
    if op == "add":
        return s(e(a[0]) + e(a[1]))
    if op == "sub":
        return s(e(a[0]) - e(a[1]))
    if op == "mul":
        return s(e(a[0]) * e(a[1]))
    if op == "div":
        return s(e(a[0]) / e(a[1]))
    if op == "neg":
        return s(-e(a[0]))
    if op == "inv":
        return s(e(a[0]).inv())
    if op == "pow":
        return s(e(a[0]) ** a[1])
    if op == "eq":
        return show_bool(e(a[0]) == e(a[1]))
    if op == "muli":
        return s(e(a[0]) * a[1])
    if op == "rmuli":
        return s(a[1] * e(a[0]))
    if op == "divi":
        return s(e(a[0]) / a[1])
    if op == "sgn0":
        # the generic loop of optimized FQP.sgn0 (FQ2 overrides it)
        from py_ecc.fields.optimized_field_elements import FQP as OFQP
        return str(int(OFQP.sgn0.func(e(a[0]))))
    if op == "sgn0_fq2":
        return str(int(e(a[0]).sgn0))
    if op == "ofints":
        return s(e(a[0]))
    if op == "one":
        return s(C.one())
    if op == "zero":
        return s(C.zero())
    raise KeyError(op)


MODS = {"OptBls": "py_ecc.optimized_bls12_381", "OptBn": "py_ecc.optimized_bn128",
        "RefBls": "py_ecc.bls12_381", "RefBn": "py_ecc.bn128"}


def curve_mod(m):
    return importlib.import_module(MODS[m])


def pairing_mod(m):
    name = MODS[m]
    sub = "optimized_pairing" if m.startswith("Opt") else name.split(".")[-1] + "_pairing"
    return importlib.import_module(name + "." + sub)


def curve_op(m, op, spec, a):
    M = curve_mod(m)
    if m.startswith("Opt"):
        P = lambda i: tuple(mk(spec, a[i + k]) for k in range(3))  # noqa: E731
        if op == "add":
            return show_p3(M.add(P(0), P(3)))
        if op == "double":
            return show_p3(M.double(P(0)))
        if op == "neg":
            return show_p3(M.neg(P(0)))
        if op == "multiply":
            return show_p3(M.multiply(P(0), a[3]))
        if op == "eq":
            return show_bool(M.eq(P(0), P(3)))
        if op == "is_on_curve":
            return show_bool(M.is_on_curve(P(0), mk(spec, a[3])))
        if op == "is_inf":
            return show_bool(M.is_inf(P(0)))
        if op == "normalize":
            r = M.normalize(P(0))
            return show_f(r[0]) + ";" + show_f(r[1])
        if op == "linefunc":
            n, d = pairing_mod(m).linefunc(P(0), P(3), P(6))
            if d == type(d).zero():
                return "den0;" + show_f(n)
            return show_f(n / d)
    else:
        def P(i):
            if a[i] is None:
                return None
            return (mk(spec, a[i]), mk(spec, a[i + 1]))
        if op == "add":
            return show_p2(M.add(P(0), P(2)))
        if op == "double":
            return show_p2(M.double(P(0)))
        if op == "neg":
            return show_p2(M.neg(P(0)))
        if op == "multiply":
            return show_p2(M.multiply(P(0), a[2]))
        if op == "is_on_curve":
            return show_bool(M.is_on_curve(P(0), mk(spec, a[2])))
        if op == "linefunc":
            return show_f(pairing_mod(m).linefunc(P(0), P(2), P(4)))
    raise KeyError(op)


def _bls_fields():
    from py_ecc.fields import optimized_bls12_381_FQ as FQ, optimized_bls12_381_FQ2 as FQ2, optimized_bls12_381_FQ12 as FQ12
    return FQ, FQ2, FQ12


def g1(a, i=0):
    FQ, _, _ = _bls_fields()
    return (FQ(a[i][0]), FQ(a[i + 1][0]), FQ(a[i + 2][0]))


def g2(a, i=0):
    _, FQ2, _ = _bls_fields()
    return (FQ2(a[i]), FQ2(a[i + 1]), FQ2(a[i + 2]))


def pairing_op(op, a):
    if op == "OptBls":
        from py_ecc.optimized_bls12_381 import pairing
        return show_list(coeffs_of(pairing(g2(a, 0), g1(a, 3), final_exponentiate=bool(a[6]))))
    if op == "OptBn":
        from py_ecc.fields import optimized_bn128_FQ as FQ, optimized_bn128_FQ2 as FQ2
        from py_ecc.optimized_bn128 import pairing
        Q = (FQ2(a[0]), FQ2(a[1]), FQ2(a[2]))
        P = (FQ(a[3][0]), FQ(a[4][0]), FQ(a[5][0]))
        return show_list(coeffs_of(pairing(Q, P, final_exponentiate=bool(a[6]))))
    if op in ("RefBls", "RefBn"):
        curve = "bls12_381" if op == "RefBls" else "bn128"
        from py_ecc import fields as Fm
        FQ, FQ2 = getattr(Fm, curve + "_FQ"), getattr(Fm, curve + "_FQ2")
        M = importlib.import_module("py_ecc." + curve)
        Q = None if a[0] is None else (FQ2(a[0]), FQ2(a[1]))
        P = None if a[2] is None else (FQ(a[2][0]), FQ(a[3][0]))
        return show_list(coeffs_of(M.pairing(Q, P)))
    if op == "fexp_OptBls":
        from py_ecc.optimized_bls12_381 import final_exponentiate
        _, _, FQ12 = _bls_fields()
        return show_list(coeffs_of(final_exponentiate(FQ12(a[0]))))
    if op == "expbyp_OptBls":
        from py_ecc.optimized_bls12_381.optimized_pairing import exp_by_p
        _, _, FQ12 = _bls_fields()
        return show_list(coeffs_of(exp_by_p(FQ12(a[0]))))
    if op == "twist_OptBls":
        from py_ecc.optimized_bls12_381 import twist
        return ";".join(show_f(c) for c in twist(g2(a, 0)))
    if op == "twist_OptBn":
        from py_ecc.fields import optimized_bn128_FQ2 as FQ2
        from py_ecc.optimized_bn128 import twist
        return ";".join(show_f(c) for c in twist((FQ2(a[0]), FQ2(a[1]), FQ2(a[2]))))
    if op in ("twist_RefBls", "twist_RefBn"):
        curve = "bls12_381" if op.endswith("Bls") else "bn128"
        from py_ecc import fields as Fm
        FQ2 = getattr(Fm, curve + "_FQ2")
        M = importlib.import_module("py_ecc." + curve)
        Q = None if a[0] is None else (FQ2(a[0]), FQ2(a[1]))
        return show_p2(M.twist(Q))
    raise KeyError(op)


class RecordingHash:
    """wraps a hashlib constructor and records every (input, digest) pair"""

    def __init__(self, name):
        self.name = name
        self.record = []
        h = hashlib.new(name)
        self.digest_size, self.block_size = h.digest_size, h.block_size

    def __call__(self, data=b""):
        outer = self

        class _H:
            digest_size = outer.digest_size
            block_size = outer.block_size

            def digest(self_inner):
                d = hashlib.new(outer.name, data).digest()
                outer.record.append((bytes(data), d))
                return d
        return _H()


def hash_of(spec):
    """`sha256` -> hashlib.sha256; transcript specs name the hashlib function after `T…:…:` is
    produced by the generator, which passes the hashlib name separately (see gen side)"""
    if spec == "sha256":
        return hashlib.sha256
    raise KeyError(spec)


def h2c_op(op, a, hashname=None):
    FQ, FQ2, _ = _bls_fields()
    from py_ecc.bls import hash as Hm, hash_to_curve as H2C
    from py_ecc.optimized_bls12_381 import optimized_swu as S
    hf = (lambda: getattr(hashlib, hashname)) if hashname else (lambda: hashlib.sha256)
    if op == "sha256":
        return show_bytes(Hm.sha256(a[0]))
    if op == "hmac":
        import hmac
        return show_bytes(hmac.new(a[0], a[1], hashlib.sha256).digest())
    if op == "hkdf_extract":
        return show_bytes(Hm.hkdf_extract(a[0], a[1]))
    if op == "hkdf_expand":
        return show_bytes(Hm.hkdf_expand(a[0], a[1], a[2]))
    if op == "xmd":
        return show_bytes(Hm.expand_message_xmd(a[1], a[2], a[3], hf()))
    if op == "h2f_fq2":
        r = H2C.hash_to_field_FQ2(a[1], a[2], a[3], hf())
        return " ".join(show_list(coeffs_of(u)) for u in r)
    if op == "h2f_fq":
        r = H2C.hash_to_field_FQ(a[1], a[2], a[3], hf())
        return " ".join(str(int(u.n)) for u in r)
    if op == "swu_g1":
        return show_p3(S.optimized_swu_G1(FQ(a[0][0])))
    if op == "swu_g2":
        return show_p3(S.optimized_swu_G2(FQ2(a[0])))
    if op == "iso_g1":
        return show_p3(S.iso_map_G1(FQ(a[0][0]), FQ(a[1][0]), FQ(a[2][0])))
    if op == "iso_g2":
        return show_p3(S.iso_map_G2(FQ2(a[0]), FQ2(a[1]), FQ2(a[2])))
    if op == "map_g1":
        return show_p3(H2C.map_to_curve_G1(FQ(a[0][0])))
    if op == "map_g2":
        return show_p3(H2C.map_to_curve_G2(FQ2(a[0])))
    if op == "clear_g1":
        return show_p3(H2C.clear_cofactor_G1(g1(a)))
    if op == "clear_g2":
        return show_p3(H2C.clear_cofactor_G2(g2(a)))
    if op == "hash_to_g1":
        return show_p3(H2C.hash_to_G1(a[1], a[2], hf()))
    if op == "hash_to_g2":
        return show_p3(H2C.hash_to_G2(a[1], a[2], hf()))
    if op == "sqrt_div_fq":
        ok, r = S.sqrt_division_FQ(FQ(a[0][0]), FQ(a[1][0]))
        return show_bool(ok) + " " + str(int(r.n))
    if op == "sqrt_div_fq2":
        ok, r = S.sqrt_division_FQ2(FQ2(a[0]), FQ2(a[1]))
        return show_bool(ok) + " " + show_list(coeffs_of(r))
    raise KeyError(op)


def codec_op(op, a):
    from py_ecc.bls import point_compression as PC, g2_primitives as GP
    _, FQ2, _ = _bls_fields()
    if op == "compress_g1":
        return str(int(PC.compress_G1(g1(a))))
    if op == "decompress_g1":
        return show_p3(PC.decompress_G1(a[0]))
    if op == "compress_g2":
        z1, z2 = PC.compress_G2(g2(a))
        return f"{int(z1)} {int(z2)}"
    if op == "decompress_g2":
        return show_p3(PC.decompress_G2((a[0], a[1])))
    if op == "sqrt_fq2":
        r = PC.modular_squareroot_in_FQ2(FQ2(a[0]))
        return "None" if r is None else show_list(coeffs_of(r))
    if op == "subgroup_check_g1":
        return show_bool(GP.subgroup_check(g1(a)))
    if op == "subgroup_check_g2":
        return show_bool(GP.subgroup_check(g2(a)))
    if op == "g1_to_pubkey":
        return show_bytes(GP.G1_to_pubkey(g1(a)))
    if op == "pubkey_to_g1":
        return show_p3(GP.pubkey_to_G1(a[0]))
    if op == "g2_to_signature":
        return show_bytes(GP.G2_to_signature(g2(a)))
    if op == "signature_to_g2":
        return show_p3(GP.signature_to_G2(a[0]))
    raise KeyError(op)


def suite_cls(s):
    from py_ecc.bls import G2Basic, G2MessageAugmentation, G2ProofOfPossession
    return {"basic": G2Basic, "aug": G2MessageAugmentation, "pop": G2ProofOfPossession}[s]


def bls_op(op, a):
    from py_ecc.bls import G2Basic, G2ProofOfPossession
    if op == "SkToPk":
        return show_bytes(G2Basic.SkToPk(a[0]))
    if op == "KeyGen":
        return str(int(G2Basic.KeyGen(a[0], a[1])))
    if op == "KeyValidate":
        return show_bool(G2Basic.KeyValidate(a[0]))
    if op == "Sign":
        return show_bytes(suite_cls(a[0]).Sign(a[1], a[2]))
    if op == "Verify":
        return show_bool(suite_cls(a[0]).Verify(a[1], a[2], a[3]))
    if op == "VerifyTrace":
        # record the arguments that actually reach `pairing`
        from py_ecc.bls import ciphersuites as CS
        rec = []
        orig = CS.pairing

        def spy(Q, P, final_exponentiate=True):
            rec.append((Q, P))
            return orig(Q, P, final_exponentiate=final_exponentiate)
        CS.pairing = spy
        try:
            C = suite_cls(a[0])
            pk, m, sg = a[1], a[2], a[3]
            m2 = pk + m if a[0] == "aug" else m
            # call the un-caught body through _CoreVerify: exceptions are caught there, so replicate
            # by calling Verify and reporting what was recorded
            r = C._CoreVerify.__func__(C, pk, m2, sg, C.DST) if False else C.Verify(pk, m, sg)
        finally:
            CS.pairing = orig
        return show_bool(r) + " " + " ".join(show_p3(Q) + "|" + show_p3(P) for Q, P in rec)
    if op == "Aggregate":
        return show_bytes(G2Basic.Aggregate(a[0]))
    if op == "AggregateVerify":
        return show_bool(suite_cls(a[0]).AggregateVerify(a[1], a[2], a[3]))
    if op == "FastAggregateVerify":
        return show_bool(G2ProofOfPossession.FastAggregateVerify(a[0], a[1], a[2]))
    if op == "PopProve":
        return show_bytes(G2ProofOfPossession.PopProve(a[0]))
    if op == "PopVerify":
        return show_bool(G2ProofOfPossession.PopVerify(a[0], a[1]))
    if op == "AggregatePKs":
        return show_bytes(G2ProofOfPossession._AggregatePKs(a[0]))
    raise KeyError(op)


def secp_op(op, a):
    from py_ecc.secp256k1 import secp256k1 as S
    i3 = lambda t: f"{int(t[0])} {int(t[1])} {int(t[2])}"  # noqa: E731
    i2 = lambda t: f"{int(t[0])} {int(t[1])}"  # noqa: E731
    if op == "inv":
        return str(int(S.inv(a[0], a[1])))
    if op == "jacobian_double":
        return i3(S.jacobian_double((a[0], a[1], a[2])))
    if op == "jacobian_add":
        return i3(S.jacobian_add((a[0], a[1], a[2]), (a[3], a[4], a[5])))
    if op == "from_jacobian":
        return i2(S.from_jacobian((a[0], a[1], a[2])))
    if op == "jacobian_multiply":
        return i3(S.jacobian_multiply((a[0], a[1], a[2]), a[3]))
    if op == "multiply":
        return i2(S.multiply((a[0], a[1]), a[2]))
    if op == "add":
        return i2(S.add((a[0], a[1]), (a[2], a[3])))
    if op == "privtopub":
        return i2(S.privtopub(a[0]))
    if op == "generate_k":
        return str(int(S.deterministic_generate_k(a[0], a[1])))
    if op == "sign":
        return i3(S.ecdsa_raw_sign(a[0], a[1]))
    if op == "sign_k":
        orig = S.deterministic_generate_k
        S.deterministic_generate_k = lambda h, p: a[2]
        try:
            return i3(S.ecdsa_raw_sign(a[0], a[1]))
        finally:
            S.deterministic_generate_k = orig
    if op == "recover":
        return i2(S.ecdsa_raw_recover(a[0], (a[1], a[2], a[3])))
    raise KeyError(op)


def run_op(op, raw_args, extra=None):
    """returns canonical result string; exceptions become err kinds"""
    extra = extra or {}
    grp = op.split(".")
    try:
        if grp[0] == "fq":
            return "ok\t" + fq_op(grp[1], raw_args[0], [parse_tok(x) for x in raw_args[1:]])
        if grp[0] == "fqp":
            return "ok\t" + fqp_op(grp[1], raw_args[0], [parse_tok(x) for x in raw_args[1:]])
        if grp[0] == "pfi":
            from py_ecc.utils import prime_field_inv
            a = [parse_tok(x) for x in raw_args]
            return "ok\t" + str(int(prime_field_inv(a[0], a[1])))
        if grp[0] == "curve":
            return "ok\t" + curve_op(grp[1], grp[2], raw_args[0], [parse_tok(x) for x in raw_args[1:]])
        a = [parse_tok(x) for x in raw_args]
        if grp[0] == "pairing":
            return "ok\t" + pairing_op(grp[1], a)
        if grp[0] == "h2c":
            return "ok\t" + h2c_op(grp[1], a, extra.get("hash"))
        if grp[0] == "codec":
            return "ok\t" + codec_op(grp[1], a)
        if grp[0] == "bls":
            return "ok\t" + bls_op(grp[1], a)
        if grp[0] == "secp":
            return "ok\t" + secp_op(grp[1], a)
    except KeyError:
        raise
    except RecursionError:
        return "err\tRecursionError"
    except Exception as e:  # noqa: BLE001
        return "err\t" + err_kind(e)
    raise KeyError(op)
