#!/venv/bin/python
"""writes /verif/MANIFEST.json from the per-property table below (kept next to the harness so it stays in sync)"""
import json
import os

HERE = os.path.dirname(os.path.abspath(__file__))
VERIF = os.path.abspath(os.path.join(HERE, "..", ".."))

BASE_NOTE = ("Trusted base: Lean 4.33 kernel, Mathlib v4.33 as compiled on the image, axioms propext/Classical.choice/Quot.sound only "
             "(audited with #print axioms on every run; no native_decide, no bv_decide, no sorry, no own axioms); the Python-AST->Lean translator "
             "(tools/translate) for Gen/*.lean, regenerated from /repo on every run; the hand-written executable model (lean/PyEcc/Model) tied to "
             "/repo by the correspondence harness (tools/harness) on every run; CPython big-int arithmetic; hashlib/hmac. ")

P = {
 "C01": ("proof (partial): key rejection, KeyGen range, spec equalities and decision logic are theorems about the model for all inputs; "
         "'every honest signature verifies' for all keys/messages is conditional on the named hypotheses HB1 (pairing bilinearity) and HB2 (group orders) "
         "and is exercised by correspondence + sign/verify round trips on the real code", "6 C01",
         "Lean theorems (decision logic, key range) + model/implementation correspondence + round-trip predicates"),
 "C02": ("proof (partial): the rejection gates, the exact accept set of Verify at the decoding level (C04.verify_true_iff) and canonical encodings are theorems; "
         "the 'iff' with the canonical signature needs HB1/HB2 and is decided by correspondence on the candidate classes of the quantifier and by the exactness predicate on the real code", "6 C02",
         "Lean theorems (accept-set shape) + correspondence on candidate classes + exactness predicate"),
 "C03": ("proof (partial): Aggregate error behaviour, precondition gates (empty, length mismatch, bad key, repeated messages in the basic suite), Aggregate = draft procedure are theorems; "
         "'accepts exactly the sum' needs HB1/HB2: correspondence + perturbation predicates", "6 C03",
         "Lean theorems (gates, Aggregate = spec) + correspondence + perturbation predicates"),
 "C04": ("proof: totality of KeyValidate/Verify/AggregateVerify/FastAggregateVerify/PopVerify over the Except-model for all byte strings (only the 'unreachable' SWU exception is isolated as the hypothesis SwuTotal), "
         "rejection of every non-canonical / out-of-subgroup / identity input, and safety of every pairing argument are theorems; the model is tied to the code by correspondence on a malformed stream", "6 C04",
         "Lean theorems over the exception model + correspondence on malformed inputs + pairing-argument trace"),
 "C05": ("proof (partial): unit on infinity, refusal of off-curve arguments, exact error behaviour of all four implementations and the scalar/negation/order corollaries of bilinearity are theorems; "
         "bilinearity itself is the named hypothesis HB1 (needs divisors; not in Mathlib) and is sampled on model and implementation", "6 C05",
         "Lean theorems (guards, corollaries of additivity) + exact FQ12 correspondence of the four Miller loops + bilinearity predicates"),
 "C06": ("proof: signature shape (v, low s), RFC 6979 nonce = specification, recover-after-sign over the proved group law of secp256k1 (#E = N proved); hypotheses k, r, s != 0 mod N are explicit", "6 C06",
         "Lean theorems about translated code + correspondence incl. substituted nonces"),
 "C07": ("proof: the translated add/double/neg/multiply of all four modules are proved to BE the Mathlib elliptic-curve group (WeierstrassCurve.Affine.Point) for any field, any representative, every n; "
         "commutativity/associativity/identity/inverse follow; constants equal the standards; generators have order r (kernel evaluation); #E(Fp)=r for bn128 proved", "6 C07",
         "translator + refinement theorems to Mathlib's group + kernel-evaluated curve facts + correspondence"),
 "C08": ("proof: FQ is ZMod p (ring iso, inverse, powers, int operands) for any prime; FQP is the quotient ring (ZMod p)[X]/(m) for any p and modulus, both classes; FQP.inv correct for any irreducible modulus; "
         "X^2+1 and both degree-12 moduli proved irreducible, so FQ2 and FQ12 are fields", "6 C08",
         "refinement theorems to ZMod / AdjoinRoot + correspondence incl. exhaustive small fields"),
 "C09": ("proof: SkToPk/Sign/PopProve/Aggregate of the model equal the IETF draft-v4 procedures for all inputs; tags equal the draft strings; model tied to code by correspondence; "
         "real bytes compared with an independent composition", "6 C09", "Lean spec-equality theorems + correspondence + independent byte-level oracle"),
 "C10": ("proof (partial): hash_to_curve structure = RFC composition, SSWU for G1 returns a point of the isogenous curve with the RFC's x and sign (theorems); G2 SSWU / isogeny polynomial identities by correspondence against a straight-line RFC transcription", "6 C10",
         "Lean theorems (structure, G1 SSWU) + correspondence + RFC straight-line oracle"),
 "C11": ("proof: G1 codec fully (round trip, canonicity, exact accept set, the known finding K1 proved as a negative); G2 byte/flag level and decode-implies-on-curve; G2 round trip via the FQ2 square root", "6 C11",
         "Lean theorems about the codec model + correspondence on word tables"),
 "C12": ("proof (partial): exponent identities, split final exponentiation = plain power, two-step product form are theorems; optimized = reference Miller values by exact FQ12 correspondence of all four implementations", "6 C12",
         "Lean theorems (exponent identities) + exact correspondence of the four pairings"),
 "C13": ("proof: every control path of the translated projective add/double/neg/eq/is_on_curve/linefunc (both optimized modules) and of secp256k1's Jacobian add/double equals the affine law, for all triples over any field, any representative", "6 C13",
         "translator + field-generic polynomial-identity theorems (field_simp; ring)"),
 "C14": ("proof: optimized and reference classes are proved equal operation by operation (same quotient-ring value, injectivity on canonical representatives), incl. inverse/division for every irreducible modulus; sgn0 = RFC 9380", "6 C14",
         "refinement theorems + random expression-tree correspondence (reference, optimized, textbook)"),
 "C15": ("proof: expand_message_xmd and hash_to_field of the model equal the RFC 9380 specification for every hash, message, tag, length, count; exact error characterisation; model tied to code by hash-transcript correspondence", "6 C15",
         "Lean spec-equality theorems generic in the hash + transcript correspondence"),
 "C16": ("proof: HMAC/HKDF-Extract/Expand = RFC 2104/5869, KeyGen = draft v4 procedure, range [1, r-1], for all inputs", "6 C16",
         "Lean spec-equality theorems + correspondence with native SHA-256 model"),
 "C17": ("proof: subgroup_check <-> r.P = 0 for any representative over any field; mixed points rejected (coprimality proved); cofactor constants derived from x; clearing = h_eff multiplication; 'every curve point lands in the subgroup' needs #E = h r (HB2, Hasse bound not in Mathlib)", "6 C17",
         "Lean theorems (exactness, coprimality, constants) + correspondence on torsion-mixed points"),
 "C18": ("proof: translated secp256k1 add/multiply refine Mathlib's group on y^2=x^3+7 over ZMod P; #E = N proved elementarily; multiply(P, n) = (n mod N).P for every integer n; SEC 2 constants", "6 C18",
         "translator + refinement theorems + group-order proof + exhaustive small-curve runs of the real module"),
 "C19": ("proof: rejection conditions and error kinds, parity selection, and soundness of the recovered key over the proved group law", "6 C19",
         "Lean theorems about the ECDSA model over translated arithmetic + correspondence over the v,r,s tables"),
 "C20": ("proof: effect summaries of all 217 functions regenerated from source are clean (theorem all_clean); clean programs are history-independent in any heap semantics respecting the summaries (theorem clean_pure); the executable model is history-free; "
         "random interleavings on the real interpreter in two orders and in a fresh process", "6 C20",
         "static effect translator + Lean frame theorem + history correspondence"),
}


def main():
    checks = []
    for pid in sorted(P):
        text, ref, tech = P[pid]
        checks.append({
            "property_id": pid,
            "quick_cmd": f"./check {pid} --tier quick",
            "thorough_cmd": f"./check {pid} --tier thorough",
            "evidence_file": f"evidence/{pid}.json",
            "replay_cmd_template": f"./check {pid} --replay {{path}}",
            "engine": "lean4-proof+correspondence",
            "level_claimed": {"category": "proof", "text": text, "design_ref": "DESIGN.md §" + ref},
            "level_note": BASE_NOTE + "Named hypotheses (explicit theorem arguments, never axioms) and clauses not yet proved are listed per run in the evidence file "
                          "(coverage.hypotheses_used / not_yet_proved).",
            "technique": tech,
        })
    m = {
        "version": 1,
        "setup_cmd": "./setup.sh",
        "hooks": {
            "guard": "PY_ECC_VERIF",
            "enable": "no hooks are needed: the harness wraps hashlib constructors and `pairing` from outside the library; PY_ECC_VERIF is reserved and unused",
            "baseline_off_cmd": "cd /repo && /venv/bin/python -m pytest -ra -q -p no:cacheprovider --timeout=900 --continue-on-collection-errors",
            "source_commits": [],
            "add_only": True,
        },
        "engines": [{
            "name": "lean4-proof+correspondence", "path": "check",
            "serves_properties": sorted(P),
            "kind_free_text": "Lean 4 + Mathlib theorems about (a) Lean code regenerated from /repo by a Python-AST translator and (b) a hand-written executable model "
                              "compiled to a line-protocol driver and compared with the real library in-process on every run; failing-input search on the real code when a proof or the correspondence breaks",
        }],
        "checks": checks,
        "not_applicable": [],
        "notes": "fix: commits in /repo: 76795e2 (F1 iterative pow), 14d6352 (F2 KeyValidate length), b8477c7 (F3 reference double at y=0), c69d204 (F4 optimized eq at infinity). "
                 "Known finding K1 (C11) in known_findings.jsonl. See DESIGN.md.",
    }
    json.dump(m, open(os.path.join(VERIF, "MANIFEST.json"), "w"), indent=1)


if __name__ == "__main__":
    main()
