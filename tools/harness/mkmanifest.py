#!/venv/bin/python
"""writes /verif/MANIFEST.json from the per-property table below (kept next to the harness so it stays in sync)"""
import json
import os

HERE = os.path.dirname(os.path.abspath(__file__))
VERIF = os.path.abspath(os.path.join(HERE, "..", ".."))

BASE_NOTE = ("Trusted base: Lean 4.33 kernel, Mathlib v4.33 as compiled on the image, axioms propext/Classical.choice/Quot.sound only "
             "(audited with #print axioms on every run; no native_decide, no bv_decide, no sorry, no own axioms); the Python-AST->Lean translator "
             "(tools/translate) for Gen/*.lean, regenerated from /repo on every run — 204 of the 217 function/method definitions of py_ecc are translated "
             "(COVERAGE.md lists every one); for 162 of them the property theorems are stated about the hand-written executable model (lean/PyEcc/Model) and "
             "tie theorems Gen.f = Model.f (Props/Tie*.lean, audited with the property's own theorems) carry them to the generated definition; the model is "
             "additionally tied to /repo by the correspondence harness (tools/harness) on every run; CPython big-int arithmetic; hashlib/hmac. ")

P = {
 "C01": ("proof (partial): for ALL keys in [1, r-1], messages and the three suites, Sign/PopProve always return and Verify/PopVerify accept the result "
         "(C01_Proto, C01_ProtoHB2) — conditional ONLY on the explicit hypothesis ModelBilinearCode: the pairing function the code computes is additive in each argument (HB1); "
         "group orders, hash_to_G2-in-subgroup, non-degeneracy and representative independence are proved. Key rejection, "
         "KeyGen range are unconditional theorems. Model tied to the code by correspondence; round trips on the real code", "8.3 C01",
         "Lean theorems over the model (conditional on the named pairing hypotheses) + correspondence + round-trip predicates"),
 "C02": ("proof (partial): verify_iff — Verify/PopVerify return True iff the candidate is byte-for-byte Sign/PopProve, for all inputs and suites, plus the "
         "rejection corollaries (-S, 2S, S+T, identity, other key/message/tag) — conditional only on ModelBilinearCode (bilinearity of the pairing the code computes); canonical encodings, subgroup "
         "checks, totality are unconditional (C04, C11)", "8.3 C02",
         "Lean theorems (conditional on the named pairing hypotheses) + correspondence on candidate classes + exactness predicate"),
 "C03": ("proof (partial): Aggregate = encoding of the group sum, order/grouping independence, error behaviour are unconditional theorems; AggregateVerify / "
         "FastAggregateVerify accept iff the signature is the aggregate of the signers' own signatures and the suite preconditions hold — conditional only on ModelBilinearCode (bilinearity of the pairing the code computes)", "8.3 C03",
         "Lean theorems (Aggregate unconditional; verification conditional on the named pairing hypotheses) + correspondence + perturbation predicates"),
 "C04": ("proof: KeyValidate/Verify/AggregateVerify/FastAggregateVerify/PopVerify NEVER raise (C04_Total.never_raises; the 'unreachable' SWU exception is proved unreachable), "
         "return False for every non-canonical / out-of-subgroup / identity input, and every pairing argument is on the curve and in the subgroup — all unconditional theorems "
         "about the model, which is tied to the code by correspondence on a malformed stream", "8.3 C04",
         "Lean theorems over the exception model + correspondence on malformed inputs + pairing-argument trace"),
 "C05": ("proof (partial): unit on infinity, refusal of off-curve arguments with exact error characterisation (4 implementations), pairing values are r-th roots of unity, e(G2,G1) has order exactly r (kernel evaluation, thorough tier), and the "
         "scalar/negation/order corollaries of bilinearity are theorems; bilinearity itself is the named hypothesis HB1 (needs divisors; not in Mathlib), sampled on model and implementation", "8.3 C05",
         "Lean theorems (guards, corollaries of additivity) + exact FQ12 correspondence of the four Miller loops + bilinearity predicates"),
 "C06": ("proof: signature shape (v, low s), RFC 6979 nonce = specification, sign-then-recover returns privtopub(d) and the other v does not, verification equation — over the proved "
         "group law of secp256k1 (#E = N proved); hypotheses r, s != 0 mod N explicit", "8.3 C06",
         "Lean theorems about the ECDSA model over translated arithmetic + correspondence incl. substituted nonces"),
 "C07": ("proof: the translated add/double/neg/multiply of all four modules ARE Mathlib's elliptic-curve group for any field, any representative, every n (340 theorems): on E(Fp), "
         "E'(Fp2) and E(Fp12) of the concrete model; twist is an injective homomorphism; constants equal the standards; generators have order r; all four group orders proved "
         "(#E(Fp) = r bn128, = h1 r BLS12-381; twists (2p-r) r and h2 r)", "8.3 C07",
         "translator + refinement theorems to Mathlib's group + kernel-evaluated curve facts + correspondence"),
 "C08": ("proof: FQ is ZMod p for any prime; FQP is (ZMod p)[X]/(m) for any p and modulus, both classes; FQP.inv correct for any irreducible modulus; X^2+1 and both "
         "degree-12 moduli proved irreducible, so FQ2 and FQ12 are fields — no hypothesis left", "8.3 C08",
         "refinement theorems to ZMod / AdjoinRoot + correspondence incl. exhaustive small fields"),
 "C09": ("proof: SkToPk/Sign/PopProve/Aggregate of the model equal the IETF draft-v4 procedures for all inputs; tags equal the draft strings; model tied to code by correspondence; "
         "real bytes compared with an independent composition", "8.3 C09", "Lean spec-equality theorems + correspondence + independent byte-level oracle"),
 "C10": ("proof: SSWU for G1 and G2 equals the RFC 9380 straight-line map for EVERY field element incl. exceptional inputs (sgn0, branch choice, never raises), the isogeny maps land on "
         "the target curves (polynomial identities checked by reflection), hash_to_curve = RFC composition, results are on the curve and in the prime-order subgroup (group orders proved)", "8.3 C10",
         "Lean theorems (SSWU, isogeny by reflection, group orders) + correspondence + RFC straight-line oracle"),
 "C11": ("proof: G1 and G2 codecs completely: round trip for every on-curve point and representative, canonicity of everything the decoders accept, exact accept sets, ValueError otherwise; "
         "the known finding K1 (G1 points with x = 0) is proved as a negative and listed in known_findings.jsonl", "8.3 C11",
         "Lean theorems about the codec model + correspondence on word tables"),
 "C12": ("proof: optimized pairing = reference pairing for every subgroup point and projective representative, for BLS12-381 (Miller-loop induction) AND bn128 (signed digits: Miller's algorithm is "
         "well defined up to vertical lines, killed by the final exponent), split final exponentiation = plain power, exp_by_p = p-th power, two-step product form — all theorems", "8.3 C12",
         "Lean theorems (Miller-loop refinement, exponent identities) + exact correspondence of the four pairings"),
 "C13": ("proof: every control path of the translated projective add/double/neg/eq/is_on_curve/linefunc (both optimized modules) and of secp256k1's Jacobian add/double equals the "
         "affine law, for all triples over any field, any representative", "8.3 C13",
         "translator + field-generic polynomial-identity theorems (field_simp; ring)"),
 "C14": ("proof: optimized and reference classes are proved equal operation by operation (same quotient-ring value, injectivity on canonical representatives), incl. inverse/division "
         "for every irreducible modulus (FQ2, FQ12 instances hypothesis-free); sgn0 = RFC 9380", "8.3 C14",
         "refinement theorems + random expression-tree correspondence (reference, optimized, textbook)"),
 "C15": ("proof: expand_message_xmd and hash_to_field of the model equal the RFC 9380 specification for every hash, message, tag, length, count; exact error characterisation; "
         "model tied to code by hash-transcript correspondence", "8.3 C15", "Lean spec-equality theorems generic in the hash + transcript correspondence"),
 "C16": ("proof: HMAC/HKDF-Extract/Expand = RFC 2104/5869, KeyGen = draft v4 procedure, range [1, r-1], for all inputs", "8.3 C16",
         "Lean spec-equality theorems + correspondence with native SHA-256 model"),
 "C17": ("proof: subgroup_check <-> r.P = 0 for any representative (field-generic and on the concrete model); mixed points rejected; the r-torsion is exactly <generator>; "
         "cofactor constants derived from x; #E(Fp) = h1 r and #E'(Fp2) = h2 r PROVED elementarily, hence clearing maps EVERY curve point into the subgroup — no hypothesis left", "8.3 C17",
         "Lean theorems (exactness, group orders, constants) + correspondence on torsion-mixed points"),
 "C18": ("proof: translated secp256k1 add/multiply refine Mathlib's group on y^2=x^3+7 over ZMod P; #E = N proved; multiply(P, n) = (n mod N).P for every integer n; SEC 2 constants", "8.3 C18",
         "translator + refinement theorems + group-order proof + exhaustive small-curve runs of the real module"),
 "C19": ("proof: exact acceptance condition (ValueError iff v, r, s or the residue test fail), parity selection, and soundness/uniqueness of the recovered key over the proved group law", "8.3 C19",
         "Lean theorems about the ECDSA model over translated arithmetic + correspondence over the v,r,s tables"),
 "C20": ("proof: effect summaries of all 217 functions regenerated from source are clean (theorem all_clean); clean programs are history-independent in any heap semantics respecting the "
         "summaries (theorem clean_pure; the semantic link Sem.frame/Sem.det is a stated hypothesis); the executable model is history-free; random interleavings on the real interpreter in two "
         "orders and in a fresh process, value snapshots of arguments and constants", "8.3 C20",
         "static effect translator + Lean frame theorem + history correspondence"),
}


def main():
    checks = []
    for pid in sorted(P):
        text, ref, tech = P[pid]
        checks.append({
            "property_id": pid,
            "quick_cmd": f"./check {pid} --tier quick",
            "thorough_cmd": f"./check {pid} --tier thorough",
            "evidence_file": f"evidence/{pid}.json",
            "replay_cmd_template": f"./check {pid} --replay {{path}}",
            "engine": "lean4-proof+correspondence",
            "level_claimed": {"category": "proof", "text": text, "design_ref": "DESIGN.md §" + ref},
            "level_note": BASE_NOTE + "Named hypotheses (explicit theorem arguments, never axioms) and clauses not yet proved are listed per run in the evidence file "
                          "(coverage.hypotheses_used / not_yet_proved).",
            "technique": tech,
        })
    m = {
        "version": 1,
        "setup_cmd": "./setup.sh",
        "hooks": {
            "guard": "PY_ECC_VERIF",
            "enable": "no hooks are needed: the harness wraps hashlib constructors and `pairing` from outside the library; PY_ECC_VERIF is reserved and unused",
            "baseline_off_cmd": "cd /repo && /venv/bin/python -m pytest -ra -q -p no:cacheprovider --timeout=900 --continue-on-collection-errors",
            "source_commits": [],
            "add_only": True,
        },
        "engines": [{
            "name": "lean4-proof+correspondence", "path": "check",
            "serves_properties": sorted(P),
            "kind_free_text": "Lean 4 + Mathlib theorems about (a) Lean code regenerated from /repo by a Python-AST translator and (b) a hand-written executable model "
                              "compiled to a line-protocol driver and compared with the real library in-process on every run; failing-input search on the real code when a proof or the correspondence breaks",
        }],
        "checks": checks,
        "not_applicable": [],
        "notes": "fix: commits in /repo: 76795e2 (F1 iterative pow), 14d6352 (F2 KeyValidate length), b8477c7 (F3 reference double at y=0), c69d204 (F4 optimized eq at infinity). "
                 "Known finding K1 (C11) in known_findings.jsonl. See DESIGN.md.",
    }
    json.dump(m, open(os.path.join(VERIF, "MANIFEST.json"), "w"), indent=1)


if __name__ == "__main__":
    main()
