#!/venv/bin/python
"""
check — decide one property on the CURRENT working tree of the repository (DESIGN §3.6).

  check.py Cxx [--tier quick|thorough] [--replay path]

 1. regenerate lean/PyEcc/Gen from the source (translator)             -> broken tie?
 2. lake build PyEcc.Props.Cxx + driver                                  -> broken proofs?
 3. audit: `#print axioms` for every theorem of Props/Cxx, forbidden-token grep
 4. correspondence: real code vs compiled model on generated cases       -> disagreements?
 4b statement-level predicates on the real code (also replays known findings)
 5. verdict, 6. evidence/Cxx.json
Exit 0 = held; 1 = VIOLATION line printed; 2 = infrastructure trouble (no VIOLATION line).
"""
import argparse
import fcntl
import importlib
import json
import os
import re
import subprocess
import sys
import time

HERE = os.path.dirname(os.path.abspath(__file__))
sys.path.insert(0, HERE)
import common  # noqa: E402
from common import LEAN_DIR, VERIF  # noqa: E402

ALLOWED_AXIOMS = {"propext", "Classical.choice", "Quot.sound"}
FORBIDDEN = re.compile(r"\bsorry\b|\badmit\b|^\s*axiom\s|native_decide|bv_decide|implemented_by|\bunsafe\s|maxHeartbeats\s+0\b")

TRUSTED_BASE = [
    "Lean 4.33.0 kernel (thorough tier: re-checked with leanchecker)",
    "Mathlib v4.33.0 as compiled on this image",
    "axioms: propext, Classical.choice, Quot.sound only (audited with #print axioms on every run)",
    "tools/translate (Python AST -> Lean) for Gen/*.lean; cross-examined by the correspondence run",
    "tools/harness (correspondence harness, canonicalisation) and CPython big-int arithmetic",
    "hashlib / hmac (external C code; modelled as a function parameter H, native SHA-256 model validated against hashlib)",
]


def sh(cmd, cwd=None, timeout=3600, env=None):
    r = subprocess.run(cmd, cwd=cwd, capture_output=True, text=True, timeout=timeout, env=env)
    return r.returncode, r.stdout, r.stderr


def strip_comments(src):
    src = re.sub(r"/-.*?-/", "", src, flags=re.S)
    src = re.sub(r"--.*", "", src)
    return src


def theorems_of(path):
    """[(name, first_line, last_line)] of theorem declarations in a Props file (namespace-qualified)"""
    if not os.path.exists(path):
        return []
    src = open(path).read()
    # blank out comments (keeping line numbers) so that prose like "a theorem here" is not parsed
    src = re.sub(r"/-.*?-/", lambda m: "\n" * m.group(0).count("\n"), src, flags=re.S)
    src = re.sub(r"--.*", "", src)
    lines = src.split("\n")
    out = []
    ns = []
    for i, ln in enumerate(lines):
        m = re.match(r"\s*namespace\s+(\S+)", ln)
        if m:
            ns.append(m.group(1))
        m = re.match(r"\s*end\s+(\S+)\s*$", ln)
        if m and ns and ns[-1] == m.group(1):
            ns.pop()
        # private helper theorems are not property theorems (their axioms show up in the public theorems that use them)
        m = re.match(r"\s*(?:@\[[^\]]*\]\s*)?(?:protected\s+)?theorem\s+([^\s:({\[]+)", ln)
        if m:
            out.append([".".join(ns + [m.group(1)]), i + 1, None])
    for k in range(len(out)):
        out[k][2] = (out[k + 1][1] - 1) if k + 1 < len(out) else len(lines)
    return [tuple(t) for t in out]


def _tb_tail(n=6):
    """the innermost frames of the current exception: which library call, with which generator line, raised what"""
    import traceback
    tb = traceback.format_exc().strip().split("\n")
    return " | ".join(x.strip() for x in tb[-2 * n:])[:1500]


def props_files(prop, tier="quick"):
    """module names (relative to PyEcc) of the property's theorem files: Props/Cxx*.lean always, PropsHeavy/Cxx*.lean
    (kernel computations that take many minutes) only in the thorough tier"""
    out = []
    for sub in (["Props"] + (["PropsHeavy"] if tier == "thorough" else [])):
        d = os.path.join(LEAN_DIR, "PyEcc", sub)
        if os.path.isdir(d):
            out += [f"{sub}.{f[:-5]}" for f in sorted(os.listdir(d)) if re.match(rf"{prop}([_A-Za-z0-9]*)\.lean$", f)]
    return out


def lean_import_closure(roots):
    """module names reachable through `import` lines inside the lake project (PyEcc.*, Driver)"""
    seen, stack = set(), list(roots)
    while stack:
        m = stack.pop()
        if m in seen:
            continue
        seen.add(m)
        path = os.path.join(LEAN_DIR, *m.split(".")) + ".lean"
        if not os.path.exists(path):
            continue
        for ln in open(path):
            mm = re.match(r"\s*(?:public\s+)?import\s+(PyEcc\.[A-Za-z0-9_.]+|Driver)\s*$", ln)
            if mm:
                stack.append(mm.group(1))
    return seen


def instantiate_templates():
    """Props/*.lean.tpl -> Props/*_<NS>.lean (one copy per generated namespace); write-if-changed"""
    d = os.path.join(LEAN_DIR, "PyEcc", "Props")
    if not os.path.isdir(d):
        return
    for f in sorted(os.listdir(d)):
        if not f.endswith(".lean.tpl"):
            continue
        src = open(os.path.join(d, f)).read()
        m = re.search(r"^-- INSTANTIATE:\s*(.*)$", src, flags=re.M)
        if not m:
            continue
        for ns in m.group(1).split():
            out = src.replace("@NS@", ns)
            out = "-- GENERATED from " + f + " by tools/harness/check.py (template instantiation). DO NOT EDIT.\n" + out
            path = os.path.join(d, f[:-len(".lean.tpl")] + "_" + ns + ".lean")
            old = open(path).read() if os.path.exists(path) else None
            if old != out:
                open(path, "w").write(out)


def write_audit(prop, thms_by_mod):
    d = os.path.join(LEAN_DIR, "PyEcc", "Audit")
    os.makedirs(d, exist_ok=True)
    path = os.path.join(d, prop + ".lean")
    txt = "-- GENERATED by tools/harness/check.py: axiom audit for property " + prop + "\n"
    for mod in thms_by_mod:
        txt += f"import PyEcc.{mod}\n"
    for mod, thms in thms_by_mod.items():
        for name, _, _ in thms:
            txt += f"#print axioms {name}\n"
    old = open(path).read() if os.path.exists(path) else None
    if old != txt:
        open(path, "w").write(txt)
    return path


def parse_axioms(out):
    """{'thm': [axioms]} from `#print axioms` output (theorem names may contain primes)"""
    res = {}
    flat = re.sub(r"\n\s+", " ", out)
    for m in re.finditer(r"^'(.+)' depends on axioms: \[([^\]]*)\]", flat, flags=re.M):
        res[m.group(1)] = [a.strip() for a in m.group(2).split(",") if a.strip()]
    for m in re.finditer(r"^'(.+)' does not depend on any axioms", flat, flags=re.M):
        res[m.group(1)] = []
    return res


def forbidden_scan():
    hits = []
    for root, _, files in os.walk(os.path.join(LEAN_DIR, "PyEcc")):
        for f in files:
            if f.endswith(".lean"):
                p = os.path.join(root, f)
                src = strip_comments(open(p).read())
                for i, ln in enumerate(src.split("\n")):
                    if FORBIDDEN.search(ln):
                        hits.append(f"{os.path.relpath(p, LEAN_DIR)}:{i + 1}: {ln.strip()[:120]}")
    return hits


def build_errors(out):
    """[(file, line, msg)] from lake output"""
    errs = []
    for m in re.finditer(r"^error: ([^\s:]+\.lean):(\d+):(\d+): (.*)$", out, flags=re.M):
        errs.append((m.group(1), int(m.group(2)), m.group(4)[:300]))
    return errs


def main():
    ap = argparse.ArgumentParser()
    ap.add_argument("prop")
    ap.add_argument("--tier", default=os.environ.get("VERIF_TIER", "quick"))
    ap.add_argument("--replay", default=None)
    a = ap.parse_args()
    prop = a.prop
    tier = a.tier if a.tier in ("quick", "thorough") else "quick"
    try:
        seed = int(os.environ.get("VERIF_SEED", "20260929"))
    except ValueError:
        seed = 20260929
    t0 = time.time()
    pm = importlib.import_module("props." + prop.lower())

    os.makedirs(os.path.join(VERIF, "evidence"), exist_ok=True)
    os.makedirs(os.path.join(VERIF, "replays"), exist_ok=True)

    broken = {"tie": [], "theorems": [], "build": [], "audit": [], "correspondence": []}
    infra = []

    lock = open(os.path.join(VERIF, ".check.lock"), "w")
    fcntl.flock(lock, fcntl.LOCK_EX)
    try:
        # 1. regenerate
        rc, out, err = sh([sys.executable, os.path.join(VERIF, "tools", "translate", "gen.py"), "--repo", common.REPO])
        gen = {}
        try:
            gen = json.loads(out.strip().split("\n")[-1])
        except Exception:  # noqa: BLE001
            infra.append("translator crashed: " + (err or out)[-500:])
        gen_errors = gen.get("errors", [])
        effects_errs = []
        if hasattr(pm, "pre_build"):
            effects_errs = pm.pre_build() or []
            broken["tie"] += effects_errs
        instantiate_templates()
        # 2. build
        mods = props_files(prop, tier)
        thms_by_mod = {m: theorems_of(os.path.join(LEAN_DIR, "PyEcc", *m.split(".")) + ".lean") for m in mods}
        # theorems of this property that live in another property's file (selected by namespace prefix)
        for m, prefix in getattr(pm, "EXTRA_MODULES", {}).items():
            path = os.path.join(LEAN_DIR, "PyEcc", *m.split(".")) + ".lean"
            if os.path.exists(path) and m not in thms_by_mod:
                mods.append(m)
                thms_by_mod[m] = [t for t in theorems_of(path) if t[0].startswith(prefix)]
        # a translator failure breaks the tie of THIS property only if the failed Gen file is one its theorems or the driver import
        closure = lean_import_closure([f"PyEcc.{m}" for m in mods] + ["Driver"])
        for name, msg in gen_errors:
            if f"PyEcc.Gen.{name}" in closure:
                broken["tie"].append(f"Gen/{name}: {msg[:600]}")
        # canonical-text substitution (tools/translate/canon.py): where the translation of the current source differs from the
        # canonical text the theorems are proved about, the generated ties `GenRaw.X.f = Gen.X.f` are obligations of this property
        for x, chg in sorted(gen.get("canon_substituted", {}).items()):
            if f"PyEcc.Gen.{x}" in closure:
                m = f"Gen.TieRaw{x}"
                path = os.path.join(LEAN_DIR, "PyEcc", "Gen", f"TieRaw{x}.lean")
                if os.path.exists(path) and m not in thms_by_mod:
                    mods.append(m)
                    thms_by_mod[m] = theorems_of(path)
        audit_path = write_audit(prop, thms_by_mod)
        tie_mods = [m for m in mods if m.startswith("Gen.TieRaw")]
        targets = [f"PyEcc.{m}" for m in mods if m not in tie_mods] + ["driver"]
        rc, out, err = sh(["lake", "build"] + targets, cwd=LEAN_DIR, timeout=7200)
        build_out = out + err
        built_ok = rc == 0
        tie_timeout = False
        if tie_mods:
            # the generated ties are built separately and under a time limit: a tie that does not check in time is a broken
            # obligation (not an infrastructure failure) — the failing-input search then decides what is reported
            try:
                rc2, out2, err2 = sh(["lake", "build"] + [f"PyEcc.{m}" for m in tie_mods], cwd=LEAN_DIR, timeout=600)
            except subprocess.TimeoutExpired:
                rc2, out2, err2 = 1, "", ""
                tie_timeout = True
                sh(["pkill", "-f", "PyEcc/Gen/TieRaw"])
                for m in tie_mods:
                    broken["theorems"] += [n for n, _, _ in thms_by_mod[m] if n not in broken["theorems"]]
            build_out += out2 + err2
            built_ok = built_ok and rc2 == 0
            rc = rc or rc2
        if not built_ok:
            errs = build_errors(build_out)
            if not errs and not tie_timeout:
                infra.append("lake build failed without Lean errors: " + build_out[-800:])
            for f, ln, msg in errs:
                hit = None
                for m, thms in thms_by_mod.items():
                    if f.endswith(m.replace(".", "/") + ".lean"):
                        for name, lo, hi in thms:
                            if lo <= ln <= hi:
                                hit = name
                if hit:
                    if hit not in broken["theorems"]:
                        broken["theorems"].append(hit)
                else:
                    broken["build"].append(f"{f}:{ln}: {msg}")
            # a dependency failed: every theorem of the property is unchecked
            if broken["build"] and not broken["theorems"]:
                broken["theorems"] = [n for thms in thms_by_mod.values() for n, _, _ in thms]
        driver_ok = os.path.exists(common.DRIVER) and not any("Driver" in b or "Model" in b or "Gen" in b for b in broken["build"])
        # 3. audit
        n_thms = sum(len(t) for t in thms_by_mod.values())
        axioms = {}
        if built_ok and n_thms:
            rc, out, err = sh(["lake", "env", "lean", os.path.relpath(audit_path, LEAN_DIR)], cwd=LEAN_DIR, timeout=3600)
            axioms = parse_axioms(out + err)
            for m, thms in thms_by_mod.items():
                for name, _, _ in thms:
                    if name not in axioms:
                        broken["audit"].append(f"{name}: no #print axioms output")
                    elif not set(axioms[name]) <= ALLOWED_AXIOMS:
                        broken["audit"].append(f"{name}: axioms {sorted(set(axioms[name]) - ALLOWED_AXIOMS)}")
        for h in forbidden_scan():
            broken["audit"].append("forbidden token: " + h)
        leanchecker = None
        if tier == "thorough" and built_ok and mods and os.environ.get("VERIF_SKIP_LEANCHECKER") != "1":
            rc, out, err = sh(["lake", "env", "leanchecker"] + [f"PyEcc.{m}" for m in mods], cwd=LEAN_DIR, timeout=7200)
            leanchecker = (rc == 0)
            if rc != 0:
                broken["audit"].append("leanchecker: " + (out + err)[-400:])
    finally:
        fcntl.flock(lock, fcntl.LOCK_UN)

    discharged = 0
    if built_ok:
        discharged = sum(1 for thms in thms_by_mod.values() for name, _, _ in thms
                         if name in axioms and set(axioms[name]) <= ALLOWED_AXIOMS)

    rng = common.rng_for(prop, seed)
    # replay mode: run just the recorded ops / predicate
    corr_cases = []
    preds = []
    gen_failures = []
    if a.replay:
        rp = json.load(open(a.replay))
        for ln in rp.get("ops", []):
            parts = ln.split("\t")
            corr_cases.append(common.Case(parts[0], parts[1:], extra=rp.get("extra", {})))
        preds = pm.predicates(rng, tier, only=rp.get("predicate")) if rp.get("predicate") else []
    else:
        # the generators build some inputs WITH the library (signatures to aggregate, points to encode …) — on valid arguments, so on
        # the unchanged tree they never raise; if one raises, the call it made is itself a failing input (recorded as such below)
        if driver_ok:
            try:
                corr_cases = pm.cases(rng, tier)
            except Exception:  # noqa: BLE001
                gen_failures.append(("input-construction", "building the correspondence inputs: " + _tb_tail()))
        try:
            preds = pm.predicates(rng, tier)
        except Exception:  # noqa: BLE001
            gen_failures.append(("input-construction", "building the predicate inputs: " + _tb_tail()))

    # 4. correspondence
    disagreements = []
    corr_results = []
    bad_ops = []
    if corr_cases and driver_ok:
        corr_results = common.run_cases(corr_cases, chunk=getattr(pm, "CHUNK", None))
        for idx, impl, model in corr_results:
            if model.startswith("bad-op") or model.startswith("missing"):
                bad_ops.append((corr_cases[idx].key(), model))
            elif impl != model:
                disagreements.append({"op": corr_cases[idx].key(), "impl": impl[:600], "model": model[:600]})
    if bad_ops:
        # a harness/driver bug, or the driver could not be run: never silently skipped
        infra.append(f"{len(bad_ops)} bad-op/missing answers, e.g. {bad_ops[0]}")
    for d in disagreements[:50]:
        broken["correspondence"].append(d["op"][:200])

    # 4b. statement-level predicates on the real code
    known = [k for k in common.load_known_findings() if k.get("property") == prop]
    pred_results = common.run_preds(preds)
    failures = []
    known_hits = []
    for name, ok, detail, match in pred_results:
        if ok:
            continue
        k = next((k for k in known if k.get("status") == "known" and k.get("match") == match and match), None)
        if k:
            known_hits.append((k, name, detail))
        else:
            failures.append({"predicate": name, "detail": detail, "match": match})
    for name, detail in gen_failures:
        failures.append({"predicate": name, "detail": detail, "match": {}})

    something_broke = any(broken[k] for k in broken)
    # 5. verdict
    searched = 0
    if not failures and something_broke and not a.replay and hasattr(pm, "search"):
        # failing-input search: the property's own predicates, larger sample, around the breakage
        try:
            extra = pm.search(rng, tier, broken, disagreements)
        except Exception:  # noqa: BLE001
            extra = []
            failures.append({"predicate": "input-construction", "detail": "building the search inputs: " + _tb_tail(), "match": {}})
        res = common.run_preds(extra)
        searched = len(res)
        for name, ok, detail, match in res:
            if not ok:
                k = next((k for k in known if k.get("status") == "known" and k.get("match") == match and match), None)
                if not k:
                    failures.append({"predicate": name, "detail": detail, "match": match})

    for k, name, detail in {id(k): (k, n, d) for k, n, d in known_hits}.values():
        print(f"KNOWN-FINDING: property={prop} {k.get('id', '')} {k.get('what', '')}")

    exit_code = 0
    replay_path = None
    if failures or something_broke:
        kind = "failing-input" if failures else "no-failing-input-found"
        replay_path = os.path.join("replays", f"{prop}-{seed}-{tier}.json")
        replay = {
            "property": prop, "tier": tier, "seed": seed, "kind": kind,
            "failing": failures[:20],
            "broken": {k: v[:40] for k, v in broken.items() if v},
            "disagreements": disagreements[:20],
            "ops": [d["op"] for d in disagreements[:20]],
            "predicate": failures[0]["predicate"] if failures else None,
            "rerun": f"./check {prop} --replay {replay_path}",
        }
        json.dump(replay, open(os.path.join(VERIF, replay_path), "w"), indent=1)
        exit_code = 1
    if infra and exit_code == 0:
        exit_code = 2

    # 6. evidence
    keys = {}
    nontrivial = 0
    for idx, impl, model in corr_results:
        c = corr_cases[idx]
        if c.key() in keys:
            continue
        keys[c.key()] = 1
        if pm.nontrivial(c, impl):
            nontrivial += 1
    pred_distinct = len({(n, json.dumps(m, sort_keys=True)) for n, _, _, m in pred_results})
    samples = [{"op": corr_cases[idx].key()[:300], "impl": impl[:200], "model": model[:200]}
               for idx, impl, model in corr_results[:3]]
    samples += [{"predicate": n, "ok": ok, "detail": d[:200]} for n, ok, d, _ in pred_results[:3]]
    samples += [{"theorem": n, "axioms": axioms.get(n)} for thms in thms_by_mod.values() for n, _, _ in thms[:3]]
    hist = {}
    for idx, impl, model in corr_results:
        k = corr_cases[idx].op + ":" + impl.split("\t")[0] + (":" + impl.split("\t")[1] if impl.startswith("err") else "")
        hist[k] = hist.get(k, 0) + 1
    ev = {
        "property_id": prop, "tier": tier, "seed": seed, "level": "proof",
        "coverage": {
            "obligations": n_thms, "discharged": discharged,
            "checker_cmd": "cd lean && lake build " + " ".join(f"PyEcc.{m}" for m in mods) +
                           f" && lake env lean PyEcc/Audit/{prop}.lean   # (driven by ./check {prop})",
            "trusted_base": TRUSTED_BASE + getattr(pm, "TRUSTED_EXTRA", []),
            "theorems": [{"name": n, "axioms": axioms.get(n)} for thms in thms_by_mod.values() for n, _, _ in thms],
            "hypotheses_used": getattr(pm, "HYPOTHESES", []),
            "not_yet_proved": getattr(pm, "NOT_YET_PROVED", []),
            "evaluations": len(corr_results) + len(pred_results) + searched,
            "distinct_nontrivial": nontrivial + pred_distinct,
            "rule": getattr(pm, "RULE", "") + " | distinct = distinct protocol line (correspondence) or distinct (predicate, input) pair; "
                    "non-trivial = the implementation returned a value (not an error) that is not the identity/zero/empty",
            "samples": samples,
            "traces_validated_against_impl": len(corr_results),
            "correspondence_disagreements": len(disagreements),
            "predicate_evaluations": len(pred_results),
            "predicate_failures": len(failures),
            "known_findings_replayed": len(known_hits),
            "branch_histogram": dict(sorted(hist.items())[:80]),
            "regenerated": gen.get("changed", []),
            "canon_substituted": gen.get("canon_substituted", {}),
            "leanchecker_ok": leanchecker,
            "broken": {k: v[:10] for k, v in broken.items() if v},
            "infrastructure": infra,
        },
        "assumptions": getattr(pm, "ASSUMPTIONS", []),
        "wall_s": round(time.time() - t0, 2),
        "violations": len(failures) if failures else (1 if something_broke else 0),
    }
    if n_thms == 0:
        # no theorem yet for this property: the proof-level keys would be meaningless; the schema's fallback
        # (evaluations / distinct_nontrivial) describes what this run did
        ev["coverage"].pop("obligations")
        ev["coverage"].pop("discharged")
        ev["coverage"]["explanation"] = "no theorem of this property has been checked in this run; correspondence and predicates only"
    json.dump(ev, open(os.path.join(VERIF, "evidence", prop + ".json"), "w"), indent=1)

    if exit_code == 1:
        tail = "" if failures else " no-failing-input-found"
        print(f"VIOLATION property={prop} replay={replay_path}{tail}")
    elif exit_code == 2:
        print("INFRASTRUCTURE: " + "; ".join(infra)[:1000], file=sys.stderr)
    else:
        print(f"OK property={prop} tier={tier} theorems={discharged}/{n_thms} correspondence={len(corr_results)} "
              f"predicates={len(pred_results)} wall={ev['wall_s']}s")
    return exit_code


if __name__ == "__main__":
    try:
        rc = main()
    except SystemExit:
        raise
    except Exception:  # noqa: BLE001  — a crash of the machinery is never reported as a verdict about the property
        import traceback
        traceback.print_exc()
        print("INFRASTRUCTURE: the check itself crashed (see the traceback); no verdict", file=sys.stderr)
        rc = 2
    sys.exit(rc)
